/-
  Lemmas for C15, the edge lookup by id: `strings.Split(gid, "-")` on lists of characters
  (`splitDash`), `ParseEdge` on strings (`parseEdge`), the per-source step of `GetEdge`, soundness
  and completeness of `tgGetEdge` against the materialised graph, and the step semantics with
  `E(ids)` allowed.
-/
import Grip.Model.C15
import Grip.Spec.C15
import Grip.Spec.C15Edge
import GripProofs.Lemmas.C15
import GripProofs.Lemmas.C15Edges
import GripProofs.Lemmas.C15Run

namespace Grip.Props.C15.Lemmas
open Grip Grip.C15 Grip.Spec.C15

/-! ### `splitDash` (strings.Split at '-') on character lists -/

theorem splitDash_ne_nil (l : List Char) : splitDash l ≠ [] := by
  cases l with
  | nil => simp [splitDash]
  | cons c cs =>
    simp only [splitDash]
    split
    · simp
    · split <;> simp

theorem splitDash_cons_dash (cs : List Char) : splitDash ('-' :: cs) = [] :: splitDash cs := by
  simp only [splitDash]
  cases h : splitDash cs with
  | nil => exact absurd h (splitDash_ne_nil cs)
  | cons p ps => simp

theorem splitDash_cons_other (c : Char) (cs : List Char) (hc : c ≠ '-') :
    ∃ p ps, splitDash cs = p :: ps ∧ splitDash (c :: cs) = (c :: p) :: ps := by
  cases h : splitDash cs with
  | nil => exact absurd h (splitDash_ne_nil cs)
  | cons p ps =>
    refine ⟨p, ps, rfl, ?_⟩
    simp [splitDash, h, hc]

/-- A dash-free run followed by a `-`: the run is the first part. -/
theorem splitDash_append_dash (a rest : List Char) (ha : ∀ c ∈ a, c ≠ '-') :
    splitDash (a ++ '-' :: rest) = a :: splitDash rest := by
  induction a with
  | nil => exact splitDash_cons_dash rest
  | cons c a ih =>
    have hc : c ≠ '-' := ha c List.mem_cons_self
    have ih' := ih (fun x hx => ha x (List.mem_cons_of_mem _ hx))
    obtain ⟨p, ps, h1, h2⟩ := splitDash_cons_other c (a ++ '-' :: rest) hc
    rw [List.cons_append, h2]
    rw [ih'] at h1
    cases h1
    rfl

/-- A dash-free string is one part. -/
theorem splitDash_noDash (a : List Char) (ha : ∀ c ∈ a, c ≠ '-') : splitDash a = [a] := by
  induction a with
  | nil => rfl
  | cons c a ih =>
    have hc : c ≠ '-' := ha c List.mem_cons_self
    have ih' := ih (fun x hx => ha x (List.mem_cons_of_mem _ hx))
    obtain ⟨p, ps, h1, h2⟩ := splitDash_cons_other c a hc
    rw [h2]
    rw [ih'] at h1
    cases h1
    rfl

/-- `len(strings.Split(s, "-"))` = number of `-` + 1. -/
theorem splitDash_length (l : List Char) : (splitDash l).length = l.count '-' + 1 := by
  induction l with
  | nil => rfl
  | cons c cs ih =>
    by_cases hc : c = '-'
    · subst hc
      rw [splitDash_cons_dash]
      simp [ih]
    · obtain ⟨p, ps, h1, h2⟩ := splitDash_cons_other c cs hc
      rw [h2]
      rw [h1] at ih
      have : (c == '-') = false := by simpa using hc
      simpa [List.count_cons, this] using ih

/-- No part holds a `-`. -/
theorem splitDash_parts_noDash (l : List Char) : ∀ p ∈ splitDash l, ∀ c ∈ p, c ≠ '-' := by
  induction l with
  | nil => intro p hp c hc; simp [splitDash] at hp; subst hp; cases hc
  | cons c cs ih =>
    by_cases hc : c = '-'
    · subst hc
      rw [splitDash_cons_dash]
      intro p hp
      rcases List.mem_cons.1 hp with rfl | hp
      · intro c hc; cases hc
      · exact ih p hp
    · obtain ⟨p, ps, h1, h2⟩ := splitDash_cons_other c cs hc
      rw [h2]
      rw [h1] at ih
      intro q hq
      rcases List.mem_cons.1 hq with rfl | hq
      · intro x hx
        rcases List.mem_cons.1 hx with rfl | hx
        · exact hc
        · exact ih p List.mem_cons_self x hx
      · exact ih q (List.mem_cons_of_mem _ hq)

/-- `strings.Join(parts, "-")`. -/
def joinDash : List (List Char) → List Char
  | [] => []
  | [p] => p
  | p :: q :: ps => p ++ '-' :: joinDash (q :: ps)

theorem joinDash_cons_cons (c : Char) (p : List Char) (ps : List (List Char)) :
    joinDash ((c :: p) :: ps) = c :: joinDash (p :: ps) := by
  cases ps <;> rfl

/-- Splitting loses nothing: joining the parts gives the string back. -/
theorem joinDash_splitDash (l : List Char) : joinDash (splitDash l) = l := by
  induction l with
  | nil => rfl
  | cons c cs ih =>
    by_cases hc : c = '-'
    · subst hc
      rw [splitDash_cons_dash]
      cases h : splitDash cs with
      | nil => exact absurd h (splitDash_ne_nil cs)
      | cons p ps =>
        rw [h] at ih
        simp [joinDash, ih]
    · obtain ⟨p, ps, h1, h2⟩ := splitDash_cons_other c cs hc
      rw [h2, joinDash_cons_cons, ← h1, ih]

/-- Exactly three parts: the string is `a-b-c` with dash-free `a`, `b`, `c`, and conversely. -/
theorem splitDash_eq_three (l a b c : List Char) :
    splitDash l = [a, b, c] ↔
      (l = a ++ '-' :: (b ++ '-' :: c) ∧ (∀ x ∈ a, x ≠ '-') ∧ (∀ x ∈ b, x ≠ '-') ∧ (∀ x ∈ c, x ≠ '-')) := by
  constructor
  · intro h
    have hj := joinDash_splitDash l
    have hn := splitDash_parts_noDash l
    rw [h] at hj hn
    refine ⟨hj.symm, hn a (by simp), hn b (by simp), hn c (by simp)⟩
  · rintro ⟨rfl, ha, hb, hc⟩
    rw [splitDash_append_dash a _ ha, splitDash_append_dash b _ hb, splitDash_noDash c hc]

/-! ### `parseEdge` (ParseEdge) on strings -/

theorem noDash_iff (s : String) : noDash s = true ↔ ∀ c ∈ s.toList, c ≠ '-' := by
  simp [noDash]

theorem noDash_iff_count (s : String) : noDash s = true ↔ dashCount s = 0 := by
  rw [noDash_iff, dashCount, List.count_eq_zero]
  constructor
  · intro h hm; exact h _ hm rfl
  · intro h c hc heq; subst heq; exact h hc

theorem noDash_ofList (l : List Char) : noDash (String.ofList l) = true ↔ ∀ c ∈ l, c ≠ '-' := by
  rw [noDash_iff, String.toList_ofList]

theorem noDash_append (a b : String) : noDash (a ++ b) = (noDash a && noDash b) := by
  simp [noDash, String.toList_append]

/-- The characters of an id of the GenID shape. -/
theorem id_toList (a b c : String) :
    (a ++ "-" ++ b ++ "-" ++ c).toList = a.toList ++ '-' :: (b.toList ++ '-' :: c.toList) := by
  have h : "-".toList = ['-'] := rfl
  simp [String.toList_append, h]

theorem dashCount_id (a b c : String) :
    dashCount (a ++ "-" ++ b ++ "-" ++ c) = dashCount a + dashCount b + dashCount c + 2 := by
  simp only [dashCount, id_toList, List.count_append, List.count_cons, beq_self_eq_true, if_true]
  omega

/-- ParseEdge succeeds exactly on the ids `a-b-c` with dash-free parts, and returns them
    (in ParseEdge's order: source, destination, label). -/
theorem parseEdge_eq_some_iff (key a b c : String) :
    parseEdge key = some (a, c, b) ↔
      (key = a ++ "-" ++ b ++ "-" ++ c ∧ noDash a = true ∧ noDash b = true ∧ noDash c = true) := by
  constructor
  · intro h
    unfold parseEdge at h
    split at h
    · rename_i x y z hs
      simp only [Option.some.injEq, Prod.mk.injEq] at h
      obtain ⟨rfl, rfl, rfl⟩ := h
      obtain ⟨hk, hx, hy, hz⟩ := (splitDash_eq_three _ _ _ _).1 hs
      refine ⟨?_, (noDash_ofList x).2 hx, (noDash_ofList y).2 hy, (noDash_ofList z).2 hz⟩
      apply String.ext
      rw [id_toList, hk]
      simp [String.toList_ofList]
    · cases h
  · rintro ⟨rfl, ha, hb, hc⟩
    have hs : splitDash (a ++ "-" ++ b ++ "-" ++ c).toList = [a.toList, b.toList, c.toList] := by
      rw [id_toList]
      exact (splitDash_eq_three _ _ _ _).2 ⟨rfl, (noDash_iff a).1 ha, (noDash_iff b).1 hb, (noDash_iff c).1 hc⟩
    simp only [parseEdge, hs, String.ofList_toList]

/-- ParseEdge refuses exactly the ids that do not hold two `-`. -/
theorem parseEdge_eq_none_iff (key : String) : parseEdge key = none ↔ dashCount key ≠ 2 := by
  have hl := splitDash_length key.toList
  unfold parseEdge dashCount
  split
  · rename_i x y z hs
    rw [hs] at hl
    simp only [List.length_cons, List.length_nil] at hl
    constructor
    · intro h; cases h
    · intro h; omega
  · rename_i hne
    constructor
    · intro _ h2
      rw [h2] at hl
      match hsp : splitDash key.toList, hl with
      | [x, y, z], _ => exact hne x y z hsp
    · intro _; rfl

theorem parseEdge_some_or_none (key : String) :
    parseEdge key = none ∨ ∃ a b c, parseEdge key = some (a, c, b) := by
  cases h : parseEdge key with
  | none => exact Or.inl rfl
  | some p => exact Or.inr ⟨p.1, p.2.2, p.2.1, rfl⟩

/-! ### the per-source step of GetEdge -/

/-- What GetEdge does with one edge source, after ParseEdge (the body of its inner loop). -/
def edgeAt (t : Tables) (src dst label : String) (es : ESource) : Option Elem :=
  if es.label == label && hasPfx es.fromPfx src && hasPfx es.toPfx dst then
    let srcID := dropPfx es.fromPfx src
    let dstID := dropPfx es.toPfx dst
    if srcID == "" || dstID == "" then none else
    (((t.rowsByField es.table es.fromField srcID).filter
        (fun r => fieldString r.data es.toField == some dstID)).getLast?).map (fun r =>
      { gid := es.genID srcID dstID, to := es.cfgTo ++ dstID, frm := es.cfgFrom ++ srcID,
        label := es.label, data := r.data })
  else none

theorem tgGetEdge_eq (t : Tables) (m : Mapping) (key : String) :
    tgGetEdge t m key =
      match parseEdge key with
      | none => none
      | some (src, dst, label) =>
        ((srcOrder m).flatMap (outSources m)).findSome? (edgeAt t src dst label) := rfl

/-- The sources GetEdge walks through are outbound sources of declared edge types … -/
theorem mem_sources (m : Mapping) (es : ESource) (h : es ∈ (srcOrder m).flatMap (outSources m)) :
    ∃ e ∈ m.edges, es = outSource e := by
  obtain ⟨p, _, hes⟩ := List.mem_flatMap.1 h
  obtain ⟨e, he, rfl⟩ := List.mem_map.1 hes
  exact ⟨e, (List.mem_filter.1 he).1, rfl⟩

/-- … and (edge types between declared vertex types) all of them. -/
theorem outSource_mem_sources (m : Mapping) (hd : EndsDeclared m) (e : EType) (he : e ∈ m.edges) :
    outSource e ∈ (srcOrder m).flatMap (outSources m) := by
  refine List.mem_flatMap.2 ⟨e.frm, frm_mem_srcOrder m hd e he, ?_⟩
  exact List.mem_map.2 ⟨e, List.mem_filter.2 ⟨he, by simp⟩, rfl⟩

/-- The edge a link row with the given (non-empty) link values stands for. -/
theorem specEdge_of_fields (e : EType) (r : TRow) (f d : String)
    (hf : fieldString r.data e.fromField = some f) (hdd : fieldString r.data e.toField = some d)
    (hfe : f ≠ "") (hde : d ≠ "") :
    specEdge e r = some { gid := e.frm ++ f ++ "-" ++ e.label ++ "-" ++ e.to ++ d, frm := e.frm ++ f,
                          to := e.to ++ d, label := e.label, data := r.data } := by
  simp [specEdge, hf, hdd, hfe, hde]

/-- One source answers: its answer is the edge of one of its link rows, with the id asked for. -/
theorem edgeAt_sound (t : Tables) (e : EType) (src dst label : String) (x : Elem)
    (h : edgeAt t src dst label (outSource e) = some x) :
    (∃ r ∈ t.rows e.table, specEdge e r = some x) ∧ x.gid = src ++ "-" ++ label ++ "-" ++ dst := by
  simp only [edgeAt] at h
  by_cases hc0 : ((outSource e).label == label && hasPfx (outSource e).fromPfx src &&
      hasPfx (outSource e).toPfx dst) = true
  · rw [if_pos hc0] at h
    have hc : (e.label == label && hasPfx e.frm src && hasPfx e.to dst) = true := hc0
    simp only [Bool.and_eq_true, beq_iff_eq] at hc
    obtain ⟨⟨hl, hps⟩, hpd⟩ := hc
    by_cases hne0 : (dropPfx (outSource e).fromPfx src == "" || dropPfx (outSource e).toPfx dst == "") = true
    · rw [if_pos hne0] at h; cases h
    · rw [if_neg hne0] at h
      have hne : ¬ (dropPfx e.frm src == "" || dropPfx e.to dst == "") = true := hne0
      simp only [Bool.or_eq_true, beq_iff_eq, not_or] at hne
      simp only [outSource] at h
      obtain ⟨r, hr, hx⟩ := Option.map_eq_some_iff.1 h
      have hm := List.mem_of_getLast? hr
      simp only [Tables.rowsByField, List.mem_filter, beq_iff_eq] at hm
      obtain ⟨⟨hrt, hf⟩, hdd⟩ := hm
      have hs := specEdge_of_fields e r _ _ hf hdd hne.1 hne.2
      have hsrc : e.frm ++ dropPfx e.frm src = src := (pfx_append_eq _ _ _).2 ⟨hps, rfl⟩
      have hdst : e.to ++ dropPfx e.to dst = dst := (pfx_append_eq _ _ _).2 ⟨hpd, rfl⟩
      constructor
      · refine ⟨r, hrt, ?_⟩
        rw [hs, ← hx]
        simp [ESource.genID, String.append_assoc]
      · rw [← hx]
        simp only [ESource.genID, Bool.false_eq_true, if_false]
        rw [← hl]
        conv => rhs; rw [← hsrc, ← hdst]
        simp [String.append_assoc]
  · rw [if_neg hc0] at h; cases h

/-- A link row that is an edge is found by the source of its edge type, when asked with the three
    parts of its id. -/
theorem edgeAt_complete (t : Tables) (e : EType) (r : TRow) (hr : r ∈ t.rows e.table) (f d : String)
    (hf : fieldString r.data e.fromField = some f) (hdd : fieldString r.data e.toField = some d)
    (hfe : f ≠ "") (hde : d ≠ "") :
    (edgeAt t (e.frm ++ f) (e.to ++ d) e.label (outSource e)).isSome = true := by
  unfold edgeAt
  simp only [outSource, hasPfx_append, dropPfx_append, beq_self_eq_true, Bool.and_self, if_true]
  have h1 : (f == "" || d == "") = false := by simp [hfe, hde]
  simp only [h1, Bool.false_eq_true, if_false, Option.isSome_map, List.getLast?_isSome]
  intro hnil
  have : r ∈ ((t.rowsByField e.table e.fromField f).filter
      (fun r => fieldString r.data e.toField == some d)) := by
    simp [Tables.rowsByField, List.mem_filter, hr, hf, hdd]
  rw [hnil] at this
  cases this

/-! ### soundness and completeness of GetEdge -/

/-- GetEdge answers only with an edge of the materialised graph that carries the id asked for
    (no hypothesis on tables or mapping). -/
theorem getEdge_sound (t : Tables) (m : Mapping) (key : String) (x : Elem)
    (h : tgGetEdge t m key = some x) : x ∈ (materialise t m).edges ∧ x.gid = key := by
  rw [tgGetEdge_eq] at h
  rcases parseEdge_some_or_none key with hp | ⟨a, b, c, hp⟩
  · rw [hp] at h; cases h
  · rw [hp] at h
    simp only at h
    obtain ⟨es, hes, hx⟩ := List.exists_of_findSome?_eq_some h
    obtain ⟨e, he, rfl⟩ := mem_sources m es hes
    obtain ⟨⟨r, hr, hs⟩, hg⟩ := edgeAt_sound t e a c b x hx
    constructor
    · simp only [materialise, List.mem_flatMap, List.mem_filterMap]
      exact ⟨e, he, r, hr, hs⟩
    · rw [hg]
      exact ((parseEdge_eq_some_iff key a b c).1 hp).1.symm

/-- Every materialised edge: how it arises. -/
theorem mem_edges (t : Tables) (m : Mapping) (x : Elem) (hx : x ∈ (materialise t m).edges) :
    ∃ e ∈ m.edges, ∃ r ∈ t.rows e.table, ∃ f d,
        fieldString r.data e.fromField = some f ∧ fieldString r.data e.toField = some d ∧
        f ≠ "" ∧ d ≠ "" ∧
        x = { gid := e.frm ++ f ++ "-" ++ e.label ++ "-" ++ e.to ++ d, frm := e.frm ++ f, to := e.to ++ d,
              label := e.label, data := r.data } := by
  simp only [materialise, List.mem_flatMap, List.mem_filterMap] at hx
  obtain ⟨e, he, r, hr, hs⟩ := hx
  refine ⟨e, he, r, hr, ?_⟩
  unfold specEdge at hs
  split at hs
  · rename_i f d hf hd
    split at hs
    · rename_i hne
      simp only [Bool.and_eq_true, bne_iff_ne, ne_eq] at hne
      exact ⟨f, d, hf, hd, hne.1, hne.2, (Option.some.inj hs).symm⟩
    · cases hs
  · cases hs

/-- The id of a materialised edge is `frm-label-to`. -/
theorem edge_gid (t : Tables) (m : Mapping) (x : Elem) (hx : x ∈ (materialise t m).edges) :
    x.gid = x.frm ++ "-" ++ x.label ++ "-" ++ x.to := by
  obtain ⟨e, _, r, _, f, d, _, _, _, _, rfl⟩ := mem_edges t m x hx
  simp [String.append_assoc]

/-- GetEdge finds every materialised edge whose id ParseEdge accepts (edge types between declared
    vertex types). -/
theorem getEdge_complete (t : Tables) (m : Mapping) (hd : EndsDeclared m) (x : Elem)
    (hx : x ∈ (materialise t m).edges) (hp : parseEdge x.gid ≠ none) : tgGetEdge t m x.gid ≠ none := by
  obtain ⟨e, he, r, hr, f, d, hf, hdd, hfe, hde, rfl⟩ := mem_edges t m x hx
  have hid : e.frm ++ f ++ "-" ++ e.label ++ "-" ++ e.to ++ d = (e.frm ++ f) ++ "-" ++ e.label ++ "-" ++ (e.to ++ d) := by
    simp [String.append_assoc]
  simp only at hp ⊢
  rw [hid] at hp ⊢
  have hcount : dashCount (e.frm ++ f) = 0 ∧ dashCount e.label = 0 ∧ dashCount (e.to ++ d) = 0 := by
    have h2 : dashCount ((e.frm ++ f) ++ "-" ++ e.label ++ "-" ++ (e.to ++ d)) = 2 := by
      by_cases h : dashCount ((e.frm ++ f) ++ "-" ++ e.label ++ "-" ++ (e.to ++ d)) = 2
      · exact h
      · exact absurd ((parseEdge_eq_none_iff _).2 h) hp
    rw [dashCount_id] at h2
    omega
  have hparse : parseEdge ((e.frm ++ f) ++ "-" ++ e.label ++ "-" ++ (e.to ++ d)) =
      some (e.frm ++ f, e.to ++ d, e.label) :=
    (parseEdge_eq_some_iff _ _ _ _).2
      ⟨rfl, (noDash_iff_count _).2 hcount.1, (noDash_iff_count _).2 hcount.2.1, (noDash_iff_count _).2 hcount.2.2⟩
  rw [tgGetEdge_eq, hparse]
  simp only
  intro hnone
  have h1 := List.findSome?_eq_none_iff.1 hnone (outSource e) (outSource_mem_sources m hd e he)
  have h2 := edgeAt_complete t e r hr f d hf hdd hfe hde
  rw [h1] at h2
  cases h2

/-! ### the dash-free hypotheses -/

/-- ParseEdge accepts the id of a materialised edge exactly when its two ends and its label hold no `-`. -/
theorem edge_parses_iff (t : Tables) (m : Mapping) (x : Elem) (hx : x ∈ (materialise t m).edges) :
    parseEdge x.gid ≠ none ↔ (noDash x.frm = true ∧ noDash x.label = true ∧ noDash x.to = true) := by
  rw [edge_gid t m x hx, Ne, parseEdge_eq_none_iff, dashCount_id, noDash_iff_count, noDash_iff_count,
    noDash_iff_count]
  omega

/-- … and then ParseEdge returns these three parts. -/
theorem edge_parse (t : Tables) (m : Mapping) (x : Elem) (hx : x ∈ (materialise t m).edges)
    (h : noDash x.frm = true ∧ noDash x.label = true ∧ noDash x.to = true) :
    parseEdge x.gid = some (x.frm, x.to, x.label) := by
  rw [edge_gid t m x hx]
  exact (parseEdge_eq_some_iff _ _ _ _).2 ⟨rfl, h.1, h.2.1, h.2.2⟩

/-- The id of a materialised edge holds at least two `-`. -/
theorem edge_dashCount (t : Tables) (m : Mapping) (x : Elem) (hx : x ∈ (materialise t m).edges) :
    2 ≤ dashCount x.gid := by
  rw [edge_gid t m x hx, dashCount_id]
  omega

theorem edgeParts_of_dashFreeEdges (t : Tables) (m : Mapping) (h : DashFreeEdges t m) :
    EdgePartsDashFree t m := by
  intro x hx
  obtain ⟨e, he, r, hr, f, d, hf, hdd, hfe, hde, rfl⟩ := mem_edges t m x hx
  obtain ⟨h1, h2, h3, h4⟩ := h e he
  have h5 := h4 r hr
  simp only [linkDashFree, hf, hdd, Bool.or_eq_true, beq_iff_eq, hfe, hde, false_or,
    Bool.and_eq_true] at h5
  simp only [noDash_append, h1, h2, h3, h5.1, h5.2, Bool.and_self, and_self]

theorem dashFreeEdges_of_dashFree (t : Tables) (m : Mapping) (hd : EndsDeclared m) (h : DashFree t m) :
    DashFreeEdges t m := by
  intro e he
  obtain ⟨v1, hv1, hp1⟩ := List.mem_map.1 (hd e he).1
  obtain ⟨v2, hv2, hp2⟩ := List.mem_map.1 (hd e he).2
  refine ⟨?_, ?_, h.1.2 e he, h.2 e he⟩
  · rw [← hp1]; exact (h.1.1 v1 hv1).1
  · rw [← hp2]; exact (h.1.1 v2 hv2).1

/-- A vertex the materialised graph finds is a row of a vertex type. -/
theorem getVertex_some (t : Tables) (m : Mapping) (key : String)
    (h : ((materialise t m).getVertex key).isSome = true) :
    ∃ v ∈ m.verts, ∃ r ∈ t.rows v.table, key = v.pfx ++ r.id := by
  obtain ⟨x, hx⟩ := Option.isSome_iff_exists.1 h
  have hm := List.mem_of_find?_eq_some hx
  have hg : x.gid = key := by simpa using List.find?_some hx
  simp only [materialise, List.mem_flatMap, List.mem_map] at hm
  obtain ⟨v, hv, r, hr, rfl⟩ := hm
  exact ⟨v, hv, r, hr, hg.symm⟩

/-- The hypothesis as the task words it (`DashFreeIds`) is enough when no edge dangles. -/
theorem edgeParts_of_ids_noDangling (t : Tables) (m : Mapping) (h : DashFreeIds t m)
    (hn : NoDangling t m) : EdgePartsDashFree t m := by
  intro x hx
  obtain ⟨h1, h2⟩ := hn x hx
  obtain ⟨v1, hv1, r1, hr1, e1⟩ := getVertex_some t m _ h1
  obtain ⟨v2, hv2, r2, hr2, e2⟩ := getVertex_some t m _ h2
  refine ⟨?_, ?_, ?_⟩
  · rw [e1, noDash_append, (h.1 v1 hv1).1, (h.1 v1 hv1).2 r1 hr1]; rfl
  · obtain ⟨e, he, r, hr, f, d, _, _, _, _, rfl⟩ := mem_edges t m x hx
    exact h.2 e he
  · rw [e2, noDash_append, (h.1 v2 hv2).1, (h.1 v2 hv2).2 r2 hr2]; rfl

/-! ### GetEdge against the materialised graph's lookup -/

/-- When ParseEdge accepts the id of every materialised edge carrying `key`, and edges sharing an
    id are equal, GetEdge is the materialised graph's lookup at `key`. -/
theorem getEdge_eq_of (t : Tables) (m : Mapping) (hd : EndsDeclared m) (hs : SharedIdsAgree t m)
    (key : String) (hfind : ∀ x ∈ (materialise t m).edges, x.gid = key → parseEdge key ≠ none) :
    tgGetEdge t m key = (materialise t m).getEdge key := by
  unfold AGraph.getEdge
  cases h1 : tgGetEdge t m key with
  | some x =>
    obtain ⟨hx, hg⟩ := getEdge_sound t m key x h1
    cases h2 : (materialise t m).edges.find? (·.gid == key) with
    | none =>
      have := List.find?_eq_none.1 h2 x hx
      simp [hg] at this
    | some y =>
      have hy := List.mem_of_find?_eq_some h2
      have hyg : y.gid = key := by simpa using List.find?_some h2
      rw [hs x hx y hy (hg.trans hyg.symm)]
  | none =>
    cases h2 : (materialise t m).edges.find? (·.gid == key) with
    | none => rfl
    | some y =>
      have hy := List.mem_of_find?_eq_some h2
      have hyg : y.gid = key := by simpa using List.find?_some h2
      have hp := hfind y hy hyg
      rw [← hyg] at hp h1
      exact absurd h1 (getEdge_complete t m hd y hy hp)

theorem getEdge_eq_of_parts (t : Tables) (m : Mapping) (hd : EndsDeclared m) (hs : SharedIdsAgree t m)
    (hdf : EdgePartsDashFree t m) (key : String) :
    tgGetEdge t m key = (materialise t m).getEdge key := by
  refine getEdge_eq_of t m hd hs key ?_
  rintro x hx rfl
  exact (edge_parses_iff t m x hx).2 (hdf x hx)

/-- Without any dash-free hypothesis: the two lookups agree on every id with at most two `-`. -/
theorem getEdge_eq_of_le_two (t : Tables) (m : Mapping) (hd : EndsDeclared m) (hs : SharedIdsAgree t m)
    (key : String) (hk : dashCount key ≤ 2) :
    tgGetEdge t m key = (materialise t m).getEdge key := by
  refine getEdge_eq_of t m hd hs key ?_
  rintro x hx rfl
  have := edge_dashCount t m x hx
  intro hnone
  exact (parseEdge_eq_none_iff _).1 hnone (by omega)

/-- `dashLookup` (Spec.C15) spelled out: some looked-up id holds more than two `-`. -/
theorem dashLookup_false_iff (stmts : List Stmt) :
    dashLookup stmts = false ↔ ∀ id ∈ lookedUp stmts, dashCount id ≤ 2 := by
  induction stmts with
  | nil => simp [dashLookup, lookedUp]
  | cons s rest ih =>
    cases s
    case E ids =>
      simp only [dashLookup, lookedUp, Bool.or_eq_false_iff, ih, List.mem_append, List.any_eq_false,
        splitDash_length, dashCount]
      constructor
      · rintro ⟨h1, h2⟩ id (hid | hid)
        · have := h1 id hid
          simp only [gt_iff_lt, decide_eq_true_eq] at this
          omega
        · exact h2 id hid
      · intro h
        refine ⟨fun id hid => ?_, fun id hid => h id (Or.inr hid)⟩
        have := h id (Or.inl hid)
        simp only [gt_iff_lt, decide_eq_true_eq]
        omega
    all_goals simpa [dashLookup, lookedUp] using ih

/-! ### the step semantics with `E(ids)` allowed -/

theorem filterMap_congr_mem {α β} (f g : α → Option β) (l : List α) (h : ∀ a ∈ l, f a = g a) :
    l.filterMap f = l.filterMap g := by
  induction l with
  | nil => rfl
  | cons a l ih =>
    simp only [List.filterMap_cons, h a List.mem_cons_self,
      ih (fun x hx => h x (List.mem_cons_of_mem _ hx))]

theorem mem_lookedUp_head (ids : List String) (rest : List Stmt) (id : String) (h : id ∈ ids) :
    id ∈ lookedUp (.E ids :: rest) := by
  simp [lookedUp, h]

theorem mem_lookedUp_tail (s : Stmt) (rest : List Stmt) (id : String) (h : id ∈ lookedUp rest) :
    id ∈ lookedUp (s :: rest) := by
  cases s <;> simp [lookedUp, h]

/-- One statement, `E(ids)` included: interfaces that agree as multisets and answer this
    statement's edge lookups alike give agreeing outputs on agreeing inputs. -/
theorem evalStepR_permE (numOf : String → Option Int) {a b : Reads} (h : ReadsPerm a b)
    (from_ : DataType) (s : Stmt) (hs : orderFree s = true)
    (hE : ∀ ids, s = .E ids → ∀ id ∈ ids, a.getEdge id = b.getEdge id)
    (ts₁ ts₂ : List Traveler) (hp : ts₁.Perm ts₂) :
    (evalStepR numOf a from_ s ts₁).Perm (evalStepR numOf b from_ s ts₂) := by
  cases s
  case E ids =>
    cases ids with
    | nil => exact evalStepR_perm numOf h from_ _ rfl _ _ hp
    | cons i is =>
      refine perm_flatMap _ _ hp (fun t => ?_)
      have hf : (i :: is).filterMap a.getEdge = (i :: is).filterMap b.getEdge :=
        filterMap_congr_mem _ _ _ (hE (i :: is) rfl)
      simp only [rStepE, List.isEmpty_cons, Bool.false_eq_true, if_false, hf]
      exact List.Perm.refl _
  all_goals
    exact evalStepR_perm numOf h from_ _ (by simpa [plainStmt, noEdgeLookup] using hs) _ _ hp

theorem evalFromR_permE (numOf : String → Option Int) {a b : Reads} (h : ReadsPerm a b) :
    ∀ (stmts : List Stmt), (∀ s ∈ stmts, orderFree s = true) →
      (∀ id ∈ lookedUp stmts, a.getEdge id = b.getEdge id) →
      ∀ (st : TState) (ts₁ ts₂ : List Traveler),
      ts₁.Perm ts₂ → (evalFromR numOf a st ts₁ stmts).Perm (evalFromR numOf b st ts₂ stmts)
  | [], _, _, _, _, _, hp => hp
  | s :: rest, hs, hE, st, ts₁, ts₂, hp => by
    simp only [evalFromR]
    cases typeStep st s with
    | error e => exact List.Perm.refl _
    | ok st' =>
      refine evalFromR_permE numOf h rest (fun x hx => hs x (List.mem_cons_of_mem _ hx))
        (fun id hid => hE id (mem_lookedUp_tail s rest id hid)) st' _ _
        (evalStepR_permE numOf h st.last s (hs s List.mem_cons_self) ?_ ts₁ ts₂ hp)
      rintro ids rfl id hid
      exact hE id (mem_lookedUp_head ids rest id hid)

theorem runPlainR_permE (numOf : String → Option Int) {a b : Reads} (h : ReadsPerm a b)
    (stmts : List Stmt) (hs : ∀ s ∈ stmts, orderFree s = true)
    (hE : ∀ id ∈ lookedUp stmts, a.getEdge id = b.getEdge id) :
    SameRows (runPlainR numOf a stmts) (runPlainR numOf b stmts) := by
  unfold runPlainR
  cases typeCheck stmts with
  | error e => simp [SameRows]
  | ok st =>
    simp only
    split
    · simp [SameRows]
    · simp only [SameRows]
      exact (evalFromR_permE numOf h stmts hs hE {} _ _ (List.Perm.refl _)).map _

end Grip.Props.C15.Lemmas
