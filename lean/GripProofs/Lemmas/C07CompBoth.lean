/-
  Lemmas for C07, composition: `both.Process` as deployed, embedded in a pipeline
  (Grip.Model.C07Comp §3), is a well-behaved component whenever its two branches are.
-/
import GripProofs.Lemmas.C07Comp

namespace Grip.Props.C07.Lemmas
open Grip.C07

structure BothInv {α : Type} {C0 C1 : Comp α} (L0 : Laws C0) (L1 : Laws C1) (s : BothS C0 C1) : Prop where
  i0 : L0.inv s.s0
  i1 : L1.inv s.s1
  c0 : C0.closed s.s0 = s.fedClosed
  c1 : C1.closed s.s1 = s.fedClosed
  fed : s.fedClosed = true → s.fh = .idle ∧ s.inbuf = [] ∧ s.inClosed = true
  dn : s.done = true → s.fedClosed = true ∧ C0.ended s.s0 = true ∧ C1.ended s.s1 = true ∧ s.held = []
  idx : ∀ t i, s.fh = .fan t i → i < 2

theorem both_feeding {α : Type} {C0 C1 : Comp α} {L0 : Laws C0} {L1 : Laws C1} {s : BothS C0 C1}
    (hi : BothInv L0 L1 s) (h : s.fh ≠ .idle ∨ s.inbuf ≠ [] ∨ s.inClosed = false) :
    s.fedClosed = false ∧ s.done = false := by
  have hf : s.fedClosed = false := by
    cases hf : s.fedClosed with
    | false => rfl
    | true =>
      obtain ⟨h1, h2, h3⟩ := hi.fed hf
      rcases h with h | h | h
      · exact absurd h1 h
      · exact absurd h2 h
      · rw [h3] at h; cases h
  refine ⟨hf, ?_⟩
  cases hd : s.done with
  | false => rfl
  | true => have := (hi.dn hd).1; rw [hf] at this; cases this

theorem both_inv_tau {α : Type} {C0 C1 : Comp α} {L0 : Laws C0} {L1 : Laws C1} {sig : α → Bool}
    {s s' : BothS C0 C1} (hi : BothInv L0 L1 s) (h : BothTau C0 C1 sig s s') : BothInv L0 L1 s' := by
  cases h with
  | @take t ts hfh hb =>
    obtain ⟨hf, hd⟩ := both_feeding hi (Or.inr (Or.inl (by rw [hb]; simp)))
    exact { i0 := hi.i0, i1 := hi.i1, c0 := hi.c0, c1 := hi.c1
            fed := fun h => by rw [hf] at h; cases h
            dn := fun h => by rw [hd] at h; cases h
            idx := fun t' i h => by
              by_cases hs : sig t = true
              · simp [hs] at h
              · simp [hs] at h; omega }
  | @push0 t hfh hroom =>
    obtain ⟨hf, hd⟩ := both_feeding hi (Or.inl (by rw [hfh]; simp))
    have hopen : C0.closed s.s0 = false := by rw [hi.c0, hf]
    exact { i0 := L0.inv_put t hi.i0 hopen hroom, i1 := hi.i1
            c0 := by rw [← hi.c0]; exact L0.closed_put t hi.i0
            c1 := hi.c1
            fed := fun h => by rw [hf] at h; cases h
            dn := fun h => by rw [hd] at h; cases h
            idx := fun t' i h => by simp at h; omega }
  | @push1 t hfh hroom =>
    obtain ⟨hf, hd⟩ := both_feeding hi (Or.inl (by rw [hfh]; simp))
    have hopen : C1.closed s.s1 = false := by rw [hi.c1, hf]
    exact { i0 := hi.i0, i1 := L1.inv_put t hi.i1 hopen hroom
            c0 := hi.c0
            c1 := by rw [← hi.c1]; exact L1.closed_put t hi.i1
            fed := fun h => by rw [hf] at h; cases h
            dn := fun h => by rw [hd] at h; cases h
            idx := fun t' i h => by simp at h }
  | @closeFeed hfh hb hc hf =>
    have hd : s.done = false := by
      cases hd : s.done with
      | false => rfl
      | true => have := (hi.dn hd).1; rw [hf] at this; cases this
    exact { i0 := L0.inv_shut hi.i0 (by rw [hi.c0, hf]), i1 := L1.inv_shut hi.i1 (by rw [hi.c1, hf])
            c0 := L0.closed_shut hi.i0, c1 := L1.closed_shut hi.i1
            fed := fun _ => ⟨hfh, hb, hc⟩
            dn := fun h => by rw [hd] at h; cases h
            idx := fun t' i h => by rw [hfh] at h; cases h }
  | @in0 u h =>
    exact { i0 := L0.inv_tau hi.i0 h, i1 := hi.i1
            c0 := by rw [← hi.c0]; exact L0.closed_tau hi.i0 h
            c1 := hi.c1, fed := hi.fed
            dn := fun hd => by
              obtain ⟨h1, h2, h3, h4⟩ := hi.dn hd
              exact ⟨h1, by rw [← h2]; exact L0.ended_tau hi.i0 h, h3, h4⟩
            idx := hi.idx }
  | @in1 u h =>
    exact { i0 := hi.i0, i1 := L1.inv_tau hi.i1 h
            c0 := hi.c0
            c1 := by rw [← hi.c1]; exact L1.closed_tau hi.i1 h
            fed := hi.fed
            dn := fun hd => by
              obtain ⟨h1, h2, h3, h4⟩ := hi.dn hd
              exact ⟨h1, h2, by rw [← h3]; exact L1.ended_tau hi.i1 h, h4⟩
            idx := hi.idx }
  | @fin0 u h =>
    exact { i0 := L0.inv_fin hi.i0 h, i1 := hi.i1
            c0 := by rw [← hi.c0]; exact L0.closed_fin hi.i0 h
            c1 := hi.c1, fed := hi.fed
            dn := fun hd => by
              obtain ⟨h1, h2, h3, h4⟩ := hi.dn hd
              exact ⟨h1, L0.ended_fin hi.i0 h, h3, h4⟩
            idx := hi.idx }
  | @fin1 u h =>
    exact { i0 := hi.i0, i1 := L1.inv_fin hi.i1 h
            c0 := hi.c0
            c1 := by rw [← hi.c1]; exact L1.closed_fin hi.i1 h
            fed := hi.fed
            dn := fun hd => by
              obtain ⟨h1, h2, h3, h4⟩ := hi.dn hd
              exact ⟨h1, h2, L1.ended_fin hi.i1 h, h4⟩
            idx := hi.idx }
  | @collect y u h =>
    exact { i0 := hi.i0, i1 := L1.inv_out hi.i1 h
            c0 := hi.c0
            c1 := by rw [← hi.c1]; exact L1.closed_out hi.i1 h
            fed := hi.fed
            dn := fun hd => by
              obtain ⟨_, _, h3, _⟩ := hi.dn hd
              have := L1.live_out hi.i1 h
              rw [h3] at this; cases this
            idx := hi.idx }

theorem both_inv_out {α : Type} {C0 C1 : Comp α} {L0 : Laws C0} {L1 : Laws C1}
    {s s' : BothS C0 C1} {y : α} (hi : BothInv L0 L1 s) (h : BothOut C0 C1 s y s') : BothInv L0 L1 s' := by
  cases h with
  | @sigOut hfh =>
    exact { i0 := hi.i0, i1 := hi.i1, c0 := hi.c0, c1 := hi.c1
            fed := fun h => ⟨rfl, (hi.fed h).2⟩
            dn := hi.dn
            idx := fun t' i h => by cases h }
  | @fwd0 u h =>
    exact { i0 := L0.inv_out hi.i0 h, i1 := hi.i1
            c0 := by rw [← hi.c0]; exact L0.closed_out hi.i0 h
            c1 := hi.c1, fed := hi.fed
            dn := fun hd => by
              obtain ⟨h1, h2, h3, h4⟩ := hi.dn hd
              exact ⟨h1, by rw [← h2]; exact L0.ended_out hi.i0 h, h3, h4⟩
            idx := hi.idx }
  | @flush ys hf h0 h1 hh =>
    exact { i0 := hi.i0, i1 := hi.i1, c0 := hi.c0, c1 := hi.c1, fed := hi.fed
            dn := fun hd => by
              have := (hi.dn hd).2.2.2
              rw [hh] at this; cases this
            idx := hi.idx }

theorem both_inv_fin {α : Type} {C0 C1 : Comp α} {L0 : Laws C0} {L1 : Laws C1}
    {s s' : BothS C0 C1} (hi : BothInv L0 L1 s) (h : BothFin C0 C1 s s') : BothInv L0 L1 s' := by
  cases h with
  | mk hf h0 h1 hh hd =>
    exact { i0 := hi.i0, i1 := hi.i1, c0 := hi.c0, c1 := hi.c1, fed := hi.fed
            dn := fun _ => ⟨hf, h0, h1, hh⟩
            idx := hi.idx }

theorem both_inv_put {α : Type} {C0 C1 : Comp α} {L0 : Laws C0} {L1 : Laws C1}
    {s : BothS C0 C1} (x : α) (hi : BothInv L0 L1 s) (hc : s.inClosed = false) :
    BothInv L0 L1 { s with inbuf := s.inbuf ++ [x] } := by
  obtain ⟨hf, hd⟩ := both_feeding hi (Or.inr (Or.inr hc))
  exact { i0 := hi.i0, i1 := hi.i1, c0 := hi.c0, c1 := hi.c1
          fed := fun h => by rw [hf] at h; cases h
          dn := fun h => by rw [hd] at h; cases h
          idx := hi.idx }

theorem both_inv_shut {α : Type} {C0 C1 : Comp α} {L0 : Laws C0} {L1 : Laws C1}
    {s : BothS C0 C1} (hi : BothInv L0 L1 s) (hc : s.inClosed = false) :
    BothInv L0 L1 { s with inClosed := true } := by
  obtain ⟨hf, hd⟩ := both_feeding hi (Or.inr (Or.inr hc))
  exact { i0 := hi.i0, i1 := hi.i1, c0 := hi.c0, c1 := hi.c1
          fed := fun h => by rw [hf] at h; cases h
          dn := fun h => by rw [hd] at h; cases h
          idx := hi.idx }

/-! ### flags -/

theorem both_closed_tau {α : Type} {C0 C1 : Comp α} {sig : α → Bool} {s s' : BothS C0 C1}
    (h : BothTau C0 C1 sig s s') : s'.inClosed = s.inClosed ∧ s'.done = s.done := by
  cases h <;> exact ⟨rfl, rfl⟩

theorem both_closed_out {α : Type} {C0 C1 : Comp α} {s s' : BothS C0 C1} {y : α}
    (h : BothOut C0 C1 s y s') : s'.inClosed = s.inClosed ∧ s'.done = s.done := by
  cases h <;> exact ⟨rfl, rfl⟩

theorem both_live_out {α : Type} {C0 C1 : Comp α} {L0 : Laws C0} {L1 : Laws C1}
    {s s' : BothS C0 C1} {y : α} (hi : BothInv L0 L1 s) (h : BothOut C0 C1 s y s') : s.done = false := by
  cases hd : s.done with
  | false => rfl
  | true =>
    obtain ⟨h1, h2, h3, h4⟩ := hi.dn hd
    cases h with
    | @sigOut hfh => have := (hi.fed h1).1; rw [hfh] at this; cases this
    | @fwd0 u h => have := L0.live_out hi.i0 h; rw [h2] at this; cases this
    | @flush ys _ _ _ hh => rw [hh] at h4; cases h4

/-! ### progress -/

theorem both_progress {α : Type} {C0 C1 : Comp α} {L0 : Laws C0} {L1 : Laws C1} {sig : α → Bool} {cap : Nat}
    (hcap : 0 < cap) {s : BothS C0 C1} (hi : BothInv L0 L1 s) (he : s.done = false) :
    (∃ s', BothTau C0 C1 sig s s') ∨ (∃ y s', BothOut C0 C1 s y s') ∨ (∃ s', BothFin C0 C1 s s') ∨
      (s.inbuf.length < cap ∧ s.inClosed = false) := by
  -- a branch that is not finished and cannot take input moves
  have move0 : C0.ended s.s0 = false → (C0.closed s.s0 = true ∨ ¬ C0.room s.s0) →
      (∃ s', BothTau C0 C1 sig s s') ∨ (∃ y s', BothOut C0 C1 s y s') := by
    intro hne hb
    rcases L0.progress hi.i0 hne with ⟨u, hu⟩ | ⟨y, u, hu⟩ | ⟨u, hu⟩ | ⟨hroom, hopen⟩
    · exact Or.inl ⟨_, BothTau.in0 hu⟩
    · exact Or.inr ⟨y, _, BothOut.fwd0 hu⟩
    · exact Or.inl ⟨_, BothTau.fin0 hu⟩
    · rcases hb with hb | hb
      · rw [hopen] at hb; cases hb
      · exact absurd hroom hb
  have move1 : C1.ended s.s1 = false → (C1.closed s.s1 = true ∨ ¬ C1.room s.s1) →
      (∃ s', BothTau C0 C1 sig s s') := by
    intro hne hb
    rcases L1.progress hi.i1 hne with ⟨u, hu⟩ | ⟨y, u, hu⟩ | ⟨u, hu⟩ | ⟨hroom, hopen⟩
    · exact ⟨_, BothTau.in1 hu⟩
    · exact ⟨_, BothTau.collect hu⟩
    · exact ⟨_, BothTau.fin1 hu⟩
    · rcases hb with hb | hb
      · rw [hopen] at hb; cases hb
      · exact absurd hroom hb
  have open_live0 : s.fedClosed = false → C0.ended s.s0 = false := by
    intro hf
    cases h : C0.ended s.s0 with
    | false => rfl
    | true => have := L0.ended_closed hi.i0 h; rw [hi.c0, hf] at this; cases this
  have open_live1 : s.fedClosed = false → C1.ended s.s1 = false := by
    intro hf
    cases h : C1.ended s.s1 with
    | false => rfl
    | true => have := L1.ended_closed hi.i1 h; rw [hi.c1, hf] at this; cases this
  cases hfh : s.fh with
  | sig t => exact Or.inr (Or.inl ⟨t, _, BothOut.sigOut hfh⟩)
  | fan t i =>
    obtain ⟨hf, _⟩ := both_feeding hi (Or.inl (by rw [hfh]; simp))
    have hi2 := hi.idx t i hfh
    have hcase : i = 0 ∨ i = 1 := by omega
    rcases hcase with h0 | h1
    · subst h0
      by_cases hroom : C0.room s.s0
      · exact Or.inl ⟨_, BothTau.push0 hfh hroom⟩
      · rcases move0 (open_live0 hf) (Or.inr hroom) with h | h
        · exact Or.inl h
        · exact Or.inr (Or.inl h)
    · subst h1
      by_cases hroom : C1.room s.s1
      · exact Or.inl ⟨_, BothTau.push1 hfh hroom⟩
      · exact Or.inl (move1 (open_live1 hf) (Or.inr hroom))
  | idle =>
    cases hb : s.inbuf with
    | cons t ts => exact Or.inl ⟨_, BothTau.take hfh hb⟩
    | nil =>
      cases hc : s.inClosed with
      | false => exact Or.inr (Or.inr (Or.inr ⟨by simp; exact hcap, rfl⟩))
      | true =>
        cases hf : s.fedClosed with
        | false => exact Or.inl ⟨_, BothTau.closeFeed hfh hb hc hf⟩
        | true =>
          cases h0 : C0.ended s.s0 with
          | false =>
            rcases move0 h0 (Or.inl (by rw [hi.c0, hf])) with h | h
            · exact Or.inl h
            · exact Or.inr (Or.inl h)
          | true =>
            cases h1 : C1.ended s.s1 with
            | false => exact Or.inl (move1 h1 (Or.inl (by rw [hi.c1, hf])))
            | true =>
              cases hh : s.held with
              | cons y ys => exact Or.inr (Or.inl ⟨y, _, BothOut.flush hf h0 h1 hh⟩)
              | nil => exact Or.inr (Or.inr (Or.inl ⟨_, BothFin.mk hf h0 h1 hh he⟩))

def bothLaws {α : Type} {C0 C1 : Comp α} (L0 : Laws C0) (L1 : Laws C1) (cap : Nat) (hcap : 0 < cap)
    (sig : α → Bool) : Laws (bothC C0 C1 cap sig) where
  inv := BothInv L0 L1
  inv_tau := fun hi h => both_inv_tau hi h
  inv_out := fun hi h => both_inv_out hi h
  inv_fin := fun hi h => both_inv_fin hi h
  inv_put := fun x hi hc _ => both_inv_put x hi hc
  inv_shut := fun hi hc => both_inv_shut hi hc
  closed_tau := fun _ h => (both_closed_tau h).1
  closed_out := fun _ h => (both_closed_out h).1
  closed_fin := fun {s s'} _ h => by cases h; rfl
  closed_put := fun _ _ => rfl
  closed_shut := fun _ => rfl
  ended_tau := fun _ h => (both_closed_tau h).2
  ended_out := fun _ h => (both_closed_out h).2
  ended_fin := fun {s s'} _ h => by cases h; rfl
  ended_put := fun _ _ => rfl
  ended_shut := fun _ => rfl
  live_out := fun hi h => both_live_out hi h
  live_fin := fun {s s'} _ h => by cases h with | mk _ _ _ _ hd => exact hd
  ended_closed := fun {s} hi he => (hi.fed (hi.dn he).1).2.2
  progress := fun hi he => both_progress hcap hi he

/-! ### the weighted measure -/

def bothFhW {α : Type} (wi0 wi1 d : α → Nat) : FH α → Nat
  | .idle => 0
  | .sig t => 1 + d t
  | .fan t 0 => 2 + wi0 t + wi1 t
  | .fan t (_ + 1) => 1 + wi1 t

def bothCin {α : Type} (sig : α → Bool) (wi0 wi1 d : α → Nat) (x : α) : Nat :=
  1 + (if sig x then 1 + d x else 2 + wi0 x + wi1 x)

/-- what is held back from branch 1 still has to be sent: it costs one step more than behind the stage -/
def heldCost {α : Type} (d : α → Nat) : α → Nat := fun y => 1 + d y

def bothW {α : Type} {C0 C1 : Comp α} (N0 : GoodN C0) (N1 : GoodN C1) (sig : α → Bool) (d : α → Nat)
    (s : BothS C0 C1) : Nat :=
  sumMap (bothCin sig (N0.wi d) (N1.wi (heldCost d)) d) s.inbuf
  + bothFhW (N0.wi d) (N1.wi (heldCost d)) d s.fh
  + (if s.fedClosed then 0 else 1)
  + N0.w d s.s0 + N1.w (heldCost d) s.s1
  + sumMap (heldCost d) s.held
  + (if s.done then 0 else 1)

theorem bothW_tau {α : Type} {C0 C1 : Comp α} (N0 : GoodN C0) (N1 : GoodN C1) {sig : α → Bool} (d : α → Nat)
    {s s' : BothS C0 C1} (hi : BothInv N0.toLaws N1.toLaws s) (h : BothTau C0 C1 sig s s') :
    bothW N0 N1 sig d s' < bothW N0 N1 sig d s := by
  cases h with
  | @take t ts hfh hb =>
    by_cases hs : sig t = true
    · simp [bothW, hfh, hb, sumMap, bothCin, bothFhW, hs]
      omega
    · simp [bothW, hfh, hb, sumMap, bothCin, bothFhW, hs]
      omega
  | @push0 t hfh hroom =>
    obtain ⟨hf, _⟩ := both_feeding hi (Or.inl (by rw [hfh]; simp))
    have := N0.w_put (d := d) t hi.i0 (by rw [hi.c0, hf]) hroom
    simp only [bothW, hfh, bothFhW]
    omega
  | @push1 t hfh hroom =>
    obtain ⟨hf, _⟩ := both_feeding hi (Or.inl (by rw [hfh]; simp))
    have := N1.w_put (d := heldCost d) t hi.i1 (by rw [hi.c1, hf]) hroom
    simp only [bothW, hfh, bothFhW]
    omega
  | @closeFeed hfh hb hc hf =>
    have h0 := N0.w_shut (d := d) hi.i0 (by rw [hi.c0, hf])
    have h1 := N1.w_shut (d := heldCost d) hi.i1 (by rw [hi.c1, hf])
    simp only [bothW, hf]
    simp
    omega
  | @in0 u h => have := N0.w_tau (d := d) hi.i0 h; simp only [bothW]; omega
  | @in1 u h => have := N1.w_tau (d := heldCost d) hi.i1 h; simp only [bothW]; omega
  | @fin0 u h => have := N0.w_fin (d := d) hi.i0 h; simp only [bothW]; omega
  | @fin1 u h => have := N1.w_fin (d := heldCost d) hi.i1 h; simp only [bothW]; omega
  | @collect y u h =>
    have := N1.w_out (d := heldCost d) hi.i1 h
    simp only [bothW, sumMap_append, sumMap]
    omega

theorem bothW_out {α : Type} {C0 C1 : Comp α} (N0 : GoodN C0) (N1 : GoodN C1) (sig : α → Bool) (d : α → Nat)
    {s s' : BothS C0 C1} {y : α} (hi : BothInv N0.toLaws N1.toLaws s) (h : BothOut C0 C1 s y s') :
    bothW N0 N1 sig d s' + d y < bothW N0 N1 sig d s := by
  cases h with
  | @sigOut hfh => simp only [bothW, hfh, bothFhW]; omega
  | @fwd0 u h => have := N0.w_out (d := d) hi.i0 h; simp only [bothW]; omega
  | @flush ys hf h0 h1 hh => simp only [bothW, hh, sumMap, heldCost]; omega

theorem bothW_fin {α : Type} {C0 C1 : Comp α} (N0 : GoodN C0) (N1 : GoodN C1) (sig : α → Bool) (d : α → Nat)
    {s s' : BothS C0 C1} (h : BothFin C0 C1 s s') :
    bothW N0 N1 sig d s' < bothW N0 N1 sig d s := by
  cases h with
  | mk hf h0 h1 hh hd => simp [bothW, hd]

theorem bothW_put {α : Type} {C0 C1 : Comp α} (N0 : GoodN C0) (N1 : GoodN C1) (sig : α → Bool) (d : α → Nat)
    (s : BothS C0 C1) (x : α) :
    bothW N0 N1 sig d { s with inbuf := s.inbuf ++ [x] }
      ≤ bothW N0 N1 sig d s + bothCin sig (N0.wi d) (N1.wi (heldCost d)) d x := by
  simp only [bothW, sumMap_append, sumMap]
  omega

/-- `both` between its neighbours, measured in ℕ -/
def bothGoodN {α : Type} {C0 C1 : Comp α} (N0 : GoodN C0) (N1 : GoodN C1) (cap : Nat) (hcap : 0 < cap)
    (sig : α → Bool) : GoodN (bothC C0 C1 cap sig) :=
  { bothLaws N0.toLaws N1.toLaws cap hcap sig with
    w := bothW N0 N1 sig
    wi := fun d => bothCin sig (N0.wi d) (N1.wi (heldCost d)) d
    w_tau := fun {d _ _} hi h => bothW_tau N0 N1 d hi h
    w_out := fun {d _ _ _} hi h => bothW_out N0 N1 sig d hi h
    w_fin := fun {d _ _} _ h => bothW_fin N0 N1 sig d h
    w_put := fun {d s} x _ _ _ => bothW_put N0 N1 sig d s x
    w_shut := fun {_ _} _ _ => Nat.le_refl _ }

theorem bothInv_init {α : Type} {C0 C1 : Comp α} (L0 : Laws C0) (L1 : Laws C1) (a : C0.σ) (b : C1.σ)
    (ha : L0.inv a) (hb : L1.inv b) (hca : C0.closed a = false) (hcb : C1.closed b = false) :
    BothInv L0 L1 (bothInit a b) :=
  { i0 := ha, i1 := hb, c0 := hca, c1 := hcb
    fed := fun h => by simp [bothInit] at h
    dn := fun h => by simp [bothInit] at h
    idx := fun t i h => by simp [bothInit] at h }

end Grip.Props.C07.Lemmas
