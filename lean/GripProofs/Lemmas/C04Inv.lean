/-
  The weak invariant is an invariant.  `WeakInv` (with `ValidListed` and `FieldsSync`) is preserved
  by every completed call except one: AddGraph of a graph that is not listed while element keys of
  an interrupted DeleteGraph of the same name are still in the store (`GraphWeak` is the exact side
  condition, `graphWeakB` its executable form).  See `GripProofs/Props/C04Full.lean` for the
  property theorems and the counterexample.
-/
import GripProofs.Lemmas.C04Crash
import GripProofs.Lemmas.C03Defs

namespace Grip.Props.C04.Lemmas
open Grip.C03 Grip.C04 Grip.C04.Spec

/-- The string fact the crash lemmas took as a hypothesis. -/
theorem splitFact : SplitFact := fun _ kind hv => Grip.Props.C03.fieldGraph_labelField kind hv

/-! ### `weakInvB` decides `WeakInv` -/

theorem mem_of_get (m : KV) (k : SKey) (v : Val) (h : m.get k = some v) : (k, v) ∈ m := by
  unfold KV.get at h
  cases hf : m.find? (fun p => decide (p.1 = k)) with
  | none => rw [hf] at h; simp at h
  | some p =>
    rw [hf] at h
    have hk := List.find?_some hf
    have hm := List.mem_of_find?_eq_some hf
    obtain ⟨k', v'⟩ := p
    have e1 : k' = k := by simpa using hk
    have e2 : v' = v := by simpa using h
    subst e1; subst e2; exact hm

theorem get_of_has (m : KV) (k : SKey) (h : m.has k = true) : ∃ v, m.get k = some v := by
  rw [has_eq_get] at h
  exact Option.isSome_iff_exists.1 h

theorem has_of_get (m : KV) (k : SKey) (v : Val) (h : m.get k = some v) : m.has k = true := by
  rw [has_eq_get, h]; rfl

theorem weak_of_weakInvB (m : KV) (h : weakInvB m = true) : WeakInv m := by
  have hk : ∀ p ∈ m, weakKey m p = true := by
    unfold weakInvB at h; rwa [List.all_eq_true] at h
  constructor
  · intro g s d eid l hl hs
    obtain ⟨v, hv⟩ := (has_iff _ _).1 hs
    have := hk _ hv
    unfold Listed at hl
    simpa [weakKey, hl] using this
  · intro g s d eid l hl hs
    obtain ⟨v, hv⟩ := (has_iff _ _).1 hs
    have := hk _ hv
    unfold Listed at hl
    simpa [weakKey, hl] using this
  · intro g s d eid l hl hs
    obtain ⟨v, hv⟩ := (has_iff _ _).1 hs
    have := hk _ hv
    unfold Listed at hl
    simp only [weakKey, hl, Bool.not_true, Bool.false_or, Bool.and_eq_true] at this
    exact ⟨this.1.1.1, this.1.1.2⟩
  · intro g s d eid l hl hs
    obtain ⟨v, hv⟩ := (has_iff _ _).1 hs
    have := hk _ hv
    unfold Listed at hl
    simp only [weakKey, hl, Bool.not_true, Bool.false_or, Bool.and_eq_true] at this
    exact ⟨this.1.2, this.2⟩
  · intro g id l data hl hg
    have := hk _ (mem_of_get _ _ _ hg)
    unfold Listed at hl
    simpa [weakKey, hl, vertexLabelOf] using this
  · intro g hl
    obtain ⟨v, hv⟩ := (has_iff _ _).1 hl
    have := hk _ hv
    simpa [weakKey] using this

/-! ### one graph at a time -/

/-- The clauses of `WeakInv` about the element keys of graph `g`, whether or not `g` is listed. -/
structure GraphWeak (m : KV) (g : String) : Prop where
  src_edge : ∀ s d eid l, m.has (.src g s d eid l) = true → m.has (.edge g eid s d l) = true
  dst_edge : ∀ s d eid l, m.has (.dst g d s eid l) = true → m.has (.edge g eid s d l) = true
  edge_adj : ∀ s d eid l, m.has (.edge g eid s d l) = true →
    m.has (.src g s d eid l) = true ∧ m.has (.dst g d s eid l) = true
  edge_idx : ∀ s d eid l, m.has (.edge g eid s d l) = true →
    m.has (.entry (labelField g "e") l eid) = true ∧ m.has (.term (labelField g "e") l) = true
  vert_idx : ∀ id l data, m.get (.vertex g id) = some (.vert l data) →
    m.has (.entry (labelField g "v") l id) = true ∧ m.has (.term (labelField g "v") l) = true

theorem graphWeak_of_listed (m : KV) (g : String) (hw : WeakInv m) (hl : Listed m g) : GraphWeak m g :=
  ⟨fun s d eid l => hw.src_edge g s d eid l hl, fun s d eid l => hw.dst_edge g s d eid l hl,
   fun s d eid l => hw.edge_adj g s d eid l hl, fun s d eid l => hw.edge_idx g s d eid l hl,
   fun id l data => hw.vert_idx g id l data hl⟩

/-- Element keys (records and adjacency) of graph `g`. -/
def ElemOf (g : String) : SKey → Bool
  | .vertex g' _ => g' = g
  | .edge g' _ _ _ _ => g' = g
  | .src g' _ _ _ _ => g' = g
  | .dst g' _ _ _ _ => g' = g
  | _ => false

/-- A graph without element keys (never written, or swept) is trivially consistent. -/
theorem graphWeak_of_noElem (m : KV) (g : String) (h : ∀ k, ElemOf g k = true → m.has k = false) : GraphWeak m g := by
  constructor
  · intro s d eid l hs; rw [h _ (by simp [ElemOf])] at hs; exact absurd hs (by simp)
  · intro s d eid l hs; rw [h _ (by simp [ElemOf])] at hs; exact absurd hs (by simp)
  · intro s d eid l hs; rw [h _ (by simp [ElemOf])] at hs; exact absurd hs (by simp)
  · intro s d eid l hs; rw [h _ (by simp [ElemOf])] at hs; exact absurd hs (by simp)
  · intro id l data hg
    have := has_of_get _ _ _ hg
    rw [h _ (by simp [ElemOf])] at this; exact absurd this (by simp)

/-! ### single writes -/

/-- Keys no clause of the weak invariant has as a premise. -/
def Passive : SKey → Bool
  | .field _ | .term _ _ | .entry _ _ _ | .doc _ => true
  | _ => false

theorem weak_set_passive (m : KV) (k : SKey) (v : Val) (hk : Passive k = true) (hw : WeakInv m) :
    WeakInv (m.set k v) := by
  have hl : ∀ g, Listed (m.set k v) g → Listed m g := by
    intro g h; unfold Listed at h ⊢
    cases k <;> simp [Passive] at hk <;> simpa [has_set] using h
  have hmono : ∀ k', m.has k' = true → (m.set k v).has k' = true := by
    intro k' h; rw [has_set, h, Bool.or_true]
  constructor
  · intro g a b eid l hg h
    have h' : m.has (.src g a b eid l) = true := by
      cases k <;> simp [Passive] at hk <;> simpa [has_set] using h
    exact hmono _ (hw.src_edge g a b eid l (hl g hg) h')
  · intro g a b eid l hg h
    have h' : m.has (.dst g b a eid l) = true := by
      cases k <;> simp [Passive] at hk <;> simpa [has_set] using h
    exact hmono _ (hw.dst_edge g a b eid l (hl g hg) h')
  · intro g a b eid l hg h
    have h' : m.has (.edge g eid a b l) = true := by
      cases k <;> simp [Passive] at hk <;> simpa [has_set] using h
    exact ⟨hmono _ (hw.edge_adj g a b eid l (hl g hg) h').1, hmono _ (hw.edge_adj g a b eid l (hl g hg) h').2⟩
  · intro g a b eid l hg h
    have h' : m.has (.edge g eid a b l) = true := by
      cases k <;> simp [Passive] at hk <;> simpa [has_set] using h
    exact ⟨hmono _ (hw.edge_idx g a b eid l (hl g hg) h').1, hmono _ (hw.edge_idx g a b eid l (hl g hg) h').2⟩
  · intro g id l data hg h
    have h' : m.get (.vertex g id) = some (.vert l data) := by
      cases k <;> simp [Passive] at hk <;> simpa [get_set] using h
    exact ⟨hmono _ (hw.vert_idx g id l data (hl g hg) h').1, hmono _ (hw.vert_idx g id l data (hl g hg) h').2⟩
  · intro g hg
    exact ⟨hmono _ (hw.graph_fields g (hl g hg)).1, hmono _ (hw.graph_fields g (hl g hg)).2⟩

theorem graphWeak_set_passive (m : KV) (g : String) (k : SKey) (v : Val) (hk : Passive k = true)
    (hw : GraphWeak m g) : GraphWeak (m.set k v) g := by
  have hmono : ∀ k', m.has k' = true → (m.set k v).has k' = true := by
    intro k' h; rw [has_set, h, Bool.or_true]
  constructor
  · intro a b eid l h
    have h' : m.has (.src g a b eid l) = true := by
      cases k <;> simp [Passive] at hk <;> simpa [has_set] using h
    exact hmono _ (hw.src_edge a b eid l h')
  · intro a b eid l h
    have h' : m.has (.dst g b a eid l) = true := by
      cases k <;> simp [Passive] at hk <;> simpa [has_set] using h
    exact hmono _ (hw.dst_edge a b eid l h')
  · intro a b eid l h
    have h' : m.has (.edge g eid a b l) = true := by
      cases k <;> simp [Passive] at hk <;> simpa [has_set] using h
    exact ⟨hmono _ (hw.edge_adj a b eid l h').1, hmono _ (hw.edge_adj a b eid l h').2⟩
  · intro a b eid l h
    have h' : m.has (.edge g eid a b l) = true := by
      cases k <;> simp [Passive] at hk <;> simpa [has_set] using h
    exact ⟨hmono _ (hw.edge_idx a b eid l h').1, hmono _ (hw.edge_idx a b eid l h').2⟩
  · intro id l data h
    have h' : m.get (.vertex g id) = some (.vert l data) := by
      cases k <;> simp [Passive] at hk <;> simpa [get_set] using h
    exact ⟨hmono _ (hw.vert_idx id l data h').1, hmono _ (hw.vert_idx id l data h').2⟩

/-- Listing a graph whose element keys are consistent and whose label fields are registered. -/
theorem weak_set_graph (m : KV) (g : String) (v : Val) (hw : WeakInv m) (hg : GraphWeak m g)
    (hf : m.has (.field (labelField g "v")) = true ∧ m.has (.field (labelField g "e")) = true) :
    WeakInv (m.set (.graph g) v) := by
  have hl : ∀ g', Listed (m.set (.graph g) v) g' → g' = g ∨ Listed m g' := by
    intro g' h; unfold Listed at h ⊢
    simp only [has_set, Bool.or_eq_true, decide_eq_true_eq, SKey.graph.injEq] at h
    rcases h with h | h
    · exact Or.inl h.symm
    · exact Or.inr h
  constructor
  · intro g' a b eid l hg' h
    simp only [has_set, reduceCtorEq, decide_false, Bool.false_or] at h ⊢
    rcases hl g' hg' with rfl | h'
    · exact hg.src_edge a b eid l h
    · exact hw.src_edge g' a b eid l h' h
  · intro g' a b eid l hg' h
    simp only [has_set, reduceCtorEq, decide_false, Bool.false_or] at h ⊢
    rcases hl g' hg' with rfl | h'
    · exact hg.dst_edge a b eid l h
    · exact hw.dst_edge g' a b eid l h' h
  · intro g' a b eid l hg' h
    simp only [has_set, reduceCtorEq, decide_false, Bool.false_or] at h ⊢
    rcases hl g' hg' with rfl | h'
    · exact hg.edge_adj a b eid l h
    · exact hw.edge_adj g' a b eid l h' h
  · intro g' a b eid l hg' h
    simp only [has_set, reduceCtorEq, decide_false, Bool.false_or] at h ⊢
    rcases hl g' hg' with rfl | h'
    · exact hg.edge_idx a b eid l h
    · exact hw.edge_idx g' a b eid l h' h
  · intro g' id l data hg' h
    simp only [get_set, reduceCtorEq, if_false] at h
    simp only [has_set, reduceCtorEq, decide_false, Bool.false_or]
    rcases hl g' hg' with rfl | h'
    · exact hg.vert_idx id l data h
    · exact hw.vert_idx g' id l data h' h
  · intro g' hg'
    simp only [has_set, reduceCtorEq, decide_false, Bool.false_or]
    rcases hl g' hg' with rfl | h'
    · exact hf
    · exact hw.graph_fields g' h'

/-- The converse: if the map is weakly consistent once `g` is listed, `g`'s element keys were consistent. -/
theorem graphWeak_of_weak_set_graph (m : KV) (g : String) (v : Val) (hw : WeakInv (m.set (.graph g) v)) :
    GraphWeak m g := by
  have hl : Listed (m.set (.graph g) v) g := by unfold Listed; simp [has_set]
  have := graphWeak_of_listed _ g hw hl
  constructor
  · intro a b eid l h
    simpa [has_set] using this.src_edge a b eid l (by simpa [has_set] using h)
  · intro a b eid l h
    simpa [has_set] using this.dst_edge a b eid l (by simpa [has_set] using h)
  · intro a b eid l h
    simpa [has_set] using this.edge_adj a b eid l (by simpa [has_set] using h)
  · intro a b eid l h
    simpa [has_set] using this.edge_idx a b eid l (by simpa [has_set] using h)
  · intro id l data h
    simpa [has_set] using this.vert_idx id l data (by simpa [get_set] using h)

/-! ### the insert loop -/

theorem has_mono_set (m : KV) (k : SKey) (v : Val) (k' : SKey) (h : m.has k' = true) : (m.set k v).has k' = true := by
  rw [has_set, h, Bool.or_true]

/-- A vertex record together with its label-index entry and term. -/
theorem weak_set_vertex_idx (m : KV) (g id l : String) (data : JV) (hw : WeakInv m) :
    WeakInv (((m.set (.vertex g id) (.vert l data)).set (.entry (labelField g "v") l id) .unit).set
      (.term (labelField g "v") l) .unit) := by
  have hmono : ∀ k', m.has k' = true → (((m.set (.vertex g id) (.vert l data)).set (.entry (labelField g "v") l id) .unit).set
      (.term (labelField g "v") l) .unit).has k' = true :=
    fun k' h => has_mono_set _ _ _ _ (has_mono_set _ _ _ _ (has_mono_set _ _ _ _ h))
  have hl : ∀ g', Listed (((m.set (.vertex g id) (.vert l data)).set (.entry (labelField g "v") l id) .unit).set
      (.term (labelField g "v") l) .unit) g' → Listed m g' := by
    intro g' h; unfold Listed at h ⊢; simpa [has_set] using h
  constructor
  · intro g' a b eid l' hg h
    simp only [has_set, reduceCtorEq, decide_false, Bool.false_or] at h
    exact hmono _ (hw.src_edge g' a b eid l' (hl g' hg) h)
  · intro g' a b eid l' hg h
    simp only [has_set, reduceCtorEq, decide_false, Bool.false_or] at h
    exact hmono _ (hw.dst_edge g' a b eid l' (hl g' hg) h)
  · intro g' a b eid l' hg h
    simp only [has_set, reduceCtorEq, decide_false, Bool.false_or] at h
    exact ⟨hmono _ (hw.edge_adj g' a b eid l' (hl g' hg) h).1, hmono _ (hw.edge_adj g' a b eid l' (hl g' hg) h).2⟩
  · intro g' a b eid l' hg h
    simp only [has_set, reduceCtorEq, decide_false, Bool.false_or] at h
    exact ⟨hmono _ (hw.edge_idx g' a b eid l' (hl g' hg) h).1, hmono _ (hw.edge_idx g' a b eid l' (hl g' hg) h).2⟩
  · intro g' id' l' data' hg h
    simp only [get_set, reduceCtorEq, if_false] at h
    by_cases e : SKey.vertex g id = SKey.vertex g' id'
    · rw [if_pos e] at h
      have e1 : g = g' ∧ id = id' := by simpa using e
      have e2 : l = l' ∧ data = data' := by simpa using h
      obtain ⟨rfl, rfl⟩ := e1
      obtain ⟨rfl, rfl⟩ := e2
      simp [has_set]
    · rw [if_neg e] at h
      exact ⟨hmono _ (hw.vert_idx g' id' l' data' (hl g' hg) h).1, hmono _ (hw.vert_idx g' id' l' data' (hl g' hg) h).2⟩
  · intro g' hg
    exact ⟨hmono _ (hw.graph_fields g' (hl g' hg)).1, hmono _ (hw.graph_fields g' (hl g' hg)).2⟩

/-- An edge record together with both adjacency keys, its label-index entry and term. -/
theorem weak_set_edge_idx (m : KV) (g eid s d l : String) (data : JV) (hw : WeakInv m) :
    WeakInv (((((m.set (.edge g eid s d l) (.edge data)).set (.src g s d eid l) .unit).set (.dst g d s eid l) .unit).set
      (.entry (labelField g "e") l eid) .unit).set (.term (labelField g "e") l) .unit) := by
  have hmono : ∀ k', m.has k' = true →
      (((((m.set (.edge g eid s d l) (.edge data)).set (.src g s d eid l) .unit).set (.dst g d s eid l) .unit).set
      (.entry (labelField g "e") l eid) .unit).set (.term (labelField g "e") l) .unit).has k' = true :=
    fun k' h => has_mono_set _ _ _ _ (has_mono_set _ _ _ _ (has_mono_set _ _ _ _ (has_mono_set _ _ _ _ (has_mono_set _ _ _ _ h))))
  have hl : ∀ g', Listed (((((m.set (.edge g eid s d l) (.edge data)).set (.src g s d eid l) .unit).set (.dst g d s eid l) .unit).set
      (.entry (labelField g "e") l eid) .unit).set (.term (labelField g "e") l) .unit) g' → Listed m g' := by
    intro g' h; unfold Listed at h ⊢; simpa [has_set] using h
  constructor
  · intro g' a b e' l' hg h
    simp only [has_set, reduceCtorEq, decide_false, Bool.false_or, Bool.or_false, Bool.or_eq_true, decide_eq_true_eq,
      SKey.src.injEq] at h
    rcases h with ⟨rfl, rfl, rfl, rfl, rfl⟩ | h
    · simp [has_set]
    · exact hmono _ (hw.src_edge g' a b e' l' (hl g' hg) h)
  · intro g' a b e' l' hg h
    simp only [has_set, reduceCtorEq, decide_false, Bool.false_or, Bool.or_false, Bool.or_eq_true, decide_eq_true_eq,
      SKey.dst.injEq] at h
    rcases h with ⟨rfl, rfl, rfl, rfl, rfl⟩ | h
    · simp [has_set]
    · exact hmono _ (hw.dst_edge g' a b e' l' (hl g' hg) h)
  · intro g' a b e' l' hg h
    simp only [has_set, reduceCtorEq, decide_false, Bool.false_or, Bool.or_false, Bool.or_eq_true, decide_eq_true_eq,
      SKey.edge.injEq] at h
    rcases h with ⟨rfl, rfl, rfl, rfl, rfl⟩ | h
    · simp [has_set]
    · exact ⟨hmono _ (hw.edge_adj g' a b e' l' (hl g' hg) h).1, hmono _ (hw.edge_adj g' a b e' l' (hl g' hg) h).2⟩
  · intro g' a b e' l' hg h
    simp only [has_set, reduceCtorEq, decide_false, Bool.false_or, Bool.or_false, Bool.or_eq_true, decide_eq_true_eq,
      SKey.edge.injEq] at h
    rcases h with ⟨rfl, rfl, rfl, rfl, rfl⟩ | h
    · simp [has_set]
    · exact ⟨hmono _ (hw.edge_idx g' a b e' l' (hl g' hg) h).1, hmono _ (hw.edge_idx g' a b e' l' (hl g' hg) h).2⟩
  · intro g' id' l' data' hg h
    simp only [get_set, reduceCtorEq, if_false] at h
    exact ⟨hmono _ (hw.vert_idx g' id' l' data' (hl g' hg) h).1, hmono _ (hw.vert_idx g' id' l' data' (hl g' hg) h).2⟩
  · intro g' hg
    exact ⟨hmono _ (hw.graph_fields g' (hl g' hg)).1, hmono _ (hw.graph_fields g' (hl g' hg)).2⟩

theorem weak_insertVertex (fs : List String) (m : KV) (g : String) (v : VertexIn) (hw : WeakInv m)
    (hf : fs.contains (labelField g "v") = true) : WeakInv (insertVertex fs m g v).1 := by
  unfold insertVertex
  split
  · exact hw
  · unfold addDoc
    rw [if_pos hf]
    exact weak_set_passive _ _ _ rfl (weak_set_vertex_idx m g v.gid v.label v.data hw)

theorem weak_insertEdge (fs : List String) (m : KV) (g : String) (e : EdgeIn) (hw : WeakInv m)
    (hf : fs.contains (labelField g "e") = true) : WeakInv (insertEdge fs m g e).1 := by
  unfold insertEdge
  split
  · exact hw
  · unfold addDoc
    simp only [if_pos hf]
    exact weak_set_passive _ _ _ rfl (weak_set_edge_idx m g e.gid e.frm e.to e.label e.data hw)

theorem weak_insertAll (fs : List String) (g : String) (xs : List ElemIn) (m : KV) (hw : WeakInv m)
    (hfv : fs.contains (labelField g "v") = true) (hfe : fs.contains (labelField g "e") = true) :
    WeakInv (insertAll fs g m xs).1 := by
  induction xs generalizing m with
  | nil => exact hw
  | cons x xs ih =>
    simp only [insertAll]
    apply ih
    cases x with
    | v x => exact weak_insertVertex fs m g x hw hfv
    | e x => exact weak_insertEdge fs m g x hw hfe

theorem addDoc_has_graph (fs : List String) (m : KV) (g kind label docId g' : String) :
    (addDoc fs m g kind label docId).has (.graph g') = m.has (.graph g') := by
  unfold addDoc; split <;> simp [has_set]

theorem insertElem_has_graph (fs : List String) (m : KV) (g : String) (x : ElemIn) (g' : String) :
    (insertElem fs m g x).1.has (.graph g') = m.has (.graph g') := by
  cases x with
  | v x => simp only [insertElem, insertVertex]; split <;> simp [addDoc_has_graph, has_set]
  | e x => simp only [insertElem, insertEdge]; split <;> simp [addDoc_has_graph, has_set]

theorem insertAll_has_graph (fs : List String) (g : String) (xs : List ElemIn) (m : KV) (g' : String) :
    (insertAll fs g m xs).1.has (.graph g') = m.has (.graph g') := by
  induction xs generalizing m with
  | nil => rfl
  | cons x xs ih =>
    simp only [insertAll]
    rw [ih, insertElem_has_graph]

/-! ### delete transactions (DelVertex, DelEdge) -/

/-- Keys a delete transaction may name: records and adjacency keys. -/
def IsElem : SKey → Bool
  | .vertex _ _ | .edge _ _ _ _ _ | .src _ _ _ _ _ | .dst _ _ _ _ _ => true
  | _ => false

/-- A transaction of deletes that only names element keys and names the three keys of an edge
    (record, by-source, by-destination) together or not at all keeps the weak invariant. -/
theorem weak_delKeys (m : KV) (ks : List SKey) (hw : WeakInv m) (hkind : ∀ k ∈ ks, IsElem k = true)
    (hsrc : ∀ g s d eid l, SKey.src g s d eid l ∈ ks ↔ SKey.edge g eid s d l ∈ ks)
    (hdst : ∀ g s d eid l, SKey.dst g d s eid l ∈ ks ↔ SKey.edge g eid s d l ∈ ks) :
    WeakInv (delKeys m ks) := by
  have hkeep : ∀ k, IsElem k = false → (delKeys m ks).has k = m.has k := by
    intro k hk
    rw [has_delKeys]
    have : k ∉ ks := fun hm => by rw [hkind k hm] at hk; exact absurd hk (by simp)
    simp [this]
  have hl : ∀ g, Listed (delKeys m ks) g → Listed m g := by
    intro g h; unfold Listed at h ⊢; rwa [hkeep _ rfl] at h
  have hsplit : ∀ k, (delKeys m ks).has k = true ↔ k ∉ ks ∧ m.has k = true := by
    intro k; rw [has_delKeys]; simp
  constructor
  · intro g s d eid l hg h
    rw [hsplit] at h ⊢
    exact ⟨fun hm => h.1 ((hsrc g s d eid l).2 hm), hw.src_edge g s d eid l (hl g hg) h.2⟩
  · intro g s d eid l hg h
    rw [hsplit] at h ⊢
    exact ⟨fun hm => h.1 ((hdst g s d eid l).2 hm), hw.dst_edge g s d eid l (hl g hg) h.2⟩
  · intro g s d eid l hg h
    rw [hsplit] at h
    rw [hsplit, hsplit]
    have := hw.edge_adj g s d eid l (hl g hg) h.2
    exact ⟨⟨fun hm => h.1 ((hsrc g s d eid l).1 hm), this.1⟩, ⟨fun hm => h.1 ((hdst g s d eid l).1 hm), this.2⟩⟩
  · intro g s d eid l hg h
    rw [hsplit] at h
    rw [hkeep _ rfl, hkeep _ rfl]
    exact hw.edge_idx g s d eid l (hl g hg) h.2
  · intro g id l data hg h
    rw [get_delKeys] at h
    rw [hkeep _ rfl, hkeep _ rfl]
    split at h
    · exact absurd h (by simp)
    · exact hw.vert_idx g id l data (hl g hg) h
  · intro g hg
    rw [hkeep _ rfl, hkeep _ rfl]
    exact hw.graph_fields g (hl g hg)

theorem delKeys_has_graph (m : KV) (ks : List SKey) (hkind : ∀ k ∈ ks, IsElem k = true) (g : String) :
    (delKeys m ks).has (.graph g) = m.has (.graph g) := by
  rw [has_delKeys]
  have : SKey.graph g ∉ ks := fun hm => by have := hkind _ hm; simp [IsElem] at this
  simp [this]

/-- DelEdge: the three keys of one edge. -/
theorem weak_delEdgeKeys (m : KV) (g eid s d l : String) (hw : WeakInv m) :
    WeakInv (delKeys m [.edge g eid s d l, .src g s d eid l, .dst g d s eid l]) := by
  apply weak_delKeys m _ hw
  · intro k hk
    simp only [List.mem_cons, List.not_mem_nil, or_false] at hk
    rcases hk with rfl | rfl | rfl <;> rfl
  · intro g' s' d' e' l'
    simp only [List.mem_cons, List.not_mem_nil, or_false, reduceCtorEq, false_or, or_false, SKey.src.injEq, SKey.edge.injEq]
    constructor <;> (rintro ⟨rfl, rfl, rfl, rfl, rfl⟩; exact ⟨rfl, rfl, rfl, rfl, rfl⟩)
  · intro g' s' d' e' l'
    simp only [List.mem_cons, List.not_mem_nil, or_false, reduceCtorEq, false_or, or_false, SKey.dst.injEq, SKey.edge.injEq]
    constructor <;> (rintro ⟨rfl, rfl, rfl, rfl, rfl⟩; exact ⟨rfl, rfl, rfl, rfl, rfl⟩)

/-- Edge `(s, d, eid, l)` of graph `g` is incident to vertex `id` through an adjacency key that is present. -/
def Hit (m : KV) (g id s d eid l : String) : Prop :=
  (s = id ∧ m.has (.src g s d eid l) = true) ∨ (d = id ∧ m.has (.dst g d s eid l) = true)

theorem mem_delVKeys (m : KV) (g id : String) (k : SKey) :
    k ∈ delVKeys m g id ↔ ∃ s d eid l, Hit m g id s d eid l ∧
      (k = .src g s d eid l ∨ k = .dst g d s eid l ∨ k = .edge g eid s d l) := by
  unfold delVKeys Hit
  simp only [List.mem_append, List.mem_flatten, List.mem_filterMap]
  constructor
  · rintro (⟨ks, ⟨⟨key, v⟩, hp, hks⟩, hk⟩ | ⟨ks, ⟨⟨key, v⟩, hp, hks⟩, hk⟩)
    · cases key <;> simp only [reduceCtorEq] at hks
      rename_i g' sid did eid l
      split at hks
      · rename_i hc
        obtain ⟨rfl, rfl⟩ := hc
        have : ks = _ := (Option.some.inj hks).symm
        subst this
        refine ⟨sid, did, eid, l, Or.inl ⟨rfl, (has_iff _ _).2 ⟨v, hp⟩⟩, ?_⟩
        simpa using hk
      · cases hks
    · cases key <;> simp only [reduceCtorEq] at hks
      rename_i g' did sid eid l
      split at hks
      · rename_i hc
        obtain ⟨rfl, rfl⟩ := hc
        have : ks = _ := (Option.some.inj hks).symm
        subst this
        refine ⟨sid, did, eid, l, Or.inr ⟨rfl, (has_iff _ _).2 ⟨v, hp⟩⟩, ?_⟩
        simpa using hk
      · cases hks
  · rintro ⟨s, d, eid, l, (⟨rfl, hh⟩ | ⟨rfl, hh⟩), hk⟩
    · obtain ⟨v, hv⟩ := (has_iff _ _).1 hh
      left
      refine ⟨[.src g s d eid l, .dst g d s eid l, .edge g eid s d l], ⟨(.src g s d eid l, v), hv, by simp⟩, ?_⟩
      simpa using hk
    · obtain ⟨v, hv⟩ := (has_iff _ _).1 hh
      right
      refine ⟨[.src g s d eid l, .dst g d s eid l, .edge g eid s d l], ⟨(.dst g d s eid l, v), hv, by simp⟩, ?_⟩
      simpa using hk

theorem src_mem_delVKeys (m : KV) (g id g' s d eid l : String) :
    SKey.src g' s d eid l ∈ delVKeys m g id ↔ g' = g ∧ Hit m g id s d eid l := by
  rw [mem_delVKeys]
  constructor
  · rintro ⟨s', d', e', l', hh, hk⟩
    simp only [reduceCtorEq, or_false, false_or, SKey.src.injEq] at hk
    obtain ⟨rfl, rfl, rfl, rfl, rfl⟩ := hk
    exact ⟨rfl, hh⟩
  · rintro ⟨rfl, hh⟩; exact ⟨s, d, eid, l, hh, Or.inl rfl⟩

theorem dst_mem_delVKeys (m : KV) (g id g' s d eid l : String) :
    SKey.dst g' d s eid l ∈ delVKeys m g id ↔ g' = g ∧ Hit m g id s d eid l := by
  rw [mem_delVKeys]
  constructor
  · rintro ⟨s', d', e', l', hh, hk⟩
    simp only [reduceCtorEq, or_false, false_or, SKey.dst.injEq] at hk
    obtain ⟨rfl, rfl, rfl, rfl, rfl⟩ := hk
    exact ⟨rfl, hh⟩
  · rintro ⟨rfl, hh⟩; exact ⟨s, d, eid, l, hh, Or.inr (Or.inl rfl)⟩

theorem edge_mem_delVKeys (m : KV) (g id g' s d eid l : String) :
    SKey.edge g' eid s d l ∈ delVKeys m g id ↔ g' = g ∧ Hit m g id s d eid l := by
  rw [mem_delVKeys]
  constructor
  · rintro ⟨s', d', e', l', hh, hk⟩
    simp only [reduceCtorEq, or_false, false_or, SKey.edge.injEq] at hk
    obtain ⟨rfl, rfl, rfl, rfl, rfl⟩ := hk
    exact ⟨rfl, hh⟩
  · rintro ⟨rfl, hh⟩; exact ⟨s, d, eid, l, hh, Or.inr (Or.inr rfl)⟩

theorem delVKeys_isElem (m : KV) (g id : String) : ∀ k ∈ SKey.vertex g id :: delVKeys m g id, IsElem k = true := by
  intro k hk
  rw [List.mem_cons] at hk
  rcases hk with rfl | hk
  · rfl
  · rw [mem_delVKeys] at hk
    obtain ⟨s, d, eid, l, _, rfl | rfl | rfl⟩ := hk <;> rfl

/-- DelVertex: the vertex key and the key triples of all incident edges. -/
theorem weak_delVertexKeys (m : KV) (g id : String) (hw : WeakInv m) :
    WeakInv (delKeys m (.vertex g id :: delVKeys m g id)) := by
  apply weak_delKeys m _ hw (delVKeys_isElem m g id)
  · intro g' s d eid l
    simp only [List.mem_cons, reduceCtorEq, false_or, src_mem_delVKeys, edge_mem_delVKeys]
  · intro g' s d eid l
    simp only [List.mem_cons, reduceCtorEq, false_or, dst_mem_delVKeys, edge_mem_delVKeys]

/-! ### AddGraph: every cut, no hypothesis on the completed call -/

/-- After the whole sweep no element key of the graph is left. -/
theorem sweep_noElem (m0 m : KV) (g : String) (k : SKey) (hk : ElemOf g k = true) :
    (applyAll (sweepW m0 g) m).has k = false := by
  rw [Bool.eq_false_iff]
  intro h
  have hmem : ∀ w ∈ (graphFields m0 g).flatMap removeFieldW, w ∈ sweepW m0 g := by
    intro w hw; unfold sweepW; exact List.mem_append_right _ hw
  unfold sweepW at h
  rw [applyAll_append] at h
  have h' := applyAll_has_mono _ k (fun w hw m => sweep_mono m0 g w (hmem w hw) k m) _ h
  simp only [applyAll, List.foldl_cons, List.foldl_nil, AW.apply, has_delWhere, Bool.and_eq_true,
    Bool.not_eq_true'] at h'
  cases k <;> simp_all [ElemOf, Pat.test]

theorem weak_addGraphSets (M : KV) (g : String) (j : Nat) (hw : WeakInv M) (hg : 3 ≤ j → GraphWeak M g) :
    WeakInv (applyPrefix j (addGraphSets g) M) := by
  match j with
  | 0 => exact hw
  | 1 => exact weak_set_field _ _ hw
  | 2 => exact weak_set_field _ _ (weak_set_field _ _ hw)
  | j + 3 =>
    rw [applyPrefix_all _ _ _ (by simp [addGraphSets])]
    simp only [addGraphSets, applyAll, List.foldl_cons, List.foldl_nil, AW.apply]
    apply weak_set_graph _ g _ (weak_set_field _ _ (weak_set_field _ _ hw))
    · exact graphWeak_set_passive _ g _ _ rfl (graphWeak_set_passive _ g _ _ rfl (hg (by omega)))
    · simp [has_set]

/-- **AddGraph: every cut satisfies the weak invariant** (listed name: three sets; unlisted name: the
    sweep, during which the name stays unlisted, then three sets over a graph without element keys). -/
theorem addGraph_cut_weak (s : KState) (g : String) (n : Nat) (hw : WeakInv s.kv) (hv : ValidListed s.kv) :
    WeakInv (applyPrefix n (writes s (.addGraph g)) s.kv) := by
  by_cases hvn : validName g = true
  · rw [writes_addGraph s g hvn, applyPrefix_append]
    by_cases hg : hasGraph s g = true
    · simp only [hg, if_true, applyPrefix_nil]
      exact weak_addGraphSets _ g _ hw (fun _ => graphWeak_of_listed _ g hw hg)
    · simp only [hg, Bool.false_eq_true, if_false]
      have hun : s.kv.has (.graph g) = false := by simpa [hasGraph] using hg
      apply weak_addGraphSets _ g _ (sweep_cut_weak _ _ g n hw hun (noForeign_of_valid splitFact _ g hv hun))
      intro h3
      rw [applyPrefix_all _ _ _ (by omega)]
      exact graphWeak_of_noElem _ g (fun k hk => sweep_noElem _ _ g k hk)
  · rw [writes_addGraph_invalid s g hvn, applyPrefix_nil]; exact hw

/-! ### `ValidListed` at every cut -/

theorem validListed_mono (m m' : KV) (hv : ValidListed m)
    (h : ∀ g, m'.has (.graph g) = true → m.has (.graph g) = true) : ValidListed m' :=
  fun g hg => hv g (h g hg)

theorem addGraphSets_has_graph (M : KV) (g : String) (j : Nat) (g' : String)
    (h : (applyPrefix j (addGraphSets g) M).has (.graph g') = true) : g' = g ∨ M.has (.graph g') = true := by
  match j with
  | 0 => exact Or.inr h
  | 1 => right; simpa [applyPrefix, applyAll, addGraphSets, AW.apply, has_set] using h
  | 2 => right; simpa [applyPrefix, applyAll, addGraphSets, AW.apply, has_set] using h
  | j + 3 =>
    rw [applyPrefix_all _ _ _ (by simp [addGraphSets])] at h
    simp only [addGraphSets, applyAll, List.foldl_cons, List.foldl_nil, AW.apply, has_set, reduceCtorEq, decide_false,
      Bool.false_or, Bool.or_eq_true, decide_eq_true_eq, SKey.graph.injEq] at h
    rcases h with h | h
    · exact Or.inl h.symm
    · exact Or.inr h

theorem addGraph_cut_valid (s : KState) (g : String) (n : Nat) (hv : ValidListed s.kv) :
    ValidListed (applyPrefix n (writes s (.addGraph g)) s.kv) := by
  by_cases hvn : validName g = true
  · rw [writes_addGraph s g hvn, applyPrefix_append]
    intro g' hg'
    rcases addGraphSets_has_graph _ g _ g' hg' with rfl | h
    · exact hvn
    · by_cases hg : hasGraph s g = true
      · simp only [hg, if_true, applyPrefix_nil] at h; exact hv g' h
      · simp only [hg, Bool.false_eq_true, if_false] at h
        exact hv g' (sweep_cut_mono _ _ g n _ h)
  · rw [writes_addGraph_invalid s g hvn, applyPrefix_nil]; exact hv

theorem delGraph_cut_valid (s : KState) (g : String) (n : Nat) (hv : ValidListed s.kv) :
    ValidListed (applyPrefix n (writes s (.delGraph g)) s.kv) := by
  apply validListed_mono _ _ hv
  intro g' h
  unfold applyPrefix at h
  exact applyAll_has_mono _ _ (fun w hw m => delGraph_mono s g w (mem_take _ _ _ hw) _ m) _ h

/-! ### the single-write calls, completed -/

theorem addW_inv (s : KState) (g : String) (xs : List ElemIn) (hs : FieldsSync s) (hw : WeakInv s.kv)
    (hv : ValidListed s.kv) :
    WeakInv (applyAll (addW s g xs) s.kv) ∧ ValidListed (applyAll (addW s g xs) s.kv) := by
  unfold addW
  by_cases hg : hasGraph s g = true
  · simp only [hg, Bool.not_true, Bool.false_eq_true, if_false, applyAll, List.foldl_cons, List.foldl_nil, AW.apply]
    have hf := hw.graph_fields g hg
    refine ⟨weak_insertAll _ g xs _ hw (by rw [hs]; exact hf.1) (by rw [hs]; exact hf.2), ?_⟩
    exact validListed_mono _ _ hv (fun g' h => by rwa [insertAll_has_graph] at h)
  · simp only [hg, Bool.not_false, if_true, applyAll, List.foldl_nil]; exact ⟨hw, hv⟩

theorem delV_inv (s : KState) (g id : String) (hw : WeakInv s.kv) (hv : ValidListed s.kv) :
    WeakInv (applyAll (writes s (.delV g id)) s.kv) ∧ ValidListed (applyAll (writes s (.delV g id)) s.kv) := by
  unfold writes
  by_cases hg : hasGraph s g = true
  · simp only [hg, Bool.not_true, Bool.false_eq_true, if_false, applyAll, List.foldl_cons, List.foldl_nil, AW.apply]
    refine ⟨weak_delVertexKeys _ g id hw, validListed_mono _ _ hv (fun g' h => ?_)⟩
    rwa [delKeys_has_graph _ _ (delVKeys_isElem s.kv g id)] at h
  · simp only [hg, Bool.not_false, if_true, applyAll, List.foldl_nil]; exact ⟨hw, hv⟩

theorem delE_inv (s : KState) (g eid : String) (hw : WeakInv s.kv) (hv : ValidListed s.kv) :
    WeakInv (applyAll (writes s (.delE g eid)) s.kv) ∧ ValidListed (applyAll (writes s (.delE g eid)) s.kv) := by
  unfold writes
  by_cases hg : hasGraph s g = true
  · simp only [hg, Bool.not_true, Bool.false_eq_true, if_false]
    split
    · rename_i sid did l _ _
      simp only [applyAll, List.foldl_cons, List.foldl_nil, AW.apply]
      refine ⟨weak_delEdgeKeys _ g eid sid did l hw, validListed_mono _ _ hv (fun g' h => ?_)⟩
      rw [has_delKeys] at h
      simp only [Bool.and_eq_true] at h; exact h.2
    · simp only [applyAll, List.foldl_nil]; exact ⟨hw, hv⟩
  · simp only [hg, Bool.not_false, if_true, applyAll, List.foldl_nil]; exact ⟨hw, hv⟩

/-! ### every call, every cut -/

/-- **Every cut of every call** keeps the weak invariant and the validity of listed names.
    `FieldsSync` (an invariant: `sync_step`, `sync_reopen`) is what makes the insert loop index what it
    writes; it is only used for AddVertex / AddEdge / BulkAdd. -/
theorem cut_inv (s : KState) (op : Op) (n : Nat) (hs : FieldsSync s) (hw : WeakInv s.kv) (hv : ValidListed s.kv) :
    WeakInv (applyPrefix n (writes s op) s.kv) ∧ ValidListed (applyPrefix n (writes s op) s.kv) := by
  by_cases h1 : ∃ g, op = .addGraph g
  · obtain ⟨g, rfl⟩ := h1; exact ⟨addGraph_cut_weak s g n hw hv, addGraph_cut_valid s g n hv⟩
  by_cases h2 : ∃ g, op = .delGraph g
  · obtain ⟨g, rfl⟩ := h2; exact ⟨delGraph_cut_weak splitFact s g n hw hv, delGraph_cut_valid s g n hv⟩
  have hsingle := writes_single s op (fun g e => h1 ⟨g, e⟩) (fun g e => h2 ⟨g, e⟩)
  rcases cut_single s op n hsingle with e | e <;> rw [e]
  · exact ⟨hw, hv⟩
  · rw [← step_eq_writes]
    cases op with
    | addGraph g => exact absurd ⟨g, rfl⟩ h1
    | delGraph g => exact absurd ⟨g, rfl⟩ h2
    | addV g vs => exact addW_inv s g _ hs hw hv
    | addE g es => exact addW_inv s g _ hs hw hv
    | bulk g xs => exact addW_inv s g _ hs hw hv
    | delV g id => exact delV_inv s g id hw hv
    | delE g eid => exact delE_inv s g eid hw hv

/-- **The weak invariant is an invariant of the model**: every completed call — AddGraph of a new, of a
    listed, of an invalid name, of a name with leftovers of an interrupted DeleteGraph; DeleteGraph of a
    present or absent graph; AddVertex / AddEdge / BulkAdd with valid and invalid elements, on existing
    and missing graphs, including an edge id re-added with other endpoints; DelVertex; DelEdge of a
    present or absent id. -/
theorem step_inv (s : KState) (op : Op) (hs : FieldsSync s) (hw : WeakInv s.kv) (hv : ValidListed s.kv) :
    WeakInv (step s op).1.kv ∧ ValidListed (step s op).1.kv := by
  have := cut_inv s op (writes s op).length hs hw hv
  rwa [applyPrefix_all _ _ _ (Nat.le_refl _), step_eq_writes] at this

theorem reopen_inv (s : KState) (hw : WeakInv s.kv) (hv : ValidListed s.kv) :
    WeakInv (reopen s).kv ∧ ValidListed (reopen s).kv := by
  rw [reopen_kv]; exact ⟨hw, hv⟩

end Grip.Props.C04.Lemmas
