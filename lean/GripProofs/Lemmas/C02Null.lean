/-
  Lemmas for C02, part 6: load elision in the presence of the `*Null` moves (refined semantics of
  Grip.Model.C02Null): the forward simulation of C02Sim extends to them, because a `*Null` move is
  a lookup whose elements carry the load flag of the step the move itself starts.
-/
import Grip.Model.C02
import Grip.Model.C02Null
import GripProofs.Lemmas.C02Analysis
import GripProofs.Lemmas.C02Sim

namespace Grip.Props.C02.Lemmas
open Grip Grip.C02

/-! ### the fold, for arbitrary step functions that simulate one another -/

theorem sim_from_gen (g : AGraph) (need : Nat → Bool) (ms : String → List Nat) (load : Nat → Bool)
    (lit : DataType → Stmt → List Traveler → List Traveler)
    (eli : Nat → DataType → Stmt → List Traveler → List Traveler) (Ok : Stmt → Prop)
    (hstep : ∀ (i c : Nat) (s : Stmt) (st st1 : TState), typeStep st s = .ok st1 →
      Good need ms s (nextC c s) → (∀ n, s = .as_ n → nextC c s ∈ ms n) → Ok s →
      load i = need (nextC c s) →
      ∀ {ts ts' : List Traveler}, F2 (TSim g (bmOf need ms) st.last (need c)) ts ts' →
        F2 (TSim g (bmOf need ms) st1.last (need (nextC c s))) (lit st.last s ts) (eli i st.last s ts')) :
    ∀ (suf : List Stmt) (c : Nat) (st : TState) (i : Nat) (ts ts' : List Traveler) (stf : TState),
      (∀ sk ∈ suf.zip (stepIdsFrom c suf),
        Good need ms sk.1 sk.2 ∧ ∀ n, sk.1 = .as_ n → sk.2 ∈ ms n) →
      (∀ s ∈ suf, Ok s) →
      (∀ j, j < suf.length → load (i + j) = need ((stepIdsFrom c suf).getD j 0)) →
      F2 (TSim g (bmOf need ms) st.last (need c)) ts ts' →
      typeFold st suf = .ok stf →
      (evalFromX eli st i ts' suf).map (convertE g stf)
        = (evalFromX (fun _ => lit) st i ts suf).map (convert stf)
  | [], c, st, i, ts, ts', stf, _, _, _, h, ht => by
      simp only [typeFold, Except.ok.injEq] at ht
      subst ht
      simp only [evalFromX]
      exact (h.map_eq (fun t t' htt => (convert_sim st htt).symm)).symm
  | s :: rest, c, st, i, ts, ts', stf, H1, Hd, H2, h, ht => by
      simp only [typeFold] at ht
      cases hs : typeStep st s with
      | error e => simp [hs] at ht
      | ok st1 =>
        simp only [hs] at ht
        simp only [evalFromX, hs]
        have hz : (s :: rest).zip (stepIdsFrom c (s :: rest))
            = (s, nextC c s) :: rest.zip (stepIdsFrom (nextC c s) rest) := rfl
        have hhead := H1 (s, nextC c s) (by rw [hz]; exact List.mem_cons_self)
        apply sim_from_gen g need ms load lit eli Ok hstep rest (nextC c s) st1 (i + 1) _ _ stf
        · intro sk hsk
          exact H1 sk (by rw [hz]; exact List.mem_cons_of_mem _ hsk)
        · intro s' hs'
          exact Hd s' (List.mem_cons_of_mem _ hs')
        · intro j hj
          have h2 := H2 (j + 1) (by simp only [List.length_cons]; omega)
          have e : i + 1 + j = i + (j + 1) := by omega
          rw [e, h2]
          rfl
        · exact hstep i c s st st1 hs hhead.1 hhead.2 (Hd s List.mem_cons_self) (H2 0 (by simp)) h
        · exact ht

/-! ### the `*Null` moves, one traveler at a time -/

theorem nullRow_sim {g bm ty b ty1 b1 t t'} (h : TSim g bm ty b t t') (mi : Bool) (f : Elem → Elem) :
    F2 (TSim g bm ty1 b1) (nullRow mi t) ((nullRow mi t').map (degCur f)) := by
  cases mi
  · exact .nil
  · exact .cons (h.mk_cur none none (by simp [OptR]) _) .nil

theorem stepOutNull_sim (m : NullMiss) {g bm ty b t t'} (hg : g.WellFormed) (h : TSim g bm ty b t t')
    (from_ : DataType) (ls : List String) (b1 hn : Bool) :
    F2 (TSim g bm .vertex b1) (stepOutNull m g from_ ls t)
      ((stepOutNull m g from_ ls t').map (degCur (degrade false b1 hn))) := by
  unfold stepOutNull
  split
  · exact stepOut_sim hg h from_ ls _ _ _
  · rw [List.map_append, h.curId_eq]
    exact (stepOut_sim hg h from_ ls _ _ _).append (nullRow_sim h _ _)

theorem stepInNull_sim (m : NullMiss) {g bm ty b t t'} (hg : g.WellFormed) (h : TSim g bm ty b t t')
    (from_ : DataType) (ls : List String) (b1 hn : Bool) :
    F2 (TSim g bm .vertex b1) (stepInNull m g from_ ls t)
      ((stepInNull m g from_ ls t').map (degCur (degrade false b1 hn))) := by
  unfold stepInNull
  split
  · exact stepIn_sim hg h from_ ls _ _ _
  · rw [List.map_append, h.curId_eq]
    exact (stepIn_sim hg h from_ ls _ _ _).append (nullRow_sim h _ _)

theorem stepOutENull_sim (m : NullMiss) {g bm ty b t t'} (hg : g.WellFormed) (h : TSim g bm ty b t t')
    (ls : List String) (b1 hn : Bool) :
    F2 (TSim g bm .edge b1) (stepOutENull m g ls t)
      ((stepOutENull m g ls t').map (degCur (degrade false b1 hn))) := by
  unfold stepOutENull
  rw [List.map_append, h.curId_eq]
  exact (stepOutE_sim hg h ls _ _ _).append (nullRow_sim h _ _)

theorem stepInENull_sim (m : NullMiss) {g bm ty b t t'} (hg : g.WellFormed) (h : TSim g bm ty b t t')
    (ls : List String) (b1 hn : Bool) :
    F2 (TSim g bm .edge b1) (stepInENull m g ls t)
      ((stepInENull m g ls t').map (degCur (degrade false b1 hn))) := by
  unfold stepInENull
  rw [List.map_append, h.curId_eq]
  exact (stepInE_sim hg h ls _ _ _).append (nullRow_sim h _ _)

/-- The statements of the extended program space: documented, the index lookup, `*Null` moves. -/
def OkN (s : Stmt) : Prop :=
  (s.kind.documented = true ∨ s.kind = .lookupVertsIndex ∨ isNullMove s = true)
    ∧ (s = .distinct [] → GidFacts)

theorem evalStepN_other (m : NullMiss) (numOf : String → Option Int) (g : AGraph) (from_ : DataType)
    (s : Stmt) (h : isNullMove s = false) (ts : List Traveler) :
    evalStepN m numOf g from_ s ts = evalStepP numOf g from_ s ts := by
  cases s <;> first | rfl | simp [isNullMove] at h

theorem step_simN (m : NullMiss) (numOf : String → Option Int) (g : AGraph) (hg : g.WellFormed)
    (need : Nat → Bool) (ms : String → List Nat) (load hon : Nat → Bool) (i c : Nat) (s : Stmt)
    (st st1 : TState) (hstep : typeStep st s = .ok st1)
    (hgood : Good need ms s (nextC c s))
    (has : ∀ n, s = .as_ n → nextC c s ∈ ms n)
    (hok : OkN s)
    (hload : load i = need (nextC c s))
    {ts ts' : List Traveler} (h : F2 (TSim g (bmOf need ms) st.last (need c)) ts ts') :
    F2 (TSim g (bmOf need ms) st1.last (need (nextC c s)))
      (evalStepN m numOf g st.last s ts) (stepEN m numOf g load hon i st.last s ts') := by
  by_cases hn : isNullMove s = true
  · cases s <;> simp [isNullMove] at hn
    · -- inNull
      rw [moveToVertex_last hstep]
      simp only [stepEN, isNullMove, evalStepN, if_true, hload]
      exact flatMap_deg_sim h _ _ (fun t t' ht => stepInNull_sim m hg ht _ _ _ _)
    · -- outNull
      rw [moveToVertex_last hstep]
      simp only [stepEN, isNullMove, evalStepN, if_true, hload]
      exact flatMap_deg_sim h _ _ (fun t t' ht => stepOutNull_sim m hg ht _ _ _ _)
    · -- inENull
      rw [moveToEdge_last hstep]
      simp only [stepEN, isNullMove, evalStepN, if_true, hload]
      exact flatMap_deg_sim h _ _ (fun t t' ht => stepInENull_sim m hg ht _ _ _)
    · -- outENull
      rw [moveToEdge_last hstep]
      simp only [stepEN, isNullMove, evalStepN, if_true, hload]
      exact flatMap_deg_sim h _ _ (fun t t' ht => stepOutENull_sim m hg ht _ _ _)
  · have hn' : isNullMove s = false := by simpa using hn
    have hdoc : s.kind.documented = true ∨ s.kind = .lookupVertsIndex := by
      rcases hok.1 with h1 | h1 | h1
      · exact Or.inl h1
      · exact Or.inr h1
      · exact absurd h1 hn
    rw [evalStepN_other m numOf g st.last s hn']
    simp only [stepEN, hn', Bool.false_eq_true, if_false]
    exact step_sim numOf g hg need ms load hon i c s st st1 hstep hgood has hdoc hok.2 hload h

/-- Load elision plus reload at output gives exactly the literal rows, on every backend `hon` and
    for every `emitNull` behaviour `m`, for plans made of the documented statements,
    `LookupVertsIndex` and the four `*Null` moves. -/
theorem elided_eq_literal_null (m : NullMiss) (numOf : String → Option Int) (g : AGraph)
    (hg : g.WellFormed) (hon : Nat → Bool) (plan : List Stmt) (st : TState)
    (ht : typeFold {} plan = .ok st)
    (hdoc : ∀ s ∈ plan, s.kind.documented = true ∨ s.kind = .lookupVertsIndex ∨ isNullMove s = true)
    (hgid : ∀ s ∈ plan, s = .distinct [] → GidFacts) :
    (evalElidedN m numOf g hon plan).map (convertE g st)
      = (evalPlanN m numOf g plan).map (convert st) := by
  unfold evalElidedN evalPlanN
  refine sim_from_gen g (stepLoadData (stepOutputs plan))
    (markSteps (plan.zip (stepIds plan))) (flagAt (loadFlags plan))
    (evalStepN m numOf g) (stepEN m numOf g (flagAt (loadFlags plan)) hon) OkN
    (fun i c s st st1 h1 h2 h3 h4 h5 _ _ h6 =>
      step_simN m numOf g hg _ _ _ hon i c s st st1 h1 h2 h3 h4 h5 h6)
    plan 0 {} 0 _ _ st ?_ ?_ ?_ ?_ ht
  · intro sk hsk
    constructor
    · exact (passAll_good (markSteps (plan.zip (stepIds plan))) (plan.zip (stepIds plan)) sk hsk).mono
        (fun j hj => sn_imp _ j hj)
    · intro n hn
      exact List.mem_filterMap.2 ⟨sk, hsk, by simp [hn]⟩
  · intro s hs
    exact ⟨hdoc s hs, hgid s hs⟩
  · intro j hj
    have hlen : j < (stepIds plan).length := by
      rw [stepIds, stepIdsFrom_length]; exact hj
    show flagAt (loadFlags plan) (0 + j) = stepLoadData (stepOutputs plan) ((stepIds plan).getD j 0)
    simp [flagAt, loadFlags, List.getD_eq_getElem?_getD, List.getElem?_map, List.getElem?_eq_getElem hlen]
  · exact .cons (seed_sim _ _ _ _) .nil

theorem evalFromX_congr (f f' : Nat → DataType → Stmt → List Traveler → List Traveler) :
    ∀ (l : List Stmt) (st : TState) (i : Nat) (ts : List Traveler),
      (∀ s ∈ l, ∀ j ty xs, f j ty s xs = f' j ty s xs) →
      evalFromX f st i ts l = evalFromX f' st i ts l
  | [], _, _, _, _ => rfl
  | s :: l, st, i, ts, h => by
    simp only [evalFromX]
    rw [h s List.mem_cons_self]
    cases typeStep st s with
    | error e => rfl
    | ok st' => exact evalFromX_congr f f' l st' (i + 1) _ (fun x hx => h x (List.mem_cons_of_mem _ hx))

end Grip.Props.C02.Lemmas
