/-
  Lemmas for C02, part 5 (session 4): facts about `indexStartOptimize` that hold for EVERY
  statement list (no typing, no order hypotheses):
    * a case-analysis/induction principle following the three equations of the rewrite,
    * the rewrite is total (the optimizer never panics),
    * a plan only contains statements of the traversal, `V(ids)`, `lookupVertsIndex` and `has`,
    * the plan types exactly as the traversal does (same final state, same error),
    * the rewrite commutes with appending a tail that begins with a statement at which the scan
      stops (so everything behind the first non-filter statement is copied verbatim),
  and the evaluation of a tail of order-sensitive statements on two permuted inputs.
-/
import Grip.Model.C02
import Grip.Spec.C02
import GripProofs.Lemmas.C02Opt
import GripProofs.Lemmas.C02Plan
import GripProofs.Lemmas.C02Fold
import GripProofs.Lemmas.C01
import GripProofs.Lemmas.C01Distinct
import Grip.Spec.C01
import Grip.Spec.C02Full

namespace Grip.Props.C02.Lemmas
open Grip Grip.C02 Grip.C08 Grip.Spec.C02

/-! ### an induction principle for `indexStartOptimize` -/

/-- The statements the scan passes before it reaches the first `has(and …)` are filters. -/
theorem splitAtAnd_pre_lead : ∀ (tail pre : List Stmt) (es : List HasE) (post : List Stmt),
    splitAtAnd tail = some (pre, es, post) → ∀ s ∈ pre, ∀ _h : classify s = .stop, False
  | [], _, _, _, h => by simp [splitAtAnd] at h
  | x :: rest, pre, es, post, h => by
    unfold splitAtAnd at h
    split at h
    · simp only [Option.some.injEq, Prod.mk.injEq] at h
      obtain ⟨rfl, -, -⟩ := h
      intro s hs; simp at hs
    · simp at h
    · rename_i hna hns
      split at h
      · rename_i pre' es' post' hsp
        simp only [Option.some.injEq, Prod.mk.injEq] at h
        obtain ⟨rfl, rfl, rfl⟩ := h
        intro s hs hstop
        rcases List.mem_cons.1 hs with rfl | hs'
        · exact hns hstop
        · exact splitAtAnd_pre_lead rest pre' es' post' hsp s hs' hstop
      · simp at h

/-- Every property of `indexStartOptimize` can be proved along its three equations: pipelines
    that do not start with a bare `V()` (returned unchanged), `V() :: tail` without an `and` in the
    scanned filters (`rewriteTail`), and `V() :: pre ++ has(and es) :: post` (the recursive call on
    the flattened pipeline). -/
theorem opt_induction (P : List Stmt → Option (List Stmt) → Prop)
    (hother : ∀ stmts, (∀ tail, stmts ≠ .V [] :: tail) → P stmts (some stmts))
    (hnoAnd : ∀ tail, splitAtAnd tail = none → P (.V [] :: tail) (rewriteTail tail))
    (hand : ∀ pre es post, splitAtAnd (pre ++ .has (.and es) :: post) = some (pre, es, post) →
      P (.V [] :: (pre ++ (es.map .has ++ post)))
        (indexStartOptimize (.V [] :: (pre ++ (es.map .has ++ post)))) →
      P (.V [] :: (pre ++ .has (.and es) :: post))
        (indexStartOptimize (.V [] :: (pre ++ (es.map .has ++ post))))) :
    ∀ stmts, P stmts (indexStartOptimize stmts) := by
  have main : ∀ (n : Nat) (stmts : List Stmt), pipeW stmts ≤ n → P stmts (indexStartOptimize stmts) := by
    intro n
    induction n with
    | zero =>
      intro stmts hn
      by_cases hv : ∃ tail, stmts = .V [] :: tail
      · obtain ⟨tail, rfl⟩ := hv
        cases hs : splitAtAnd tail with
        | none => rw [opt_noAnd tail hs]; exact hnoAnd tail hs
        | some p =>
          obtain ⟨pre, es, post⟩ := p
          have := splitAtAnd_eq hs
          subst this
          simp only [pipeW, pipeW_append, stmtW, hasSize] at hn
          omega
      · have hv' : ∀ tail, stmts ≠ .V [] :: tail := fun tail h => hv ⟨tail, h⟩
        rw [opt_other stmts hv']; exact hother stmts hv'
    | succ n ih =>
      intro stmts hn
      by_cases hv : ∃ tail, stmts = .V [] :: tail
      · obtain ⟨tail, rfl⟩ := hv
        cases hs : splitAtAnd tail with
        | none => rw [opt_noAnd tail hs]; exact hnoAnd tail hs
        | some p =>
          obtain ⟨pre, es, post⟩ := p
          rw [opt_and tail pre es post hs]
          have htl := splitAtAnd_eq hs
          subst htl
          have hlt : pipeW (.V [] :: (pre ++ (es.map .has ++ post))) ≤ n := by
            simp only [pipeW, pipeW_append, hasSizeL_map_le, stmtW, hasSize] at hn ⊢
            omega
          exact hand pre es post hs (ih _ hlt)
      · have hv' : ∀ tail, stmts ≠ .V [] :: tail := fun tail h => hv ⟨tail, h⟩
        rw [opt_other stmts hv']; exact hother stmts hv'
  intro stmts
  exact main (pipeW stmts) stmts (Nat.le_refl _)

/-! ### the rewrite is total -/

theorem idVals_isSome (s : Stmt) : ∃ v, idVals s = some v := by
  cases s <;> first | exact ⟨_, rfl⟩ | skip
  rename_i x
  cases x <;> first | exact ⟨_, rfl⟩ | skip
  rename_i k c a
  simp only [idVals, extractHasVals]
  split <;> exact ⟨_, rfl⟩

theorem labelVals_isSome (s : Stmt) : ∃ v, labelVals s = some v := by
  cases s <;> first | exact ⟨_, rfl⟩ | skip
  rename_i x
  cases x <;> first | exact ⟨_, rfl⟩ | skip
  rename_i k c a
  simp only [labelVals, extractHasVals]
  split <;> exact ⟨_, rfl⟩

theorem rewriteLabel_total (tail : List Stmt) : ∃ plan, rewriteLabel tail = some plan := by
  unfold rewriteLabel
  split
  · exact ⟨_, rfl⟩
  · rename_i k _
    obtain ⟨v, hv⟩ := labelVals_isSome (tail.getD k .unknown)
    rw [hv]
    simp only
    split <;> exact ⟨_, rfl⟩

theorem rewriteTail_total (tail : List Stmt) : ∃ plan, rewriteTail tail = some plan := by
  unfold rewriteTail
  split
  · exact rewriteLabel_total tail
  · rename_i k _
    obtain ⟨v, hv⟩ := idVals_isSome (tail.getD k .unknown)
    rw [hv]
    simp only
    split
    · exact rewriteLabel_total tail
    · exact ⟨_, rfl⟩

/-- `IndexStartOptimize` returns a plan for every pipeline (the model's `none` = "the optimizer
    panics" never happens since `fix: extractHasVals no longer type-asserts the WITHIN value`). -/
theorem opt_total (stmts : List Stmt) : ∃ plan, indexStartOptimize stmts = some plan := by
  refine opt_induction (fun _ r => ∃ plan, r = some plan) ?_ ?_ ?_ stmts
  · intro stmts _; exact ⟨_, rfl⟩
  · intro tail _; exact rewriteTail_total tail
  · intro pre es post _ ih; exact ih

/-! ### what a plan consists of -/

/-- The statements the rewrite may write itself. -/
def Added (s : Stmt) : Prop :=
  (∃ ids, s = .V ids) ∨ (∃ ls, s = .lookupVertsIndex ls) ∨ (∃ e, s = .has e)

theorem rewriteLabel_mem (tail plan : List Stmt) (h : rewriteLabel tail = some plan) :
    ∀ s ∈ plan, s ∈ tail ∨ Added s := by
  unfold rewriteLabel at h
  split at h
  · simp only [Option.some.injEq] at h; subst h
    intro s hs
    rcases List.mem_cons.1 hs with rfl | hs
    · exact Or.inr (Or.inl ⟨_, rfl⟩)
    · exact Or.inl hs
  · split at h
    · simp at h
    · simp only at h
      split at h
      · simp only [Option.some.injEq] at h; subst h
        intro s hs
        rcases List.mem_cons.1 hs with rfl | hs
        · exact Or.inr (Or.inl ⟨_, rfl⟩)
        · exact Or.inl hs
      · simp only [Option.some.injEq] at h; subst h
        intro s hs
        rcases List.mem_cons.1 hs with rfl | hs
        · exact Or.inr (Or.inr (Or.inl ⟨_, rfl⟩))
        · exact Or.inl (List.mem_of_mem_eraseIdx hs)

theorem rewriteTail_mem (tail plan : List Stmt) (h : rewriteTail tail = some plan) :
    ∀ s ∈ plan, s ∈ tail ∨ Added s := by
  unfold rewriteTail at h
  split at h
  · exact rewriteLabel_mem tail plan h
  · split at h
    · simp at h
    · simp only at h
      split at h
      · exact rewriteLabel_mem tail plan h
      · simp only [Option.some.injEq] at h; subst h
        intro s hs
        rcases List.mem_cons.1 hs with rfl | hs
        · exact Or.inr (Or.inl ⟨_, rfl⟩)
        · exact Or.inl (List.mem_of_mem_eraseIdx hs)

/-- **Plans only add `V(ids)`, `lookupVertsIndex` and `has` statements**: every statement of a plan
    is a statement of the traversal or one of those three. -/
theorem plan_adds_only (stmts plan : List Stmt) (h : indexStartOptimize stmts = some plan) :
    ∀ s ∈ plan, s ∈ stmts ∨ Added s := by
  revert plan
  refine opt_induction (fun stmts r => ∀ plan, r = some plan → ∀ s ∈ plan, s ∈ stmts ∨ Added s)
    ?_ ?_ ?_ stmts
  · intro stmts _ plan h s hs
    simp only [Option.some.injEq] at h; subst h
    exact Or.inl hs
  · intro tail _ plan h s hs
    rcases rewriteTail_mem tail plan h s hs with h1 | h1
    · exact Or.inl (List.mem_cons_of_mem _ h1)
    · exact Or.inr h1
  · intro pre es post _ ih plan h s hs
    rcases ih plan h s hs with h1 | h1
    · rcases List.mem_cons.1 h1 with rfl | h2
      · exact Or.inl List.mem_cons_self
      · rcases List.mem_append.1 h2 with h3 | h3
        · exact Or.inl (List.mem_cons_of_mem _ (List.mem_append_left _ h3))
        · rcases List.mem_append.1 h3 with h4 | h4
          · obtain ⟨e, _, rfl⟩ := List.mem_map.1 h4
            exact Or.inr (Or.inr (Or.inr ⟨e, rfl⟩))
          · exact Or.inl (List.mem_cons_of_mem _
              (List.mem_append_right _ (List.mem_cons_of_mem _ h4)))
    · exact Or.inr h1

theorem added_doc (s : Stmt) (h : Added s) :
    s.kind.documented = true ∨ s.kind = .lookupVertsIndex := by
  rcases h with ⟨_, rfl⟩ | ⟨_, rfl⟩ | ⟨_, rfl⟩
  · exact Or.inl rfl
  · exact Or.inr rfl
  · exact Or.inl rfl

/-! ### the plan types as the traversal does -/

theorem typeFold_append_err : ∀ (a b : List Stmt) (st : TState) (e : TypeErr),
    typeFold st a = .error e → typeFold st (a ++ b) = .error e
  | [], _, _, _, h => by simp [typeFold] at h
  | s :: a, b, st, e, h => by
    simp only [typeFold, List.cons_append] at h ⊢
    cases hs : typeStep st s with
    | error e' => simpa [hs] using h
    | ok st' => simp only [hs] at h ⊢; exact typeFold_append_err a b st' e h

/-- A run of filters leaves the typing state as it found it (or fails). -/
theorem typeFold_leads : ∀ (pre : List Stmt) (st stm : TState),
    (∀ s ∈ pre, ∀ _h : classify s = .stop, False) → typeFold st pre = .ok stm → stm = st
  | [], st, stm, _, h => by simp only [typeFold, Except.ok.injEq] at h; exact h.symm
  | s :: pre, st, stm, hl, h => by
    simp only [typeFold] at h
    cases hs : typeStep st s with
    | error e => simp [hs] at h
    | ok st' =>
      simp only [hs] at h
      have := lead_type s (hl s List.mem_cons_self) st st' hs
      subst this
      exact typeFold_leads pre _ stm (fun x hx => hl x (List.mem_cons_of_mem _ hx)) h

theorem typeStep_has_vertex (st : TState) (hv : st.last = .vertex) (x : HasE) :
    typeStep st (.has x) = .ok st := by
  simp [typeStep, needElement, hv]

/-- Erasing, at the index the scan found, a filter that types as the identity does not change
    the typing of the rest. -/
theorem erase_typeFold (want : Lead → Bool) : ∀ (tail : List Stmt) (k : Nat) (st : TState),
    firstIdx want tail = some k → typeStep st (tail.getD k .unknown) = .ok st →
    typeFold st (tail.eraseIdx k) = typeFold st tail
  | [], k, _, h, _ => by simp [firstIdx] at h
  | s :: rest, k, st, h, hk => by
    unfold firstIdx at h
    split at h
    · simp at h
    · rename_i hns
      have hns' : ∀ h : classify s = .stop, False := fun hh => hns hh
      split at h
      · simp only [Option.some.injEq] at h
        subst h
        simp only [List.getD_cons_zero] at hk
        simp only [List.eraseIdx_cons_zero, typeFold, hk]
      · cases hr : firstIdx want rest with
        | none => simp [hr] at h
        | some k' =>
          simp only [hr, Option.map_some, Option.some.injEq] at h
          subst h
          simp only [List.getD_cons_succ] at hk
          simp only [List.eraseIdx_cons_succ, typeFold]
          cases hs : typeStep st s with
          | error e => rfl
          | ok st' =>
            have := lead_type s hns' st st' hs
            subst this
            exact erase_typeFold want rest k' _ hr hk

theorem idStmt_types (s : Stmt) (ids : List String) (hc : Lead.isId (classify s) = true)
    (hv : idVals s = some ids) (hne : ids ≠ []) (st : TState) (hst : st.last = .vertex) :
    typeStep st s = .ok st := by
  cases s <;> try (simp [classify, Lead.isId] at hc; done)
  · exact typeStep_has_vertex st hst _
  · simp only [idVals, Option.some.injEq] at hv
    subst hv
    rename_i ids
    have : ids.isEmpty = false := by cases ids <;> simp_all
    simp [typeStep, needElement, hst, this]

theorem labelStmt_types (s : Stmt) (ls : List String) (hc : Lead.isLabel (classify s) = true)
    (hv : labelVals s = some ls) (hne : ls ≠ []) (st : TState) (hst : st.last = .vertex) :
    typeStep st s = .ok st := by
  cases s <;> try (simp [classify, Lead.isLabel] at hc; done)
  · exact typeStep_has_vertex st hst _
  · simp only [labelVals, Option.some.injEq] at hv
    subst hv
    rename_i ls
    have : ls.isEmpty = false := by cases ls <;> simp_all
    simp [typeStep, needElement, hst, this]

theorem typeFold_V (ids : List String) (l : List Stmt) :
    typeFold {} (.V ids :: l) = typeFold { last := .vertex, marks := [] } l := by
  simp [typeFold, typeStep]

theorem typeFold_index (ls : List String) (l : List Stmt) :
    typeFold {} (.lookupVertsIndex ls :: l) = typeFold { last := .vertex, marks := [] } l := by
  simp [typeFold, typeStep]

theorem rewriteLabel_typeFold (tail plan : List Stmt) (h : rewriteLabel tail = some plan) :
    typeFold {} plan = typeFold {} (.V [] :: tail) := by
  unfold rewriteLabel at h
  split at h
  · simp only [Option.some.injEq] at h; subst h; rfl
  · rename_i k hk
    split at h
    · simp at h
    · rename_i ls hls
      simp only at h
      split at h
      · simp only [Option.some.injEq] at h; subst h; rfl
      · rename_i hne
        simp only [Option.some.injEq] at h; subst h
        have hne' : (dedup ls).isEmpty = false := by simpa using hne
        obtain ⟨hcl, _⟩ := firstIdx_class Lead.isLabel tail k hk
        rw [typeFold_index, typeFold_V]
        exact erase_typeFold Lead.isLabel tail k _ hk
          (labelStmt_types _ ls hcl hls (dedup_ne_nil ls hne') _ rfl)

theorem rewriteTail_typeFold (tail plan : List Stmt) (h : rewriteTail tail = some plan) :
    typeFold {} plan = typeFold {} (.V [] :: tail) := by
  unfold rewriteTail at h
  split at h
  · exact rewriteLabel_typeFold tail plan h
  · rename_i k hk
    split at h
    · simp at h
    · rename_i ids hids
      simp only at h
      split at h
      · exact rewriteLabel_typeFold tail plan h
      · rename_i hne
        simp only [Option.some.injEq] at h; subst h
        have hne' : (dedup ids).isEmpty = false := by simpa using hne
        obtain ⟨hcl, _⟩ := firstIdx_class Lead.isId tail k hk
        rw [typeFold_V, typeFold_V]
        exact erase_typeFold Lead.isId tail k _ hk
          (idStmt_types _ ids hcl hids (dedup_ne_nil ids hne') _ rfl)

/-- Typing `has(e₁)…has(eₙ)` in a vertex state is the identity. -/
theorem typeFold_has_map (st : TState) (hst : st.last = .vertex) : ∀ (es : List HasE) (post : List Stmt),
    typeFold st (es.map .has ++ post) = typeFold st post
  | [], _ => rfl
  | x :: xs, post => by
    simp only [List.map_cons, List.cons_append, typeFold, typeStep_has_vertex st hst x]
    exact typeFold_has_map st hst xs post

theorem flatten_typeFold (pre : List Stmt) (es : List HasE) (post : List Stmt)
    (hl : ∀ s ∈ pre, ∀ _h : classify s = .stop, False) :
    typeFold {} (.V [] :: (pre ++ (es.map .has ++ post)))
      = typeFold {} (.V [] :: (pre ++ .has (.and es) :: post)) := by
  rw [typeFold_V, typeFold_V]
  cases hp : typeFold { last := .vertex, marks := [] } pre with
  | error e => rw [typeFold_append_err _ _ _ _ hp, typeFold_append_err _ _ _ _ hp]
  | ok stm =>
    have := typeFold_leads pre _ stm hl hp
    subst this
    rw [typeFold_append _ _ _ _ hp, typeFold_append _ _ _ _ hp, typeFold_has_map _ rfl]
    have hh := typeStep_has_vertex { last := .vertex, marks := [] } rfl (.and es)
    simp only [typeFold, hh]

/-- **The plan types exactly as the traversal**: the same final state, or the same error. -/
theorem opt_typeFold (stmts plan : List Stmt) (h : indexStartOptimize stmts = some plan) :
    typeFold {} plan = typeFold {} stmts := by
  revert plan
  refine opt_induction (fun stmts r => ∀ plan, r = some plan → typeFold {} plan = typeFold {} stmts)
    ?_ ?_ ?_ stmts
  · intro stmts _ plan h
    simp only [Option.some.injEq] at h; subst h; rfl
  · intro tail _ plan h
    exact rewriteTail_typeFold tail plan h
  · intro pre es post hs ih plan h
    rw [ih plan h]
    exact flatten_typeFold pre es post (splitAtAnd_pre_lead _ pre es post hs)

/-! ### the rewrite and a tail behind the scanned filters -/

theorem splitAtAnd_append_stop (s : Stmt) (r : List Stmt) (hs : classify s = .stop) :
    ∀ a : List Stmt, splitAtAnd (a ++ s :: r)
      = (splitAtAnd a).map (fun p => (p.1, p.2.1, p.2.2 ++ s :: r))
  | [] => by simp [splitAtAnd, hs]
  | x :: a => by
    have ih := splitAtAnd_append_stop s r hs a
    simp only [List.cons_append]
    rw [splitAtAnd, splitAtAnd]
    split
    · rfl
    · rfl
    · rw [ih]
      cases splitAtAnd a with
      | none => rfl
      | some p => obtain ⟨p1, p2, p3⟩ := p; rfl

theorem firstIdx_append_stop (want : Lead → Bool) (s : Stmt) (r : List Stmt) (hs : classify s = .stop) :
    ∀ a : List Stmt, firstIdx want (a ++ s :: r) = firstIdx want a
  | [] => by simp [firstIdx, hs]
  | x :: a => by
    have ih := firstIdx_append_stop want s r hs a
    simp only [List.cons_append]
    rw [firstIdx, firstIdx]
    split
    · rfl
    · rw [ih]

theorem firstIdx_lt (want : Lead → Bool) : ∀ (a : List Stmt) (k : Nat),
    firstIdx want a = some k → k < a.length
  | [], k, h => by simp [firstIdx] at h
  | x :: a, k, h => by
    unfold firstIdx at h
    split at h
    · simp at h
    · split at h
      · simp only [Option.some.injEq] at h; subst h; simp
      · cases hr : firstIdx want a with
        | none => simp [hr] at h
        | some k' =>
          simp only [hr, Option.map_some, Option.some.injEq] at h
          subst h
          have := firstIdx_lt want a k' hr
          simp only [List.length_cons]; omega

theorem getD_append_lt (a b : List Stmt) (k : Nat) (h : k < a.length) (d : Stmt) :
    (a ++ b).getD k d = a.getD k d := by
  simp [List.getD_eq_getElem?_getD, List.getElem?_append_left h]

theorem rewriteLabel_append_stop (s : Stmt) (r : List Stmt) (hs : classify s = .stop) (a : List Stmt) :
    rewriteLabel (a ++ s :: r) = (rewriteLabel a).map (· ++ s :: r) := by
  unfold rewriteLabel
  rw [firstIdx_append_stop Lead.isLabel s r hs a]
  cases hk : firstIdx Lead.isLabel a with
  | none => rfl
  | some k =>
    have hlt := firstIdx_lt Lead.isLabel a k hk
    simp only
    rw [getD_append_lt a _ k hlt]
    cases labelVals (a.getD k .unknown) with
    | none => rfl
    | some ls =>
      simp only
      split
      · rfl
      · simp [List.eraseIdx_append_of_lt_length hlt]

theorem rewriteTail_append_stop (s : Stmt) (r : List Stmt) (hs : classify s = .stop) (a : List Stmt) :
    rewriteTail (a ++ s :: r) = (rewriteTail a).map (· ++ s :: r) := by
  unfold rewriteTail
  rw [firstIdx_append_stop Lead.isId s r hs a]
  cases hk : firstIdx Lead.isId a with
  | none => exact rewriteLabel_append_stop s r hs a
  | some k =>
    have hlt := firstIdx_lt Lead.isId a k hk
    simp only
    rw [getD_append_lt a _ k hlt]
    cases idVals (a.getD k .unknown) with
    | none => rfl
    | some ids =>
      simp only
      split
      · exact rewriteLabel_append_stop s r hs a
      · simp [List.eraseIdx_append_of_lt_length hlt]

/-- **Everything behind the first statement at which the scan stops is copied verbatim**: the
    rewrite of `pre ++ s :: r` (with `pre` non-empty and `s` not a filter) is the rewrite of `pre`
    followed by `s :: r`. -/
theorem opt_append_stop (s : Stmt) (r : List Stmt) (hs : classify s = .stop) (pre : List Stmt)
    (hne : pre ≠ []) :
    indexStartOptimize (pre ++ s :: r) = (indexStartOptimize pre).map (· ++ s :: r) := by
  revert hne
  refine opt_induction (fun pre res => pre ≠ [] →
    indexStartOptimize (pre ++ s :: r) = res.map (· ++ s :: r)) ?_ ?_ ?_ pre
  · intro stmts hv _
    apply opt_other
    intro tail h
    cases stmts with
    | nil => exact absurd rfl ‹[] ≠ []›
    | cons x xs =>
      simp only [List.cons_append, List.cons.injEq] at h
      exact hv xs (by rw [h.1])
  · intro tail hsp _
    have : splitAtAnd (tail ++ s :: r) = none := by
      rw [splitAtAnd_append_stop s r hs tail, hsp]; rfl
    rw [List.cons_append, opt_noAnd _ this]
    exact rewriteTail_append_stop s r hs tail
  · intro pre es post hsp ih _
    have h1 : splitAtAnd ((pre ++ .has (.and es) :: post) ++ s :: r)
        = some (pre, es, post ++ s :: r) := by
      rw [splitAtAnd_append_stop s r hs _, hsp]; rfl
    rw [List.cons_append, opt_and _ pre es (post ++ s :: r) h1]
    have := ih (by simp)
    simpa [List.append_assoc] using this

end Grip.Props.C02.Lemmas

/-! ### tails of order-sensitive statements on two inputs -/

namespace Grip.Props.C02.Lemmas
open Grip Grip.C02 Grip.C08 Grip.Spec.C02 Grip.Spec.C01 Grip.Props.C01.Lemmas

variable (numOf : String → Option Int) (g : AGraph)

theorem evalStepP_eq (from_ : DataType) (s : Stmt) (h : s.kind ≠ .lookupVertsIndex)
    (ts : List Traveler) : evalStepP numOf g from_ s ts = evalStepT numOf g from_ s ts := by
  cases s <;> first | rfl | exact absurd rfl h

theorem evalFromX_noIndex : ∀ (l : List Stmt) (st : TState) (i : Nat) (ts : List Traveler),
    (∀ s ∈ l, s.kind ≠ .lookupVertsIndex) →
    evalFromX (fun _ => evalStepP numOf g) st i ts l = evalFrom numOf g st ts l
  | [], _, _, _, _ => rfl
  | s :: l, st, i, ts, h => by
    simp only [evalFromX, evalFrom]
    rw [evalStepP_eq numOf g st.last s (h s List.mem_cons_self)]
    cases typeStep st s with
    | error e => rfl
    | ok st' => exact evalFromX_noIndex l st' (i + 1) _ (fun x hx => h x (List.mem_cons_of_mem _ hx))

theorem evalFromX_append_const (f : DataType → Stmt → List Traveler → List Traveler) :
    ∀ (a b : List Stmt) (st stm : TState) (i : Nat) (ts : List Traveler), typeFold st a = .ok stm →
      evalFromX (fun _ => f) st i ts (a ++ b)
        = evalFromX (fun _ => f) stm (i + a.length) (evalFromX (fun _ => f) st i ts a) b
  | [], b, st, stm, i, ts, h => by simp [typeFold] at h; subst h; rfl
  | s :: a, b, st, stm, i, ts, h => by
    simp only [typeFold, List.cons_append, evalFromX] at h ⊢
    cases hs : typeStep st s with
    | error e => simp [hs] at h
    | ok st' =>
      simp only [hs] at h ⊢
      rw [evalFromX_append_const f a b st' stm (i + 1) _ h]
      congr 1
      simp only [List.length_cons]; omega

/-- Cuts (and every other statement that keeps the typing state) type as the identity. -/
theorem typeFold_cut : ∀ (tail : List Stmt) (st stf : TState), tail.all isCut = true →
    typeFold st tail = .ok stf → stf = st
  | [], st, stf, _, h => by simp only [typeFold, Except.ok.injEq] at h; exact h.symm
  | s :: tail, st, stf, hall, h => by
    simp only [List.all_cons, Bool.and_eq_true] at hall
    simp only [typeFold] at h
    cases hs : typeStep st s with
    | error e => simp [hs] at h
    | ok st' =>
      simp only [hs] at h
      have : st' = st := by
        cases s <;> simp [isCut] at hall
        all_goals
          simp only [typeStep, needElement] at hs
          first
            | (simp only [Except.ok.injEq] at hs; exact hs.symm)
            | (split at hs
               · simp at hs
               · simp only [Except.ok.injEq] at hs; exact hs.symm)
      subst this
      exact typeFold_cut tail _ stf hall.2 h

theorem step_len (from_ : DataType) (s : Stmt) (h : lenDet s = true) (xs ys : List Traveler)
    (hl : xs.length = ys.length) :
    (evalStepT numOf g from_ s xs).length = (evalStepT numOf g from_ s ys).length := by
  cases s <;> simp [lenDet] at h <;> simp only [evalStepT, List.length_map, List.length_take,
    List.length_drop, List.length_cons, List.length_nil, stepRange, rangeGo_length, hl]

/-- Behind length-determined statements the number of rows depends on the number of rows in
    front only. -/
theorem evalFrom_len : ∀ (tail : List Stmt) (st : TState) (xs ys : List Traveler),
    tail.all lenDet = true → xs.length = ys.length →
    (evalFrom numOf g st xs tail).length = (evalFrom numOf g st ys tail).length
  | [], _, _, _, _, hl => by simpa [evalFrom] using hl
  | s :: tail, st, xs, ys, hall, hl => by
    simp only [List.all_cons, Bool.and_eq_true] at hall
    simp only [evalFrom]
    cases typeStep st s with
    | error e => rfl
    | ok st' => exact evalFrom_len tail st' _ _ hall.2 (step_len numOf g st.last s hall.1 xs ys hl)

theorem distinct_len (from_ : DataType) (fs : List String) {xs ys : List Traveler} (h : xs.Perm ys) :
    (evalStepT numOf g from_ (.distinct fs) xs).length
      = (evalStepT numOf g from_ (.distinct fs) ys).length := by
  simp only [evalStepT, stepDistinct]
  rw [distinctGo_length, distinctGo_length]
  exact (distinctGo_keys_perm _ [] h).length_eq

/-- … and behind `distinct` followed by length-determined statements it depends on the MULTISET
    of rows in front only. -/
theorem evalFrom_countTail (tail : List Stmt) (st : TState) (xs ys : List Traveler)
    (ht : countTail tail = true) (hp : xs.Perm ys) :
    (evalFrom numOf g st xs tail).length = (evalFrom numOf g st ys tail).length := by
  cases tail with
  | nil => simpa [evalFrom] using hp.length_eq
  | cons s r =>
    by_cases hd : ∃ fs, s = .distinct fs
    · obtain ⟨fs, rfl⟩ := hd
      simp only [countTail] at ht
      simp only [evalFrom]
      cases typeStep st (.distinct fs) with
      | error e => rfl
      | ok st' => exact evalFrom_len numOf g r st' _ _ ht (distinct_len numOf g st.last fs hp)
    · have ht' : (s :: r).all lenDet = true := by
        cases s <;> first | exact ht | exact absurd ⟨_, rfl⟩ hd
      exact evalFrom_len numOf g (s :: r) st xs ys ht' hp.length_eq

theorem step_cut_sublist (from_ : DataType) (s : Stmt) (h : isCut s = true) (xs : List Traveler) :
    (evalStepT numOf g from_ s xs).Sublist xs := by
  cases s <;> simp [isCut] at h <;> simp only [evalStepT, stepRange, stepDistinct]
  · exact List.take_sublist _ _
  · exact List.drop_sublist _ _
  · exact rangeGo_sublist _ _ _ _
  · exact distinctGo_sublist _ _ _

/-- Cuts return a subsequence of the rows in front of them. -/
theorem evalFrom_cut_sublist : ∀ (tail : List Stmt) (st : TState) (xs : List Traveler),
    tail.all isCut = true → (evalFrom numOf g st xs tail).Sublist xs
  | [], _, xs, _ => by simp [evalFrom]
  | s :: tail, st, xs, hall => by
    simp only [List.all_cons, Bool.and_eq_true] at hall
    simp only [evalFrom]
    cases typeStep st s with
    | error e => exact List.nil_sublist _
    | ok st' =>
      exact (evalFrom_cut_sublist tail st' _ hall.2).trans (step_cut_sublist numOf g st.last s hall.1 xs)

/-- Behind truncations the number of rows is C01's count arithmetic on the number in front. -/
theorem evalFrom_truncSize : ∀ (tail : List Stmt) (st : TState) (xs : List Traveler),
    tail.all isTruncStmt = true →
    (evalFrom numOf g st xs tail).length = truncSize tail xs.length
  | [], _, xs, _ => by simp [evalFrom, truncSize]
  | s :: tail, st, xs, hall => by
    simp only [List.all_cons, Bool.and_eq_true] at hall
    obtain ⟨h1, hall⟩ := hall
    cases s <;> simp [isTruncStmt] at h1
    · simp only [evalFrom, typeStep, truncSize]
      rw [evalFrom_truncSize tail st _ hall]
      simp [evalStepT, limitCount]
    · simp only [evalFrom, typeStep, truncSize]
      rw [evalFrom_truncSize tail st _ hall]
      simp [evalStepT, skipCount]
    · rename_i a b
      simp only [evalFrom, typeStep, truncSize]
      rw [evalFrom_truncSize tail st _ hall]
      congr 1
      simp only [evalStepT, stepRange, rangeCount, rangeGo_length]
      split <;> simp

/-- A subsequence of a reordering is a reordering of a subsequence (the two usual readings of
    "sub-multiset" agree). -/
theorem sublist_perm_swap {α : Type} {l₂ l₂' : List α} (p : l₂.Perm l₂') :
    ∀ {l₁ : List α}, l₁.Sublist l₂ → ∃ l₁' : List α, l₁'.Perm l₁ ∧ l₁'.Sublist l₂' := by
  induction p with
  | nil => intro l₁ s; exact ⟨l₁, List.Perm.refl _, s⟩
  | cons x _ ih =>
    intro l₁ s
    cases s with
    | cons _ s' =>
      obtain ⟨l', hp, hs⟩ := ih s'
      exact ⟨l', hp, hs.cons x⟩
    | cons_cons _ s' =>
      obtain ⟨l', hp, hs⟩ := ih s'
      exact ⟨x :: l', hp.cons x, hs.cons_cons x⟩
  | swap x y l =>
    intro l₁ s
    cases s with
    | cons _ s' =>
      cases s' with
      | cons _ s'' => exact ⟨_, List.Perm.refl _, (s''.cons y).cons x⟩
      | cons_cons _ s'' => exact ⟨_, List.Perm.refl _, (s''.cons y).cons_cons x⟩
    | cons_cons _ s' =>
      cases s' with
      | cons _ s'' => exact ⟨_, List.Perm.refl _, (s''.cons_cons y).cons x⟩
      | cons_cons _ s'' => exact ⟨_, List.Perm.swap _ _ _, (s''.cons_cons y).cons_cons x⟩
  | trans _ _ ih1 ih2 =>
    intro l₁ s
    obtain ⟨l', hp, hs⟩ := ih1 s
    obtain ⟨l'', hp', hs'⟩ := ih2 hs
    exact ⟨l'', hp'.trans hp, hs'⟩

end Grip.Props.C02.Lemmas

/-! ### the plan of `pre ++ tail`: the plan of `pre`, then `tail` on a reordering -/

namespace Grip.Props.C02.Lemmas
open Grip Grip.C02 Grip.C08 Grip.Spec.C02

variable (numOf : String → Option Int) (g : AGraph)

/-- The scan stops at every statement that is not order-free (and at many others). -/
theorem stop_of_not_orderFree (s : Stmt) (h : orderFree s = false) : classify s = .stop := by
  cases s <;> first | rfl | simp [orderFree] at h

theorem stop_of_lenDet (s : Stmt) (h : lenDet s = true) : classify s = .stop := by
  cases s <;> first | rfl | simp [lenDet] at h

theorem stop_of_cut (s : Stmt) (h : isCut s = true) : classify s = .stop := by
  cases s <;> first | rfl | simp [isCut] at h

/-- For an order-free prefix `pre` and a tail that begins where the scan stops: the plan is the
    plan of `pre` followed by `tail`; both type as the traversal; and the literal execution of the
    plan is `tail` run on a reordering `B` of the rows `pre` returns. -/
theorem planned_tail (hg : g.WellFormed) (pre tail : List Stmt) (st : TState)
    (hne : pre ≠ []) (hpre : pre.all orderFree = true)
    (hhead : ∀ s ∈ tail.head?, classify s = .stop)
    (hnoidx : ∀ s ∈ tail, s.kind ≠ .lookupVertsIndex)
    (ht : typeFold {} (pre ++ tail) = .ok st) :
    ∃ (planPre : List Stmt) (stm : TState) (B : List Traveler),
      indexStartOptimize (pre ++ tail) = some (planPre ++ tail) ∧
      indexStartOptimize pre = some planPre ∧
      typeFold {} pre = .ok stm ∧ typeFold stm tail = .ok st ∧
      typeFold {} (planPre ++ tail) = .ok st ∧
      B.Perm (evalFrom numOf g {} [Traveler.seed] pre) ∧
      evalPlan numOf g (planPre ++ tail) = evalFrom numOf g stm B tail ∧
      evalFrom numOf g {} [Traveler.seed] (pre ++ tail)
        = evalFrom numOf g stm (evalFrom numOf g {} [Traveler.seed] pre) tail := by
  obtain ⟨planPre, hp⟩ := opt_total pre
  obtain ⟨stm, hta, htb⟩ := typeFold_append_inv pre tail {} st ht
  obtain ⟨h1, h2⟩ := opt_preserves numOf g hg (pipeW pre) pre planPre stm (Nat.le_refl _) hpre hp hta
  refine ⟨planPre, stm, evalPlan numOf g planPre, ?_, hp, hta, htb, ?_, h2, ?_, ?_⟩
  · cases tail with
    | nil => simpa using hp
    | cons s r =>
      rw [opt_append_stop s r (hhead s (by simp)) pre hne, hp]
      rfl
  · rw [typeFold_append _ _ _ _ h1]; exact htb
  · unfold evalPlan
    rw [evalFromX_append_const (evalStepP numOf g) planPre tail {} stm 0 _ h1,
      evalFromX_noIndex numOf g tail stm _ _ hnoidx]
  · exact evalFrom_append numOf g pre tail {} stm _ hta

end Grip.Props.C02.Lemmas

namespace Grip.Props.C02.Lemmas

theorem sublist_perm_append {α : Type} {l b : List α} (h : l.Sublist b) :
    ∃ rest : List α, b.Perm (l ++ rest) := by
  induction h with
  | slnil => exact ⟨[], List.Perm.refl _⟩
  | cons x _ ih =>
    obtain ⟨rest, hp⟩ := ih
    exact ⟨x :: rest, (hp.cons x).trans List.perm_middle.symm⟩
  | cons_cons x _ ih =>
    obtain ⟨rest, hp⟩ := ih
    exact ⟨rest, hp.cons x⟩

/-- A reordering of a subsequence of `b` is a subsequence of a reordering of `b`. -/
theorem sub_of_perm_sublist {α : Type} {a l b : List α} (hp : l.Perm a) (hs : l.Sublist b) :
    ∃ m : List α, m.Perm b ∧ a.Sublist m := by
  obtain ⟨rest, hb⟩ := sublist_perm_append hs
  exact ⟨a ++ rest, (hp.symm.append_right rest).trans hb.symm, List.sublist_append_left a rest⟩

end Grip.Props.C02.Lemmas
