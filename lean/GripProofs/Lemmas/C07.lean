/-
  Lemmas for C07: the chain of stages (§1 of Grip.Model.C07) — measure, linkage invariant,
  progress; generic facts about measured transition systems.
-/
import Grip.Model.C07

namespace Grip.Props.C07.Lemmas
open Grip.C07

/-! ### measured transition systems -/

theorem reach_trans {σ : Type} {R : σ → σ → Prop} {a b c : σ} (h1 : Reach R a b) (h2 : Reach R b c) :
    Reach R a c := by
  induction h2 with
  | refl => exact h1
  | step _ hs ih => exact Reach.step ih hs

theorem reach_head {σ : Type} {R : σ → σ → Prop} {a b c : σ} (h1 : R a b) (h2 : Reach R b c) :
    Reach R a c := reach_trans (Reach.step (Reach.refl a) h1) h2

theorem reach_inv {σ : Type} {R : σ → σ → Prop} (P : σ → Prop) (hstep : ∀ a b, P a → R a b → P b)
    {a b : σ} (h : Reach R a b) (ha : P a) : P b := by
  induction h with
  | refl => exact ha
  | step _ hs ih => exact hstep _ _ ih hs

/-- a system whose every step decreases a natural-number measure reaches, from every state, a
    state without successor -/
theorem exists_terminal {σ : Type} (R : σ → σ → Prop) (μ : σ → Nat)
    (hdec : ∀ a b, R a b → μ b < μ a) : ∀ (n : Nat) (s : σ), μ s ≤ n → ∃ t, Reach R s t ∧ ∀ u, ¬ R t u := by
  intro n
  induction n with
  | zero =>
    intro s hs
    refine ⟨s, Reach.refl s, ?_⟩
    intro u hu
    have := hdec _ _ hu
    omega
  | succ n ih =>
    intro s hs
    by_cases h : ∃ u, R s u
    · obtain ⟨u, hu⟩ := h
      have hlt := hdec _ _ hu
      obtain ⟨t, ht, hterm⟩ := ih u (by omega)
      exact ⟨t, reach_head hu ht, hterm⟩
    · exact ⟨s, Reach.refl s, fun u hu => h ⟨u, hu⟩⟩

/-- … and no run is longer than the measure of its first state -/
theorem run_bounded {σ : Type} (R : σ → σ → Prop) (μ : σ → Nat) (hdec : ∀ a b, R a b → μ b < μ a)
    (run : Nat → σ) (k : Nat) (hrun : ∀ i, i < k → R (run i) (run (i + 1))) : μ (run k) + k ≤ μ (run 0) := by
  induction k with
  | zero => simp
  | succ k ih =>
    have h1 := ih (fun i hi => hrun i (by omega))
    have h2 := hdec _ _ (hrun k (by omega))
    omega

/-! ### sums -/

theorem sumMap_append {α : Type} (g : α → Nat) (xs ys : List α) :
    sumMap g (xs ++ ys) = sumMap g xs + sumMap g ys := by
  induction xs with
  | nil => simp [sumMap]
  | cons x xs ih => simp [sumMap, ih]; omega

/-! ### chain: what a step leaves unchanged -/

theorem step_fs {α : Type} {cs cs' : List (Cell α)} (h : Step cs cs') : fsOf cs' = fsOf cs := by
  induction h with
  | take _ _ _ => simp [fsOf]
  | emit _ _ => simp [fsOf]
  | emitLast _ => simp [fsOf]
  | close _ _ _ _ => simp [fsOf]
  | closeLast _ _ _ _ => simp [fsOf]
  | tail _ ih => simp [fsOf] at ih ⊢; exact ih

/-- a step at or behind the head keeps the head's capacity, stage function and `inClosed` -/
theorem step_head {α : Type} {c : Cell α} {r cs' : List (Cell α)} (h : Step (c :: r) cs') :
    ∃ c' r', cs' = c' :: r' ∧ c'.inClosed = c.inClosed ∧ c'.cap = c.cap ∧ c'.f = c.f := by
  cases h with
  | take _ _ _ => exact ⟨_, _, rfl, rfl, rfl, rfl⟩
  | emit _ _ => exact ⟨_, _, rfl, rfl, rfl, rfl⟩
  | emitLast _ => exact ⟨_, _, rfl, rfl, rfl, rfl⟩
  | close _ _ _ _ => exact ⟨_, _, rfl, rfl, rfl, rfl⟩
  | closeLast _ _ _ _ => exact ⟨_, _, rfl, rfl, rfl, rfl⟩
  | tail _ => exact ⟨_, _, rfl, rfl, rfl, rfl⟩

theorem step_ne_nil {α : Type} {cs cs' : List (Cell α)} (h : Step cs cs') : cs ≠ [] ∧ cs' ≠ [] := by
  cases h <;> simp

/-! ### chain: the measure decreases -/

theorem mu_step {α : Type} {cs cs' : List (Cell α)} (h : Step cs cs') : mu cs' < mu cs := by
  induction h with
  | @take c x xs r hh hb hd =>
    simp [mu, hh, hb, hd, sumMap, wHand, wItem]
    omega
  | @emit c d y ys r hh hroom =>
    simp [mu, hh, sumMap, wHand, wItem, fsOf, sumMap_append]
    omega
  | @emitLast c y ys hh =>
    simp [mu, hh, sumMap, wHand, wItem, fsOf]
  | @close c d r hh hb hi hd =>
    simp [mu, hh, hb, hd, sumMap, wHand, fsOf]
  | @closeLast c hh hb hi hd =>
    simp [mu, hh, hb, hd, sumMap, wHand, fsOf]
  | @tail c r r' hs ih =>
    have hf := step_fs hs
    simp [mu, hf]
    omega

/-! ### chain: the linkage invariant is preserved -/

theorem linked_head {α : Type} {c : Cell α} {r : List (Cell α)} (h : Linked (c :: r)) : WFc c := by
  cases r with
  | nil => exact h
  | cons d r => exact h.1

theorem linked_tail {α : Type} {c : Cell α} {r : List (Cell α)} (h : Linked (c :: r)) : Linked r := by
  cases r with
  | nil => trivial
  | cons d r => exact h.2.2

theorem linked_cons {α : Type} {c d : Cell α} {r : List (Cell α)} (hc : WFc c) (hl : d.inClosed = c.done)
    (ht : Linked (d :: r)) : Linked (c :: d :: r) := ⟨hc, hl, ht⟩

theorem linked_step {α : Type} {cs cs' : List (Cell α)} (h : Step cs cs') (hl : Linked cs) : Linked cs' := by
  induction h with
  | @take c x xs r hh hb hd =>
    have hw := linked_head hl
    have hw' : WFc { c with buf := xs, hand := c.f x } := ⟨hw.1, by simp [hd]⟩
    cases r with
    | nil => exact hw'
    | cons d r => exact ⟨hw', hl.2.1, hl.2.2⟩
  | @emit c d y ys r hh hroom =>
    obtain ⟨hwc, hlink, ht⟩ := hl
    have hcd : c.done = false := by
      cases hcd : c.done with
      | false => rfl
      | true => have := (hwc.2 hcd).2.2; simp [hh] at this
    have hdd : d.done = false := by
      have hwd := linked_head ht
      cases hdd : d.done with
      | false => rfl
      | true => have := (hwd.2 hdd).1; rw [hlink, hcd] at this; cases this
    have hwc' : WFc { c with hand := ys } := ⟨hwc.1, by simp [hcd]⟩
    have hwd' : WFc { d with buf := d.buf ++ [y] } := ⟨(linked_head ht).1, by simp [hdd]⟩
    cases r with
    | nil => exact ⟨hwc', hlink, hwd'⟩
    | cons e r => exact ⟨hwc', hlink, hwd', ht.2.1, ht.2.2⟩
  | @emitLast c y ys hh =>
    have hw : WFc c := hl
    have hcd : c.done = false := by
      cases hcd : c.done with
      | false => rfl
      | true => have := (hw.2 hcd).2.2; simp [hh] at this
    exact ⟨hw.1, by simp [hcd]⟩
  | @close c d r hh hb hi hd =>
    obtain ⟨hwc, hlink, ht⟩ := hl
    have hwd := linked_head ht
    have hdd : d.done = false := by
      cases hdd : d.done with
      | false => rfl
      | true => have := (hwd.2 hdd).1; rw [hlink, hd] at this; cases this
    have hwc' : WFc { c with done := true } := ⟨hwc.1, by simp [hh, hb, hi]⟩
    have hwd' : WFc { d with inClosed := true } := ⟨hwd.1, by simp [hdd]⟩
    cases r with
    | nil => exact ⟨hwc', rfl, hwd'⟩
    | cons e r => exact ⟨hwc', rfl, hwd', ht.2.1, ht.2.2⟩
  | @closeLast c hh hb hi hd =>
    have hw : WFc c := hl
    exact ⟨hw.1, by simp [hh, hb, hi]⟩
  | @tail c r r' hs ih =>
    have hwc := linked_head hl
    have ht' := ih (linked_tail hl)
    cases r with
    | nil => exact absurd rfl (step_ne_nil hs).1
    | cons d r =>
      obtain ⟨d', r'', he, hin, _, _⟩ := step_head hs
      subst he
      exact ⟨hwc, by rw [hin]; exact hl.2.1, ht'⟩

/-! ### chain: progress -/

/-- A stage that has not ended can move, or something behind it can, unless it is waiting for
    input on an empty, still open channel. -/
theorem progress {α : Type} : ∀ (cs : List (Cell α)) (c : Cell α), Linked (c :: cs) → c.done = false →
    (∃ cs', Step (c :: cs) cs') ∨ (c.buf = [] ∧ c.hand = [] ∧ c.inClosed = false) := by
  intro cs
  induction cs with
  | nil =>
    intro c hl hd
    cases hh : c.hand with
    | cons y ys => exact Or.inl ⟨_, Step.emitLast hh⟩
    | nil =>
      cases hb : c.buf with
      | cons x xs => exact Or.inl ⟨_, Step.take hh hb hd⟩
      | nil =>
        cases hi : c.inClosed with
        | true => exact Or.inl ⟨_, Step.closeLast hh hb hi hd⟩
        | false => exact Or.inr ⟨rfl, rfl, rfl⟩
  | cons d r ih =>
    intro c hl hd
    obtain ⟨hwc, hlink, ht⟩ := hl
    have hwd := linked_head ht
    have hdd : d.done = false := by
      cases hdd : d.done with
      | false => rfl
      | true => have := (hwd.2 hdd).1; rw [hlink, hd] at this; cases this
    cases ih d ht hdd with
    | inl hstep =>
      obtain ⟨cs', hs⟩ := hstep
      exact Or.inl ⟨_, Step.tail hs⟩
    | inr hidle =>
      obtain ⟨hdb, _, _⟩ := hidle
      cases hh : c.hand with
      | cons y ys =>
        have hroom : d.buf.length < d.cap := by rw [hdb]; exact hwd.1
        exact Or.inl ⟨_, Step.emit hh hroom⟩
      | nil =>
        cases hb : c.buf with
        | cons x xs => exact Or.inl ⟨_, Step.take hh hb hd⟩
        | nil =>
          cases hi : c.inClosed with
          | true => exact Or.inl ⟨_, Step.close hh hb hi hd⟩
          | false => exact Or.inr ⟨rfl, rfl, rfl⟩

/-- A linked chain whose first channel is closed and in which nothing can move has ended. -/
theorem stuck_done {α : Type} : ∀ (cs : List (Cell α)) (c : Cell α), Linked (c :: cs) → c.inClosed = true →
    (∀ cs', ¬ Step (c :: cs) cs') → AllDone (c :: cs) := by
  intro cs
  induction cs with
  | nil =>
    intro c hl hi hno
    have hd : c.done = true := by
      cases hd : c.done with
      | true => rfl
      | false =>
        cases progress [] c hl hd with
        | inl h => obtain ⟨cs', hs⟩ := h; exact absurd hs (hno cs')
        | inr h => rw [hi] at h; cases h.2.2
    intro x hx
    simp at hx
    subst hx
    exact hd
  | cons d r ih =>
    intro c hl hi hno
    have hd : c.done = true := by
      cases hd : c.done with
      | true => rfl
      | false =>
        cases progress (d :: r) c hl hd with
        | inl h => obtain ⟨cs', hs⟩ := h; exact absurd hs (hno cs')
        | inr h => rw [hi] at h; cases h.2.2
    obtain ⟨_, hlink, ht⟩ := hl
    have hdi : d.inClosed = true := by rw [hlink, hd]
    have hrest := ih d ht hdi (fun cs' hs => hno _ (Step.tail hs))
    intro x hx
    cases hx with
    | head => exact hd
    | tail _ hx' => exact hrest x hx'

theorem alldone_no_step {α : Type} {cs cs' : List (Cell α)} (hl : Linked cs) (hd : AllDone cs) : ¬ Step cs cs' := by
  intro h
  induction h with
  | @take c x xs r hh hb hdn => have := hd c (by simp); rw [hdn] at this; cases this
  | @emit c d y ys r hh hroom =>
    have h1 := hd c (by simp)
    have := ((linked_head hl).2 h1).2.2
    rw [hh] at this; cases this
  | @emitLast c y ys hh =>
    have h1 := hd c (by simp)
    have hw : WFc c := hl
    have := (hw.2 h1).2.2
    rw [hh] at this; cases this
  | @close c d r hh hb hi hdn => have := hd c (by simp); rw [hdn] at this; cases this
  | @closeLast c hh hb hi hdn => have := hd c (by simp); rw [hdn] at this; cases this
  | @tail c r r' hs ih =>
    exact ih (linked_tail hl) (fun x hx => hd x (List.mem_cons_of_mem _ hx))

theorem linked_init {α : Type} (stages : List (Nat × (α → List α))) (input : List α)
    (hpos : ∀ s ∈ stages, 0 < s.1) : Linked (initChain stages input) := by
  cases stages with
  | nil => trivial
  | cons s rest =>
    obtain ⟨cap, f⟩ := s
    simp only [initChain]
    have h0 : 0 < cap := hpos (cap, f) (by simp)
    have hrest : ∀ s ∈ rest, 0 < s.1 := fun s hs => hpos s (List.mem_cons_of_mem _ hs)
    -- the tail: all cells open, empty, not done
    have tailLinked : ∀ (rest : List (Nat × (α → List α))), (∀ s ∈ rest, 0 < s.1) →
        Linked (rest.map (fun s => ({ cap := s.1, f := s.2, buf := [], hand := [], inClosed := false, done := false } : Cell α))) := by
      intro rest
      induction rest with
      | nil => intro _; trivial
      | cons a rest ih =>
        intro hp
        have ha : 0 < a.1 := hp a (by simp)
        have ih' := ih (fun s hs => hp s (List.mem_cons_of_mem _ hs))
        cases rest with
        | nil => exact ⟨ha, by simp⟩
        | cons b rest => exact ⟨⟨ha, by simp⟩, rfl, ih'⟩
    have ht := tailLinked rest hrest
    cases rest with
    | nil => exact ⟨h0, by simp⟩
    | cons b rest => exact ⟨⟨h0, by simp⟩, rfl, ht⟩

end Grip.Props.C07.Lemmas
