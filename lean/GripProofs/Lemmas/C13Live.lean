/-
  Lemmas for C13, liveness: ranking functions (natural-number measures) for the five transition
  systems of Grip.Model.C13, and the generic consequences of having one.

    generic   `Ranked act I μ`: `I` is preserved by every step and every step is idle (`s' = s`)
              or strictly decreases `μ`.  Consequences: `exec_bound` (a finite execution from `s`
              has at most `μ s` non-idle steps), `exists_terminal` (it can always be extended to
              a maximal one), `run_bound` / `run_eventually_idle` (an infinite execution has at
              most `μ (run 0)` non-idle steps, so from some point on it only idles),
              `run_reaches_terminal` (under `Progress` it sits in a terminal state forever).
    dual, queue, mux: every step decreases the measure by exactly one (`…_dec`), a closed
              reachable state has measure 0 (`…_closed_mu`), so every maximal execution has
              EXACTLY `μ init` steps.
    batcher:  every step other than an idle poll decreases the measure (`bat_dec`);
              `bat_idle_iff` characterises the idle steps.
    queue + spin: `Spec.qSpinAct` (goroutine B's busy-wait as an idle action): `q_spin_dec`.
    rr:       in Lemmas/C13LiveRR.lean (`rr_dec`: every step strictly decreases `rrMu`).
-/
import Grip.Model.C13
import Grip.Spec.C13Live
import GripProofs.Lemmas.C13
import GripProofs.Lemmas.C13Tagged
import GripProofs.Lemmas.C13Progress

namespace Grip.Props.C13.Lemmas
open Grip.C13 Grip.C13.Spec

/-! ## generic: ranking functions -/

/-- `μ` is a ranking function for `act` on the states satisfying the (step-preserved) `I` -/
structure Ranked {σ A : Type} (act : A → σ → Option σ) (I : σ → Prop) (μ : σ → Nat) : Prop where
  inv : ∀ a s s', I s → act a s = some s' → I s'
  dec : ∀ a s s', I s → act a s = some s' → s' = s ∨ μ s' < μ s

/-- every step strictly decreases `μ` (there are no idle steps) -/
def Strict {σ A : Type} (act : A → σ → Option σ) (I : σ → Prop) (μ : σ → Nat) : Prop :=
  ∀ a s s', I s → act a s = some s' → μ s' < μ s

theorem ranked_of_strict {σ A : Type} {act : A → σ → Option σ} {I : σ → Prop} {μ : σ → Nat}
    (hinv : ∀ a s s', I s → act a s = some s' → I s') (h : Strict act I μ) : Ranked act I μ :=
  ⟨hinv, fun a s s' hi ha => Or.inr (h a s s' hi ha)⟩

theorem exec_inv {σ A : Type} {act : A → σ → Option σ} {I : σ → Prop} {μ : σ → Nat}
    (hr : Ranked act I μ) {s s' : σ} {n k : Nat} (he : Exec act s n k s') : I s → I s' := by
  induction he with
  | nil s => exact id
  | idle a _ _ ih => exact ih
  | step a ha _ _ ih => intro hi; exact ih (hr.inv a _ _ hi ha)

/-- a finite execution from `s` has at most `μ s` non-idle steps -/
theorem exec_bound {σ A : Type} {act : A → σ → Option σ} {I : σ → Prop} {μ : σ → Nat}
    (hr : Ranked act I μ) {s s' : σ} {n k : Nat} (he : Exec act s n k s') :
    I s → μ s' + k ≤ μ s := by
  induction he with
  | nil s => intro _; exact Nat.le_refl _
  | idle a _ _ ih => exact ih
  | step a ha hne _ ih =>
    intro hi
    have h1 := ih (hr.inv a _ _ hi ha)
    rcases hr.dec a _ _ hi ha with h | h
    · exact absurd h hne
    · omega

/-- without idle steps the two counters agree -/
theorem exec_strict_total {σ A : Type} {act : A → σ → Option σ} {I : σ → Prop} {μ : σ → Nat}
    (hinv : ∀ a s s', I s → act a s = some s' → I s') (hs : Strict act I μ)
    {s s' : σ} {n k : Nat} (he : Exec act s n k s') : I s → n = k := by
  induction he with
  | nil s => intro _; rfl
  | idle a ha _ _ => intro hi; exact absurd (hs a _ _ hi ha) (Nat.lt_irrefl _)
  | step a ha _ _ ih => intro hi; rw [ih (hinv a _ _ hi ha)]

/-- when every step decreases `μ` by exactly one, an execution of `n` steps decreases it by `n` -/
theorem exec_exact {σ A : Type} {act : A → σ → Option σ} {I : σ → Prop} {μ : σ → Nat}
    (hinv : ∀ a s s', I s → act a s = some s' → I s')
    (hone : ∀ a s s', I s → act a s = some s' → μ s = μ s' + 1)
    {s s' : σ} {n k : Nat} (he : Exec act s n k s') : I s → μ s = μ s' + n ∧ n = k := by
  induction he with
  | nil s => intro _; exact ⟨rfl, rfl⟩
  | idle a ha _ _ => intro hi; have := hone a _ _ hi ha; omega
  | step a ha _ _ ih =>
    intro hi
    have h1 := ih (hinv a _ _ hi ha)
    have h2 := hone a _ _ hi ha
    omega

/-- when every non-idle step decreases `μ` by exactly one, an execution with `k` non-idle steps
    decreases it by `k` -/
theorem exec_exact_nonidle {σ A : Type} {act : A → σ → Option σ} {μ : σ → Nat}
    (hone : ∀ a s s', act a s = some s' → s' = s ∨ μ s = μ s' + 1)
    {s s' : σ} {n k : Nat} (he : Exec act s n k s') : μ s = μ s' + k := by
  induction he with
  | nil s => rfl
  | idle a _ _ ih => exact ih
  | step a ha hne _ ih =>
    rcases hone a _ _ ha with h | h
    · exact absurd h hne
    · omega

theorem exec_reach {σ A : Type} {act : A → σ → Option σ} {s0 s s' : σ} {n k : Nat}
    (he : Exec act s n k s') : Reach act s0 s → Reach act s0 s' := by
  induction he with
  | nil s => exact id
  | idle a _ _ ih => exact ih
  | step a ha _ _ ih => intro h; exact ih (Reach.step a h ha)

theorem exec_trans {σ A : Type} {act : A → σ → Option σ} {s t u : σ} {n1 k1 n2 k2 : Nat}
    (h1 : Exec act s n1 k1 t) (h2 : Exec act t n2 k2 u) : Exec act s (n1 + n2) (k1 + k2) u := by
  induction h1 with
  | nil s => simpa using h2
  | @idle s s' n k a ha _ ih =>
    have e : n + 1 + n2 = n + n2 + 1 := by omega
    rw [e]; exact Exec.idle a ha (ih h2)
  | @step s t s' n k a ha hne _ ih =>
    have e : n + 1 + n2 = n + n2 + 1 := by omega
    have e' : k + 1 + k2 = k + k2 + 1 := by omega
    rw [e, e']; exact Exec.step a ha hne (ih h2)

/-- every state has a maximal finite execution -/
theorem exists_terminal {σ A : Type} {act : A → σ → Option σ} {I : σ → Prop} {μ : σ → Nat}
    (hr : Ranked act I μ) : ∀ (m : Nat) (s : σ), μ s ≤ m → I s →
      ∃ n k s', Exec act s n k s' ∧ Terminal act s' := by
  intro m
  induction m with
  | zero =>
    intro s hm hi
    refine ⟨0, 0, s, Exec.nil s, ?_⟩
    intro a s' ha
    rcases hr.dec a s s' hi ha with h | h
    · exact h
    · omega
  | succ m ih =>
    intro s hm hi
    by_cases ht : Terminal act s
    · exact ⟨0, 0, s, Exec.nil s, ht⟩
    · unfold Terminal at ht
      have ⟨a, hta⟩ := Classical.not_forall.1 ht
      have ⟨t, htt⟩ := Classical.not_forall.1 hta
      have ⟨ha, hne⟩ := Classical.not_imp.1 htt
      rcases hr.dec a s t hi ha with h | h
      · exact absurd h hne
      · obtain ⟨n, k, s', he, hterm⟩ := ih t (by omega) (hr.inv a s t hi ha)
        exact ⟨n + 1, k + 1, s', Exec.step a ha hne he, hterm⟩

/-- every finite execution can be extended to a maximal one -/
theorem exec_extends {σ A : Type} {act : A → σ → Option σ} {I : σ → Prop} {μ : σ → Nat}
    (hr : Ranked act I μ) {s t : σ} {n k : Nat} (he : Exec act s n k t) (hi : I s) :
    ∃ n' k' u, Exec act s (n + n') (k + k') u ∧ Terminal act u := by
  obtain ⟨n', k', u, he', ht⟩ := exists_terminal hr (μ t) t (Nat.le_refl _) (exec_inv hr he hi)
  exact ⟨n', k', u, exec_trans he he', ht⟩

/-! ### infinite executions -/

theorem run_inv {σ A : Type} {act : A → σ → Option σ} {I : σ → Prop} {μ : σ → Nat}
    (hr : Ranked act I μ) {run : Nat → σ} (hrun : IsRun act run) (h0 : I (run 0)) : ∀ n, I (run n) := by
  intro n
  induction n with
  | zero => exact h0
  | succ n ih => obtain ⟨a, ha⟩ := hrun n; exact hr.inv a _ _ ih ha

/-- an infinite execution has at most `μ (run 0)` non-idle steps -/
theorem run_bound {σ A : Type} {act : A → σ → Option σ} {I : σ → Prop} {μ : σ → Nat}
    (hr : Ranked act I μ) {run : Nat → σ} (hrun : IsRun act run) (h0 : I (run 0)) :
    ∀ n, μ (run n) + nonIdle run n ≤ μ (run 0) := by
  intro n
  induction n with
  | zero => simp [nonIdle]
  | succ n ih =>
    obtain ⟨a, ha⟩ := hrun n
    have hi := run_inv hr hrun h0 n
    simp only [nonIdle]
    rcases hr.dec a _ _ hi ha with h | h
    · rw [if_pos h, h]; omega
    · split <;> omega

theorem nonIdle_mono {σ : Type} (run : Nat → σ) : ∀ n m, n ≤ m → nonIdle run n ≤ nonIdle run m := by
  intro n m h
  induction m with
  | zero => have : n = 0 := by omega
            subst this; exact Nat.le_refl _
  | succ m ih =>
    by_cases hn : n = m + 1
    · subst hn; exact Nat.le_refl _
    · have := ih (by omega)
      simp only [nonIdle]; omega

/-- if non-idle steps keep occurring, the count is unbounded -/
theorem nonIdle_unbounded {σ : Type} (run : Nat → σ)
    (h : ∀ N, ∃ n, N ≤ n ∧ run (n + 1) ≠ run n) : ∀ k, ∃ n, k ≤ nonIdle run n := by
  intro k
  induction k with
  | zero => exact ⟨0, Nat.zero_le _⟩
  | succ k ih =>
    obtain ⟨n, hn⟩ := ih
    obtain ⟨m, hm, hne⟩ := h n
    refine ⟨m + 1, ?_⟩
    have := nonIdle_mono run n m hm
    simp only [nonIdle, if_neg hne]; omega

/-- an infinite execution idles from some point on -/
theorem run_eventually_idle {σ A : Type} {act : A → σ → Option σ} {I : σ → Prop} {μ : σ → Nat}
    (hr : Ranked act I μ) {run : Nat → σ} (hrun : IsRun act run) (h0 : I (run 0)) :
    ∃ N, ∀ n, N ≤ n → run (n + 1) = run n := by
  apply Classical.byContradiction
  intro hno
  have h : ∀ N, ∃ n, N ≤ n ∧ run (n + 1) ≠ run n := by
    intro N
    apply Classical.byContradiction
    intro hN
    apply hno
    refine ⟨N, fun n hn => ?_⟩
    apply Classical.byContradiction
    intro hne
    exact hN ⟨n, hn, hne⟩
  obtain ⟨n, hn⟩ := nonIdle_unbounded run h (μ (run 0) + 1)
  have := run_bound hr hrun h0 n
  omega

/-- without idle steps there is no infinite execution -/
theorem strict_no_run {σ A : Type} {act : A → σ → Option σ} {I : σ → Prop} {μ : σ → Nat}
    (hinv : ∀ a s s', I s → act a s = some s' → I s') (hs : Strict act I μ)
    {run : Nat → σ} (hrun : IsRun act run) (h0 : I (run 0)) : False := by
  have hr := ranked_of_strict hinv hs
  obtain ⟨N, hN⟩ := run_eventually_idle hr hrun h0
  obtain ⟨a, ha⟩ := hrun N
  have := hs a _ _ (run_inv hr hrun h0 N) ha
  rw [hN N (Nat.le_refl _)] at this
  exact Nat.lt_irrefl _ this

/-- under `Progress`, an infinite execution ends up sitting in a terminal state -/
theorem run_reaches_terminal {σ A : Type} {act : A → σ → Option σ} {I : σ → Prop} {μ : σ → Nat}
    (hr : Ranked act I μ) {run : Nat → σ} (hrun : IsRun act run) (h0 : I (run 0))
    (hp : Progress act run) : ∃ N, Terminal act (run N) ∧ ∀ n, N ≤ n → run n = run N := by
  obtain ⟨N, hN⟩ := run_eventually_idle hr hrun h0
  refine ⟨N, ?_, ?_⟩
  · apply Classical.byContradiction
    intro hnt
    obtain ⟨n, hn, hne⟩ := hp N hnt
    exact hne (hN n hn)
  · intro n hn
    induction n with
    | zero => have : N = 0 := by omega
              subst this; rfl
    | succ n ih =>
      by_cases h : N = n + 1
      · subst h; rfl
      · rw [hN n (by omega)]; exact ih (by omega)

theorem run_reach {σ A : Type} {act : A → σ → Option σ} {run : Nat → σ} (hrun : IsRun act run) :
    ∀ n, Reach act (run 0) (run n) := by
  intro n
  induction n with
  | zero => exact Reach.init
  | succ n ih => obtain ⟨a, ha⟩ := hrun n; exact Reach.step a ih ha

/-- a terminal state in which no idle step is enabled either admits no step -/
theorem dead_of_terminal_strict {σ A : Type} {act : A → σ → Option σ} {I : σ → Prop} {μ : σ → Nat}
    (hs : Strict act I μ) {s : σ} (hi : I s) (ht : Terminal act s) : Dead act s := by
  intro a
  cases h : act a s with
  | none => rfl
  | some s' =>
    have := hs a s s' hi h
    rw [ht a s' h] at this
    exact absurd this (Nat.lt_irrefl _)

theorem terminal_of_dead {σ A : Type} {act : A → σ → Option σ} {s : σ} (h : Dead act s) :
    Terminal act s := by
  intro a s' ha
  rw [h a] at ha
  cases ha

/-- when every step costs exactly one, a state that owes nothing admits no step -/
theorem dead_of_mu_zero {σ A : Type} {act : A → σ → Option σ} {μ : σ → Nat} {s : σ}
    (hone : ∀ a s', act a s = some s' → μ s = μ s' + 1) (h0 : μ s = 0) : Dead act s := by
  intro a
  cases h : act a s with
  | none => rfl
  | some s' => have := hone a s' h; omega

/-- the scheduled runner of the model (what `gripdriver C13` executes) performs an execution -/
theorem runSched_exec {σ A : Type} (act : A → σ → Option σ) (cands : σ → List A) :
    ∀ (fuel seed : Nat) (s : σ), ∃ n k, Exec act s n k (runSched act cands fuel seed s) := by
  intro fuel
  induction fuel with
  | zero => intro seed s; exact ⟨0, 0, by simpa [runSched] using Exec.nil s⟩
  | succ m ih =>
    intro seed s
    simp only [runSched]
    split
    · rename_i s' hs'
      have hm : s' ∈ (cands s).filterMap (fun a => act a s) := List.mem_of_getElem? hs'
      obtain ⟨a, _, ha⟩ := List.mem_filterMap.1 hm
      obtain ⟨n, k, he⟩ := ih (lcg seed) s'
      by_cases hss : s' = s
      · subst hss; exact ⟨n + 1, k, Exec.idle a ha he⟩
      · exact ⟨n + 1, k + 1, Exec.step a ha hss he⟩
    · exact ⟨0, 0, Exec.nil s⟩

/-! ## Dual — every step costs exactly one -/

/-- steps still owed by the request stage 1 is draining: one emit and one stage-2 send per
    remaining loader item, and the `s1next` -/
def dualCurW {ρ δ : Type} : Option (ρ × List δ) → Nat
  | none => 0
  | some (_, ds) => 2 * ds.length + 1

/-- steps owed by a request not yet received: a signal is received and forwarded (2); another
    request is received, each loader item is emitted and forwarded, and stage 1 moves on -/
def dualInpW {ρ δ : Type} (isSig : ρ → Bool) (loader : ρ → List δ) (r : ρ) : Nat :=
  if isSig r then 2 else 2 * (loader r).length + 2

def dualMu {ρ δ : Type} (isSig : ρ → Bool) (loader : ρ → List δ) (s : Dual ρ δ) : Nat :=
  (s.inp.map (dualInpW isSig loader)).sum + dualCurW s.cur + s.data.length +
    (!s.s1done).toNat + (!s.outClosed).toNat

theorem dual_dec {ρ δ : Type} (isSig : ρ → Bool) (loader : ρ → List δ) (des : ρ → δ → ρ)
    (a : DualAct) (s s' : Dual ρ δ) (hact : dualAct isSig loader des a s = some s') :
    dualMu isSig loader s = dualMu isSig loader s' + 1 := by
  cases a <;> simp only [dualAct] at hact
  · -- s1recv
    split at hact
    · rename_i r rest hc hi
      split at hact
      · rename_i hs
        cases hact
        simp [dualMu, hc, hi, dualCurW, dualInpW, hs] <;> omega
      · rename_i hs
        cases hact
        simp [dualMu, hc, hi, dualCurW, dualInpW, hs] <;> omega
    · cases hact
  · -- s1emit
    split at hact
    · rename_i r d ds hc
      cases hact
      simp [dualMu, hc, dualCurW] <;> omega
    · cases hact
  · -- s1next
    split at hact
    · rename_i r hc
      cases hact
      simp [dualMu, hc, dualCurW] <;> omega
    · cases hact
  · -- s1close
    split at hact
    · rename_i hc hi
      split at hact
      · rename_i h1
        cases hact
        simp [dualMu, hc, hi, dualCurW, h1] <;> omega
      · cases hact
    · cases hact
  · -- s2
    split at hact
    · rename_i d rest hd
      split at hact
      · rename_i ho
        cases hact
        simp [dualMu, hd] <;> omega
      · cases hact
    · cases hact
  · -- s2close
    split at hact
    · rename_i hd
      split at hact
      · rename_i hg
        cases hact
        simp [dualMu, hd, hg.1, hg.2] <;> omega
      · cases hact
    · cases hact

theorem dual_strict {ρ δ : Type} (isSig : ρ → Bool) (loader : ρ → List δ) (des : ρ → δ → ρ) :
    Strict (dualAct isSig loader des) (fun _ => True) (dualMu isSig loader) := by
  intro a s s' _ h
  have := dual_dec isSig loader des a s s' h
  omega

theorem dual_mu_init {ρ δ : Type} (isSig : ρ → Bool) (loader : ρ → List δ) (xs : List ρ) :
    dualMu isSig loader (dualInit xs : Dual ρ δ) = (xs.map (dualInpW isSig loader)).sum + 2 := by
  simp [dualMu, dualInit, dualCurW] <;> omega

/-- the weight in terms of the expected output -/
theorem dual_weight_le {ρ δ : Type} (isSig : ρ → Bool) (loader : ρ → List δ) (des : ρ → δ → ρ) :
    ∀ xs : List ρ, (xs.map (dualInpW isSig loader)).sum ≤
      2 * (xs.flatMap (dualOutOf isSig loader des)).length + 2 * xs.length := by
  intro xs
  induction xs with
  | nil => simp
  | cons r rest ih =>
    simp only [List.map_cons, List.sum_cons, List.flatMap_cons, List.length_append, List.length_cons]
    have : dualInpW isSig loader r ≤ 2 * (dualOutOf isSig loader des r).length + 2 := by
      unfold dualInpW dualOutOf
      split <;> simp
    omega

/-- a closed reachable state owes nothing -/
theorem dual_closed_mu {ρ δ : Type} (isSig : ρ → Bool) (loader : ρ → List δ) (des : ρ → δ → ρ)
    (xs : List ρ) (s : Dual ρ δ) (h : Reach (dualAct isSig loader des) (dualInit xs) s)
    (hc : s.outClosed = true) : dualMu isSig loader s = 0 := by
  have hi := dual_inv isSig loader des xs s h
  obtain ⟨h1, hd⟩ := hi.fin hc
  obtain ⟨hin, hcur⟩ := hi.s1 h1
  simp [dualMu, hc, h1, hd, hin, hcur, dualCurW] <;> omega

theorem dual_closed_dead {ρ δ : Type} (isSig : ρ → Bool) (loader : ρ → List δ) (des : ρ → δ → ρ)
    (xs : List ρ) (s : Dual ρ δ) (h : Reach (dualAct isSig loader des) (dualInit xs) s)
    (hc : s.outClosed = true) : Dead (dualAct isSig loader des) s :=
  dead_of_mu_zero (fun a s' ha => dual_dec isSig loader des a s s' ha)
    (dual_closed_mu isSig loader des xs s h hc)

/-! ## Queue — every step costs exactly one -/

def qMu {α : Type} (s : Q α) : Nat :=
  4 * s.inp.length + 3 * s.chIn.length + 2 * s.queue.length + s.hold.isSome.toNat +
    (!s.inClosed).toNat + (!s.closed).toNat + s.running.toNat + (!s.outClosed).toNat

theorem q_dec {α : Type} (c : QCfg) (a : QAct) (s s' : Q α) (hact : qAct c a s = some s') :
    qMu s = qMu s' + 1 := by
  cases a <;> simp only [qAct] at hact
  · -- send
    split at hact
    · rename_i x rest hx
      cases hact
      simp [qMu, hx] <;> omega
    · cases hact
  · -- closeIn
    split at hact
    · rename_i hx
      split at hact
      · rename_i hg
        cases hact
        simp [qMu, hg] <;> omega
      · cases hact
    · cases hact
  · -- inRecv
    split at hact
    · rename_i x rest hx
      cases hact
      simp [qMu, hx] <;> omega
    · cases hact
  · -- inDone
    split at hact
    · rename_i hx
      split at hact
      · rename_i hg
        cases hact
        simp [qMu, hg.2] <;> omega
      · cases hact
    · cases hact
  · -- pop
    split at hact
    · rename_i hg
      have hh : s.hold = none := by simpa using hg.2
      split at hact
      · split at hact
        · rename_i v rest hq
          cases hact
          simp [qMu, hq, hh] <;> omega
        · cases hact
      · split at hact
        · rename_i v rest hq
          cases hact
          have hl : s.queue.length = rest.length + 1 := by
            have := congrArg List.length hq
            simpa using this
          simp [qMu, hl, hh] <;> omega
        · cases hact
    · cases hact
  · -- stop
    split at hact
    · rename_i hq
      split at hact
      · rename_i hg
        cases hact
        simp [qMu, hg.1] <;> omega
      · cases hact
    · cases hact
  · -- push
    split at hact
    · rename_i v hv
      cases hact
      simp [qMu, hv] <;> omega
    · cases hact
  · -- fin
    split at hact
    · rename_i hg
      cases hact
      simp [qMu, hg.2.2] <;> omega
    · cases hact

theorem q_strict {α : Type} (c : QCfg) : Strict (qAct (α := α) c) (fun _ => True) qMu := by
  intro a s s' _ h
  have := q_dec c a s s' h
  omega

theorem q_mu_init {α : Type} (xs : List α) : qMu (qInit xs) = 4 * xs.length + 4 := by
  simp [qMu, qInit] <;> omega

theorem q_closed_mu {α : Type} (c : QCfg) (hc : c.popsHead = true) (xs : List α) (s : Q α)
    (h : Reach (qAct c) (qInit xs) s) (hcl : s.outClosed = true) : qMu s = 0 := by
  have hi := q_inv c hc xs s h
  obtain ⟨hr, hh⟩ := hi.fin hcl
  obtain ⟨hq, hcd, _⟩ := hi.stopped hr
  obtain ⟨hch, hin, hic⟩ := hi.closed hcd
  simp [qMu, hcl, hr, hh, hq, hcd, hch, hin, hic] <;> omega

theorem q_closed_dead {α : Type} (c : QCfg) (hc : c.popsHead = true) (xs : List α) (s : Q α)
    (h : Reach (qAct c) (qInit xs) s) (hcl : s.outClosed = true) : Dead (qAct c) s :=
  dead_of_mu_zero (fun a s' ha => q_dec c a s s' ha) (q_closed_mu c hc xs s h hcl)

/-! ### the queue with goroutine B's busy-wait as an explicit idle step (`Spec.qSpinAct`) -/

theorem q_spin_dec {α : Type} (c : QCfg) (a : QSpinAct) (s s' : Q α) (hact : qSpinAct c a s = some s') :
    s' = s ∨ qMu s = qMu s' + 1 := by
  cases a with
  | act a => exact Or.inr (q_dec c a s s' hact)
  | spin =>
    left
    simp only [qSpinAct] at hact
    split at hact
    · split at hact
      · exact (Option.some.inj hact).symm
      · cases hact
    · cases hact

theorem q_spin_ranked {α : Type} (c : QCfg) : Ranked (qSpinAct (α := α) c) (fun _ => True) qMu :=
  ⟨fun _ _ _ _ _ => trivial, fun a s s' _ h => by
    rcases q_spin_dec c a s s' h with h | h
    · exact Or.inl h
    · exact Or.inr (by omega)⟩

/-- the spin steps do not reach new states -/
theorem q_spin_reach {α : Type} (c : QCfg) (xs : List α) :
    ∀ s, Reach (qSpinAct c) (qInit xs) s → Reach (qAct c) (qInit xs) s := by
  intro s h
  induction h with
  | init => exact Reach.init
  | step a _ hact ih =>
    cases a with
    | act a => exact Reach.step a ih hact
    | spin =>
      rcases q_spin_dec c .spin _ _ hact with h | h
      · rw [h]; exact ih
      · simp only [qSpinAct] at hact
        split at hact
        · split at hact
          · rw [← Option.some.inj hact]; exact ih
          · cases hact
        · cases hact

theorem q_spin_terminal {α : Type} (c : QCfg) (s : Q α) (ht : Terminal (qSpinAct c) s) :
    Terminal (qAct c) s :=
  fun a s' ha => ht (.act a) s' ha

theorem q_spin_closed_dead {α : Type} (c : QCfg) (hc : c.popsHead = true) (xs : List α) (s : Q α)
    (h : Reach (qSpinAct c) (qInit xs) s) (hcl : s.outClosed = true) : Dead (qSpinAct c) s := by
  have hr := q_spin_reach c xs s h
  have hd := q_closed_dead c hc xs s hr hcl
  have hrun := ((q_inv c hc xs s hr).fin hcl).1
  intro a
  cases a with
  | act a => exact hd a
  | spin => simp only [qSpinAct]; split <;> simp [hrun]

/-! ## Batcher — the only system with idle steps -/

/-- two per unread item (receive it, flush it), one for an open batch, one for detecting the
    closed input, one for closing the output -/
def batMu {α : Type} (s : Bat α) : Nat :=
  2 * s.inp.length + (!s.o.isEmpty).toNat + s.opn.toNat + (!s.outClosed).toNat

theorem bat_flush_le {α : Type} (c : BatCfg) (t : Bool) (s : Bat α) :
    batMu (batFlush c t s) ≤ batMu s := by
  unfold batFlush
  split
  · simp [batMu]
  · exact Nat.le_refl _

theorem bat_flush_dec {α : Type} (c : BatCfg) (t : Bool) (s : Bat α) :
    batFlush c t s = s ∨ batMu (batFlush c t s) < batMu s := by
  unfold batFlush
  split
  · rename_i hg
    right
    have : s.o.isEmpty = false := by
      cases h : s.o with
      | nil => simp [h] at hg
      | cons y ys => rfl
    simp [batMu, this]
  · left; rfl

/-- the flush test of the loop body -/
def batFlushes {α : Type} (c : BatCfg) (t : Bool) (s : Bat α) : Prop :=
  0 < s.o.length ∧ (c.bs ≤ s.o.length ∨ t = true)

theorem bat_flush_eq_iff {α : Type} (c : BatCfg) (t : Bool) (s : Bat α) :
    batFlush c t s = s ↔ ¬ batFlushes c t s := by
  constructor
  · intro h hf
    have hf' : 0 < s.o.length ∧ (c.bs ≤ s.o.length ∨ t = true) := hf
    have : batMu (batFlush c t s) < batMu s := by
      unfold batFlush
      rw [if_pos hf']
      have : s.o.isEmpty = false := by
        cases h : s.o with
        | nil => simp [h] at hf'
        | cons y ys => rfl
      simp [batMu, this]
    rw [h] at this
    exact Nat.lt_irrefl _ this
  · intro h
    have h' : ¬ (0 < s.o.length ∧ (c.bs ≤ s.o.length ∨ t = true)) := h
    unfold batFlush
    rw [if_neg h']

/-- receiving (an item or the close) and finishing decrease the measure -/
theorem bat_nonidle_dec {α : Type} (c : BatCfg) (a : BatAct) (ha : ∀ t, a ≠ .idle t) (s s' : Bat α)
    (hact : batAct c a s = some s') : batMu s' < batMu s := by
  cases a <;> simp only [batAct] at hact
  · -- recv
    rename_i t
    split at hact
    · rename_i ho
      split at hact
      · rename_i x rest hx
        cases hact
        refine Nat.lt_of_le_of_lt (bat_flush_le c t _) ?_
        simp only [batMu, hx, ho, List.length_cons]
        cases s.o <;> simp <;> omega
      · rename_i hx
        cases hact
        refine Nat.lt_of_le_of_lt (bat_flush_le c t _) ?_
        simp [batMu, ho]
    · cases hact
  · -- idle
    rename_i t
    exact absurd rfl (ha t)
  · -- fin
    split at hact
    · rename_i hg
      cases hact
      split
      · simp [batMu, hg.1, hg.2]; omega
      · simp [batMu, hg.1, hg.2]
    · cases hact

/-- every step is idle or decreases the measure -/
theorem bat_dec {α : Type} (c : BatCfg) (a : BatAct) (s s' : Bat α) (hact : batAct c a s = some s') :
    s' = s ∨ batMu s' < batMu s := by
  cases a with
  | recv t => exact Or.inr (bat_nonidle_dec c _ (by intro t' h; cases h) s s' hact)
  | fin => exact Or.inr (bat_nonidle_dec c _ (by intro t' h; cases h) s s' hact)
  | idle t =>
    simp only [batAct] at hact
    split at hact
    · cases hact
      exact bat_flush_dec c t s
    · cases hact

/-- the idle steps are exactly the polls that find nothing and do not flush -/
theorem bat_idle_iff {α : Type} (c : BatCfg) (a : BatAct) (s : Bat α) :
    batAct c a s = some s ↔ ∃ t, a = .idle t ∧ s.opn = true ∧ ¬ batFlushes c t s := by
  constructor
  · intro h
    cases a with
    | recv t => exact absurd (bat_nonidle_dec c _ (by intro t' h; cases h) s s h) (Nat.lt_irrefl _)
    | fin => exact absurd (bat_nonidle_dec c _ (by intro t' h; cases h) s s h) (Nat.lt_irrefl _)
    | idle t =>
      simp only [batAct] at h
      split at h
      · rename_i ho
        exact ⟨t, rfl, ho, (bat_flush_eq_iff c t s).1 (Option.some.inj h)⟩
      · cases h
  · rintro ⟨t, rfl, ho, hf⟩
    simp [batAct, ho, (bat_flush_eq_iff c t s).2 hf]

theorem bat_ranked {α : Type} (c : BatCfg) : Ranked (batAct (α := α) c) (fun _ => True) batMu :=
  ⟨fun _ _ _ _ _ => trivial, fun a s s' _ h => bat_dec c a s s' h⟩

theorem bat_mu_init {α : Type} (xs : List α) : batMu (batInit xs) = 2 * xs.length + 2 := by
  simp [batMu, batInit]

/-- a NON-IDLE step is enabled while the loop runs (the receive: of an item, or of the close of
    the request channel) and, after the loop, until the output is closed (final flush and close) -/
theorem bat_progress {α : Type} (c : BatCfg) (s : Bat α) (h : s.opn = true ∨ s.outClosed = false) :
    ∃ a s', batAct c a s = some s' ∧ s' ≠ s := by
  have key : ∀ a, (∀ t, a ≠ BatAct.idle t) → (batAct c a s).isSome = true →
      ∃ a s', batAct c a s = some s' ∧ s' ≠ s := by
    intro a ha hs
    cases hh : batAct c a s with
    | none => simp [hh] at hs
    | some s' =>
      refine ⟨a, s', hh, ?_⟩
      intro he
      have := bat_nonidle_dec c a ha s s' hh
      rw [he] at this
      exact Nat.lt_irrefl _ this
  cases ho : s.opn with
  | true =>
    apply key (.recv false) (by intro t' h; cases h)
    simp only [batAct, ho]
    cases s.inp <;> simp
  | false =>
    have hc : s.outClosed = false := by
      rcases h with h | h
      · simp [ho] at h
      · exact h
    apply key .fin (by intro t' h; cases h)
    simp [batAct, ho, hc]

/-- so a terminal state of the batcher is: loop ended, output closed -/
theorem bat_terminal {α : Type} (c : BatCfg) (s : Bat α) (ht : Terminal (batAct c) s) :
    s.opn = false ∧ s.outClosed = true := by
  have h : ¬ (s.opn = true ∨ s.outClosed = false) := by
    intro h
    obtain ⟨a, s', ha, hne⟩ := bat_progress c s h
    exact hne (ht a s' ha)
  cases ho : s.opn <;> cases hc : s.outClosed <;> simp [ho, hc] at h ⊢

/-- after the close the loop has ended: nothing is enabled, not even an idle poll -/
theorem bat_closed_dead {α : Type} (c : BatCfg) (hbs : 0 < c.bs) (hf : c.finalFlush = true)
    (xs : List α) (s : Bat α) (h : Reach (batAct c) (batInit xs) s) (hcl : s.outClosed = true) :
    Dead (batAct c) s := by
  have ho := ((bat_inv c hbs hf xs s h).fin hcl).1
  intro a
  cases a <;> simp [batAct, ho, hcl]

/-! ## finite sums over the per-worker / per-pipeline channels -/

def sumTo : Nat → (Nat → Nat) → Nat
  | 0, _ => 0
  | K + 1, g => sumTo K g + g K

theorem sumTo_congr {g g' : Nat → Nat} : ∀ K, (∀ j, j < K → g' j = g j) → sumTo K g' = sumTo K g := by
  intro K
  induction K with
  | zero => intro _; rfl
  | succ K ih =>
    intro h
    simp only [sumTo]
    rw [ih (fun j hj => h j (by omega)), h K (by omega)]

theorem sumTo_zero {g : Nat → Nat} (K : Nat) (h : ∀ j, j < K → g j = 0) : sumTo K g = 0 := by
  induction K with
  | zero => rfl
  | succ K ih => simp only [sumTo]; rw [ih (fun j hj => h j (by omega)), h K (by omega)]

/-- changing the summand at one index `i < K` -/
theorem sumTo_point {g g' : Nat → Nat} {i : Nat} : ∀ K, i < K → (∀ j, j ≠ i → g' j = g j) →
    sumTo K g' + g i = sumTo K g + g' i := by
  intro K
  induction K with
  | zero => intro h; omega
  | succ K ih =>
    intro hi h
    simp only [sumTo]
    by_cases hK : i = K
    · subst hK
      rw [sumTo_congr i (fun j hj => h j (by omega))]
      omega
    · have := ih (by omega) h
      rw [h K (fun e => hK e.symm)]
      omega

/-! ## Mux — every step costs exactly one -/

/-- one more than the largest pipeline number used by the `Put` calls -/
def muxBound {α : Type} (puts : List (Nat × α)) : Nat := puts.foldr (fun p k => max (p.1 + 1) k) 0

theorem muxBound_mem {α : Type} : ∀ (puts : List (Nat × α)) (p : Nat × α), p ∈ puts → p.1 < muxBound puts := by
  intro puts
  induction puts with
  | nil => intro p h; cases h
  | cons q rest ih =>
    intro p h
    simp only [muxBound, List.foldr_cons]
    rcases List.mem_cons.1 h with h | h
    · subst h; omega
    · have := ih p h
      simp only [muxBound] at this
      omega

/-- only pipelines `< K` are ever used -/
structure MuxBound {α β : Type} (K : Nat) (s : Mux α β) : Prop where
  puts : ∀ p, p ∈ s.puts → p.1 < K
  inq : ∀ j, K ≤ j → s.inQ j = []

/-- per `Put` still to come: its two sends, the pipeline's answer, runMux's forward (4); a
    half-done `Put` owes its order token and that token's forward (2); each order token one
    forward; each queued pipeline input one answer; `Close`; the final close -/
def muxMu {α β : Type} (K : Nat) (s : Mux α β) : Nat :=
  4 * s.puts.length + 2 * s.half.isSome.toNat + s.order.length + sumTo K (fun j => (s.inQ j).length) +
    (!s.closeCalled).toNat + (!s.outClosed).toNat

theorem mux_bound_step {α β : Type} (c : MuxCfg) (g : Nat → α → β) (K : Nat) (a : MuxAct)
    (s s' : Mux α β) (hb : MuxBound K s) (hact : muxAct c g a s = some s') : MuxBound K s' := by
  obtain ⟨hp, hq⟩ := hb
  cases a <;> simp only [muxAct] at hact
  · -- putIn
    split at hact
    · rename_i j v rest hpu hh
      cases hact
      refine ⟨?_, ?_⟩
      · intro p hm; exact hp p (by rw [hpu]; exact List.mem_cons_of_mem _ hm)
      · intro i hi
        have hj : j < K := hp (j, v) (by rw [hpu]; exact List.mem_cons_self)
        have : i ≠ j := by omega
        simp [upd_ne _ _ this, hq i hi]
    · cases hact
  · -- putOrd
    split at hact
    · cases hact; exact ⟨hp, hq⟩
    · cases hact
  · -- close
    split at hact
    · split at hact
      · cases hact; exact ⟨hp, hq⟩
      · cases hact
    · cases hact
  · -- pipe
    rename_i j
    split at hact
    · rename_i x rest hx
      cases hact
      refine ⟨hp, ?_⟩
      intro i hi
      by_cases hij : i = j
      · subst hij; simp [hq i hi] at hx
      · simp [upd_ne _ _ hij, hq i hi]
    · cases hact
  · -- recv
    split at hact
    · split at hact
      · split at hact
        · cases hact; exact ⟨hp, hq⟩
        · cases hact
      · cases hact
    · cases hact
  · -- fin
    split at hact
    · split at hact
      · cases hact; exact ⟨hp, hq⟩
      · cases hact
    · cases hact

theorem mux_dec {α β : Type} (c : MuxCfg) (g : Nat → α → β) (K : Nat) (a : MuxAct)
    (s s' : Mux α β) (hb : MuxBound K s) (hact : muxAct c g a s = some s') :
    muxMu K s = muxMu K s' + 1 := by
  obtain ⟨hp, hq⟩ := hb
  cases a <;> simp only [muxAct] at hact
  · -- putIn
    split at hact
    · rename_i j v rest hpu hh
      cases hact
      have hj : j < K := hp (j, v) (by rw [hpu]; exact List.mem_cons_self)
      have hs := sumTo_point (g := fun i => (s.inQ i).length)
        (g' := fun i => (upd s.inQ j (s.inQ j ++ [v]) i).length) K hj
        (by intro i hi; simp [upd_ne _ _ hi])
      simp only [upd_same, List.length_append, List.length_cons, List.length_nil] at hs
      simp only [muxMu, hpu, hh, List.length_cons, Option.isSome_some, Option.isSome_none, Bool.toNat_true,
        Bool.toNat_false]
      omega
    · cases hact
  · -- putOrd
    split at hact
    · rename_i j hh
      cases hact
      simp [muxMu, hh]; omega
    · cases hact
  · -- close
    split at hact
    · split at hact
      · rename_i hcc
        cases hact
        simp [muxMu, hcc]; omega
      · cases hact
    · cases hact
  · -- pipe
    rename_i j
    split at hact
    · rename_i x rest hx
      cases hact
      have hj : j < K := by
        apply Classical.byContradiction
        intro hn
        simp [hq j (by omega)] at hx
      have hs := sumTo_point (g := fun i => (s.inQ i).length)
        (g' := fun i => (upd s.inQ j rest i).length) K hj
        (by intro i hi; simp [upd_ne _ _ hi])
      simp only [upd_same, hx, List.length_cons] at hs
      simp only [muxMu]
      omega
    · cases hact
  · -- recv
    split at hact
    · split at hact
      · rename_i k rest hk
        split at hact
        · cases hact
          simp [muxMu, hk]; omega
        · cases hact
      · cases hact
    · cases hact
  · -- fin
    split at hact
    · split at hact
      · rename_i hg
        cases hact
        simp [muxMu, hg.1] <;> omega
      · cases hact
    · cases hact

theorem mux_strict {α β : Type} (c : MuxCfg) (g : Nat → α → β) (K : Nat) :
    Strict (muxAct c g) (MuxBound (α := α) (β := β) K) (muxMu K) := by
  intro a s s' hb h
  have := mux_dec c g K a s s' hb h
  omega

theorem mux_bound_init {α β : Type} (puts : List (Nat × α)) :
    MuxBound (muxBound puts) (muxInit puts : Mux α β) :=
  ⟨fun p hp => muxBound_mem puts p hp, fun _ _ => rfl⟩

theorem mux_mu_init {α β : Type} (K : Nat) (puts : List (Nat × α)) :
    muxMu K (muxInit puts : Mux α β) = 4 * puts.length + 2 := by
  simp [muxMu, muxInit, sumTo_zero]

theorem mux_closed_mu {α β : Type} (c : MuxCfg) (hc : c.idxIsOrder = true) (g : Nat → α → β)
    (K : Nat) (puts : List (Nat × α)) (s : Mux α β) (h : Reach (muxAct c g) (muxInit puts) s)
    (hcl : s.outClosed = true) : muxMu K s = 0 := by
  obtain ⟨issued, pend, hi⟩ := mux_inv c hc g puts s h
  obtain ⟨hcc, ho⟩ := hi.fin hcl
  obtain ⟨hp, hh⟩ := hi.cl hcc
  have hord := hi.ord
  simp [ho, hh] at hord
  have hz : sumTo K (fun j => (s.inQ j).length) = 0 := by
    apply sumTo_zero
    intro j _
    have := hi.prj j
    simp [hord] at this
    simp [this.2]
  simp [muxMu, hcl, hcc, ho, hp, hh, hz]

theorem mux_bound_reach {α β : Type} (c : MuxCfg) (g : Nat → α → β) (puts : List (Nat × α)) :
    ∀ s : Mux α β, Reach (muxAct c g) (muxInit puts) s → MuxBound (muxBound puts) s := by
  intro s h
  induction h with
  | init => exact mux_bound_init puts
  | step a _ hact ih => exact mux_bound_step c g _ a _ _ ih hact

theorem mux_closed_dead {α β : Type} (c : MuxCfg) (hc : c.idxIsOrder = true) (g : Nat → α → β)
    (puts : List (Nat × α)) (s : Mux α β) (h : Reach (muxAct c g) (muxInit puts) s)
    (hcl : s.outClosed = true) : Dead (muxAct c g) s :=
  dead_of_mu_zero (fun a s' ha => mux_dec c g (muxBound puts) a s s' (mux_bound_reach c g puts s h) ha)
    (mux_closed_mu c hc g (muxBound puts) puts s h hcl)

end Grip.Props.C13.Lemmas
