/-
  Lemmas for C15 (not property statements): id prefixes, the per-source agreement of the gripper
  reads with the materialised graph, regrouping of the per-prefix loops, Perm-congruence of the
  step semantics in the read interface.
-/
import Grip.Model.C15
import Grip.Spec.C15

namespace Grip.Props.C15.Lemmas
open Grip Grip.C15 Grip.Spec.C15

/-! ### ids -/

theorem pfx_append_eq (p f key : String) :
    p ++ f = key ↔ (hasPfx p key = true ∧ f = dropPfx p key) := by
  constructor
  · intro h
    subst h
    constructor
    · simp [hasPfx, String.toList_append, List.isPrefixOf_iff_prefix]
    · simp [dropPfx, String.toList_append, String.ofList_toList]
  · rintro ⟨h1, h2⟩
    subst h2
    apply String.ext
    simp only [String.toList_append, dropPfx, String.toList_ofList]
    obtain ⟨r, hr⟩ := List.isPrefixOf_iff_prefix.1 h1
    rw [← hr]
    simp

theorem pfx_append_beq (p f key : String) :
    (p ++ f == key) = (hasPfx p key && f == dropPfx p key) := by
  rw [Bool.eq_iff_iff]
  simp [pfx_append_eq]

theorem hasPfx_append (p f : String) : hasPfx p (p ++ f) = true :=
  ((pfx_append_eq p f (p ++ f)).1 rfl).1

theorem dropPfx_append (p f : String) : dropPfx p (p ++ f) = f :=
  ((pfx_append_eq p f (p ++ f)).1 rfl).2.symm

/-! ### small list facts -/

theorem flatMap_toList_eq_filterMap {α β} (f : α → Option β) (l : List α) :
    l.flatMap (fun a => (f a).toList) = l.filterMap f := by
  induction l with
  | nil => rfl
  | cons a l ih =>
    simp only [List.flatMap_cons, List.filterMap_cons, ih]
    cases f a <;> rfl

/-- At most one element answers: asking all of them is asking the first that answers. -/
theorem filterMap_eq_findSome_toList {α β} (f : α → Option β) (R : α → α → Prop) (l : List α)
    (hp : l.Pairwise R) (hR : ∀ a b, R a b → (f a).isSome → f b = none) :
    l.filterMap f = (l.findSome? f).toList := by
  induction l with
  | nil => rfl
  | cons a l ih =>
    have hp' := List.pairwise_cons.1 hp
    simp only [List.filterMap_cons, List.findSome?_cons]
    cases hfa : f a with
    | none => simpa [hfa] using ih hp'.2
    | some b =>
      have : l.filterMap f = [] := by
        apply List.filterMap_eq_nil_iff.2
        intro x hx
        exact hR a x (hp'.1 x hx) (by simp [hfa])
      simp [this]

/-- A loop over the keys and, inside, over the elements with that key, visits every element once
    (as a multiset) when every element's key is listed exactly once. -/
theorem regroup {κ α β} [BEq κ] [LawfulBEq κ] (ks : List κ) (hk : ks.Nodup) (key : α → κ)
    (F : α → List β) : ∀ (l : List α), (∀ a ∈ l, key a ∈ ks) →
      (ks.flatMap (fun k => (l.filter (fun a => key a == k)).flatMap F)).Perm (l.flatMap F) := by
  have one : ∀ (k0 : κ) (X : List β) (ks : List κ), ks.Nodup → k0 ∈ ks →
      ks.flatMap (fun k => if k0 == k then X else []) = X := by
    intro k0 X ks
    induction ks with
    | nil => intro _ h; cases h
    | cons k ks ih =>
      intro hn hm
      have hn' := List.nodup_cons.1 hn
      simp only [List.flatMap_cons]
      by_cases hk0 : k0 = k
      · subst hk0
        have : ks.flatMap (fun k => if k0 == k then X else []) = [] := by
          apply List.flatMap_eq_nil_iff.2
          intro x hx
          have : ¬ (k0 = x) := fun h => hn'.1 (h ▸ hx)
          simp [this]
        simp [this]
      · have hm' : k0 ∈ ks := by
          cases hm with
          | head => exact absurd rfl hk0
          | tail _ h => exact h
        simp [hk0, ih hn'.2 hm']
  intro l
  induction l with
  | nil => intro _; simp
  | cons a l ih =>
    intro h
    have ha : key a ∈ ks := h a (List.mem_cons_self)
    have hl : ∀ x ∈ l, key x ∈ ks := fun x hx => h x (List.mem_cons_of_mem _ hx)
    have e1 : (ks.flatMap (fun k => ((a :: l).filter (fun a => key a == k)).flatMap F))
        = ks.flatMap (fun k => (if key a == k then F a else []) ++ (l.filter (fun a => key a == k)).flatMap F) := by
      congr 1
      funext k
      by_cases hak : key a == k <;> simp [hak]
    rw [e1]
    have e2 := (flatMap_pair_perm' (fun k => if key a == k then F a else [])
      (fun k => (l.filter (fun a => key a == k)).flatMap F) ks).symm
    refine e2.trans ?_
    rw [one (key a) (F a) ks hk ha]
    simp only [List.flatMap_cons]
    exact List.Perm.append_left _ (ih hl)
where
  flatMap_pair_perm' {α β} (f h : α → List β) (ts : List α) :
      (ts.flatMap f ++ ts.flatMap h).Perm (ts.flatMap (fun t => f t ++ h t)) := by
    induction ts with
    | nil => simp
    | cons t ts ih =>
      simp only [List.flatMap_cons]
      have s4 : ((f t ++ ts.flatMap f) ++ (h t ++ ts.flatMap h)).Perm
          ((f t ++ h t) ++ (ts.flatMap f ++ ts.flatMap h)) := by
        simp only [List.append_assoc]
        apply List.Perm.append_left
        rw [← List.append_assoc, ← List.append_assoc]
        apply List.Perm.append_right
        exact List.perm_append_comm
      exact s4.trans (List.Perm.append_left _ ih)

/-! ### vertices -/

theorem pfx_comparable (a b k : String) (ha : hasPfx a k = true) (hb : hasPfx b k = true) :
    hasPfx a b = true ∨ hasPfx b a = true := by
  simp only [hasPfx, List.isPrefixOf_iff_prefix] at *
  exact List.prefix_or_prefix_of_prefix ha hb

theorem find_mkVertex (t : Tables) (v : VType) (key : String) :
    ((t.rows v.table).map (specVertex v)).find? (·.gid == key) = vertexAt t key v := by
  unfold vertexAt Tables.rowByID
  generalize t.rows v.table = rows
  induction rows with
  | nil => simp
  | cons r rs ih =>
    simp only [List.map_cons, List.find?_cons, specVertex, pfx_append_beq] at ih ⊢
    cases hp : hasPfx v.pfx key
    · simpa [hp] using ih
    · cases hr : (r.id == dropPfx v.pfx key)
      · simpa [hp, hr] using ih
      · simp [mkVertex]

theorem getVertex_eq (t : Tables) (m : Mapping) (key : String) :
    tgGetVertex t m key = (materialise t m).getVertex key := by
  simp only [tgGetVertex, AGraph.getVertex, materialise, List.find?_flatMap]
  congr 1
  funext v
  exact (find_mkVertex t v key).symm

theorem vertexAt_some_pfx (t : Tables) (key : String) (v : VType) (h : (vertexAt t key v).isSome) :
    hasPfx v.pfx key = true := by
  unfold vertexAt at h
  cases hp : hasPfx v.pfx key
  · simp [hp] at h
  · rfl

theorem vertexChan_eq (t : Tables) (m : Mapping) (h : PrefixFree m) (key : String) :
    tgVertexChan t m key = ((materialise t m).getVertex key).toList := by
  rw [← getVertex_eq]
  refine filterMap_eq_findSome_toList _ _ _ h ?_
  intro a b hab ha
  have hpa := vertexAt_some_pfx t key a ha
  unfold vertexAt
  cases hpb : hasPfx b.pfx key
  · simp
  · rcases pfx_comparable _ _ _ hpa hpb with h1 | h1
    · simp [hab.1] at h1
    · simp [hab.2] at h1

end Grip.Props.C15.Lemmas
