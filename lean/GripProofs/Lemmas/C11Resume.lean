/-
  C11 lemmas: the typing fold and the evaluation fold split at any point.
-/
import Grip.Model.C11

namespace Grip.Props.C11.Lemmas
open Grip Grip.C11

theorem typeFold_append (st : TState) (a b : List Stmt) :
    typeFold st (a ++ b) = (match typeFold st a with
      | .error e => .error e
      | .ok st' => typeFold st' b) := by
  induction a generalizing st with
  | nil => simp [typeFold]
  | cons s rest ih =>
    simp only [List.cons_append, typeFold]
    cases typeStep st s with
    | error e => rfl
    | ok st1 => exact ih st1

theorem validate_append (a b : List Stmt) (ha : a ≠ []) : validate (a ++ b) = validate a := by
  cases a with
  | nil => exact absurd rfl ha
  | cons s rest => cases s <;> rfl

theorem validateExt_ok (st : TState) (b : List Stmt) (h : st.last ≠ .noData) :
    validateExt st b = .ok () := by
  cases b with
  | nil => rfl
  | cons s rest =>
    have : (st.last == DataType.noData) = false := by
      cases hl : st.last <;> simp_all
    cases s <;> simp [validateExt, this]

theorem typeCheck_ok {a : List Stmt} {st : TState} (h : typeCheck a = .ok st) :
    validate a = .ok () ∧ typeFold {} a = .ok st := by
  unfold typeCheck at h
  cases hv : validate a with
  | error e => rw [hv] at h; cases h
  | ok u => rw [hv] at h; cases u; exact ⟨rfl, h⟩

/-- The extension options carry exactly the type state. -/
theorem typeCheckFrom_eq (a b : List Stmt) (st : TState) (h : typeCheck a = .ok st) (ha : a ≠ [])
    (hl : st.last ≠ .noData) : typeCheckFrom st b = typeCheck (a ++ b) := by
  obtain ⟨hv, hf⟩ := typeCheck_ok h
  unfold typeCheckFrom typeCheck
  rw [validateExt_ok st b hl, validate_append a b ha, hv, typeFold_append, hf]

theorem evalFrom_append (numOf : String → Option Int) (g : AGraph) (a b : List Stmt) :
    ∀ (st st' : TState) (ts : List Traveler), typeFold st a = .ok st' →
      evalFrom numOf g st ts (a ++ b) = evalFrom numOf g st' (evalFrom numOf g st ts a) b := by
  induction a with
  | nil =>
    intro st st' ts h
    simp only [typeFold, Except.ok.injEq] at h
    subst h
    simp [evalFrom]
  | cons s rest ih =>
    intro st st' ts h
    simp only [typeFold] at h
    simp only [List.cons_append, evalFrom]
    cases hs : typeStep st s with
    | error e => rw [hs] at h; cases h
    | ok st1 =>
      rw [hs] at h
      exact ih st1 st' _ h

end Grip.Props.C11.Lemmas
