/-
  Lemmas.C10Map — the sorted association list `Grip.SMap` is an ordered map: point laws,
  invariant preservation, and the transaction overlay equals sequential application.
-/
import Grip.Model.SMap
import GripProofs.Lemmas.C10Order

namespace Grip.Props.C10.Lemmas
open Grip Grip.Bytes Grip.SMap

/-! ### SMap.get / SMap.set / delete / deletePrefix -/

theorem set_cons_lt {k k' : Bytes} (v' : Bytes) (r : List KV) (v : Bytes) (h : blt k k' = true) :
    SMap.set ((k', v') :: r) k v = (k, v) :: (k', v') :: r := by
  simp [SMap.set, h]

theorem set_cons_eq (k v' : Bytes) (r : List KV) (v : Bytes) :
    SMap.set ((k, v') :: r) k v = (k, v) :: r := by
  simp [SMap.set, blt_irrefl]

theorem set_cons_gt {k k' : Bytes} (v' : Bytes) (r : List KV) (v : Bytes) (h1 : blt k k' = false)
    (h2 : k' ≠ k) : SMap.set ((k', v') :: r) k v = (k', v') :: SMap.set r k v := by
  simp [SMap.set, h1, h2]

theorem get_cons_eq (k v : Bytes) (r : List KV) : SMap.get ((k, v) :: r) k = some v := by
  simp [SMap.get]

theorem get_cons_ne {k k' : Bytes} (v : Bytes) (r : List KV) (h : k' ≠ k) :
    SMap.get ((k', v) :: r) k = SMap.get r k := by
  simp [SMap.get, h]

theorem get_set_eq : ∀ (m : List KV) (k v : Bytes), SMap.get (SMap.set m k v) k = some v
  | [], k, v => by simp [SMap.set, SMap.get]
  | (k', v') :: r, k, v => by
    cases h1 : blt k k' with
    | true => rw [set_cons_lt _ _ _ h1, get_cons_eq]
    | false =>
      by_cases h2 : k' = k
      · subst h2; rw [set_cons_eq, get_cons_eq]
      · rw [set_cons_gt _ _ _ h1 h2, get_cons_ne _ _ h2, get_set_eq r k v]

theorem get_set_ne : ∀ (m : List KV) (k v k2 : Bytes), k2 ≠ k →
    SMap.get (SMap.set m k v) k2 = SMap.get m k2
  | [], k, v, k2, h => by simp [SMap.set, SMap.get, Ne.symm h]
  | (k', v') :: r, k, v, k2, h => by
    cases h1 : blt k k' with
    | true => rw [set_cons_lt _ _ _ h1, get_cons_ne _ _ (Ne.symm h)]
    | false =>
      by_cases h2 : k' = k
      · subst h2
        rw [set_cons_eq, get_cons_ne _ _ (Ne.symm h), get_cons_ne _ _ (Ne.symm h)]
      · rw [set_cons_gt _ _ _ h1 h2]
        by_cases h3 : k' = k2
        · subst h3; rw [get_cons_eq, get_cons_eq]
        · rw [get_cons_ne _ _ h3, get_cons_ne _ _ h3, get_set_ne r k v k2 h]

theorem mem_set : ∀ {m : List KV} {k v : Bytes} {x : KV}, x ∈ SMap.set m k v → x = (k, v) ∨ x ∈ m
  | [], k, v, x, h => by simp [SMap.set] at h; exact Or.inl h
  | (k', v') :: r, k, v, x, h => by
    cases h1 : blt k k' with
    | true =>
      rw [set_cons_lt _ _ _ h1] at h
      rcases List.mem_cons.mp h with h | h
      · exact Or.inl h
      · exact Or.inr h
    | false =>
      by_cases h2 : k' = k
      · subst h2
        rw [set_cons_eq] at h
        rcases List.mem_cons.mp h with h | h
        · exact Or.inl h
        · exact Or.inr (List.mem_cons_of_mem _ h)
      · rw [set_cons_gt _ _ _ h1 h2] at h
        rcases List.mem_cons.mp h with h | h
        · exact Or.inr (h ▸ List.mem_cons_self)
        · rcases mem_set h with h | h
          · exact Or.inl h
          · exact Or.inr (List.mem_cons_of_mem _ h)

theorem set_sorted : ∀ {m : List KV} (k v : Bytes), Sorted m → Sorted (SMap.set m k v)
  | [], k, v, _ => by simp [SMap.set, Sorted]
  | (k', v') :: r, k, v, hs => by
    have hs' := hs
    unfold Sorted at hs
    rw [List.pairwise_cons] at hs
    cases h1 : blt k k' with
    | true =>
      rw [set_cons_lt _ _ _ h1]
      unfold Sorted
      rw [List.pairwise_cons]
      refine ⟨?_, hs'⟩
      intro a ha
      rcases List.mem_cons.mp ha with rfl | ha
      · exact h1
      · exact blt_trans h1 (hs.1 a ha)
    | false =>
      by_cases h2 : k' = k
      · subst h2
        rw [set_cons_eq]
        unfold Sorted
        rw [List.pairwise_cons]
        exact ⟨hs.1, hs.2⟩
      · rw [set_cons_gt _ _ _ h1 h2]
        unfold Sorted
        rw [List.pairwise_cons]
        refine ⟨?_, set_sorted k v hs.2⟩
        intro a ha
        rcases mem_set ha with rfl | ha
        · cases hkk : blt k' k with
          | true => rfl
          | false => exact absurd (blt_total hkk h1) h2
        · exact hs.1 a ha

/-- Point reads through a filter that looks at keys only. -/
theorem get_filter_key (g : Bytes → Bool) : ∀ (m : List KV) (k : Bytes),
    SMap.get (m.filter (fun kv => g kv.1)) k = if g k then SMap.get m k else none
  | [], k => by simp [SMap.get]
  | (k', v') :: r, k => by
    by_cases hg : g k' = true
    · by_cases hk : k' = k
      · subst hk; simp [List.filter, hg, SMap.get]
      · simp [List.filter, hg, SMap.get, hk, get_filter_key g r k]
    · by_cases hk : k' = k
      · subst hk
        have := get_filter_key g r k'
        simp [List.filter, hg, SMap.get] at this ⊢
        simpa [hg] using this
      · simp [List.filter, hg, SMap.get, hk, get_filter_key g r k]

theorem get_delete (m : List KV) (k k2 : Bytes) :
    SMap.get (delete m k) k2 = if k2 = k then none else SMap.get m k2 := by
  have := get_filter_key (fun x => !decide (x = k)) m k2
  unfold delete
  rw [this]
  by_cases h : k2 = k <;> simp [h]

theorem get_deletePrefix (m : List KV) (p k : Bytes) :
    SMap.get (deletePrefix m p) k = if hasPrefix k p then none else SMap.get m k := by
  have := get_filter_key (fun x => !hasPrefix x p) m k
  unfold deletePrefix
  rw [this]
  cases hasPrefix k p <;> simp

theorem filter_sorted (f : KV → Bool) {m : List KV} (h : Sorted m) : Sorted (m.filter f) :=
  List.Pairwise.filter f h

theorem get_eq_some_of_mem : ∀ {m : List KV} {k v : Bytes}, Sorted m → (k, v) ∈ m → SMap.get m k = some v
  | [], _, _, _, h => by simp at h
  | (k', v') :: r, k, v, hs, h => by
    unfold Sorted at hs
    rw [List.pairwise_cons] at hs
    rcases List.mem_cons.mp h with e | h
    · cases e; simp [SMap.get]
    · have hlt := hs.1 _ h
      have hne : k' ≠ k := by
        intro e; subst e; simp [blt_irrefl] at hlt
      simp [SMap.get, hne, get_eq_some_of_mem hs.2 h]

theorem mem_of_get_eq_some : ∀ {m : List KV} {k v : Bytes}, SMap.get m k = some v → (k, v) ∈ m
  | [], _, _, h => by simp [SMap.get] at h
  | (k', v') :: r, k, v, h => by
    by_cases hk : k' = k
    · subst hk; simp [SMap.get] at h; simp [h]
    · simp [SMap.get, hk] at h
      exact List.mem_cons_of_mem _ (mem_of_get_eq_some h)

/-! ### The transaction overlay -/

theorem tx_get_eq_commit : ∀ (base : List KV) (pend : List (Bytes × Option Bytes)) (k : Bytes),
    Tx.get { base := base, pend := pend } k = SMap.get (Tx.flush base pend) k
  | base, [], k => by simp [Tx.get, Tx.lookupPend, Tx.flush]
  | base, (k', w) :: older, k => by
    have ih := tx_get_eq_commit base older k
    by_cases hk : k' = k
    · subst hk
      cases w with
      | some v => simp [Tx.get, Tx.lookupPend, Tx.flush, get_set_eq]
      | none => simp [Tx.get, Tx.lookupPend, Tx.flush, get_delete]
    · have hk' : k ≠ k' := Ne.symm hk
      cases w with
      | some v =>
        simp only [Tx.get, Tx.lookupPend, hk, if_false, Tx.flush] at ih ⊢
        rw [get_set_ne _ _ _ _ hk']; exact ih
      | none =>
        simp only [Tx.get, Tx.lookupPend, hk, if_false, Tx.flush] at ih ⊢
        rw [get_delete]; simp [hk', ih]

theorem commit_write (t : Tx) (w : Write) : (t.write w).commit = applyWrite t.commit w := by
  cases w <;> simp [Tx.write, Tx.commit, Tx.flush, applyWrite]

theorem commit_writes : ∀ (ws : List Write) (t : Tx), (t.writes ws).commit = applyWrites t.commit ws
  | [], t => rfl
  | w :: ws, t => by
    simp only [Tx.writes, List.foldl_cons, applyWrites]
    have := commit_writes ws (t.write w)
    simp only [Tx.writes, applyWrites] at this
    rw [this, commit_write]

theorem applyWrite_sorted {m : List KV} (w : Write) (h : Sorted m) : Sorted (applyWrite m w) := by
  cases w with
  | set k v => exact set_sorted k v h
  | del k => exact filter_sorted _ h

theorem applyWrites_sorted : ∀ (ws : List Write) {m : List KV}, Sorted m → Sorted (applyWrites m ws)
  | [], _, h => h
  | w :: ws, m, h => by
    simp only [applyWrites, List.foldl_cons]
    exact applyWrites_sorted ws (applyWrite_sorted w h)

theorem flush_sorted : ∀ (pend : List (Bytes × Option Bytes)) {m : List KV}, Sorted m → Sorted (Tx.flush m pend)
  | [], _, h => h
  | (k, w) :: older, m, h => by
    cases w with
    | some v => exact set_sorted k v (flush_sorted older h)
    | none => exact filter_sorted _ (flush_sorted older h)

end Grip.Props.C10.Lemmas
