import Grip.Model.C19Digest
import Mathlib.Tactic.Linarith
import Mathlib.Tactic.Ring
import Mathlib.Algebra.Order.Field.Rat

/-
  Lemmas about the t-digest model `Grip.C19.Digest` (percentile clause of C19).
  Arithmetic of `weightedAverageSorted` (clamp), the shape of `cumulative`, the linear search, and
  the case analysis `quantile_cases` from which the property theorems follow.
-/
namespace Grip.Props.C19.Lemmas
open Grip.C19.Digest

/-! ### arithmetic -/

theorem rmax_ge_left (a b : Rat) : a ≤ rmax a b := by unfold rmax; split_ifs <;> linarith
theorem rmax_ge_right (a b : Rat) : b ≤ rmax a b := by unfold rmax; split_ifs <;> linarith
theorem rmin_le_right (a b : Rat) : rmin a b ≤ b := by unfold rmin; split_ifs <;> linarith
theorem rmin_le_left (a b : Rat) : rmin a b ≤ a := by unfold rmin; split_ifs <;> linarith

/-- the clamp of `weightedAverageSorted`: whatever the weights, the result lies in `[x1, x2]`. -/
theorem was_bounds (x1 w1 x2 w2 : Rat) (h : x1 ≤ x2) :
    x1 ≤ weightedAverageSorted x1 w1 x2 w2 ∧ weightedAverageSorted x1 w1 x2 w2 ≤ x2 := by
  unfold weightedAverageSorted rmax rmin
  constructor <;> (split_ifs <;> linarith)

theorem wa_of_le (x1 w1 x2 w2 : Rat) (h : x1 ≤ x2) :
    weightedAverage x1 w1 x2 w2 = weightedAverageSorted x1 w1 x2 w2 := by
  unfold weightedAverage; rw [if_pos h]

/-- the clamp is monotone in the unclamped value. -/
theorem clamp_mono (a b x y : Rat) (h : x ≤ y) : rmax a (rmin x b) ≤ rmax a (rmin y b) := by
  unfold rmax rmin
  split_ifs <;> linarith

/-- inside one segment `(c0, c1]` the middle interpolation is non-decreasing in the index. -/
theorem was_mid_mono (a b c0 c1 x y : Rat) (hab : a ≤ b) (hc : c0 < c1) (hxy : x ≤ y) :
    weightedAverageSorted a (c1 - x) b (x - c0) ≤ weightedAverageSorted a (c1 - y) b (y - c0) := by
  unfold weightedAverageSorted
  apply clamp_mono
  have e1 : c1 - x + (x - c0) = c1 - c0 := by ring
  have e2 : c1 - y + (y - c0) = c1 - c0 := by ring
  rw [e1, e2]
  apply div_le_div_of_nonneg_right _ (by linarith : (0 : Rat) ≤ c1 - c0)
  nlinarith [mul_nonneg (sub_nonneg.2 hab) (sub_nonneg.2 hxy)]

/-- the tail branch AS WRITTEN (`z1 := index - processedWeight - w/2`, which is ≤ -w/2 < 0):
    the unclamped value is ≥ max, so the clamp returns max. -/
theorem was_tail (m M w z1 : Rat) (hm : m ≤ M) (hw : 0 < w) (hz : z1 ≤ -(w / 2)) :
    weightedAverageSorted m z1 M (w / 2 - z1) = M := by
  unfold weightedAverageSorted
  have e : z1 + (w / 2 - z1) = w / 2 := by ring
  rw [e]
  have hx : M ≤ (m * z1 + M * (w / 2 - z1)) / (w / 2) := by
    rw [le_div_iff₀ (by linarith)]
    nlinarith [mul_nonneg (sub_nonneg.2 hm) (by linarith : (0 : Rat) ≤ -z1)]
  unfold rmax rmin
  split_ifs <;> linarith

/-- head branch: `min + 2·index/w0·(m0 - min)` lies in `[min, m0]` for `0 ≤ index ≤ w0/2`. -/
theorem head_bounds (mn m0 w0 x : Rat) (h : mn ≤ m0) (hw : 0 < w0) (hx0 : 0 ≤ x) (hx : x ≤ w0 / 2) :
    mn ≤ mn + 2 * x / w0 * (m0 - mn) ∧ mn + 2 * x / w0 * (m0 - mn) ≤ m0 := by
  have t0 : 0 ≤ 2 * x / w0 := div_nonneg (by linarith) hw.le
  have t1 : 2 * x / w0 ≤ 1 := (div_le_iff₀ hw).2 (by linarith)
  constructor
  · nlinarith [mul_nonneg t0 (sub_nonneg.2 h)]
  · nlinarith [mul_nonneg (sub_nonneg.2 t1) (sub_nonneg.2 h)]

theorem head_mono (mn m0 w0 x y : Rat) (h : mn ≤ m0) (hw : 0 < w0) (hxy : x ≤ y) :
    mn + 2 * x / w0 * (m0 - mn) ≤ mn + 2 * y / w0 * (m0 - mn) := by
  have : 2 * x / w0 ≤ 2 * y / w0 := div_le_div_of_nonneg_right (by linarith) hw.le
  nlinarith [mul_nonneg (sub_nonneg.2 this) (sub_nonneg.2 h)]

/-! ### `cumulative` -/

/-- all weights positive. -/
def posW (cs : List Centroid) : Prop := ∀ c ∈ cs, 0 < c.weight

/-- `t.cumulative[i]`. -/
def cumAt (cs : List Centroid) (i : Nat) : Rat := (cumulative cs).getD i 0

theorem cum_length (p : Rat) (cs : List Centroid) : (cumulativeFrom p cs).length = cs.length + 1 := by
  induction cs generalizing p with
  | nil => rfl
  | cons c cs ih => simp [cumulativeFrom, ih]

theorem cumFrom_last (p : Rat) (cs : List Centroid) :
    (cumulativeFrom p cs).getD cs.length 0 = p + total cs := by
  induction cs generalizing p with
  | nil => simp [cumulativeFrom, total]
  | cons c cs ih =>
    simp only [cumulativeFrom, List.length_cons, List.getD_cons_succ, ih, total]; ring

theorem cumFrom_ge (p : Rat) (cs : List Centroid) (h : posW cs) : p ≤ (cumulativeFrom p cs).getD 0 0 := by
  cases cs with
  | nil => simp [cumulativeFrom]
  | cons c cs =>
    have := h c (by simp)
    simp only [cumulativeFrom, List.getD_cons_zero]; linarith

theorem cumFrom_step (p : Rat) (cs : List Centroid) (h : posW cs) (i : Nat) (hi : i < cs.length) :
    (cumulativeFrom p cs).getD i 0 < (cumulativeFrom p cs).getD (i + 1) 0 := by
  induction cs generalizing p i with
  | nil => simp at hi
  | cons c cs ih =>
    have hc := h c (by simp)
    have hcs : posW cs := fun x hx => h x (by simp [hx])
    cases i with
    | zero =>
      simp only [cumulativeFrom, List.getD_cons_zero, List.getD_cons_succ]
      have := cumFrom_ge (p + c.weight) cs hcs
      linarith
    | succ i =>
      simp only [cumulativeFrom, List.getD_cons_succ]
      exact ih _ hcs i (by simpa using hi)

/-- `cumulative` is strictly increasing (so `sort.Search` = first index with `cum[i] >= index`). -/
theorem cum_strictMono (cs : List Centroid) (h : posW cs) {i j : Nat} (hij : i < j) (hj : j ≤ cs.length) :
    cumAt cs i < cumAt cs j := by
  induction j with
  | zero => omega
  | succ j ih =>
    have s : cumAt cs j < cumAt cs (j + 1) := cumFrom_step 0 cs h j (by omega)
    by_cases h1 : i < j
    · have := ih h1 (by omega); linarith
    · have : i = j := by omega
      subst this; exact s

theorem cum_le_of_le (cs : List Centroid) (h : posW cs) {i j : Nat} (hij : i ≤ j) (hj : j ≤ cs.length) :
    cumAt cs i ≤ cumAt cs j := by
  by_cases e : i = j
  · subst e; exact le_refl _
  · exact (cum_strictMono cs h (by omega) hj).le

theorem cumAt_zero (c : Centroid) (cs : List Centroid) : cumAt (c :: cs) 0 = c.weight / 2 := by
  simp [cumAt, cumulative, cumulativeFrom]

theorem cumAt_last (cs : List Centroid) : cumAt cs cs.length = total cs := by
  unfold cumAt cumulative
  rw [cumFrom_last, zero_add]

/-! ### the search -/

theorem search_spec (cum : List Rat) (x : Rat) :
    (∀ j, j < search cum x → cum.getD j 0 < x) ∧
    (search cum x < cum.length → x ≤ cum.getD (search cum x) 0) ∧ search cum x ≤ cum.length := by
  induction cum with
  | nil => simp [search]
  | cons a l ih =>
    obtain ⟨h1, h2, h3⟩ := ih
    unfold search at *
    rw [List.findIdx_cons]
    by_cases hax : x ≤ a
    · simp [hax]
    · have hd : decide (x ≤ a) = false := by simp [hax]
      rw [hd]
      simp only [cond_false]
      refine ⟨?_, ?_, ?_⟩
      · intro j hj
        cases j with
        | zero => simp only [List.getD_cons_zero]; exact not_le.1 hax
        | succ j => simp only [List.getD_cons_succ]; exact h1 j (by omega)
      · intro hl
        simp only [List.getD_cons_succ]
        exact h2 (by simpa using hl)
      · simp only [List.length_cons]; omega

/-! ### well-formedness, by index -/

structure WF (d : Digest) : Prop where
  pos : posW d.cs
  sorted : ∀ i j, i ≤ j → j < d.cs.length → meanAt d.cs i ≤ meanAt d.cs j
  lo : 0 < d.cs.length → d.min ≤ meanAt d.cs 0
  hi : 0 < d.cs.length → meanAt d.cs (d.cs.length - 1) ≤ d.max

theorem sorted_head_le (a : Centroid) (r : List Centroid) (h : sortedMeans (a :: r) = true) (j : Nat)
    (hj : j < r.length) : a.mean ≤ meanAt r j := by
  induction r generalizing a j with
  | nil => simp at hj
  | cons b r ih =>
    simp only [sortedMeans, Bool.and_eq_true, decide_eq_true_eq] at h
    cases j with
    | zero => simpa [meanAt] using h.1
    | succ j =>
      have := ih b h.2 j (by simpa using hj)
      simp only [meanAt, List.getD_cons_succ] at this ⊢
      linarith [h.1]

theorem sorted_tail (a : Centroid) (r : List Centroid) (h : sortedMeans (a :: r) = true) :
    sortedMeans r = true := by
  cases r with
  | nil => rfl
  | cons b r => simp only [sortedMeans, Bool.and_eq_true] at h; exact h.2

theorem sorted_index (cs : List Centroid) (h : sortedMeans cs = true) (i j : Nat) (hij : i ≤ j)
    (hj : j < cs.length) : meanAt cs i ≤ meanAt cs j := by
  induction cs generalizing i j with
  | nil => simp at hj
  | cons a r ih =>
    cases i with
    | zero =>
      cases j with
      | zero => exact le_refl _
      | succ j =>
        have := sorted_head_le a r h j (by simpa using hj)
        simpa [meanAt] using this
    | succ i =>
      cases j with
      | zero => omega
      | succ j =>
        have := ih (sorted_tail a r h) i j (by omega) (by simpa using hj)
        simpa [meanAt] using this

theorem wf_WF (d : Digest) (h : wf d = true) : WF d := by
  unfold wf at h
  simp only [Bool.and_eq_true, List.all_eq_true, decide_eq_true_eq] at h
  obtain ⟨⟨⟨hp, hs⟩, hlo⟩, hhi⟩ := h
  refine ⟨hp, sorted_index d.cs hs, ?_, ?_⟩
  · intro hn
    cases hcs : d.cs with
    | nil => simp [hcs] at hn
    | cons c r => simp only [hcs, List.head?_cons, decide_eq_true_eq] at hlo; simpa [meanAt] using hlo
  · intro hn
    have e : d.cs.getLast? = some (d.cs.getD (d.cs.length - 1) default) := by
      rw [List.getLast?_eq_getElem?, List.getD_eq_getElem?_getD, List.getElem?_eq_getElem (by omega)]
      simp
    rw [e] at hhi
    simpa [meanAt] using hhi

theorem weightAt_pos (cs : List Centroid) (h : posW cs) (i : Nat) (hi : i < cs.length) : 0 < weightAt cs i := by
  unfold weightAt
  rw [List.getD_eq_getElem?_getD, List.getElem?_eq_getElem hi]
  exact h _ (List.getElem_mem hi)

theorem total_pos (cs : List Centroid) (h : posW cs) (hn : 0 < cs.length) : 0 < total cs := by
  have := cum_strictMono cs h (i := 0) (j := cs.length) hn (le_refl _)
  rw [cumAt_last] at this
  cases cs with
  | nil => simp at hn
  | cons c r =>
    rw [cumAt_zero] at this
    have := h c (by simp)
    linarith

/-! ### the case analysis of `quantile` -/

/-- which branch of `Quantile` answered `r` for the index `x = q·processedWeight`. -/
inductive Seg (d : Digest) (x : Rat) (r : Rat) : Prop
  | head (hx : x ≤ weightAt d.cs 0 / 2)
      (hr : r = d.min + 2 * x / weightAt d.cs 0 * (meanAt d.cs 0 - d.min))
  | mid (i : Nat) (h1 : 1 ≤ i) (hi : i < d.cs.length) (hlo : cumAt d.cs (i - 1) < x) (hhi : x ≤ cumAt d.cs i)
      (hr : r = weightedAverageSorted (meanAt d.cs (i - 1)) (cumAt d.cs i - x) (meanAt d.cs i)
        (x - cumAt d.cs (i - 1)))
  | tail (hx : cumAt d.cs (d.cs.length - 1) < x) (hr : r = d.max)

theorem cumAt_zero' (cs : List Centroid) (hn : 0 < cs.length) : cumAt cs 0 = weightAt cs 0 / 2 := by
  cases cs with
  | nil => simp at hn
  | cons c r => rw [cumAt_zero]; simp [weightAt]

theorem quantile_cases (d : Digest) (hwf : WF d) (hn : 2 ≤ d.cs.length) (q : Rat) (h0 : 0 ≤ q) (h1 : q ≤ 1) :
    ∃ r, quantile d q = some r ∧ Seg d (q * total d.cs) r := by
  have hW : 0 < total d.cs := total_pos d.cs hwf.pos (by omega)
  have hxW : q * total d.cs ≤ total d.cs := by nlinarith
  unfold quantile
  rw [if_neg (by intro h; rcases h with h | h | h <;> linarith), if_neg (by omega)]
  simp only []
  by_cases hh : q * total d.cs ≤ weightAt d.cs 0 / 2
  · rw [if_pos hh]
    exact ⟨_, rfl, Seg.head hh rfl⟩
  · rw [if_neg hh]
    have hlen : (cumulative d.cs).length = d.cs.length + 1 := cum_length 0 d.cs
    obtain ⟨s1, s2, s3⟩ := search_spec (cumulative d.cs) (q * total d.cs)
    -- lower ≤ n
    have hlow : search (cumulative d.cs) (q * total d.cs) < (cumulative d.cs).length := by
      by_contra hc
      have := s1 d.cs.length (by omega)
      have e := cumAt_last d.cs
      unfold cumAt at e
      linarith
    have s2' := s2 hlow
    -- 1 ≤ lower
    have hpos : 1 ≤ search (cumulative d.cs) (q * total d.cs) := by
      by_contra hc
      have e0 : search (cumulative d.cs) (q * total d.cs) = 0 := by omega
      rw [e0] at s2'
      have := cumAt_zero' d.cs (by omega)
      unfold cumAt at this
      rw [this] at s2'
      exact hh s2'
    have s1' := s1 (search (cumulative d.cs) (q * total d.cs) - 1) (by omega)
    by_cases ht : search (cumulative d.cs) (q * total d.cs) + 1 = (cumulative d.cs).length
    · rw [if_neg (by simpa using ht)]
      have el : search (cumulative d.cs) (q * total d.cs) = d.cs.length := by omega
      rw [el] at s1' ⊢
      have hm : meanAt d.cs (d.cs.length - 1) ≤ d.max := hwf.hi (by omega)
      have hw := weightAt_pos d.cs hwf.pos (d.cs.length - 1) (by omega)
      refine ⟨d.max, ?_, Seg.tail s1' rfl⟩
      rw [wa_of_le _ _ _ _ hm, was_tail _ _ _ _ hm hw (by linarith)]
    · rw [if_pos (by simpa using ht)]
      have hi : search (cumulative d.cs) (q * total d.cs) < d.cs.length := by omega
      have hm := hwf.sorted (search (cumulative d.cs) (q * total d.cs) - 1)
        (search (cumulative d.cs) (q * total d.cs)) (by omega) hi
      refine ⟨_, ?_, Seg.mid _ hpos hi s1' s2' rfl⟩
      rw [wa_of_le _ _ _ _ hm]
      rfl

/-- every branch answers within `[min, max]`. -/
theorem seg_bounds (d : Digest) (hwf : WF d) (hn : 2 ≤ d.cs.length) (x r : Rat) (hx0 : 0 ≤ x)
    (s : Seg d x r) : d.min ≤ r ∧ r ≤ d.max := by
  have hlo := hwf.lo (by omega)
  have hhi := hwf.hi (by omega)
  have h0n := hwf.sorted 0 (d.cs.length - 1) (by omega) (by omega)
  cases s with
  | head hx hr =>
    have := head_bounds d.min (meanAt d.cs 0) (weightAt d.cs 0) x hlo
      (weightAt_pos d.cs hwf.pos 0 (by omega)) hx0 hx
    rw [hr]; constructor <;> linarith [this.1, this.2]
  | mid i h1 hi hlo' hhi' hr =>
    have hm := hwf.sorted (i - 1) i (by omega) hi
    have := was_bounds (meanAt d.cs (i - 1)) (cumAt d.cs i - x) (meanAt d.cs i) (x - cumAt d.cs (i - 1)) hm
    have a := hwf.sorted 0 (i - 1) (by omega) (by omega)
    have b := hwf.sorted i (d.cs.length - 1) (by omega) (by omega)
    rw [hr]; constructor <;> linarith [this.1, this.2]
  | tail hx hr => rw [hr]; constructor <;> linarith

/-- the branches are ordered: a larger index never answers less. -/
theorem seg_mono (d : Digest) (hwf : WF d) (hn : 2 ≤ d.cs.length) (x y r1 r2 : Rat) (hx0 : 0 ≤ x)
    (hxy : x ≤ y) (s1 : Seg d x r1) (s2 : Seg d y r2) : r1 ≤ r2 := by
  have hlo := hwf.lo (by omega)
  have hw0 := weightAt_pos d.cs hwf.pos 0 (by omega)
  have c0 := cumAt_zero' d.cs (by omega)
  have b2 := seg_bounds d hwf hn y r2 (by linarith) s2
  cases s2 with
  | tail hy hr2 =>
    have b1 := seg_bounds d hwf hn x r1 hx0 s1
    rw [hr2]; exact b1.2
  | head hy hr2 =>
    cases s1 with
    | head hx hr1 =>
      rw [hr1, hr2]; exact head_mono _ _ _ _ _ hlo hw0 hxy
    | mid i h1 hi hlo' hhi' hr1 =>
      exfalso
      have := cum_le_of_le d.cs hwf.pos (i := 0) (j := i - 1) (by omega) (by omega)
      linarith
    | tail hx hr1 =>
      exfalso
      have := cum_le_of_le d.cs hwf.pos (i := 0) (j := d.cs.length - 1) (by omega) (by omega)
      linarith
  | mid j j1 hj hloj hhij hr2 =>
    have hmj := hwf.sorted (j - 1) j (by omega) hj
    have bj := was_bounds (meanAt d.cs (j - 1)) (cumAt d.cs j - y) (meanAt d.cs j) (y - cumAt d.cs (j - 1)) hmj
    cases s1 with
    | head hx hr1 =>
      have hb := head_bounds d.min (meanAt d.cs 0) (weightAt d.cs 0) x hlo hw0 hx0 hx
      have a := hwf.sorted 0 (j - 1) (by omega) (by omega)
      rw [hr1, hr2]; linarith [hb.2, bj.1]
    | tail hx hr1 =>
      exfalso
      have := cum_le_of_le d.cs hwf.pos (i := j) (j := d.cs.length - 1) (by omega) (by omega)
      linarith
    | mid i i1 hi hloi hhii hr1 =>
      have hmi := hwf.sorted (i - 1) i (by omega) hi
      have bi := was_bounds (meanAt d.cs (i - 1)) (cumAt d.cs i - x) (meanAt d.cs i) (x - cumAt d.cs (i - 1)) hmi
      -- i ≤ j: otherwise cum (i-1) ≥ cum j ≥ y ≥ x > cum (i-1)
      have hij : i ≤ j := by
        by_contra hc
        have := cum_le_of_le d.cs hwf.pos (i := j) (j := i - 1) (by omega) (by omega)
        linarith
      by_cases e : i = j
      · subst e
        rw [hr1, hr2]
        exact was_mid_mono _ _ _ _ _ _ hmi (by linarith) hxy
      · have a := hwf.sorted i (j - 1) (by omega) (by omega)
        rw [hr1, hr2]; linarith [bi.2, bj.1]

end Grip.Props.C19.Lemmas
