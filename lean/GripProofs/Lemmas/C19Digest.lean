import Grip.Model.C19Digest
import Mathlib.Tactic.Linarith
import Mathlib.Tactic.Ring
import Mathlib.Algebra.Order.Field.Rat

/-
  Lemmas about the t-digest model `Grip.C19.Digest` (percentile clause of C19).
  Arithmetic of `weightedAverageSorted` (clamp), the shape of `cumulative`, the linear search, and
  the case analysis `quantile_cases` from which the property theorems follow.
-/
namespace Grip.Props.C19.Lemmas
open Grip.C19.Digest

/-! ### arithmetic -/

theorem rmax_ge_left (a b : Rat) : a ≤ rmax a b := by unfold rmax; split_ifs <;> linarith
theorem rmax_ge_right (a b : Rat) : b ≤ rmax a b := by unfold rmax; split_ifs <;> linarith
theorem rmin_le_right (a b : Rat) : rmin a b ≤ b := by unfold rmin; split_ifs <;> linarith
theorem rmin_le_left (a b : Rat) : rmin a b ≤ a := by unfold rmin; split_ifs <;> linarith

/-- the clamp of `weightedAverageSorted`: whatever the weights, the result lies in `[x1, x2]`. -/
theorem was_bounds (x1 w1 x2 w2 : Rat) (h : x1 ≤ x2) :
    x1 ≤ weightedAverageSorted x1 w1 x2 w2 ∧ weightedAverageSorted x1 w1 x2 w2 ≤ x2 := by
  unfold weightedAverageSorted rmax rmin
  constructor <;> (split_ifs <;> linarith)

theorem wa_of_le (x1 w1 x2 w2 : Rat) (h : x1 ≤ x2) :
    weightedAverage x1 w1 x2 w2 = weightedAverageSorted x1 w1 x2 w2 := by
  unfold weightedAverage; rw [if_pos h]

/-- the clamp is monotone in the unclamped value. -/
theorem clamp_mono (a b x y : Rat) (h : x ≤ y) : rmax a (rmin x b) ≤ rmax a (rmin y b) := by
  unfold rmax rmin
  split_ifs <;> linarith

/-- inside one segment `(c0, c1]` the middle interpolation is non-decreasing in the index. -/
theorem was_mid_mono (a b c0 c1 x y : Rat) (hab : a ≤ b) (hc : c0 < c1) (hxy : x ≤ y) :
    weightedAverageSorted a (c1 - x) b (x - c0) ≤ weightedAverageSorted a (c1 - y) b (y - c0) := by
  unfold weightedAverageSorted
  apply clamp_mono
  have e1 : c1 - x + (x - c0) = c1 - c0 := by ring
  have e2 : c1 - y + (y - c0) = c1 - c0 := by ring
  rw [e1, e2]
  apply div_le_div_of_nonneg_right _ (by linarith : (0 : Rat) ≤ c1 - c0)
  nlinarith [mul_nonneg (sub_nonneg.2 hab) (sub_nonneg.2 hxy)]

/-- the tail branch AS WRITTEN (`z1 := index - processedWeight - w/2`, which is ≤ -w/2 < 0):
    the unclamped value is ≥ max, so the clamp returns max. -/
theorem was_tail (m M w z1 : Rat) (hm : m ≤ M) (hw : 0 < w) (hz : z1 ≤ -(w / 2)) :
    weightedAverageSorted m z1 M (w / 2 - z1) = M := by
  unfold weightedAverageSorted
  have e : z1 + (w / 2 - z1) = w / 2 := by ring
  rw [e]
  have hx : M ≤ (m * z1 + M * (w / 2 - z1)) / (w / 2) := by
    rw [le_div_iff₀ (by linarith)]
    nlinarith [mul_nonneg (sub_nonneg.2 hm) (by linarith : (0 : Rat) ≤ -z1)]
  unfold rmax rmin
  split_ifs <;> linarith

/-- head branch: `min + 2·index/w0·(m0 - min)` lies in `[min, m0]` for `0 ≤ index ≤ w0/2`. -/
theorem head_bounds (mn m0 w0 x : Rat) (h : mn ≤ m0) (hw : 0 < w0) (hx0 : 0 ≤ x) (hx : x ≤ w0 / 2) :
    mn ≤ mn + 2 * x / w0 * (m0 - mn) ∧ mn + 2 * x / w0 * (m0 - mn) ≤ m0 := by
  have t0 : 0 ≤ 2 * x / w0 := div_nonneg (by linarith) hw.le
  have t1 : 2 * x / w0 ≤ 1 := (div_le_iff₀ hw).2 (by linarith)
  constructor
  · nlinarith [mul_nonneg t0 (sub_nonneg.2 h)]
  · nlinarith [mul_nonneg (sub_nonneg.2 t1) (sub_nonneg.2 h)]

theorem head_mono (mn m0 w0 x y : Rat) (h : mn ≤ m0) (hw : 0 < w0) (hxy : x ≤ y) :
    mn + 2 * x / w0 * (m0 - mn) ≤ mn + 2 * y / w0 * (m0 - mn) := by
  have : 2 * x / w0 ≤ 2 * y / w0 := div_le_div_of_nonneg_right (by linarith) hw.le
  nlinarith [mul_nonneg (sub_nonneg.2 this) (sub_nonneg.2 h)]

end Grip.Props.C19.Lemmas
