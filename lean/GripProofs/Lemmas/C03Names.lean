/-
  Lemmas.C03Names — `GoodName` for the concrete graph names used in the non-vacuity examples,
  by unrolling `String.splitOn` on the literal (the general statement for every dot-free name is
  not proved; see `GoodName`).
-/
import GripProofs.Lemmas.C03Defs

namespace Grip.Props.C03.Lemmas
open Grip Grip.C03 Grip.Props.C03

theorem split_g1v : "g1.v.label".splitOn "." = ["g1", "v", "label"] := by
  unfold String.splitOn
  simp only [String.reduceBEq, Bool.false_eq_true, ↓reduceIte]
  iterate 11
    rw [String.splitOnAux.eq_1]
    simp (decide := true) only [↓reduceIte]

theorem split_g1e : "g1.e.label".splitOn "." = ["g1", "e", "label"] := by
  unfold String.splitOn
  simp only [String.reduceBEq, Bool.false_eq_true, ↓reduceIte]
  iterate 11
    rw [String.splitOnAux.eq_1]
    simp (decide := true) only [↓reduceIte]

theorem split_g2v : "g2.v.label".splitOn "." = ["g2", "v", "label"] := by
  unfold String.splitOn
  simp only [String.reduceBEq, Bool.false_eq_true, ↓reduceIte]
  iterate 11
    rw [String.splitOnAux.eq_1]
    simp (decide := true) only [↓reduceIte]

theorem split_g2e : "g2.e.label".splitOn "." = ["g2", "e", "label"] := by
  unfold String.splitOn
  simp only [String.reduceBEq, Bool.false_eq_true, ↓reduceIte]
  iterate 11
    rw [String.splitOnAux.eq_1]
    simp (decide := true) only [↓reduceIte]

theorem goodName_g1 : GoodName "g1" := by
  have e1 : labelField "g1" "v" = "g1.v.label" := by decide
  have e2 : labelField "g1" "e" = "g1.e.label" := by decide
  unfold GoodName fieldGraph
  rw [e1, e2, split_g1v, split_g1e]
  exact ⟨rfl, rfl⟩

theorem goodName_g2 : GoodName "g2" := by
  have e1 : labelField "g2" "v" = "g2.v.label" := by decide
  have e2 : labelField "g2" "e" = "g2.e.label" := by decide
  unfold GoodName fieldGraph
  rw [e1, e2, split_g2v, split_g2e]
  exact ⟨rfl, rfl⟩

theorem noReaddHist_addGraph {a : Spec.AG} {g : String} (hg : GoodName g) (os : List Op) :
    NoReaddHist a (.addGraph g :: os) ↔ NoReaddHist (Spec.specStep a (.addGraph g)).1 os := by
  rw [noReaddHist_cons]
  have : NoReadd a (.addGraph g) := by
    simp [NoReadd, noReadd, (goodName_iff g).2 hg]
  simp [this]

end Grip.Props.C03.Lemmas
