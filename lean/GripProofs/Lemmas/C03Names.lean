/-
  Lemmas.C03Names — `addGraph` never needs a side condition: the string fact the refinement uses
  (`GoodName`: the first dot-component of a graph's label fields is the graph name) is proved for
  every valid name in `C03Defs.goodName_of_valid`; what is left here is the rewriting lemma the
  non-vacuity examples use to step over an `addGraph` in `NoReaddHist`.
-/
import GripProofs.Lemmas.C03Defs

namespace Grip.Props.C03.Lemmas
open Grip Grip.C03 Grip.C03.Spec

theorem noReaddHist_addGraph {a : Spec.AG} (g : String) (os : List Op) :
    NoReaddHist a (.addGraph g :: os) ↔ NoReaddHist (Spec.specStep a (.addGraph g)).1 os := by
  rw [noReaddHist_cons]
  have : NoReadd a (.addGraph g) := by simp [NoReadd, noReadd]
  simp [this]

end Grip.Props.C03.Lemmas
