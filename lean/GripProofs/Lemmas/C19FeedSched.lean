/-
  Lemmas for C19Feed, second part: CONSTRUCTION of executions (the "there is an execution in
  which …" halves of the theorems).

  The schedule built here is the synchronous one: the feeder takes a row, sends it to channel
  0, 1, …, and every worker that is still reading consumes it at once; a worker that has returned
  lets it pile up in its channel.  `eatAll cfg j xs` is worker `j` after its channel has been sent
  `xs` under that schedule.  `Sync dn rest`: the feeder is between two rows, `dn` has been sent to
  everybody, `rest` is not taken yet; `Pos dn t rest h`: it holds `t`, channels `< h` have got it.
-/
import GripProofs.Lemmas.C19Feed

namespace Grip.Props.C19.FeedLemmas
open Grip.C07 (Reach)
open Grip.C19.Feed Grip.Props.C07.Lemmas

/-! ## the worker under the synchronous schedule -/

def eat1 {α : Type} (cfg : Cfg α) (j : Nat) (w : Wk α) (t : α) : Wk α :=
  if w.stopped then { w with buf := w.buf ++ [t] } else consume cfg j w t []

def eatAll {α : Type} (cfg : Cfg α) (j : Nat) (xs : List α) : Wk α := xs.foldl (eat1 cfg j) {}

theorem eatAll_snoc {α : Type} (cfg : Cfg α) (j : Nat) (xs : List α) (t : α) :
    eatAll cfg j (xs ++ [t]) = eat1 cfg j (eatAll cfg j xs) t := by
  simp [eatAll, List.foldl_append]

theorem foldl_live_buf {α : Type} (cfg : Cfg α) (j : Nat) (xs : List α) (w : Wk α)
    (hw : w.stopped = false → w.buf = []) :
    (xs.foldl (eat1 cfg j) w).stopped = false → (xs.foldl (eat1 cfg j) w).buf = [] := by
  induction xs generalizing w with
  | nil => exact hw
  | cons x xs ih =>
    apply ih
    intro hst
    cases hs : w.stopped with
    | true => simp [eat1, hs] at hst
    | false => simp [eat1, hs, consume]

/-- a worker that is still reading has nothing in its channel -/
theorem eatAll_live_buf {α : Type} (cfg : Cfg α) (j : Nat) (xs : List α)
    (h : (eatAll cfg j xs).stopped = false) : (eatAll cfg j xs).buf = [] :=
  foldl_live_buf cfg j xs {} (fun _ => rfl) h

theorem foldl_clean {α : Type} (cfg : Cfg α) (j : Nat) (xs : List α) (w : Wk α)
    (hs : w.stopped = false) (hf : w.failed = false) (hb : w.buf = [])
    (hx : ∀ x, x ∈ xs → cfg.bad j x = false) :
    xs.foldl (eat1 cfg j) w = { buf := [], seen := w.seen ++ xs, failed := false, stopped := false } := by
  induction xs generalizing w with
  | nil => cases w; simp_all
  | cons x xs ih =>
    have hbx := hx x (by simp)
    simp only [List.foldl_cons]
    rw [ih (eat1 cfg j w x) (by simp [eat1, hs, consume, hbx]) (by simp [eat1, hs, consume, hbx, hf])
      (by simp [eat1, hs, consume]) (fun y hy => hx y (by simp [hy]))]
    simp [eat1, hs, consume]

/-- rows that are not bad for `j` are all consumed -/
theorem eatAll_clean {α : Type} (cfg : Cfg α) (j : Nat) (xs : List α)
    (hx : ∀ x, x ∈ xs → cfg.bad j x = false) :
    eatAll cfg j xs = { buf := [], seen := xs, failed := false, stopped := false } := by
  have := foldl_clean cfg j xs {} rfl rfl rfl hx
  simpa [eatAll] using this

theorem foldl_stopped {α : Type} (cfg : Cfg α) (j : Nat) (ys : List α) (w : Wk α) (hs : w.stopped = true) :
    ys.foldl (eat1 cfg j) w = { w with buf := w.buf ++ ys } := by
  induction ys generalizing w with
  | nil => simp
  | cons y ys ih =>
    simp only [List.foldl_cons]
    rw [ih (eat1 cfg j w y) (by simp [eat1, hs])]
    simp [eat1, hs]

/-- an early-returning worker consumes up to and including its first bad row; the rest piles up -/
theorem eatAll_fail {α : Type} (cfg : Cfg α) (j : Nat) (pre ys : List α) (b : α)
    (hd : cfg.drainAfterError = false) (hb : cfg.bad j b = true)
    (hpre : ∀ x, x ∈ pre → cfg.bad j x = false) :
    eatAll cfg j (pre ++ b :: ys) = { buf := ys, seen := pre ++ [b], failed := true, stopped := true } := by
  have h1 := eatAll_clean cfg j pre hpre
  simp only [eatAll] at h1 ⊢
  rw [List.foldl_append, h1, List.foldl_cons, foldl_stopped]
  · simp [eat1, consume, hb, hd]
  · simp [eat1, consume, hb, hd]

/-! ## positions of the feeder -/

structure Sync {α : Type} (cfg : Cfg α) (dn rest : List α) (s : St α) : Prop where
  closed : s.closed = false
  abort : s.abort = false
  hold : s.hold = none
  todo : s.todo = rest
  ws : ∀ j, j < cfg.k → s.ws j = eatAll cfg j dn

structure Pos {α : Type} (cfg : Cfg α) (dn : List α) (t : α) (rest : List α) (h : Nat) (s : St α) : Prop where
  closed : s.closed = false
  abort : s.abort = false
  hold : s.hold = some (t, h)
  todo : s.todo = rest
  ws : ∀ j, j < cfg.k → s.ws j = eatAll cfg j (if j < h then dn ++ [t] else dn)

theorem sync_init {α : Type} (cfg : Cfg α) (input : List α) : Sync cfg [] input (init input) :=
  ⟨rfl, rfl, rfl, rfl, fun _ _ => rfl⟩

theorem sync_take {α : Type} {cfg : Cfg α} {dn rest : List α} {t : α} {s : St α}
    (h : Sync cfg dn (t :: rest) s) : ∃ s', Step cfg s s' ∧ Pos cfg dn t rest 0 s' :=
  ⟨_, Step.take h.closed h.abort h.hold h.todo,
    ⟨h.closed, h.abort, rfl, rfl, fun j hj => by simpa using h.ws j hj⟩⟩

theorem pos_send {α : Type} {cfg : Cfg α} {dn rest : List α} {t : α} {h : Nat} {s : St α}
    (hp : Pos cfg dn t rest h s) (hk : h < cfg.k) (hroom : (eatAll cfg h dn).buf.length < cfg.cap) :
    ∃ s', Reach (Step cfg) s s' ∧ Pos cfg dn t rest (h + 1) s' := by
  have hw : s.ws h = eatAll cfg h dn := by simpa using hp.ws h hk
  have hr : (s.ws h).buf.length < cfg.cap := by rw [hw]; exact hroom
  have st1 := Step.send hp.closed hp.abort hp.hold hk hr
  -- the other workers are as before
  have hother : ∀ j, j < cfg.k → j ≠ h →
      s.ws j = eatAll cfg j (if j < h + 1 then dn ++ [t] else dn) := by
    intro j hj hjh
    rw [hp.ws j hj]
    by_cases h1 : j < h
    · have : j < h + 1 := by omega
      simp [h1, this]
    · have : ¬ j < h + 1 := by omega
      simp [h1, this]
  have htarget : eatAll cfg h (if h < h + 1 then dn ++ [t] else dn) = eat1 cfg h (s.ws h) t := by
    simp only [Nat.lt_succ_self, if_true]
    rw [eatAll_snoc, hw]
  cases hs : (s.ws h).stopped with
  | true =>
    refine ⟨_, Reach.step (Reach.refl _) st1, ⟨hp.closed, hp.abort, rfl, hp.todo, ?_⟩⟩
    intro j hj
    by_cases hjh : j = h
    · subst hjh
      rw [htarget]
      simp [eat1, hs]
    · simp only [upd_other _ _ hjh]
      exact hother j hj hjh
  | false =>
    have hbuf : (s.ws h).buf = [] := by rw [hw] at hs ⊢; exact eatAll_live_buf cfg h dn hs
    have st2 := Step.work (cfg := cfg)
      (s := { s with hold := some (t, h + 1), ws := upd s.ws h { s.ws h with buf := (s.ws h).buf ++ [t] } })
      (j := h) (x := t) (xs := []) hk (by simp [hs]) (by simp [hbuf])
    refine ⟨_, Reach.step (Reach.step (Reach.refl _) st1) st2, ⟨hp.closed, hp.abort, rfl, hp.todo, ?_⟩⟩
    intro j hj
    by_cases hjh : j = h
    · subst hjh
      rw [htarget]
      simp [eat1, hs, consume]
    · simp only [upd_other _ _ hjh]
      exact hother j hj hjh

theorem pos_done {α : Type} {cfg : Cfg α} {dn rest : List α} {t : α} {s : St α}
    (hp : Pos cfg dn t rest cfg.k s) : ∃ s', Step cfg s s' ∧ Sync cfg (dn ++ [t]) rest s' :=
  ⟨_, Step.done hp.closed hp.abort hp.hold (Nat.le_refl _),
    ⟨hp.closed, hp.abort, rfl, hp.todo, fun j hj => by simpa [hj] using hp.ws j hj⟩⟩

/-- the feeder gets from channel `h` to channel `h + d` if the channels in between have room -/
theorem pos_advance {α : Type} {cfg : Cfg α} {dn rest : List α} {t : α} (d : Nat) {h : Nat} {s : St α}
    (hp : Pos cfg dn t rest h s) (hk : h + d ≤ cfg.k)
    (hroom : ∀ j, h ≤ j → j < h + d → (eatAll cfg j dn).buf.length < cfg.cap) :
    ∃ s', Reach (Step cfg) s s' ∧ Pos cfg dn t rest (h + d) s' := by
  induction d generalizing h s with
  | zero => exact ⟨s, Reach.refl _, hp⟩
  | succ d ih =>
    obtain ⟨s1, r1, p1⟩ := pos_send hp (by omega) (hroom h (Nat.le_refl _) (by omega))
    obtain ⟨s2, r2, p2⟩ := ih p1 (by omega) (fun j h1 h2 => hroom j (by omega) (by omega))
    refine ⟨s2, reach_trans r1 r2, ?_⟩
    have : h + 1 + d = h + (d + 1) := by omega
    rw [← this]; exact p2

/-- one whole row -/
theorem sync_row {α : Type} {cfg : Cfg α} {dn rest : List α} {t : α} {s : St α}
    (h : Sync cfg dn (t :: rest) s) (hroom : ∀ j, j < cfg.k → (eatAll cfg j dn).buf.length < cfg.cap) :
    ∃ s', Reach (Step cfg) s s' ∧ Sync cfg (dn ++ [t]) rest s' := by
  obtain ⟨s1, st1, p1⟩ := sync_take h
  obtain ⟨s2, r2, p2⟩ := pos_advance cfg.k p1 (by omega) (fun j _ hj => hroom j (by omega))
  rw [Nat.zero_add] at p2
  obtain ⟨s3, st3, p3⟩ := pos_done p2
  exact ⟨s3, Reach.step (reach_head st1 r2) st3, p3⟩

/-- several rows -/
theorem sync_rows {α : Type} {cfg : Cfg α} (mid : List α) {dn rest : List α} {s : St α}
    (h : Sync cfg dn (mid ++ rest) s)
    (hroom : ∀ a c, mid = a ++ c → c ≠ [] → ∀ j, j < cfg.k → (eatAll cfg j (dn ++ a)).buf.length < cfg.cap) :
    ∃ s', Reach (Step cfg) s s' ∧ Sync cfg (dn ++ mid) rest s' := by
  induction mid generalizing dn s with
  | nil => exact ⟨s, Reach.refl _, by simpa using h⟩
  | cons t mid ih =>
    have h0 := hroom [] (t :: mid) rfl (by simp)
    simp only [List.append_nil] at h0
    obtain ⟨s1, r1, p1⟩ := sync_row (t := t) (rest := mid ++ rest) (by simpa using h) h0
    obtain ⟨s2, r2, p2⟩ := ih p1 (by
      intro a c e hc j hj
      have := hroom (t :: a) c (by rw [e]; rfl) hc j hj
      simpa using this)
    exact ⟨s2, reach_trans r1 r2, by simpa using p2⟩

/-! ## finishing -/

theorem stuck_of_final {α : Type} {cfg : Cfg α} {s : St α} (hc : s.closed = true)
    (hb : ∀ j, j < cfg.k → (s.ws j).stopped = false → (s.ws j).buf = []) : Stuck cfg s := by
  intro s' hst
  cases hst with
  | take h => rw [hc] at h; cases h
  | send h => rw [hc] at h; cases h
  | done h => rw [hc] at h; cases h
  | notice _ h => rw [hc] at h; cases h
  | close h => rw [hc] at h; cases h
  | work hj hs hbuf => rw [hb _ hj hs] at hbuf; cases hbuf

/-- the feeder has sent everything: it closes, and nothing is left to do -/
theorem sync_finish {α : Type} {cfg : Cfg α} {dn : List α} {s : St α} (h : Sync cfg dn [] s) :
    ∃ s', Reach (Step cfg) s s' ∧ Stuck cfg s' ∧ s'.closed = true ∧ ∀ j, j < cfg.k → s'.ws j = eatAll cfg j dn := by
  refine ⟨_, Reach.step (Reach.refl _) (Step.close h.closed (Or.inr ⟨h.hold, h.todo⟩)), ?_, rfl, h.ws⟩
  apply stuck_of_final rfl
  intro j hj hs
  simp only [h.ws j hj] at hs ⊢
  exact eatAll_live_buf cfg j dn hs

/-- the feeder takes the `ctx.Done()` branch while holding `t` in front of channel `h`, closes,
    and nothing is left to do -/
theorem pos_abort_finish {α : Type} {cfg : Cfg α} {dn rest : List α} {t : α} {h : Nat} {s : St α}
    (hp : Pos cfg dn t rest h s) (hk : h < cfg.k) (hw : cfg.feederWatchesCtx = true)
    (hd : ctxDone cfg s = true) :
    ∃ s', Reach (Step cfg) s s' ∧ Stuck cfg s' ∧ s'.closed = true ∧
      ∀ j, j < cfg.k → s'.ws j = eatAll cfg j (if j < h then dn ++ [t] else dn) := by
  have st1 := Step.notice hw hp.closed hp.abort hp.hold hk hd
  have st2 := Step.close (cfg := cfg) (s := { s with abort := true }) hp.closed (Or.inl rfl)
  refine ⟨_, Reach.step (Reach.step (Reach.refl _) st1) st2, ?_, rfl, hp.ws⟩
  apply stuck_of_final rfl
  intro j hj hs
  simp only [hp.ws j hj] at hs ⊢
  exact eatAll_live_buf cfg j _ hs

/-! ## the scenario of the regression: exactly one worker, `i`, meets a bad row

  `input = pre ++ b :: post`, `b` is the first row that is bad for `i`, and no row of the input is
  bad for any other worker (a `count`, `field` or `type` aggregation never fails at all). -/

structure OneFails {α : Type} (cfg : Cfg α) (i : Nat) (pre : List α) (b : α) (post : List α) : Prop where
  hi : i < cfg.k
  drain : cfg.drainAfterError = false
  hb : cfg.bad i b = true
  hpre : ∀ x, x ∈ pre → cfg.bad i x = false
  others : ∀ j, j < cfg.k → j ≠ i → ∀ x, x ∈ pre ++ b :: post → cfg.bad j x = false

theorem OneFails.eat_other {α : Type} {cfg : Cfg α} {i : Nat} {pre post : List α} {b : α}
    (H : OneFails cfg i pre b post) {j : Nat} (hj : j < cfg.k) (hji : j ≠ i) {a c : List α}
    (e : a ++ c = pre ++ b :: post) :
    eatAll cfg j a = { buf := [], seen := a, failed := false, stopped := false } :=
  eatAll_clean cfg j a (fun x hx => H.others j hj hji x (by rw [← e]; exact List.mem_append_left _ hx))

theorem OneFails.eat_cases {α : Type} {cfg : Cfg α} {i : Nat} {pre post : List α} {b : α}
    (H : OneFails cfg i pre b post) {a c : List α} (e : a ++ c = pre ++ b :: post) :
    (eatAll cfg i a = { buf := [], seen := a, failed := false, stopped := false } ∧ a.length ≤ pre.length) ∨
    (∃ ys, a = pre ++ b :: ys ∧
      eatAll cfg i a = { buf := ys, seen := pre ++ [b], failed := true, stopped := true }) := by
  rcases List.append_eq_append_iff.1 e with ⟨a', h1, _⟩ | ⟨c', h1, h2⟩
  · left
    refine ⟨eatAll_clean cfg i a (fun x hx => H.hpre x (by rw [h1]; exact List.mem_append_left _ hx)), ?_⟩
    rw [h1, List.length_append]; omega
  · cases c' with
    | nil =>
      left
      rw [List.append_nil] at h1
      exact ⟨eatAll_clean cfg i a (fun x hx => H.hpre x (by rw [← h1]; exact hx)), by rw [h1]; omega⟩
    | cons b' ys =>
      right
      simp only [List.cons_append, List.cons.injEq] at h2
      obtain ⟨hbb, _⟩ := h2
      subst hbb
      exact ⟨ys, h1, by rw [h1]; exact eatAll_fail cfg i pre ys b H.drain H.hb H.hpre⟩

/-- a channel has room as long as fewer than `cap` rows have been sent after the bad one -/
theorem OneFails.buf_room {α : Type} {cfg : Cfg α} {i : Nat} {pre post : List α} {b : α}
    (H : OneFails cfg i pre b post) (hcap : 1 ≤ cfg.cap) {j : Nat} (hj : j < cfg.k) {a c : List α}
    (e : a ++ c = pre ++ b :: post) (hlen : j = i → a.length < pre.length + 1 + cfg.cap) :
    (eatAll cfg j a).buf.length < cfg.cap := by
  by_cases hji : j = i
  · subst hji
    rcases H.eat_cases e with ⟨h1, _⟩ | ⟨ys, h1, h2⟩
    · rw [h1]; simp; omega
    · have := hlen rfl
      rw [h1] at this
      simp only [List.length_append, List.length_cons] at this
      rw [h2]; simp; omega
  · rw [H.eat_other hj hji e]; simp; omega

theorem OneFails.eat_stopped {α : Type} {cfg : Cfg α} {i : Nat} {pre post : List α} {b : α}
    (H : OneFails cfg i pre b post) {a c : List α} (e : a ++ c = pre ++ b :: post)
    (hlen : pre.length + 1 ≤ a.length) :
    (eatAll cfg i a).failed = true ∧ (eatAll cfg i a).stopped = true := by
  rcases H.eat_cases e with ⟨_, h1⟩ | ⟨ys, _, h2⟩
  · omega
  · rw [h2]; exact ⟨rfl, rfl⟩

/-- The feeder notices the failure while it holds `t` in front of channel `h` (`dn` has gone to
    every channel): possible as soon as the failing worker has been sent its bad row and as long as
    its channel has taken what was sent after it. -/
theorem OneFails.exists_abort_at {α : Type} {cfg : Cfg α} {i : Nat} {pre post : List α} {b : α}
    (H : OneFails cfg i pre b post) (hw : cfg.feederWatchesCtx = true) (hcap : 1 ≤ cfg.cap)
    {dn rest : List α} {t : α} (e : dn ++ t :: rest = pre ++ b :: post) {h : Nat} (hk : h < cfg.k)
    (hlo : pre.length + 1 ≤ (if i < h then dn.length + 1 else dn.length))
    (hhi : (if i < h then dn.length + 1 else dn.length) ≤ pre.length + 1 + cfg.cap) :
    ∃ s, Reach (Step cfg) (init (pre ++ b :: post)) s ∧ Stuck cfg s ∧ s.closed = true ∧
      ∀ j, j < cfg.k → j ≠ i →
        (s.ws j).seen = (if j < h then dn ++ [t] else dn) ∧ (s.ws j).buf = [] ∧ (s.ws j).stopped = false := by
  have hdn : dn.length ≤ pre.length + 1 + cfg.cap := by split at hhi <;> omega
  have h0 : Sync cfg [] (dn ++ (t :: rest)) (init (pre ++ b :: post)) := by
    rw [e]; exact sync_init cfg _
  obtain ⟨s1, r1, p1⟩ := sync_rows dn h0 (by
    intro a c ea hc j hj
    rw [List.nil_append]
    refine H.buf_room hcap hj (c := c ++ t :: rest) (by rw [← e, ea, List.append_assoc]) ?_
    intro _
    have : a.length < dn.length := by
      rw [ea, List.length_append]
      have : 0 < c.length := List.length_pos_iff.2 hc
      omega
    omega)
  rw [List.nil_append] at p1
  obtain ⟨s2, st2, p2⟩ := sync_take p1
  obtain ⟨s3, r3, p3⟩ := pos_advance h p2 (by omega) (by
    intro j _ hjh
    refine H.buf_room hcap (by omega) (c := t :: rest) e ?_
    intro hji
    subst hji
    rw [Nat.zero_add] at hjh
    simp only [hjh, if_true] at hhi
    omega)
  rw [Nat.zero_add] at p3
  have hd : ctxDone cfg s3 = true := by
    rw [ctxDone_iff]
    refine ⟨i, H.hi, ?_⟩
    rw [p3.ws i H.hi]
    by_cases hih : i < h
    · simp only [hih, if_true] at hlo ⊢
      exact H.eat_stopped (c := rest) (by rw [← e]; simp) (by simp; omega)
    · simp only [hih, if_false] at hlo ⊢
      exact H.eat_stopped (c := t :: rest) e hlo
  obtain ⟨s4, r4, hst, hcl, hws⟩ := pos_abort_finish p3 hk hw hd
  refine ⟨s4, reach_trans r1 (reach_head st2 (reach_trans r3 r4)), hst, hcl, ?_⟩
  intro j hj hji
  rw [hws j hj]
  by_cases hjh : j < h
  · simp only [hjh, if_true]
    rw [H.eat_other hj hji (c := rest) (by rw [← e]; simp)]
    exact ⟨rfl, rfl, rfl⟩
  · simp only [hjh, if_false]
    rw [H.eat_other hj hji (c := t :: rest) e]
    exact ⟨rfl, rfl, rfl⟩

/-- The feeder gets through the whole input (it never looks at `ctx`, or never takes that branch):
    possible if the failing worker's channel can take everything that comes after the bad row. -/
theorem OneFails.exists_complete {α : Type} {cfg : Cfg α} {i : Nat} {pre post : List α} {b : α}
    (H : OneFails cfg i pre b post) (hcap : 1 ≤ cfg.cap) (hlen : post.length ≤ cfg.cap) :
    ∃ s, Reach (Step cfg) (init (pre ++ b :: post)) s ∧ Stuck cfg s ∧ s.closed = true ∧
      ∀ j, j < cfg.k → j ≠ i →
        (s.ws j).seen = pre ++ b :: post ∧ (s.ws j).buf = [] ∧ (s.ws j).stopped = false := by
  have h0 : Sync cfg [] ((pre ++ b :: post) ++ []) (init (pre ++ b :: post)) := by
    rw [List.append_nil]; exact sync_init cfg _
  obtain ⟨s1, r1, p1⟩ := sync_rows (pre ++ b :: post) h0 (by
    intro a c ea hc j hj
    rw [List.nil_append]
    refine H.buf_room hcap hj (c := c) ea.symm ?_
    intro _
    have h1 : a.length + c.length = pre.length + (post.length + 1) := by
      have := congrArg List.length ea
      simp only [List.length_append, List.length_cons] at this
      omega
    have : 0 < c.length := List.length_pos_iff.2 hc
    omega)
  rw [List.nil_append] at p1
  obtain ⟨s2, r2, hst, hcl, hws⟩ := sync_finish p1
  refine ⟨s2, reach_trans r1 r2, hst, hcl, ?_⟩
  intro j hj hji
  rw [hws j hj, H.eat_other hj hji (c := []) (by simp)]
  exact ⟨rfl, rfl, rfl⟩

/-- in that scenario the other workers never fail and never return early -/
theorem OneFails.other_alive {α : Type} {cfg : Cfg α} {i : Nat} {pre post : List α} {b : α} {s : St α}
    (H : OneFails cfg i pre b post) (h : Inv cfg (pre ++ b :: post) s) {j : Nat} (hj : j < cfg.k)
    (hji : j ≠ i) : (s.ws j).failed = false ∧ (s.ws j).stopped = false := by
  have hf : (s.ws j).failed = false := by
    cases hf : (s.ws j).failed with
    | false => rfl
    | true =>
      obtain ⟨x, hx, hbx⟩ := h.fail j hj hf
      have hmem : x ∈ pre ++ b :: post := by
        rw [← h.rows j hj]
        exact List.mem_append_left _ (List.mem_append_left _ (List.mem_append_left _ hx))
      rw [H.others j hj hji x hmem] at hbx
      cases hbx
  refine ⟨hf, ?_⟩
  cases hs : (s.ws j).stopped with
  | false => rfl
  | true =>
    rw [(h.stop j hj hs).1] at hf
    cases hf

/-- once `ctx` is done the failing worker has been sent its bad row, hence the channels before it
    too, and the channels after it all rows before that one -/
theorem OneFails.sent_lower {α : Type} {cfg : Cfg α} {i : Nat} {pre post : List α} {b : α} {s : St α}
    (H : OneFails cfg i pre b post) (h : Inv cfg (pre ++ b :: post) s) (hd : ctxDone cfg s = true)
    (j : Nat) (hj : j < cfg.k) :
    pre.length + (if j < i then 1 else 0) ≤ (s.ws j).seen.length + (s.ws j).buf.length := by
  rw [ctxDone_iff] at hd
  obtain ⟨j0, hj0, hf0, _⟩ := hd
  have hj0i : j0 = i := by
    by_cases e : j0 = i
    · exact e
    · have := (H.other_alive h hj0 e).1
      rw [this] at hf0; cases hf0
  subst hj0i
  have e := h.rows j0 hj0
  rw [List.append_assoc, List.append_assoc] at e
  have h3 := prefix_bad_length (bad := cfg.bad j0) e H.hpre (h.fail j0 hj0 hf0)
  have h1 := sent_length h j hj
  have h2 := sent_length h j0 hj0
  have h5 := pend_length_le s.hold j
  by_cases hji : j < j0
  · simp only [hji, if_true]
    have := pend_mono s.hold (j := j) (j' := j0) (by omega)
    omega
  · simp only [hji, if_false]
    omega

end Grip.Props.C19.FeedLemmas
