/-
  Lemmas for C13: the textbook round-robin identity on plain lists (Spec.deal / Spec.collect).
-/
import Grip.Spec.C13

namespace Grip.Props.C13.Lemmas
open Grip.C13.Spec

theorem everyNth_nil {α : Type} (n : Nat) : everyNth n ([] : List α) = [] := by
  simp [everyNth]

theorem head_everyNth {α : Type} (n : Nat) (ys : List α) : (everyNth n ys).head? = ys.head? := by
  cases ys <;> simp [everyNth]

theorem tail_everyNth {α : Type} (n : Nat) (hn : 0 < n) (ys : List α) :
    (everyNth n ys).tail = everyNth n (ys.drop n) := by
  cases ys with
  | nil => simp [everyNth]
  | cons y ys' =>
    obtain ⟨m, rfl⟩ : ∃ m, n = m + 1 := ⟨n - 1, by omega⟩
    simp [everyNth]

theorem filterMap_getElem_range {α : Type} (xs : List α) :
    ∀ n, (List.range n).filterMap (fun i => xs[i]?) = xs.take n := by
  intro n
  induction n with
  | zero => simp
  | succ k ih =>
    rw [List.range_succ, List.filterMap_append, ih, List.take_add_one]
    cases h : xs[k]? <;> simp [h]

theorem heads_deal {α : Type} (n : Nat) (xs : List α) :
    (deal n xs).filterMap List.head? = xs.take n := by
  simp only [deal, List.filterMap_map]
  rw [← filterMap_getElem_range xs n]
  congr 1
  funext i
  simp [Function.comp, head_everyNth, List.head?_drop]

theorem tails_deal {α : Type} (n : Nat) (hn : 0 < n) (xs : List α) :
    (deal n xs).map List.tail = deal n (xs.drop n) := by
  simp only [deal, List.map_map]
  congr 1
  funext i
  simp [Function.comp, tail_everyNth n hn, List.drop_drop, Nat.add_comm]

theorem collect_deal {α : Type} (n : Nat) (hn : 0 < n) :
    ∀ (fuel : Nat) (xs : List α), xs.length < fuel → collect fuel (deal n xs) = xs := by
  intro fuel
  induction fuel with
  | zero => intro xs h; omega
  | succ k ih =>
    intro xs h
    simp only [collect, heads_deal, tails_deal n hn]
    cases xs with
    | nil => simp
    | cons x rest =>
      obtain ⟨m, rfl⟩ : ∃ m, n = m + 1 := ⟨n - 1, by omega⟩
      have hl : ((x :: rest).drop (m + 1)).length < k := by
        simp [List.length_drop] at h ⊢; omega
      rw [ih _ hl]
      simp

end Grip.Props.C13.Lemmas
