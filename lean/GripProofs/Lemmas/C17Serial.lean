/-
  Lemmas for C17 (ii): interleavings, their enumeration, and commutation of independent edits on a
  functional abstract store.
-/
import Grip.Spec.C17

namespace Grip.Props.C17.Lemmas
open Grip.C17.Spec

/-! ### interleavings -/

theorem merge_nil_left {α : Type} : ∀ l : List α, Merge [] l l
  | [] => .nil
  | _ :: l => .right (merge_nil_left l)

theorem merge_nil_right {α : Type} : ∀ l : List α, Merge l [] l
  | [] => .nil
  | _ :: l => .left (merge_nil_right l)

theorem merges2_sound {α : Type} : ∀ (xs ys zs : List α), zs ∈ merges2 xs ys → Merge xs ys zs
  | [], ys, zs, h => by
    have : zs = ys := by simpa [merges2] using h
    rw [this]; exact merge_nil_left ys
  | x :: xs, [], zs, h => by
    have : zs = x :: xs := by simpa [merges2] using h
    rw [this]; exact merge_nil_right _
  | x :: xs, y :: ys, zs, h => by
    simp only [merges2, List.mem_append, List.mem_map] at h
    rcases h with ⟨w, hw, rfl⟩ | ⟨w, hw, rfl⟩
    · exact .left (merges2_sound xs (y :: ys) w hw)
    · exact .right (merges2_sound (x :: xs) ys w hw)
termination_by xs ys _ _ => xs.length + ys.length

theorem merges2_complete {α : Type} {xs ys zs : List α} (h : Merge xs ys zs) : zs ∈ merges2 xs ys := by
  induction h with
  | nil => simp [merges2]
  | @left x xs ys zs _ ih =>
    cases ys with
    | nil =>
      have : zs = xs := by
        cases xs with
        | nil => simpa [merges2] using ih
        | cons a l => simpa [merges2] using ih
      simp [merges2, this]
    | cons y ys =>
      simp only [merges2, List.mem_append, List.mem_map]
      exact Or.inl ⟨zs, ih, rfl⟩
  | @right y xs ys zs _ ih =>
    cases xs with
    | nil =>
      have : zs = ys := by simpa [merges2] using ih
      simp [merges2, this]
    | cons x xs =>
      simp only [merges2, List.mem_append, List.mem_map]
      exact Or.inr ⟨zs, ih, rfl⟩

theorem mergesN_sound {α : Type} : ∀ (cs : List (List α)) (zs : List α), zs ∈ mergesN cs → MergeN cs zs
  | [], zs, h => by simp [mergesN] at h; subst h; exact .nil
  | c :: cs, zs, h => by
    simp only [mergesN, List.mem_flatMap] at h
    obtain ⟨rest, hr, hz⟩ := h
    exact .cons (mergesN_sound cs rest hr) (merges2_sound _ _ _ hz)

theorem mergesN_complete {α : Type} {cs : List (List α)} {zs : List α} (h : MergeN cs zs) : zs ∈ mergesN cs := by
  induction h with
  | nil => simp [mergesN]
  | cons _ hm ih =>
    simp only [mergesN, List.mem_flatMap]
    exact ⟨_, ih, merges2_complete hm⟩

theorem merge_sublist_left {α : Type} {xs ys zs : List α} (h : Merge xs ys zs) : xs.Sublist zs := by
  induction h with
  | nil => exact .slnil
  | left _ ih => exact ih.cons_cons _
  | right _ ih => exact ih.cons _

theorem merge_sublist_right {α : Type} {xs ys zs : List α} (h : Merge xs ys zs) : ys.Sublist zs := by
  induction h with
  | nil => exact .slnil
  | left _ ih => exact ih.cons _
  | right _ ih => exact ih.cons_cons _

theorem merge_perm {α : Type} {xs ys zs : List α} (h : Merge xs ys zs) : zs.Perm (xs ++ ys) := by
  induction h with
  | nil => exact .nil
  | left _ ih => exact ih.cons _
  | @right y xs ys zs _ ih =>
    exact (ih.cons y).trans (List.perm_middle (a := y) (l₁ := xs) (l₂ := ys)).symm

/-! ### a functional abstract store: one graph, vertices and edges keyed by id -/

structure FS (ι : Type) where
  V : ι → Option Nat                 -- vertex id ↦ payload
  E : ι → Option (ι × ι × Nat)       -- edge id ↦ (from, to, payload)

inductive FOp (ι : Type) where
  | putV (id : ι) (d : Nat)
  | putE (id : ι) (f t : ι) (d : Nat)
  | delV (id : ι)
  | delE (id : ι)

variable {ι : Type} [DecidableEq ι]

/-- what a vertex delete does to one edge slot -/
def kill (id : ι) : Option (ι × ι × Nat) → Option (ι × ι × Nat)
  | some (f, t, d) => if f = id ∨ t = id then none else some (f, t, d)
  | none => none

def FS.apply (s : FS ι) : FOp ι → FS ι
  | .putV id d => { s with V := fun k => if k = id then some d else s.V k }
  | .putE id f t d => { s with E := fun k => if k = id then some (f, t, d) else s.E k }
  | .delV id => { V := fun k => if k = id then none else s.V k, E := fun k => kill id (s.E k) }
  | .delE id => { s with E := fun k => if k = id then none else s.E k }

def FS.run (s : FS ι) (ops : List (FOp ι)) : FS ι := ops.foldl FS.apply s

/-- footprints do not meet: different vertex ids, different edge ids, and a vertex delete does not
    touch the endpoints of an edge the other client writes -/
def indep : FOp ι → FOp ι → Bool
  | .putV a _, .putV b _ => a ≠ b
  | .putV a _, .delV b => a ≠ b
  | .delV a, .putV b _ => a ≠ b
  | .delV _, .delV _ => true
  | .putE a _ _ _, .putE b _ _ _ => a ≠ b
  | .putE a _ _ _, .delE b => a ≠ b
  | .delE a, .putE b _ _ _ => a ≠ b
  | .delE _, .delE _ => true
  | .putV _ _, .putE _ _ _ _ => true
  | .putE _ _ _ _, .putV _ _ => true
  | .putV _ _, .delE _ => true
  | .delE _, .putV _ _ => true
  | .delV a, .putE _ f t _ => f ≠ a ∧ t ≠ a
  | .putE _ f t _, .delV a => f ≠ a ∧ t ≠ a
  | .delV _, .delE _ => true
  | .delE _, .delV _ => true

omit [DecidableEq ι] in
theorem FS.ext' {s t : FS ι} (hV : ∀ k, s.V k = t.V k) (hE : ∀ k, s.E k = t.E k) : s = t := by
  cases s; cases t; simp only [FS.mk.injEq]; exact ⟨funext hV, funext hE⟩

theorem kill_comm (a b : ι) (x : Option (ι × ι × Nat)) : kill a (kill b x) = kill b (kill a x) := by
  cases x with
  | none => rfl
  | some r =>
    obtain ⟨f, t, d⟩ := r
    simp only [kill]
    by_cases h1 : f = b ∨ t = b <;> by_cases h2 : f = a ∨ t = a <;> simp [kill, h1, h2]

theorem kill_put (a e k f t : ι) (d : Nat) (y : Option (ι × ι × Nat)) (hf : f ≠ a) (ht : t ≠ a) :
    kill a (if k = e then some (f, t, d) else y) = if k = e then some (f, t, d) else kill a y := by
  by_cases h : k = e <;> simp [h, kill, hf, ht]

theorem kill_del (a e k : ι) (y : Option (ι × ι × Nat)) :
    kill a (if k = e then none else y) = if k = e then none else kill a y := by
  by_cases h : k = e <;> simp [h, kill]

omit [DecidableEq ι] in
theorem ite_comm_ne {β : Type} (k a b : ι) [Decidable (k = a)] [Decidable (k = b)] (x y z : β) (h : a ≠ b) :
    (if k = b then y else if k = a then x else z) = (if k = a then x else if k = b then y else z) := by
  by_cases h1 : k = a
  · subst h1; simp [h]
  · by_cases h2 : k = b
    · subst h2; simp [h1]
    · simp [h1, h2]

theorem indep_commute (s : FS ι) (a b : FOp ι) (h : indep a b = true) :
    (s.apply a).apply b = (s.apply b).apply a := by
  cases a <;> cases b <;>
    simp only [indep, decide_eq_true_eq, ne_eq, Bool.decide_and, Bool.and_eq_true, decide_not, Bool.not_eq_true',
      decide_eq_false_iff_not] at h <;>
    apply FS.ext' <;> intro k <;> simp only [FS.apply] <;> (try rfl)
  all_goals first
    | exact ite_comm_ne k _ _ _ _ _ h
    | exact (ite_comm_ne k _ _ _ _ _ (fun e => h e.symm)).symm
    | exact kill_comm _ _ _
    | exact kill_put _ _ _ _ _ _ _ h.1 h.2
    | exact (kill_put _ _ _ _ _ _ _ h.1 h.2).symm
    | exact kill_del _ _ _ _
    | exact (kill_del _ _ _ _).symm
    | (split <;> split <;> simp_all)

theorem run_push (s : FS ι) (y : FOp ι) :
    ∀ (xs rest : List (FOp ι)), (∀ x ∈ xs, indep x y = true) →
      FS.run s (xs ++ y :: rest) = FS.run (s.apply y) (xs ++ rest)
  | [], rest, _ => rfl
  | x :: xs, rest, h => by
    have hx := h x (List.mem_cons_self ..)
    have ih := run_push (s.apply x) y xs rest (fun x' hx' => h x' (List.mem_cons_of_mem _ hx'))
    show FS.run (s.apply x) (xs ++ y :: rest) = FS.run ((s.apply y).apply x) (xs ++ rest)
    rw [ih, indep_commute s x y hx]
termination_by xs => xs.length

theorem merge_confluent {xs ys zs : List (FOp ι)} (hm : Merge xs ys zs)
    (hi : ∀ x ∈ xs, ∀ y ∈ ys, indep x y = true) (s : FS ι) :
    FS.run s zs = FS.run s (xs ++ ys) := by
  induction hm generalizing s with
  | nil => rfl
  | @left x xs ys zs _ ih =>
    exact ih (fun x' hx' y hy => hi x' (List.mem_cons_of_mem _ hx') y hy) (s.apply x)
  | @right y xs ys zs _ ih =>
    have h1 := ih (fun x hx y' hy' => hi x hx y' (List.mem_cons_of_mem _ hy')) (s.apply y)
    have h2 := run_push s y xs ys (fun x hx => hi x hx y (List.mem_cons_self ..))
    show FS.run (s.apply y) zs = FS.run s (xs ++ y :: ys)
    rw [h1, h2]

end Grip.Props.C17.Lemmas

/-! ### DelVertex as the code runs it: a read transaction (View) collecting the incident edge
    keys, then a write transaction (Update) deleting the vertex and exactly those keys -/
namespace Grip.Props.C17.Lemmas
variable {ι : Type} [DecidableEq ι]

/-- View: the (edge id, from, to) keys incident to `id` among the edge ids `keys` -/
def delVRead (s : FS ι) (id : ι) (keys : List ι) : List (ι × ι × ι) :=
  keys.filterMap fun k => match s.E k with
    | some (f, t, _) => if f = id ∨ t = id then some (k, f, t) else none
    | none => none

/-- Update: delete the vertex and the collected keys (a key names edge id AND endpoints, as in
    kvgraph: an edge re-added meanwhile with the same endpoints is deleted, with others it is not) -/
def delVWrite (s : FS ι) (id : ι) (ks : List (ι × ι × ι)) : FS ι :=
  { V := fun k => if k = id then none else s.V k,
    E := fun k => match s.E k with
      | some (f, t, d) => if ks.contains (k, f, t) then none else some (f, t, d)
      | none => none }

/-- witness: u = 0, v = 1, edge 10 : 0 → 1 stored; client 1 deletes vertex 1; client 2 adds edge
    11 : 0 → 1 and then rewrites edge 10 (same endpoints, new payload) between View and Update -/
def w0 : FS Nat :=
  { V := fun k => if k = 0 ∨ k = 1 then some 0 else none,
    E := fun k => if k = 10 then some (0, 1, 0) else none }
def wClient2 : List (FOp Nat) := [.putE 11 0 1 0, .putE 10 0 1 7]
def wSplit : FS Nat := delVWrite (w0.run wClient2) 1 (delVRead w0 1 [10, 11])

end Grip.Props.C17.Lemmas
