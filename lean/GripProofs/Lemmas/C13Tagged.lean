/-
  Lemmas for C13, fan-out/fan-in stages (round-robin worker pool, channel multiplexer).

  Both are handled with one device: the items that have entered the stage and not yet left it form
  a ghost list `pend : List (tag × item)` in input order, where the tag is the worker/pipeline the
  item was routed to.  The invariant says (a) `out ++ pend` is the image of what was consumed,
  (b) each worker's queue (its three places: channel in, in hand, channel out) is the projection
  of `pend` to its tag, (c) the merger reads tags in exactly the order they occur in `pend`
  (round-robin: the tags are the `wrapNext` orbit; mux: the tags are the messageOrder channel).
-/
import Grip.Model.C13
import GripProofs.Lemmas.C13

namespace Grip.Props.C13.Lemmas
open Grip.C13

def proj {β : Type} (pend : List (Nat × β)) (i : Nat) : List β :=
  (pend.filter (fun p => p.1 == i)).map (·.2)

@[simp] theorem proj_nil {β : Type} (i : Nat) : proj ([] : List (Nat × β)) i = [] := rfl

theorem proj_cons_same {β : Type} (i : Nat) (y : β) (pend : List (Nat × β)) :
    proj ((i, y) :: pend) i = y :: proj pend i := by simp [proj]

theorem proj_cons_ne {β : Type} {i j : Nat} (h : j ≠ i) (y : β) (pend : List (Nat × β)) :
    proj ((j, y) :: pend) i = proj pend i := by simp [proj, h]

theorem proj_snoc_same {β : Type} (i : Nat) (y : β) (pend : List (Nat × β)) :
    proj (pend ++ [(i, y)]) i = proj pend i ++ [y] := by simp [proj]

theorem proj_snoc_ne {β : Type} {i j : Nat} (h : j ≠ i) (y : β) (pend : List (Nat × β)) :
    proj (pend ++ [(j, y)]) i = proj pend i := by simp [proj, h]

/-! ## round robin -/

/-- the tags of `l` consecutive items dealt starting at worker `k` -/
def rrTags (c : RRCfg) : Nat → Nat → List Nat
  | _, 0 => []
  | k, l + 1 => k :: rrTags c (wrapNext c k) l

/-- the distributor index after `l` more items -/
def adv (c : RRCfg) : Nat → Nat → Nat
  | k, 0 => k
  | k, l + 1 => adv c (wrapNext c k) l

theorem adv_succ (c : RRCfg) : ∀ (l k : Nat), adv c k (l + 1) = wrapNext c (adv c k l) := by
  intro l
  induction l with
  | zero => intro k; rfl
  | succ n ih => intro k; simp only [adv] at ih ⊢; exact ih (wrapNext c k)

theorem rrTags_snoc (c : RRCfg) : ∀ (l k : Nat), rrTags c k (l + 1) = rrTags c k l ++ [adv c k l] := by
  intro l
  induction l with
  | zero => intro k; rfl
  | succ n ih => intro k; simp only [rrTags, adv, List.cons_append] at ih ⊢; rw [ih (wrapNext c k)]

/-- the merger index as a worker number (`i = nworkers` is the end of a round: next is worker 0) -/
def norm (c : RRCfg) (mi : Nat) : Nat := if c.n ≤ mi then 0 else mi

theorem norm_succ (c : RRCfg) (hge : c.ge = true) (mi : Nat) (h : mi < c.n) :
    norm c (mi + 1) = wrapNext c (norm c mi) := by
  have h1 : ¬ c.n ≤ mi := by omega
  simp [norm, wrapNext, hge, h1]

/-- everything worker `i` still has to deliver, oldest first -/
def pendW {α β : Type} (f : α → β) (s : RR α β) (i : Nat) : List β :=
  s.fromW i ++ ((s.hold i).toList ++ (s.toW i).map f)

structure RRInv {α β : Type} (c : RRCfg) (f : α → β) (xs : List α) (s : RR α β)
    (consumed : List α) (pend : List (Nat × β)) : Prop where
  cons : consumed ++ s.inp = xs
  outp : s.out ++ pend.map (·.2) = consumed.map f
  prj : ∀ i, pendW f s i = proj pend i
  mode : (pend = [] ∧ s.inp = []) ∨
         (pend.map (·.1) = rrTags c (norm c s.mi) pend.length ∧ s.nd = adv c (norm c s.mi) pend.length ∧
          (0 < s.mi → s.found = true))
  dcl : 0 < s.dClosed → s.inp = []
  wcl : ∀ i, s.wClosed i = true → i < s.dClosed ∧ s.toW i = [] ∧ s.hold i = none
  fin : s.outClosed = true → s.out = xs.map f ∧ s.inp = []

theorem rr_step {α β : Type} (c : RRCfg) (hn : 0 < c.n) (hge : c.ge = true) (hms : c.mstart = 0)
    (f : α → β) (xs : List α) (a : RRAct) (s1 s2 : RR α β) (consumed : List α) (pend : List (Nat × β))
    (ih : RRInv c f xs s1 consumed pend) (hact : rrAct c f a s1 = some s2) :
    ∃ consumed' pend', RRInv c f xs s2 consumed' pend' := by
  obtain ⟨cons, outp, prj, mode, dcl, wcl, fin⟩ := ih
  cases a <;> simp only [rrAct] at hact
  · -- dist
    split at hact
    · rename_i x rest hx
      cases hact
      refine ⟨consumed ++ [x], pend ++ [(s1.nd, f x)], ?_, ?_, ?_, ?_, ?_, ?_, ?_⟩
      · simpa [hx] using cons
      · simp [← outp, List.append_assoc]
      · intro i
        by_cases hi : i = s1.nd
        · subst hi
          rw [proj_snoc_same, ← prj]
          simp [pendW, List.append_assoc]
        · rw [proj_snoc_ne (Ne.symm hi), ← prj]
          simp [pendW, upd_ne _ _ hi]
      · rcases mode with ⟨_, hi⟩ | ⟨ht, hnd, hf⟩
        · simp [hi] at hx
        · right
          refine ⟨?_, ?_, hf⟩
          · simp [rrTags_snoc, ← ht, hnd]
          · simp [adv_succ, hnd]
      · intro h; simp at h; simp [dcl h] at hx
      · intro i hi
        simp at hi
        have := wcl i hi
        refine ⟨this.1, ?_, this.2.2⟩
        by_cases hi' : i = s1.nd
        · have h0 := dcl (by omega : 0 < s1.dClosed)
          simp [h0] at hx
        · simp [upd_ne _ _ hi', this.2.1]
      · intro h; simp at h; simp [(fin h).2] at hx
    · cases hact
  · -- dclose
    split at hact
    · rename_i hx
      split at hact
      · cases hact
        refine ⟨consumed, pend, cons, outp, prj, mode, by intro _; exact hx, ?_, fin⟩
        intro i hi
        have := wcl i hi
        exact ⟨by simp; omega, this.2⟩
      · cases hact
    · cases hact
  · -- take
    rename_i i
    split at hact
    · rename_i x rest hx hh
      cases hact
      refine ⟨consumed, pend, cons, outp, ?_, mode, dcl, ?_, fin⟩
      · intro j
        rw [← prj]
        by_cases hj : j = i
        · subst hj; simp [pendW, hx, hh]
        · simp [pendW, upd_ne _ _ hj]
      · intro j hj
        simp at hj
        have := wcl j hj
        by_cases hj' : j = i
        · subst hj'; simp [this.2.1] at hx
        · simpa [upd_ne _ _ hj'] using this
    · cases hact
  · -- send
    rename_i i
    split at hact
    · rename_i y hh
      cases hact
      refine ⟨consumed, pend, cons, outp, ?_, mode, dcl, ?_, fin⟩
      · intro j
        rw [← prj]
        by_cases hj : j = i
        · subst hj; simp [pendW, hh]
        · simp [pendW, upd_ne _ _ hj]
      · intro j hj
        simp at hj
        have := wcl j hj
        by_cases hj' : j = i
        · subst hj'; simp [this.2.2] at hh
        · simpa [upd_ne _ _ hj'] using this
    · cases hact
  · -- wclose
    rename_i i
    split at hact
    · rename_i ht hh
      split at hact
      · rename_i hg
        cases hact
        refine ⟨consumed, pend, cons, outp, prj, mode, dcl, ?_, fin⟩
        intro j hj
        by_cases hj' : j = i
        · subst hj'; exact ⟨hg.1, ht, hh⟩
        · simp [upd_ne _ _ hj'] at hj; exact wcl j hj
      · cases hact
    · cases hact
  · -- mrecv
    split at hact
    · rename_i hg
      split at hact
      · rename_i y rest hy
        cases hact
        have hp := prj s1.mi
        rcases mode with ⟨hpe, _⟩ | ⟨ht, hnd, _⟩
        · subst hpe; simp [pendW, hy] at hp
        · cases pend with
          | nil => simp [pendW, hy] at hp
          | cons p pend' =>
            obtain ⟨t, y'⟩ := p
            have hnm : norm c s1.mi = s1.mi := by simp [norm]; omega
            simp only [List.map_cons, List.length_cons, rrTags, List.cons.injEq] at ht
            obtain ⟨htag, ht'⟩ := ht
            rw [hnm] at htag; subst htag
            rw [proj_cons_same] at hp
            simp only [pendW, hy, List.cons_append, List.cons.injEq] at hp
            obtain ⟨hyy, hp'⟩ := hp
            subst hyy
            refine ⟨consumed, pend', cons, ?_, ?_, ?_, dcl, wcl, ?_⟩
            · simpa [List.append_assoc] using outp
            · intro j
              by_cases hj : j = s1.mi
              · subst hj; simpa [pendW] using hp'
              · have := prj j
                rw [proj_cons_ne (Ne.symm hj)] at this
                simpa [pendW, upd_ne _ _ hj] using this
            · right
              refine ⟨?_, ?_, by intro _; rfl⟩
              · simpa [norm_succ c hge _ hg.2, hnm] using ht'
              · simpa [norm_succ c hge _ hg.2, hnm, adv] using hnd
            · intro h; simp [hg.1] at h
      · cases hact
    · cases hact
  · -- mskip
    split at hact
    · rename_i hg
      split at hact
      · rename_i hy
        cases hact
        have hw := wcl s1.mi hg.2.2
        have hi0 : s1.inp = [] := dcl (by omega)
        have hp := prj s1.mi
        simp only [pendW, hy, hw.2.1, hw.2.2, Option.toList, List.map_nil, List.append_nil] at hp
        refine ⟨consumed, pend, cons, outp, prj, ?_, dcl, wcl, ?_⟩
        · left
          refine ⟨?_, hi0⟩
          rcases mode with ⟨hpe, _⟩ | ⟨ht, _, _⟩
          · exact hpe
          · cases pend with
            | nil => rfl
            | cons p pend' =>
              obtain ⟨t, y'⟩ := p
              have hnm : norm c s1.mi = s1.mi := by simp [norm]; omega
              simp only [List.map_cons, List.length_cons, rrTags, List.cons.injEq] at ht
              rw [hnm] at ht
              rw [ht.1, proj_cons_same] at hp
              cases hp
        · intro h; simp [hg.1] at h
      · cases hact
    · cases hact
  · -- mround
    split at hact
    · rename_i hg
      cases hact
      refine ⟨consumed, pend, cons, outp, prj, ?_, dcl, wcl, ?_⟩
      · rcases mode with hd | ⟨ht, hnd, _⟩
        · left; exact hd
        · right
          have h1 : norm c s1.mi = 0 := by simp [norm, hg.2.1]
          have h2 : norm c c.mstart = 0 := by simp [norm, hms]
          refine ⟨by simpa [h1, h2] using ht, by simpa [h1, h2] using hnd, ?_⟩
          intro h; simp [hms] at h
      · intro h; simp [hg.1] at h
    · cases hact
  · -- mfin
    split at hact
    · rename_i hg
      cases hact
      refine ⟨consumed, pend, cons, outp, prj, mode, dcl, wcl, ?_⟩
      intro _
      rcases mode with ⟨hpe, hi⟩ | ⟨_, _, hf⟩
      · subst hpe
        simp only [List.map_nil, List.append_nil] at outp
        rw [hi, List.append_nil] at cons
        subst cons
        exact ⟨outp, hi⟩
      · have := hf (by omega)
        simp [hg.2.2] at this
    · cases hact

theorem rr_inv {α β : Type} (c : RRCfg) (hn : 0 < c.n) (hge : c.ge = true) (hms : c.mstart = 0)
    (f : α → β) (xs : List α) :
    ∀ s, Reach (rrAct c f) (rrInit c xs) s → ∃ consumed pend, RRInv c f xs s consumed pend := by
  intro s h
  induction h with
  | init =>
    refine ⟨[], [], by simp [rrInit], by simp [rrInit], by intro i; simp [pendW, rrInit], ?_, by simp [rrInit],
      by simp [rrInit], by simp [rrInit]⟩
    right
    simp [rrInit, rrTags, adv, norm, hms]
  | step a _ hact ih =>
    obtain ⟨consumed, pend, hinv⟩ := ih
    exact rr_step c hn hge hms f xs a _ _ consumed pend hinv hact

/-! ## channel multiplexer -/

structure MuxInv {α β : Type} (g : Nat → α → β) (all : List (Nat × α)) (s : Mux α β)
    (issued : List (Nat × α)) (pend : List (Nat × β)) : Prop where
  iss : issued ++ s.puts = all
  outp : s.out ++ pend.map (·.2) = issued.map (fun p => g p.1 p.2)
  prj : ∀ j, s.outQ j ++ (s.inQ j).map (g j) = proj pend j
  ord : s.order ++ s.half.toList = pend.map (·.1)
  cl : s.closeCalled = true → s.puts = [] ∧ s.half = none
  fin : s.outClosed = true → s.closeCalled = true ∧ s.order = []

theorem mux_step {α β : Type} (c : MuxCfg) (hc : c.idxIsOrder = true) (g : Nat → α → β)
    (all : List (Nat × α)) (a : MuxAct) (s1 s2 : Mux α β) (issued : List (Nat × α)) (pend : List (Nat × β))
    (ih : MuxInv g all s1 issued pend) (hact : muxAct c g a s1 = some s2) :
    ∃ issued' pend', MuxInv g all s2 issued' pend' := by
  obtain ⟨iss, outp, prj, ord, cl, fin⟩ := ih
  cases a <;> simp only [muxAct] at hact
  · -- putIn
    split at hact
    · rename_i j v rest hp hh
      cases hact
      refine ⟨issued ++ [(j, v)], pend ++ [(j, g j v)], ?_, ?_, ?_, ?_, ?_, ?_⟩
      · simpa [hp] using iss
      · simp [← outp, List.append_assoc]
      · intro i
        by_cases hi : i = j
        · subst hi
          rw [proj_snoc_same, ← prj]
          simp [List.append_assoc]
        · rw [proj_snoc_ne (Ne.symm hi), ← prj]
          simp [upd_ne _ _ hi]
      · simpa [hh] using ord
      · intro h; simp at h; simp [(cl h).1] at hp
      · intro h; simp at h; simp [(cl (fin h).1).1] at hp
    · cases hact
  · -- putOrd
    split at hact
    · rename_i j hh
      cases hact
      refine ⟨issued, pend, iss, outp, prj, by simpa [hh] using ord, ?_, ?_⟩
      · intro h; simp at h; simp [(cl h).2] at hh
      · intro h; simp at h; simp [(cl (fin h).1).2] at hh
    · cases hact
  · -- close
    split at hact
    · rename_i hp hh
      split at hact
      · cases hact
        exact ⟨issued, pend, iss, outp, prj, ord, by intro _; exact ⟨hp, hh⟩, by
          intro h; simp at h; exact ⟨rfl, (fin h).2⟩⟩
      · cases hact
    · cases hact
  · -- pipe
    rename_i j
    split at hact
    · rename_i x rest hx
      cases hact
      refine ⟨issued, pend, iss, outp, ?_, ord, cl, fin⟩
      intro i
      rw [← prj]
      by_cases hi : i = j
      · subst hi; simp [hx, List.append_assoc]
      · simp [upd_ne _ _ hi]
    · cases hact
  · -- recv
    split at hact
    · rename_i hg
      split at hact
      · rename_i k rest hk
        try simp only [hc, if_true] at hact
        split at hact
        · rename_i y r hy
          cases hact
          cases pend with
          | nil => simp [hk] at ord
          | cons p pend' =>
            obtain ⟨t, y'⟩ := p
            simp only [hk, List.cons_append, List.map_cons, List.cons.injEq] at ord
            obtain ⟨htag, ord'⟩ := ord
            subst htag
            have hp := prj k
            rw [proj_cons_same, hy] at hp
            simp only [List.cons_append, List.cons.injEq] at hp
            obtain ⟨hyy, hp'⟩ := hp
            subst hyy
            refine ⟨issued, pend', iss, ?_, ?_, ord', cl, ?_⟩
            · simpa [List.append_assoc] using outp
            · intro j
              by_cases hj : j = k
              · subst hj; simpa using hp'
              · have := prj j
                rw [proj_cons_ne (Ne.symm hj)] at this
                simpa [upd_ne _ _ hj] using this
            · intro h; simp [hg] at h
        · cases hact
      · cases hact
    · cases hact
  · -- fin
    split at hact
    · rename_i ho
      split at hact
      · rename_i hg
        cases hact
        exact ⟨issued, pend, iss, outp, prj, ord, cl, by intro _; exact ⟨hg.2, ho⟩⟩
      · cases hact
    · cases hact

theorem mux_inv {α β : Type} (c : MuxCfg) (hc : c.idxIsOrder = true) (g : Nat → α → β)
    (all : List (Nat × α)) :
    ∀ s, Reach (muxAct c g) (muxInit all) s → ∃ issued pend, MuxInv g all s issued pend := by
  intro s h
  induction h with
  | init =>
    exact ⟨[], [], by simp [muxInit], by simp [muxInit], by intro j; simp [muxInit], by simp [muxInit],
      by simp [muxInit], by simp [muxInit]⟩
  | step a _ hact ih =>
    obtain ⟨issued, pend, hinv⟩ := ih
    exact mux_step c hc g all a _ _ issued pend hinv hact

end Grip.Props.C13.Lemmas
