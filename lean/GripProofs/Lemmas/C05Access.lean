/-
  Lemmas for Props.C05Access (the repository's own Casbin / BasicAuth / ProxyAuth).
-/
import Grip.Model.C05Access

namespace Grip.C05.Access

/-! SPEC side only (not linked into the driver): what a client's standard encoder sends. -/

/-- the base64 alphabet (encoding/base64 encodeStd) -/
def b64Enc (n : Nat) : UInt8 :=
  if n < 26 then UInt8.ofNat (65 + n) else if n < 52 then UInt8.ofNat (97 + (n - 26))
  else if n < 62 then UInt8.ofNat (48 + (n - 52)) else if n = 62 then 43 else 47

/-- base64.StdEncoding.EncodeToString (SPEC side only: what a client sends) -/
def b64Encode : Bytes → Bytes
  | [] => []
  | [x] => [b64Enc (x.toNat / 4), b64Enc (x.toNat % 4 * 16), b64Pad, b64Pad]
  | [x, y] => [b64Enc (x.toNat / 4), b64Enc (x.toNat % 4 * 16 + y.toNat / 16), b64Enc (y.toNat % 16 * 4), b64Pad]
  | x :: y :: z :: rest =>
    b64Enc (x.toNat / 4) :: b64Enc (x.toNat % 4 * 16 + y.toNat / 16) :: b64Enc (y.toNat % 16 * 4 + z.toNat / 64)
      :: b64Enc (z.toNat % 64) :: b64Encode rest

end Grip.C05.Access

namespace Grip.Props.C05Access.Lemmas
open Grip Grip.C05 Grip.C05.Access

/-! ## Casbin -/

theorem effRows_ne_nil (policy : List Row) : effRows policy ≠ [] := by
  unfold effRows
  cases policy with
  | nil => simp
  | cons r rs => simp

theorem effRows_of_ne_nil {policy : List Row} (h : policy ≠ []) : effRows policy = policy := by
  unfold effRows
  cases policy with
  | nil => exact absurd rfl h
  | cons r rs => simp

theorem rowMatches_iff (u g o : String) (r : Row) :
    rowMatches u g o r = true ↔
      u = "root" ∨ (r.1 = u ∧ (r.2.1 = g ∨ r.2.1 = "*") ∧ (r.2.2 = o ∨ r.2.2 = "*")) := by
  unfold rowMatches
  simp only [Bool.or_eq_true, Bool.and_eq_true, beq_iff_eq]
  constructor
  · rintro (⟨⟨h1, h2⟩, h3⟩ | h)
    · refine Or.inr ⟨h1.symm, ?_, ?_⟩
      · rcases h2 with h2 | h2
        · exact Or.inl h2.symm
        · exact Or.inr h2
      · rcases h3 with h3 | h3
        · exact Or.inl h3.symm
        · exact Or.inr h3
    · exact Or.inl h
  · rintro (h | ⟨h1, h2, h3⟩)
    · exact Or.inr h
    · refine Or.inl ⟨⟨h1.symm, ?_⟩, ?_⟩
      · rcases h2 with h2 | h2
        · exact Or.inl h2.symm
        · exact Or.inr h2
      · rcases h3 with h3 | h3
        · exact Or.inl h3.symm
        · exact Or.inr h3

/-- once the enforcer exists the file is not looked at again, and the enforcer does not change -/
theorem casbinRunFrom_some (file p : List Row) (reqs : List (String × String × String)) :
    casbinRunFrom file (some p) reqs = reqs.map (fun r => casbinAllows p r.1 r.2.1 r.2.2) := by
  induction reqs with
  | nil => rfl
  | cons r rs ih => simp [casbinRunFrom, casbinStep, ih]

theorem casbinRun_eq_map (file : List Row) (reqs : List (String × String × String)) :
    casbinRun file reqs = reqs.map (fun r => casbinAllows file r.1 r.2.1 r.2.2) := by
  cases reqs with
  | nil => rfl
  | cons r rs => simp [casbinRun, casbinRunFrom, casbinStep, casbinRunFrom_some]

/-! ## BasicAuth -/

theorem bytesOf_injective {s t : String} (h : bytesOf s = bytesOf t) : s = t := by
  unfold bytesOf at h
  cases s with
  | ofByteArray bs hs =>
    cases t with
    | ofByteArray bt ht =>
      cases bs with
      | mk ds =>
        cases bt with
        | mk dt =>
          simp only at h
          have : ds = dt := Array.toList_inj.mp h
          subst this
          rfl

theorem bytesOf_empty : bytesOf "" = [] := by decide

theorem bytesOf_eq_nil {s : String} (h : bytesOf s = []) : s = "" :=
  bytesOf_injective (h.trans bytesOf_empty.symm)

theorem splitColon_spec (bs u p : Bytes) :
    splitColon bs = some (u, p) ↔ bs = u ++ 58 :: p ∧ (58 : UInt8) ∉ u := by
  induction bs generalizing u with
  | nil => simp [splitColon]
  | cons c cs ih =>
    unfold splitColon
    by_cases hc : c = 58
    · subst hc
      simp only [beq_self_eq_true, if_true, Option.some.injEq, Prod.mk.injEq]
      constructor
      · rintro ⟨rfl, rfl⟩; simp
      · rintro ⟨h, hn⟩
        cases u with
        | nil => simp at h; exact ⟨rfl, h⟩
        | cons x xs =>
          simp at h
          exact absurd (by rw [← h.1]; simp) hn
    · have hb : (c == 58) = false := by simp [hc]
      simp only [hb, Bool.false_eq_true, if_false, Option.map_eq_some_iff]
      constructor
      · rintro ⟨⟨u', p'⟩, hsp, heq⟩
        simp only [Prod.mk.injEq] at heq
        obtain ⟨rfl, rfl⟩ := heq
        obtain ⟨h1, h2⟩ := (ih u').mp hsp
        refine ⟨by rw [h1]; rfl, ?_⟩
        intro hm
        rcases List.mem_cons.mp hm with h | h
        · exact hc h.symm
        · exact h2 h
      · rintro ⟨h, hn⟩
        cases u with
        | nil => simp at h; exact absurd h.1 hc
        | cons x xs =>
          simp only [List.cons_append, List.cons.injEq] at h
          obtain ⟨rfl, h⟩ := h
          refine ⟨(xs, p), (ih xs).mpr ⟨h, fun hm => hn (List.mem_cons_of_mem _ hm)⟩, rfl⟩

/-! base64: decoding undoes the standard encoder -/

theorem b64Val_enc : ∀ n, n < 64 → b64Val (b64Enc n) = some n := by decide
theorem b64Enc_ne_pad : ∀ n, n < 64 → (b64Enc n == b64Pad) = false := by decide
theorem b64Enc_keep : ∀ n, n < 64 → (b64Enc n != 10 && b64Enc n != 13) = true := by decide

theorem ofNat_toNat_mod (x : UInt8) (n : Nat) (h : n % 256 = x.toNat) : UInt8.ofNat (n % 256) = x := by
  rw [h]; exact UInt8.ofNat_toNat

theorem b64Quads_encode (bs : Bytes) : b64Quads (b64Encode bs) = some bs := by
  induction bs using b64Encode.induct with
  | case1 => rfl
  | case2 x =>
    have hx := x.toNat_lt
    simp only [b64Encode, b64Quads, List.isEmpty_nil, Bool.true_and, beq_self_eq_true, if_true]
    rw [b64Val_enc _ (by omega), b64Val_enc _ (by omega)]
    simp only [Option.bind_eq_bind, Option.bind_some, Option.pure_def, Option.some.injEq, List.cons.injEq, and_true]
    exact ofNat_toNat_mod x _ (by omega)
  | case3 x y =>
    have hx := x.toNat_lt
    have hy := y.toNat_lt
    simp only [b64Encode, b64Quads, List.isEmpty_nil, Bool.true_and, beq_self_eq_true, if_true]
    rw [b64Enc_ne_pad _ (by omega)]
    simp only [Bool.false_eq_true, if_false]
    rw [b64Val_enc _ (by omega), b64Val_enc _ (by omega), b64Val_enc _ (by omega)]
    simp only [Option.bind_eq_bind, Option.bind_some, Option.pure_def, Option.some.injEq, List.cons.injEq, and_true]
    exact ⟨ofNat_toNat_mod x _ (by omega), ofNat_toNat_mod y _ (by omega)⟩
  | case4 x y z rest ih =>
    have hx := x.toNat_lt
    have hy := y.toNat_lt
    have hz := z.toNat_lt
    simp only [b64Encode, b64Quads]
    rw [b64Enc_ne_pad (z.toNat % 64) (by omega)]
    simp only [Bool.and_false, Bool.false_eq_true, if_false]
    rw [b64Val_enc _ (by omega), b64Val_enc _ (by omega), b64Val_enc _ (by omega), b64Val_enc _ (by omega), ih]
    simp only [Option.bind_eq_bind, Option.bind_some, Option.pure_def, Option.some.injEq, List.cons.injEq, and_true]
    exact ⟨ofNat_toNat_mod x _ (by omega), ofNat_toNat_mod y _ (by omega), ofNat_toNat_mod z _ (by omega)⟩

theorem b64Encode_keep (bs : Bytes) : ∀ c ∈ b64Encode bs, (c != 10 && c != 13) = true := by
  induction bs using b64Encode.induct with
  | case1 => simp [b64Encode]
  | case2 x =>
    have hx := x.toNat_lt
    intro c hc
    simp only [b64Encode, List.mem_cons, List.not_mem_nil, or_false] at hc
    rcases hc with rfl | rfl | rfl | rfl
    · exact b64Enc_keep _ (by omega)
    · exact b64Enc_keep _ (by omega)
    · decide
    · decide
  | case3 x y =>
    have hx := x.toNat_lt
    have hy := y.toNat_lt
    intro c hc
    simp only [b64Encode, List.mem_cons, List.not_mem_nil, or_false] at hc
    rcases hc with rfl | rfl | rfl | rfl
    · exact b64Enc_keep _ (by omega)
    · exact b64Enc_keep _ (by omega)
    · exact b64Enc_keep _ (by omega)
    · decide
  | case4 x y z rest ih =>
    have hx := x.toNat_lt
    have hy := y.toNat_lt
    have hz := z.toNat_lt
    intro c hc
    simp only [b64Encode, List.mem_cons] at hc
    rcases hc with rfl | rfl | rfl | rfl | hc
    · exact b64Enc_keep _ (by omega)
    · exact b64Enc_keep _ (by omega)
    · exact b64Enc_keep _ (by omega)
    · exact b64Enc_keep _ (by omega)
    · exact ih c hc

/-- decoding what the standard encoder produced gives the bytes back -/
theorem b64Decode_encode (bs : Bytes) : b64Decode (b64Encode bs) = some bs := by
  unfold b64Decode
  rw [List.filter_eq_self.mpr (b64Encode_keep bs)]
  exact b64Quads_encode bs

theorem basicRunFrom_eq_map (creds : List (String × String)) (s : Unit) (mds : List MD) :
    basicRunFrom creds s mds = mds.map (basicValidate creds) := by
  induction mds with
  | nil => rfl
  | cons m ms ih => simp [basicRunFrom, ih]

end Grip.Props.C05Access.Lemmas
