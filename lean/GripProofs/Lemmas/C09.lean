/-
  Lemmas for C09: insertion sort keeps membership, the facts of the SPEC state, the loops of the
  MODEL (`addLoop`, `removeLoop`) as set operations on the entry family.
-/
import Grip.Model.C09
import Grip.Spec.C09

namespace Grip.Props.C09.Lemmas
open Grip Grip.C09

theorem mem_insertBy {α} (le : α → α → Bool) (x y : α) (l : List α) :
    y ∈ insertBy le x l ↔ y = x ∨ y ∈ l := by
  induction l with
  | nil => simp [insertBy]
  | cons z zs ih =>
    simp only [insertBy]
    split
    · simp
    · simp [ih]; grind

theorem mem_sortBy {α} (le : α → α → Bool) (y : α) (l : List α) : y ∈ sortBy le l ↔ y ∈ l := by
  induction l with
  | nil => simp [sortBy]
  | cons z zs ih => simp [sortBy, mem_insertBy, ih]

def mk (d : String) (q : String × Term) : EKey := ⟨q.1, q.2, d⟩

theorem mem_facts (s : Spec.Live) (e : EKey) :
    e ∈ Spec.facts s ↔ ∃ p ∈ s.docs, (e.f, e.t) ∈ p.2 ∧ e.d = p.1 := by
  simp only [Spec.facts, List.mem_flatMap, List.mem_map]
  constructor
  · rintro ⟨p, hp, q, hq, rfl⟩
    exact ⟨p, hp, hq, rfl⟩
  · rintro ⟨p, hp, hq, hd⟩
    refine ⟨p, hp, (e.f, e.t), hq, ?_⟩
    cases e; simp_all

theorem lookup_delDoc (ds : List (String × List EKey)) (d d' : String) :
    (delDoc ds d).lookup d' = if d' = d then none else ds.lookup d' := by
  induction ds with
  | nil => simp [delDoc]
  | cons p ps ih =>
    obtain ⟨k, l⟩ := p
    simp only [delDoc] at ih ⊢
    by_cases hk : k = d
    · subst hk
      simp only [List.filter, ne_eq, not_true_eq_false, decide_false]
      rw [ih]
      by_cases h : d' = k
      · simp [h]
      · have hb : (d' == k) = false := by simpa using h
        simp [h, List.lookup_cons, hb]
    · simp only [List.filter, ne_eq, hk, not_false_eq_true, decide_true, List.lookup_cons]
      rw [ih]
      by_cases h : d' = k
      · subst h; simp [hk]
      · have hb : (d' == k) = false := by simpa using h
        simp only [hb]

theorem lookup_mem {ds : List (String × List EKey)} {d : String} {l : List EKey}
    (h : ds.lookup d = some l) : (d, l) ∈ ds := by
  induction ds with
  | nil => simp at h
  | cons p ps ih =>
    obtain ⟨k, l'⟩ := p
    simp only [List.lookup_cons] at h
    by_cases hk : d = k
    · subst hk; simp at h; subst h; simp
    · have : (d == k) = false := by simpa using hk
      rw [this] at h
      exact List.mem_cons_of_mem _ (ih h)

theorem lookup_none_iff (ds : List (String × List EKey)) (d : String) :
    ds.lookup d = none ↔ ∀ p ∈ ds, p.1 ≠ d := by
  induction ds with
  | nil => simp
  | cons p ps ih =>
    obtain ⟨k, l'⟩ := p
    simp only [List.lookup_cons]
    by_cases hk : d = k
    · subst hk; simp
    · have : (d == k) = false := by simpa using hk
      rw [this]; simp [ih]; intro _; exact fun h => hk h.symm

/-- `removeLoop`, when it commits, deletes from the entry family exactly the listed keys. -/
theorem removeLoop_entries (l : List EKey) :
    ∀ (ts : List (TKey × Nat)) (es : List EKey) ts' es',
      removeLoop l (ts, es) = some (ts', es') → ∀ e, e ∈ es' ↔ e ∈ es ∧ e ∉ l := by
  induction l with
  | nil => intro ts es ts' es' h e; simp [removeLoop] at h; simp [h.2]
  | cons ek l ih =>
    intro ts es ts' es' h e
    simp only [removeLoop] at h
    cases hs : removeEntryStep (ts, es) ek with
    | none => simp [hs] at h
    | some acc =>
      obtain ⟨ts1, es1⟩ := acc
      simp only [hs] at h
      have h1 := ih ts1 es1 ts' es' h e
      -- what one step does to the entries
      have hes : ∀ x, x ∈ es1 ↔ x ∈ es ∧ x ≠ ek := by
        intro x
        simp only [removeEntryStep] at hs
        by_cases hm : ek ∈ es
        · simp only [hm, if_true] at hs
          cases hc : termGetCount ts es (ek.f, ek.t) with
          | none => simp [hc] at hs
          | some r =>
            obtain ⟨ts2, c⟩ := r
            simp only [hc] at hs
            split at hs <;> split at hs <;> (injection hs with hs; injection hs with _ hs; rw [← hs]; simp [delEntry])
        · simp only [hm, if_false] at hs
          simp only [Option.some.injEq, Prod.mk.injEq] at hs
          rw [← hs.2]
          constructor
          · intro hx; exact ⟨hx, fun h => hm (h ▸ hx)⟩
          · exact fun hx => hx.1
      rw [h1, hes]
      simp only [List.mem_cons, not_or, ne_eq, and_assoc]

/-- `addLoop` against `Spec.project`: it fails exactly when the projection is rejected, and
    otherwise adds exactly the projected facts to the entry family and lists them. -/
theorem addLoop_project (doc : JV) (d : String) (fs : List String) :
    ∀ (ts : List (TKey × Nat)) (es l : List EKey),
      match Spec.project doc fs with
      | none => addLoop doc d fs (ts, es, l) = none
      | some pr => ∃ ts' es', addLoop doc d fs (ts, es, l) = some (ts', es', l ++ pr.map (mk d)) ∧
          ∀ e, e ∈ es' ↔ e ∈ es ∨ e ∈ pr.map (mk d) := by
  induction fs with
  | nil => intro ts es l; exact ⟨ts, es, by simp [Spec.project, addLoop], by simp⟩
  | cons f fs ih =>
    intro ts es l
    simp only [Spec.project, addLoop]
    cases hd : mapDig doc (f.splitOn ".") with
    | none => simpa using ih ts es l
    | some v =>
      simp only
      cases ht : termOf v with
      | none => simp
      | some t =>
        simp only
        have := ih (setTerm ts (f, t) 0) (setEntry es ⟨f, t, d⟩) (l ++ [⟨f, t, d⟩])
        cases hp : Spec.project doc fs with
        | none => simp only [hp] at this ⊢; exact this
        | some pr =>
          simp only [hp] at this ⊢
          obtain ⟨ts', es', h1, h2⟩ := this
          refine ⟨ts', es', ?_, ?_⟩
          · rw [h1]; simp [mk]
          · intro e
            rw [h2]
            simp only [setEntry, List.map_cons, List.mem_cons, mk]
            by_cases hm : (⟨f, t, d⟩ : EKey) ∈ es
            · simp only [hm, if_true]
              constructor
              · rintro (h | h); exact Or.inl h; exact Or.inr (Or.inr h)
              · rintro (h | h | h); exact Or.inl h; exact Or.inl (h ▸ hm); exact Or.inr h
            · simp only [hm, if_false, List.mem_cons]
              grind

end Grip.Props.C09.Lemmas
