/-
  Helper lemmas for C11.
-/
import Grip.Model.C11

namespace Grip.Props.C11.Lemmas
open Grip Grip.C11

theorem matchLoop_iff {κ : Type} [DecidableEq κ] : ∀ (q j : List κ), matchLoop q j = true ↔ j <+: q
  | _, [] => by cases ‹List κ› <;> simp [matchLoop]
  | [], _ :: _ => by simp [matchLoop]
  | q :: qs, j :: js => by
    simp only [matchLoop, Bool.and_eq_true, List.cons_prefix_cons, matchLoop_iff qs js]
    constructor
    · rintro ⟨h1, h2⟩
      by_cases e : q = j
      · exact ⟨e.symm, h2⟩
      · simp [e] at h1
    · rintro ⟨h1, h2⟩
      exact ⟨by simp [h1], h2⟩

theorem prefix_of_map_prefix {σ κ : Type} (h : σ → κ) (hinj : Function.Injective h) :
    ∀ (j q : List σ), j.map h <+: q.map h → j <+: q
  | [], _, _ => List.nil_prefix
  | _ :: _, [], hp => by simp at hp
  | a :: j, b :: q, hp => by
    simp only [List.map_cons, List.cons_prefix_cons] at hp
    have e : a = b := hinj hp.1
    subst e
    exact List.cons_prefix_cons.2 ⟨rfl, prefix_of_map_prefix h hinj j q hp.2⟩

end Grip.Props.C11.Lemmas
