/-
  Lemmas for C14 (filter meaning): negation push-down and agreement of the emitted filter's
  documented meaning with the core evaluation.

  After the two repairs of mongo/has_evaluator.go (`fix: the mongo compiler emits no filter MongoDB
  rejects`: and()/or() without members, within/without with a value that is not a list; and
  contains compiled to `$elemMatch`) the side conditions shrink:

  * push-down (`pushdown`) and validity (`valid`) need only `wellFormed` — every oneof set and no
    condition number outside the enum; no condition on the arguments, none on the member lists;
  * agreement is proved for BOTH polarities at once (`equiv_gen`) from a per-leaf statement, so the
    same induction serves `agree` (the model's predicate) and the wider `agreeW` below.
-/
import Grip.Model.C14

set_option linter.unusedSimpArgs false

namespace Grip.Props.C14.Lemmas
open Grip Grip.C08 Grip.C14

/-! ### Option algebra -/

theorem map_not_not (o : Option Bool) : (o.map (!·)).map (!·) = o := by
  cases o <;> simp

theorem orOpt_map_not (xs : List (Option Bool)) :
    orOpt (xs.map (Option.map (!·))) = (andOpt xs).map (!·) := by
  induction xs with
  | nil => rfl
  | cons x xs ih =>
    simp only [List.map_cons, orOpt, andOpt, ih]
    cases x <;> cases andOpt xs <;> simp

theorem andOpt_map_not (xs : List (Option Bool)) :
    andOpt (xs.map (Option.map (!·))) = (orOpt xs).map (!·) := by
  induction xs with
  | nil => rfl
  | cons x xs ih =>
    simp only [List.map_cons, orOpt, andOpt, ih]
    cases x <;> cases orOpt xs <;> simp

theorem evalOp_not (o : MOp) (v : JV) (h : o ≠ .empty) :
    evalOp (.not o) v = (evalOp o v).map (!·) := by
  cases o <;> simp_all [evalOp]

theorem opOf_ne_empty (c : Cond) (a : JV)
    (h : c ≠ .unset ∧ c ≠ .inside ∧ c ≠ .outside ∧ c ≠ .between) : opOf c a ≠ .empty := by
  cases c <;> simp_all [opOf]

/-! ### Well-formed expressions

  `translatable` (the model's predicate) additionally asks range operators to carry a list.  That
  was needed while a non-list range argument compiled to the empty filter under both polarities;
  since `rangeLimits`/`matchNone` it is not, and since the empty-`$and` repair nothing is asked of
  member lists either. -/

def leafWellFormed (c : Cond) : Bool :=
  match c with
  | .unset => false
  | _ => true

mutual
  /-- Every expression oneof is set and every condition is one the `switch` lists. -/
  def wellFormed : HasE → Bool
    | .cond _ c _ => leafWellFormed c
    | .and es => wellFormedList es
    | .or es => wellFormedList es
    | .not x => wellFormed x
    | .none => false
  def wellFormedList : List HasE → Bool
    | [] => true
    | x :: xs => wellFormed x && wellFormedList xs
end

theorem leafTranslatable_wellFormed (c : Cond) (a : JV) (h : leafTranslatable c a = true) :
    leafWellFormed c = true := by
  cases c <;> simp_all [leafTranslatable, leafWellFormed]

mutual
  theorem translatable_wellFormed : ∀ (e : HasE), translatable e = true → wellFormed e = true
    | .cond _ c a, h => by
      simp only [translatable] at h
      simp only [wellFormed]; exact leafTranslatable_wellFormed c a h
    | .and es, h => by
      simp only [translatable] at h
      simp only [wellFormed]; exact translatableList_wellFormed es h
    | .or es, h => by
      simp only [translatable] at h
      simp only [wellFormed]; exact translatableList_wellFormed es h
    | .not x, h => by
      simp only [translatable] at h
      simp only [wellFormed]; exact translatable_wellFormed x h
    | .none, h => by simp [translatable] at h
  theorem translatableList_wellFormed : ∀ (es : List HasE), translatableList es = true →
      wellFormedList es = true
    | [], _ => rfl
    | x :: xs, h => by
      simp only [translatableList, Bool.and_eq_true] at h
      simp [wellFormedList, translatable_wellFormed x h.1, translatableList_wellFormed xs h.2]
end

/-! ### Negation push-down -/

/-- matchNone(!not) is the complement of matchNone(not). -/
theorem matchNone_flip (d : Res) (n : Bool) :
    mEval d (if (!n) = true then MDoc.all else MDoc.nothing) =
      (mEval d (if n = true then MDoc.all else MDoc.nothing)).map (!·) := by
  cases n <;> simp [mEval]

theorem matchAll_flip (d : Res) (n : Bool) :
    mEval d (if (!n) = true then MDoc.nothing else MDoc.all) =
      (mEval d (if n = true then MDoc.nothing else MDoc.all)).map (!·) := by
  cases n <;> simp [mEval]

/-- `{key: {$not: expr}}` against `{key: expr}`. -/
theorem field_flip (d : Res) (k : String) (o : MOp) (n : Bool) (h : o ≠ .empty) :
    mEval d (.field k (if (!n) = true then .not o else o)) =
      (mEval d (.field k (if n = true then .not o else o))).map (!·) := by
  cases n
  · simp [mEval, evalOp_not _ _ h]
  · simp only [mEval, evalOp_not _ _ h, Bool.not_true, if_true, Bool.false_eq_true, if_false]
    exact (map_not_not _).symm

theorem convCond_flip (d : Res) (k : String) (c : Cond) (a : JV) (n : Bool)
    (h : opOf c a ≠ .empty) :
    mEval d (convCond k c a (!n)) = (mEval d (convCond k c a n)).map (!·) := by
  cases c
  case within =>
    simp only [convCond]
    cases isArr a
    · simpa using matchNone_flip d n
    · simpa using field_flip d k _ n h
  case without =>
    simp only [convCond]
    cases isArr a
    · simpa using matchAll_flip d n
    · simpa using field_flip d k _ n h
  all_goals exact field_flip d k _ n h

/-- and/or of the members, empty member lists included. -/
theorem junction_flip (d : Res) (isAnd n : Bool) (xs ys : List MDoc)
    (hl : mEvalList d ys = (mEvalList d xs).map (Option.map (!·)))
    (he : ys.isEmpty = xs.isEmpty) :
    mEval d (junction isAnd (!n) ys) = (mEval d (junction isAnd n xs)).map (!·) := by
  cases hx : xs.isEmpty
  · have hA : mEval d (.and ys) = (mEval d (.or xs)).map (!·) := by
      simp [mEval, he, hx, hl, andOpt_map_not]
    have hO : mEval d (.or ys) = (mEval d (.and xs)).map (!·) := by
      simp [mEval, he, hx, hl, orOpt_map_not]
    cases isAnd <;> cases n <;> simp [junction, he, hx, hA, hO]
  · cases isAnd <;> cases n <;> simp [junction, he, hx, mEval]

theorem convRange_flip (d : Res) (k : String) (c1 c2 : Cond) (isAnd : Bool) (a : JV) (n : Bool)
    (h1 : ∀ x, opOf c1 x ≠ .empty) (h2 : ∀ x, opOf c2 x ≠ .empty) :
    mEval d (convRange k c1 c2 isAnd a (!n)) = (mEval d (convRange k c1 c2 isAnd a n)).map (!·) := by
  have bad := matchNone_flip d n
  cases a with
  | arr xs =>
    match xs with
    | [] => simpa [convRange] using bad
    | [_] => simpa [convRange] using bad
    | [l, u] =>
      simp only [convRange]
      apply junction_flip
      · simp [mEvalList, convCond_flip d k c1 l n (h1 l), convCond_flip d k c2 u n (h2 u)]
      · rfl
    | _ :: _ :: _ :: _ => simpa [convRange] using bad
  | _ => simpa [convRange] using bad

theorem convertList_isEmpty (es : List HasE) (n : Bool) : (convertList es n).isEmpty = es.isEmpty := by
  cases es <;> simp [convertList]

/-- One leaf, every argument: push-down needs only a condition the `switch` lists. -/
theorem leaf_pushdown (d : Res) (k : String) (c : Cond) (a : JV) (n : Bool)
    (h : leafWellFormed c = true) :
    mEval d (convert (.cond k c a) (!n)) = (mEval d (convert (.cond k c a) n)).map (!·) := by
  cases c <;> simp only [convert]
  case inside => exact convRange_flip d k _ _ _ a n (by intro x; simp [opOf]) (by intro x; simp [opOf])
  case outside => exact convRange_flip d k _ _ _ a n (by intro x; simp [opOf]) (by intro x; simp [opOf])
  case between => exact convRange_flip d k _ _ _ a n (by intro x; simp [opOf]) (by intro x; simp [opOf])
  case unset => simp [leafWellFormed] at h
  all_goals exact convCond_flip d k _ a n (by simp [opOf])

mutual
  /-- Push-down for every polarity and every well-formed expression (any depth, any arguments, any
      member lists — empty ones included). -/
  theorem pushdown (d : Res) : ∀ (e : HasE) (n : Bool), wellFormed e = true →
      mEval d (convert e (!n)) = (mEval d (convert e n)).map (!·)
    | .cond k c a, n, h => by
      simp only [wellFormed] at h
      exact leaf_pushdown d k c a n h
    | .and es, n, h => by
      simp only [wellFormed] at h
      simp only [convert]
      exact junction_flip d true n _ _ (pushdownList d es n h) (by simp [convertList_isEmpty])
    | .or es, n, h => by
      simp only [wellFormed] at h
      simp only [convert]
      exact junction_flip d false n _ _ (pushdownList d es n h) (by simp [convertList_isEmpty])
    | .not x, n, h => by
      simp only [wellFormed] at h
      simp only [convert]
      exact pushdown d x (!n) h
    | .none, _, h => by simp [wellFormed] at h
  theorem pushdownList (d : Res) : ∀ (es : List HasE) (n : Bool), wellFormedList es = true →
      mEvalList d (convertList es (!n)) = (mEvalList d (convertList es n)).map (Option.map (!·))
    | [], _, _ => by simp [convertList, mEvalList]
    | x :: xs, n, h => by
      simp only [wellFormedList, Bool.and_eq_true] at h
      simp [convertList, mEvalList, pushdown d x n h.1, pushdownList d xs n h.2]
end

/-! ### The emitted filter is never refused -/

theorem andOpt_isSome (xs : List (Option Bool)) (h : ∀ x ∈ xs, x.isSome = true) :
    (andOpt xs).isSome = true := by
  induction xs with
  | nil => rfl
  | cons x xs ih =>
    have hx := h x (by simp)
    have hr := ih (fun y hy => h y (by simp [hy]))
    cases x <;> simp_all [andOpt]
    cases hq : andOpt xs <;> simp_all

theorem orOpt_isSome (xs : List (Option Bool)) (h : ∀ x ∈ xs, x.isSome = true) :
    (orOpt xs).isSome = true := by
  induction xs with
  | nil => rfl
  | cons x xs ih =>
    have hx := h x (by simp)
    have hr := ih (fun y hy => h y (by simp [hy]))
    cases x <;> simp_all [orOpt]
    cases hq : orOpt xs <;> simp_all

theorem junction_valid (d : Res) (isAnd n : Bool) (xs : List MDoc)
    (h : ∀ x ∈ mEvalList d xs, x.isSome = true) :
    (mEval d (junction isAnd n xs)).isSome = true := by
  cases hx : xs.isEmpty
  · cases isAnd <;> cases n <;>
      simp [junction, hx, mEval, andOpt_isSome _ h, orOpt_isSome _ h]
  · cases isAnd <;> cases n <;> simp [junction, hx, mEval]

theorem field_valid (d : Res) (k : String) (o : MOp) (n : Bool) (h : o ≠ .empty)
    (hv : (evalOp o (d k)).isSome = true) :
    (mEval d (.field k (if n = true then .not o else o))).isSome = true := by
  cases n
  · simpa [mEval] using hv
  · simp only [mEval, if_true, evalOp_not _ _ h]
    cases hq : evalOp o (d k) <;> simp_all

theorem convCond_valid (d : Res) (k : String) (c : Cond) (a : JV) (n : Bool)
    (h : c ≠ .unset ∧ c ≠ .inside ∧ c ≠ .outside ∧ c ≠ .between) :
    (mEval d (convCond k c a n)).isSome = true := by
  have hne := opOf_ne_empty c a h
  cases c
  case within =>
    simp only [convCond]
    cases ha : isArr a
    · cases n <;> simp [mEval]
    · simp only [if_true]
      apply field_valid d k _ n hne
      cases a <;> simp_all [isArr, opOf, evalOp]
  case without =>
    simp only [convCond]
    cases ha : isArr a
    · cases n <;> simp [mEval]
    · simp only [if_true]
      apply field_valid d k _ n hne
      cases a <;> simp_all [isArr, opOf, evalOp]
  case unset => simp at h
  case inside => simp at h
  case outside => simp at h
  case between => simp at h
  all_goals
    (simp only [convCond]
     apply field_valid d k _ n hne
     simp [opOf, evalOp])
  case contains => cases d k <;> simp

theorem convRange_valid (d : Res) (k : String) (c1 c2 : Cond) (isAnd : Bool) (a : JV) (n : Bool)
    (h1 : c1 ≠ .unset ∧ c1 ≠ .inside ∧ c1 ≠ .outside ∧ c1 ≠ .between)
    (h2 : c2 ≠ .unset ∧ c2 ≠ .inside ∧ c2 ≠ .outside ∧ c2 ≠ .between) :
    (mEval d (convRange k c1 c2 isAnd a n)).isSome = true := by
  have bad : (mEval d (if n = true then MDoc.all else MDoc.nothing)).isSome = true := by
    cases n <;> simp [mEval]
  cases a with
  | arr xs =>
    match xs with
    | [] => simpa [convRange] using bad
    | [_] => simpa [convRange] using bad
    | [l, u] =>
      simp only [convRange]
      apply junction_valid
      intro x hx
      simp only [mEvalList, List.mem_cons, List.not_mem_nil, or_false] at hx
      rcases hx with rfl | rfl
      · exact convCond_valid d k c1 l n h1
      · exact convCond_valid d k c2 u n h2
    | _ :: _ :: _ :: _ => simpa [convRange] using bad
  | _ => simpa [convRange] using bad

theorem leaf_valid (d : Res) (k : String) (c : Cond) (a : JV) (n : Bool)
    (h : leafWellFormed c = true) : (mEval d (convert (.cond k c a) n)).isSome = true := by
  cases c <;> simp only [convert]
  case inside => exact convRange_valid d k _ _ _ a n (by simp) (by simp)
  case outside => exact convRange_valid d k _ _ _ a n (by simp) (by simp)
  case between => exact convRange_valid d k _ _ _ a n (by simp) (by simp)
  case unset => simp [leafWellFormed] at h
  all_goals exact convCond_valid d k _ a n (by simp)

mutual
  /-- MongoDB accepts the filter emitted for any well-formed expression, whatever the polarity. -/
  theorem valid (d : Res) : ∀ (e : HasE) (n : Bool), wellFormed e = true →
      (mEval d (convert e n)).isSome = true
    | .cond k c a, n, h => by
      simp only [wellFormed] at h
      exact leaf_valid d k c a n h
    | .and es, n, h => by
      simp only [wellFormed] at h
      simp only [convert]
      exact junction_valid d true n _ (validList d es n h)
    | .or es, n, h => by
      simp only [wellFormed] at h
      simp only [convert]
      exact junction_valid d false n _ (validList d es n h)
    | .not x, n, h => by
      simp only [wellFormed] at h
      simp only [convert]
      exact valid d x (!n) h
    | .none, _, h => by simp [wellFormed] at h
  theorem validList (d : Res) : ∀ (es : List HasE) (n : Bool), wellFormedList es = true →
      ∀ x ∈ mEvalList d (convertList es n), x.isSome = true
    | [], _, _ => by simp [convertList, mEvalList]
    | y :: ys, n, h => by
      simp only [wellFormedList, Bool.and_eq_true] at h
      intro x hx
      simp only [convertList, mEvalList, List.mem_cons] at hx
      rcases hx with rfl | hx
      · exact valid d y n h.1
      · exact validList d ys n h.2 x hx
end

/-! ### The crash marker is never emitted -/

theorem junction_noCrash (isAnd n : Bool) (xs : List MDoc) (h : hasCrashList xs = false) :
    hasCrash (junction isAnd n xs) = false := by
  cases hx : xs.isEmpty <;> cases isAnd <;> cases n <;> simp [junction, hx, hasCrash, h]

theorem convCond_noCrash (k : String) (c : Cond) (a : JV) (n : Bool) :
    hasCrash (convCond k c a n) = false := by
  cases c <;> simp only [convCond]
  case within => cases isArr a <;> cases n <;> simp [hasCrash]
  case without => cases isArr a <;> cases n <;> simp [hasCrash]
  all_goals simp [hasCrash]

theorem convRange_noCrash (k : String) (c1 c2 : Cond) (isAnd : Bool) (a : JV) (n : Bool) :
    hasCrash (convRange k c1 c2 isAnd a n) = false := by
  have bad : hasCrash (if n = true then MDoc.all else MDoc.nothing) = false := by
    cases n <;> simp [hasCrash]
  cases a with
  | arr xs =>
    match xs with
    | [] => simpa [convRange] using bad
    | [_] => simpa [convRange] using bad
    | [l, u] =>
      simp only [convRange]
      apply junction_noCrash
      simp [hasCrashList, convCond_noCrash]
    | _ :: _ :: _ :: _ => simpa [convRange] using bad
  | _ => simpa [convRange] using bad

mutual
  /-- For every expression whatsoever. -/
  theorem noCrash : ∀ (e : HasE) (n : Bool), hasCrash (convert e n) = false
    | .cond k c a, n => by
      cases c <;> simp only [convert]
      case inside => exact convRange_noCrash ..
      case outside => exact convRange_noCrash ..
      case between => exact convRange_noCrash ..
      all_goals exact convCond_noCrash ..
    | .and es, n => by
      simp only [convert]; exact junction_noCrash _ _ _ (noCrashList es n)
    | .or es, n => by
      simp only [convert]; exact junction_noCrash _ _ _ (noCrashList es n)
    | .not x, n => by
      simp only [convert]; exact noCrash x (!n)
    | .none, _ => by simp [convert, hasCrash]
  theorem noCrashList : ∀ (es : List HasE) (n : Bool), hasCrashList (convertList es n) = false
    | [], _ => by simp [convertList, hasCrashList]
    | x :: xs, n => by simp [convertList, hasCrashList, noCrash x n, noCrashList xs n]
end

/-! ### Agreement with the core evaluation: the tree induction, for both polarities -/

theorem andOpt_some (bs : List Bool) : andOpt (bs.map some) = some (allTrue bs) := by
  induction bs with
  | nil => rfl
  | cons b bs ih => cases b <;> simp [andOpt, allTrue, ih]

theorem orOpt_some (bs : List Bool) : orOpt (bs.map some) = some (anyTrue bs) := by
  induction bs with
  | nil => rfl
  | cons b bs ih => cases b <;> simp [orOpt, anyTrue, ih]

theorem anyTrue_not (bs : List Bool) : anyTrue (bs.map (!·)) = !(allTrue bs) := by
  induction bs with
  | nil => rfl
  | cons b bs ih => cases b <;> simp [anyTrue, allTrue, ih]

theorem allTrue_not (bs : List Bool) : allTrue (bs.map (!·)) = !(anyTrue bs) := by
  induction bs with
  | nil => rfl
  | cons b bs ih => cases b <;> simp [anyTrue, allTrue, ih]

/-- What a polarity does to the core answer. -/
def pol (n b : Bool) : Bool := b != n

theorem junction_equiv (d : Res) (isAnd n : Bool) (xs : List MDoc) (bs : List Bool)
    (hl : mEvalList d xs = bs.map (fun b => some (pol n b)))
    (he : xs.isEmpty = bs.isEmpty) :
    mEval d (junction isAnd n xs) = some (pol n (if isAnd then allTrue bs else anyTrue bs)) := by
  cases hb : bs.isEmpty
  · have e0 : bs.map (fun b => some (pol false b)) = bs.map some := by
      apply List.map_congr_left; intro b _; cases b <;> rfl
    have e1 : bs.map (fun b => some (pol true b)) = (bs.map (!·)).map some := by
      rw [List.map_map]; apply List.map_congr_left; intro b _; cases b <;> rfl
    cases isAnd <;> cases n <;>
      simp only [junction, he, hb, mEval, hl, e0, e1, andOpt_some, orOpt_some, anyTrue_not, allTrue_not,
        bne_self_eq_false, Bool.false_eq_true, if_false, if_true, Bool.true_bne, Bool.false_bne,
        Bool.not_true, Bool.not_false] <;>
      simp [pol]
  · have : bs = [] := by cases bs <;> simp_all
    subst this
    cases isAnd <;> cases n <;> simp [junction, he, mEval, allTrue, anyTrue, pol]

mutual
  /-- A leaf predicate holds at every condition, and every oneof is set. -/
  def allLeaves (p : String → Cond → JV → Bool) : HasE → Bool
    | .cond k c a => p k c a
    | .and es => allLeavesList p es
    | .or es => allLeavesList p es
    | .not x => allLeaves p x
    | .none => false
  def allLeavesList (p : String → Cond → JV → Bool) : List HasE → Bool
    | [] => true
    | x :: xs => allLeaves p x && allLeavesList p xs
end

theorem evalList_isEmpty (numOf : String → Option Int) (d : Res) (es : List HasE) :
    (evalByList numOf d es).isEmpty = es.isEmpty := by
  cases es <;> simp [evalByList]

mutual
  /-- If every leaf is compiled to a filter that answers what the core engine answers, under both
      polarities, then so is the whole expression, under both polarities. -/
  theorem equiv_gen (numOf : String → Option Int) (d : Res) (p : String → Cond → JV → Bool)
      (hp : ∀ k c a, p k c a = true → ∀ n,
        mEval d (convert (.cond k c a) n) = some (pol n (matchesCond numOf (d k) c a))) :
      ∀ (e : HasE) (n : Bool), allLeaves p e = true →
        mEval d (convert e n) = some (pol n (evalBy numOf d e))
    | .cond k c a, n, h => by
      simp only [allLeaves] at h
      simp only [evalBy]
      exact hp k c a h n
    | .and es, n, h => by
      simp only [allLeaves] at h
      simp only [convert, evalBy]
      exact junction_equiv d true n _ _ (equiv_genList numOf d p hp es n h)
        (by simp [convertList_isEmpty, evalList_isEmpty])
    | .or es, n, h => by
      simp only [allLeaves] at h
      simp only [convert, evalBy]
      exact junction_equiv d false n _ _ (equiv_genList numOf d p hp es n h)
        (by simp [convertList_isEmpty, evalList_isEmpty])
    | .not x, n, h => by
      simp only [allLeaves] at h
      simp only [convert, evalBy, equiv_gen numOf d p hp x (!n) h]
      cases n <;> cases evalBy numOf d x <;> rfl
    | .none, _, h => by simp [allLeaves] at h
  theorem equiv_genList (numOf : String → Option Int) (d : Res) (p : String → Cond → JV → Bool)
      (hp : ∀ k c a, p k c a = true → ∀ n,
        mEval d (convert (.cond k c a) n) = some (pol n (matchesCond numOf (d k) c a))) :
      ∀ (es : List HasE) (n : Bool), allLeavesList p es = true →
        mEvalList d (convertList es n) = (evalByList numOf d es).map (fun b => some (pol n b))
    | [], _, _ => by simp [convertList, mEvalList, evalByList]
    | x :: xs, n, h => by
      simp only [allLeavesList, Bool.and_eq_true] at h
      simp [convertList, mEvalList, evalByList, equiv_gen numOf d p hp x n h.1,
        equiv_genList numOf d p hp xs n h.2]
end

/-! ### The leaves -/

theorem isNumPair_form {a : JV} (h : isNumPair a = true) : ∃ lo hi, a = .arr [.num lo, .num hi] := by
  unfold isNumPair at h
  split at h
  · rename_i l u
    cases l <;> cases u <;> simp [isNumJ] at h
    exact ⟨_, _, rfl⟩
  · simp at h

theorem isNumJ_form {a : JV} (h : isNumJ a = true) : ∃ b, a = .num b := by
  cases a <;> simp [isNumJ] at h
  exact ⟨_, rfl⟩

theorem isArr_form {a : JV} (h : isArr a = true) : ∃ xs, a = .arr xs := by
  cases a <;> simp [isArr] at h
  exact ⟨_, rfl⟩

theorem junction_tf (x y : MDoc) : junction true false [x, y] = .and [x, y] := by simp [junction]
theorem junction_ff (x y : MDoc) : junction false false [x, y] = .or [x, y] := by simp [junction]
theorem mEval_and2 (d : Res) (k : String) (o1 o2 : MOp) :
    mEval d (.and [.field k o1, .field k o2]) = andOpt [evalOp o1 (d k), evalOp o2 (d k)] := by
  simp [mEval, mEvalList]
theorem mEval_or2 (d : Res) (k : String) (o1 o2 : MOp) :
    mEval d (.or [.field k o1, .field k o2]) = orOpt [evalOp o1 (d k), evalOp o2 (d k)] := by
  simp [mEval, mEvalList]

/-- contains, EVERY field value (scalar, list, object, missing), every argument, both polarities:
    `$elemMatch: {$eq: a}` selects exactly the documents whose field is a list with an element
    equal to `a` — the loop of MatchesCondition. -/
theorem leaf_contains (numOf : String → Option Int) (d : Res) (k : String) (a : JV) (n : Bool) :
    mEval d (convert (.cond k .contains a) n) = some (pol n (matchesCond numOf (d k) .contains a)) := by
  cases n <;> simp only [convert, convCond, mEval, opOf, if_true, Bool.false_eq_true, if_false] <;>
    cases d k <;> simp [evalOp, matchesCond, pol]

/-- within / without whose argument is not a list: every field value, both polarities. -/
theorem leaf_within_nonlist (numOf : String → Option Int) (d : Res) (k : String) (a : JV) (n : Bool)
    (ha : isArr a = false) :
    mEval d (convert (.cond k .within a) n) = some (pol n (matchesCond numOf (d k) .within a)) := by
  cases a <;> simp [isArr] at ha <;> cases n <;> simp [convert, convCond, isArr, mEval, matchesCond, pol]

theorem leaf_without_nonlist (numOf : String → Option Int) (d : Res) (k : String) (a : JV) (n : Bool)
    (ha : isArr a = false) :
    mEval d (convert (.cond k .without a) n) = some (pol n (matchesCond numOf (d k) .without a)) := by
  cases a <;> simp [isArr] at ha <;> cases n <;> simp [convert, convCond, isArr, mEval, matchesCond, pol]

/-- A range argument that is a list of exactly two values. -/
def twoBounds : JV → Bool
  | .arr [_, _] => true
  | _ => false

theorem twoBounds_false {a : JV} (h : twoBounds a = false) : ∀ l u, a ≠ .arr [l, u] := by
  intro l u e; subst e; simp [twoBounds] at h

def isRange (c : Cond) : Bool :=
  match c with
  | .inside | .outside | .between => true
  | _ => false

/-- inside / outside / between whose argument is not a list of two values: every field value, both
    polarities (matchNone(not) against the early `return false` of MatchesCondition). -/
theorem leaf_range_malformed (numOf : String → Option Int) (d : Res) (k : String) (c : Cond)
    (a : JV) (n : Bool) (hc : c = .inside ∨ c = .outside ∨ c = .between)
    (ha : ∀ l u, a ≠ .arr [l, u]) :
    mEval d (convert (.cond k c a) n) = some (pol n (matchesCond numOf (d k) c a)) := by
  have hcore : matchesCond numOf (d k) c a = false := by
    rcases hc with rfl | rfl | rfl <;> simp only [matchesCond, range3] <;>
      (cases a with
       | arr xs =>
         simp only [toSlice]
         match xs, ha with
         | [], _ => rfl
         | [_], _ => rfl
         | [l, u], ha => exact absurd rfl (ha l u)
         | _ :: _ :: _ :: _, _ => rfl
       | _ => rfl)
  have hconv : ∀ c1 c2 isAnd, convRange k c1 c2 isAnd a n = if n then MDoc.all else MDoc.nothing := by
    intro c1 c2 isAnd
    cases a with
    | arr xs =>
      match xs, ha with
      | [], _ => rfl
      | [_], _ => rfl
      | [l, u], ha => exact absurd rfl (ha l u)
      | _ :: _ :: _ :: _, _ => rfl
    | _ => rfl
  rw [hcore]
  rcases hc with rfl | rfl | rfl <;> simp only [convert, hconv] <;> cases n <;> rfl

/-- The leaf case in the model's agreeing region, polarity `false`. -/
theorem leaf_equiv (numOf : String → Option Int) (d : Res) (k : String) (c : Cond) (a : JV)
    (h : leafAgree numOf (d k) c a = true) :
    mEval d (convert (.cond k c a) false) = some (matchesCond numOf (d k) c a) := by
  unfold leafAgree at h
  simp only [Bool.and_eq_true] at h
  obtain ⟨hs, h⟩ := h
  cases c
  case within =>
    cases ha : isArr a
    · simpa [pol] using leaf_within_nonlist numOf d k a false ha
    · obtain ⟨xs, rfl⟩ := isArr_form ha
      simp [convert, convCond, isArr, mEval, opOf, evalOp, matchesCond]
  case without =>
    cases ha : isArr a
    · simpa [pol] using leaf_without_nonlist numOf d k a false ha
    · obtain ⟨xs, rfl⟩ := isArr_form ha
      simp [convert, convCond, isArr, mEval, opOf, evalOp, matchesCond]
  case contains => simpa [pol] using leaf_contains numOf d k a false
  all_goals
    simp only [convert, convCond, mEval, opOf, Bool.false_eq_true, if_false]
    simp only [Bool.and_eq_true] at h
  case eq => simp [evalOp, matchesCond]
  case neq => simp [evalOp, matchesCond]
  case gt =>
    obtain ⟨b, rfl⟩ := isNumJ_form h.1
    generalize d k = v at hs h
    cases v <;> simp_all [isScalar, notNumText, evalOp, isGt, ordLt, matchesCond, cmp2, toNum]
  case gte =>
    obtain ⟨b, rfl⟩ := isNumJ_form h.1
    generalize d k = v at hs h
    cases v <;> simp_all [isScalar, notNumText, evalOp, isGt, isEq, ordLt, ordEq, matchesCond, cmp2, toNum]
    all_goals (first | omega | (rw [Bool.eq_iff_iff]; simp; omega))
  case lt =>
    obtain ⟨b, rfl⟩ := isNumJ_form h.1
    generalize d k = v at hs h
    cases v <;> simp_all [isScalar, notNumText, evalOp, isLt, ordLt, matchesCond, cmp2, toNum]
  case lte =>
    obtain ⟨b, rfl⟩ := isNumJ_form h.1
    generalize d k = v at hs h
    cases v <;> simp_all [isScalar, notNumText, evalOp, isLt, isEq, ordLt, ordEq, matchesCond, cmp2, toNum]
    all_goals (first | omega | (rw [Bool.eq_iff_iff]; simp; omega))
  case inside =>
    obtain ⟨lo, hi, rfl⟩ := isNumPair_form h.1
    simp only [convRange, junction_tf, junction_ff, convCond, opOf, Bool.false_eq_true, if_false,
      mEval_and2, mEval_or2]
    generalize d k = v at hs h ⊢
    cases v <;> simp_all [isScalar, notNumText, andOpt,
      evalOp, isGt, isLt, ordLt, matchesCond, range3, toSlice, toNum]
  case outside =>
    obtain ⟨lo, hi, rfl⟩ := isNumPair_form h.1
    simp only [convRange, junction_tf, junction_ff, convCond, opOf, Bool.false_eq_true, if_false,
      mEval_and2, mEval_or2]
    generalize d k = v at hs h ⊢
    cases v <;> simp_all [isScalar, notNumText, orOpt,
      evalOp, isGt, isLt, ordLt, matchesCond, range3, toSlice, toNum]
  case between =>
    obtain ⟨lo, hi, rfl⟩ := isNumPair_form h.1
    simp only [convRange, junction_tf, junction_ff, convCond, opOf, Bool.false_eq_true, if_false,
      mEval_and2, mEval_or2]
    generalize d k = v at hs h ⊢
    cases v <;> simp_all [isScalar, notNumText, andOpt,
      evalOp, isGt, isLt, isEq, ordLt, ordEq, matchesCond, range3, toSlice, toNum]
    all_goals (first | omega | (rw [Bool.eq_iff_iff]; simp; omega))
  case unset => simp at h

theorem leafAgree_wellFormed (numOf : String → Option Int) (v : JV) (c : Cond) (a : JV)
    (h : leafAgree numOf v c a = true) : leafWellFormed c = true := by
  cases c <;> simp_all [leafAgree, leafWellFormed]

/-- …and under both polarities (the other one by push-down on the leaf). -/
theorem leaf_equiv_pol (numOf : String → Option Int) (d : Res) (k : String) (c : Cond) (a : JV)
    (h : leafAgree numOf (d k) c a = true) (n : Bool) :
    mEval d (convert (.cond k c a) n) = some (pol n (matchesCond numOf (d k) c a)) := by
  have h0 := leaf_equiv numOf d k c a h
  cases n
  · rw [h0]; simp [pol]
  · have hp := leaf_pushdown d k c a false (leafAgree_wellFormed numOf _ c a h)
    simp only [Bool.not_false] at hp
    rw [hp, h0]; simp [pol]

/-! ### The model's predicate `agree`, and a wider one -/

/-- `leafAgree` or one of the leaves that agree on EVERY field value (scalar or not): contains;
    within/without with a non-list argument; a range operator whose argument is not a list of two
    values. -/
def leafAgreeW (numOf : String → Option Int) (v : JV) (c : Cond) (a : JV) : Bool :=
  leafAgree numOf v c a ||
  match c with
  | .contains => true
  | .within | .without => !isArr a
  | .inside | .outside | .between => !twoBounds a
  | _ => false

mutual
  def agreeW (numOf : String → Option Int) (d : Res) : HasE → Bool
    | .cond k c a => leafAgreeW numOf (d k) c a
    | .and es => agreeWList numOf d es
    | .or es => agreeWList numOf d es
    | .not x => agreeW numOf d x
    | .none => false
  def agreeWList (numOf : String → Option Int) (d : Res) : List HasE → Bool
    | [] => true
    | x :: xs => agreeW numOf d x && agreeWList numOf d xs
end

theorem leafW_equiv_pol (numOf : String → Option Int) (d : Res) (k : String) (c : Cond) (a : JV)
    (h : leafAgreeW numOf (d k) c a = true) (n : Bool) :
    mEval d (convert (.cond k c a) n) = some (pol n (matchesCond numOf (d k) c a)) := by
  unfold leafAgreeW at h
  rw [Bool.or_eq_true] at h
  rcases h with h | h
  · exact leaf_equiv_pol numOf d k c a h n
  · cases c <;> simp only [Bool.false_eq_true, Bool.not_eq_true'] at h
    case contains => exact leaf_contains numOf d k a n
    case within => exact leaf_within_nonlist numOf d k a n h
    case without => exact leaf_without_nonlist numOf d k a n h
    case inside => exact leaf_range_malformed numOf d k _ a n (by simp) (twoBounds_false h)
    case outside => exact leaf_range_malformed numOf d k _ a n (by simp) (twoBounds_false h)
    case between => exact leaf_range_malformed numOf d k _ a n (by simp) (twoBounds_false h)

mutual
  theorem agreeW_allLeaves (numOf : String → Option Int) (d : Res) : ∀ (e : HasE),
      agreeW numOf d e = allLeaves (fun k c a => leafAgreeW numOf (d k) c a) e
    | .cond _ _ _ => by simp [agreeW, allLeaves]
    | .and es => by simp only [agreeW, allLeaves]; exact agreeWList_allLeaves numOf d es
    | .or es => by simp only [agreeW, allLeaves]; exact agreeWList_allLeaves numOf d es
    | .not x => by simp only [agreeW, allLeaves]; exact agreeW_allLeaves numOf d x
    | .none => by simp [agreeW, allLeaves]
  theorem agreeWList_allLeaves (numOf : String → Option Int) (d : Res) : ∀ (es : List HasE),
      agreeWList numOf d es = allLeavesList (fun k c a => leafAgreeW numOf (d k) c a) es
    | [] => rfl
    | x :: xs => by
      simp only [agreeWList, allLeavesList, agreeW_allLeaves numOf d x, agreeWList_allLeaves numOf d xs]
end

mutual
  theorem agree_agreeW (numOf : String → Option Int) (d : Res) : ∀ (e : HasE),
      agree numOf d e = true → agreeW numOf d e = true
    | .cond _ _ _, h => by simp only [agree] at h; simp [agreeW, leafAgreeW, h]
    | .and es, h => by
      simp only [agree] at h; simp only [agreeW]; exact agreeList_agreeW numOf d es h
    | .or es, h => by
      simp only [agree] at h; simp only [agreeW]; exact agreeList_agreeW numOf d es h
    | .not x, h => by
      simp only [agree] at h; simp only [agreeW]; exact agree_agreeW numOf d x h
    | .none, h => by simp [agree] at h
  theorem agreeList_agreeW (numOf : String → Option Int) (d : Res) : ∀ (es : List HasE),
      agreeList numOf d es = true → agreeWList numOf d es = true
    | [], _ => rfl
    | x :: xs, h => by
      simp only [agreeList, Bool.and_eq_true] at h
      simp [agreeWList, agree_agreeW numOf d x h.1, agreeList_agreeW numOf d xs h.2]
end

/-- Agreement in the wide region, both polarities, any depth. -/
theorem equivW (numOf : String → Option Int) (d : Res) (e : HasE) (n : Bool)
    (h : agreeW numOf d e = true) :
    mEval d (convert e n) = some (pol n (evalBy numOf d e)) := by
  rw [agreeW_allLeaves] at h
  exact equiv_gen numOf d _ (fun k c a hk m => leafW_equiv_pol numOf d k c a hk m) e n h

/-- Agreement in the model's region `agree`, both polarities, any depth. -/
theorem equiv (numOf : String → Option Int) (d : Res) (e : HasE) (n : Bool)
    (h : agree numOf d e = true) :
    mEval d (convert e n) = some (pol n (evalBy numOf d e)) :=
  equivW numOf d e n (agree_agreeW numOf d e h)

mutual
  theorem agreeW_wellFormed (numOf : String → Option Int) (d : Res) : ∀ (e : HasE),
      agreeW numOf d e = true → wellFormed e = true
    | .cond k c a, h => by
      simp only [agreeW] at h
      simp only [wellFormed]
      cases c <;> simp_all [leafAgreeW, leafAgree, leafWellFormed]
    | .and es, h => by
      simp only [agreeW] at h
      simp only [wellFormed]; exact agreeWList_wellFormed numOf d es h
    | .or es, h => by
      simp only [agreeW] at h
      simp only [wellFormed]; exact agreeWList_wellFormed numOf d es h
    | .not x, h => by
      simp only [agreeW] at h
      simp only [wellFormed]; exact agreeW_wellFormed numOf d x h
    | .none, h => by simp [agreeW] at h
  theorem agreeWList_wellFormed (numOf : String → Option Int) (d : Res) : ∀ (es : List HasE),
      agreeWList numOf d es = true → wellFormedList es = true
    | [], _ => rfl
    | x :: xs, h => by
      simp only [agreeWList, Bool.and_eq_true] at h
      simp [wellFormedList, agreeW_wellFormed numOf d x h.1, agreeWList_wellFormed numOf d xs h.2]
end

/-! ### The driver's classification: no reason named ⇒ inside the wide region -/

theorem leafWhy_none (numOf : String → Option Int) (v : JV) (c : Cond) (a : JV)
    (h : leafWhy numOf v c a = none) : leafAgreeW numOf v c a = true := by
  unfold leafWhy at h
  cases hs : isScalar v
  · simp [hs] at h
  · simp only [hs, Bool.not_true, Bool.false_eq_true, if_false] at h
    cases c <;> simp only [leafAgreeW, leafAgree, hs, Bool.true_and] <;> simp only [] at h
    case unset => simp at h
    case inside | outside | between =>
      split at h
      · rename_i l u
        split at h
        · rename_i hq
          simp only [Bool.and_eq_true] at hq
          simp [isNumPair, twoBounds, hq.1.1, hq.1.2, hq.2]
        · simp at h
      · rename_i hne
        have : twoBounds a = false := by
          cases hq : twoBounds a
          · rfl
          · exfalso
            unfold twoBounds at hq
            split at hq
            · rename_i l u; exact hne l u rfl
            · simp at hq
        simp [this]
    case gt | gte | lt | lte =>
      split at h
      · rename_i hq; simp [hq]
      · simp at h
    all_goals simp

mutual
  theorem whys_nil (numOf : String → Option Int) (d : Res) : ∀ (e : HasE),
      whys numOf d e = [] → agreeW numOf d e = true
    | .cond k c a, h => by
      simp only [whys] at h
      simp only [agreeW]
      apply leafWhy_none
      cases hq : leafWhy numOf (d k) c a
      · rfl
      · simp [hq] at h
    | .and es, h => by
      simp only [whys] at h; simp only [agreeW]; exact whysList_nil numOf d es h
    | .or es, h => by
      simp only [whys] at h; simp only [agreeW]; exact whysList_nil numOf d es h
    | .not x, h => by
      simp only [whys] at h; simp only [agreeW]; exact whys_nil numOf d x h
    | .none, h => by simp [whys] at h
  theorem whysList_nil (numOf : String → Option Int) (d : Res) : ∀ (es : List HasE),
      whysList numOf d es = [] → agreeWList numOf d es = true
    | [], _ => rfl
    | x :: xs, h => by
      simp only [whysList, List.append_eq_nil_iff] at h
      simp [agreeWList, whys_nil numOf d x h.1, whysList_nil numOf d xs h.2]
end

end Grip.Props.C14.Lemmas
