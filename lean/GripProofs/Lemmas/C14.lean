/-
  Lemmas for C14 (filter meaning): negation push-down and agreement of the emitted filter's
  documented meaning with the core evaluation.
-/
import Grip.Model.C14

set_option linter.unusedSimpArgs false

namespace Grip.Props.C14.Lemmas
open Grip Grip.C08 Grip.C14

theorem map_not_not (o : Option Bool) : (o.map (!·)).map (!·) = o := by
  cases o <;> simp

theorem orOpt_map_not (xs : List (Option Bool)) :
    orOpt (xs.map (Option.map (!·))) = (andOpt xs).map (!·) := by
  induction xs with
  | nil => rfl
  | cons x xs ih =>
    simp only [List.map_cons, orOpt, andOpt, ih]
    cases x <;> cases andOpt xs <;> simp

theorem andOpt_map_not (xs : List (Option Bool)) :
    andOpt (xs.map (Option.map (!·))) = (orOpt xs).map (!·) := by
  induction xs with
  | nil => rfl
  | cons x xs ih =>
    simp only [List.map_cons, orOpt, andOpt, ih]
    cases x <;> cases orOpt xs <;> simp

theorem evalOp_not (o : MOp) (v : JV) (h : o ≠ .empty) :
    evalOp (.not o) v = (evalOp o v).map (!·) := by
  cases o <;> simp_all [evalOp]

theorem opOf_ne_empty (c : Cond) (a : JV)
    (h : c ≠ .unset ∧ c ≠ .inside ∧ c ≠ .outside ∧ c ≠ .between) : opOf c a ≠ .empty := by
  cases c <;> simp_all [opOf]

theorem convCond_flip (d : Elem) (k : String) (c : Cond) (a : JV) (n : Bool)
    (h : opOf c a ≠ .empty) :
    mEval d (convCond k c a (!n)) = (mEval d (convCond k c a n)).map (!·) := by
  cases n
  · simp [convCond, mEval, evalOp_not _ _ h]
  · simp only [convCond, mEval, evalOp_not _ _ h, Bool.not_true, if_true, Bool.false_eq_true, if_false]
    exact (map_not_not _).symm

theorem junction_flip (d : Elem) (isAnd n : Bool) (xs ys : List MDoc)
    (hl : mEvalList d ys = (mEvalList d xs).map (Option.map (!·)))
    (he : ys.isEmpty = xs.isEmpty) :
    mEval d (junction isAnd (!n) ys) = (mEval d (junction isAnd n xs)).map (!·) := by
  have hA : mEval d (.and ys) = (mEval d (.or xs)).map (!·) := by
    simp only [mEval, he, hl, andOpt_map_not]; cases xs.isEmpty <;> simp
  have hO : mEval d (.or ys) = (mEval d (.and xs)).map (!·) := by
    simp only [mEval, he, hl, orOpt_map_not]; cases xs.isEmpty <;> simp
  cases isAnd <;> cases n <;> simp [junction, hA, hO]

theorem convRange_flip (d : Elem) (k : String) (c1 c2 : Cond) (isAnd : Bool) (a : JV) (n : Bool)
    (h1 : ∀ x, opOf c1 x ≠ .empty) (h2 : ∀ x, opOf c2 x ≠ .empty) :
    mEval d (convRange k c1 c2 isAnd a (!n)) = (mEval d (convRange k c1 c2 isAnd a n)).map (!·) := by
  have bad : mEval d (if (!n) = true then MDoc.all else MDoc.nothing) =
      (mEval d (if n = true then MDoc.all else MDoc.nothing)).map (!·) := by
    cases n <;> simp [mEval]
  cases a with
  | arr xs =>
    match xs with
    | [] => simpa [convRange] using bad
    | [_] => simpa [convRange] using bad
    | [l, u] =>
      simp only [convRange]
      apply junction_flip
      · simp [mEvalList, convCond_flip d k c1 l n (h1 l), convCond_flip d k c2 u n (h2 u)]
      · rfl
    | _ :: _ :: _ :: _ => simpa [convRange] using bad
  | _ => simpa [convRange] using bad

theorem convertList_isEmpty (es : List HasE) (n : Bool) : (convertList es n).isEmpty = es.isEmpty := by
  cases es <;> simp [convertList]

mutual
  theorem pushdown (d : Elem) : ∀ (e : HasE) (n : Bool), translatable e = true →
      mEval d (convert e (!n)) = (mEval d (convert e n)).map (!·)
    | .cond k c a, n, h => by
      simp only [translatable] at h
      cases c <;> simp only [convert] <;> simp only [leafTranslatable] at h
      case inside => exact convRange_flip d k _ _ _ a n (by intro x; simp [opOf]) (by intro x; simp [opOf])
      case outside => exact convRange_flip d k _ _ _ a n (by intro x; simp [opOf]) (by intro x; simp [opOf])
      case between => exact convRange_flip d k _ _ _ a n (by intro x; simp [opOf]) (by intro x; simp [opOf])
      case unset => simp at h
      all_goals exact convCond_flip d k _ a n (by simp [opOf])
    | .and es, n, h => by
      simp only [translatable] at h
      simp only [convert]
      exact junction_flip d true n _ _ (pushdownList d es n h) (by simp [convertList_isEmpty])
    | .or es, n, h => by
      simp only [translatable] at h
      simp only [convert]
      exact junction_flip d false n _ _ (pushdownList d es n h) (by simp [convertList_isEmpty])
    | .not x, n, h => by
      simp only [translatable] at h
      simp only [convert]
      exact pushdown d x (!n) h
    | .none, _, h => by simp [translatable] at h
  theorem pushdownList (d : Elem) : ∀ (es : List HasE) (n : Bool), translatableList es = true →
      mEvalList d (convertList es (!n)) = (mEvalList d (convertList es n)).map (Option.map (!·))
    | [], _, _ => by simp [convertList, mEvalList]
    | x :: xs, n, h => by
      simp only [translatableList, Bool.and_eq_true] at h
      simp [convertList, mEvalList, pushdown d x n h.1, pushdownList d xs n h.2]
end

/-! ### agreement with the core evaluation -/

theorem andOpt_some (bs : List Bool) : andOpt (bs.map some) = some (allTrue bs) := by
  induction bs with
  | nil => rfl
  | cons b bs ih => cases b <;> simp [andOpt, allTrue, ih]

theorem orOpt_some (bs : List Bool) : orOpt (bs.map some) = some (anyTrue bs) := by
  induction bs with
  | nil => rfl
  | cons b bs ih => cases b <;> simp [orOpt, anyTrue, ih]

theorem leafAgree_translatable (numOf : String → Option Int) (v : JV) (c : Cond) (a : JV)
    (h : leafAgree numOf v c a = true) : leafTranslatable c a = true := by
  cases c <;> simp_all [leafAgree, leafTranslatable]
  all_goals
    (cases a <;> simp_all [isNumPair, isArr])

mutual
  theorem agree_translatable (numOf : String → Option Int) (d : Elem) : ∀ (e : HasE),
      agree numOf d e = true → translatable e = true
    | .cond k c a, h => by
      simp only [agree] at h
      simp only [translatable]
      exact leafAgree_translatable numOf _ c a h
    | .and es, h => by
      simp only [agree, Bool.and_eq_true] at h
      simp only [translatable]; exact agreeList_translatable numOf d es h.2
    | .or es, h => by
      simp only [agree, Bool.and_eq_true] at h
      simp only [translatable]; exact agreeList_translatable numOf d es h.2
    | .not x, h => by
      simp only [agree] at h
      simp only [translatable]; exact agree_translatable numOf d x h
    | .none, h => by simp [agree] at h
  theorem agreeList_translatable (numOf : String → Option Int) (d : Elem) : ∀ (es : List HasE),
      agreeList numOf d es = true → translatableList es = true
    | [], _ => rfl
    | x :: xs, h => by
      simp only [agreeList, Bool.and_eq_true] at h
      simp [translatableList, agree_translatable numOf d x h.1, agreeList_translatable numOf d xs h.2]
end

theorem isNumPair_form {a : JV} (h : isNumPair a = true) : ∃ lo hi, a = .arr [.num lo, .num hi] := by
  unfold isNumPair at h
  split at h
  · rename_i l u
    cases l <;> cases u <;> simp [isNumJ] at h
    exact ⟨_, _, rfl⟩
  · simp at h

theorem isNumJ_form {a : JV} (h : isNumJ a = true) : ∃ b, a = .num b := by
  cases a <;> simp [isNumJ] at h
  exact ⟨_, rfl⟩

theorem isArr_form {a : JV} (h : isArr a = true) : ∃ xs, a = .arr xs := by
  cases a <;> simp [isArr] at h
  exact ⟨_, rfl⟩

theorem junction_tf (xs : List MDoc) : junction true false xs = .and xs := by simp [junction]
theorem junction_ff (xs : List MDoc) : junction false false xs = .or xs := by simp [junction]
theorem mEval_and2 (d : Elem) (k : String) (o1 o2 : MOp) :
    mEval d (.and [.field k o1, .field k o2]) = andOpt [evalOp o1 (lookup d k), evalOp o2 (lookup d k)] := by
  simp [mEval, mEvalList]
theorem mEval_or2 (d : Elem) (k : String) (o1 o2 : MOp) :
    mEval d (.or [.field k o1, .field k o2]) = orOpt [evalOp o1 (lookup d k), evalOp o2 (lookup d k)] := by
  simp [mEval, mEvalList]

/-- The leaf case, in the agreeing region. -/
theorem leaf_equiv (numOf : String → Option Int) (d : Elem) (k : String) (c : Cond) (a : JV)
    (h : leafAgree numOf (lookup d k) c a = true) :
    mEval d (convert (.cond k c a) false) = some (matchesCond numOf (lookup d k) c a) := by
  unfold leafAgree at h
  simp only [Bool.and_eq_true] at h
  obtain ⟨hs, h⟩ := h
  cases c <;> simp only [convert, convCond, mEval, opOf, Bool.false_eq_true, if_false] <;>
    simp only [Bool.and_eq_true] at h
  case eq => simp [evalOp, matchesCond]
  case neq => simp [evalOp, matchesCond]
  case gt =>
    obtain ⟨b, rfl⟩ := isNumJ_form h.1
    generalize lookup d k = v at hs h
    cases v <;> simp_all [isScalar, notNumText, evalOp, isGt, ordLt, matchesCond, cmp2, toNum]
  case gte =>
    obtain ⟨b, rfl⟩ := isNumJ_form h.1
    generalize lookup d k = v at hs h
    cases v <;> simp_all [isScalar, notNumText, evalOp, isGt, isEq, ordLt, ordEq, matchesCond, cmp2, toNum]
    all_goals (first | omega | (rw [Bool.eq_iff_iff]; simp; omega))
  case lt =>
    obtain ⟨b, rfl⟩ := isNumJ_form h.1
    generalize lookup d k = v at hs h
    cases v <;> simp_all [isScalar, notNumText, evalOp, isLt, ordLt, matchesCond, cmp2, toNum]
  case lte =>
    obtain ⟨b, rfl⟩ := isNumJ_form h.1
    generalize lookup d k = v at hs h
    cases v <;> simp_all [isScalar, notNumText, evalOp, isLt, isEq, ordLt, ordEq, matchesCond, cmp2, toNum]
    all_goals (first | omega | (rw [Bool.eq_iff_iff]; simp; omega))
  case within =>
    obtain ⟨xs, rfl⟩ := isArr_form h
    simp [evalOp, matchesCond]
  case without =>
    obtain ⟨xs, rfl⟩ := isArr_form h
    simp [evalOp, matchesCond]
  case contains =>
    generalize lookup d k = v at hs h
    cases v <;> simp_all [isScalar, evalOp, foundIn, matchesCond]
  case inside =>
    obtain ⟨lo, hi, rfl⟩ := isNumPair_form h.1
    simp only [convRange, junction_tf, junction_ff, convCond, opOf, Bool.false_eq_true, if_false,
      mEval_and2, mEval_or2]
    generalize lookup d k = v at hs h ⊢
    cases v <;> simp_all [isScalar, notNumText, convRange, junction, convCond, mEval, mEvalList, andOpt, opOf,
      evalOp, isGt, isLt, ordLt, matchesCond, range3, toSlice, toNum]
  case outside =>
    obtain ⟨lo, hi, rfl⟩ := isNumPair_form h.1
    simp only [convRange, junction_tf, junction_ff, convCond, opOf, Bool.false_eq_true, if_false,
      mEval_and2, mEval_or2]
    generalize lookup d k = v at hs h ⊢
    cases v <;> simp_all [isScalar, notNumText, convRange, junction, convCond, mEval, mEvalList, orOpt, opOf,
      evalOp, isGt, isLt, ordLt, matchesCond, range3, toSlice, toNum]
  case between =>
    obtain ⟨lo, hi, rfl⟩ := isNumPair_form h.1
    simp only [convRange, junction_tf, junction_ff, convCond, opOf, Bool.false_eq_true, if_false,
      mEval_and2, mEval_or2]
    generalize lookup d k = v at hs h ⊢
    cases v <;> simp_all [isScalar, notNumText, convRange, junction, convCond, mEval, mEvalList, andOpt, opOf,
      evalOp, isGt, isLt, isEq, ordLt, ordEq, matchesCond, range3, toSlice, toNum]
    all_goals (first | omega | (rw [Bool.eq_iff_iff]; simp; omega))
  case unset => simp at h

mutual
  theorem equiv (numOf : String → Option Int) (d : Elem) : ∀ (e : HasE), agree numOf d e = true →
      mEval d (convert e false) = some (eval numOf d e)
    | .cond k c a, h => by
      simp only [agree] at h
      simp only [eval]
      exact leaf_equiv numOf d k c a h
    | .and es, h => by
      simp only [agree, Bool.and_eq_true, Bool.not_eq_true'] at h
      simp [convert, junction, eval, mEval, convertList_isEmpty, h.1, equivList numOf d es h.2, andOpt_some]
    | .or es, h => by
      simp only [agree, Bool.and_eq_true, Bool.not_eq_true'] at h
      simp [convert, junction, eval, mEval, convertList_isEmpty, h.1, equivList numOf d es h.2, orOpt_some]
    | .not x, h => by
      simp only [agree] at h
      have hp := pushdown d x false (agree_translatable numOf d x h)
      simp only [Bool.not_false] at hp
      simp [convert, eval, hp, equiv numOf d x h]
    | .none, h => by simp [agree] at h
  theorem equivList (numOf : String → Option Int) (d : Elem) : ∀ (es : List HasE),
      agreeList numOf d es = true →
      mEvalList d (convertList es false) = (evalList numOf d es).map some
    | [], _ => by simp [convertList, mEvalList, evalList]
    | x :: xs, h => by
      simp only [agreeList, Bool.and_eq_true] at h
      simp [convertList, mEvalList, evalList, equiv numOf d x h.1, equivList numOf d xs h.2]
end

end Grip.Props.C14.Lemmas
