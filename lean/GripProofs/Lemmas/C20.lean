/-
  Lemmas for C20: the scanner is compositional, a doubled-quote body never leaves the literal,
  and a safe run fixes the scanner's state and events independently of the client strings.
-/
import Grip.Model.C20

namespace Grip.Props.C20.Lemmas
open Grip.C20

theorem run_append (s : St) (x y : List Char) :
    run s (x ++ y) = ((run (run s x).1 y).1, (run s x).2 ++ (run (run s x).1 y).2) := by
  induction x generalizing s with
  | nil => simp [run]
  | cons c cs ih =>
    simp only [List.cons_append, run]
    rw [ih]
    simp [List.append_assoc]

theorem run_nil (s : St) : run s [] = (s, []) := rfl

theorem run_cons (s : St) (c : Char) (cs : List Char) :
    run s (c :: cs) = ((run (step s c).1 cs).1, (step s c).2 ++ (run (step s c).1 cs).2) := rfl

theorem step_str (c : Char) : step .str c = (if c == '\'' then (.strQ, []) else (.str, [])) := rfl
theorem step_strQ_q : step .strQ '\'' = (.str, []) := rfl
theorem step_qid (c : Char) : step .qid c = (if c == '"' then (.qidQ, []) else (.qid, [])) := rfl
theorem step_qidQ_q : step .qidQ '"' = (.qid, []) := rfl

/-- Inside '…' the doubled body keeps the scanner inside the literal and emits nothing. -/
theorem run_str_dbl (v : List Char) : run .str (dbl '\'' v) = (.str, []) := by
  induction v with
  | nil => rfl
  | cons c cs ih =>
    by_cases h : (c == '\'') = true
    · have hc : c = '\'' := by simpa using h
      subst hc
      simp only [dbl, beq_self_eq_true, if_true]
      rw [run_cons, step_str, run_cons]
      simp only [beq_self_eq_true, if_true, step_strQ_q, ih]
      rfl
    · have h' : (c == '\'') = false := by simpa using h
      simp only [dbl, h', Bool.false_eq_true, if_false]
      rw [run_cons, step_str]
      simp [h', ih]

/-- Inside "…" likewise. -/
theorem run_qid_dbl (v : List Char) : run .qid (dbl '"' v) = (.qid, []) := by
  induction v with
  | nil => rfl
  | cons c cs ih =>
    by_cases h : (c == '"') = true
    · have hc : c = '"' := by simpa using h
      subst hc
      simp only [dbl, beq_self_eq_true, if_true]
      rw [run_cons, step_qid, run_cons]
      simp only [beq_self_eq_true, if_true, step_qidQ_q, ih]
      rfl
    · have h' : (c == '"') = false := by simpa using h
      simp only [dbl, h', Bool.false_eq_true, if_false]
      rw [run_cons, step_qid]
      simp [h', ih]

/-- A correctly quoted literal, started where `'` opens a literal, always ends in `strQ` and emits
    exactly what the opening quote emitted — whatever the value. -/
theorem run_quoteLit (s : St) (h : opensStr s = true) (v : List Char) :
    run s (quoteLit v) = (.strQ, (step s '\'').2) := by
  have hs : (step s '\'').1 = .str := by simpa [opensStr] using h
  unfold quoteLit
  simp only [run]
  rw [run_append, hs, run_str_dbl]
  simp [run, step]

theorem run_quoteIdent (s : St) (h : opensQid s = true) (v : List Char) :
    run s (quoteIdent v) = (.qidQ, (step s '"').2) := by
  have hs : (step s '"').1 = .qid := by simpa [opensQid] using h
  unfold quoteIdent
  simp only [run]
  rw [run_append, hs, run_qid_dbl]
  simp [run, step]

/-- Without a quote character the scanner stays inside the literal. -/
theorem run_str_noquote (v : List Char) (h : v.contains '\'' = false) : run .str v = (.str, []) := by
  induction v with
  | nil => rfl
  | cons c cs ih =>
    have hc : (c == '\'') = false := by
      cases hcc : (c == '\'') with
      | false => rfl
      | true =>
        have : c = '\'' := by simpa using hcc
        subst this
        simp at h
    have hcs : cs.contains '\'' = false := by
      cases hh : cs.contains '\'' with
      | false => rfl
      | true =>
        have : '\'' ∈ cs := by simpa using hh
        have : (c :: cs).contains '\'' = true := by simp [this]
        rw [this] at h; cases h
    rw [run_cons, step_str]
    simp [hc, ih hcs]

/-- One atom of a safe run: final state and events are the same for all arguments. -/
theorem atom_safe (env : Env) (a : Args) (cur : Option (List Char)) (s s' : St) (x : Atom)
    (h : atomSafeStep env a cur s x = some s') :
    ∃ evs, ∀ (b : Args) (cur' : Option (List Char)), atomOK b cur' x = true →
      run s (renderAtom env b cur' x) = (s', evs) := by
  cases x with
  | lit t =>
    simp only [atomSafeStep, Option.some.injEq] at h
    exact ⟨(run s t.toList).2, fun _ _ _ => by simp [renderAtom, ← h]⟩
  | srv n =>
    simp only [atomSafeStep, Option.some.injEq] at h
    exact ⟨(run s ((lookup env n).getD "").toList).2, fun _ _ _ => by simp [renderAtom, ← h]⟩
  | cli src w e =>
    cases w with
    | raw =>
      cases src with
      | client => simp [atomSafeStep] at h
      | stored => simp [atomSafeStep] at h
      | validated =>
        by_cases hs : (s == St.str) = true
        · simp only [atomSafeStep, hs, if_true, Option.some.injEq] at h
          have hs' : s = .str := by simpa using hs
          subst hs'
          refine ⟨[], fun b cur' hok => ?_⟩
          have hq : ((evalExpr b cur' e).getD []).contains '\'' = false := by
            simpa [atomOK] using hok
          simp [renderAtom, wrap, run_str_noquote _ hq, ← h]
        · simp [atomSafeStep, hs] at h
    | quoteLit =>
      by_cases ho : opensStr s = true
      · simp only [atomSafeStep, ho, if_true, Option.some.injEq] at h
        exact ⟨(step s '\'').2, fun b cur' _ => by simp [renderAtom, wrap, run_quoteLit s ho, ← h]⟩
      · simp [atomSafeStep, ho] at h
    | quoteIdent =>
      by_cases ho : opensQid s = true
      · simp only [atomSafeStep, ho, if_true, Option.some.injEq] at h
        exact ⟨(step s '"').2, fun b cur' _ => by simp [renderAtom, wrap, run_quoteIdent s ho, ← h]⟩
      · simp [atomSafeStep, ho] at h

theorem atoms_safe (env : Env) (a : Args) (cur : Option (List Char)) (xs : List Atom) :
    ∀ (s s' : St), atomsSafeRun env a cur s xs = some s' →
    ∃ evs, ∀ (b : Args) (cur' : Option (List Char)), xs.all (atomOK b cur') = true →
      run s (renderAtoms env b cur' xs) = (s', evs) := by
  induction xs with
  | nil =>
    intro s s' h
    simp only [atomsSafeRun, Option.some.injEq] at h
    exact ⟨[], fun _ _ _ => by simp [renderAtoms, run, h]⟩
  | cons x xs ih =>
    intro s s' h
    simp only [atomsSafeRun] at h
    cases hx : atomSafeStep env a cur s x with
    | none => simp [hx] at h
    | some s1 =>
      simp only [hx] at h
      obtain ⟨e1, h1⟩ := atom_safe env a cur s s1 x hx
      obtain ⟨e2, h2⟩ := ih s1 s' h
      refine ⟨e1 ++ e2, fun b cur' hok => ?_⟩
      have hok' : atomOK b cur' x = true ∧ xs.all (atomOK b cur') = true := by
        simpa [List.all_cons] using hok
      simp only [renderAtoms]
      rw [run_append, h1 b cur' hok'.1, h2 b cur' hok'.2]

/-- A joined list in a safe run: any list of the same length gives the same state and events. -/
theorem list_safe (env : Env) (a : Args) (sep : List Char) (elem : List Atom) (xs : List String) :
    ∀ (s s' : St), listSafeRun env a sep elem s xs = some s' →
    ∃ evs, ∀ (b : Args) (ys : List String), ys.length = xs.length →
      (ys.all fun y => elem.all (atomOK b (some y.toList))) = true →
      run s (renderList env b sep elem ys) = (s', evs) := by
  induction xs with
  | nil =>
    intro s s' h
    simp only [listSafeRun, Option.some.injEq] at h
    refine ⟨[], fun b ys hl _ => ?_⟩
    have : ys = [] := by simpa using hl
    subst this
    simp [renderList, run, h]
  | cons x r ih =>
    intro s s' h
    cases r with
    | nil =>
      simp only [listSafeRun] at h
      obtain ⟨e1, h1⟩ := atoms_safe env a (some x.toList) elem s s' h
      refine ⟨e1, fun b ys hl hok => ?_⟩
      match ys, hl, hok with
      | [y], _, hok =>
        have hy : elem.all (atomOK b (some y.toList)) = true := by simpa using hok
        simp [renderList, h1 b (some y.toList) hy]
    | cons y r' =>
      simp only [listSafeRun] at h
      cases hx : atomsSafeRun env a (some x.toList) s elem with
      | none => simp [hx] at h
      | some s1 =>
        simp only [hx] at h
        obtain ⟨e1, h1⟩ := atoms_safe env a (some x.toList) elem s s1 hx
        obtain ⟨e2, h2⟩ := ih (run s1 sep).1 s' h
        refine ⟨e1 ++ ((run s1 sep).2 ++ e2), fun b ys hl hok => ?_⟩
        match ys, hl, hok with
        | y1 :: y2 :: yr, hl, hok =>
          have hl' : (y2 :: yr).length = (y :: r').length := by simpa using hl
          have hok' : elem.all (atomOK b (some y1.toList)) = true ∧
              ((y2 :: yr).all fun y => elem.all (atomOK b (some y.toList))) = true := by
            rw [List.all_cons] at hok
            simpa using hok
          simp only [renderList, List.append_assoc]
          rw [run_append, h1 b (some y1.toList) hok'.1, run_append, h2 b (y2 :: yr) hl' hok'.2]

/-- Same list length for the list a piece joins (trivial for atoms). -/
def pieceLen (a b : Args) : Piece → Prop
  | .atom _ => True
  | .list _ name _ _ => ((lookup b.lists name).getD []).length = ((lookup a.lists name).getD []).length

theorem piece_safe (env : Env) (a : Args) (s s' : St) (p : Piece)
    (h : pieceSafeStep env a s p = some s') :
    ∃ evs, ∀ (b : Args), pieceLen a b p → pieceOK b p = true →
      run s (renderPiece env b p) = (s', evs) := by
  cases p with
  | atom x =>
    obtain ⟨e, he⟩ := atom_safe env a none s s' x h
    exact ⟨e, fun b _ hok => by simpa [renderPiece] using he b none (by simpa [pieceOK] using hok)⟩
  | list src name sep elem =>
    obtain ⟨e, he⟩ := list_safe env a sep.toList elem _ s s' h
    exact ⟨e, fun b hl hok => by simpa [renderPiece] using he b _ hl (by simpa [pieceOK] using hok)⟩

theorem pieces_safe (env : Env) (a : Args) (ps : List Piece) :
    ∀ (s s' : St), piecesSafeRun env a s ps = some s' →
    ∃ evs, ∀ (b : Args), (∀ p ∈ ps, pieceLen a b p) → ps.all (pieceOK b) = true →
      run s (renderPieces env b ps) = (s', evs) := by
  induction ps with
  | nil =>
    intro s s' h
    simp only [piecesSafeRun, Option.some.injEq] at h
    exact ⟨[], fun _ _ _ => by simp [renderPieces, run, h]⟩
  | cons p ps ih =>
    intro s s' h
    simp only [piecesSafeRun] at h
    cases hp : pieceSafeStep env a s p with
    | none => simp [hp] at h
    | some s1 =>
      simp only [hp] at h
      obtain ⟨e1, h1⟩ := piece_safe env a s s1 p hp
      obtain ⟨e2, h2⟩ := ih s1 s' h
      refine ⟨e1 ++ e2, fun b hb hok => ?_⟩
      have hok' : pieceOK b p = true ∧ ps.all (pieceOK b) = true := by
        simpa [List.all_cons] using hok
      simp only [renderPieces]
      rw [run_append, h1 b (hb p (by simp)) hok'.1, h2 b (fun q hq => hb q (by simp [hq])) hok'.2]

/-- A site whose text mentions no client value always passes the run part of the check. -/
theorem atoms_noClient_run (env : Env) (a : Args) (cur : Option (List Char)) (xs : List Atom)
    (h : xs.any atomIsClientText = false) : ∀ s, (atomsSafeRun env a cur s xs).isSome = true := by
  induction xs with
  | nil => intro s; rfl
  | cons x xs ih =>
    intro s
    have hx : atomIsClientText x = false ∧ xs.any atomIsClientText = false := by
      simpa [List.any_cons] using h
    cases x with
    | lit t => simpa [atomsSafeRun, atomSafeStep] using ih hx.2 _
    | srv n => simpa [atomsSafeRun, atomSafeStep] using ih hx.2 _
    | cli src w e => simp [atomIsClientText] at hx

theorem list_noClient_run (env : Env) (a : Args) (sep : List Char) (elem : List Atom)
    (h : elem.any atomIsClientText = false) (xs : List String) :
    ∀ s, (listSafeRun env a sep elem s xs).isSome = true := by
  induction xs with
  | nil => intro s; rfl
  | cons x r ih =>
    intro s
    cases r with
    | nil => simpa [listSafeRun] using atoms_noClient_run env a (some x.toList) elem h s
    | cons y r' =>
      have h1 := atoms_noClient_run env a (some x.toList) elem h s
      cases hx : atomsSafeRun env a (some x.toList) s elem with
      | none => simp [hx] at h1
      | some s1 => simpa [listSafeRun, hx] using ih (run s1 sep).1

theorem clientFree_safeRun (env : Env) (a : Args) (ps : List Piece)
    (h : ps.any pieceHasClientText = false) : ∀ s, (piecesSafeRun env a s ps).isSome = true := by
  induction ps with
  | nil => intro s; rfl
  | cons p ps ih =>
    intro s
    have hp : pieceHasClientText p = false ∧ ps.any pieceHasClientText = false := by
      simpa [List.any_cons] using h
    have h1 : (pieceSafeStep env a s p).isSome = true := by
      cases p with
      | atom x =>
        cases x with
        | lit t => simp [pieceSafeStep, atomSafeStep]
        | srv n => simp [pieceSafeStep, atomSafeStep]
        | cli src w e => simp [pieceHasClientText, atomIsClientText] at hp
      | list src name sep elem =>
        exact list_noClient_run env a sep.toList elem (by simpa [pieceHasClientText] using hp.1) _ s
    cases hs : pieceSafeStep env a s p with
    | none => simp [hs] at h1
    | some s1 => simpa [piecesSafeRun, hs] using ih hp.2 s1

theorem sameLens_spec (a b : Args) (s : Site) (h : sameLens a b s = true) :
    ∀ p ∈ s.pieces, pieceLen a b p := by
  intro p hp
  have := (List.all_eq_true.mp h) p hp
  cases p with
  | atom _ => trivial
  | list src name sep elem =>
    show ((lookup b.lists name).getD []).length = ((lookup a.lists name).getD []).length
    have h2 : ((lookup a.lists name).getD []).length = ((lookup b.lists name).getD []).length := by
      simpa using this
    exact h2.symm

theorem sameLens_refl (a : Args) (s : Site) : sameLens a a s = true := by
  unfold sameLens
  apply List.all_eq_true.mpr
  intro p _
  cases p with
  | atom _ => rfl
  | list src name sep elem => exact beq_self_eq_true _

end Grip.Props.C20.Lemmas
