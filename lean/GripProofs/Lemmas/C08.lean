import Grip.Model.C08
import Grip.Spec.C08

namespace Grip.Props.C08.Lemmas
open Grip Grip.C08 Grip.C08.Spec

theorem toNum_eq_isNum (numOf : String → Option Int) (v : JV) : toNum numOf v = isNum numOf v := by
  cases v <;> rfl

theorem foundIn_iff (v : JV) (xs : List JV) : foundIn v xs = true ↔ v ∈ xs := by
  induction xs with
  | nil => simp [foundIn]
  | cons x xs ih =>
    simp only [foundIn, List.mem_cons]
    by_cases h : v = x
    · simp [h]
    · have : (v == x) = false := by simpa using h
      simp [this, ih, h]

theorem cmp2_iff (numOf : String → Option Int) (v arg : JV) (f : Int → Int → Bool) :
    cmp2 numOf v arg f = true ↔
      ∃ a b, isNum numOf v = some a ∧ isNum numOf arg = some b ∧ f a b = true := by
  unfold cmp2
  rw [toNum_eq_isNum, toNum_eq_isNum]
  cases hv : isNum numOf v with
  | none => simp
  | some a =>
    cases ha : isNum numOf arg with
    | none => simp
    | some b => simp

theorem range3_iff (numOf : String → Option Int) (v arg : JV) (f : Int → Int → Int → Bool) :
    range3 numOf v arg f = true ↔
      ∃ l u x lo hi, arg = .arr [l, u] ∧ isNum numOf l = some lo ∧ isNum numOf u = some hi ∧
        isNum numOf v = some x ∧ f x lo hi = true := by
  unfold range3
  cases arg with
  | arr xs =>
    simp only [toSlice]
    match xs with
    | [] => simp
    | [_] => simp
    | _ :: _ :: _ :: _ => simp
    | [l, u] =>
      simp only [toNum_eq_isNum]
      cases hl : isNum numOf l with
      | none => simp [hl]
      | some lo =>
        cases hu : isNum numOf u with
        | none => simp [hu]
        | some hi =>
          cases hv : isNum numOf v with
          | none => simp
          | some x =>
            simp only [JV.arr.injEq, List.cons.injEq, and_true, Option.some.injEq]
            constructor
            · intro h; exact ⟨l, u, x, lo, hi, ⟨rfl, rfl⟩, hl, hu, rfl, h⟩
            · rintro ⟨l', u', x', lo', hi', ⟨rfl, rfl⟩, h1, h2, rfl, h⟩
              rw [hl] at h1; rw [hu] at h2
              cases h1; cases h2; exact h
  | null => simp [toSlice]
  | bool _ => simp [toSlice]
  | num _ => simp [toSlice]
  | str _ => simp [toSlice]
  | obj _ => simp [toSlice]

theorem matches_spec (numOf : String → Option Int) (v : JV) (c : Cond) (arg : JV) :
    matchesCond numOf v c arg = true ↔ DocHolds numOf v c arg := by
  cases c
  case eq => simp [matchesCond, DocHolds]
  case neq => simp [matchesCond, DocHolds]
  case gt => simp [matchesCond, DocHolds, cmp2_iff]
  case gte => simp [matchesCond, DocHolds, cmp2_iff]
  case lt => simp [matchesCond, DocHolds, cmp2_iff]
  case lte => simp [matchesCond, DocHolds, cmp2_iff]
  case inside => simp [matchesCond, DocHolds, range3_iff]
  case outside => simp [matchesCond, DocHolds, range3_iff]
  case between => simp [matchesCond, DocHolds, range3_iff]
  case within =>
    cases arg <;> simp [matchesCond, DocHolds, foundIn_iff]
  case without =>
    cases arg <;> simp [matchesCond, DocHolds, ← foundIn_iff]
  case contains =>
    cases v <;> simp [matchesCond, DocHolds, foundIn_iff]
  case unset => simp [matchesCond, DocHolds]

theorem nonnumeric_value (numOf : String → Option Int) (v : JV) (c : Cond) (arg : JV)
    (hc : isOrdering c = true) (hv : isNum numOf v = none) :
    matchesCond numOf v c arg = false := by
  have h := matches_spec numOf v c arg
  cases hm : matchesCond numOf v c arg with
  | false => rfl
  | true =>
    have hd := h.1 hm
    cases c <;> simp [isOrdering] at hc <;> simp [DocHolds, hv] at hd

theorem nonnumeric_arg (numOf : String → Option Int) (v : JV) (c : Cond) (arg : JV)
    (hc : c = .gt ∨ c = .gte ∨ c = .lt ∨ c = .lte) (ha : isNum numOf arg = none) :
    matchesCond numOf v c arg = false := by
  have h := matches_spec numOf v c arg
  cases hm : matchesCond numOf v c arg with
  | false => rfl
  | true =>
    have hd := h.1 hm
    rcases hc with rfl | rfl | rfl | rfl <;> simp [DocHolds, ha] at hd

theorem range_needs_two (numOf : String → Option Int) (v : JV) (c : Cond) (arg : JV)
    (hc : c = .inside ∨ c = .outside ∨ c = .between)
    (ha : ¬ ∃ l u lo hi, arg = .arr [l, u] ∧ isNum numOf l = some lo ∧ isNum numOf u = some hi) :
    matchesCond numOf v c arg = false := by
  have h := matches_spec numOf v c arg
  cases hm : matchesCond numOf v c arg with
  | false => rfl
  | true =>
    have hd := h.1 hm
    exfalso; apply ha
    rcases hc with rfl | rfl | rfl <;>
    · obtain ⟨l, u, x, lo, hi, h1, h2, h3, _⟩ := hd
      exact ⟨l, u, lo, hi, h1, h2, h3⟩

theorem allTrue_iff (rs : List Bool) : allTrue rs = true ↔ ∀ r ∈ rs, r = true := by
  induction rs with
  | nil => simp [allTrue]
  | cons r rs ih => cases r <;> simp [allTrue, ih]

theorem anyTrue_iff (rs : List Bool) : anyTrue rs = true ↔ ∃ r ∈ rs, r = true := by
  induction rs with
  | nil => simp [anyTrue]
  | cons r rs ih => cases r <;> simp [anyTrue, ih]

theorem evalList_eq_map (numOf : String → Option Int) (e : Elem) (es : List HasE) :
    evalList numOf e es = es.map (eval numOf e) := by
  induction es with
  | nil => simp [evalList]
  | cons x xs ih => simp [evalList, ih]

mutual
  theorem eval_spec (numOf : String → Option Int) (e : Elem) :
      ∀ x : HasE, eval numOf e x = true ↔ Holds numOf e x
    | .cond k c a => by simp [eval, Holds, matches_spec]
    | .and es => by
        simp only [eval, Holds]
        exact evalAll_spec numOf e es
    | .or es => by
        simp only [eval, Holds]
        exact evalAny_spec numOf e es
    | .not x => by
        have ih := eval_spec numOf e x
        simp [eval, Holds, ← ih]
    | .none => by simp [eval, Holds]
  theorem evalAll_spec (numOf : String → Option Int) (e : Elem) :
      ∀ es : List HasE, allTrue (evalList numOf e es) = true ↔ HoldsAll numOf e es
    | [] => by simp [evalList, allTrue, HoldsAll]
    | x :: xs => by
        have ih1 := eval_spec numOf e x
        have ih2 := evalAll_spec numOf e xs
        simp only [evalList, HoldsAll, ← ih1, ← ih2]
        cases eval numOf e x <;> simp [allTrue]
  theorem evalAny_spec (numOf : String → Option Int) (e : Elem) :
      ∀ es : List HasE, anyTrue (evalList numOf e es) = true ↔ HoldsAny numOf e es
    | [] => by simp [evalList, anyTrue, HoldsAny]
    | x :: xs => by
        have ih1 := eval_spec numOf e x
        have ih2 := evalAny_spec numOf e xs
        simp only [evalList, HoldsAny, ← ih1, ← ih2]
        cases eval numOf e x <;> simp [anyTrue]
end

theorem bool_eq_of_iff {a b : Bool} (h : a = true ↔ b = true) : a = b := by
  cases a <;> cases b <;> simp_all

theorem deMorgan_and (numOf : String → Option Int) (e : Elem) (es : List HasE) :
    eval numOf e (.not (.and es)) = eval numOf e (.or (es.map .not)) := by
  simp only [eval, evalList_eq_map, List.map_map]
  apply bool_eq_of_iff
  rw [anyTrue_iff]
  simp only [Bool.not_eq_true', ← Bool.not_eq_true, allTrue_iff]
  simp [eval]

theorem deMorgan_or (numOf : String → Option Int) (e : Elem) (es : List HasE) :
    eval numOf e (.not (.or es)) = eval numOf e (.and (es.map .not)) := by
  simp only [eval, evalList_eq_map, List.map_map]
  apply bool_eq_of_iff
  rw [allTrue_iff]
  simp only [Bool.not_eq_true', ← Bool.not_eq_true, anyTrue_iff]
  simp [eval]

theorem and_perm (numOf : String → Option Int) (e : Elem) (es es' : List HasE) (h : es.Perm es') :
    eval numOf e (.and es) = eval numOf e (.and es') := by
  simp only [eval, evalList_eq_map]
  apply bool_eq_of_iff
  simp only [allTrue_iff, List.mem_map]
  constructor
  · rintro hh r ⟨x, hx, rfl⟩; exact hh _ ⟨x, h.mem_iff.2 hx, rfl⟩
  · rintro hh r ⟨x, hx, rfl⟩; exact hh _ ⟨x, h.mem_iff.1 hx, rfl⟩

theorem or_perm (numOf : String → Option Int) (e : Elem) (es es' : List HasE) (h : es.Perm es') :
    eval numOf e (.or es) = eval numOf e (.or es') := by
  simp only [eval, evalList_eq_map]
  apply bool_eq_of_iff
  simp only [anyTrue_iff, List.mem_map]
  constructor
  · rintro ⟨r, ⟨x, hx, rfl⟩, hr⟩; exact ⟨_, ⟨x, h.mem_iff.1 hx, rfl⟩, hr⟩
  · rintro ⟨r, ⟨x, hx, rfl⟩, hr⟩; exact ⟨_, ⟨x, h.mem_iff.2 hx, rfl⟩, hr⟩

end Grip.Props.C08.Lemmas
