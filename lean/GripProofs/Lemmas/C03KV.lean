/-
  Lemmas.C03KV — association-list laws used by the C03 refinement proofs.

  `alGet` is the common shape of `KV.get`, `AG.getV`, `AG.getE`; `KeysNodup` says an association
  list has no duplicate keys.  Laws for `KV.set/del/delWhere`, membership characterisations and a
  permutation principle (`perm_of_nodup_mem_iff`).
-/
import Grip.Model.C03
import Grip.Spec.C03

namespace Grip.Props.C03.Lemmas
open Grip Grip.C03

variable {κ : Type} {β : Type} [DecidableEq κ]

/-- first value stored under key `k` -/
def alGet (l : List (κ × β)) (k : κ) : Option β := (l.find? (fun p => p.1 = k)).map (·.2)

/-- no duplicate keys -/
def KeysNodup (l : List (κ × β)) : Prop := (l.map (·.1)).Nodup

omit [DecidableEq κ] in
theorem keysNodup_nil : KeysNodup ([] : List (κ × β)) := by simp [KeysNodup]

@[simp] theorem alGet_nil (k : κ) : alGet ([] : List (κ × β)) k = none := rfl

theorem alGet_cons (k0 : κ) (v0 : β) (l : List (κ × β)) (k : κ) :
    alGet ((k0, v0) :: l) k = if k = k0 then some v0 else alGet l k := by
  unfold alGet
  by_cases h : k0 = k
  · subst h; simp
  · have h' : ¬ k = k0 := fun e => h e.symm
    simp [h, h']

theorem alGet_eq_none_iff (l : List (κ × β)) (k : κ) : alGet l k = none ↔ k ∉ l.map (·.1) := by
  induction l with
  | nil => simp
  | cons p l ih =>
    obtain ⟨k0, v0⟩ := p
    rw [alGet_cons]
    by_cases h : k = k0
    · subst h; simp
    · simp [h, ih]

theorem alGet_isSome_iff (l : List (κ × β)) (k : κ) : (alGet l k).isSome ↔ k ∈ l.map (·.1) := by
  rw [← Decidable.not_iff_not, ← alGet_eq_none_iff]
  cases alGet l k <;> simp

theorem mem_of_alGet {l : List (κ × β)} {k : κ} {v : β} (h : alGet l k = some v) : (k, v) ∈ l := by
  induction l with
  | nil => simp at h
  | cons p l ih =>
    obtain ⟨k0, v0⟩ := p
    rw [alGet_cons] at h
    by_cases hk : k = k0
    · subst hk; simp at h; subst h; simp
    · simp [hk] at h; exact List.mem_cons_of_mem _ (ih h)

theorem alGet_of_mem {l : List (κ × β)} (hn : KeysNodup l) {k : κ} {v : β} (h : (k, v) ∈ l) :
    alGet l k = some v := by
  induction l with
  | nil => simp at h
  | cons p l ih =>
    obtain ⟨k0, v0⟩ := p
    rw [alGet_cons]
    simp only [KeysNodup, List.map_cons, List.nodup_cons] at hn
    rcases List.mem_cons.1 h with h' | h'
    · cases h'; simp
    · have hk : k ≠ k0 := by
        intro e; subst e
        exact hn.1 (List.mem_map.2 ⟨(k, v), h', rfl⟩)
      simp [hk]; exact ih hn.2 h'

theorem mem_iff_alGet {l : List (κ × β)} (hn : KeysNodup l) (k : κ) (v : β) :
    (k, v) ∈ l ↔ alGet l k = some v := ⟨alGet_of_mem hn, mem_of_alGet⟩

omit [DecidableEq κ] in
theorem KeysNodup.filter {l : List (κ × β)} (hn : KeysNodup l) (P : κ × β → Bool) :
    KeysNodup (l.filter P) := by
  unfold KeysNodup at *
  exact List.Nodup.sublist (List.Sublist.map _ List.filter_sublist) hn

omit [DecidableEq κ] in
theorem KeysNodup.nodup {l : List (κ × β)} (hn : KeysNodup l) : l.Nodup := by
  induction l with
  | nil => simp
  | cons p l ih =>
    simp only [KeysNodup, List.map_cons, List.nodup_cons] at hn
    rw [List.nodup_cons]
    exact ⟨fun h => hn.1 (List.mem_map.2 ⟨p, h, rfl⟩), ih hn.2⟩

/-- filtering on the key only: no uniqueness needed -/
theorem alGet_filter_key (l : List (κ × β)) (q : κ → Bool) (k : κ) :
    alGet (l.filter (fun p => q p.1)) k = if q k then alGet l k else none := by
  induction l with
  | nil => simp
  | cons p l ih =>
    obtain ⟨k0, v0⟩ := p
    by_cases h0 : q k0
    · rw [List.filter_cons_of_pos (by simpa using h0), alGet_cons, alGet_cons, ih]
      by_cases hk : k = k0
      · subst hk; simp [h0]
      · simp [hk]
    · rw [List.filter_cons_of_neg (by simpa using h0), alGet_cons, ih]
      by_cases hk : k = k0
      · subst hk; simp [h0]
      · simp [hk]

/-- filtering on key and value: needs key uniqueness -/
theorem alGet_filter {l : List (κ × β)} (hn : KeysNodup l) (P : κ × β → Bool) (k : κ) :
    alGet (l.filter P) k = (alGet l k).filter (fun v => P (k, v)) := by
  induction l with
  | nil => simp
  | cons p l ih =>
    obtain ⟨k0, v0⟩ := p
    simp only [KeysNodup, List.map_cons, List.nodup_cons] at hn
    have ih := ih hn.2
    by_cases hk : k = k0
    · subst hk
      have hnone : alGet l k = none := (alGet_eq_none_iff l k).2 hn.1
      by_cases h0 : P (k, v0)
      · rw [List.filter_cons_of_pos h0, alGet_cons, alGet_cons]
        simp [Option.filter, h0]
      · rw [List.filter_cons_of_neg h0, alGet_cons, ih, hnone]
        simp [Option.filter, h0]
    · by_cases h0 : P (k0, v0)
      · rw [List.filter_cons_of_pos h0, alGet_cons, alGet_cons, ih]
        simp [hk]
      · rw [List.filter_cons_of_neg h0, alGet_cons, ih]
        simp [hk]

theorem keysNodup_cons_filter (l : List (κ × β)) (hn : KeysNodup l) (k : κ) (v : β) :
    KeysNodup ((k, v) :: l.filter (fun p => ¬ p.1 = k)) := by
  have h2 := hn.filter (fun p => ¬ p.1 = k)
  unfold KeysNodup at *
  simp only [List.map_cons, List.nodup_cons]
  refine ⟨?_, h2⟩
  simp [List.mem_map, List.mem_filter]

/-! ### permutations from membership -/

omit [DecidableEq κ] in
theorem perm_of_nodup_mem_iff {α : Type} {l₁ l₂ : List α} (h1 : l₁.Nodup) (h2 : l₂.Nodup)
    (h : ∀ x, x ∈ l₁ ↔ x ∈ l₂) : l₁.Perm l₂ := (List.perm_ext_iff_of_nodup h1 h2).2 h

omit [DecidableEq κ] in
/-- `filterMap` of a duplicate-free list by a function that is injective where defined. -/
theorem nodup_filterMap {α γ : Type} {l : List α} (f : α → Option γ) (hl : l.Nodup)
    (hinj : ∀ x ∈ l, ∀ y ∈ l, ∀ z, f x = some z → f y = some z → x = y) :
    (l.filterMap f).Nodup := by
  induction l with
  | nil => simp
  | cons x l ih =>
    rw [List.nodup_cons] at hl
    have ih := ih hl.2 (fun a ha b hb z h1 h2 =>
      hinj a (List.mem_cons_of_mem _ ha) b (List.mem_cons_of_mem _ hb) z h1 h2)
    rw [List.filterMap_cons]
    cases hx : f x with
    | none => simpa using ih
    | some z =>
      simp only
      rw [List.nodup_cons]
      refine ⟨?_, ih⟩
      intro hz
      obtain ⟨y, hy, hfy⟩ := List.mem_filterMap.1 hz
      have := hinj x (List.mem_cons_self) y (List.mem_cons_of_mem _ hy) z hx hfy
      subst this
      exact hl.1 hy

/-! ### KV laws -/

theorem KV.get_eq (m : KV) (k : SKey) : m.get k = alGet m k := rfl

theorem KV.has_eq (m : KV) (k : SKey) : m.has k = (m.get k).isSome := by
  unfold KV.has KV.get
  induction m with
  | nil => rfl
  | cons p m ih =>
    by_cases h : p.1 = k
    · simp [h]
    · simp [h, ih]

theorem KV.del_eq (m : KV) (k : SKey) : m.del k = m.filter (fun p => !decide (p.1 = k)) := by
  unfold KV.del; congr 1; funext p; simp

theorem KV.get_del (m : KV) (k k' : SKey) : (m.del k).get k' = if k' = k then none else m.get k' := by
  rw [KV.del_eq, KV.get_eq, alGet_filter_key m (fun x => !decide (x = k)) k']
  by_cases h : k' = k <;> simp [h, KV.get_eq]

theorem KV.get_set (m : KV) (k : SKey) (v : Val) (k' : SKey) :
    (m.set k v).get k' = if k' = k then some v else m.get k' := by
  unfold KV.set
  rw [KV.get_eq, alGet_cons, ← KV.get_eq, KV.get_del]
  by_cases h : k' = k <;> simp [h]

theorem KV.get_delWhere (m : KV) (p : SKey → Bool) (k' : SKey) :
    (m.delWhere p).get k' = if p k' then none else m.get k' := by
  unfold KV.delWhere
  rw [KV.get_eq, alGet_filter_key m (fun x => !p x) k']
  by_cases h : p k' <;> simp [h, KV.get_eq]

theorem KV.nodup_del {m : KV} (hn : KeysNodup m) (k : SKey) : KeysNodup (m.del k) := hn.filter _

theorem KV.nodup_delWhere {m : KV} (hn : KeysNodup m) (p : SKey → Bool) : KeysNodup (m.delWhere p) :=
  hn.filter _

theorem KV.nodup_set {m : KV} (hn : KeysNodup m) (k : SKey) (v : Val) : KeysNodup (m.set k v) :=
  keysNodup_cons_filter m hn k v

theorem KV.mem_iff_get {m : KV} (hn : KeysNodup m) (k : SKey) (v : Val) : (k, v) ∈ m ↔ m.get k = some v :=
  mem_iff_alGet hn k v

theorem KV.get_isSome_of_mem {m : KV} {k : SKey} {v : Val} (h : (k, v) ∈ m) : (m.get k).isSome := by
  rw [KV.get_eq, alGet_isSome_iff]; exact List.mem_map.2 ⟨(k, v), h, rfl⟩

/-- deleting a list of keys one after the other -/
theorem KV.get_foldl_del (ks : List SKey) (m : KV) (k' : SKey) :
    (ks.foldl (fun (m : KV) k => m.del k) m).get k' = if k' ∈ ks then none else m.get k' := by
  induction ks generalizing m with
  | nil => simp
  | cons k ks ih =>
    rw [List.foldl_cons, ih, KV.get_del]
    by_cases h1 : k' ∈ ks
    · simp [h1]
    · by_cases h2 : k' = k <;> simp [h1, h2]

theorem KV.nodup_foldl_del (ks : List SKey) {m : KV} (hn : KeysNodup m) :
    KeysNodup (ks.foldl (fun (m : KV) k => m.del k) m) := by
  induction ks generalizing m with
  | nil => simpa
  | cons k ks ih => rw [List.foldl_cons]; exact ih (KV.nodup_del hn k)

theorem KV.del_eq_self {m : KV} {k : SKey} (h : m.get k = none) : m.del k = m := by
  rw [KV.del_eq, List.filter_eq_self]
  intro p hp
  rw [KV.get_eq, alGet_eq_none_iff] at h
  simp only [Bool.not_eq_true', decide_eq_false_iff_not]
  intro e; exact h (List.mem_map.2 ⟨p, hp, e⟩)

/-! ### AG laws -/

open Grip.C03.Spec

theorem AG.getV_eq (a : AG) (g id : String) : a.getV g id = alGet a.verts (g, id) := rfl
theorem AG.getE_eq (a : AG) (g id : String) : a.getE g id = alGet a.edges (g, id) := rfl

end Grip.Props.C03.Lemmas
