import Grip.Model.C18
import Grip.Spec.C18
import Grip.Model.C04
import GripProofs.Lemmas.C18

/-!
  C18, the graph TIMESTAMP: lemmas.

  `bulk_eq_sequential` (Props/C18.lean) compares `Spec.core s = (s.kv, s.fields)`: the clock and
  the stamp table are projected away.  This file follows exactly those two fields.

  * `TS` is the timestamp part `(stamps, clock)` of a `KState`; every operation of C03 acts on it as
    the identity or as `TS.touch g` for the graph it names (`step_ts`).
  * A load therefore acts as `TS.touches gs` for a list of graphs `gs`: `ts_bulkAdd` (one entry per
    *segment* that stored something: `bulkTouches`) and `ts_sequential` (one entry per stored element).
  * Everything about stamps and clocks is then a fact about `TS.touches` (first part of the file).
-/
namespace Grip.Props.C18
open Grip.C03 Grip.C18 Grip.C18.Spec Grip.Props.C18.Lemmas

/-! ### definitions used in the statements of Props/C18Stamp.lean -/

/-- every stamp in the table was handed out by the clock: none exceeds it (`clock_dominates`) -/
def ClockOK (s : KState) : Prop := ∀ p ∈ s.stamps, p.2 ≤ s.clock

def notSchema (it : Item) : Bool := !isSchema it.g

/-- Maximal runs of consecutive items addressed to the same graph, in order, each with its graph.
    (`runsBy_flatten`, `runsBy_graph`, `runsBy_maximal` characterise it.) -/
def runsBy : List Item → List (String × List Item)
  | [] => []
  | it :: rest =>
    match runsBy rest with
    | (g, r) :: more => if it.g = g then (g, it :: r) :: more else (it.g, [it]) :: (g, r) :: more
    | [] => [(it.g, [it])]

/-- The *segments* of a bulk stream: server.BulkAdd skips schema-graph elements before it looks at
    the graph name (`continue`), every other element belongs to the run of its graph; a run is what
    one loader goroutine (`graph.BulkAdd`, one `BulkWrite`) receives. -/
def segments (stream : List Item) : List (String × List Item) := runsBy (stream.filter notSchema)

/-- the graphs of the runs in which something is stored, in order (with repetitions) -/
def runTouches (ex : String → Bool) (runs : List (String × List Item)) : List String :=
  runs.filterMap fun sg => if sg.2.any (isStored ex) then some sg.1 else none

/-- the touches of a bulk load: one per segment that stores at least one element -/
def bulkTouches (ex : String → Bool) (stream : List Item) : List String :=
  runTouches ex (segments stream)

/-- a single add is applied when its graph exists and the element is valid -/
def appliedOne (ex : String → Bool) (p : String × ElemIn) : Bool := ex p.1 && elemValid p.2

/-- the touches of one-by-one loading: one per applied element -/
def seqTouches (ex : String → Bool) (ps : List (String × ElemIn)) : List String :=
  (ps.filter (appliedOne ex)).map (·.1)

/-- the graph an operation names -/
def opGraph : Op → String
  | .addGraph g => g
  | .delGraph g => g
  | .addV g _ => g
  | .addE g _ => g
  | .bulk g _ => g
  | .delV g _ => g
  | .delE g _ => g

/-! ### the timestamp part of a state -/

structure TS where
  stamps : List (String × Nat)
  clock : Nat

def ts (s : KState) : TS := ⟨s.stamps, s.clock⟩

def TS.touch (t : TS) (g : String) : TS :=
  ⟨(g, t.clock + 1) :: t.stamps.filter (fun p => p.1 ≠ g), t.clock + 1⟩

def TS.stamp (t : TS) (g : String) : Option Nat := (t.stamps.find? (fun p => p.1 = g)).map (·.2)

def TS.touches (t : TS) (gs : List String) : TS := gs.foldl TS.touch t

def TS.OK (t : TS) : Prop := ∀ p ∈ t.stamps, p.2 ≤ t.clock

theorem ts_touch (s : KState) (g : String) : ts (s.touch g) = (ts s).touch g := rfl
theorem stamp_ts (s : KState) (g : String) : s.stamp g = (ts s).stamp g := rfl
theorem clock_ts (s : KState) : s.clock = (ts s).clock := rfl
theorem clockOK_ts (s : KState) : ClockOK s ↔ (ts s).OK := Iff.rfl

theorem TS.touches_nil (t : TS) : t.touches [] = t := rfl
theorem TS.touches_cons (t : TS) (g : String) (gs : List String) :
    t.touches (g :: gs) = (t.touch g).touches gs := rfl
theorem TS.touches_append (t : TS) (gs hs : List String) :
    t.touches (gs ++ hs) = (t.touches gs).touches hs := by
  simp [TS.touches, List.foldl_append]
theorem TS.touches_single (t : TS) (g : String) : t.touches [g] = t.touch g := rfl

theorem TS.clock_touch (t : TS) (g : String) : (t.touch g).clock = t.clock + 1 := rfl

theorem TS.stamp_touch_self (t : TS) (g : String) : (t.touch g).stamp g = some (t.clock + 1) := by
  simp [TS.touch, TS.stamp]

theorem TS.stamp_touch_ne (t : TS) (g g' : String) (h : g' ≠ g) :
    (t.touch g).stamp g' = t.stamp g' := by
  simp only [TS.touch, TS.stamp]
  have h1 : ¬ ((fun p : String × Nat => decide (p.1 = g')) (g, t.clock + 1) = true) := by
    simp only [decide_eq_true_eq]; exact fun e => h e.symm
  rw [List.find?_cons_of_neg (p := fun p : String × Nat => decide (p.1 = g')) h1]
  congr 1
  rw [List.find?_filter]
  congr 1
  funext p
  by_cases hp : p.1 = g'
  · simp [hp, h]
  · simp [hp]

theorem TS.OK_touch (t : TS) (g : String) (h : t.OK) : (t.touch g).OK := by
  intro p hp
  simp only [TS.touch, List.mem_cons, List.mem_filter] at hp
  rcases hp with hp | ⟨hp, _⟩
  · subst hp; exact Nat.le_refl _
  · exact Nat.le_succ_of_le (h p hp)

theorem TS.stamp_le_clock (t : TS) (h : t.OK) (g : String) (n : Nat) (hn : t.stamp g = some n) :
    n ≤ t.clock := by
  simp only [TS.stamp, Option.map_eq_some_iff] at hn
  obtain ⟨p, hp, rfl⟩ := hn
  exact h p (List.mem_of_find?_eq_some hp)

theorem TS.clock_touches (t : TS) (gs : List String) : (t.touches gs).clock = t.clock + gs.length := by
  induction gs generalizing t with
  | nil => rfl
  | cons g gs ih => rw [TS.touches_cons, ih, TS.clock_touch, List.length_cons]; omega

theorem TS.OK_touches (t : TS) (gs : List String) (h : t.OK) : (t.touches gs).OK := by
  induction gs generalizing t with
  | nil => exact h
  | cons g gs ih => exact ih _ (TS.OK_touch t g h)

/-- a graph that is not in the list keeps its stamp -/
theorem TS.stamp_touches_not_mem (t : TS) (gs : List String) (g : String) (h : g ∉ gs) :
    (t.touches gs).stamp g = t.stamp g := by
  induction gs generalizing t with
  | nil => rfl
  | cons g0 gs ih =>
    rw [TS.touches_cons, ih _ (fun hm => h (List.mem_cons_of_mem _ hm)),
      TS.stamp_touch_ne _ _ _ (fun e => h (by rw [e]; exact List.mem_cons_self ..))]

/-- a graph in the list gets a stamp handed out during the run -/
theorem TS.stamp_touches_mem (t : TS) (gs : List String) (g : String) (h : g ∈ gs) :
    ∃ n, (t.touches gs).stamp g = some n ∧ t.clock < n ∧ n ≤ t.clock + gs.length := by
  induction gs generalizing t with
  | nil => cases h
  | cons g0 gs ih =>
    rw [TS.touches_cons]
    by_cases hm : g ∈ gs
    · obtain ⟨n, h1, h2, h3⟩ := ih (t.touch g0) hm
      rw [TS.clock_touch] at h2 h3
      exact ⟨n, h1, by omega, by rw [List.length_cons]; omega⟩
    · have hg : g = g0 := by
        rcases List.mem_cons.1 h with e | e
        · exact e
        · exact absurd e hm
      subst hg
      refine ⟨t.clock + 1, ?_, by omega, by rw [List.length_cons]; omega⟩
      rw [TS.stamp_touches_not_mem _ _ _ hm, TS.stamp_touch_self]

/-- the exact stamp: the clock value of the LAST touch of the graph -/
theorem TS.stamp_touches_last (t : TS) (pre post : List String) (g : String) (h : g ∉ post) :
    (t.touches (pre ++ g :: post)).stamp g = some (t.clock + pre.length + 1) := by
  rw [TS.touches_append, TS.touches_cons, TS.stamp_touches_not_mem _ _ _ h, TS.stamp_touch_self,
    TS.clock_touches]

/-- stamps never decrease (and never disappear) along touches, for a table below its clock -/
theorem TS.stamp_touches_mono (t : TS) (gs : List String) (h : t.OK) (g : String) (n : Nat)
    (hn : t.stamp g = some n) : ∃ n', (t.touches gs).stamp g = some n' ∧ n ≤ n' := by
  by_cases hm : g ∈ gs
  · obtain ⟨n', h1, h2, _⟩ := TS.stamp_touches_mem t gs g hm
    have := TS.stamp_le_clock t h g n hn
    exact ⟨n', h1, by omega⟩
  · exact ⟨n, by rw [TS.stamp_touches_not_mem _ _ _ hm, hn], Nat.le_refl _⟩

/-- with the table below the clock: the stamp of `g` changes iff `g` is touched -/
theorem TS.stamp_touches_ne_iff (t : TS) (gs : List String) (h : t.OK) (g : String) :
    (t.touches gs).stamp g ≠ t.stamp g ↔ g ∈ gs := by
  constructor
  · intro hne
    apply Classical.byContradiction
    intro hm
    exact hne (TS.stamp_touches_not_mem t gs g hm)
  · intro hm heq
    obtain ⟨n, h1, h2, _⟩ := TS.stamp_touches_mem t gs g hm
    rw [h1] at heq
    have := TS.stamp_le_clock t h g n heq.symm
    omega

/-! ### every operation of C03 on the timestamp part -/

theorem insertElem_ok (fs : List String) (m : KV) (g : String) (x : ElemIn) :
    (insertElem fs m g x).2 = elemValid x := by
  cases x with
  | v x => simp only [insertElem, insertVertex, elemValid]; cases validVertex x <;> simp
  | e x => simp only [insertElem, insertEdge, elemValid]; cases validEdge x <;> simp

theorem insertAll_anyOk (fs : List String) (g : String) (xs : List ElemIn) :
    ∀ m : KV, (insertAll fs g m xs).2.1 = xs.any elemValid := by
  induction xs with
  | nil => intro m; simp [insertAll]
  | cons x xs ih => intro m; simp [insertAll, ih, insertElem_ok]

/-- kvgraph AddVertex / AddEdge / BulkAdd: `if inserted { ts.Touch(graph) }` -/
theorem ts_addElems (s : KState) (g : String) (xs : List ElemIn) :
    ts (addElems s g xs).1 =
      if hasGraph s g && xs.any elemValid then (ts s).touch g else ts s := by
  unfold addElems
  by_cases h : hasGraph s g = true
  · have ha := insertAll_anyOk s.fields g xs s.kv
    simp only [h, Bool.not_true, Bool.false_eq_true, if_false, Bool.true_and]
    rw [← ha]
    cases hb : (insertAll s.fields g s.kv xs).2.1 <;> simp [ts, TS.touch, KState.touch]
  · simp [h]

theorem ts_sweepGraph (s : KState) (g : String) : ts (sweepGraph s g) = ts s := rfl

/-- An operation leaves the timestamp part alone or touches the graph it names, nothing else. -/
theorem step_ts (s : KState) (op : Op) :
    ts (step s op).1 = ts s ∨ ts (step s op).1 = (ts s).touch (opGraph op) := by
  cases op with
  | addGraph g =>
    simp only [step, opGraph]
    split
    · exact Or.inl rfl
    · right
      split <;> rfl
  | delGraph g => right; rfl
  | addV g vs => simp only [step, opGraph]; rw [ts_addElems]; split <;> simp
  | addE g es => simp only [step, opGraph]; rw [ts_addElems]; split <;> simp
  | bulk g xs => simp only [step, opGraph]; rw [ts_addElems]; split <;> simp
  | delV g id =>
    simp only [step, opGraph]
    split
    · exact Or.inl rfl
    · exact Or.inr rfl
  | delE g eid =>
    simp only [step, opGraph]
    split
    · exact Or.inl rfl
    · split
      · exact Or.inl rfl
      · exact Or.inr rfl
      · exact Or.inl rfl

/-- a whole run touches a sub-sequence of the graphs its operations name -/
theorem run_ts (ops : List Op) : ∀ s : KState,
    ∃ gs : List String, gs.Sublist (ops.map opGraph) ∧ ts (run s ops) = (ts s).touches gs := by
  induction ops with
  | nil => intro s; exact ⟨[], List.Sublist.refl _, rfl⟩
  | cons op ops ih =>
    intro s
    obtain ⟨gs, hsub, hgs⟩ := ih (step s op).1
    have hrun : run s (op :: ops) = run (step s op).1 ops := rfl
    rcases step_ts s op with h | h
    · exact ⟨gs, by rw [List.map_cons]; exact List.Sublist.cons _ hsub, by rw [hrun, hgs, h]⟩
    · exact ⟨opGraph op :: gs, by rw [List.map_cons]; exact List.Sublist.cons_cons _ hsub,
        by rw [hrun, hgs, h, TS.touches_cons]⟩

theorem ts_foldl_touch (gs : List String) : ∀ s0 : KState,
    ts (gs.foldl (fun t g => t.touch g) s0) = (ts s0).touches gs := by
  induction gs with
  | nil => intro s0; rfl
  | cons g gs ih => intro s0; rw [List.foldl_cons, ih, ts_touch, TS.touches_cons]

/-- NewKVGraph on an existing directory: a fresh table, every listed graph touched -/
theorem ts_reopen (s : KState) :
    ts (Grip.C04.reopen s) = (TS.mk [] s.clock).touches (graphs s.kv) := by
  unfold Grip.C04.reopen
  rw [ts_foldl_touch]; rfl

/-! ### one-by-one loading -/

theorem ts_addOne (s : KState) (p : String × ElemIn) :
    ts (addOne s p) = if appliedOne (hasGraph s) p then (ts s).touch p.1 else ts s := by
  obtain ⟨g, x⟩ := p
  rw [addOne_eq, ts_addElems]
  simp [appliedOne]

theorem ts_sequential (ps : List (String × ElemIn)) : ∀ s : KState,
    ts (sequential s ps) = (ts s).touches (seqTouches (hasGraph s) ps) := by
  induction ps with
  | nil => intro s; rfl
  | cons p ps ih =>
    intro s
    have hseq : sequential s (p :: ps) = sequential (addOne s p) ps := rfl
    have hex : hasGraph (addOne s p) = hasGraph s := funext (hasGraph_addOne s p)
    rw [hseq, ih, hex, ts_addOne]
    by_cases ha : appliedOne (hasGraph s) p = true
    · simp [seqTouches, ha, TS.touches_cons]
    · simp [seqTouches, ha]

/-! ### the receive loop of server.BulkAdd -/

/-- what closing the open element stream touches -/
def closeSeg (cur : Option String) (dirty : Bool) : List String :=
  match cur with
  | some g => if dirty then [g] else []
  | none => []

/-- the touches of the loop from a given loop state: `cur` the selected graph, `dirty` whether
    something was sent on its stream -/
def segTouches (ex : String → Bool) : Option String → Bool → List Item → List String
  | cur, dirty, [] => closeSeg cur dirty
  | cur, dirty, it :: rest =>
    if isSchema it.g then segTouches ex cur dirty rest
    else if cur = some it.g then segTouches ex cur (dirty || isStored ex it) rest
    else closeSeg cur dirty ++
      (if ex it.g then segTouches ex (some it.g) (isStored ex it) rest
       else segTouches ex none false rest)

/-- what `offer` sends on the element stream -/
def offered (uuid : String) : Option ElemIn → List ElemIn
  | none => []
  | some x => if elemValid (fillId uuid x) then [fillId uuid x] else []

theorem offer_st (v : Srv) (u : String) (x : Option ElemIn) : (offer v u x).st = v.st := by
  cases x with
  | none => rfl
  | some x => simp only [offer]; split <;> rfl

theorem offer_cur (v : Srv) (u : String) (x : Option ElemIn) : (offer v u x).cur = v.cur := by
  cases x with
  | none => rfl
  | some x => simp only [offer]; split <;> rfl

theorem offer_pend (v : Srv) (u : String) (x : Option ElemIn) :
    (offer v u x).pend = v.pend ++ offered u x := by
  cases x with
  | none => simp [offer, offered]
  | some x => simp only [offer, offered]; split <;> simp

theorem offered_valid (u : String) (x : Option ElemIn) : ∀ y ∈ offered u x, elemValid y = true := by
  cases x with
  | none => intro y hy; cases hy
  | some x =>
    intro y hy
    simp only [offered] at hy
    split at hy
    · rw [List.mem_singleton.1 hy]; assumption
    · cases hy

theorem isStored_eq (ex : String → Bool) (it : Item) (hs : isSchema it.g = false)
    (hg : ex it.g = true) : isStored ex it = !(offered it.uuid it.x).isEmpty := by
  unfold isStored verdict offered
  cases hx : it.x with
  | none => simp [hs, hg]
  | some x =>
    by_cases hv : elemValid (fillId it.uuid x) = true
    · simp [hs, hg, hv]
    · simp [hs, hg, hv]

theorem isStored_of_not_ex (ex : String → Bool) (it : Item) (hg : ex it.g = false) :
    isStored ex it = false := by
  unfold isStored verdict
  by_cases hs : isSchema it.g = true
  · simp [hs]
  · simp [hs, hg]

theorem isStored_of_schema (ex : String → Bool) (it : Item) (hs : isSchema it.g = true) :
    isStored ex it = false := by
  unfold isStored verdict; simp [hs]

theorem any_valid_of_all (l : List ElemIn) (h : ∀ x ∈ l, elemValid x = true) :
    l.any elemValid = !l.isEmpty := by
  cases l with
  | nil => rfl
  | cons x xs => simp [h x (List.mem_cons_self ..)]

theorem isEmpty_append' {α : Type} (a b : List α) : (!(a ++ b).isEmpty) = (!a.isEmpty || !b.isEmpty) := by
  cases a <;> cases b <;> simp

/-- `close(elementStream)`; wg.Wait(): the loader touches iff it inserted something -/
theorem ts_flush (v : Srv) (hw : WF v) (hv : ∀ x ∈ v.pend, elemValid x = true) :
    ts (flush v).st = (ts v.st).touches (closeSeg v.cur (!v.pend.isEmpty)) := by
  unfold flush
  cases hc : v.cur with
  | none => rfl
  | some g =>
    have hg : hasGraph v.st g = true := hw g hc
    simp only [step]
    rw [ts_addElems, hg, any_valid_of_all _ hv]
    cases hp : v.pend.isEmpty <;> simp [closeSeg, TS.touches_single, TS.touches_nil]

theorem recv_ts (v : Srv) (it : Item) (hw : WF v) (hp : v.cur = none → v.pend = [])
    (hv : ∀ x ∈ v.pend, elemValid x = true) :
    (∀ x ∈ (recv v it).pend, elemValid x = true) ∧
    ∀ rest : List Item,
      (ts (recv v it).st).touches
          (segTouches (hasGraph v.st) (recv v it).cur (!(recv v it).pend.isEmpty) rest) =
      (ts v.st).touches (segTouches (hasGraph v.st) v.cur (!v.pend.isEmpty) (it :: rest)) := by
  unfold recv
  by_cases hs : isSchema it.g = true
  · simp only [hs, if_true]
    exact ⟨hv, fun rest => by simp [segTouches, hs]⟩
  · have hs' : isSchema it.g = false := by simpa using hs
    simp only [hs', Bool.false_eq_true, if_false]
    by_cases hc : v.cur = some it.g
    · have hsel : select v it.g = v := by simp [select, hc]
      have hg : hasGraph v.st it.g = true := hw _ hc
      rw [hsel]; simp only [hc, if_true]
      constructor
      · intro x hx
        rw [offer_pend] at hx
        rcases List.mem_append.1 hx with h | h
        · exact hv x h
        · exact offered_valid _ _ x h
      · intro rest
        rw [offer_st, offer_cur, offer_pend, isEmpty_append', hc]
        simp only [segTouches, hs', Bool.false_eq_true, if_false, if_true]
        rw [isStored_eq _ it hs' hg]
    · have hfc : (flush v).cur = none := flush_cur v
      have hfp : (flush v).pend = [] := flush_pend v hp
      have hft := ts_flush v hw hv
      have hfg : hasGraph (flush v).st it.g = hasGraph v.st it.g := hasGraph_flush v it.g
      by_cases hg : hasGraph v.st it.g = true
      · have hsel : select v it.g = { flush v with cur := some it.g } := by
          simp [select, hc, hfg, hg]
        rw [hsel]; simp only [if_true]
        constructor
        · intro x hx
          rw [offer_pend] at hx
          simp only [hfp, List.nil_append] at hx
          exact offered_valid _ _ x hx
        · intro rest
          rw [offer_st, offer_cur, offer_pend]
          simp only [hfp, List.nil_append, segTouches, hs', Bool.false_eq_true, if_false, hc, hg,
            if_true]
          rw [TS.touches_append, ← hft, isStored_eq _ it hs' hg]
      · have hg' : hasGraph v.st it.g = false := by simpa using hg
        have hsel : select v it.g = flush v := by simp [select, hc, hfg, hg']
        rw [hsel]
        have hne : ¬ (flush v).cur = some it.g := by rw [hfc]; simp
        simp only [hne, if_false]
        constructor
        · intro x hx; simp [hfp] at hx
        · intro rest
          simp only [hfc, hfp, segTouches, hs', Bool.false_eq_true, if_false, hc, hg']
          rw [TS.touches_append, ← hft]
          rfl

/-- The loop invariant on the timestamp part, for every stream and every loop state. -/
theorem flush_foldl_ts (items : List Item) : ∀ v : Srv, WF v → (v.cur = none → v.pend = []) →
    (∀ x ∈ v.pend, elemValid x = true) →
    ts (flush (items.foldl recv v)).st =
      (ts v.st).touches (segTouches (hasGraph v.st) v.cur (!v.pend.isEmpty) items) := by
  induction items with
  | nil => intro v hw _ hv; exact ts_flush v hw hv
  | cons it items ih =>
    intro v hw hp hv
    obtain ⟨hsim, hp'⟩ := recv_sim v it hw hp
    obtain ⟨hv', heq⟩ := recv_ts v it hw hp hv
    have hex : hasGraph (recv v it).st = hasGraph v.st := funext hsim.graphs
    rw [List.foldl_cons, ih (recv v it) hsim.wf hp' hv', hex, heq]

/-! ### runs -/

theorem runsBy_cons (it : Item) (rest : List Item) :
    runsBy (it :: rest) =
      match runsBy rest with
      | (g, r) :: more => if it.g = g then (g, it :: r) :: more else (it.g, [it]) :: (g, r) :: more
      | [] => [(it.g, [it])] := rfl

/-- the runs, concatenated, are the stream -/
theorem runsBy_flatten (xs : List Item) : ((runsBy xs).map (·.2)).flatten = xs := by
  induction xs with
  | nil => rfl
  | cons it rest ih =>
    rw [runsBy_cons]
    cases h : runsBy rest with
    | nil => rw [h] at ih; simp at ih; simp [← ih]
    | cons sg more =>
      obtain ⟨g, r⟩ := sg
      rw [h] at ih
      simp only
      split
      · simp only [List.map_cons, List.flatten_cons] at ih ⊢
        rw [← ih]; rfl
      · simp only [List.map_cons, List.flatten_cons] at ih ⊢
        rw [← ih]; rfl

/-- every run is non-empty and all its items address the run's graph -/
theorem runsBy_graph (xs : List Item) :
    ∀ sg ∈ runsBy xs, sg.2 ≠ [] ∧ ∀ it ∈ sg.2, it.g = sg.1 := by
  induction xs with
  | nil => intro sg h; cases h
  | cons it rest ih =>
    rw [runsBy_cons]
    cases h : runsBy rest with
    | nil =>
      intro sg hsg
      simp only [List.mem_singleton] at hsg
      subst hsg
      exact ⟨by simp, by intro it' h'; rw [List.mem_singleton.1 h']⟩
    | cons sg0 more =>
      obtain ⟨g, r⟩ := sg0
      rw [h] at ih
      have ih0 := ih (g, r) (List.mem_cons_self ..)
      have ihm : ∀ sg ∈ more, sg.2 ≠ [] ∧ ∀ it ∈ sg.2, it.g = sg.1 :=
        fun sg hsg => ih sg (List.mem_cons_of_mem _ hsg)
      simp only
      split
      · rename_i hg
        intro sg hsg
        rcases List.mem_cons.1 hsg with e | e
        · subst e
          refine ⟨by simp, ?_⟩
          intro it' h'
          rcases List.mem_cons.1 h' with e' | e'
          · rw [e']; exact hg
          · exact ih0.2 it' e'
        · exact ihm sg e
      · intro sg hsg
        rcases List.mem_cons.1 hsg with e | e
        · subst e
          exact ⟨by simp, by intro it' h'; rw [List.mem_singleton.1 h']⟩
        · exact ih sg e

/-- the runs are maximal: two neighbours address different graphs -/
theorem runsBy_maximal (xs : List Item) :
    ∀ pre a b post, runsBy xs = pre ++ a :: b :: post → a.1 ≠ b.1 := by
  induction xs with
  | nil => intro pre a b post h; cases pre <;> simp [runsBy] at h
  | cons it rest ih =>
    rw [runsBy_cons]
    cases h : runsBy rest with
    | nil =>
      intro pre a b post he
      cases pre with
      | nil => simp at he
      | cons _ pre => cases pre <;> simp at he
    | cons sg0 more =>
      obtain ⟨g, r⟩ := sg0
      rw [h] at ih
      simp only
      split
      · rename_i hg
        intro pre a b post he
        cases pre with
        | nil =>
          simp only [List.nil_append, List.cons.injEq] at he
          obtain ⟨ha, hm⟩ := he
          have := ih [] (g, r) b post (by simp [hm])
          rw [← ha]; exact this
        | cons p pre =>
          simp only [List.cons_append, List.cons.injEq] at he
          exact ih ((g, r) :: pre) a b post (by simp [he.2])
      · rename_i hg
        intro pre a b post he
        cases pre with
        | nil =>
          simp only [List.nil_append, List.cons.injEq] at he
          obtain ⟨ha, hb, _⟩ := he
          rw [← ha, ← hb]; exact hg
        | cons p pre =>
          simp only [List.cons_append, List.cons.injEq] at he
          exact ih pre a b post he.2

/-! ### the loop's touches are the touches of the runs -/

def tch (g : String) (b : Bool) : List String := if b then [g] else []

theorem runTouches_nil (ex : String → Bool) : runTouches ex [] = [] := rfl

theorem runTouches_cons (ex : String → Bool) (g : String) (r : List Item)
    (more : List (String × List Item)) :
    runTouches ex ((g, r) :: more) = tch g (r.any (isStored ex)) ++ runTouches ex more := by
  simp only [runTouches, List.filterMap_cons, tch]
  cases r.any (isStored ex) <;> simp

/-- the loop state in front of a list of runs -/
def closeRuns (ex : String → Bool) (cur : Option String) (dirty : Bool) :
    List (String × List Item) → List String
  | [] => closeSeg cur dirty
  | (g, r) :: more =>
    if cur = some g then tch g (dirty || r.any (isStored ex)) ++ runTouches ex more
    else closeSeg cur dirty ++ (tch g (r.any (isStored ex)) ++ runTouches ex more)

theorem closeSeg_some (g : String) (b : Bool) : closeSeg (some g) b = tch g b := by
  cases b <;> rfl

theorem closeRuns_none (ex : String → Bool) (runs : List (String × List Item)) :
    closeRuns ex none false runs = runTouches ex runs := by
  cases runs with
  | nil => rfl
  | cons sg more =>
    obtain ⟨g, r⟩ := sg
    simp [closeRuns, runTouches_cons, closeSeg]

theorem segTouches_eq_closeRuns (ex : String → Bool) (items : List Item) :
    ∀ (cur : Option String) (dirty : Bool),
      segTouches ex cur dirty items = closeRuns ex cur dirty (runsBy (items.filter notSchema)) := by
  induction items with
  | nil => intro cur dirty; rfl
  | cons it rest ih =>
    intro cur dirty
    by_cases hs : isSchema it.g = true
    · have : (it :: rest).filter notSchema = rest.filter notSchema := by
        simp [notSchema, hs]
      rw [this, ← ih]; simp [segTouches, hs]
    · have hs' : isSchema it.g = false := by simpa using hs
      have : (it :: rest).filter notSchema = it :: rest.filter notSchema := by
        simp [notSchema, hs']
      rw [this, runsBy_cons]
      simp only [segTouches, hs', Bool.false_eq_true, if_false]
      -- the head item joins the first run of the rest, or opens a run of its own
      have key : ∀ (b : Bool),
          closeRuns ex (some it.g) b (runsBy (rest.filter notSchema)) =
          tch it.g (b || ((match runsBy (rest.filter notSchema) with
              | (g, r) :: _ => if it.g = g then r.any (isStored ex) else false
              | [] => false))) ++
            (match runsBy (rest.filter notSchema) with
              | (g, r) :: more => if it.g = g then runTouches ex more else runTouches ex ((g, r) :: more)
              | [] => []) := by
        intro b
        cases h : runsBy (rest.filter notSchema) with
        | nil => simp [closeRuns, closeSeg_some]
        | cons sg more =>
          obtain ⟨g, r⟩ := sg
          by_cases hg : it.g = g
          · simp [closeRuns, hg]
          · have hne : ¬ some it.g = some g := by simpa using hg
            simp [closeRuns, hne, hg, closeSeg_some, runTouches_cons]
      by_cases hc : cur = some it.g
      · simp only [hc, if_true]
        rw [ih, key]
        cases h : runsBy (rest.filter notSchema) with
        | nil => simp [closeRuns, List.any_cons, runTouches_nil]
        | cons sg more =>
          obtain ⟨g, r⟩ := sg
          by_cases hg : it.g = g
          · simp [closeRuns, hg, List.any_cons, Bool.or_assoc]
          · have hne : ¬ some it.g = some g := by simpa using hg
            simp [closeRuns, hg, runTouches_cons]
      · simp only [hc, if_false]
        by_cases he : ex it.g = true
        · simp only [he, if_true]
          rw [ih, key]
          cases h : runsBy (rest.filter notSchema) with
          | nil => simp [closeRuns, hc, runTouches_nil]
          | cons sg more =>
            obtain ⟨g, r⟩ := sg
            by_cases hg : it.g = g
            · have hc' : ¬ cur = some g := by rw [← hg]; exact hc
              simp [closeRuns, hg, hc', List.any_cons]
            · simp [closeRuns, hg, hc, runTouches_cons]
        · have he' : ex it.g = false := by simpa using he
          have hst : isStored ex it = false := isStored_of_not_ex ex it he'
          simp only [he', Bool.false_eq_true, if_false]
          rw [ih, closeRuns_none]
          cases h : runsBy (rest.filter notSchema) with
          | nil => simp [closeRuns, hc, hst, tch, runTouches]
          | cons sg more =>
            obtain ⟨g, r⟩ := sg
            by_cases hg : it.g = g
            · have hc' : ¬ cur = some g := by rw [← hg]; exact hc
              simp [closeRuns, hg, hc', List.any_cons, hst, runTouches_cons]
            · simp [closeRuns, hg, hc, runTouches_cons, hst, tch]

theorem segTouches_eq_bulkTouches (ex : String → Bool) (stream : List Item) :
    segTouches ex none false stream = bulkTouches ex stream := by
  rw [segTouches_eq_closeRuns, closeRuns_none]; rfl

/-- **The timestamp part after a bulk load**: the start table, touched once per segment that
    stored something, in stream order. -/
theorem ts_bulkAdd (s : KState) (stream : List Item) :
    ts (bulkAdd s stream).st = (ts s).touches (bulkTouches (hasGraph s) stream) := by
  have h := flush_foldl_ts stream { st := s } (by intro g h; simp at h) (by intro _; rfl)
    (by intro x hx; simp at hx)
  rw [← segTouches_eq_bulkTouches]
  exact h

/-! ### which graphs, how many touches -/

theorem verdict_store_graph (ex : String → Bool) (it : Item) (g : String) (x : ElemIn)
    (h : verdict ex it = .store g x) : g = it.g := by
  unfold verdict at h
  split at h
  · cases h
  · split at h
    · cases h
    · split at h
      · cases h
      · split at h
        · injection h with h1 _; exact h1.symm
        · cases h

theorem isStored_iff (ex : String → Bool) (it : Item) :
    isStored ex it = true ↔ ∃ x, verdict ex it = .store it.g x := by
  unfold isStored
  cases hv : verdict ex it with
  | store g x =>
    have := verdict_store_graph ex it g x hv
    subst this
    simp
  | error => simp
  | nothing => simp

theorem mem_accepted_graph (ex : String → Bool) (stream : List Item) (g : String) :
    (∃ p ∈ accepted ex stream, p.1 = g) ↔ ∃ it ∈ stream, it.g = g ∧ isStored ex it = true := by
  constructor
  · rintro ⟨p, hp, rfl⟩
    simp only [accepted, List.mem_filterMap] at hp
    obtain ⟨it, hit, h⟩ := hp
    cases hv : verdict ex it with
    | store g x =>
      rw [hv] at h
      simp only [Option.some.injEq] at h
      subst h
      have hg := verdict_store_graph ex it g x hv
      exact ⟨it, hit, hg.symm, (isStored_iff ex it).2 ⟨x, hg ▸ hv⟩⟩
    | error => rw [hv] at h; cases h
    | nothing => rw [hv] at h; cases h
  · rintro ⟨it, hit, rfl, hst⟩
    obtain ⟨x, hx⟩ := (isStored_iff ex it).1 hst
    refine ⟨(it.g, x), ?_, rfl⟩
    simp only [accepted, List.mem_filterMap]
    exact ⟨it, hit, by rw [hx]⟩

theorem mem_runTouches (ex : String → Bool) (runs : List (String × List Item)) (g : String) :
    g ∈ runTouches ex runs ↔ ∃ sg ∈ runs, sg.1 = g ∧ sg.2.any (isStored ex) = true := by
  simp only [runTouches, List.mem_filterMap]
  constructor
  · rintro ⟨sg, hsg, h⟩
    split at h
    · rename_i hany
      exact ⟨sg, hsg, by simpa using h, hany⟩
    · cases h
  · rintro ⟨sg, hsg, rfl, hany⟩
    exact ⟨sg, hsg, by simp [hany]⟩

/-- a graph is touched by the bulk load iff the stream stores an element for it -/
theorem mem_bulkTouches (ex : String → Bool) (stream : List Item) (g : String) :
    g ∈ bulkTouches ex stream ↔ ∃ it ∈ stream, it.g = g ∧ isStored ex it = true := by
  unfold bulkTouches segments
  rw [mem_runTouches]
  constructor
  · rintro ⟨sg, hsg, rfl, hany⟩
    obtain ⟨it, hit, hst⟩ := List.any_eq_true.1 hany
    have hg := (runsBy_graph _ sg hsg).2 it hit
    have hmem : it ∈ ((runsBy (stream.filter notSchema)).map (·.2)).flatten :=
      List.mem_flatten.2 ⟨sg.2, List.mem_map.2 ⟨sg, hsg, rfl⟩, hit⟩
    rw [runsBy_flatten] at hmem
    exact ⟨it, (List.mem_filter.1 hmem).1, hg, hst⟩
  · rintro ⟨it, hit, rfl, hst⟩
    have hns : notSchema it = true := by
      unfold notSchema
      cases hs : isSchema it.g with
      | false => rfl
      | true => rw [isStored_of_schema ex it hs] at hst; cases hst
    have hmem : it ∈ ((runsBy (stream.filter notSchema)).map (·.2)).flatten := by
      rw [runsBy_flatten]; exact List.mem_filter.2 ⟨hit, hns⟩
    obtain ⟨r, hr, hir⟩ := List.mem_flatten.1 hmem
    obtain ⟨sg, hsg, rfl⟩ := List.mem_map.1 hr
    exact ⟨sg, hsg, ((runsBy_graph _ sg hsg).2 it hir).symm, List.any_eq_true.2 ⟨it, hir, hst⟩⟩

theorem accepted_append (ex : String → Bool) (a b : List Item) :
    accepted ex (a ++ b) = accepted ex a ++ accepted ex b := by
  simp [accepted, List.filterMap_append]

theorem accepted_filter_notSchema (ex : String → Bool) (stream : List Item) :
    accepted ex (stream.filter notSchema) = accepted ex stream := by
  induction stream with
  | nil => rfl
  | cons it rest ih =>
    by_cases hs : isSchema it.g = true
    · have hv : verdict ex it = .error := by simp [verdict, hs]
      simp only [List.filter_cons, notSchema, hs, Bool.not_true, Bool.false_eq_true, if_false]
      rw [ih]; simp [accepted, hv]
    · have hs' : isSchema it.g = false := by simpa using hs
      simp only [List.filter_cons, notSchema, hs', Bool.not_false, if_true]
      simp only [accepted, List.filterMap_cons] at ih ⊢
      rw [ih]

theorem accepted_length_pos (ex : String → Bool) (r : List Item)
    (h : r.any (isStored ex) = true) : 0 < (accepted ex r).length := by
  obtain ⟨it, hit, hst⟩ := List.any_eq_true.1 h
  obtain ⟨p, hp, _⟩ := (mem_accepted_graph ex r it.g).2 ⟨it, hit, rfl, hst⟩
  exact List.length_pos_of_mem hp

theorem accepted_eq_nil (ex : String → Bool) (r : List Item)
    (h : r.any (isStored ex) = false) : accepted ex r = [] := by
  apply List.eq_nil_iff_forall_not_mem.2
  intro p hp
  obtain ⟨it, hit, _, hst⟩ := (mem_accepted_graph ex r p.1).1 ⟨p, hp, rfl⟩
  have : r.any (isStored ex) = true := List.any_eq_true.2 ⟨it, hit, hst⟩
  rw [h] at this; cases this

/-- one touch per run with a stored element, one accepted element per stored element -/
theorem runTouches_length_le (ex : String → Bool) (runs : List (String × List Item)) :
    (runTouches ex runs).length ≤ (accepted ex (runs.map (·.2)).flatten).length := by
  induction runs with
  | nil => simp [runTouches]
  | cons sg more ih =>
    obtain ⟨g, r⟩ := sg
    rw [runTouches_cons, List.map_cons, List.flatten_cons, accepted_append, List.length_append,
      List.length_append]
    cases h : r.any (isStored ex) with
    | false => simp only [tch]; simp; omega
    | true =>
      have := accepted_length_pos ex r h
      simp only [tch, if_true, List.length_singleton]; omega

/-- equality of the two counts: exactly when no run stores two elements -/
theorem runTouches_length_eq_iff (ex : String → Bool) (runs : List (String × List Item)) :
    (runTouches ex runs).length = (accepted ex (runs.map (·.2)).flatten).length ↔
      ∀ sg ∈ runs, (accepted ex sg.2).length ≤ 1 := by
  induction runs with
  | nil => simp [runTouches, accepted]
  | cons sg more ih =>
    obtain ⟨g, r⟩ := sg
    have hle := runTouches_length_le ex more
    rw [runTouches_cons, List.map_cons, List.flatten_cons, accepted_append, List.length_append,
      List.length_append]
    simp only [List.mem_cons, forall_eq_or_imp]
    rw [← ih]
    cases h : r.any (isStored ex) with
    | false =>
      have := accepted_eq_nil ex r h
      simp only [tch, Bool.false_eq_true, if_false, List.length_nil, this]
      omega
    | true =>
      have := accepted_length_pos ex r h
      simp only [tch, if_true, List.length_singleton]
      omega

theorem bulkTouches_length_le (ex : String → Bool) (stream : List Item) :
    (bulkTouches ex stream).length ≤ (accepted ex stream).length := by
  have := runTouches_length_le ex (segments stream)
  unfold segments at this
  rw [runsBy_flatten, accepted_filter_notSchema] at this
  exact this

theorem bulkTouches_length_eq_iff (ex : String → Bool) (stream : List Item) :
    (bulkTouches ex stream).length = (accepted ex stream).length ↔
      ∀ sg ∈ segments stream, (accepted ex sg.2).length ≤ 1 := by
  have := runTouches_length_eq_iff ex (segments stream)
  unfold segments at this
  rw [runsBy_flatten, accepted_filter_notSchema] at this
  exact this


end Grip.Props.C18
