import Grip.Model.C12

/-! Conservation (no traveler lost or duplicated), existence of the per-traveler unrolling for
    depth-bounded cycles, and its agreement with the iterative definition. -/
set_option linter.unusedSimpArgs false
namespace Grip.Props.C12.Lemmas
open Grip.C12

variable {T : Type}

theorem flatMap_congr' {α β : Type} {l : List α} {f g : α → List β}
    (h : ∀ x ∈ l, f x = g x) : l.flatMap f = l.flatMap g := by
  induction l with
  | nil => rfl
  | cons a r ih =>
    simp only [List.flatMap_cons]
    rw [h a (by simp), ih (fun x hx => h x (by simp [hx]))]

theorem fut_congr {R R' : T → List T} : ∀ (sys : List (Stage T)) (t : T),
    (∀ t' ∈ thru sys t, R t' = R' t') → fut R sys t = fut R' sys t
  | [], t, h => by simpa [fut, thru] using h
  | st :: rest, t, h => by
    simp only [fut]
    congr 1
    apply flatMap_congr'
    intro u hu
    apply fut_congr rest u
    intro t' ht'
    apply h
    simp only [thru, List.mem_flatMap]
    exact ⟨u, hu, ht'⟩

theorem unroll_indep {sys : List (Stage T)} {μ : T → Nat} (hb : SysBounded sys μ) :
    ∀ (n m : Nat) (t : T), μ t < n → μ t < m → unroll sys n t = unroll sys m t := by
  intro n
  induction n with
  | zero => intro m t h; omega
  | succ n ih =>
    intro m t hn hm
    cases m with
    | zero => omega
    | succ m =>
      simp only [unroll]
      apply fut_congr
      intro t' ht'
      have := hb t t' ht'
      exact ih m t' (by omega) (by omega)

/-- The rows one traveler entering the mark contributes (well defined for bounded cycles). -/
def Rof (sys : List (Stage T)) (μ : T → Nat) (t : T) : List T := unroll sys (μ t + 1) t

theorem Rof_eq {sys : List (Stage T)} {μ : T → Nat} (hb : SysBounded sys μ) (t : T) :
    Rof sys μ t = fut (Rof sys μ) sys t := by
  show unroll sys (μ t + 1) t = fut (Rof sys μ) sys t
  have e : unroll sys (μ t + 1) t = fut (unroll sys (μ t)) sys t := rfl
  rw [e]
  apply fut_congr
  intro t' ht'
  have := hb t t' ht'
  show unroll sys (μ t) t' = unroll sys (μ t' + 1) t'
  exact unroll_indep hb _ _ t' this (by omega)

theorem Rof_eq_unroll {sys : List (Stage T)} {μ : T → Nat} (hb : SysBounded sys μ) (N : Nat) (t : T)
    (h : μ t < N) : Rof sys μ t = unroll sys N t :=
  unroll_indep hb _ _ t (by omega) h

/-! ### conservation -/

theorem pot_append (R : T → List T) (sys : List (Stage T)) (A B : List (Nat × Msg T)) :
    pot R sys (A ++ B) = pot R sys A ++ pot R sys B := by
  simp [pot]

theorem pot_travs (R : T → List T) (sys : List (Stage T)) (j : Nat) (l : List T) :
    pot R sys (l.map (fun u => (j, Msg.trav u))) = l.flatMap (fut R (sys.drop j)) := by
  induction l with
  | nil => rfl
  | cons a r ih =>
    simp only [pot] at ih
    simp [pot, potMsg, ih]

theorem perm_move {α : Type} (E D I A F B : List α) :
    ((E ++ D) ++ I ++ (A ++ F ++ B)).Perm (E ++ I ++ (A ++ (D ++ F) ++ B)) := by
  have h : (D ++ ((I ++ A) ++ (F ++ B))).Perm ((I ++ A) ++ (D ++ (F ++ B))) := by
    rw [← List.append_assoc, ← List.append_assoc (I ++ A)]
    exact List.Perm.append_right _ List.perm_append_comm
  have h2 := List.Perm.append_left E h
  simpa [List.append_assoc] using h2

theorem total_markDecide (R : T → List T) (sys : List (Stage T)) (s : State T) :
    total R sys (markDecide 1 s) = total R sys s := by
  unfold markDecide
  split
  · simp [total, pot, potMsg]
  · split <;> simp [total]

theorem drop_of_getElem? {α : Type} {l : List α} {i : Nat} {a : α} (h : l[i]? = some a) :
    l.drop i = a :: l.drop (i + 1) := by
  obtain ⟨hi, ha⟩ := List.getElem?_eq_some_iff.mp h
  rw [List.drop_eq_getElem_cons hi, ha]

theorem total_step {R : T → List T} {sys : List (Stage T)} (hR : ∀ t, R t = fut R sys t)
    {l : Label} {s s' : State T} (hs : Step sys l s s') :
    (total R sys s').Perm (total R sys s) := by
  cases hs with
  | @stageTrav _ A B i t st hW hA hst =>
    have hd := drop_of_getElem? hst
    simp only [total, hW, pot_append, pot_travs]
    have e : pot R sys ((i, Msg.trav t) :: B)
        = (st.down t ++ (st.fwd t).flatMap (fut R (sys.drop (i + 1)))) ++ pot R sys B := by
      simp [pot, potMsg, hd, fut]
    rw [e]
    have := perm_move s.emitted (st.down t) (s.inp.flatMap R) (pot R sys A)
      ((st.fwd t).flatMap (fut R (sys.drop (i + 1)))) (pot R sys B)
    simpa [List.append_assoc] using this
  | @stageSig _ A B i k st hW hA hst =>
    simp [total, hW, pot, potMsg]
  | @openJump _ m B hp hW =>
    cases m with
    | sig k => simp [total, hW, pot, potMsg]
    | trav t =>
      have e1 : pot R sys ((sys.length, Msg.trav t) :: B) = R t ++ pot R sys B := by
        simp [pot, potMsg, fut]
      have e2 : pot R sys (B ++ [(0, Msg.trav t)]) = pot R sys B ++ R t := by
        simp [pot, potMsg, ← hR t]
      simp only [total, hW, e1, e2]
      exact List.Perm.append_left _ List.perm_append_comm
  | @openIn _ t r hp hN hI =>
    have e2 : pot R sys (s.W ++ [(0, Msg.trav t)]) = pot R sys s.W ++ R t := by
      simp [pot, potMsg, ← hR t]
    simp only [total, hI, e2, List.flatMap_cons]
    have h : (R t ++ (r.flatMap R ++ pot R sys s.W)).Perm ((r.flatMap R ++ pot R sys s.W) ++ R t) :=
      List.perm_append_comm
    have h2 := List.Perm.append_left s.emitted h
    simpa [List.append_assoc] using h2.symm
  | openClose hp hN hI => simp [total]
  | @closeTrav _ t B hp hW =>
    have e1 : pot R sys ((sys.length, Msg.trav t) :: B) = R t ++ pot R sys B := by
      simp [pot, potMsg, fut]
    have e2 : pot R sys (B ++ [(0, Msg.trav t)]) = pot R sys B ++ R t := by
      simp [pot, potMsg, ← hR t]
    simp only [total, hW, e1, e2]
    exact List.Perm.append_left _ List.perm_append_comm
  | @closeSig _ k B hp hW =>
    rw [total_markDecide]
    simp [total, hW, pot, potMsg]
  | closePoll hp hN =>
    rw [total_markDecide]

theorem total_reachable {R : T → List T} {sys : List (Stage T)} (hR : ∀ t, R t = fut R sys t)
    {inp0 : List T} {s : State T} (h : Reachable sys inp0 s) :
    (total R sys s).Perm (inp0.flatMap R) := by
  induction h with
  | init => simp [total, init, pot]
  | step _ hs ih => exact (total_step hR hs).trans ih

/-! ### the unrolling of `loopSys L` is the iterative definition -/

theorem fut_loopSys (L : Loop T) (U : T → List T) (t : T) :
    fut U (loopSys L) t
      = (L.body t).flatMap (fun u => L.emitOf [u] ++ (if L.cond u then U u else [])) := by
  simp only [loopSys, fut, bodyStage, jumpStage, idStage, List.nil_append]
  apply flatMap_congr'
  intro u _
  cases he : L.emit <;> cases hc : L.cond u <;> simp [Loop.emitOf, he, hc]

theorem emitOf_cons (L : Loop T) (u : T) (r : List T) :
    L.emitOf (u :: r) = L.emitOf [u] ++ L.emitOf r := by
  cases he : L.emit <;> simp [Loop.emitOf, he]

theorem split_g (L : Loop T) (U : T → List T) (B : List T) :
    (B.flatMap (fun u => L.emitOf [u] ++ (if L.cond u then U u else []))).Perm
      (L.emitOf B ++ (B.filter L.cond).flatMap U) := by
  induction B with
  | nil => cases he : L.emit <;> simp [Loop.emitOf, he]
  | cons u r ih =>
    have ef : ((u :: r).filter L.cond).flatMap U
        = (if L.cond u then U u else []) ++ (r.filter L.cond).flatMap U := by
      cases hc : L.cond u <;> simp [List.filter_cons, hc]
    rw [List.flatMap_cons, emitOf_cons L u r, ef]
    generalize L.emitOf [u] = eu
    generalize (if L.cond u then U u else []) = xu
    generalize L.emitOf r = er at ih ⊢
    generalize (r.filter L.cond).flatMap U = fr at ih ⊢
    have h1 : ((eu ++ xu) ++ _).Perm ((eu ++ xu) ++ (er ++ fr)) := List.Perm.append_left _ ih
    refine h1.trans ?_
    have h2 : (xu ++ (er ++ fr)).Perm (er ++ (xu ++ fr)) := by
      rw [← List.append_assoc, ← List.append_assoc]
      exact List.Perm.append_right _ List.perm_append_comm
    have h3 := List.Perm.append_left eu h2
    simpa [List.append_assoc] using h3

theorem unroll_perm_iterate (L : Loop T) (n : Nat) (ts : List T) :
    (ts.flatMap (unroll (loopSys L) n)).Perm (iterate L n ts) := by
  induction n generalizing ts with
  | zero =>
    have : ts.flatMap (unroll (loopSys L) 0) = [] := by
      induction ts with
      | nil => rfl
      | cons a r ih => simp [unroll, ih]
    simp [this, iterate]
  | succ n ih =>
    have e : ts.flatMap (unroll (loopSys L) (n + 1))
        = (ts.flatMap L.body).flatMap
            (fun u => L.emitOf [u] ++ (if L.cond u then unroll (loopSys L) n u else [])) := by
      rw [List.flatMap_assoc]
      apply flatMap_congr'
      intro t _
      simp only [unroll]
      exact fut_loopSys L _ t
    rw [e]
    simp only [iterate]
    exact (split_g L _ _).trans (List.Perm.append_left _ (ih _))

theorem thru_loopSys (L : Loop T) (t t' : T) :
    t' ∈ thru (loopSys L) t ↔ t' ∈ L.body t ∧ L.cond t' = true := by
  simp [loopSys, thru, bodyStage, jumpStage, idStage]

theorem sysBounded_loopSys {L : Loop T} {μ : T → Nat} (hb : Bounded L μ) : SysBounded (loopSys L) μ := by
  intro t t' h
  obtain ⟨h1, h2⟩ := (thru_loopSys L t t').mp h
  exact hb t t' h1 h2

end Grip.Props.C12.Lemmas
