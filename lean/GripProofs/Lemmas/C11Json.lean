/-
  C11 lemmas: the traveler JSON round trip.
-/
import Grip.Model.C11

namespace Grip.Props.C11.Lemmas
open Grip Grip.C11

theorem elem_roundtrip (e : Elem) (h : elemRep e = true) : unmarshalElem (marshalElem e) = e := by
  obtain ⟨gid, label, frm, to, data, loaded⟩ := e
  simp only [elemRep] at h
  cases data <;> simp_all [unmarshalElem, marshalElem, JV.getKey?, List.find?, strOf, boolOf, dataOf]

theorem optElem_roundtrip (o : Option Elem) (h : optElemRep o = true) :
    unmarshalOptElem (marshalOptElem o) = o := by
  cases o with
  | none => simp [marshalOptElem, unmarshalOptElem]
  | some e =>
    have := elem_roundtrip e h
    simp only [marshalOptElem]
    simp only [marshalElem] at this ⊢
    simp only [unmarshalOptElem, this]

theorem pathEl_roundtrip (p : PathEl) (h : pathElRep p = true) :
    unmarshalPathEl (marshalPathEl p) = p := by
  cases p <;> simp_all [pathElRep, unmarshalPathEl, marshalPathEl, JV.getKey?, List.find?, strOf]

theorem agg_roundtrip (a : AggVal) : unmarshalAgg (some (marshalAgg a)) = some a := by
  obtain ⟨n, k, v⟩ := a
  simp [unmarshalAgg, marshalAgg, JV.getKey?, List.find?, strOf]

theorem marks_roundtrip (ms : List (String × Option Elem))
    (h : ms.all (fun kv => optElemRep kv.2) = true) :
    (ms.map fun kv => (kv.1, marshalOptElem kv.2)).map (fun kv => (kv.1, unmarshalOptElem kv.2)) = ms := by
  induction ms with
  | nil => rfl
  | cons kv rest ih =>
    simp only [List.all_cons, Bool.and_eq_true] at h
    simp only [List.map_cons, ih h.2, optElem_roundtrip kv.2 h.1]

theorem sel_roundtrip (s : List (String × Elem)) (h : s.all (fun kv => elemRep kv.2) = true) :
    (s.map fun kv => (kv.1, marshalElem kv.2)).map (fun kv => (kv.1, unmarshalElem kv.2)) = s := by
  induction s with
  | nil => rfl
  | cons kv rest ih =>
    simp only [List.all_cons, Bool.and_eq_true] at h
    simp only [List.map_cons, ih h.2, elem_roundtrip kv.2 h.1]

theorem path_roundtrip (p : List PathEl) (h : p.all pathElRep = true) :
    (p.map marshalPathEl).map unmarshalPathEl = p := by
  induction p with
  | nil => rfl
  | cons x rest ih =>
    simp only [List.all_cons, Bool.and_eq_true] at h
    simp only [List.map_cons, ih h.2, pathEl_roundtrip x h.1]

theorem count_roundtrip (n : Nat) : ((Int.ofNat n * 1024) / 1024).toNat = n := by
  rw [Int.mul_ediv_cancel _ (by decide)]
  rfl

theorem get_current (t : Traveler) : (marshal t).getKey? "Current" = some (marshalOptElem t.cur) := by
  simp [marshal, JV.getKey?, List.find?]
theorem get_marks (t : Traveler) : (marshal t).getKey? "Marks"
    = some (.obj (t.marks.map fun kv => (kv.1, marshalOptElem kv.2))) := by
  simp [marshal, JV.getKey?, List.find?]
theorem get_sel (t : Traveler) : (marshal t).getKey? "Selections"
    = some (match t.sel with
        | none => .null
        | some s => .obj (s.map fun kv => (kv.1, marshalElem kv.2))) := by
  obtain ⟨cur, marks, path, count, render, sel, agg⟩ := t
  cases sel <;> simp [marshal, JV.getKey?, List.find?]
theorem get_agg (t : Traveler) : (marshal t).getKey? "Aggregation"
    = some (match t.agg with | none => .null | some a => marshalAgg a) := by
  obtain ⟨cur, marks, path, count, render, sel, agg⟩ := t
  cases agg <;> simp [marshal, JV.getKey?, List.find?]
theorem get_count (t : Traveler) : (marshal t).getKey? "Count" = some (.num (Int.ofNat t.count * 1024)) := by
  simp [marshal, JV.getKey?, List.find?]
theorem get_render (t : Traveler) : (marshal t).getKey? "Render" = some t.render := by
  simp [marshal, JV.getKey?, List.find?]
theorem get_path (t : Traveler) : (marshal t).getKey? "Path" = some (.arr (t.path.map marshalPathEl)) := by
  simp [marshal, JV.getKey?, List.find?]

theorem traveler_roundtrip (t : Traveler) (h : travRep t = true) : unmarshal (marshal t) = t := by
  have hh := h
  simp only [travRep, Bool.and_eq_true] at hh
  obtain ⟨⟨⟨hc, hm⟩, hp⟩, hs⟩ := hh
  have e1 := optElem_roundtrip t.cur hc
  have e2 := marks_roundtrip t.marks hm
  have e3 := path_roundtrip t.path hp
  have e4 := count_roundtrip t.count
  unfold unmarshal
  rw [get_current, get_marks, get_sel, get_agg, get_count, get_render, get_path]
  obtain ⟨cur, marks, path, count, render, sel, agg⟩ := t
  simp only [Option.bind, Option.getD, e2, e3, e4, Traveler.mk.injEq, true_and] at *
  refine ⟨?_, ?_, ?_⟩
  · cases cur with
    | none => simp [marshalOptElem, unmarshalOptElem]
    | some e => simpa using e1
  · cases sel with
    | none => rfl
    | some s => simp only [sel_roundtrip s hs]
  · cases agg with
    | none => simp [unmarshalAgg]
    | some a => exact agg_roundtrip a

end Grip.Props.C11.Lemmas
