/-
  Lemmas for C13, liveness of the round-robin worker pool (MarshalStream / UnmarshalStream):
  a natural-number measure that every step of every goroutine strictly decreases.

  The measure is `(n+1) * (2 * pending + found) + rest` (`n` = nworkers):
    * `pending` = items not yet output (input + the three places of every worker); only the merger's
      receive changes it.  The merger's index walks `mstart … n` once per round, a round that
      found something is followed by another one, so the merger makes at most `n+1` steps per
      unit of `2 * pending + found`.
    * `rest` = the walk left in the current round (`n - mi`), the moves the items still have to make
      to reach their `fromWorkers` channel (3 from the input, 2 from `toWorkers`, 1 in a worker's
      hand), the channels the distributor and the workers still have to close, the output close.
  It is stated for every configuration (`ge`, `mstart`, even `n = 0`); the only invariant needed
  is `RRBound`: the distributor index and its closed-count stay `≤ n`, so worker numbers `> n` are
  never used and the sums over workers `0 … n` are complete.
-/
import Grip.Model.C13
import Grip.Spec.C13Live
import GripProofs.Lemmas.C13
import GripProofs.Lemmas.C13Tagged
import GripProofs.Lemmas.C13Live

namespace Grip.Props.C13.Lemmas
open Grip.C13 Grip.C13.Spec

theorem sumTo_const (K v : Nat) : sumTo K (fun _ => v) = K * v := by
  induction K with
  | zero => simp [sumTo]
  | succ K ih => simp only [sumTo, ih, Nat.succ_mul]

/-- the nonlinear step: `W * m + r` decreases when `m` stays and `r` decreases, or when `m`
    decreases and `r` grows by less than `W` -/
theorem mu_lt_of (W m m' r r' : Nat) (h : (m' = m ∧ r' < r) ∨ (m' < m ∧ r' < r + W)) :
    W * m' + r' < W * m + r := by
  rcases h with ⟨h1, h2⟩ | ⟨h1, h2⟩
  · subst h1; omega
  · have : W * (m' + 1) ≤ W * m := Nat.mul_le_mul_left W h1
    rw [Nat.mul_succ] at this
    omega

theorem wrapNext_le (c : RRCfg) (k : Nat) (h : k ≤ c.n) : wrapNext c k ≤ c.n := by
  unfold wrapNext
  cases hg : c.ge
  · simp only [Bool.false_eq_true, if_false]
    split <;> omega
  · simp only [if_true]
    split <;> omega

/-- worker numbers `> n` are never used -/
structure RRBound {α β : Type} (c : RRCfg) (s : RR α β) : Prop where
  nd : s.nd ≤ c.n
  dcl : s.dClosed ≤ c.n
  tow : ∀ i, c.n < i → s.toW i = []
  hold : ∀ i, c.n < i → s.hold i = none

/-- items worker `i` still has to hand to the merger -/
def rrPendAt {α β : Type} (s : RR α β) (i : Nat) : Nat :=
  (s.toW i).length + (s.hold i).isSome.toNat + (s.fromW i).length

/-- moves worker `i` still has to make: take and send each queued item, send the one in hand, close -/
def rrWorkAt {α β : Type} (s : RR α β) (i : Nat) : Nat :=
  2 * (s.toW i).length + (s.hold i).isSome.toNat + (!s.wClosed i).toNat

def rrPend {α β : Type} (c : RRCfg) (s : RR α β) : Nat := s.inp.length + sumTo (c.n + 1) (rrPendAt s)
def rrWork {α β : Type} (c : RRCfg) (s : RR α β) : Nat := 3 * s.inp.length + sumTo (c.n + 1) (rrWorkAt s)

def rrM {α β : Type} (c : RRCfg) (s : RR α β) : Nat := 2 * rrPend c s + s.found.toNat
def rrR {α β : Type} (c : RRCfg) (s : RR α β) : Nat :=
  (c.n - s.mi) + rrWork c s + (c.n - s.dClosed) + (!s.outClosed).toNat

def rrMu {α β : Type} (c : RRCfg) (s : RR α β) : Nat := (c.n + 1) * rrM c s + rrR c s

/-- a step that touches only worker `i` -/
theorem rr_point {α β : Type} (c : RRCfg) (s s' : RR α β) (i : Nat) (hi : i < c.n + 1)
    (h : ∀ j, j ≠ i → s'.toW j = s.toW j ∧ s'.hold j = s.hold j ∧ s'.fromW j = s.fromW j ∧
      s'.wClosed j = s.wClosed j) :
    sumTo (c.n + 1) (rrPendAt s') + rrPendAt s i = sumTo (c.n + 1) (rrPendAt s) + rrPendAt s' i ∧
    sumTo (c.n + 1) (rrWorkAt s') + rrWorkAt s i = sumTo (c.n + 1) (rrWorkAt s) + rrWorkAt s' i := by
  constructor
  · apply sumTo_point _ hi
    intro j hj
    obtain ⟨h1, h2, h3, _⟩ := h j hj
    simp [rrPendAt, h1, h2, h3]
  · apply sumTo_point _ hi
    intro j hj
    obtain ⟨h1, h2, _, h4⟩ := h j hj
    simp [rrWorkAt, h1, h2, h4]

theorem rr_bound_step {α β : Type} (c : RRCfg) (f : α → β) (a : RRAct) (s s' : RR α β)
    (hb : RRBound c s) (hact : rrAct c f a s = some s') : RRBound c s' := by
  obtain ⟨hnd, hdc, htw, hho⟩ := hb
  cases a <;> simp only [rrAct] at hact
  · -- dist
    split at hact
    · rename_i x rest hx
      cases hact
      refine ⟨wrapNext_le c _ hnd, hdc, ?_, hho⟩
      intro i hi
      have : i ≠ s.nd := by omega
      simp [upd_ne _ _ this, htw i hi]
    · cases hact
  · -- dclose
    split at hact
    · split at hact
      · rename_i hg
        cases hact
        exact ⟨hnd, hg, htw, hho⟩
      · cases hact
    · cases hact
  · -- take
    rename_i i
    split at hact
    · rename_i x rest hx hh
      cases hact
      have hi : ¬ c.n < i := by intro hi; simp [htw i hi] at hx
      refine ⟨hnd, hdc, ?_, ?_⟩
      · intro j hj
        have : j ≠ i := by omega
        simp [upd_ne _ _ this, htw j hj]
      · intro j hj
        have : j ≠ i := by omega
        simp [upd_ne _ _ this, hho j hj]
    · cases hact
  · -- send
    rename_i i
    split at hact
    · rename_i y hh
      cases hact
      have hi : ¬ c.n < i := by intro hi; simp [hho i hi] at hh
      refine ⟨hnd, hdc, htw, ?_⟩
      intro j hj
      have : j ≠ i := by omega
      simp [upd_ne _ _ this, hho j hj]
    · cases hact
  · -- wclose
    split at hact
    · split at hact
      · cases hact; exact ⟨hnd, hdc, htw, hho⟩
      · cases hact
    · cases hact
  · -- mrecv
    split at hact
    · split at hact
      · cases hact; exact ⟨hnd, hdc, htw, hho⟩
      · cases hact
    · cases hact
  · -- mskip
    split at hact
    · split at hact
      · cases hact; exact ⟨hnd, hdc, htw, hho⟩
      · cases hact
    · cases hact
  · -- mround
    split at hact
    · cases hact; exact ⟨hnd, hdc, htw, hho⟩
    · cases hact
  · -- mfin
    split at hact
    · cases hact; exact ⟨hnd, hdc, htw, hho⟩
    · cases hact

theorem rr_bound_init {α β : Type} (c : RRCfg) (xs : List α) : RRBound c (rrInit c xs : RR α β) :=
  ⟨Nat.zero_le _, Nat.zero_le _, fun _ _ => rfl, fun _ _ => rfl⟩

/-- every step of every goroutine strictly decreases the measure -/
theorem rr_dec {α β : Type} (c : RRCfg) (f : α → β) (a : RRAct) (s s' : RR α β)
    (hb : RRBound c s) (hact : rrAct c f a s = some s') : rrMu c s' < rrMu c s := by
  obtain ⟨hnd, hdc, htw, hho⟩ := hb
  unfold rrMu
  apply mu_lt_of
  cases a <;> simp only [rrAct] at hact
  · -- dist
    split at hact
    · rename_i x rest hx
      cases hact
      left
      have hs := rr_point c s { s with inp := rest, toW := upd s.toW s.nd (s.toW s.nd ++ [x]), nd := wrapNext c s.nd }
        s.nd (by omega) (by intro j hj; simp [upd_ne _ _ hj])
      simp only [rrPendAt, rrWorkAt, upd_same, List.length_append, List.length_cons, List.length_nil] at hs
      simp only [rrM, rrR, rrPend, rrWork, hx, List.length_cons]
      omega
    · cases hact
  · -- dclose
    split at hact
    · split at hact
      · rename_i hg
        cases hact
        left
        refine ⟨rfl, ?_⟩
        simp only [rrR, rrWork]
        have : sumTo (c.n + 1) (rrWorkAt { s with dClosed := s.dClosed + 1 }) = sumTo (c.n + 1) (rrWorkAt s) := rfl
        omega
      · cases hact
    · cases hact
  · -- take
    rename_i i
    split at hact
    · rename_i x rest hx hh
      cases hact
      left
      have hi : ¬ c.n < i := by intro hi; simp [htw i hi] at hx
      have hs := rr_point c s { s with toW := upd s.toW i rest, hold := upd s.hold i (some (f x)) }
        i (by omega) (by intro j hj; simp [upd_ne _ _ hj])
      simp only [rrPendAt, rrWorkAt, upd_same, hx, hh, List.length_cons, Option.isSome_some, Option.isSome_none,
        Bool.toNat_true, Bool.toNat_false] at hs
      simp only [rrM, rrR, rrPend, rrWork]
      omega
    · cases hact
  · -- send
    rename_i i
    split at hact
    · rename_i y hh
      cases hact
      left
      have hi : ¬ c.n < i := by intro hi; simp [hho i hi] at hh
      have hs := rr_point c s { s with hold := upd s.hold i none, fromW := upd s.fromW i (s.fromW i ++ [y]) }
        i (by omega) (by intro j hj; simp [upd_ne _ _ hj])
      simp only [rrPendAt, rrWorkAt, upd_same, hh, List.length_append, List.length_cons, List.length_nil,
        Option.isSome_some, Option.isSome_none, Bool.toNat_true, Bool.toNat_false] at hs
      simp only [rrM, rrR, rrPend, rrWork]
      omega
    · cases hact
  · -- wclose
    rename_i i
    split at hact
    · rename_i ht hh
      split at hact
      · rename_i hg
        cases hact
        left
        have hs := rr_point c s { s with wClosed := upd s.wClosed i true }
          i (by omega) (by intro j hj; simp [upd_ne _ _ hj])
        simp only [rrPendAt, rrWorkAt, upd_same, hg.2, Bool.not_true, Bool.not_false, Bool.toNat_true,
          Bool.toNat_false] at hs
        simp only [rrM, rrR, rrPend, rrWork]
        omega
      · cases hact
    · cases hact
  · -- mrecv
    split at hact
    · rename_i hg
      split at hact
      · rename_i y rest hy
        cases hact
        right
        have hs := rr_point c s { s with fromW := upd s.fromW s.mi rest, out := s.out ++ [y], found := true, mi := s.mi + 1 }
          s.mi (by omega) (by intro j hj; simp [upd_ne _ _ hj])
        simp only [rrPendAt, rrWorkAt, upd_same, hy, List.length_cons] at hs
        simp only [rrM, rrR, rrPend, rrWork, Bool.toNat_true]
        have : s.found.toNat ≤ 1 := Bool.toNat_le _
        omega
      · cases hact
    · cases hact
  · -- mskip
    split at hact
    · rename_i hg
      split at hact
      · cases hact
        left
        refine ⟨rfl, ?_⟩
        simp only [rrR, rrWork]
        have : sumTo (c.n + 1) (rrWorkAt { s with mi := s.mi + 1 }) = sumTo (c.n + 1) (rrWorkAt s) := rfl
        omega
      · cases hact
    · cases hact
  · -- mround
    split at hact
    · rename_i hg
      cases hact
      right
      have h1 : sumTo (c.n + 1) (rrWorkAt { s with mi := c.mstart, found := false }) = sumTo (c.n + 1) (rrWorkAt s) := rfl
      have h2 : sumTo (c.n + 1) (rrPendAt { s with mi := c.mstart, found := false }) = sumTo (c.n + 1) (rrPendAt s) := rfl
      simp only [rrM, rrR, rrPend, rrWork, hg.2.2, Bool.toNat_true, Bool.toNat_false]
      omega
    · cases hact
  · -- mfin
    split at hact
    · rename_i hg
      cases hact
      left
      refine ⟨rfl, ?_⟩
      simp only [rrR, rrWork, hg.1, Bool.not_true, Bool.not_false, Bool.toNat_true, Bool.toNat_false]
      have : sumTo (c.n + 1) (rrWorkAt { s with outClosed := true }) = sumTo (c.n + 1) (rrWorkAt s) := rfl
      omega
    · cases hact

theorem rr_strict {α β : Type} (c : RRCfg) (f : α → β) :
    Strict (rrAct c f) (RRBound (α := α) (β := β) c) (rrMu c) :=
  fun a s s' hb h => rr_dec c f a s s' hb h

/-- the bound on the number of steps: `(2n+5)·len + 3n + 2` -/
def rrSteps (n len : Nat) : Nat := (n + 1) * (2 * len) + 3 * len + 3 * n + 2

theorem rr_mu_init {α β : Type} (c : RRCfg) (xs : List α) :
    rrMu c (rrInit c xs : RR α β) ≤ rrSteps c.n xs.length := by
  have h1 : sumTo (c.n + 1) (rrPendAt (rrInit c xs : RR α β)) = 0 := sumTo_zero _ (fun _ _ => rfl)
  have h2 : sumTo (c.n + 1) (rrWorkAt (rrInit c xs : RR α β)) = (c.n + 1) * 1 := sumTo_const _ 1
  simp only [rrMu, rrM, rrR, rrPend, rrWork, h1, h2, rrSteps]
  simp only [rrInit, Bool.toNat_false, Bool.not_false, Bool.toNat_true, Nat.add_zero, Nat.sub_zero]
  omega

/-! ## the close is the last thing that happens: in a closed state every goroutine has finished -/

/-- what the merger knows: in a round that has found nothing so far every worker it went past had
    closed its channel; once it has closed the output it is past the last worker of such a round -/
structure RRLast {α β : Type} (c : RRCfg) (s : RR α β) : Prop where
  skipped : s.found = false → ∀ i, i < s.mi → i < c.n → s.wClosed i = true
  closed : s.outClosed = true → c.n ≤ s.mi ∧ s.found = false

theorem rr_last_step {α β : Type} (c : RRCfg) (hms : c.mstart = 0) (f : α → β) (a : RRAct)
    (s s' : RR α β) (hl : RRLast c s) (hact : rrAct c f a s = some s') : RRLast c s' := by
  obtain ⟨hsk, hcl⟩ := hl
  cases a <;> simp only [rrAct] at hact
  · -- dist
    split at hact
    · cases hact; exact ⟨hsk, hcl⟩
    · cases hact
  · -- dclose
    split at hact
    · split at hact
      · cases hact; exact ⟨hsk, hcl⟩
      · cases hact
    · cases hact
  · -- take
    split at hact
    · cases hact; exact ⟨hsk, hcl⟩
    · cases hact
  · -- send
    split at hact
    · cases hact; exact ⟨hsk, hcl⟩
    · cases hact
  · -- wclose
    rename_i i
    split at hact
    · split at hact
      · cases hact
        refine ⟨?_, hcl⟩
        intro hf j hj hjn
        by_cases hji : j = i
        · subst hji; simp
        · simp [upd_ne _ _ hji, hsk hf j hj hjn]
      · cases hact
    · cases hact
  · -- mrecv
    split at hact
    · rename_i hg
      split at hact
      · cases hact
        exact ⟨by intro h; simp at h, by intro h; simp [hg.1] at h⟩
      · cases hact
    · cases hact
  · -- mskip
    split at hact
    · rename_i hg
      split at hact
      · cases hact
        refine ⟨?_, by intro h; simp [hg.1] at h⟩
        intro hf j hj hjn
        by_cases hji : j = s.mi
        · subst hji; exact hg.2.2
        · exact hsk hf j (by simp at hj; omega) hjn
      · cases hact
    · cases hact
  · -- mround
    split at hact
    · rename_i hg
      cases hact
      exact ⟨by intro _ j hj; simp [hms] at hj, by intro h; simp [hg.1] at h⟩
    · cases hact
  · -- mfin
    split at hact
    · rename_i hg
      cases hact
      exact ⟨hsk, fun _ => ⟨hg.2.1, hg.2.2⟩⟩
    · cases hact

theorem rr_last {α β : Type} (c : RRCfg) (hms : c.mstart = 0) (f : α → β) (xs : List α) :
    ∀ s, Reach (rrAct c f) (rrInit c xs) s → RRLast c s := by
  intro s h
  induction h with
  | init => exact ⟨by intro _ i hi; simp [rrInit, hms] at hi, by intro h; simp [rrInit] at h⟩
  | step a _ hact ih => exact rr_last_step c hms f a _ _ ih hact

theorem rr_bound {α β : Type} (c : RRCfg) (f : α → β) (xs : List α) :
    ∀ s, Reach (rrAct c f) (rrInit c xs) s → RRBound c s := by
  intro s h
  induction h with
  | init => exact rr_bound_init c xs
  | step a _ hact ih => exact rr_bound_step c f a _ _ ih hact

/-- in a closed reachable state nothing is enabled: the distributor has closed every worker
    channel, every worker has drained and closed its channel, the merger has returned -/
theorem rr_closed_dead {α β : Type} (c : RRCfg) (hn : 0 < c.n) (hge : c.ge = true) (hms : c.mstart = 0)
    (f : α → β) (xs : List α) (s : RR α β) (h : Reach (rrAct c f) (rrInit c xs) s)
    (hc : s.outClosed = true) : Dead (rrAct c f) s := by
  obtain ⟨consumed, pend, hi⟩ := rr_inv c hn hge hms f xs s h
  have hl := rr_last c hms f xs s h
  have hb := rr_bound c f xs s h
  obtain ⟨hout, hinp⟩ := hi.fin hc
  obtain ⟨hmi, hfd⟩ := hl.closed hc
  -- nothing is pending
  have hpend : pend = [] := by
    have h1 := hi.cons
    rw [hinp, List.append_nil] at h1
    have h2 := hi.outp
    rw [hout, h1] at h2
    have : (pend.map (·.2)).length = 0 := by
      have := congrArg List.length h2
      simp at this
      simpa using this
    cases pend with
    | nil => rfl
    | cons p r => simp at this
  have hempty : ∀ i, s.fromW i = [] ∧ s.hold i = none ∧ s.toW i = [] := by
    intro i
    have := hi.prj i
    rw [hpend] at this
    simp only [pendW, proj_nil, List.append_eq_nil_iff, List.map_eq_nil_iff] at this
    refine ⟨this.1, ?_, this.2.2⟩
    cases hh : s.hold i with
    | none => rfl
    | some y => simp [hh] at this
  -- every worker channel is closed
  have hwc : ∀ i, i < c.n → s.wClosed i = true := fun i hi' => hl.skipped hfd i (by omega) hi'
  have hdc : s.dClosed = c.n := by
    have := (hi.wcl (c.n - 1) (hwc (c.n - 1) (by omega))).1
    have := hb.dcl
    omega
  intro a
  cases a <;> simp only [rrAct]
  · simp [hinp]
  · simp [hinp, hdc]
  · rename_i i; simp [(hempty i).2.2]
  · rename_i i; simp [(hempty i).2.1]
  · rename_i i
    simp only [(hempty i).2.2, (hempty i).2.1]
    by_cases hin : i < c.n
    · simp [hwc i hin]
    · simp [hdc, hin]
  · simp [hc]
  · simp [hc]
  · simp [hc]
  · simp [hc]

end Grip.Props.C13.Lemmas
