/-
  Lemmas.C03Add — the element-insertion path (insertVertex / insertEdge / insertAll / addElems)
  preserves the refinement relation, element by element.
-/
import GripProofs.Lemmas.C03Defs

namespace Grip.Props.C03.Lemmas
open Grip Grip.C03 Grip.C03.Spec Grip.Props.C03

/-- valid vertex into an existing graph -/
theorem insertVertex_inv {m : KV} {f : List String} {a : AG} (h : Inv m f a) {g : String}
    (hg : g ∈ a.graphs) (x : VertexIn) (hv : validVertex x = true) :
    Inv (insertVertex f m g x).1 f (a.putV g x.gid ⟨x.label, x.data⟩) := by
  have hf : labelField g "v" ∈ f := (h.fieldsV g hg).1
  have hm : (insertVertex f m g x).1 =
      (((m.set (.vertex g x.gid) (.vert x.label x.data)).set (.entry (labelField g "v") x.label x.gid) .unit).set
        (.term (labelField g "v") x.label) .unit).set (.doc x.gid) .unit := by
    simp [insertVertex, hv, addDoc, hf]
  rw [hm]
  have hE : ∀ g' eid s d l, edgeAt (a.putV g x.gid ⟨x.label, x.data⟩) g' eid s d l = edgeAt a g' eid s d l :=
    fun _ _ _ _ _ => rfl
  constructor
  · exact KV.nodup_set (KV.nodup_set (KV.nodup_set (KV.nodup_set h.nodup _ _) _ _) _ _) _ _
  · exact nodup_putV h.vnodup _ _ _
  · exact h.enodup
  · intro g'; simp only [KV.get_set, reduceCtorEq, ↓reduceIte]; exact h.graph g'
  · intro g' id'
    simp only [KV.get_set, getV_putV]
    by_cases e : (g', id') = (g, x.gid)
    · simp only [Prod.mk.injEq] at e
      obtain ⟨rfl, rfl⟩ := e
      simp
    · have : ¬ SKey.vertex g' id' = SKey.vertex g x.gid := by simpa using e
      simp [e, this, h.vertex]
  · intro g' eid s d l; rw [hE]; simp only [KV.get_set]; simpa using h.edge g' eid s d l
  · intro g' s d eid l; rw [hE]; simp only [KV.get_set]; simpa using h.src g' s d eid l
  · intro g' d s eid l; rw [hE]; simp only [KV.get_set]; simpa using h.dst g' d s eid l
  · exact h.gname
  · intro g' id' r hr
    rw [getV_putV] at hr
    by_cases e : (g', id') = (g, x.gid)
    · simp at e; rw [e.1]; exact hg
    · simp only [e, ↓reduceIte] at hr; exact h.vgraph g' id' r hr
  · exact h.egraph
  · intro g' hg'
    refine ⟨(h.fieldsV g' hg').1, ?_⟩
    exact isSome_get_set (isSome_get_set (isSome_get_set (isSome_get_set (h.fieldsV g' hg').2 _ _) _ _) _ _) _ _
  · intro g' hg'
    refine ⟨(h.fieldsE g' hg').1, ?_⟩
    exact isSome_get_set (isSome_get_set (isSome_get_set (isSome_get_set (h.fieldsE g' hg').2 _ _) _ _) _ _) _ _
  · intro g' id' r hr
    rw [getV_putV] at hr
    by_cases e : (g', id') = (g, x.gid)
    · simp only [e, ↓reduceIte, Option.some.injEq] at hr
      simp only [Prod.mk.injEq] at e
      obtain ⟨rfl, rfl⟩ := e
      subst hr
      simp [KV.get_set]
    · simp only [e, ↓reduceIte] at hr
      have := h.vindex g' id' r hr
      exact ⟨isSome_get_set (isSome_get_set (isSome_get_set (isSome_get_set this.1 _ _) _ _) _ _) _ _,
        isSome_get_set (isSome_get_set (isSome_get_set (isSome_get_set this.2 _ _) _ _) _ _) _ _⟩
  · intro g' id' r hr
    have := h.eindex g' id' r hr
    exact ⟨isSome_get_set (isSome_get_set (isSome_get_set (isSome_get_set this.1 _ _) _ _) _ _) _ _,
      isSome_get_set (isSome_get_set (isSome_get_set (isSome_get_set this.2 _ _) _ _) _ _) _ _⟩
  · intro f' hf'
    simp only [KV.get_set, reduceCtorEq, ↓reduceIte] at hf'
    exact h.fieldOwner f' hf'

/-- the old record of a re-added edge, if any, has the same endpoints and label -/
theorem edgeAt_none_of_ok {a : AG} {g : String} {x : EdgeIn} (hv : validEdge x = true)
    (hok : okElem a g (.e x) = true) {s d l : String}
    (hne : ¬ (x.frm = s ∧ x.to = d ∧ x.label = l)) : edgeAt a g x.gid s d l = none := by
  unfold edgeAt
  simp only [okElem, hv, Bool.not_true, Bool.false_or] at hok
  cases hr : a.getE g x.gid with
  | none => rfl
  | some r =>
    rw [hr] at hok
    simp only [decide_eq_true_eq] at hok
    simp only [Option.bind_some, ite_eq_right_iff, reduceCtorEq, imp_false]
    rw [hok.1, hok.2.1, hok.2.2]; exact hne

/-- valid edge into an existing graph, not a re-add with different endpoints/label -/
theorem insertEdge_inv {m : KV} {f : List String} {a : AG} (h : Inv m f a) {g : String}
    (hg : g ∈ a.graphs) (x : EdgeIn) (hv : validEdge x = true) (hok : okElem a g (.e x) = true) :
    Inv (insertEdge f m g x).1 f (a.putE g x.gid ⟨x.frm, x.to, x.label, x.data⟩) := by
  have hf : labelField g "e" ∈ f := (h.fieldsE g hg).1
  have hm : (insertEdge f m g x).1 =
      ((((((m.set (.edge g x.gid x.frm x.to x.label) (.edge x.data)).set (.src g x.frm x.to x.gid x.label) .unit).set
        (.dst g x.to x.frm x.gid x.label) .unit).set (.entry (labelField g "e") x.label x.gid) .unit).set
        (.term (labelField g "e") x.label) .unit).set (.doc x.gid) .unit) := by
    simp [insertEdge, hv, addDoc, hf]
  rw [hm]
  have mono : ∀ k', (m.get k').isSome →
      (((((((m.set (.edge g x.gid x.frm x.to x.label) (.edge x.data)).set (.src g x.frm x.to x.gid x.label) .unit).set
        (.dst g x.to x.frm x.gid x.label) .unit).set (.entry (labelField g "e") x.label x.gid) .unit).set
        (.term (labelField g "e") x.label) .unit).set (.doc x.gid) .unit).get k').isSome := fun k' hk =>
    isSome_get_set (isSome_get_set (isSome_get_set (isSome_get_set (isSome_get_set (isSome_get_set hk _ _) _ _) _ _) _ _) _ _) _ _
  have hV : ∀ g' id', (a.putE g x.gid ⟨x.frm, x.to, x.label, x.data⟩).getV g' id' = a.getV g' id' :=
    fun _ _ => rfl
  constructor
  · exact KV.nodup_set (KV.nodup_set (KV.nodup_set (KV.nodup_set (KV.nodup_set (KV.nodup_set h.nodup _ _) _ _) _ _) _ _) _ _) _ _
  · exact h.vnodup
  · exact nodup_putE h.enodup _ _ _
  · intro g'; simp only [KV.get_set, reduceCtorEq, ↓reduceIte]; exact h.graph g'
  · intro g' id'; rw [hV]; simp only [KV.get_set]; simpa using h.vertex g' id'
  · intro g' eid s d l
    simp only [KV.get_set, edgeAt_putE, reduceCtorEq, ↓reduceIte, SKey.edge.injEq, Prod.mk.injEq]
    by_cases e : g' = g ∧ eid = x.gid
    · obtain ⟨rfl, rfl⟩ := e
      by_cases e2 : x.frm = s ∧ x.to = d ∧ x.label = l
      · obtain ⟨rfl, rfl, rfl⟩ := e2; simp
      · have e3 : ¬ (s = x.frm ∧ d = x.to ∧ l = x.label) := fun ⟨a1, a2, a3⟩ => e2 ⟨a1.symm, a2.symm, a3.symm⟩
        rw [h.edge, edgeAt_none_of_ok hv hok e2]
        simp [e2, e3]
    · have e3 : ¬ (g' = g ∧ eid = x.gid ∧ s = x.frm ∧ d = x.to ∧ l = x.label) := fun ⟨a1, a2, _⟩ => e ⟨a1, a2⟩
      simp only [e, e3, ↓reduceIte]; exact h.edge g' eid s d l
  · intro g' s d eid l
    simp only [KV.get_set, edgeAt_putE, reduceCtorEq, ↓reduceIte, SKey.src.injEq, Prod.mk.injEq]
    by_cases e : g' = g ∧ eid = x.gid
    · obtain ⟨rfl, rfl⟩ := e
      by_cases e2 : x.frm = s ∧ x.to = d ∧ x.label = l
      · obtain ⟨rfl, rfl, rfl⟩ := e2; simp
      · have e3 : ¬ (s = x.frm ∧ d = x.to ∧ l = x.label) := fun ⟨a1, a2, a3⟩ => e2 ⟨a1.symm, a2.symm, a3.symm⟩
        rw [h.src, edgeAt_none_of_ok hv hok e2]
        simp [e2, e3]
    · have e3 : ¬ (g' = g ∧ s = x.frm ∧ d = x.to ∧ eid = x.gid ∧ l = x.label) := fun ⟨a1, _, _, a2, _⟩ => e ⟨a1, a2⟩
      simp only [e, e3, ↓reduceIte]; exact h.src g' s d eid l
  · intro g' d s eid l
    simp only [KV.get_set, edgeAt_putE, reduceCtorEq, ↓reduceIte, SKey.dst.injEq, Prod.mk.injEq]
    by_cases e : g' = g ∧ eid = x.gid
    · obtain ⟨rfl, rfl⟩ := e
      by_cases e2 : x.frm = s ∧ x.to = d ∧ x.label = l
      · obtain ⟨rfl, rfl, rfl⟩ := e2; simp
      · have e3 : ¬ (d = x.to ∧ s = x.frm ∧ l = x.label) := fun ⟨a1, a2, a3⟩ => e2 ⟨a2.symm, a1.symm, a3.symm⟩
        rw [h.dst, edgeAt_none_of_ok hv hok e2]
        simp [e2, e3]
    · have e3 : ¬ (g' = g ∧ d = x.to ∧ s = x.frm ∧ eid = x.gid ∧ l = x.label) := fun ⟨a1, _, _, a2, _⟩ => e ⟨a1, a2⟩
      simp only [e, e3, ↓reduceIte]; exact h.dst g' d s eid l
  · exact h.gname
  · exact h.vgraph
  · intro g' id' r hr
    rw [getE_putE] at hr
    by_cases e : (g', id') = (g, x.gid)
    · simp at e; rw [e.1]; exact hg
    · simp only [e, ↓reduceIte] at hr; exact h.egraph g' id' r hr
  · intro g' hg'; exact ⟨(h.fieldsV g' hg').1, mono _ (h.fieldsV g' hg').2⟩
  · intro g' hg'; exact ⟨(h.fieldsE g' hg').1, mono _ (h.fieldsE g' hg').2⟩
  · intro g' id' r hr
    have := h.vindex g' id' r hr
    exact ⟨mono _ this.1, mono _ this.2⟩
  · intro g' id' r hr
    rw [getE_putE] at hr
    by_cases e : (g', id') = (g, x.gid)
    · simp only [e, ↓reduceIte, Option.some.injEq] at hr
      simp only [Prod.mk.injEq] at e
      obtain ⟨rfl, rfl⟩ := e
      subst hr
      simp [KV.get_set]
    · simp only [e, ↓reduceIte] at hr
      have := h.eindex g' id' r hr
      exact ⟨mono _ this.1, mono _ this.2⟩
  · intro f' hf'
    simp only [KV.get_set, reduceCtorEq, ↓reduceIte] at hf'
    exact h.fieldOwner f' hf'

/-- one element: the MODEL insert and the SPEC put agree -/
theorem insertElem_inv {m : KV} {f : List String} {a : AG} (h : Inv m f a) {g : String}
    (hg : g ∈ a.graphs) (x : ElemIn) (hok : okElem a g x = true) :
    Inv (insertElem f m g x).1 f (putElem a g x).1 ∧ (insertElem f m g x).2 = (putElem a g x).2 := by
  cases x with
  | v x =>
    by_cases hv : validVertex x = true
    · refine ⟨?_, ?_⟩
      · have := insertVertex_inv h hg x hv
        simpa [insertElem, putElem, hv] using this
      · simp [insertElem, putElem, hv, insertVertex]
    · simp only [Bool.not_eq_true] at hv
      simp [insertElem, putElem, hv, insertVertex, h]
  | e x =>
    by_cases hv : validEdge x = true
    · refine ⟨?_, ?_⟩
      · have := insertEdge_inv h hg x hv hok
        simpa [insertElem, putElem, hv] using this
      · simp [insertElem, putElem, hv, insertEdge]
    · simp only [Bool.not_eq_true] at hv
      simp [insertElem, putElem, hv, insertEdge, h]

theorem putElem_graphs (a : AG) (g : String) (x : ElemIn) : (putElem a g x).1.graphs = a.graphs := by
  cases x with
  | v x => simp only [putElem]; split <;> rfl
  | e x => simp only [putElem]; split <;> rfl

/-- the loop of AddVertex / AddEdge / BulkAdd -/
theorem insertAll_inv {f : List String} {g : String} (xs : List ElemIn) :
    ∀ {m : KV} {a : AG}, Inv m f a → g ∈ a.graphs → noReaddAll g a xs = true →
      Inv (insertAll f g m xs).1 f (putAll g a xs).1 ∧ (insertAll f g m xs).2 = (putAll g a xs).2 := by
  induction xs with
  | nil => intro m a h _ _; exact ⟨h, rfl⟩
  | cons x xs ih =>
    intro m a h hg hok
    simp only [noReaddAll, Bool.and_eq_true] at hok
    obtain ⟨h1, e1⟩ := insertElem_inv h hg x hok.1
    have hg' : g ∈ (putElem a g x).1.graphs := by rw [putElem_graphs]; exact hg
    obtain ⟨h2, e2⟩ := ih h1 hg' hok.2
    simp only [insertAll, putAll]
    refine ⟨h2, ?_⟩
    simp only [e1, e2]

theorem putAll_stamps (g : String) (xs : List ElemIn) :
    ∀ a : AG, (putAll g a xs).1.stamps = a.stamps ∧ (putAll g a xs).1.clock = a.clock := by
  induction xs with
  | nil => intro a; exact ⟨rfl, rfl⟩
  | cons x xs ih =>
    intro a
    simp only [putAll]
    have : (putElem a g x).1.stamps = a.stamps ∧ (putElem a g x).1.clock = a.clock := by
      cases x with
      | v x => simp only [putElem]; split <;> exact ⟨rfl, rfl⟩
      | e x => simp only [putElem]; split <;> exact ⟨rfl, rfl⟩
    rw [(ih _).1, (ih _).2]; exact this

theorem touch_refines {s : KState} {a : AG} (h : Refines s a) (g : String) :
    Refines (s.touch g) (a.touch g) := by
  refine ⟨inv_touch h.inv g, ?_, ?_, ?_⟩
  · simp [KState.touch, AG.touch, h.stamps, h.clock]
  · simp [KState.touch, AG.touch, h.clock]
  · intro p hp
    simp only [AG.touch, List.mem_cons, List.mem_filter] at hp
    rcases hp with rfl | ⟨hp, _⟩
    · simp [AG.touch]
    · have := h.stampLe p hp
      simp only [AG.touch]; omega

/-- addElems (AddVertex, AddEdge, BulkAdd) -/
theorem addElems_refines {s : KState} {a : AG} (h : Refines s a) (g : String) (xs : List ElemIn)
    (hok : a.graphs.contains g = true → noReaddAll g a xs = true) :
    Refines (C03.addElems s g xs).1 (Spec.addElems a g xs).1 ∧
      (C03.addElems s g xs).2 = (Spec.addElems a g xs).2 := by
  unfold C03.addElems Spec.addElems
  by_cases hg : g ∈ a.graphs
  · have hg1 : hasGraph s g = true := by
      rw [hasGraph, KV.has_eq]; exact (h.inv.graph g).2 hg
    have hg2 : a.graphs.contains g = true := by simpa using hg
    obtain ⟨h1, e1⟩ := insertAll_inv xs h.inv hg (hok hg2)
    simp only [hg1, hg2, Bool.not_true, Bool.false_eq_true, ↓reduceIte]
    have e2 : (insertAll s.fields g s.kv xs).2.1 = (putAll g a xs).2.1 := by rw [e1]
    have e3 : (insertAll s.fields g s.kv xs).2.2 = (putAll g a xs).2.2 := by rw [e1]
    have hs := putAll_stamps g xs a
    have base : Refines { s with kv := (insertAll s.fields g s.kv xs).1 } (putAll g a xs).1 :=
      ⟨h1, by rw [hs.1]; exact h.stamps, by rw [hs.2]; exact h.clock,
        by rw [hs.1, hs.2]; exact h.stampLe⟩
    refine ⟨?_, ?_⟩
    · rw [e2]
      cases (putAll g a xs).2.1 with
      | false => simpa using base
      | true => simpa using touch_refines base g
    · rw [e3]
  · have hg1 : hasGraph s g = false := by
      rw [hasGraph, KV.has_eq]
      have := (not_congr (h.inv.graph g)).2 hg
      simpa using this
    have hg2 : a.graphs.contains g = false := by simpa using hg
    simp [hg1, hg, h]

end Grip.Props.C03.Lemmas
