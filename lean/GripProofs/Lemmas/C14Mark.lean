/-
  Lemmas.C14Mark — has keys in the namespace of a mark: the field name convertPath emits,
  read on the pipeline document, resolves to what jsonpath.TravelerPathLookup gives the core engine.
-/
import Grip.Model.C14
import GripProofs.Lemmas.C14

namespace Grip.Props.C14.Mark
open Grip Grip.C08 Grip.C14

/-! ### `evalBy` over `lookup e` is the core model of C08 -/
mutual
  theorem evalBy_lookup (numOf : String → Option Int) (e : Elem) : ∀ x : HasE,
      evalBy numOf (lookup e) x = eval numOf e x
    | .cond k c a => by simp [evalBy, eval]
    | .and es => by simp [evalBy, eval, evalByList_lookup numOf e es]
    | .or es => by simp [evalBy, eval, evalByList_lookup numOf e es]
    | .not x => by simp [evalBy, eval, evalBy_lookup numOf e x]
    | .none => by simp [evalBy, eval]
  theorem evalByList_lookup (numOf : String → Option Int) (e : Elem) : ∀ xs : List HasE,
      evalByList numOf (lookup e) xs = evalList numOf e xs
    | [] => by simp [evalByList, evalList]
    | x :: xs => by simp [evalByList, evalList, evalBy_lookup numOf e x, evalByList_lookup numOf e xs]
end

/-! ### the shape of GetJSONPath -/

def heads : List String := ["gid", "label", "to", "from", "data"]

/-- The second half of GetJSONPath, after the namespace part is dropped. -/
def tailPath : List String → List String
  | [] => []
  | p :: rest => if Path.reserved.contains p then (p.drop 1).toString :: rest else "data" :: p :: rest

theorem tailPath_head (ps : List String) :
    tailPath ps = [] ∨ ∃ f rest, tailPath ps = f :: rest ∧ f ∈ heads := by
  cases ps with
  | nil => exact Or.inl rfl
  | cons p rest =>
    right
    by_cases h : Path.reserved.contains p = true
    · simp only [tailPath, h, if_true]
      refine ⟨_, _, rfl, ?_⟩
      simp [Path.reserved] at h
      rcases h with h | h | h | h | h <;> subst h <;> decide
    · simp only [tailPath, h]
      exact ⟨_, _, rfl, by decide⟩

theorem jsonPathOf_tail (k : String) : ∃ ps, Path.jsonPathOf k = tailPath ps := by
  refine ⟨match Path.splitDots k with
    | p :: rest => if p.startsWith "$" then rest else Path.splitDots k
    | [] => [], ?_⟩
  unfold Path.jsonPathOf tailPath
  rfl

theorem jsonPathOf_head (k : String) :
    Path.jsonPathOf k = [] ∨ ∃ f rest, Path.jsonPathOf k = f :: rest ∧ f ∈ heads := by
  obtain ⟨ps, h⟩ := jsonPathOf_tail k
  rw [h]; exact tailPath_head ps

/-! ### one vertex/edge document -/

theorem mongoGet_getD (doc : JV) (p : List String) : mongoGet doc p = (doc.getPath? p).getD .null := by
  unfold mongoGet; cases doc.getPath? p <;> rfl

theorem lookup_getD (e : Elem) (k : String) :
    lookup e k = (Path.lookupDoc (Path.toDict e) k).getD .null := by
  unfold lookup; cases Path.lookupDoc (Path.toDict e) k <;> rfl

/-- The Mongo document of an element (whatever further fields follow: `marks`, `path`) under the
    converted path holds what ToDict holds under the GetJSONPath path. -/
theorem elem_addr (e : Elem) (extra : List (String × JV)) (f : String) (rest : List String)
    (hf : f ∈ heads) (hex : extra.find? (fun x => x.1 == "gid") = none) :
    ((JV.obj (mongoFields e ++ extra)).getPath? (if (f :: rest) == ["gid"] then ["_id"] else f :: rest)).getD .null =
    ((Path.toDict e).getPath? (f :: rest)).getD .null := by
  simp only [heads, List.mem_cons, List.not_mem_nil, or_false] at hf
  rcases hf with h | h | h | h | h <;> subst h
  · cases rest with
    | nil => simp [mongoFields, Path.toDict, JV.getPath?, JV.member]
    | cons r rs => simp [mongoFields, Path.toDict, JV.getPath?, JV.member, hex]
  all_goals simp [mongoFields, Path.toDict, JV.getPath?, JV.member]

theorem marks_member (marks : List (String × Elem)) (ns : String) :
    JV.member ns (.obj (marks.map fun p => (p.1, JV.obj (mongoFields p.2)))) =
      (marks.lookup ns).map (fun m => JV.obj (mongoFields m)) := by
  induction marks with
  | nil => simp [JV.member]
  | cons p ps ih =>
    obtain ⟨n, m⟩ := p
    simp only [JV.member, List.map_cons, List.find?_cons, List.lookup_cons] at ih ⊢
    by_cases h : n = ns
    · subst h; simp
    · have h' : (ns == n) = false := by simpa using fun e => h e.symm
      have h'' : (n == ns) = false := by simpa using h
      simp only [h', h'']
      exact ih

theorem pipe_marks (t : Trav) : JV.member "marks" (pipeDoc t) =
    some (.obj (t.marks.map fun p => (p.1, JV.obj (mongoFields p.2)))) := by
  simp [pipeDoc, mongoFields, JV.member]

/-- The heart of the repair: for a key whose mark is present and which addresses a field, the
    emitted field name resolves on the pipeline document to the core engine's lookup. -/
theorem mongoRes_eq_coreRes (t : Trav) (k : String)
    (hd : keyDefined t k = true) (ha : keyAddressesField k = true) :
    mongoRes t k = coreRes t k := by
  rcases jsonPathOf_head k with h0 | ⟨f, rest, hp, hf⟩
  · simp [keyAddressesField, h0] at ha
  · unfold mongoRes coreRes mpathL
    cases hn : nsOf k with
    | none =>
      simp only [basePath, hp, lookup_getD, mongoGet_getD, Path.lookupDoc]
      exact elem_addr t.cur [("marks", .obj (t.marks.map fun p => (p.1, JV.obj (mongoFields p.2))))] f rest hf (by simp)
    | some ns =>
      simp only [keyDefined, hn] at hd
      cases hm : t.marks.lookup ns with
      | none => simp [hm] at hd
      | some m =>
        simp only [basePath, hp, lookup_getD, mongoGet_getD, Path.lookupDoc, hm]
        have := elem_addr m [] f rest hf (by simp)
        simp only [List.append_nil] at this
        rw [← this]
        simp only [JV.getPath?, pipe_marks, marks_member, hm, Option.map_some]

/-! ### a filter only looks at the keys of its expression -/

theorem leaf_congr (d1 d2 : Res) (k : String) (c : Cond) (a : JV) (n : Bool) (h : d1 k = d2 k) :
    mEval d1 (convert (.cond k c a) n) = mEval d2 (convert (.cond k c a) n) := by
  cases n <;> cases c <;> simp only [convert, convRange, convCond] <;> (repeat' split) <;>
    simp [junction, mEval, mEvalList, h]

theorem junction_congr (d1 d2 : Res) (isAnd n : Bool) (xs : List MDoc)
    (h : mEvalList d1 xs = mEvalList d2 xs) :
    mEval d1 (junction isAnd n xs) = mEval d2 (junction isAnd n xs) := by
  unfold junction
  split
  · split <;> simp [mEval]
  · split <;> simp [mEval, h]

mutual
  theorem convert_congr (t : Trav) : ∀ (e : HasE) (n : Bool),
      marksDefined t e = true → keysAddressFields e = true →
      mEval (mongoRes t) (convert e n) = mEval (coreRes t) (convert e n)
    | .cond k c a, n, hd, ha => by
      simp only [marksDefined] at hd; simp only [keysAddressFields] at ha
      exact leaf_congr _ _ k c a n (mongoRes_eq_coreRes t k hd ha)
    | .and es, n, hd, ha => by
      simp only [marksDefined] at hd; simp only [keysAddressFields] at ha
      simp only [convert]
      exact junction_congr _ _ _ _ _ (convertList_congr t es n hd ha)
    | .or es, n, hd, ha => by
      simp only [marksDefined] at hd; simp only [keysAddressFields] at ha
      simp only [convert]
      exact junction_congr _ _ _ _ _ (convertList_congr t es n hd ha)
    | .not x, n, hd, ha => by
      simp only [marksDefined] at hd; simp only [keysAddressFields] at ha
      simp only [convert]
      exact convert_congr t x (!n) hd ha
    | .none, n, _, _ => by simp [convert, mEval]
  theorem convertList_congr (t : Trav) : ∀ (es : List HasE) (n : Bool),
      marksDefinedList t es = true → keysAddressFieldsList es = true →
      mEvalList (mongoRes t) (convertList es n) = mEvalList (coreRes t) (convertList es n)
    | [], _, _, _ => by simp [convertList, mEvalList]
    | x :: xs, n, hd, ha => by
      simp only [marksDefinedList, Bool.and_eq_true] at hd
      simp only [keysAddressFieldsList, Bool.and_eq_true] at ha
      simp only [convertList, mEvalList]
      rw [convert_congr t x n hd.1 ha.1, convertList_congr t xs n hd.2 ha.2]
end

end Grip.Props.C14.Mark
