/-
  Lemmas for C07, the cycle of a mark/jump loop with a BOUNDED return queue: one hub traveler
  whose fan-out exceeds what the cycle can hold blocks every goroutine.

  The argument is a counting one (no schedule is constructed).  After the first stage has taken
  the hub it holds `f` copies in its hand and takes nothing more until the hand is empty.  Every
  copy it delivers travels round the cycle — next channels, hands of the one-to-one stages, the
  jump's channel and hand, the queue, and finally the first stage's own input channel, where it
  waits behind the hand — and cannot leave (it still has a jump to make when it reaches the jump,
  and afterwards it sits in front of the blocked first stage).  The places on that way hold
  `room` travelers in all.  With `f > room` the hand never becomes empty (`J` is an invariant);
  the system has no infinite execution (`step_mu`), so it reaches a state in which nothing moves,
  and that state still has the hand non-empty: a deadlock.
-/
import GripProofs.Lemmas.C07Loop

namespace Grip.Props.C07.Lemmas.Loop
open Grip.C07 (Reach sumMap)
open Grip.C07.Loop

/-- travelers held by the cells -/
def occ : List Cell → Nat
  | [] => 0
  | d :: r => d.buf.length + d.hand.length + occ r

/-- travelers a list of one-to-one cells can hold: every channel full, every hand holding one -/
def capOf : List Cell → Nat
  | [] => 0
  | d :: r => d.cap + 1 + capOf r

/-- a one-to-one cell within its capacity whose travelers all still have a jump to make -/
def GoodC (d : Cell) : Prop :=
  d.fan = 1 ∧ d.buf.length ≤ d.cap ∧ d.hand.length ≤ 1 ∧ (∀ t ∈ d.buf, 0 < t.passes) ∧ (∀ t ∈ d.hand, 0 < t.passes)

def Good (r : List Cell) : Prop := ∀ d ∈ r, GoodC d

theorem good_cons {d : Cell} {r : List Cell} : Good (d :: r) ↔ GoodC d ∧ Good r := by
  simp [Good]

theorem occ_le : ∀ (r : List Cell), Good r → occ r ≤ capOf r := by
  intro r
  induction r with
  | nil => intro _; simp [occ, capOf]
  | cons d r ih =>
    intro h
    obtain ⟨hd, hr⟩ := good_cons.mp h
    have := ih hr
    obtain ⟨_, h1, h2, _, _⟩ := hd
    simp only [occ, capOf]
    omega

theorem occ_lt {d : Cell} {r : List Cell} (h : Good (d :: r)) (hroom : d.buf.length < d.cap) :
    occ (d :: r) < capOf (d :: r) := by
  obtain ⟨hd, hr⟩ := good_cons.mp h
  have := occ_le r hr
  obtain ⟨_, h1, h2, _, _⟩ := hd
  simp only [occ, capOf]
  omega

def labelCount : Option Trav → Nat
  | none => 0
  | some _ => 1

theorem good_bstep {r r' : List Cell} {a : Option Trav} (h : BStep r a r') (hg : Good r) :
    Good r' ∧ capOf r' = capOf r ∧ occ r = occ r' + labelCount a ∧ (∀ y, a = some y → 0 < y.passes) := by
  induction h with
  | @take c x xs r hh hb =>
    obtain ⟨⟨hf, h1, h2, h3, h4⟩, hr⟩ := good_cons.mp hg
    refine ⟨good_cons.mpr ⟨⟨hf, ?_, ?_, ?_, ?_⟩, hr⟩, by simp [capOf], ?_, by simp⟩
    · rw [hb] at h1; simp only [List.length_cons] at h1 ⊢; omega
    · simp [hf]
    · intro t ht; exact h3 t (by rw [hb]; exact List.mem_cons_of_mem _ ht)
    · intro t ht
      simp [hf] at ht
      subst ht
      exact h3 t (by rw [hb]; simp)
    · simp only [occ, hh, hb, hf, labelCount, List.length_cons, List.length_replicate, List.length_nil]; omega
  | @emit c d y ys r hh hroom =>
    obtain ⟨⟨hf, h1, h2, h3, h4⟩, hdr⟩ := good_cons.mp hg
    obtain ⟨⟨gf, g1, g2, g3, g4⟩, hr⟩ := good_cons.mp hdr
    refine ⟨good_cons.mpr ⟨⟨hf, h1, ?_, h3, ?_⟩, good_cons.mpr ⟨⟨gf, ?_, g2, ?_, g4⟩, hr⟩⟩,
      by simp [capOf], ?_, by simp⟩
    · rw [hh] at h2; simp only [List.length_cons] at h2 ⊢; omega
    · intro t ht; exact h4 t (by rw [hh]; exact List.mem_cons_of_mem _ ht)
    · simp only [List.length_append, List.length_cons, List.length_nil]; omega
    · intro t ht
      rcases List.mem_append.mp ht with ht | ht
      · exact g3 t ht
      · simp at ht; subst ht; exact h4 t (by rw [hh]; simp)
    · simp only [occ, hh, labelCount, List.length_cons, List.length_append, List.length_nil]; omega
  | @offer c y ys hh =>
    obtain ⟨⟨hf, h1, h2, h3, h4⟩, hr⟩ := good_cons.mp hg
    refine ⟨good_cons.mpr ⟨⟨hf, h1, ?_, h3, ?_⟩, hr⟩, by simp [capOf], ?_, ?_⟩
    · rw [hh] at h2; simp only [List.length_cons] at h2 ⊢; omega
    · intro t ht; exact h4 t (by rw [hh]; exact List.mem_cons_of_mem _ ht)
    · simp only [occ, hh, labelCount, List.length_cons]; omega
    · intro z hz
      cases hz
      exact h4 y (by rw [hh]; simp)
  | @tail c a r r' hs ih =>
    obtain ⟨hc, hr⟩ := good_cons.mp hg
    obtain ⟨i1, i2, i3, i4⟩ := ih hr
    refine ⟨good_cons.mpr ⟨hc, i1⟩, by simp [capOf, i2], ?_, i4⟩
    simp only [occ]
    omega

/-- The first stage holds part of the hub's fan-out in its hand; everything it has delivered is
    still in the cycle (`f` travelers in all), and the cycle has fewer than `f` places. -/
def J (K f : Nat) (s : State) : Prop :=
  s.input = [] ∧ ∃ c r, s.cells = c :: r ∧ r ≠ [] ∧ c.hand ≠ [] ∧ (∀ t ∈ c.hand, 0 < t.passes) ∧
    c.buf.length ≤ c.cap ∧ Good r ∧ s.queue.length ≤ K ∧
    c.hand.length + c.buf.length + occ r + s.queue.length = f ∧ c.cap + capOf r + K < f

theorem J_not_final {K f : Nat} {s : State} (h : J K f s) : ¬ Final s := by
  obtain ⟨_, c, r, hc, _, hh, _⟩ := h
  intro hf
  exact hh (hf.2.2 c (by rw [hc]; simp)).2

theorem J_step {K f : Nat} {emit : Bool} {s s' : State} (hj : J K f s) (h : Step ⟨some K, emit⟩ s s') :
    J K f s' := by
  obtain ⟨input, cells, queue, out⟩ := s
  obtain ⟨hi, c, r, hc, hrne, hh, hp, hb, hg, hq, hsum, hlt⟩ := hj
  simp only at hi hc hq hsum
  subst hi hc
  cases h with
  | @markIn t ts hi hr => simp at hi
  | @markQ t ts hqe hr =>
    simp only at hqe hr
    subst hqe
    simp only [headRoom] at hr
    refine ⟨rfl, _, r, rfl, hrne, hh, hp, ?_, hg, ?_, ?_, hlt⟩
    · simp; omega
    · simp at hq ⊢; omega
    · simp at hsum ⊢; omega
  | @body cs hbs =>
    simp only at hbs
    cases hbs with
    | take hh' _ => exact absurd hh' hh
    | @emit _ d y ys r' hh' hroom =>
      have hys : ys ≠ [] := by
        intro hys
        have h1 := occ_lt hg hroom
        simp [hh', hys] at hsum
        omega
      obtain ⟨⟨gf, g1, g2, g3, g4⟩, hr'⟩ := good_cons.mp hg
      refine ⟨rfl, _, _, rfl, by simp, hys, ?_, hb, ?_, hq, ?_, ?_⟩
      · intro t ht; exact hp t (by rw [hh']; exact List.mem_cons_of_mem _ ht)
      · refine good_cons.mpr ⟨⟨gf, ?_, g2, ?_, g4⟩, hr'⟩
        · simp; omega
        · intro t ht
          rcases List.mem_append.mp ht with ht | ht
          · exact g3 t ht
          · simp at ht; subst ht; exact hp t (by rw [hh']; simp)
      · simp [hh', occ] at hsum ⊢; omega
      · simpa [capOf] using hlt
    | tail hs =>
      obtain ⟨i1, i2, i3, _⟩ := good_bstep hs hg
      have hne := (bstep_ne_nil hs).2
      refine ⟨rfl, c, _, rfl, hne, hh, hp, hb, i1, hq, ?_, by rw [i2]; exact hlt⟩
      simp [labelCount] at i3
      simp only
      omega
  | @jumpBack t cs hbs hpos hroom =>
    simp only at hbs hroom
    cases hbs with
    | offer _ => exact absurd rfl hrne
    | tail hs =>
      obtain ⟨i1, i2, i3, _⟩ := good_bstep hs hg
      have hne := (bstep_ne_nil hs).2
      simp only [qRoom] at hroom
      refine ⟨rfl, c, _, rfl, hne, hh, hp, hb, i1, ?_, ?_, by rw [i2]; exact hlt⟩
      · simp; omega
      · simp [labelCount] at i3
        simp
        omega
  | @exit t cs hbs hz =>
    simp only at hbs
    cases hbs with
    | offer _ => exact absurd rfl hrne
    | tail hs =>
      obtain ⟨_, _, _, i4⟩ := good_bstep hs hg
      have := i4 t rfl
      omega

/-- the one-to-one stages behind the hub stage, then the jump, all empty -/
def restCells (caps : List Nat) (jcap : Nat) : List Cell :=
  caps.map (fun c => mkCell (c, 1)) ++ [mkCell (jcap, 1)]

@[simp] theorem mkCell_buf (st : Nat × Nat) : (mkCell st).buf = [] := rfl
@[simp] theorem mkCell_hand (st : Nat × Nat) : (mkCell st).hand = [] := rfl
@[simp] theorem mkCell_cap (st : Nat × Nat) : (mkCell st).cap = st.1 := rfl
@[simp] theorem mkCell_fan (st : Nat × Nat) : (mkCell st).fan = st.2 := rfl

theorem restCells_good : ∀ (caps : List Nat) (jcap : Nat), Good (restCells caps jcap) ∧ occ (restCells caps jcap) = 0
    ∧ capOf (restCells caps jcap) = sumMap (fun c => c + 1) caps + (jcap + 1) := by
  intro caps jcap
  induction caps with
  | nil => simp [restCells, Good, GoodC, occ, capOf, sumMap]
  | cons k ks ih =>
    obtain ⟨h1, h2, h3⟩ := ih
    simp only [restCells, List.map_cons, List.cons_append] at h1 h2 h3 ⊢
    refine ⟨good_cons.mpr ⟨by simp [GoodC], h1⟩, by simp [occ, h2], ?_⟩
    simp only [capOf, h3, sumMap, mkCell_cap]
    omega

/-- places on the way round the cycle from the hub stage back to its own input channel -/
def cycleRoom (K jcap c0 : Nat) (caps : List Nat) : Nat :=
  c0 + sumMap (fun c => c + 1) caps + (jcap + 1) + K

/-- the state after the mark has passed the hub on and the first stage has taken it -/
def hubTaken (c0 f : Nat) (caps : List Nat) (jcap : Nat) : State :=
  { input := [], queue := [], out := [],
    cells := { cap := c0, fan := f, buf := [], hand := List.replicate f ⟨0, 1⟩ } :: restCells caps jcap }

theorem hubTaken_reach (P : Params) (c0 f : Nat) (caps : List Nat) (jcap : Nat) (h0 : 0 < c0) :
    Reach (Step P) (init ((c0, f) :: caps.map (fun c => (c, 1))) jcap [⟨0, 1⟩]) (hubTaken c0 f caps jcap) := by
  have hcells : (init ((c0, f) :: caps.map (fun c => (c, 1))) jcap [⟨0, 1⟩]).cells
      = mkCell (c0, f) :: restCells caps jcap := by
    simp [init, restCells, Function.comp_def]
  have s1 := Step.markIn (P := P) (s := init ((c0, f) :: caps.map (fun c => (c, 1))) jcap [⟨0, 1⟩])
    (t := ⟨0, 1⟩) (ts := []) rfl (by rw [hcells]; simpa [headRoom, mkCell] using h0)
  have s2 := Step.body (P := P) (BStep.take (c := { mkCell (c0, f) with buf := [⟨0, 1⟩] }) (x := ⟨0, 1⟩)
    (xs := []) (r := restCells caps jcap) rfl rfl)
    (s := { input := [], queue := [], out := [],
            cells := { mkCell (c0, f) with buf := [⟨0, 1⟩] } :: restCells caps jcap })
  rw [hcells] at s1
  exact Reach.step (Reach.step (Reach.refl _) s1) s2

theorem hubTaken_J (K c0 f : Nat) (caps : List Nat) (jcap : Nat) (hf : cycleRoom K jcap c0 caps < f) :
    J K f (hubTaken c0 f caps jcap) := by
  obtain ⟨h1, h2, h3⟩ := restCells_good caps jcap
  refine ⟨rfl, _, _, rfl, by simp [restCells], ?_, ?_, by simp, h1, by simp [hubTaken], ?_, ?_⟩
  · have : f ≠ 0 := by omega
    cases f with
    | zero => exact absurd rfl this
    | succ f => simp [List.replicate]
  · intro t ht
    rw [(List.mem_replicate.mp ht).2]
    simp
  · simp [hubTaken, h2]
  · simp only [h3]
    simp only [cycleRoom] at hf
    omega

/-- one hub traveler whose fan-out exceeds the places of the cycle: a deadlock is reachable -/
theorem hub_deadlocks (K jcap c0 f : Nat) (caps : List Nat) (emit : Bool) (h0 : 0 < c0)
    (hf : cycleRoom K jcap c0 caps < f) :
    ∃ s, Deadlock ⟨some K, emit⟩ (init ((c0, f) :: caps.map (fun c => (c, 1))) jcap [⟨0, 1⟩]) s := by
  obtain ⟨t, hreach, hstuck⟩ := exists_terminal (Step ⟨some K, emit⟩) mu
    (fun a b h => by have := step_mu h; omega) (mu (hubTaken c0 f caps jcap)) (hubTaken c0 f caps jcap)
    (Nat.le_refl _)
  have hj : J K f t :=
    reach_inv (J K f) (fun _ _ ha hs => J_step ha hs) hreach (hubTaken_J K c0 f caps jcap hf)
  exact ⟨t, reach_trans (hubTaken_reach _ c0 f caps jcap h0) hreach, J_not_final hj, hstuck⟩

end Grip.Props.C07.Lemmas.Loop
