/-
  Lemmas.C10Rev — the reverse scan loop of kvindex
  (`for it.SeekReverse(k); it.Valid() && HasPrefix(it.Key(), p); it.Next()`) in closed form: the
  entries with key ≤ k in descending order, as long as they carry the prefix.
-/
import GripProofs.Lemmas.C10Iter

namespace Grip.Props.C10.Lemmas
open Grip Grip.Bytes Grip.SMap Grip.Spec.C10

/-- Backward `next` from an entry of a sorted list is the entry before it in the list. -/
theorem lastLT_split {rpre post : List KV} {k v : Bytes} (hs : Sorted (rpre.reverse ++ (k, v) :: post)) :
    Iter.lastLT (rpre.reverse ++ (k, v) :: post) k = rpre.head? := by
  unfold Sorted at hs
  rw [List.pairwise_append] at hs
  obtain ⟨_, hxb, hpre⟩ := hs
  rw [List.pairwise_cons] at hxb
  unfold Iter.lastLT
  have e : (rpre.reverse ++ (k, v) :: post).reverse = post.reverse ++ (k, v) :: rpre := by simp
  rw [e, List.find?_append]
  have h1 : post.reverse.find? (fun kv => blt kv.1 k) = none := by
    apply List.find?_eq_none.mpr
    intro y hy
    have := hxb.1 y (List.mem_reverse.mp hy)
    simp at this
    simp [blt_asymm this]
  rw [h1]
  simp only [Option.none_or, List.find?_cons, blt_irrefl]
  cases rpre with
  | nil => rfl
  | cons y ys =>
    have := hpre y (by simp) (k, v) (by simp)
    simp at this
    simp [this]

/-- From an entry of a sorted list the backward scan loop yields the longest run of entries with
    the prefix going down from there. `rpre` is the part of the list before the entry, reversed. -/
theorem collect_backward (p : Bytes) : ∀ (rpre post : List KV) (kv : KV) (fuel : Nat),
    Sorted (rpre.reverse ++ kv :: post) → rpre.length < fuel →
    (Iter.collect (rpre.reverse ++ kv :: post) p fuel { forward := false, cur := some kv }).1
      = (kv :: rpre).takeWhile (fun x => hasPrefix x.1 p)
  | rpre, post, (k, v), 0, _, hf => by omega
  | [], post, (k, v), fuel + 1, hs, _ => by
    unfold Iter.collect
    cases hp : hasPrefix k p with
    | false => simp [hp]
    | true =>
      have hn : Iter.next ([].reverse ++ (k, v) :: post) { forward := false, cur := some (k, v) }
          = { forward := false, cur := none } := by
        simp only [Iter.next, Bool.false_eq_true, if_false]
        rw [lastLT_split hs]
        rfl
      simp only [hp, if_true, hn, collect_none]
      simp [hp]
  | y :: ys, post, (k, v), fuel + 1, hs, hf => by
    unfold Iter.collect
    cases hp : hasPrefix k p with
    | false => simp [hp]
    | true =>
      have hn : Iter.next ((y :: ys).reverse ++ (k, v) :: post) { forward := false, cur := some (k, v) }
          = { forward := false, cur := some y } := by
        simp only [Iter.next, Bool.false_eq_true, if_false]
        rw [lastLT_split hs]
        rfl
      have e : (y :: ys).reverse ++ (k, v) :: post = ys.reverse ++ y :: ((k, v) :: post) := by simp
      have hs' : Sorted (ys.reverse ++ y :: ((k, v) :: post)) := by rw [← e]; exact hs
      have ih := collect_backward p ys ((k, v) :: post) y fuel hs' (by simp at hf; omega)
      simp only [hp, hn, if_true]
      rw [e, List.takeWhile_cons]
      simp only [hp, if_true]
      rw [← ih]

/-- The entries a reverse scan from `k` with prefix `p` is specified to return. -/
def revEntries (m : List KV) (k p : Bytes) : List KV :=
  ((m.filter (fun kv => ble kv.1 k)).reverse).takeWhile (fun kv => hasPrefix kv.1 p)

theorem scanReverse_eq {m : List KV} (hs : Sorted m) (it : Iter) (k p : Bytes) :
    (Iter.scanReverse m it k p).1 = revEntries m k p := by
  unfold Iter.scanReverse Iter.seekReverse revEntries
  cases hf : Iter.lastLE m k with
  | none =>
    have hall := findrev_none hf
    rw [collect_none]
    have : m.filter (fun kv => ble kv.1 k) = [] := by
      apply List.filter_eq_nil_iff.mpr
      intro y hy
      simpa using hall y hy
    simp [this]
  | some kv =>
    obtain ⟨hq, as, bs, hm, has⟩ := List.find?_eq_some_iff_append.mp hf
    have hm' : m = bs.reverse ++ kv :: as.reverse := by
      have := congrArg List.reverse hm
      simpa using this
    subst hm'
    rw [collect_backward p bs as.reverse kv _ hs (by simp; omega)]
    congr 1
    -- the entries at or below k are exactly bs.reverse ++ [kv]
    unfold Sorted at hs
    have hs0 := hs
    rw [List.pairwise_append] at hs
    obtain ⟨_, hxb, hpre⟩ := hs
    rw [List.pairwise_cons] at hxb
    rw [List.filter_append, List.filter_cons]
    have h1 : bs.reverse.filter (fun x => ble x.1 k) = bs.reverse := by
      apply List.filter_eq_self.mpr
      intro y hy
      exact ble_trans (ble_of_blt (hpre y hy kv (by simp))) hq
    have h2 : as.reverse.filter (fun x => ble x.1 k) = [] := by
      apply List.filter_eq_nil_iff.mpr
      intro y hy
      have := has y (List.mem_reverse.mp hy)
      simpa using this
    rw [h1, h2]
    simp [hq]

end Grip.Props.C10.Lemmas
