import Grip.Model.C12Nested
import GripProofs.Lemmas.C12LiveMultiSim

/-! Executable steps of the nested-loop model, sound for `Nested.Step`: a schedule is a list of
    labels (which goroutine moves), `execLabels` runs it. -/
set_option linter.unusedSimpArgs false
namespace Grip.Props.C12.Nested.Sim
open Grip.C12 (Msg Phase)
open Grip.C12.Multi (Chan)
open Grip.C12.Nested
open Grip.Props.C12.Multi.Sim (findFirst findFirst_some findFirst_none)

variable {T : Type}

theorem first_of {W A B : List (Chan × Msg T)} {c : Chan} {m : Msg T}
    (h : findFirst c W = some (A, m, B)) : First W c m A B := findFirst_some h

def stageStep (sys : List (NStage T)) (i : Nat) (s : State T) : Option (State T) :=
  match sys[i]? with
  | none => none
  | some (.body f) =>
    match findFirst (Chan.main i) s.W with
    | some (A, .trav t, B) =>
      some { s with W := A ++ B ++ outMain sys.length (i + 1) ((f t).map Msg.trav),
                    emitted := s.emitted ++ outDown sys.length (i + 1) (f t) }
    | some (A, .sig k, B) =>
      some { s with W := A ++ B ++ outMain sys.length (i + 1) [Msg.sig k] }
    | none => none
  | some (.jumpB c e) =>
    match findFirst (Chan.main i) s.W with
    | some (A, .trav t, B) =>
      some { s with W := A ++ B ++ (if c t then [(Chan.side i 0, Msg.trav t)] else [])
                          ++ outMain sys.length (i + 1) (if e then [Msg.trav t] else []),
                    emitted := s.emitted ++ outDown sys.length (i + 1) (if e then [t] else []) }
    | some (A, .sig k, B) =>
      some { s with W := A ++ B ++ outMain sys.length (i + 1) [Msg.sig k] }
    | none => none
  | some (.jumpA c e) =>
    match findFirst (Chan.main i) s.W with
    | some (A, .trav t, B) =>
      some { s with W := A ++ B ++ (if c t then [(Chan.side i 0, Msg.trav t)] else [])
                          ++ outMain sys.length (i + 1) (if e then [Msg.trav t] else []),
                    emitted := s.emitted ++ outDown sys.length (i + 1) (if e then [t] else []) }
    | some (A, .sig k, B) =>
      some { s with W := A ++ B ++ [(Chan.side i 0, Msg.sig k)]
                          ++ outMain sys.length (i + 1) [Msg.sig k] }
    | none => none
  | some (.markB q) =>
    match findFirst (Chan.side q 2) s.W with
    | some (A, m, B) => some { s with W := A ++ B ++ outMain sys.length (i + 1) [m] }
    | none =>
      match findFirst (Chan.main i) s.W with
      | some (A, m, B) => some { s with W := A ++ B ++ outMain sys.length (i + 1) [m] }
      | none => none

theorem stageStep_sound {sys : List (NStage T)} {last i : Nat} {s s' : State T}
    (h : stageStep sys i s = some s') : Step sys last (.stage i) s s' := by
  unfold stageStep at h
  split at h
  · cases h
  · next f hst =>
    split at h
    · next A t B hf => cases h; exact Step.bodyTrav (first_of hf) hst
    · next A k B hf =>
      cases h
      exact Step.fwdSig (f := f) (c := fun _ => true) (e := true) (first_of hf) hst (Or.inl rfl)
    · cases h
  · next c e hst =>
    split at h
    · next A t B hf => cases h; exact Step.jumpTrav (first_of hf) hst (Or.inr rfl)
    · next A k B hf =>
      cases h
      exact Step.fwdSig (f := fun _ => []) (first_of hf) hst (Or.inr rfl)
    · cases h
  · next c e hst =>
    split at h
    · next A t B hf => cases h; exact Step.jumpTrav (first_of hf) hst (Or.inl rfl)
    · next A k B hf => cases h; exact Step.jumpASig (first_of hf) hst
    · cases h
  · next q hst =>
    split at h
    · next A m B hf => cases h; exact Step.markBJump hst (first_of hf)
    · next hq =>
      split at h
      · next A m B hf => cases h; exact Step.markBIn hst (findFirst_none hq) (first_of hf)
      · cases h

def queueStep (j k : Nat) (s : State T) : Option (State T) :=
  if k < 2 then
    match findFirst (Chan.side j k) s.W with
    | some (A, m, B) => some { s with W := A ++ B ++ [(Chan.side j (k + 1), m)] }
    | none => none
  else none

theorem queueStep_sound {sys : List (NStage T)} {last j k : Nat} {s s' : State T}
    (h : queueStep j k s = some s') : Step sys last (.queue j k) s s' := by
  unfold queueStep at h
  split at h
  · next hk =>
    split at h
    · next A m B hf => cases h; exact Step.queue (first_of hf) hk
    · cases h
  · cases h

def markStep (last : Nat) (s : State T) : Option (State T) :=
  match s.phase with
  | .closed => none
  | .open =>
    match findFirst (Chan.side last 2) s.W with
    | some (A, m, B) => some { s with W := A ++ B ++ [(Chan.main 0, m)] }
    | none =>
      match s.inp with
      | t :: r => some { s with inp := r, W := s.W ++ [(Chan.main 0, Msg.trav t)] }
      | [] => some { s with phase := .closing }
  | .closing =>
    match findFirst (Chan.side last 2) s.W with
    | some (A, .trav t, B) =>
      some { s with W := A ++ B ++ [(Chan.main 0, Msg.trav t)],
                    signalOutdated := s.signalActive || s.signalOutdated }
    | some (A, .sig _, B) =>
      some (markDecide { s with W := A ++ B, returnCount := s.returnCount + 1 })
    | none => some (markDecide s)

theorem markStep_sound {sys : List (NStage T)} {last : Nat} {s s' : State T}
    (h : markStep last s = some s') : Step sys last .mark s s' := by
  unfold markStep at h
  split at h
  · cases h
  · next hp =>
    split at h
    · next A m B hf => cases h; exact Step.openJump hp (first_of hf)
    · next hf =>
      split at h
      · next t r hi => cases h; exact Step.openIn hp (findFirst_none hf) hi
      · next hi => cases h; exact Step.openClose hp (findFirst_none hf) hi
  · next hp =>
    split at h
    · next A t B hf => cases h; exact Step.closeTrav hp (first_of hf)
    · next A k B hf => cases h; exact Step.closeSig hp (first_of hf)
    · next hf => cases h; exact Step.closePoll hp (findFirst_none hf)

def labelStep (sys : List (NStage T)) (last : Nat) : Label → State T → Option (State T)
  | .stage i, s => stageStep sys i s
  | .queue j k, s => queueStep j k s
  | .mark, s => markStep last s

theorem labelStep_sound {sys : List (NStage T)} {last : Nat} {l : Label} {s s' : State T}
    (h : labelStep sys last l s = some s') : Step sys last l s s' := by
  cases l with
  | stage i => exact stageStep_sound h
  | queue j k => exact queueStep_sound h
  | mark => exact markStep_sound h

/-- Run a schedule (`none`: some goroutine of the schedule was not enabled). -/
def execLabels (sys : List (NStage T)) (last : Nat) : List Label → State T → Option (State T)
  | [], s => some s
  | l :: r, s =>
    match labelStep sys last l s with
    | some s' => execLabels sys last r s'
    | none => none

theorem execLabels_reachable {sys : List (NStage T)} {last : Nat} {inp0 : List T} :
    ∀ (ls : List Label) (s s' : State T), Reachable sys last inp0 s →
      execLabels sys last ls s = some s' → Reachable sys last inp0 s'
  | [], s, s', h, he => by simp [execLabels] at he; rw [← he]; exact h
  | l :: r, s, s', h, he => by
    unfold execLabels at he
    split at he
    · next s1 hs => exact execLabels_reachable r s1 s' (Reachable.step h (labelStep_sound hs)) he
    · cases he

end Grip.Props.C12.Nested.Sim
