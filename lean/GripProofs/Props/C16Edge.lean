/-
  Property C16 — accepted identifiers and values are stored verbatim or rejected: the EDGE half of
  the read-back clause (`accepted_vertex_roundtrip` in Props/C16.lean is the vertex half).

  `kvgraph.insertEdge` writes the record under a key that embeds (from, to, label), and `GetEdge`
  returns the record a forward scan of `EdgeKeyPrefix(graph, id)` ENDS on.  An accepted edge is
  therefore read back verbatim exactly when no record of the same id with other endpoints or label
  is in the store — open finding C03-edge-readd is the only way such a record gets there.  The
  statement is proved under that explicit side condition (`…_partial`), for every store, every field
  registration and every valid edge; the side condition holds for every fresh id and for every
  re-write with the same endpoints and label, and without it the statement is false on the model
  (`edge_readback_needs_side_condition`, the readd history of C03 seen from C16's side).
-/
import GripProofs.Props.C16

set_option linter.unusedSimpArgs false

namespace Grip.Props.C16
open Grip Grip.C03 Grip.C16 Grip.Props.C16.Lemmas

/-- No record of edge id `e.gid` in graph `g` lives under other endpoints or another label. -/
def FreshOrSame (m : KV) (g : String) (e : EdgeIn) : Prop :=
  ∀ p ∈ edgeRecords m g e.gid, p.1 = SKey.edge g e.gid e.frm e.to e.label

private def isEdgeOf (g eid : String) (p : SKey × Val) : Bool :=
  match p.1 with | .edge g' e' _ _ _ => g' = g ∧ e' = eid | _ => false

private theorem edgeRecords_eq (m : KV) (g eid : String) :
    edgeRecords m g eid = m.filter (isEdgeOf g eid) := by
  unfold edgeRecords; congr 1

private theorem edgeRecords_del (m : KV) (g eid : String) (k : SKey) :
    edgeRecords (m.del k) g eid = (edgeRecords m g eid).filter (fun p => ¬ p.1 = k) := by
  simp only [edgeRecords_eq, KV.del, List.filter_filter]
  apply List.filter_congr
  intro p _
  exact Bool.and_comm _ _

/-- a Set of a key that is not a record of (g, eid) does not change the records of (g, eid) -/
private theorem edgeRecords_set_other (m : KV) (g eid : String) (k : SKey) (v : Val)
    (hk : isEdgeOf g eid (k, v) = false) :
    edgeRecords (m.set k v) g eid = edgeRecords m g eid := by
  have hk' : ∀ v', isEdgeOf g eid (k, v') = false := by
    intro v'; simpa [isEdgeOf] using hk
  simp only [KV.set, edgeRecords_eq, List.filter_cons, hk, KV.del, List.filter_filter]
  simp only [Bool.false_eq_true, if_false]
  apply List.filter_congr
  intro p _
  by_cases hp : p.1 = k
  · have : isEdgeOf g eid p = false := by
      have := hk' p.2
      rw [← hp] at this
      simpa [isEdgeOf] using this
    simp [hp, this]
  · simp [hp]

/-- a Set of a record key of (g, eid): that record in front, the others minus the overwritten one -/
private theorem edgeRecords_set_self (m : KV) (g eid s d l : String) (v : Val) :
    edgeRecords (m.set (.edge g eid s d l) v) g eid =
      (SKey.edge g eid s d l, v) :: (edgeRecords m g eid).filter (fun p => ¬ p.1 = SKey.edge g eid s d l) := by
  have h1 : isEdgeOf g eid (SKey.edge g eid s d l, v) = true := by simp [isEdgeOf]
  rw [KV.set, edgeRecords_eq, List.filter_cons, h1]
  simp only [if_true]
  rw [← edgeRecords_eq, edgeRecords_del]

private theorem addDoc_edgeRecords (fields : List String) (m : KV) (g kind label docId g' eid : String) :
    edgeRecords (addDoc fields m g kind label docId) g' eid = edgeRecords m g' eid := by
  unfold addDoc
  split
  · rw [edgeRecords_set_other _ _ _ _ _ (by simp [isEdgeOf]),
        edgeRecords_set_other _ _ _ _ _ (by simp [isEdgeOf]),
        edgeRecords_set_other _ _ _ _ _ (by simp [isEdgeOf])]
  · rw [edgeRecords_set_other _ _ _ _ _ (by simp [isEdgeOf])]

private theorem addDoc_get_vertex (fields : List String) (m : KV) (g kind label docId g' id' : String) :
    (addDoc fields m g kind label docId).get (.vertex g' id') = m.get (.vertex g' id') := by
  unfold addDoc
  split <;> simp [get_set_ne]

/-- **Edge read-back (partial: side condition `FreshOrSame`, the complement of open finding
    C03-edge-readd).**  insertEdge on an accepted edge whose id is fresh, or already stored with the
    same endpoints and label: `GetEdge` returns it verbatim — id, label, from, to, data —, no edge
    with another (graph, id) changes and no vertex of any graph changes.
    Missing for full strength: a repair of kvgraph.insertEdge (the write-only bulk handle cannot
    remove the record stored under the old endpoints). -/
theorem accepted_edge_roundtrip_partial (fields : List String) (m : KV) (g : String) (e : EdgeIn)
    (he : validEdge16 e = true) (hf : FreshOrSame m g e) :
    let r := insertElem fields m g (sanitize (.e e))
    r.2 = true ∧
    getEdge r.1 g e.gid = some ⟨e.gid, e.label, e.frm, e.to, storedData e.data⟩ ∧
    (∀ g' id', (g', id') ≠ (g, e.gid) → getEdge r.1 g' id' = getEdge m g' id') ∧
    (∀ g' id', getVertex r.1 g' id' = getVertex m g' id') := by
  have hs : sanitize (.e e) = .e e := by simp [sanitize, validElem16, he]
  have he0 : validEdge e = true := valid16_imp_valid (.e e) (by simpa [validElem16] using he)
  simp only [hs, insertElem, insertEdge, he0, storedData, ofPV_toPV]
  refine ⟨by simp, ?_, ?_, ?_⟩
  · -- the records of (g, e.gid) after the write: exactly the new one
    have hrec : edgeRecords
        (addDoc fields
          (((m.set (.edge g e.gid e.frm e.to e.label) (.edge e.data)).set
              (.src g e.frm e.to e.gid e.label) .unit).set (.dst g e.to e.frm e.gid e.label) .unit)
          g "e" e.label e.gid) g e.gid
        = [(SKey.edge g e.gid e.frm e.to e.label, Val.edge e.data)] := by
      rw [addDoc_edgeRecords,
          edgeRecords_set_other _ _ _ _ _ (by simp [isEdgeOf]),
          edgeRecords_set_other _ _ _ _ _ (by simp [isEdgeOf]),
          edgeRecords_set_self]
      congr 1
      rw [List.filter_eq_nil_iff]
      intro p hp
      simp [hf p hp]
    simp [getEdge, hrec, lastByBytes]
  · intro g' id' hne
    have hk : isEdgeOf g' id' (SKey.edge g e.gid e.frm e.to e.label, Val.edge e.data) = false := by
      simp only [isEdgeOf, decide_eq_false_iff_not, not_and]
      intro h1 h2
      exact hne (by rw [h1, h2])
    simp only [Bool.not_true, Bool.false_eq_true, if_false, getEdge]
    rw [addDoc_edgeRecords,
        edgeRecords_set_other _ _ _ _ _ (by simp [isEdgeOf]),
        edgeRecords_set_other _ _ _ _ _ (by simp [isEdgeOf]),
        edgeRecords_set_other _ _ _ _ _ hk]
  · intro g' id'
    simp [getVertex, addDoc_get_vertex, get_set_ne]

/-- the side condition is satisfiable: every id the graph holds no record of is fresh -/
theorem freshOrSame_of_absent (m : KV) (g : String) (e : EdgeIn)
    (h : edgeRecords m g e.gid = []) : FreshOrSame m g e := by
  intro p hp; rw [h] at hp; cases hp

/-- … and it holds again right after the write (a second write of the same edge, e.g. with new data,
    is read back verbatim too). -/
theorem freshOrSame_after_write (fields : List String) (m : KV) (g : String) (e e' : EdgeIn)
    (he : validEdge16 e = true) (hf : FreshOrSame m g e)
    (hsame : e'.gid = e.gid ∧ e'.frm = e.frm ∧ e'.to = e.to ∧ e'.label = e.label) :
    FreshOrSame (insertElem fields m g (sanitize (.e e))).1 g e' := by
  have hs : sanitize (.e e) = .e e := by simp [sanitize, validElem16, he]
  have he0 : validEdge e = true := valid16_imp_valid (.e e) (by simpa [validElem16] using he)
  obtain ⟨h1, h2, h3, h4⟩ := hsame
  intro p hp
  simp only [hs, insertElem, insertEdge, he0, Bool.not_true, Bool.false_eq_true, if_false, h1] at hp
  rw [addDoc_edgeRecords,
      edgeRecords_set_other _ _ _ _ _ (by simp [isEdgeOf]),
      edgeRecords_set_other _ _ _ _ _ (by simp [isEdgeOf]),
      edgeRecords_set_self] at hp
  rw [h1, h2, h3, h4]
  cases hp with
  | head => rfl
  | tail _ hp =>
    have := (List.mem_filter.mp hp)
    exact hf p this.1

example : FreshOrSame [] "g" ⟨"e1", "L", "a", "b", .obj []⟩ :=
  freshOrSame_of_absent _ _ _ rfl

example : validEdge16 ⟨"e1", "L", "a", "b", .obj []⟩ = true := by decide

/-- Without the side condition the read-back clause fails on the MODEL of today's kvgraph: after
    AddEdge e1 (L: b→a) and AddEdge e1 (L: a→b) — both accepted — the store holds two records of e1
    (open finding C03-edge-readd; `Grip.Props.C03.edge_readd_witness` is the same history seen from
    C03's listings). -/
theorem edge_readback_needs_side_condition :
    let e1 : EdgeIn := ⟨"e1", "L", "b", "a", .obj []⟩
    let e2 : EdgeIn := ⟨"e1", "L", "a", "b", .obj []⟩
    let m1 := (insertElem [] [] "g" (.e e1)).1
    let m2 := (insertElem [] m1 "g" (.e e2)).1
    ¬ FreshOrSame m1 "g" e2 ∧ (edgeRecords m2 "g" "e1").length = 2 := by
  refine ⟨?_, by with_unfolding_all decide⟩
  intro h
  have := h (SKey.edge "g" "e1" "b" "a" "L", Val.edge (.obj [])) (by with_unfolding_all decide)
  simp at this

end Grip.Props.C16
