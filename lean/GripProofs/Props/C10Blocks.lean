/-
  C10 — seed C10-l as a theorem.  A driver that commits a long `BulkWrite` in blocks of `k` sets (to
  bound what its transaction keeps in memory) and, when the callback fails, rolls back only the block
  in progress.  It is indistinguishable from the ordered-map model on every load that succeeds and on
  every failing load shorter than a block — which is why no test of ordinary size sees it — and differs
  on a failing load of at least one block as soon as the last write of the committed blocks is news to
  the map.  (The check's volume case `fill … fail` is an instance: 12000 writes, blocks of 10000.)
-/
import GripProofs.Props.C10

namespace Grip.Props.C10
open Grip Grip.C10

/-- the sets of the blocks committed before a failure after all of `sets` were issued -/
def committedBlocks (k : Nat) (sets : List KV) : List KV := sets.take (sets.length / k * k)

/-- the block-wise driver -/
def runBulkBlocks (k : Nat) (m : List KV) (sets : List KV) (fail : Bool) : List KV :=
  if fail then runBulk m (committedBlocks k sets) false else runBulk m sets false

/-- a load that succeeds: the same map as the model -/
theorem blocks_agree_on_success (k : Nat) (m : List KV) (sets : List KV) :
    runBulkBlocks k m sets false = runBulk m sets false := by
  simp [runBulkBlocks]

/-- a failing load shorter than one block: rolled back as in the model -/
theorem blocks_agree_when_short (k : Nat) (m : List KV) (sets : List KV) (h : sets.length < k) :
    runBulkBlocks k m sets true = runBulk m sets true := by
  have h0 : sets.length / k = 0 := Nat.div_eq_of_lt h
  have h1 : runBulk m [] false = m := by rw [bulk_eq_seq]; rfl
  have h2 : runBulk m sets true = m := (failed_callback_model m [] sets).2
  simp [runBulkBlocks, committedBlocks, h0, h1, h2]

private theorem get_foldl_last (m : List KV) (pre : List KV) (k v : Bytes) :
    SMap.get ((pre ++ [(k, v)]).foldl (fun s kv => SMap.set s kv.1 kv.2) m) k = some v := by
  rw [List.foldl_append]
  simp [get_set]

/-- a failing load of at least one block: the last write of the committed blocks is in the map
    afterwards — the map is NOT as it was whenever that write is news to it -/
theorem blocks_keep_committed_writes (k : Nat) (m : List KV) (sets pre : List KV) (key v : Bytes)
    (hc : committedBlocks k sets = pre ++ [(key, v)]) (hnew : SMap.get m key ≠ some v) :
    SMap.get (runBulkBlocks k m sets true) key = some v ∧
    runBulkBlocks k m sets true ≠ runBulk m sets true := by
  have h1 : SMap.get (runBulkBlocks k m sets true) key = some v := by
    simp only [runBulkBlocks, if_true, hc, bulk_eq_seq]
    exact get_foldl_last m pre key v
  refine ⟨h1, ?_⟩
  intro heq
  rw [heq] at h1
  have : runBulk m sets true = m := (failed_callback_model m [] sets).2
  rw [this] at h1
  exact hnew h1

/-- non-vacuity: blocks of 2, three writes into the empty map, the callback fails: two writes stay -/
example : committedBlocks 2 [([1], [9]), ([2], [9]), ([3], [9])] = [([1], [9])] ++ [([2], [9])] := by decide

end Grip.Props.C10
