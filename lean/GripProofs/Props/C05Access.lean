/-
  Props.C05Access — the repository's own `enforce` (accounts.CasbinAccess with test/model.conf)
  and `validate` (accounts.BasicAuth, accounts.ProxyAuth), which Props.C05 treats as arbitrary
  functions.  MODEL: Grip.Model.C05Access (tied to the code by the correspondence mode "access":
  sequences of calls on one real instance against `casbinRun` / `basicRun` / `proxyValidate`).

  What is stated here:
   * a decision depends only on (policy, request), never on the calls made before it
     (`casbin_decision_stateless`, `casbin_history_irrelevant`, `basic_decision_stateless`);
   * what exactly grants: a row for that user on that graph or "*", for that class or "*", or the
     user "root" — and nothing else (`casbin_wildcards`, `casbin_wildcards_policy`, `root_always`,
     `casbin_no_subject_wildcard`), and adding rows never revokes (`casbin_monotone`);
   * which credentials validate (`basic_validates_iff`, `basic_parse_spec`, `basic_wellformed_iff`,
     `basic_malformed_rejected`, `proxy_validates_iff`);
   * the composition with Props.C05: with these two functions plugged into the interceptors, a
     handler runs only for a configured (user, password) presented in the header and a policy row
     (or root) that grants the method's class on the request's graph (`access_mediated`,
     `access_bulk_filtered`).
-/
import Grip.Model.C05Access
import GripProofs.Lemmas.C05Access
import GripProofs.Props.C05

namespace Grip.Props.C05Access
open Grip Grip.C05 Grip.C05.Access Grip.C05.Spec GripGen.AuthTables

/-! ## CasbinAccess: a decision is a function of (policy, request) -/

/-- casbin_decision_stateless: in any sequence of `Enforce` calls on one `CasbinAccess` instance
    (lazy `init` included), the i-th decision is the pure function of the policy file and the
    i-th request — whatever was asked before, however often. -/
theorem casbin_decision_stateless (policy : List Row) (reqs : List (String × String × String)) (i : Nat) :
    (casbinRun policy reqs)[i]? = reqs[i]?.map (fun r => casbinAllows policy r.1 r.2.1 r.2.2) := by
  rw [Lemmas.casbinRun_eq_map, List.getElem?_map]

/-- … in particular the answer to a request does not depend on the history before it. -/
theorem casbin_history_irrelevant (policy : List Row) (before : List (String × String × String))
    (u g o : String) :
    (casbinRun policy (before ++ [(u, g, o)])).getLast? = some (casbinAllows policy u g o) := by
  rw [Lemmas.casbinRun_eq_map]
  simp

/-- … and the same request gets the same answer wherever it stands in whichever sequence. -/
theorem casbin_repeat_same (policy : List Row) (s₁ s₂ : List (String × String × String)) (i j : Nat)
    (r : String × String × String) (h₁ : s₁[i]? = some r) (h₂ : s₂[j]? = some r) :
    (casbinRun policy s₁)[i]? = (casbinRun policy s₂)[j]? := by
  rw [casbin_decision_stateless, casbin_decision_stateless, h₁, h₂]

/-! ## What grants -/

/-- casbin_wildcards: `Enforce(u, g, o)` succeeds iff `u` is "root" or some row (of the rows the
    matcher sees: the policy, or the phantom row ("","","") of an EMPTY policy) names exactly `u`
    and names `g` or "*" as graph and `o` or "*" as operation.  Both directions: "*" in the graph
    column grants every graph, in the operation column every class — and nothing else does. -/
theorem casbin_wildcards (policy : List Row) (u g o : String) :
    casbinAllows policy u g o = true ↔
      u = "root" ∨ ∃ row ∈ effRows policy,
        row.1 = u ∧ (row.2.1 = g ∨ row.2.1 = "*") ∧ (row.2.2 = o ∨ row.2.2 = "*") := by
  unfold casbinAllows
  rw [List.any_eq_true]
  constructor
  · rintro ⟨row, hmem, hm⟩
    rcases (Lemmas.rowMatches_iff u g o row).mp hm with h | h
    · exact Or.inl h
    · exact Or.inr ⟨row, hmem, h⟩
  · rintro (h | ⟨row, hmem, h⟩)
    · cases hr : effRows policy with
      | nil => exact absurd hr (Lemmas.effRows_ne_nil policy)
      | cons r rs => exact ⟨r, by simp, (Lemmas.rowMatches_iff u g o r).mpr (Or.inl h)⟩
    · exact ⟨row, hmem, (Lemmas.rowMatches_iff u g o row).mpr (Or.inr h)⟩

/-- The same over the policy file's own rows, for every operation class the interceptors ask
    about (none of them is the empty string; for `o = ""` see `casbin_empty_policy_quirk`). -/
theorem casbin_wildcards_policy (policy : List Row) (u g o : String) (ho : o ≠ "") :
    casbinAllows policy u g o = true ↔
      u = "root" ∨ ∃ row ∈ policy,
        row.1 = u ∧ (row.2.1 = g ∨ row.2.1 = "*") ∧ (row.2.2 = o ∨ row.2.2 = "*") := by
  rw [casbin_wildcards]
  cases policy with
  | cons r rs => rw [Lemmas.effRows_of_ne_nil (by simp)]
  | nil =>
    constructor
    · rintro (h | ⟨row, hmem, _, _, h3⟩)
      · exact Or.inl h
      · simp [effRows] at hmem
        subst hmem
        rcases h3 with h3 | h3
        · exact absurd h3.symm ho
        · exact absurd h3 (by decide)
    · rintro (h | ⟨row, hmem, _⟩)
      · exact Or.inl h
      · simp at hmem

/-- casbin v2 evaluates the matcher of an EMPTY policy once with p.sub = p.obj = p.act = "":
    the anonymous user "" is then granted the empty class on the graph "" (and only that). -/
theorem casbin_empty_policy_quirk :
    casbinAllows [] "" "" "" = true ∧ casbinAllows [("alice", "g", "read")] "" "" "" = false ∧
    ∀ u g o, o ≠ "" → u ≠ "root" → casbinAllows [] u g o = false := by
  refine ⟨by decide, by decide, ?_⟩
  intro u g o ho hu
  cases h : casbinAllows [] u g o with
  | false => rfl
  | true =>
    rcases (casbin_wildcards_policy [] u g o ho).mp h with h | ⟨_, hm, _⟩
    · exact absurd h hu
    · simp at hm

/-- root_always: the user "root" is granted everything, whatever the policy says. -/
theorem root_always (policy : List Row) (g o : String) : casbinAllows policy "root" g o = true :=
  (casbin_wildcards policy "root" g o).mpr (Or.inl rfl)

/-- There is no wildcard for users: a row for "*" grants the user whose name is "*" only. -/
theorem casbin_no_subject_wildcard (g o u : String) (hu : u ≠ "*") (hr : u ≠ "root") :
    casbinAllows [("*", "*", "*")] u g o = false := by
  cases h : casbinAllows [("*", "*", "*")] u g o with
  | false => rfl
  | true =>
    rcases (casbin_wildcards _ u g o).mp h with h | ⟨row, hmem, h1, _⟩
    · exact absurd h hr
    · simp [effRows] at hmem
      subst hmem
      exact absurd h1.symm hu

/-- casbin_monotone: a policy with more rows grants at least as much.  (The side condition only
    excludes the phantom row of the empty policy: `casbin_empty_policy_quirk`.) -/
theorem casbin_monotone (p q : List Row) (hsub : ∀ r ∈ p, r ∈ q) (u g o : String)
    (hne : p ≠ [] ∨ o ≠ "") :
    casbinAllows p u g o = true → casbinAllows q u g o = true := by
  intro h
  rcases (casbin_wildcards p u g o).mp h with h | ⟨row, hmem, hrow⟩
  · exact (casbin_wildcards q u g o).mpr (Or.inl h)
  · by_cases hp : p = []
    · subst hp
      have ho : o ≠ "" := by
        rcases hne with h | h
        · exact absurd rfl h
        · exact h
      simp [effRows] at hmem
      subst hmem
      rcases hrow.2.2 with h3 | h3
      · exact absurd h3.symm ho
      · exact absurd h3 (by decide)
    · rw [Lemmas.effRows_of_ne_nil hp] at hmem
      have hq : q ≠ [] := by
        intro hq
        have := hsub row hmem
        rw [hq] at this
        simp at this
      refine (casbin_wildcards q u g o).mpr (Or.inr ⟨row, ?_, hrow⟩)
      rw [Lemmas.effRows_of_ne_nil hq]
      exact hsub row hmem

/-- Row order and duplicates do not matter. -/
theorem casbin_order_irrelevant (p q : List Row) (h : ∀ r, r ∈ p ↔ r ∈ q) (u g o : String) :
    casbinAllows p u g o = casbinAllows q u g o := by
  by_cases hp : p = []
  · subst hp
    have hq : q = [] := by
      cases q with
      | nil => rfl
      | cons r rs => exact absurd ((h r).mpr (by simp)) (by simp)
    rw [hq]
  · have hq : q ≠ [] := by
      intro hq
      cases p with
      | nil => exact hp rfl
      | cons r rs =>
        have := (h r).mp (by simp)
        rw [hq] at this
        simp at this
    cases hpq : casbinAllows p u g o with
    | true => exact (casbin_monotone p q (fun r hr => (h r).mp hr) u g o (Or.inl hp) hpq).symm
    | false =>
      cases hqp : casbinAllows q u g o with
      | false => rfl
      | true =>
        have := casbin_monotone q p (fun r hr => (h r).mpr hr) u g o (Or.inl hq) hqp
        rw [hpq] at this
        exact absurd this (by decide)

/-! ## BasicAuth -/

/-- parseBasicAuth, all cases at once: a header parses to (user, password) iff it starts with
    "Basic ", the rest is valid padded standard base64, and the decoded bytes are
    user ++ ":" ++ password with no ':' in user — so a missing prefix, bad base64 and a missing
    colon all fail, and every further ':' belongs to the password. -/
theorem basic_parse_spec (h u p : Bytes) :
    parseBasic h = some (u, p) ↔
      basicPrefix.isPrefixOf h = true ∧
      ∃ bs, b64Decode (h.drop basicPrefix.length) = some bs ∧ bs = u ++ 58 :: p ∧ (58 : UInt8) ∉ u := by
  unfold parseBasic
  cases hp : basicPrefix.isPrefixOf h with
  | false => simp
  | true =>
    simp only [if_true, true_and]
    cases hd : b64Decode (h.drop basicPrefix.length) with
    | none => simp
    | some bs =>
      simp only [Option.bind_some, Option.some.injEq, exists_eq_left']
      exact Lemmas.splitColon_spec bs u p

/-- basic_validates_iff: `Validate` returns user `u` iff the first value of the Authorization
    header (capitalised key first, then lower case) stands for a pair (u, password) that is in the
    configured credential list — where a header that does not parse stands for ("", "")
    (`basicPair`; the code does not look at parseBasicAuth's `ok`). -/
theorem basic_validates_iff (creds : List (String × String)) (md : MD) (u : String) :
    basicValidate creds md = some u ↔
      ∃ h rest, authValues md = some (h :: rest) ∧
        ∃ pw, (u, pw) ∈ creds ∧ (bytesOf u, bytesOf pw) = basicPair h := by
  unfold basicValidate
  cases ha : authValues md with
  | none => simp
  | some vs =>
    cases vs with
    | nil => simp
    | cons h rest =>
      show (creds.find? (fun c => (bytesOf c.1, bytesOf c.2) == basicPair h)).map (·.1) = some u ↔ _
      constructor
      · intro hv
        obtain ⟨c, hf, hcu⟩ := Option.map_eq_some_iff.mp hv
        have hm := List.mem_of_find?_eq_some hf
        have hp := List.find?_some hf
        simp only [beq_iff_eq] at hp
        subst hcu
        exact ⟨h, rest, rfl, c.2, hm, hp⟩
      · rintro ⟨h', rest', hh, pw, hm, hp⟩
        simp only [Option.some.injEq, List.cons.injEq] at hh
        obtain ⟨rfl, rfl⟩ := hh
        cases hf : creds.find? (fun c => (bytesOf c.1, bytesOf c.2) == basicPair h) with
        | none =>
          have := List.find?_eq_none.mp hf (u, pw) hm
          simp [hp] at this
        | some c =>
          have hc := List.find?_some hf
          simp only [beq_iff_eq] at hc
          rw [← hp] at hc
          have : c.1 = u := Lemmas.bytesOf_injective (Prod.mk.inj hc).1
          simp [this]

/-- basic_valid_header_validates (completeness from the caller's side): the header
    "Basic " ++ base64(user ++ ":" ++ password) built by a standard encoder from a configured pair
    whose user name has no ':' validates as that user — whatever else the password contains. -/
theorem basic_valid_header_validates (creds : List (String × String)) (md : MD) (u pw h : String)
    (rest : List String) (hm : (u, pw) ∈ creds) (hc : (58 : UInt8) ∉ bytesOf u)
    (ha : authValues md = some (h :: rest))
    (hh : bytesOf h = basicPrefix ++ b64Encode (bytesOf u ++ 58 :: bytesOf pw)) :
    basicValidate creds md = some u := by
  refine (basic_validates_iff creds md u).mpr ⟨h, rest, ha, pw, hm, ?_⟩
  have hp : parseBasic (bytesOf h) = some (bytesOf u, bytesOf pw) := by
    refine (basic_parse_spec _ _ _).mpr ⟨?_, bytesOf u ++ 58 :: bytesOf pw, ?_, rfl, hc⟩
    · rw [hh]; simp [List.isPrefixOf_iff_prefix]
    · rw [hh, List.drop_left, Lemmas.b64Decode_encode]
  unfold basicPair
  rw [hp]
  rfl

/-- A user name containing ':' can never validate with a parsing header: the cut is at the FIRST colon. -/
theorem basic_colon_user_never_parses (h : Bytes) (u p : Bytes) (hu : (58 : UInt8) ∈ u) :
    parseBasic h ≠ some (u, p) := by
  intro hp
  exact ((basic_parse_spec h u p).mp hp).2.choose_spec.2.2 hu

/-- Unless the empty pair ("", "") is itself a configured credential, only a well-formed header
    validates: prefix "Basic ", valid base64, user:password as configured. -/
theorem basic_wellformed_iff (creds : List (String × String)) (md : MD) (u : String)
    (hne : (("", "") : String × String) ∉ creds) :
    basicValidate creds md = some u ↔
      ∃ h rest, authValues md = some (h :: rest) ∧
        ∃ pw, (u, pw) ∈ creds ∧ parseBasic (bytesOf h) = some (bytesOf u, bytesOf pw) := by
  rw [basic_validates_iff]
  constructor
  · rintro ⟨h, rest, ha, pw, hm, hp⟩
    refine ⟨h, rest, ha, pw, hm, ?_⟩
    unfold basicPair at hp
    cases hq : parseBasic (bytesOf h) with
    | some x => rw [hq] at hp; simp at hp; rw [hp]
    | none =>
      rw [hq] at hp
      simp only [Option.getD_none, Prod.mk.injEq] at hp
      have hu := Lemmas.bytesOf_eq_nil hp.1
      have hw := Lemmas.bytesOf_eq_nil hp.2
      subst hu; subst hw
      exact absurd hm hne
  · rintro ⟨h, rest, ha, pw, hm, hp⟩
    exact ⟨h, rest, ha, pw, hm, by unfold basicPair; rw [hp]; rfl⟩

/-- A header that does not parse (no "Basic " prefix, bad base64, no colon) is rejected — unless
    the empty pair is configured (`basic_unparsed_matches_empty_credential`). -/
theorem basic_malformed_rejected (creds : List (String × String)) (md : MD) (h : String) (rest : List String)
    (hne : (("", "") : String × String) ∉ creds)
    (ha : authValues md = some (h :: rest)) (hp : parseBasic (bytesOf h) = none) :
    basicValidate creds md = none := by
  cases hv : basicValidate creds md with
  | none => rfl
  | some u =>
    obtain ⟨h', rest', ha', pw, _, hp'⟩ := (basic_wellformed_iff creds md u hne).mp hv
    rw [ha] at ha'
    simp only [Option.some.injEq, List.cons.injEq] at ha'
    rw [← ha'.1, hp] at hp'
    exact absurd hp' (by simp)

/-- No header, or a key without a value: rejected. -/
theorem basic_absent_rejected (creds : List (String × String)) (md : MD)
    (ha : authValues md = none ∨ authValues md = some []) : basicValidate creds md = none := by
  unfold basicValidate
  rcases ha with ha | ha <;> rw [ha]

/-- The code's quirk, on a concrete witness: with the empty pair configured, any header that does
    not parse validates as the user "". -/
theorem basic_unparsed_matches_empty_credential :
    parseBasic [66, 101, 97, 114, 101, 114, 32, 120] = none ∧           -- "Bearer x"
    ∀ h, parseBasic (bytesOf h) = none →
      basicValidate [("alice", "pw"), ("", "")] [("authorization", [h])] = some "" := by
  refine ⟨by decide, ?_⟩
  intro h hp
  refine (basic_validates_iff _ _ _).mpr ⟨h, [], by simp [authValues, List.lookup], "", by simp, ?_⟩
  unfold basicPair
  rw [hp, Lemmas.bytesOf_empty]
  rfl

/-- basic_decision_stateless: a sequence of `Validate` calls on one BasicAuth value answers each
    call as the pure function of (credential list, metadata). -/
theorem basic_decision_stateless (creds : List (String × String)) (mds : List MD) (i : Nat) :
    (basicRun creds mds)[i]? = mds[i]?.map (basicValidate creds) := by
  unfold basicRun
  rw [Lemmas.basicRunFrom_eq_map, List.getElem?_map]

/-! ## ProxyAuth -/

/-- proxy_validates_iff: the user is the first value of the configured metadata field; an absent
    field or a field without values is refused. -/
theorem proxy_validates_iff (field : String) (md : MD) (u : String) :
    proxyValidate field md = some u ↔ ∃ rest, md.lookup field = some (u :: rest) := by
  unfold proxyValidate
  cases hl : md.lookup field with
  | none => simp
  | some vs =>
    cases vs with
    | nil => simp
    | cons v rest => simp

theorem proxy_absent_rejected (field : String) (md : MD)
    (h : md.lookup field = none ∨ md.lookup field = some []) : proxyValidate field md = none := by
  unfold proxyValidate
  rcases h with h | h <;> rw [h]

/-! ## Composition with Props.C05 (validate := BasicAuth, enforce := CasbinAccess) -/

/-- access_mediated: a grip server configured with BasicAuth `creds` and CasbinAccess `policy`
    runs the handler of a unary or server-stream method only with the caller's own request, and
    only if the Authorization header stands for a configured (user, password) and that user is
    "root" or has a policy row for the request's graph (or "*") and the method's class (or "*"). -/
theorem access_mediated (creds : List (String × String)) (policy : List Row) :
    ∀ m ∈ tables.methods, (m.kind = .unary ∨ m.kind = .serverStream) → ∀ op, opOf m.full = some op →
    ∀ (tr : Transport) (p : Caller), p.wf tables m →
      p.validate = basicValidate creds → p.enforce = casbinEnforce policy → ∀ rs,
      (intercept tables tr m p).handled = some rs →
        rs = [p.req] ∧ ∃ u pw h rest, authValues p.md = some (h :: rest) ∧ (u, pw) ∈ creds ∧
          (bytesOf u, bytesOf pw) = basicPair h ∧
          (u = "root" ∨ ∃ row ∈ effRows policy, row.1 = u ∧
            (row.2.1 = graphOf p.req ∨ row.2.1 = "*") ∧ (row.2.2 = op.wire ∨ row.2.2 = "*")) := by
  intro m hm hk op hop tr p hwf hv he rs h
  have key : rs = [p.req] ∧ ∃ u, p.validate p.md = some u ∧ p.enforce u (graphOf p.req) op = true := by
    rcases hk with hk | hk
    · exact Grip.Props.C05.unary_mediated m hm hk op hop tr p hwf rs h
    · exact Grip.Props.C05.stream_mediated m hm hk op hop tr p hwf rs h
  obtain ⟨hrs, u, hu, hen⟩ := key
  rw [hv] at hu
  rw [he] at hen
  obtain ⟨hd, rest, ha, pw, hmem, hp⟩ := (basic_validates_iff creds p.md u).mp hu
  exact ⟨hrs, u, pw, hd, rest, ha, hmem, hp, (casbin_wildcards policy u (graphOf p.req) op.wire).mp hen⟩

/-- access_bulk_filtered: BulkAdd under the same configuration hands on exactly the elements whose
    own graph the policy lets the validated user write. -/
theorem access_bulk_filtered (creds : List (String × String)) (policy : List Row) :
    ∀ m ∈ tables.methods, m.kind = .clientStream → ∀ op, opOf m.full = some op →
    ∀ (tr : Transport) (p : Caller), p.wf tables m →
      p.validate = basicValidate creds → p.enforce = casbinEnforce policy → ∀ rs,
      (intercept tables tr m p).handled = some rs →
        ∃ u, basicValidate creds p.md = some u ∧
          rs = p.elems.filter (fun e => casbinAllows policy u (graphOf e) "write") := by
  intro m hm hk op hop tr p hwf hv he rs h
  obtain ⟨_, u, hu, hrs⟩ := Grip.Props.C05.bulk_filtered m hm hk op hop tr p hwf rs h
  rw [hv] at hu
  rw [he] at hrs
  exact ⟨u, hu, hrs⟩

/-! ## Non-vacuity: concrete policies, requests and headers -/

-- the shipped test/users.csv: alice holds "*","*"; bob read+query on test1, write on test2
private def shipped : List Row :=
  [("alice", "*", "*"), ("bob", "test1", "read"), ("bob", "test1", "query"), ("bob", "test2", "write"), ("bob", "test3", "query")]

example : casbinAllows shipped "alice" "anything" "admin" = true := by decide
example : casbinAllows shipped "bob" "test1" "read" = true := by decide
example : casbinAllows shipped "bob" "test1" "write" = false := by decide
example : casbinAllows shipped "bob" "test2" "read" = false := by decide
example : casbinAllows shipped "carol" "test1" "read" = false := by decide
example : casbinAllows shipped "root" "test9" "admin" = true := by decide
-- names that are separator-joins of one another are different names
example : casbinAllows [("svc-etl", "prod", "read")] "svc" "etl-prod" "read" = false := by decide
-- a sequence with repeats: the third answer is the first again
example : casbinRun shipped [("bob", "test1", "read"), ("bob", "test2", "read"), ("bob", "test1", "read")]
    = [true, false, true] := by decide
-- "Basic YWxpY2U6cDp3" = alice:p:w (the colon stays in the password)
example : parseBasic [66, 97, 115, 105, 99, 32, 89, 87, 120, 112, 89, 50, 85, 54, 99, 68, 112, 51]
    = some ([97, 108, 105, 99, 101], [112, 58, 119]) := by decide
-- "Basic YWxpY2U=" = alice (no colon), "Basic YWxpY2U" (padding missing)
example : parseBasic [66, 97, 115, 105, 99, 32, 89, 87, 120, 112, 89, 50, 85, 61] = none := by decide
example : parseBasic [66, 97, 115, 105, 99, 32, 89, 87, 120, 112, 89, 50, 85] = none := by decide
example : proxyValidate "x-user" [("x-user", ["carol", "x"])] = some "carol" := by decide
example : proxyValidate "x-user" [("x-other", ["carol"])] = none := by decide

end Grip.Props.C05Access
