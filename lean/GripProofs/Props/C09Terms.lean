/-
  Props.C09Terms — the term-key invariant of kvindex carried through every operation, and what
  it closes in Props.C09.

  MODEL `Grip.C09` (kvindex as repaired), SPEC `Grip.C09.Spec` (live documents + scan).
  `TermInv ts es` (Lemmas.C09Terms): no entry key twice, every entry has its term key, a stored
  count is 0 or exact, a term key exists only while an entry lies below it.
  * `termInv_reachable`: `TermInv` holds on every state reachable from the empty index, for all
    operation sequences (no side condition; bulk insertion onto a live id included).
  * `removeDoc_commits`, `addDoc_fails_only_on_rejection`: on a reachable state RemoveDoc always
    commits and AddDoc fails exactly when the document is rejected ("unsupported term type").
  * `fieldTerms_scan`: the listed terms of a field are exactly the terms some live document
    holds.  `fieldTermCounts_scan`: every reported count is the count of the scan, every live
    term is reported, and the recounts written back keep both invariants.
    The count statement needs that the scan holds no fact twice (`(Spec.facts sp).Nodup`): `Inv`
    relates entries and facts by membership only.  That hypothesis is explicit, and
    `facts_nodup_reachable` proves it for every SPEC state reachable from the empty one.
  * `refinement`: `refinement_partial` without the clause of `Judged` that was only there
    because `removeLoop` might fail; what remains (`BulkJudged`) is the bulk-insertion side
    condition of the open finding C09-bulk-replace.
-/
import GripProofs.Props.C09
import GripProofs.Lemmas.C09Terms

namespace Grip.Props.C09
open Grip Grip.C09 Grip.Props.C09.Lemmas

/-! ### the term-key invariant along every run -/

/-- Every operation keeps `TermInv`, committed or not (a failed transaction writes nothing). -/
theorem termInv_step {st : St} (h : TermInv st.terms st.entries) (o : Op) :
    TermInv ((stepM st o).getD st).terms ((stepM st o).getD st).entries := by
  cases hs : stepM st o with
  | none => exact h
  | some st' =>
    simp only [Option.getD_some]
    cases o with
    | addField f => simp only [stepM] at hs; injection hs with hs; subst hs; exact termInv_addField h f
    | removeField f =>
      simp only [stepM] at hs; injection hs with hs; subst hs; exact termInv_removeField h f
    | addDoc d doc => exact termInv_addDoc h hs
    | removeDoc d => exact termInv_removeDocTx h hs
    | addDocBulk d doc => exact termInv_addDocTx h hs

theorem termInv_run (ops : List Op) :
    ∀ st : St, TermInv st.terms st.entries → TermInv (runM st ops).terms (runM st ops).entries := by
  induction ops with
  | nil => intro st h; exact h
  | cons o os ih => intro st h; exact ih _ (termInv_step h o)

/-- The term-key invariant holds on every state reachable from the empty index, for every
    operation sequence (bulk insertions onto live ids included). -/
theorem termInv_reachable (ops : List Op) :
    TermInv (runM {} ops).terms (runM {} ops).entries :=
  termInv_run ops {} termInv_init

/-- RemoveDoc commits on every reachable state, for every document id: the loop over the stored
    entry list never meets an entry without its term key. -/
theorem removeDoc_commits {st : St} {ops : List Op} (hst : st = runM {} ops) (d : String) :
    removeDoc st d ≠ none := by
  subst hst; exact removeDoc_ne_none (termInv_reachable ops) d

/-- …and the committed state has the invariant again (so does every later state). -/
theorem removeDoc_commits_some {st : St} {ops : List Op} (hst : st = runM {} ops) (d : String) :
    ∃ st', removeDoc st d = some st' ∧ TermInv st'.terms st'.entries := by
  subst hst
  obtain ⟨st', hs, h, _⟩ := removeDocTx_total (termInv_reachable ops) d
  exact ⟨st', hs, h⟩

/-- On every reachable state AddDoc fails only if the removal of the previous version committed
    and `AddDocTx` then rejected the document; and that happens exactly when some registered
    field of the document holds a value that is neither string nor number. -/
theorem addDoc_fails_only_on_rejection {st : St} {ops : List Op} (hst : st = runM {} ops)
    (d : String) (doc : JV) :
    (addDoc st d doc = none → ∃ st1, removeDocTx st d = some st1 ∧ addDocTx st1 d doc = none) ∧
    (addDoc st d doc = none ↔ Spec.project doc st.fields = none) := by
  subst hst
  have ht := termInv_reachable ops
  refine ⟨?_, addDoc_none_iff ht d doc⟩
  intro hn
  obtain ⟨st1, hs, _, _⟩ := removeDocTx_total ht d
  refine ⟨st1, hs, ?_⟩
  simpa [addDoc, hs] using hn

/-! ### the scan holds no fact twice -/

/-- Well-formedness of the SPEC state: registered fields, live document ids and the fields of
    one live document are each listed once. -/
structure SpecWf (sp : Spec.Live) : Prop where
  fields : sp.fields.Nodup
  docIds : (sp.docs.map (·.1)).Nodup
  docFields : ∀ p ∈ sp.docs, (p.2.map (·.1)).Nodup

theorem specWf_init : SpecWf {} := by
  constructor <;> simp

theorem project_sublist (doc : JV) (fs : List String) :
    ∀ pr, Spec.project doc fs = some pr → (pr.map (·.1)).Sublist fs := by
  induction fs with
  | nil => intro pr h; simp only [Spec.project, Option.some.injEq] at h; subst h; simp
  | cons f fs ih =>
    intro pr h
    simp only [Spec.project] at h
    cases hd : mapDig doc (f.splitOn ".") with
    | none => simp only [hd] at h; exact (ih pr h).cons f
    | some v =>
      simp only [hd] at h
      cases ht : termOf v with
      | none => simp [ht] at h
      | some t =>
        cases hp : Spec.project doc fs with
        | none => simp [ht, hp] at h
        | some r =>
          simp only [ht, hp, Option.some.injEq] at h
          subst h
          exact (ih r hp).cons_cons f

theorem specWf_stepS {sp : Spec.Live} (h : SpecWf sp) (o : Op) : SpecWf (stepS sp o) := by
  have hadd : ∀ d doc, SpecWf (Spec.addDoc sp d doc) := by
    intro d doc
    simp only [Spec.addDoc]
    cases hp : Spec.project doc sp.fields with
    | none => exact h
    | some pr =>
      refine ⟨h.fields, ?_, ?_⟩
      · simp only [Spec.removeDoc, List.map_cons, List.nodup_cons, List.mem_map, List.mem_filter]
        refine ⟨?_, ?_⟩
        · rintro ⟨p, ⟨_, hne⟩, hpd⟩
          simp [hpd] at hne
        · exact List.Nodup.sublist (List.Sublist.map _ List.filter_sublist) h.docIds
      · intro p hp'
        simp only [Spec.removeDoc, List.mem_cons, List.mem_filter] at hp'
        rcases hp' with rfl | hp'
        · exact List.Nodup.sublist (project_sublist doc sp.fields pr hp) h.fields
        · exact h.docFields p hp'.1
  cases o with
  | addField f =>
    refine ⟨?_, h.docIds, h.docFields⟩
    simp only [stepS, Spec.addField]
    split
    · exact h.fields
    · next hn => exact List.nodup_cons.2 ⟨hn, h.fields⟩
  | removeField f =>
    refine ⟨List.Pairwise.filter _ h.fields, ?_, ?_⟩
    · simp only [stepS, Spec.removeField, List.map_map]
      exact h.docIds
    · intro p hp
      simp only [stepS, Spec.removeField, List.mem_map] at hp
      obtain ⟨p0, hp0, rfl⟩ := hp
      exact List.Nodup.sublist (List.Sublist.map _ List.filter_sublist) (h.docFields p0 hp0)
  | removeDoc d =>
    refine ⟨h.fields, ?_, ?_⟩
    · exact List.Nodup.sublist (List.Sublist.map _ List.filter_sublist) h.docIds
    · intro p hp
      simp only [stepS, Spec.removeDoc, List.mem_filter] at hp
      exact h.docFields p hp.1
  | addDoc d doc => exact hadd d doc
  | addDocBulk d doc => exact hadd d doc

theorem specWf_run (ops : List Op) : ∀ sp, SpecWf sp → SpecWf (runS sp ops) := by
  induction ops with
  | nil => intro sp h; exact h
  | cons o os ih => intro sp h; exact ih _ (specWf_stepS h o)

/-- In a well-formed SPEC state the scan holds no (field, term, document) fact twice. -/
theorem facts_nodup {sp : Spec.Live} (h : SpecWf sp) : (Spec.facts sp).Nodup := by
  unfold Spec.facts List.Nodup
  rw [List.pairwise_flatMap]
  constructor
  · intro p hp
    rw [List.pairwise_map]
    have := h.docFields p hp
    unfold List.Nodup at this
    rw [List.pairwise_map] at this
    refine this.imp ?_
    intro a b hab heq
    exact hab (by injection heq)
  · have := h.docIds
    unfold List.Nodup at this
    rw [List.pairwise_map] at this
    refine this.imp ?_
    intro a b hab x hx y hy heq
    simp only [List.mem_map] at hx hy
    obtain ⟨_, _, rfl⟩ := hx
    obtain ⟨_, _, rfl⟩ := hy
    exact hab (by injection heq)

/-- Every SPEC state reachable from the empty one holds no fact twice: the hypothesis of
    `fieldTermCounts_scan` is met by every run. -/
theorem facts_nodup_reachable (ops : List Op) : (Spec.facts (runS {} ops)).Nodup :=
  facts_nodup (specWf_run ops {} specWf_init)

/-! ### FieldTerms / FieldTermCounts = scan -/

/-- The listed terms of a field are exactly the terms some live document holds under it: no dead
    term, no missing term.  (`Spec.fieldTerms` lists with repetitions, the index lists each
    term key once, so they are compared by membership.) -/
theorem fieldTerms_scan {st sp} (h : Inv st sp) (ht : TermInv st.terms st.entries) (f : String)
    (t : Term) : t ∈ fieldTerms st f ↔ t ∈ Spec.fieldTerms sp f := by
  simp only [fieldTerms, mem_fieldTermKeys_iff ht, countEntries_pos_iff, Spec.fieldTerms,
    List.mem_map, List.mem_filter, decide_eq_true_eq, h.entries]
  constructor
  · rintro ⟨e, he, hf, het⟩; exact ⟨e, ⟨he, hf⟩, het⟩
  · rintro ⟨e, ⟨he, hf⟩, het⟩; exact ⟨e, he, hf, het⟩

/-- The number of entries below a term key is the count of the scan.  `Inv` relates the entry
    family and the facts by membership only, so both sides must be duplicate-free: the entry
    family is by `TermInv`, the facts by the explicit hypothesis `hs` (see `facts_nodup_reachable`). -/
theorem countEntries_eq_termCount {st sp} (h : Inv st sp) (ht : TermInv st.terms st.entries)
    (hs : (Spec.facts sp).Nodup) (f : String) (t : Term) :
    countEntries st.entries (f, t) = Spec.termCount sp f t := by
  have hperm : st.entries.Perm (Spec.facts sp) :=
    (List.perm_ext_iff_of_nodup ht.esNodup hs).2 h.entries
  exact (hperm.filter _).length_eq

/-- `FieldTermCounts` against the scan.  Hypothesis added to `Inv`/`TermInv`: the facts of the
    SPEC state are duplicate-free (`hs`), which holds on every reachable SPEC state
    (`facts_nodup_reachable`); without it the membership-only `Inv` does not determine counts.
    (1) every reported pair carries the count of the scan; (2) every term a live document holds
    under the field is reported; (3) the reported terms are the listing of `fieldTerms`, in its
    order; (4)(5) the state returned (recounts written back) still satisfies `Inv` against the
    same live documents and `TermInv`. -/
theorem fieldTermCounts_scan {st sp} (h : Inv st sp) (ht : TermInv st.terms st.entries)
    (hs : (Spec.facts sp).Nodup) (f : String) :
    (∀ t c, (t, c) ∈ (fieldTermCounts st f).2 → c = Spec.termCount sp f t) ∧
    (∀ t ∈ Spec.fieldTerms sp f, ∃ c, (t, c) ∈ (fieldTermCounts st f).2) ∧
    (fieldTermCounts st f).2.map Prod.fst = fieldTerms st f ∧
    Inv (fieldTermCounts st f).1 sp ∧
    TermInv (fieldTermCounts st f).1.terms (fieldTermCounts st f).1.entries := by
  obtain ⟨he, hd, hf, hti, hkeys, hcnt⟩ := fieldTermCounts_spec ht f
  refine ⟨?_, ?_, hkeys, ?_, hti⟩
  · intro t c hm
    rw [← countEntries_eq_termCount h ht hs f t]
    exact hcnt (t, c) hm
  · intro t htm
    have : t ∈ (fieldTermCounts st f).2.map Prod.fst := by
      rw [hkeys]; exact (fieldTerms_scan h ht f t).2 htm
    obtain ⟨⟨t', c⟩, hm, rfl⟩ := List.mem_map.1 this
    exact ⟨c, hm⟩
  · constructor
    · rw [hf]; exact h.fields
    · rw [he]; exact h.entries
    · rw [hd]; exact h.docKeys
    · rw [hd, he]; exact h.docList
    · rw [hd]; exact h.docOwn

/-! ### refinement without the "removeLoop might fail" clause -/

/-- What is left of `Judged`: bulk insertions hit document ids that are not live (open finding
    C09-bulk-replace, `bulk_replace_counterexample`).  A statement about the SPEC run only. -/
def BulkJudged : Spec.Live → List Op → Prop
  | _, [] => True
  | sp, o :: os => BulkFresh sp o ∧ BulkJudged (stepS sp o) os

/-- With both invariants a failed transaction is an insertion the SPEC rejects too: the clause
    `stepS sp o = sp` of `Judged` is a theorem, not an assumption. -/
theorem stepM_none_spec {st sp} (h : Inv st sp) (ht : TermInv st.terms st.entries) (o : Op)
    (hs : stepM st o = none) : stepS sp o = sp := by
  cases o with
  | addField f => simp [stepM] at hs
  | removeField f => simp [stepM] at hs
  | removeDoc d => exact absurd hs (removeDoc_ne_none ht d)
  | addDoc d doc =>
    have := (addDoc_none_iff ht d doc).1 hs
    rw [h.fields] at this
    simp [stepS, Spec.addDoc, this]
  | addDocBulk d doc =>
    have := (addDocTx_none_iff st d doc).1 hs
    rw [h.fields] at this
    simp [stepS, Spec.addDoc, this]

/-- `Judged` follows from its bulk-insertion part alone. -/
theorem judged_of_bulkJudged (ops : List Op) :
    ∀ st sp, Inv st sp → TermInv st.terms st.entries → BulkJudged sp ops → Judged st sp ops := by
  induction ops with
  | nil => intro st sp _ _ _; trivial
  | cons o os ih =>
    intro st sp h ht hj
    obtain ⟨hb, hrest⟩ := hj
    refine ⟨hb, ?_⟩
    have ht' := termInv_step ht o
    cases hs : stepM st o with
    | some st' =>
      simp only [hs, Option.getD_some] at ht'
      exact ih st' (stepS sp o) (step_refines_partial h o hb hs) ht' hrest
    | none =>
      have hsp := stepM_none_spec h ht o hs
      rw [hsp] at hrest
      exact ⟨hsp, ih st sp h ht hrest⟩

/-- Every operation keeps the abstraction invariant (a failed one trivially: the SPEC rejects
    it too); bulk insertion only on a document id that is not live. -/
theorem step_refines {st sp} (h : Inv st sp) (ht : TermInv st.terms st.entries) (o : Op)
    (hb : BulkFresh sp o) : Inv ((stepM st o).getD st) (stepS sp o) := by
  cases hs : stepM st o with
  | some st' => exact step_refines_partial h o hb hs
  | none => rw [stepM_none_spec h ht o hs]; exact h

/-- For every operation sequence whose bulk insertions hit fresh ids, the key-value state
    abstracts to the live documents of the SPEC and has the term-key invariant.  Against
    `refinement_partial`: nothing is assumed about transactions committing.  Still excluded, and
    necessarily so: bulk insertion onto a live id, where the code leaves the old entries
    (`bulk_replace_counterexample`). -/
theorem refinement_from (ops : List Op) (st : St) (sp : Spec.Live) (h : Inv st sp)
    (ht : TermInv st.terms st.entries) (hj : BulkJudged sp ops) :
    Inv (runM st ops) (runS sp ops) ∧ TermInv (runM st ops).terms (runM st ops).entries :=
  ⟨refinement_partial ops st sp h (judged_of_bulkJudged ops st sp h ht hj), termInv_run ops st ht⟩

theorem refinement (ops : List Op) (hj : BulkJudged {} ops) :
    Inv (runM {} ops) (runS {} ops) ∧ TermInv (runM {} ops).terms (runM {} ops).entries :=
  refinement_from ops {} {} inv_init termInv_init hj

/-- A sequence without bulk insertions is judged outright. -/
theorem bulkJudged_of_no_bulk (ops : List Op) (hno : ∀ o ∈ ops, ∀ d doc, o ≠ .addDocBulk d doc) :
    ∀ sp, BulkJudged sp ops := by
  induction ops with
  | nil => intro sp; trivial
  | cons o os ih =>
    intro sp
    refine ⟨?_, ih (fun o' ho' => hno o' (List.mem_cons_of_mem _ ho')) _⟩
    cases o with
    | addDocBulk d doc => exact absurd rfl (hno _ (List.mem_cons_self ..) d doc)
    | _ => trivial

/-- End to end: after any judged operation sequence from the empty index, `FieldTerms` and
    `FieldTermCounts` answer what the scan of the live documents answers. -/
theorem fieldTermCounts_reachable (ops : List Op) (hj : BulkJudged {} ops) (f : String) :
    (∀ t, t ∈ fieldTerms (runM {} ops) f ↔ t ∈ Spec.fieldTerms (runS {} ops) f) ∧
    (∀ t c, (t, c) ∈ (fieldTermCounts (runM {} ops) f).2 → c = Spec.termCount (runS {} ops) f t) ∧
    (∀ t ∈ Spec.fieldTerms (runS {} ops) f, ∃ c, (t, c) ∈ (fieldTermCounts (runM {} ops) f).2) := by
  obtain ⟨h, ht⟩ := refinement ops hj
  have := fieldTermCounts_scan h ht (facts_nodup_reachable ops) f
  exact ⟨fieldTerms_scan h ht f, this.1, this.2.1⟩

/-! ### non-vacuity

  (String operations such as `splitOn` do not evaluate in the kernel, so a run through `addDoc`
  cannot be computed by `decide`; the first example is therefore an explicit state, the second a
  run with an arbitrary document.) -/

namespace NonVacuity

/-- Two live documents sharing the term a:"x" (stored count invalidated: 0), one of them also
    holding b:5 (stored count exact: 1). -/
def exSt : St :=
  { fields := ["b", "a"]
    terms := [(("a", .str "x"), 0), (("b", .num 5), 1)]
    entries := [⟨"a", .str "x", "d1"⟩, ⟨"a", .str "x", "d2"⟩, ⟨"b", .num 5, "d2"⟩]
    docs := [("d2", [⟨"b", .num 5, "d2"⟩, ⟨"a", .str "x", "d2"⟩]), ("d1", [⟨"a", .str "x", "d1"⟩])] }

def exSp : Spec.Live :=
  { fields := ["b", "a"]
    docs := [("d2", [("b", .num 5), ("a", .str "x")]), ("d1", [("a", .str "x")])] }

theorem exInv : Inv exSt exSp := by
  constructor
  · rfl
  · intro e
    simp [exSt, exSp, Spec.facts]
    grind
  · intro d
    simp only [exSt, exSp, lookup_cons_ite]
    by_cases h2 : d = "d2"
    · subst h2; simp
    · by_cases h1 : d = "d1"
      · subst h1; simp
      · simp [h1, h2]
        exact ⟨fun h => h2 h.symm, fun h => h1 h.symm⟩
  · intro d l hl e he hd
    simp only [exSt, lookup_cons_ite] at hl he
    simp only [List.mem_cons, List.not_mem_nil, or_false] at he
    rcases he with rfl | rfl | rfl <;> subst hd <;> simp at hl <;> subst hl <;> simp
  · intro d l hl e he
    simp only [exSt, lookup_cons_ite, List.lookup_nil] at hl
    split at hl
    · injection hl with hl; subst hl; simp at he; rcases he with rfl | rfl <;> simp_all
    · split at hl
      · injection hl with hl; subst hl; simp at he; simp_all
      · cases hl

theorem exTermInv : TermInv exSt.terms exSt.entries := by
  constructor
  · simp [exSt]
  · intro e he
    simp [exSt] at he
    rcases he with rfl | rfl | rfl <;> simp [exSt, getTerm, lookup_cons_ite]
  · intro k c hc
    simp only [exSt, getTerm, lookup_cons_ite, List.lookup_nil] at hc
    split at hc
    · injection hc with hc; exact Or.inl hc.symm
    · split at hc
      · next hk => injection hc with hc; subst hc; subst hk; right; simp [exSt, countEntries]
      · cases hc
  · intro k c hc
    simp only [exSt, getTerm, lookup_cons_ite, List.lookup_nil] at hc
    split at hc
    · next hk => subst hk; simp [exSt, countEntries]
    · split at hc
      · next hk => subst hk; simp [exSt, countEntries]
      · cases hc

theorem exFactsNodup : (Spec.facts exSp).Nodup := by
  simp [exSp, Spec.facts]

/-- The hypotheses of `fieldTerms_scan` / `fieldTermCounts_scan` hold on `exSt`/`exSp`, and the
    theorems then decide a concrete answer: the term a:"x" is listed, and `fieldTermCounts`
    reports it with count 2 although the stored count is the invalidated 0. -/
example : Term.str "x" ∈ fieldTerms exSt "a" ∧ (Term.str "x", 2) ∈ (fieldTermCounts exSt "a").2 := by
  have hlive : Term.str "x" ∈ Spec.fieldTerms exSp "a" := by simp [Spec.fieldTerms, Spec.facts, exSp]
  have hcount : Spec.termCount exSp "a" (.str "x") = 2 := by simp [Spec.termCount, Spec.facts, exSp]
  obtain ⟨h1, h2, _⟩ := fieldTermCounts_scan exInv exTermInv exFactsNodup "a"
  refine ⟨(fieldTerms_scan exInv exTermInv "a" _).2 hlive, ?_⟩
  obtain ⟨c, hc⟩ := h2 _ hlive
  have := h1 _ c hc
  rw [hcount] at this
  rw [← this]; exact hc

/-- …and RemoveDoc / AddDoc on it behave as the theorems say (`TermInv` is all they need). -/
example (d : String) : removeDoc exSt d ≠ none := removeDoc_ne_none exTermInv d

/-- A run with every kind of operation (a replacement and a bulk insertion included), for
    arbitrary documents: `termInv_reachable` applies with no side condition … -/
example (doc doc' doc'' : JV) :
    let ops := [Op.addField "a", .addDoc "d1" doc, .addDocBulk "d1" doc', .addField "b",
      .addDoc "d1" doc'', .removeField "a", .removeDoc "d1"]
    TermInv (runM {} ops).terms (runM {} ops).entries ∧ removeDoc (runM {} ops) "d1" ≠ none :=
  ⟨termInv_reachable _, removeDoc_commits rfl _⟩

/-- … and `refinement` / `fieldTermCounts_reachable` apply to a run whose bulk insertion hits a
    fresh id (`BulkJudged` is decided by unfolding, whatever the documents are). -/
example (doc doc' doc'' : JV) :
    let ops := [Op.addField "a", .addDocBulk "d1" doc, .addField "b", .addDoc "d1" doc',
      .addDoc "d2" doc'', .removeField "a", .removeDoc "d1"]
    Inv (runM {} ops) (runS {} ops) ∧
      ∀ t c, (t, c) ∈ (fieldTermCounts (runM {} ops) "b").2 → c = Spec.termCount (runS {} ops) "b" t := by
  intro ops
  have hj : BulkJudged {} ops := by simp [ops, BulkJudged, BulkFresh, stepS, Spec.addField]
  exact ⟨(refinement ops hj).1, (fieldTermCounts_reachable ops hj "b").2.1⟩

end NonVacuity

end Grip.Props.C09
