/-
  Props.C04Full — the weak invariant at every cut of every call, for every reachable state.

  `crash_weak_inv_partial` (Props/C04) took three things on trust: the string fact `SplitFact`, the
  weak invariant of the *completed* call (`hfull`) and `ValidListed`.  Here none of them is assumed:
    * `split_fact`        : the string fact is a theorem (`fieldGraph_labelField`),
    * `weak_inv_step`     : `WeakInv` and `ValidListed` are preserved by every completed call,
    * `crash_weak_inv`    : … and hold at every cut of every call,
    * `crash_weak_inv_reachable` : … hence after ANY history of calls, clean restarts and calls
                            killed at ANY cut, started on an empty directory.
  The only hypothesis besides the two invariants themselves is `FieldsSync s` (the in-memory field
  registry mirrors the persisted field keys).  It is an invariant too (`fields_in_sync`,
  `crash_fields_in_sync`), it is needed (`crash_weak_inv_needs_sync`), and the reachability theorem
  carries it through the induction, so it has no hypothesis at all.

  History of the statement.  For the write list AddGraph had before its repair (three sets, no
  sweep) the reachability theorem was false: `residue_relisted_old` keeps the witness.
-/
import GripProofs.Props.C04
import GripProofs.Lemmas.C04Inv

namespace Grip.Props.C04
open Grip Grip.C03 Grip.C04 Grip.C04.Spec Grip.Props.C04.Lemmas

/-- The first dot-component of a label field of a validly named graph is the graph name. -/
theorem split_fact : SplitFact := splitFact

/-- `weakInvB`, the check the driver prints on every crash line, is sound for `WeakInv`. -/
theorem weakInvB_sound (m : KV) (h : weakInvB m = true) : WeakInv m := weak_of_weakInvB m h

/-- **The weak invariant is preserved by every completed call** (and so is the validity of listed names). -/
theorem weak_inv_step (s : KState) (op : Op) (hs : FieldsSync s) (hw : WeakInv s.kv) (hv : ValidListed s.kv) :
    WeakInv (step s op).1.kv ∧ ValidListed (step s op).1.kv := step_inv s op hs hw hv

/-- … and by a clean restart (the persisted map is kept). -/
theorem weak_inv_reopen (s : KState) (hw : WeakInv s.kv) (hv : ValidListed s.kv) :
    WeakInv (reopen s).kv ∧ ValidListed (reopen s).kv := reopen_inv s hw hv

/-- **Weak invariant at every cut of every call** — no `hsplit`, no `hfull`.  `hs` is an invariant
    (`fields_in_sync`, `crash_fields_in_sync`), not a restriction; without it the statement is false
    (`crash_weak_inv_needs_sync`). -/
theorem crash_weak_inv (s : KState) (op : Op) (k : Nat) (hs : FieldsSync s) (hw : WeakInv s.kv)
    (hv : ValidListed s.kv) : WeakInv (crashAt s op k).kv ∧ ValidListed (crashAt s op k).kv := by
  rw [crash_kv]; exact cut_inv s op k hs hw hv

/-! ### histories with crashes -/

/-- A completed call, a clean restart, or a call killed after `k` top-level writes (and the restart). -/
inductive Ev' where
  | op (o : Op)
  | reopen
  | crash (o : Op) (k : Nat)
  deriving Inhabited

def evStep' (s : KState) : Ev' → KState
  | .op o => (step s o).1
  | .reopen => reopen s
  | .crash o k => crashAt s o k

def runCrashy (s : KState) (h : List Ev') : KState := h.foldl evStep' s

theorem runCrashy_append (a b : List Ev') (s : KState) : runCrashy s (a ++ b) = runCrashy (runCrashy s a) b := by
  unfold runCrashy; rw [List.foldl_append]

/-- What the induction carries. -/
structure CrashInv (s : KState) : Prop where
  sync : FieldsSync s
  weak : WeakInv s.kv
  valid : ValidListed s.kv

theorem crashInv_empty : CrashInv ({} : KState) := by
  refine ⟨fun _ => rfl, ⟨?_, ?_, ?_, ?_, ?_, ?_⟩, ?_⟩ <;> (try unfold ValidListed) <;> intros <;>
    simp_all [Listed, KV.has]

theorem crashInv_ev (s : KState) (e : Ev') (h : CrashInv s) : CrashInv (evStep' s e) := by
  cases e with
  | op o =>
    have := weak_inv_step s o h.sync h.weak h.valid
    exact ⟨sync_step s o h.sync, this.1, this.2⟩
  | reopen =>
    have := weak_inv_reopen s h.weak h.valid
    exact ⟨sync_reopen s, this.1, this.2⟩
  | crash o k =>
    have := crash_weak_inv s o k h.sync h.weak h.valid
    exact ⟨crash_fields_in_sync s o k, this.1, this.2⟩

theorem crashInv_run (h : List Ev') (s : KState) (hs : CrashInv s) : CrashInv (runCrashy s h) := by
  induction h generalizing s with
  | nil => exact hs
  | cons e h ih => exact ih _ (crashInv_ev s e hs)

/-- **The weak invariant holds after any history** of completed calls, clean restarts and calls killed at
    any cut, of any length, started on an empty directory. -/
theorem crash_weak_inv_reachable (h : List Ev') : WeakInv (runCrashy {} h).kv :=
  (crashInv_run h {} crashInv_empty).weak

/-- … with its companions: only validly named graphs are listed, the registry is in sync. -/
theorem crash_inv_reachable (h : List Ev') : CrashInv (runCrashy {} h) := crashInv_run h {} crashInv_empty

/-- The same from any state that satisfies the three invariants. -/
theorem crash_weak_inv_reachable_from (s : KState) (hs : FieldsSync s) (hw : WeakInv s.kv) (hv : ValidListed s.kv)
    (h : List Ev') : WeakInv (runCrashy s h).kv := (crashInv_run h s ⟨hs, hw, hv⟩).weak

/-- **Acknowledged requests survive**: in any such history, after a call killed at cut `k` every key reads
    as before the call (i.e. as all earlier calls of the history left it) or as after the completed call —
    or it is a key owned by a name that was not listed when AddGraph of that name was killed (see
    `acked_present`; such a key belongs to no acknowledged request). -/
theorem acked_survive (h : List Ev') (op : Op) (k : Nat) (key : SKey) :
    (runCrashy {} (h ++ [.crash op k])).kv.get key = (runCrashy {} h).kv.get key ∨
    (runCrashy {} (h ++ [.crash op k])).kv.get key = (runCrashy {} (h ++ [.op op])).kv.get key ∨
    (∃ g, op = .addGraph g ∧ hasGraph (runCrashy {} h) g = false ∧ Doomed g key = true ∧
      (runCrashy {} (h ++ [.crash op k])).kv.get key = none) := by
  rw [runCrashy_append, runCrashy_append]
  exact acked_present (runCrashy {} h) op k key

/-- The strict form: before or after, for every call but AddGraph of a valid unlisted name. -/
theorem acked_survive_strict (h : List Ev') (op : Op) (k : Nat)
    (hop : ∀ g, op = .addGraph g → ¬ validName g = true ∨ hasGraph (runCrashy {} h) g = true) :
    Present (runCrashy {} h).kv (runCrashy {} (h ++ [.crash op k])).kv (runCrashy {} (h ++ [.op op])).kv := by
  rw [runCrashy_append, runCrashy_append]
  exact acked_present_strict (runCrashy {} h) op k hop

/-! ### tests (non-vacuity, by computation) and the witnesses of what had to be repaired / assumed -/

namespace Test

def va : VertexIn := ⟨"a", "P", .obj []⟩
def vb : VertexIn := ⟨"b", "P", .obj []⟩
def e1 : EdgeIn := ⟨"e1", "knows", "a", "b", .obj []⟩
/-- the same edge id again, with other endpoints and another label (finding C03-edge-readd) -/
def e1' : EdgeIn := ⟨"e1", "likes", "b", "a", .obj []⟩

/-- a graph, two vertices, an edge -/
def base : List Ev' := [.op (.addGraph "g"), .op (.addV "g" [va, vb]), .op (.addE "g" [e1])]

/-- … a DeleteGraph killed at an interior cut (graph key, edge records and vertices gone; adjacency keys,
    index entries and field keys still there), then the graph is created again and written to. -/
def hist : List Ev' :=
  base ++ [.crash (.delGraph "g") 3, .op (.addGraph "g"), .op (.addV "g" [va, vb]), .op (.addE "g" [e1, e1']),
    .reopen, .crash (.delE "g" "e1") 1]

/-- TEST: the concrete history satisfies the statement of `crash_weak_inv_reachable`, by evaluation of the
    executable check; the final state is not trivial (the graph is listed, an edge record exists). -/
example : weakInvB (runCrashy {} hist).kv = true ∧ (runCrashy {} hist).kv.has (.graph "g") = true ∧
    (runCrashy {} hist).kv.has (.edge "g" "e1" "a" "b" "knows") = true := by
  with_unfolding_all decide

/-- TEST: the theorem instantiated at the same history (agrees with the computation above). -/
example : WeakInv (runCrashy {} hist).kv := crash_weak_inv_reachable hist

/-- TEST: every cut of the DeleteGraph (11 writes) followed by every cut of the AddGraph that re-creates
    the graph (at most 13 writes), by evaluation. -/
example : ((List.range 13).all fun j => (List.range 15).all fun k =>
    weakInvB (runCrashy {} (base ++ [.crash (.delGraph "g") j, .crash (.addGraph "g") k])).kv) = true := by
  with_unfolding_all decide

/-- The state before the defect shows: DeleteGraph killed after its second write. -/
def residue : KState := runCrashy {} (base ++ [.crash (.delGraph "g") 2])

/-- **Witness of the repaired defect** (finding "AddGraph re-lists a name over the leftovers of an
    interrupted DeleteGraph").  `addGraphCore` is AddGraph as it was before the repair: Touch, two AddField,
    Set(graph key), no sweep.  The crash state satisfies the weak invariant (the graph is not listed);
    the old AddGraph of the same name breaks it: the by-source key `s|g|a|b|e1|knows` of a listed graph
    refers to no edge record. -/
theorem residue_relisted_old :
    weakInvB residue.kv = true ∧ weakInvB (addGraphCore residue "g").kv = false ∧
    ¬ WeakInv (addGraphCore residue "g").kv := by
  refine ⟨by with_unfolding_all decide, by with_unfolding_all decide, fun h => ?_⟩
  have := h.src_edge "g" "a" "b" "e1" "knows" (by unfold Listed; with_unfolding_all decide) (by with_unfolding_all decide)
  revert this
  with_unfolding_all decide

/-- The repaired AddGraph on the same state: consistent (and the theorem says so for every state). -/
example : weakInvB (step residue (.addGraph "g")).1.kv = true := by with_unfolding_all decide

/-- A store whose registry is not in sync: graph and field keys persisted, `Fields` empty (what
    `reopenUnrepaired` produced, finding C04-reopen-fields). -/
def unsynced : KState :=
  { kv := [(.graph "g", .unit), (.field "g.e.label", .unit), (.field "g.v.label", .unit)], fields := [] }

/-- **`FieldsSync` is needed** in `crash_weak_inv` / `weak_inv_step`: with an out-of-sync registry AddVertex
    writes a vertex record without its label-index entry. -/
theorem crash_weak_inv_needs_sync :
    WeakInv unsynced.kv ∧ ValidListed unsynced.kv ∧ ¬ FieldsSync unsynced ∧
    ¬ WeakInv (crashAt unsynced (.addV "g" [va]) 1).kv ∧ ¬ WeakInv (step unsynced (.addV "g" [va])).1.kv := by
  refine ⟨weak_of_weakInvB _ (by with_unfolding_all decide), ?_, ?_, ?_, ?_⟩
  · intro g hg
    have : "g" = g := by simpa [unsynced, KV.has] using hg
    subst this
    with_unfolding_all decide
  · intro h
    have := h "g.v.label"
    revert this
    with_unfolding_all decide
  · intro h
    have := h.vert_idx "g" "a" "P" (.obj []) (by unfold Listed; with_unfolding_all decide) (by with_unfolding_all decide)
    revert this
    with_unfolding_all decide
  · intro h
    have := h.vert_idx "g" "a" "P" (.obj []) (by unfold Listed; with_unfolding_all decide) (by with_unfolding_all decide)
    revert this
    with_unfolding_all decide

/-- **Witness that the strict `Present` form fails for AddGraph of an unlisted name** (why `acked_present`
    has its third disjunct): DeleteGraph killed after its first write leaves the field keys; the AddGraph
    that re-creates the graph, killed after 7 writes, has swept `f|g.e.label`, which was there before and
    is there again after the completed call. -/
theorem present_strict_fails :
    let s := runCrashy {} (base ++ [.crash (.delGraph "g") 1])
    s.kv.get (.field "g.e.label") = some .unit ∧
    (crashAt s (.addGraph "g") 7).kv.get (.field "g.e.label") = none ∧
    (step s (.addGraph "g")).1.kv.get (.field "g.e.label") = some .unit := by
  with_unfolding_all decide

end Test

end Grip.Props.C04
