/-
  C18 — util.StreamBatch hands vertex batches and edge batches to TWO goroutines (`vertexAdd` on one,
  `edgeAdd` on the other): the calls of each kind arrive in hand-over order, but the two sequences
  interleave as the scheduler pleases.  The back ends that use StreamBatch (mongo, psql, elastic)
  cannot be run here, so until now "vertex batches and edge batches commute" was only argued.

  Proved here on the abstract graph store (C03's SPEC `AG`, the meaning every back end implements):
  a vertex batch add and an edge batch add on one graph commute — as whole states, timestamp included,
  and with the same result each —, hence EVERY interleaving of the vertex calls and the edge calls of a
  stream reaches the state reached by "all vertex calls, then all edge calls", whatever the batch size.
  No bound on the number of batches, on their sizes or on the schedule.
-/
import Grip.Spec.C03
import GripProofs.Props.C18

set_option linter.unusedSimpArgs false

namespace Grip.Props.C18
open Grip.C03 Grip.C03.Spec Grip.C18

/-! ### a batch of vertices touches `verts` only, a batch of edges `edges` only -/

private def putVs (g : String) : List ((String × String) × VRec) → List VertexIn →
    List ((String × String) × VRec) × Bool × Bool
  | vm, [] => (vm, false, false)
  | vm, x :: xs =>
    if validVertex x then
      let r := putVs g (((g, x.gid), ⟨x.label, x.data⟩) :: vm.filter (fun p => ¬ p.1 = (g, x.gid))) xs
      (r.1, true, r.2.2)
    else
      let r := putVs g vm xs
      (r.1, r.2.1, true)

private def putEs (g : String) : List ((String × String) × ERec) → List EdgeIn →
    List ((String × String) × ERec) × Bool × Bool
  | em, [] => (em, false, false)
  | em, x :: xs =>
    if validEdge x then
      let r := putEs g (((g, x.gid), ⟨x.frm, x.to, x.label, x.data⟩) :: em.filter (fun p => ¬ p.1 = (g, x.gid))) xs
      (r.1, true, r.2.2)
    else
      let r := putEs g em xs
      (r.1, r.2.1, true)

private theorem putAll_vs (g : String) (vs : List VertexIn) (a : AG) :
    putAll g a (vs.map .v) =
      ({ a with verts := (putVs g a.verts vs).1 }, (putVs g a.verts vs).2.1, (putVs g a.verts vs).2.2) := by
  induction vs generalizing a with
  | nil => simp [putAll, putVs]
  | cons x xs ih =>
    by_cases hx : validVertex x = true
    · simp [putAll, putElem, putVs, hx, ih, AG.putV]
    · have hx' : validVertex x = false := by simpa using hx
      simp [putAll, putElem, putVs, hx', ih]

private theorem putAll_es (g : String) (es : List EdgeIn) (a : AG) :
    putAll g a (es.map .e) =
      ({ a with edges := (putEs g a.edges es).1 }, (putEs g a.edges es).2.1, (putEs g a.edges es).2.2) := by
  induction es generalizing a with
  | nil => simp [putAll, putEs]
  | cons x xs ih =>
    by_cases hx : validEdge x = true
    · simp [putAll, putElem, putEs, hx, ih, AG.putE]
    · have hx' : validEdge x = false := by simpa using hx
      simp [putAll, putElem, putEs, hx', ih]

/-- **One vertex call and one edge call on the same graph commute** — the whole abstract state
    (vertices, edges, graph list, timestamps, clock) and both results. -/
theorem vertexAdd_edgeAdd_commute (a : AG) (g : String) (vs : List VertexIn) (es : List EdgeIn) :
    (specStep (specStep a (.addV g vs)).1 (.addE g es)).1 = (specStep (specStep a (.addE g es)).1 (.addV g vs)).1 ∧
    (specStep (specStep a (.addV g vs)).1 (.addE g es)).2 = (specStep a (.addE g es)).2 ∧
    (specStep (specStep a (.addE g es)).1 (.addV g vs)).2 = (specStep a (.addV g vs)).2 := by
  by_cases hg : a.graphs.contains g = true
  · have hm : g ∈ a.graphs := by simpa using hg
    simp only [specStep, Spec.addElems, putAll_vs, putAll_es, hg, Bool.not_true, Bool.false_eq_true, if_false]
    cases hv : (putVs g a.verts vs).2.1 <;> cases he : (putEs g a.edges es).2.1 <;>
      simp [AG.touch, hg, hm, putAll_vs, putAll_es, hv, he, List.filter_filter]
  · have hm : ¬ g ∈ a.graphs := by simpa using hg
    simp [specStep, Spec.addElems, hm]

/-! ### every schedule of the two goroutines -/

/-- a call made by one of StreamBatch's two adder goroutines -/
inductive Call where
  | vadd (b : List VertexIn)
  | eadd (b : List EdgeIn)

def Call.op (g : String) : Call → Op
  | .vadd b => .addV g b
  | .eadd b => .addE g b

/-- `sched` is an interleaving of the vertex calls `vs` and the edge calls `es` (each kept in order). -/
inductive Schedule : List (List VertexIn) → List (List EdgeIn) → List Call → Prop
  | done : Schedule [] [] []
  | vertex {vs es sched} (b : List VertexIn) : Schedule vs es sched → Schedule (b :: vs) es (.vadd b :: sched)
  | edge {vs es sched} (b : List EdgeIn) : Schedule vs es sched → Schedule vs (b :: es) (.eadd b :: sched)

private theorem eadd_past_vadds (g : String) (b : List EdgeIn) (vs : List (List VertexIn)) (a : AG) :
    specRun (specStep a (.addE g b)).1 (vs.map (.addV g)) =
      (specStep (specRun a (vs.map (.addV g))) (.addE g b)).1 := by
  induction vs generalizing a with
  | nil => simp [specRun]
  | cons v vs ih =>
    simp only [List.map_cons, specRun, List.foldl_cons]
    have hc := (vertexAdd_edgeAdd_commute a g v b).1
    have := ih (specStep a (.addV g v)).1
    simp only [specRun] at this
    rw [← hc, this]

/-- **Every schedule of StreamBatch's two goroutines loads the same graph**: whatever the
    interleaving of the `vertexAdd` calls and the `edgeAdd` calls, the abstract state reached is the
    one reached by all vertex calls followed by all edge calls. -/
theorem any_schedule_eq_vertices_then_edges (g : String) (vs : List (List VertexIn)) (es : List (List EdgeIn))
    (sched : List Call) (h : Schedule vs es sched) (a : AG) :
    specRun a (sched.map (Call.op g)) = specRun a (vs.map (.addV g) ++ es.map (.addE g)) := by
  induction h generalizing a with
  | done => rfl
  | vertex b _ ih =>
    simp only [List.map_cons, Call.op, List.cons_append, specRun, List.foldl_cons]
    have := ih (specStep a (.addV g b)).1
    simpa [specRun] using this
  | @edge vs es sched b _ ih =>
    simp only [List.map_cons, Call.op, specRun, List.foldl_cons]
    have h1 := ih (specStep a (.addE g b)).1
    simp only [specRun] at h1
    rw [h1, List.foldl_append, List.foldl_append, List.foldl_cons]
    have h2 := eadd_past_vadds g b vs a
    simp only [specRun] at h2
    rw [h2]

/-- hence any two schedules agree -/
theorem schedules_agree (g : String) (vs : List (List VertexIn)) (es : List (List EdgeIn))
    (s1 s2 : List Call) (h1 : Schedule vs es s1) (h2 : Schedule vs es s2) (a : AG) :
    specRun a (s1.map (Call.op g)) = specRun a (s2.map (Call.op g)) := by
  rw [any_schedule_eq_vertices_then_edges g vs es s1 h1, any_schedule_eq_vertices_then_edges g vs es s2 h2]

/-- … in particular for the calls util.StreamBatch makes for a channel content `xs` with batch size
    `k`: every interleaving of `vertexCalls` and `edgeCalls`. -/
theorem streamBatch_any_schedule (k : Nat) (graph : String) (xs : List GElem) (sched : List Call)
    (h : Schedule (vertexCalls k graph xs) (edgeCalls k graph xs) sched) (a : AG) :
    specRun a (sched.map (Call.op graph)) =
      specRun a ((vertexCalls k graph xs).map (.addV graph) ++ (edgeCalls k graph xs).map (.addE graph)) :=
  any_schedule_eq_vertices_then_edges graph _ _ sched h a

/-! non-vacuity: two different schedules of two vertex calls and one edge call -/
example : Schedule [[⟨"a", "L", .obj []⟩], [⟨"b", "L", .obj []⟩]] [[⟨"e", "k", "a", "b", .obj []⟩]]
    [.vadd [⟨"a", "L", .obj []⟩], .eadd [⟨"e", "k", "a", "b", .obj []⟩], .vadd [⟨"b", "L", .obj []⟩]] :=
  .vertex _ (.edge _ (.vertex _ .done))
example : Schedule [[⟨"a", "L", .obj []⟩], [⟨"b", "L", .obj []⟩]] [[⟨"e", "k", "a", "b", .obj []⟩]]
    [.eadd [⟨"e", "k", "a", "b", .obj []⟩], .vadd [⟨"a", "L", .obj []⟩], .vadd [⟨"b", "L", .obj []⟩]] :=
  .edge _ (.vertex _ (.vertex _ .done))

end Grip.Props.C18
