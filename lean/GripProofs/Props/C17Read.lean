/-
  GripProofs.Props.C17Read — C17, last sentence: "Concurrent readers only ever observe elements
  that some client wrote", over the transition system of Grip.Model.C17Read
  (kvgraph/graph.go: GetVertex, GetVertexChannel, GetOutChannel, GetInChannel, GetOutEdgeChannel,
  GetInEdgeChannel; kvgraph/index.go: VertexLabelScan; writers AddVertex/AddEdge/BulkAdd/DelEdge/
  DelVertex as atomic write groups; kvi drivers badger/bolt/level/pebble as `Driver`).

  (a) reads-from, for EVERY interleaving (induction over the event list, no bounds), every driver:
      `reads_from`, `reads_from_when_emitted`; per path `getVertex_reads_from`,
      `vertexBatch_reads_from`, `out_reads_from`, `in_reads_from`, `labelScan_reads_from`,
      `outE_reads_from`, `inE_reads_from`, `outE2_reads_from` — all unconditional for the code AS
      REPAIRED (a failed `it.Get(ekey)` skips the entry).  For the code before the repair
      (`pOutEOld`, `pInEOld`) only `outEOld_reads_from` / `inEOld_reads_from` hold: "a written
      record OR the empty edge".
  (b) one View = one snapshot: `snapshot_read` and its instances (`getVertex_snapshot`,
      `in_snapshot` against Grip.C03; `outE_snapshot`, `inE_snapshot` against `outEFixed` /
      `inEFixed`; `outEOld_snapshot` against Grip.C03.outE, which still describes the old code);
      `outEFixed_real` (unconditional), `outEFixed_eq_of_closed`, `snapshot_edges_real`.
  (b') `atomic_calls_keep_closed`: ANY sequence of atomic add / DelEdge / DelVertex groups keeps
      the store adjacency-closed (`AdjClosedP`, `adjClosed_iff`), re-adds with other endpoints and
      deletes computed from stale Views included; `bolt_outE_never_dangling`.
  (c) what is FALSE, as theorems with witnesses (decide) — about the OLD code, each with the
      positive counterpart for the repaired paths on the same interleaving:
      `old_liveGet_outE_empty_edge` / `liveGet_outE_skips` — level / pebble: View opened, DelEdge
          acknowledged, then the request is served: old code emits the EMPTY edge, repaired: nothing;
      `old_pebble_delEdge_torn` / `pebble_delEdge_torn_skips` — pebble's Update WAS not a transaction (`pebbleOld`; repaired since: `pebble_delEdge_one_group`);
      `split_addEdge_code_order_partial`, `split_addEdge_adj_first`, `split_addEdge_delEdge_dangling`
          — (c1) AddEdge cut into single writes (old: empty edge; repaired: dangling key skipped,
          store not adjClosed);
      `two_view_readd`, `real_liveGet_outE_readd`, `real_out_two_views_new_vertex` — (c2) scan and
          Gets in different snapshots: never a hybrid; the new record as a whole, or nothing
          (old: the empty edge).

  The writers' groups are tied to Grip.C03 by `addCall_is_insertAll` (one atomic BulkWrite of
  AddVertex / AddEdge / BulkAdd = C03.insertAll).  GetOutChannel has no (b) theorem: its two Views
  are two snapshots (`out_fn` gives the function when both see the same store; see
  `real_out_two_views_new_vertex` for when they do not).

  `old_liveGet_outE_empty_edge` and `real_liveGet_outE_readd` were replayed against the Go code
  BEFORE the repair (/var/tmp/c17rwork/demo/main.go, all four drivers): level and pebble emitted
  gdbi.Edge{ID:"", Label:"", From:"", To:"", Loaded:false}; badger and bolt the snapshot's e1.

  Trusted: the model (see its header), nothing else.  Axioms: propext, Quot.sound, Classical.choice.
-/
import GripProofs.Lemmas.C17Read

namespace GripProofs.C17Read
open Grip Grip.C17Read
open Grip.C03 (KV SKey Val VOut EOut VertexIn EdgeIn ElemIn)

/-! ## (a) reads-from -/

/-- For every interleaving `evs` of writers' atomic groups with the reader's steps, every element
    in the reader's output is built from ONE binding (key and value together) that was in the
    initial store or was `Set` by a write group of `evs` — or is what the path emits for a
    missing record. -/
theorem reads_from {ι ε : Type} (P : Path ι ε) (init : KV) (evs : List Event) :
    ∀ e ∈ (run P (start init) evs).out, Emitted P init (writesOf evs) e := by
  have := run_inv P init evs (start init) [] (inv_start P init)
  simpa using this.out

/-- "… at an earlier point of that interleaving": whatever has been emitted after the prefix `pre`
    is justified by the writes of `pre` alone, and stays in the output. -/
theorem reads_from_when_emitted {ι ε : Type} (P : Path ι ε) (init : KV) (pre post : List Event) :
    (∀ e ∈ (run P (start init) pre).out, Emitted P init (writesOf pre) e) ∧
    ∃ t, (run P (start init) (pre ++ post)).out = (run P (start init) pre).out ++ t := by
  refine ⟨reads_from P init pre, ?_⟩
  rw [run_append]
  exact run_out_prefix P post _

theorem vertFound_src {init : KV} {hist : List (List W)} {g id : String} {val : Val} {v : VOut}
    (hf : vertFound id val = some v) (hs : Src init hist (.vertex g id, val)) :
    Src init hist (.vertex g v.gid, .vert v.label v.data) := by
  cases val with
  | vert l d => simp [vertFound] at hf; subst hf; exact hs
  | edge d => simp [vertFound] at hf
  | unit => simp [vertFound] at hf

/-- GetVertex -/
theorem getVertex_reads_from (g id : String) (init : KV) (evs : List Event) :
    ∀ v ∈ (run (pGetVertex g id) (start init) evs).out,
      Src init (writesOf evs) (.vertex g v.gid, .vert v.label v.data) := by
  intro v hv
  rcases reads_from _ init evs v hv with ⟨i, val, hf, hs⟩ | ⟨i, hm⟩
  · exact vertFound_src hf hs
  · simp [pGetVertex] at hm

/-- GetVertexChannel (batched lookups), any driver -/
theorem vertexBatch_reads_from (dr : Driver) (g : String) (ids : List String) (init : KV) (evs : List Event) :
    ∀ v ∈ (run (pVertexBatch dr g ids) (start init) evs).out,
      Src init (writesOf evs) (.vertex g v.gid, .vert v.label v.data) := by
  intro v hv
  rcases reads_from _ init evs v hv with ⟨i, val, hf, hs⟩ | ⟨i, hm⟩
  · exact vertFound_src hf hs
  · simp [pVertexBatch] at hm

/-- GetOutChannel (scan View + lookup View), any driver -/
theorem out_reads_from (dr : Driver) (g : String) (reqs labels : List String) (init : KV) (evs : List Event) :
    ∀ v ∈ (run (pOut dr g reqs labels) (start init) evs).out,
      Src init (writesOf evs) (.vertex g v.gid, .vert v.label v.data) := by
  intro v hv
  rcases reads_from _ init evs v hv with ⟨i, val, hf, hs⟩ | ⟨i, hm⟩
  · exact vertFound_src hf hs
  · simp [pOut] at hm

/-- GetInChannel, any driver -/
theorem in_reads_from (dr : Driver) (g : String) (reqs labels : List String) (init : KV) (evs : List Event) :
    ∀ v ∈ (run (pIn dr g reqs labels) (start init) evs).out,
      Src init (writesOf evs) (.vertex g v.gid, .vert v.label v.data) := by
  intro v hv
  rcases reads_from _ init evs v hv with ⟨i, val, hf, hs⟩ | ⟨i, hm⟩
  · exact vertFound_src hf hs
  · simp [pIn] at hm

/-- VertexLabelScan: an emitted id is the id of a vertex record carrying the label that was
    written (initially or by a group of the interleaving). -/
theorem labelScan_reads_from (g label : String) (init : KV) (evs : List Event) :
    ∀ id ∈ (run (pLabelScan g label) (start init) evs).out,
      ∃ d, Src init (writesOf evs) (.vertex g id, .vert label d) := by
  intro id hid
  rcases reads_from _ init evs id hid with ⟨i, val, hf, hs⟩ | ⟨i, hm⟩
  · cases val with
    | vert l d =>
      simp only [pLabelScan] at hf hs
      by_cases hl : l = label
      · simp [hl] at hf; subst hf; subst hl; exact ⟨d, hs⟩
      · simp [hl] at hf
    | edge d => simp [pLabelScan] at hf
    | unit => simp [pLabelScan] at hf
  · simp [pLabelScan] at hm

theorem edgeFound_src {init : KV} {hist : List (List W)} {g : String} {a : Adj} {val : Val} {e : EOut}
    (hf : edgeFound a val = some e) (hs : Src init hist (.edge g a.eid a.s a.d a.l, val)) :
    Src init hist (.edge g e.gid e.frm e.to e.label, .edge e.data) := by
  cases val with
  | edge d => simp [edgeFound] at hf; subst hf; exact hs
  | vert l d => simp [edgeFound] at hf
  | unit => simp [edgeFound] at hf

/-- GetOutEdgeChannel (load), AS REPAIRED, every driver, every interleaving: id, label, from, to
    AND data of an emitted edge are those of ONE edge record that was in the initial store or was
    `Set` by a group of the interleaving.  No escape clause: no empty edge, no mixture of two
    writes (all five fields sit in one key-value binding). -/
theorem outE_reads_from (dr : Driver) (g : String) (reqs labels : List String) (init : KV) (evs : List Event) :
    ∀ e ∈ (run (pOutE dr g reqs labels) (start init) evs).out,
      Src init (writesOf evs) (.edge g e.gid e.frm e.to e.label, .edge e.data) := by
  intro e he
  rcases reads_from _ init evs e he with ⟨i, val, hf, hs⟩ | ⟨i, hm⟩
  · exact edgeFound_src hf hs
  · simp [pOutE] at hm

/-- GetInEdgeChannel (load), as repaired -/
theorem inE_reads_from (dr : Driver) (g : String) (reqs labels : List String) (init : KV) (evs : List Event) :
    ∀ e ∈ (run (pInE dr g reqs labels) (start init) evs).out,
      Src init (writesOf evs) (.edge g e.gid e.frm e.to e.label, .edge e.data) := by
  intro e he
  rcases reads_from _ init evs e he with ⟨i, val, hf, hs⟩ | ⟨i, hm⟩
  · exact edgeFound_src hf hs
  · simp [pInE] at hm

/-- the two-View variant of the repaired edge path obeys the same law -/
theorem outE2_reads_from (g : String) (reqs labels : List String) (init : KV) (evs : List Event) :
    ∀ e ∈ (run (pOutE2 g reqs labels) (start init) evs).out,
      Src init (writesOf evs) (.edge g e.gid e.frm e.to e.label, .edge e.data) := by
  intro e he
  rcases reads_from _ init evs e he with ⟨i, val, hf, hs⟩ | ⟨i, hm⟩
  · exact edgeFound_src hf hs
  · simp [pOutE2, pOutE] at hm

theorem edgeFoundOld_src {init : KV} {hist : List (List W)} {g : String} {a : Adj} {val : Val} {e : EOut}
    (hf : edgeFoundOld a val = some e) (hs : Src init hist (.edge g a.eid a.s a.d a.l, val)) :
    e = emptyEdge ∨ Src init hist (.edge g e.gid e.frm e.to e.label, .edge e.data) := by
  cases val with
  | edge d => simp [edgeFoundOld] at hf; subst hf; exact .inr hs
  | vert l d => simp [edgeFoundOld] at hf; exact .inl hf.symm
  | unit => simp [edgeFoundOld] at hf; exact .inl hf.symm

/-- the code BEFORE the repair: the best that is true — a written record OR the empty edge
    (`old_liveGet_outE_empty_edge` shows the escape was needed) -/
theorem outEOld_reads_from (dr : Driver) (g : String) (reqs labels : List String) (init : KV) (evs : List Event) :
    ∀ e ∈ (run (pOutEOld dr g reqs labels) (start init) evs).out,
      e = emptyEdge ∨ Src init (writesOf evs) (.edge g e.gid e.frm e.to e.label, .edge e.data) := by
  intro e he
  rcases reads_from _ init evs e he with ⟨i, val, hf, hs⟩ | ⟨i, hm⟩
  · exact edgeFoundOld_src hf hs
  · simp [pOutEOld] at hm; exact .inl hm.symm

theorem inEOld_reads_from (dr : Driver) (g : String) (reqs labels : List String) (init : KV) (evs : List Event) :
    ∀ e ∈ (run (pInEOld dr g reqs labels) (start init) evs).out,
      e = emptyEdge ∨ Src init (writesOf evs) (.edge g e.gid e.frm e.to e.label, .edge e.data) := by
  intro e he
  rcases reads_from _ init evs e he with ⟨i, val, hf, hs⟩ | ⟨i, hm⟩
  · exact edgeFoundOld_src hf hs
  · simp [pInEOld] at hm; exact .inl hm.symm

/-- the atomic group of an add call is the write of Grip.C03 (same keys, same order) -/
theorem addCall_is_insertAll (fields : List String) (g : String) (xs : List ElemIn) (m : KV) :
    applyGroups m (addGroups bolt fields g xs) = (C03.insertAll fields g m xs).1 := by
  simp [addGroups, cut, bolt, applyGroups, bulkWrites_eq]

/-! ## (b) one View = one snapshot -/

/-- A path whose Gets read the iterator's snapshot (`scanSnap`: badger, bolt), once all its steps
    are taken, has emitted exactly `scan` + `lookup` evaluated on the store as it was when the
    View opened (`snap`), whatever was written before, in between and after. -/
theorem snapshot_read {ι ε : Type} (P : Path ι ε) (hmode : P.mode = .scanSnap) (init : KV)
    (pre post : List Event) (hpre : Event.openScan ∉ pre)
    (hdone : (run P (start init) (pre ++ .openScan :: post)).pending = []) :
    (run P (start init) (pre ++ .openScan :: post)).out =
      (P.scan (applyGroups init (writesOf pre))).filterMap (P.lookup (applyGroups init (writesOf pre))) := by
  obtain ⟨hA, hp, ho, hl⟩ := run_before_open P pre (start init) hpre rfl rfl
  have h0 : SnapInv P (applyGroups init (writesOf pre)) (step P (run P (start init) pre) .openScan) := by
    show SnapInv P _ (stepOpenScan P _)
    unfold stepOpenScan
    rw [hA]
    have hl' : (run P (start init) pre).live = applyGroups init (writesOf pre) := hl
    have ho' : (run P (start init) pre).out = [] := ho
    exact ⟨by simp [hl'], by simp [hl', ho']⟩
  have h1 := SnapInv.run hmode post _ h0
  have hrun : run P (start init) (pre ++ .openScan :: post) =
      run P (step P (run P (start init) pre) .openScan) post := by
    rw [run_append]; rfl
  rw [hrun] at hdone ⊢
  have := h1.2
  rw [hdone] at this
  simpa using this

/-! the scan + lookup of each path on ONE store is the function of Grip.C03 -/

theorem getVertex_fn (g id : String) (m : KV) :
    ((pGetVertex g id).scan m).filterMap ((pGetVertex g id).lookup m) = (C03.getVertex m g id).toList := by
  simp only [pGetVertex, Path.lookup, C03.getVertex, List.filterMap_cons, List.filterMap_nil]
  cases m.get (.vertex g id) with
  | none => rfl
  | some v => cases v <;> rfl

theorem in_fn (dr : Driver) (g id : String) (labels : List String) (m : KV) :
    ((pIn dr g [id] labels).scan m).filterMap ((pIn dr g [id] labels).lookup m) = C03.inV m g id labels := by
  simp only [pIn, scanDst, List.flatMap_cons, List.flatMap_nil, List.append_nil, List.filterMap_filterMap,
    C03.inV]
  apply filterMap_congr'
  intro p _
  rcases p with ⟨k, v⟩
  cases k <;> try rfl
  rename_i g' x1 x2 eid l
  dsimp only
  split
  · simp only [Option.bind_some, Path.lookup, C03.getVertex]
    cases m.get (SKey.vertex g _) with
    | none => rfl
    | some v => cases v <;> rfl
  · rfl

theorem out_fn (dr : Driver) (g id : String) (labels : List String) (m : KV) :
    ((pOut dr g [id] labels).scan m).filterMap ((pOut dr g [id] labels).lookup m) = C03.outV m g id labels := by
  simp only [pOut, scanSrc, List.flatMap_cons, List.flatMap_nil, List.append_nil, List.filterMap_filterMap,
    C03.outV]
  apply filterMap_congr'
  intro p _
  rcases p with ⟨k, v⟩
  cases k <;> try rfl
  rename_i g' x1 x2 eid l
  dsimp only
  split
  · simp only [Option.bind_some, Path.lookup, C03.getVertex]
    cases m.get (SKey.vertex g _) with
    | none => rfl
    | some v => cases v <;> rfl
  · rfl

theorem outE_fn (dr : Driver) (g id : String) (labels : List String) (m : KV) :
    ((pOutE dr g [id] labels).scan m).filterMap ((pOutE dr g [id] labels).lookup m) = outEFixed m g id labels := by
  simp only [pOutE, scanSrc, List.flatMap_cons, List.flatMap_nil, List.append_nil, List.filterMap_filterMap,
    outEFixed]
  apply filterMap_congr'
  intro p _
  rcases p with ⟨k, v⟩
  cases k <;> try rfl
  rename_i g' x1 x2 eid l
  dsimp only
  split
  · simp only [Option.bind_some, Path.lookup]
    cases m.get (SKey.edge g _ _ _ _) with
    | none => rfl
    | some v => cases v <;> rfl
  · rfl

theorem inE_fn (dr : Driver) (g id : String) (labels : List String) (m : KV) :
    ((pInE dr g [id] labels).scan m).filterMap ((pInE dr g [id] labels).lookup m) = inEFixed m g id labels := by
  simp only [pInE, scanDst, List.flatMap_cons, List.flatMap_nil, List.append_nil, List.filterMap_filterMap,
    inEFixed]
  apply filterMap_congr'
  intro p _
  rcases p with ⟨k, v⟩
  cases k <;> try rfl
  rename_i g' x1 x2 eid l
  dsimp only
  split
  · simp only [Option.bind_some, Path.lookup]
    cases m.get (SKey.edge g _ _ _ _) with
    | none => rfl
    | some v => cases v <;> rfl
  · rfl

theorem outEOld_fn (dr : Driver) (g id : String) (labels : List String) (m : KV) :
    ((pOutEOld dr g [id] labels).scan m).filterMap ((pOutEOld dr g [id] labels).lookup m) = C03.outE m g id labels := by
  simp only [pOutEOld, scanSrc, List.flatMap_cons, List.flatMap_nil, List.append_nil, List.filterMap_filterMap,
    C03.outE]
  apply filterMap_congr'
  intro p _
  rcases p with ⟨k, v⟩
  cases k <;> try rfl
  rename_i g' x1 x2 eid l
  dsimp only
  split
  · simp only [Option.bind_some, Path.lookup]
    cases m.get (SKey.edge g _ _ _ _) with
    | none => rfl
    | some v => cases v <;> rfl
  · rfl

theorem inEOld_fn (dr : Driver) (g id : String) (labels : List String) (m : KV) :
    ((pInEOld dr g [id] labels).scan m).filterMap ((pInEOld dr g [id] labels).lookup m) = C03.inE m g id labels := by
  simp only [pInEOld, scanDst, List.flatMap_cons, List.flatMap_nil, List.append_nil, List.filterMap_filterMap,
    C03.inE]
  apply filterMap_congr'
  intro p _
  rcases p with ⟨k, v⟩
  cases k <;> try rfl
  rename_i g' x1 x2 eid l
  dsimp only
  split
  · simp only [Option.bind_some, Path.lookup]
    cases m.get (SKey.edge g _ _ _ _) with
    | none => rfl
    | some v => cases v <;> rfl
  · rfl

/-- GetVertex = Grip.C03.getVertex of the store when its View opened -/
theorem getVertex_snapshot (g id : String) (init : KV) (pre post : List Event)
    (hpre : Event.openScan ∉ pre)
    (hdone : (run (pGetVertex g id) (start init) (pre ++ .openScan :: post)).pending = []) :
    (run (pGetVertex g id) (start init) (pre ++ .openScan :: post)).out =
      (C03.getVertex (applyGroups init (writesOf pre)) g id).toList := by
  rw [snapshot_read _ rfl init pre post hpre hdone, getVertex_fn]

/-- GetInChannel on a snapshot driver = Grip.C03.inV of the store when its View opened -/
theorem in_snapshot (dr : Driver) (hdr : dr.snapshotGet = true) (g id : String) (labels : List String)
    (init : KV) (pre post : List Event) (hpre : Event.openScan ∉ pre)
    (hdone : (run (pIn dr g [id] labels) (start init) (pre ++ .openScan :: post)).pending = []) :
    (run (pIn dr g [id] labels) (start init) (pre ++ .openScan :: post)).out =
      C03.inV (applyGroups init (writesOf pre)) g id labels := by
  rw [snapshot_read _ (by simp [pIn, getMode, hdr]) init pre post hpre hdone, in_fn]

/-- GetOutEdgeChannel (repaired) on a snapshot driver = `outEFixed` of the store when its View opened -/
theorem outE_snapshot (dr : Driver) (hdr : dr.snapshotGet = true) (g id : String) (labels : List String)
    (init : KV) (pre post : List Event) (hpre : Event.openScan ∉ pre)
    (hdone : (run (pOutE dr g [id] labels) (start init) (pre ++ .openScan :: post)).pending = []) :
    (run (pOutE dr g [id] labels) (start init) (pre ++ .openScan :: post)).out =
      outEFixed (applyGroups init (writesOf pre)) g id labels := by
  rw [snapshot_read _ (by simp [pOutE, getMode, hdr]) init pre post hpre hdone, outE_fn]

/-- GetInEdgeChannel (repaired) on a snapshot driver -/
theorem inE_snapshot (dr : Driver) (hdr : dr.snapshotGet = true) (g id : String) (labels : List String)
    (init : KV) (pre post : List Event) (hpre : Event.openScan ∉ pre)
    (hdone : (run (pInE dr g [id] labels) (start init) (pre ++ .openScan :: post)).pending = []) :
    (run (pInE dr g [id] labels) (start init) (pre ++ .openScan :: post)).out =
      inEFixed (applyGroups init (writesOf pre)) g id labels := by
  rw [snapshot_read _ (by simp [pInE, getMode, hdr]) init pre post hpre hdone, inE_fn]

/-- the code before the repair on a snapshot driver = Grip.C03.outE (which still has the zero edge) -/
theorem outEOld_snapshot (dr : Driver) (hdr : dr.snapshotGet = true) (g id : String) (labels : List String)
    (init : KV) (pre post : List Event) (hpre : Event.openScan ∉ pre)
    (hdone : (run (pOutEOld dr g [id] labels) (start init) (pre ++ .openScan :: post)).pending = []) :
    (run (pOutEOld dr g [id] labels) (start init) (pre ++ .openScan :: post)).out =
      C03.outE (applyGroups init (writesOf pre)) g id labels := by
  rw [snapshot_read _ (by simp [pOutEOld, getMode, hdr]) init pre post hpre hdone, outEOld_fn]

/-! ## concrete material for the examples and the negative theorems -/

def va : VertexIn := ⟨"a", "P", .obj []⟩
def vb : VertexIn := ⟨"b", "P", .obj []⟩
def vb2 : VertexIn := ⟨"b", "Q", .obj [("n", .num 1024)]⟩
def e1 : EdgeIn := ⟨"e1", "knows", "a", "b", .obj [("w", .num 1024)]⟩
def e1' : EdgeIn := ⟨"e1", "knows", "a", "b", .obj [("w", .num 2048)]⟩
def e1c : EdgeIn := ⟨"e1", "knows", "a", "c", .obj [("w", .num 2048)]⟩
/-- vertices a, b -/
def s0 : KV := applyGroup [] (bulkWrites [] "g" [.v va, .v vb])
/-- … and the edge e1 : a -knows-> b {w: 1} -/
def s1 : KV := applyGroup s0 (bulkWrites [] "g" [.e e1])
def out1 : EOut := ⟨"e1", "knows", "a", "b", .obj [("w", .num 1024)]⟩
def out1' : EOut := ⟨"e1", "knows", "a", "b", .obj [("w", .num 2048)]⟩

/-- every adjacency entry of graph `g` has its edge record (what atomic AddEdge / DelEdge /
    DelVertex groups maintain; computable, so it can be checked on a concrete store) -/
def adjClosed (g : String) (m : KV) : Bool :=
  m.all (fun p => match p.1 with
    | .src g' s d eid l => g' != g || (match m.get (.edge g eid s d l) with | some (.edge _) => true | _ => false)
    | .dst g' d s eid l => g' != g || (match m.get (.edge g eid s d l) with | some (.edge _) => true | _ => false)
    | _ => true)

/-- On a closed snapshot the edge paths return only edges whose record is in the snapshot — in
    particular never the empty edge, unless a client wrote it.  Together with `outE_snapshot`:
    on bolt / badger, with writers whose atomic groups keep the store closed, every edge a reader
    returns is a record of the store at its snapshot point. -/
theorem snapshot_edges_real (g id : String) (labels : List String) (m : KV) (h : adjClosed g m = true) :
    ∀ e ∈ C03.outE m g id labels, (SKey.edge g e.gid e.frm e.to e.label, Val.edge e.data) ∈ m := by
  intro e he
  unfold C03.outE at he
  obtain ⟨p, hp, hf⟩ := List.mem_filterMap.1 he
  have hc := (List.all_eq_true.1 h) p hp
  rcases p with ⟨k, v⟩
  cases k <;> simp only [reduceCtorEq] at hf
  rename_i g' s d eid l
  dsimp only at hf hc
  split at hf
  · rename_i hcond
    obtain ⟨hg, _, _⟩ := hcond
    subst hg
    cases hget : m.get (SKey.edge g' eid s d l) with
    | none => simp [hget] at hc
    | some val =>
      cases val with
      | edge data =>
        rw [hget] at hf
        simp only [Option.some.injEq] at hf
        subst hf
        exact get_mem hget
      | vert l' d' => simp [hget] at hc
      | unit => simp [hget] at hc
  · simp at hf

example : adjClosed "g" s1 = true ∧ C03.outE s1 "g" "a" [] = [out1] := by
  refine ⟨?_, ?_⟩ <;> with_unfolding_all decide


/-! ## atomic writers keep every store adjacency-closed (bolt: no reader ever meets a dangling key) -/

theorem adjClosed_iff (g : String) (m : KV) : adjClosed g m = true ↔ AdjClosedP g m := by
  unfold adjClosed AdjClosedP
  rw [List.all_eq_true]
  constructor
  · intro h p hp s d eid l hk
    have hc := h p hp
    rcases p with ⟨k, v⟩
    rcases hk with hk | hk <;> (simp only at hk; subst hk; simp only [bne_self_eq_false, Bool.false_or] at hc)
    all_goals
      cases hget : m.get (SKey.edge g eid s d l) with
      | none => simp [hget] at hc
      | some val => cases val <;> simp_all
  · intro h p hp
    rcases p with ⟨k, v⟩
    cases k <;> try rfl
    all_goals
      rename_i g' x1 x2 eid l
      by_cases hg : g' = g
      · subst hg
        first
          | (obtain ⟨data, hd⟩ := h _ hp x1 x2 eid l (.inl rfl); simp [hd])
          | (obtain ⟨data, hd⟩ := h _ hp x2 x1 eid l (.inr rfl); simp [hd])
      · simp [hg]

/-- a complete writer call whose writes reach the store as ONE group (bolt and level: every
    call; badger: DelEdge, DelVertex and adds small enough for one WriteBatch txn; pebble: all calls since its Update is an indexed batch).
    The deletes carry the View they were computed from — ANY store, however stale. -/
inductive WCall where
  | add (fields : List String) (xs : List ElemIn)
  | delEdge (snap : KV) (eid : String)
  | delVertex (snap : KV) (id : String)

def WCall.group (g : String) : WCall → List W
  | .add fields xs => bulkWrites fields g xs
  | .delEdge snap eid => delEdgeWrites snap g eid
  | .delVertex snap id => delVertexWrites snap g id

/-- ANY sequence of atomic add / DelEdge / DelVertex groups — re-adds of an edge id with other
    endpoints and deletes computed from stale Views included — takes an adjacency-closed store to
    an adjacency-closed store.  No hypothesis on the calls is needed: a re-add leaves the OLD edge
    complete (record + both entries: the open finding "C03-edge-readd" is about there being two
    edges, not about a dangling key), and the deletes always remove record, src and dst entry of
    the same (id, from, to, label) together. -/
theorem atomic_calls_keep_closed (g : String) : ∀ (calls : List WCall) (m : KV),
    AdjClosedP g m → AdjClosedP g (applyGroups m (calls.map (WCall.group g)))
  | [], _, h => h
  | c :: cs, m, h => by
    have hc : AdjClosedP g (applyGroup m (c.group g)) := by
      cases c with
      | add fields xs => exact AdjClosedP.bulkWrites fields xs m h
      | delEdge snap eid => exact h.delEdgeWrites snap eid
      | delVertex snap id => exact h.delVertexWrites snap id
    exact atomic_calls_keep_closed g cs _ hc

/-- the repaired edge function returns records of the store it reads — unconditionally -/
theorem outEFixed_real (g id : String) (labels : List String) (m : KV) :
    ∀ e ∈ outEFixed m g id labels, (SKey.edge g e.gid e.frm e.to e.label, Val.edge e.data) ∈ m := by
  intro e he
  unfold outEFixed at he
  obtain ⟨p, _hp, hf⟩ := List.mem_filterMap.1 he
  rcases p with ⟨k, v⟩
  cases k <;> simp only [reduceCtorEq] at hf
  rename_i g' s d eid l
  try dsimp only at hf
  split at hf
  · cases hget : m.get (SKey.edge g eid s d l) with
    | none => simp [hget] at hf
    | some val =>
      cases val with
      | edge data =>
        rw [hget] at hf
        simp only [Option.some.injEq] at hf
        subst hf
        exact get_mem hget
      | vert l' d' => simp [hget] at hf
      | unit => simp [hget] at hf
  · simp at hf

/-- on an adjacency-closed store the repair is invisible: no entry is skipped, the repaired
    function is Grip.C03.outE -/
theorem outEFixed_eq_of_closed (g id : String) (labels : List String) (m : KV) (h : AdjClosedP g m) :
    outEFixed m g id labels = C03.outE m g id labels := by
  unfold outEFixed C03.outE
  apply filterMap_congr'
  intro p hp
  rcases p with ⟨k, v⟩
  cases k <;> try rfl
  rename_i g' s d eid l
  dsimp only
  split
  · rename_i hc
    obtain ⟨hg, _, _⟩ := hc
    subst hg
    obtain ⟨data, hd⟩ := h _ hp s d eid l (.inl rfl)
    simp [hd]
  · rfl

/-- bolt (every call one group, Gets on the snapshot), repaired or not: from an adjacency-closed
    store, after any atomic calls, a reader's snapshot is closed, so outE meets NO dangling key —
    its result is Grip.C03.outE of the snapshot, every element a record of that snapshot. -/
theorem bolt_outE_never_dangling (dr : Driver) (hdr : dr.snapshotGet = true) (g id : String)
    (labels : List String) (init : KV) (hinit : AdjClosedP g init) (calls : List WCall)
    (pre post : List Event) (hpre : Event.openScan ∉ pre) (hw : writesOf pre = calls.map (WCall.group g))
    (hdone : (run (pOutE dr g [id] labels) (start init) (pre ++ .openScan :: post)).pending = []) :
    (run (pOutE dr g [id] labels) (start init) (pre ++ .openScan :: post)).out =
      C03.outE (applyGroups init (writesOf pre)) g id labels ∧
    ∀ e ∈ (run (pOutE dr g [id] labels) (start init) (pre ++ .openScan :: post)).out,
      (SKey.edge g e.gid e.frm e.to e.label, Val.edge e.data) ∈ applyGroups init (writesOf pre) := by
  have hcl : AdjClosedP g (applyGroups init (writesOf pre)) := by
    rw [hw]; exact atomic_calls_keep_closed g calls init hinit
  have hs := outE_snapshot dr hdr g id labels init pre post hpre hdone
  refine ⟨by rw [hs, outEFixed_eq_of_closed _ _ _ _ hcl], ?_⟩
  rw [hs]
  exact outEFixed_real g id labels _

/-- hypotheses satisfiable: s1 is closed; DelEdge from a STALE view (s1, after the edge was
    re-added elsewhere) and a re-add with another endpoint are among the calls. -/
example :
    let calls := [WCall.add [] [.e e1c], .delEdge s1 "e1", .add [] [.e e1'], .delVertex s0 "b"]
    let pre := (calls.map (WCall.group "g")).map Event.write
    AdjClosedP "g" s1 ∧ writesOf pre = calls.map (WCall.group "g") ∧ Event.openScan ∉ pre ∧
    (run (pOutE bolt "g" ["a"] []) (start s1) (pre ++ .openScan :: [.get, .get, .get])).pending = [] ∧
    (run (pOutE bolt "g" ["a"] []) (start s1) (pre ++ .openScan :: [.get, .get, .get])).out =
      [out1', ⟨"e1", "knows", "a", "c", .obj [("w", .num 2048)]⟩] := by
  refine ⟨(adjClosed_iff _ _).1 ?_, ?_, ?_, ?_, ?_⟩ <;> with_unfolding_all decide

/-- (a), hypotheses satisfiable / conclusion not vacuous: a bolt reader of outE(a) whose View opens
    after AddEdge(e1) committed, with a DelEdge and a re-add interleaved before its Get, emits e1
    as first written. -/
example :
    (run (pOutE bolt "g" ["a"] []) (start s0)
      ((addGroups bolt [] "g" [.e e1]).map .write ++ [.openScan] ++
       (delEdgeGroups bolt s1 "g" "e1").map .write ++ (addGroups bolt [] "g" [.e e1']).map .write ++ [.get])).out
      = [out1] := by with_unfolding_all decide

/-- (b), hypotheses satisfiable: -/
example :
    (run (pOutE bolt "g" ["a"] []) (start s0)
      ([.write (bulkWrites [] "g" [.e e1])] ++ .openScan ::
        [.write (delEdgeWrites s1 "g" "e1"), .get, .write (bulkWrites [] "g" [.e e1'])])).out
      = outEFixed (applyGroups s0 (writesOf [.write (bulkWrites [] "g" [.e e1])])) "g" "a" [] :=
  outE_snapshot bolt rfl "g" "a" [] s0 _ _ (by decide) (by with_unfolding_all decide)

/-! ## (c) what is false — for the code BEFORE the repair (`pOutEOld` / `pInEOld`), each with the
    positive counterpart for the repaired paths on the same interleaving -/

/-- nobody ever wrote the empty edge in these scenarios -/
def emptyRec : SKey × Val := (.edge "g" "" "" "" "", .edge (.obj []))

/-- OLD CODE, level and pebble (iterator = snapshot of the View, `it.Get` = live store), all
    writes atomic: the reader's View is open (its traversal is waiting for requests), DelEdge("e1")
    runs to completion, then the request for "a" is served.  GetOutEdgeChannel(load) emitted the
    EMPTY edge {ID:"", Label:"", From:"", To:""}: an element no client wrote (replayed against the
    Go code before the repair).  Same interleaving on bolt / badger: the edge e1 of the snapshot. -/
theorem old_liveGet_outE_empty_edge :
    let evs := [Event.openScan] ++ (delEdgeGroups level s1 "g" "e1").map .write ++ [.get]
    (run (pOutEOld level "g" ["a"] []) (start s1) evs).out = [emptyEdge] ∧
    (run (pInEOld level "g" ["b"] []) (start s1) evs).out = [emptyEdge] ∧
    ¬ Src s1 (writesOf evs) emptyRec ∧
    (run (pOutEOld bolt "g" ["a"] []) (start s1) evs).out = [out1] := by
  refine ⟨?_, ?_, ?_, ?_⟩ <;> (try unfold Src) <;> with_unfolding_all decide

/-- REPAIRED CODE, same interleaving: level / pebble emit nothing (the deleted edge is skipped);
    bolt / badger emit the snapshot's e1. -/
theorem liveGet_outE_skips :
    let evs := [Event.openScan] ++ (delEdgeGroups level s1 "g" "e1").map .write ++ [.get]
    (run (pOutE level "g" ["a"] []) (start s1) evs).out = [] ∧
    (run (pInE level "g" ["b"] []) (start s1) evs).out = [] ∧
    (run (pOutE pebble "g" ["a"] []) (start s1) evs).out = [] ∧
    (run (pOutE bolt "g" ["a"] []) (start s1) evs).out = [out1] := by
  refine ⟨?_, ?_, ?_, ?_⟩ <;> with_unfolding_all decide

def tornEvs : List Event :=
  [Event.write [W.del (.edge "g" "e1" "a" "b" "knows")], .openScan, .get] ++
    [Event.write [W.del (.src "g" "a" "b" "e1" "knows")], .write [W.del (.dst "g" "b" "a" "e1" "knows")]]

/-- OLD CODE and OLD pebble driver (`pebbleOld`: `Update` was not a transaction, DelEdge's three
    Deletes were three groups, record first).  A reader whose View opened after the first of them saw
    a dangling src key and emitted the empty edge. -/
theorem old_pebble_delEdge_torn :
    (delEdgeGroups pebbleOld s1 "g" "e1").length = 3 ∧
    writesOf tornEvs = delEdgeGroups pebbleOld s1 "g" "e1" ∧
    (run (pOutEOld pebbleOld "g" ["a"] []) (start s1) tornEvs).out = [emptyEdge] := by
  refine ⟨?_, ?_, ?_⟩ <;> with_unfolding_all decide

/-- REPAIRED edge paths on the OLD pebble driver, same interleaving: the dangling src key is met
    and silently skipped. -/
theorem pebble_delEdge_torn_skips :
    (run (pOutE pebbleOld "g" ["a"] []) (start s1) tornEvs).out = [] := by
  with_unfolding_all decide

/-- REPAIRED pebble driver (Update = one indexed batch): DelEdge is one group, the torn
    interleaving does not exist, and a reader opening at any point sees the edge whole or not at all. -/
theorem pebble_delEdge_one_group :
    (delEdgeGroups pebble s1 "g" "e1").length = 1 ∧
    (run (pOutE pebble "g" ["a"] []) (start s1)
      ([Event.openScan, .get] ++ (delEdgeGroups pebble s1 "g" "e1").map Event.write)).out.length = 1 ∧
    (run (pOutE pebble "g" ["a"] []) (start s1)
      ((delEdgeGroups pebble s1 "g" "e1").map Event.write ++ [Event.openScan, .get])).out = [] := by
  refine ⟨?_, ?_, ?_⟩ <;> with_unfolding_all decide

/-- (c1) AddEdge cut into single writes in the order of the code (record, src, dst, doc) — what
    badger's WriteBatch may do to a large BulkAdd.  A snapshot reader between the src and the dst
    write sees the edge from `a` and not from `b`: a partial edge, but every element it returns
    is the written one.  (Repaired paths; the old ones agree here.) -/
theorem split_addEdge_code_order_partial :
    let gs := cut false (bulkWrites [] "g" [.e e1])
    gs.length = 4 ∧
    (run (pOutE bolt "g" ["a"] []) (start s0) ((gs.take 2).map .write ++ [.openScan, .get] ++ (gs.drop 2).map .write)).out = [out1] ∧
    (run (pInE bolt "g" ["b"] []) (start s0) ((gs.take 2).map .write ++ [.openScan, .get] ++ (gs.drop 2).map .write)).out = [] := by
  refine ⟨?_, ?_, ?_⟩ <;> with_unfolding_all decide

def adjFirstEvs : List Event :=
  [Event.write [W.set (.src "g" "a" "b" "e1" "knows") .unit], .openScan, .get,
   .write [W.set (.edge "g" "e1" "a" "b" "knows") (.edge e1.data)],
   .write [W.set (.dst "g" "b" "a" "e1" "knows") .unit]]

/-- (c1) the same three writes with the adjacency entry FIRST (not the code's order): a snapshot
    reader in between finds a src key without record.  OLD path: emits the empty edge, which
    nobody wrote.  REPAIRED path: the dangling key is silently skipped (nothing emitted); the
    snapshot itself is not `adjClosed`. -/
theorem split_addEdge_adj_first :
    (run (pOutEOld bolt "g" ["a"] []) (start s0) adjFirstEvs).out = [emptyEdge] ∧
    ¬ Src s0 (writesOf adjFirstEvs) emptyRec ∧
    (run (pOutE bolt "g" ["a"] []) (start s0) adjFirstEvs).out = [] ∧
    adjClosed "g" (applyGroups s0 (writesOf (adjFirstEvs.take 1))) = false := by
  refine ⟨?_, ?_, ?_, ?_⟩ <;> (try unfold Src) <;> with_unfolding_all decide

/-- (c1) the code's order, cut after the record write, with a complete (atomic) DelEdge("e1") of
    another client in the gap: the src and dst entries written afterwards dangle FOR GOOD (the
    final store is not `adjClosed`).  OLD path: every later reader, on every driver, emits the
    empty edge.  REPAIRED path: every later reader skips the entry. -/
theorem split_addEdge_delEdge_dangling :
    let gs := cut false (bulkWrites [] "g" [.e e1])
    let mid := applyGroups s0 (gs.take 1)
    let ws := (gs.take 1).map Event.write ++ [.write (delEdgeWrites mid "g" "e1")] ++ (gs.drop 1).map .write
    (run (pOutEOld bolt "g" ["a"] []) (start s0) (ws ++ [.openScan, .get])).out = [emptyEdge] ∧
    (run (pOutE bolt "g" ["a"] []) (start s0) (ws ++ [.openScan, .get])).out = [] ∧
    adjClosed "g" (applyGroups s0 (writesOf ws)) = false := by
  refine ⟨?_, ?_, ?_⟩ <;> with_unfolding_all decide

/-- (c2) VARIANT with the record Gets in a second View, DelEdge + re-add of the same id between
    the two snapshots.  Same endpoints and label, other data: the NEW record as a whole (an
    element a client wrote; nothing of the old one survives, because id, from, to, label are the
    key of the record and the data its value).  Other endpoint: the key scanned no longer has a
    record — OLD: the empty edge; REPAIRED: nothing.  Never a mixture. -/
theorem two_view_readd :
    (run (pOutE2 "g" ["a"] []) (start s1)
      [.openScan, .write (delEdgeWrites s1 "g" "e1"), .write (bulkWrites [] "g" [.e e1']), .openGet, .get]).out = [out1'] ∧
    (run (pOutE2Old "g" ["a"] []) (start s1)
      [.openScan, .write (delEdgeWrites s1 "g" "e1"), .write (bulkWrites [] "g" [.e e1c]), .openGet, .get]).out = [emptyEdge] ∧
    (run (pOutE2 "g" ["a"] []) (start s1)
      [.openScan, .write (delEdgeWrites s1 "g" "e1"), .write (bulkWrites [] "g" [.e e1c]), .openGet, .get]).out = [] := by
  refine ⟨?_, ?_, ?_⟩ <;> with_unfolding_all decide

/-- (c2) REAL CODE, level / pebble: GetOutEdgeChannel behaves like that variant (the Get is live):
    the new record as a whole (replayed in Go: w=2), or — other endpoint — old: empty edge,
    repaired: nothing. -/
theorem real_liveGet_outE_readd :
    (run (pOutE level "g" ["a"] []) (start s1)
      [.openScan, .write (delEdgeWrites s1 "g" "e1"), .write (bulkWrites [] "g" [.e e1']), .get]).out = [out1'] ∧
    (run (pOutEOld level "g" ["a"] []) (start s1)
      [.openScan, .write (delEdgeWrites s1 "g" "e1"), .write (bulkWrites [] "g" [.e e1c]), .get]).out = [emptyEdge] ∧
    (run (pOutE level "g" ["a"] []) (start s1)
      [.openScan, .write (delEdgeWrites s1 "g" "e1"), .write (bulkWrites [] "g" [.e e1c]), .get]).out = [] := by
  refine ⟨?_, ?_, ?_⟩ <;> with_unfolding_all decide

/-- (c2) REAL CODE, every driver: GetOutChannel scans in one View and Gets the vertices in another.
    DelVertex("b") (which removes e1) and a re-add of b with another label and data in between:
    out(a) reports the NEW b — a vertex a client wrote, whole, but one that was never adjacent to
    `a` in any state of the store.  With only the DelVertex: nothing is emitted. -/
theorem real_out_two_views_new_vertex :
    (run (pOut bolt "g" ["a"] []) (start s1)
      [.openScan, .write (delVertexWrites s1 "g" "b"), .write (bulkWrites [] "g" [.v vb2]), .openGet, .get]).out
      = [⟨"b", "Q", .obj [("n", .num 1024)]⟩] ∧
    C03.outV (applyGroups s1 [delVertexWrites s1 "g" "b", bulkWrites [] "g" [.v vb2]]) "g" "a" [] = [] ∧
    (run (pOut bolt "g" ["a"] []) (start s1)
      [.openScan, .write (delVertexWrites s1 "g" "b"), .openGet, .get]).out = [] := by
  refine ⟨?_, ?_, ?_⟩ <;> with_unfolding_all decide

/-- the executable entry point on the witness scenario: old defect scenario, repaired paths -/
example :
    runScenario level [] "g" "outE" ["a"] [] [.v va, .v vb, .e e1] [.open, .delEdge "e1", .drain] = [] ∧
    runScenario bolt [] "g" "outE" ["a"] [] [.v va, .v vb, .e e1] [.open, .delEdge "e1", .drain]
      = [.edge "e1" "knows" "a" "b" (.obj [("w", .num 1024)])] ∧
    runScenario level [] "g" "out" ["a"] [] [.v va, .v vb, .e e1] [.open, .delVertex "b", .add [.v vb2], .drain]
      = [.vertex "b" "Q" (.obj [("n", .num 1024)])] := by
  refine ⟨?_, ?_, ?_⟩ <;> with_unfolding_all decide

end GripProofs.C17Read
