import Grip.Model.C18
import Grip.Spec.C18
import GripProofs.Lemmas.C18
import GripProofs.Lemmas.C18Batch

/-!
  C18 — bulk loading equals loading the same elements one by one.  Property theorems only.

  MODEL: `Grip.C18.bulkAdd` / `bulkAddAuth` (server.BulkAdd behind accounts.BulkWriteFilter, over
  C03's model of kvgraph), `sbRun` / `vertexCalls` / `edgeCalls` (util.StreamBatch).
  SPEC: `Grip.C18.Spec` — per-item verdict, `accepted`, `errors`, `sequential` (fold of single adds).
  All statements are for every start state, every stream (any length, any mix of valid and invalid
  elements, repeated ids, any interleaving of target graphs, existing or not) and every batch size.
-/
namespace Grip.Props.C18
open Grip.C03 Grip.C18 Grip.C18.Spec Grip.Props.C18.Lemmas

/-- **Bulk = sequential.**  After `server.BulkAdd` the stored keys and the index fields are exactly
    those reached by adding the accepted elements one at a time, in stream order, through the
    single-element API — whatever the interleaving of target graphs. -/
theorem bulk_eq_sequential (s : KState) (stream : List Item) :
    core (bulkAdd s stream).st = core (sequential s (accepted (hasGraph s) stream)) := by
  have h := foldl_recv_sim stream { st := s } (by intro g h; simp at h) (by intro _; rfl)
  simp only at h
  obtain ⟨h1, _, _, _, _⟩ := h
  show settled (stream.foldl recv { st := s }) = _
  rw [h1, foldl_stepC, core_sequential]
  congr 1

/-- **Counts are exact**: the reported insert count is the number of accepted (valid, resolvable)
    elements; the error count is the number of elements with verdict `error` (invalid, addressed to
    a graph that cannot be resolved, or addressed to a schema graph). -/
theorem counts_exact (s : KState) (stream : List Item) :
    (bulkAdd s stream).insertCount = (accepted (hasGraph s) stream).length ∧
    (bulkAdd s stream).errorCount = errors (hasGraph s) stream := by
  have h := foldl_recv_sim stream { st := s } (by intro g h; simp at h) (by intro _; rfl)
  simp only at h
  obtain ⟨_, _, _, h4, h5⟩ := h
  constructor
  · show (flush (stream.foldl recv { st := s })).ins = _
    rw [flush_ins, h4, sum_insDelta]; simp
  · show (flush (stream.foldl recv { st := s })).err = _
    rw [flush_err, h5, sum_errDelta]; simp

/-- Everything the caller observes, with the write filter in front: MODEL = SPEC. -/
theorem bulk_meets_expected (allowed : String → Bool) (s : KState) (stream : List Item) :
    let m := bulkAddAuth allowed s stream
    let e := expected allowed s stream
    core m.st = core e.st ∧ m.insertCount = e.insertCount ∧ m.errorCount = e.errorCount := by
  simp only [bulkAddAuth, authFilter, expected]
  exact ⟨bulk_eq_sequential s _, (counts_exact s _).1, (counts_exact s _).2⟩

/-- every accepted element is valid, addressed to an existing non-schema graph -/
theorem accepted_sound (ex : String → Bool) (stream : List Item) :
    ∀ p ∈ accepted ex stream, elemValid p.2 = true ∧ ex p.1 = true ∧ isSchema p.1 = false ∧
      ∃ it ∈ stream, it.g = p.1 := by
  intro p hp
  simp only [accepted, List.mem_filterMap] at hp
  obtain ⟨it, hit, h⟩ := hp
  unfold verdict at h
  by_cases hs : isSchema it.g = true
  · simp [hs] at h
  · by_cases he : ex it.g = true
    · cases hx : it.x with
      | none => simp [hs, he, hx] at h
      | some x =>
        by_cases hv : elemValid (fillId it.uuid x) = true
        · simp [hs, he, hx, hv] at h
          subst h
          exact ⟨hv, he, by simpa using hs, it, hit, rfl⟩
        · simp [hs, he, hx, hv] at h
    · simp [hs, he] at h

/-- **Invalid elements are independent of the others**: dropping every element that is not
    accepted (invalid, unreachable graph, schema graph, empty) changes neither the resulting state
    nor the insert count; the error count of the full stream is exactly the number of rejected
    elements, and the reduced stream reports none. -/
theorem invalid_independent (s : KState) (stream : List Item) :
    let good := stream.filter (isStored (hasGraph s))
    core (bulkAdd s stream).st = core (bulkAdd s good).st ∧
    (bulkAdd s stream).insertCount = (bulkAdd s good).insertCount ∧
    (bulkAdd s good).errorCount = 0 := by
  intro good
  have hacc : accepted (hasGraph s) good = accepted (hasGraph s) stream := by
    simp only [good, accepted, List.filterMap_filter]
    congr 1; funext it
    cases hv : verdict (hasGraph s) it <;> simp [isStored, hv]
  have herr : errors (hasGraph s) good = 0 := by
    simp only [good, errors, List.countP_eq_zero, List.mem_filter]
    intro it ⟨_, h⟩ hv
    have hv' : verdict (hasGraph s) it = .error := by simpa using hv
    simp [isStored, hv'] at h
  refine ⟨?_, ?_, ?_⟩
  · rw [bulk_eq_sequential, bulk_eq_sequential, hacc]
  · rw [(counts_exact s stream).1, (counts_exact s good).1, hacc]
  · rw [(counts_exact s good).2, herr]

/-- inserting an invalid element anywhere in a stream changes nothing but the error count -/
theorem invalid_element_skipped (s : KState) (pre post : List Item) (bad : Item)
    (hb : verdict (hasGraph s) bad = .error) :
    core (bulkAdd s (pre ++ bad :: post)).st = core (bulkAdd s (pre ++ post)).st ∧
    (bulkAdd s (pre ++ bad :: post)).insertCount = (bulkAdd s (pre ++ post)).insertCount ∧
    (bulkAdd s (pre ++ bad :: post)).errorCount = (bulkAdd s (pre ++ post)).errorCount + 1 := by
  have hacc : accepted (hasGraph s) (pre ++ bad :: post) = accepted (hasGraph s) (pre ++ post) := by
    simp [accepted, List.filterMap_append, hb]
  refine ⟨?_, ?_, ?_⟩
  · rw [bulk_eq_sequential, bulk_eq_sequential, hacc]
  · rw [(counts_exact s _).1, (counts_exact s _).1, hacc]
  · rw [(counts_exact s _).2, (counts_exact s _).2]
    simp [errors, List.countP_append, List.countP_cons, hb]; omega

/-- a single add never writes a data key of another graph -/
theorem addOne_other_graph (s : KState) (p : String × ElemIn) (k : SKey) (g : String)
    (hk : keyGraph k = some g) (hg : p.1 ≠ g) : (addOne s p).kv.get k = s.kv.get k := by
  obtain ⟨g0, x⟩ := p
  have hc := core_addOne s (g0, x)
  have : (addOne s (g0, x)).kv = (addOneC (core s) (g0, x)).1 := by rw [← hc]; rfl
  rw [this]
  simp only [addOneC, addC, core]
  by_cases hh : s.kv.has (.graph g0) = true
  · simp only [hh, if_true]
    rw [insertAll_single]
    have hne : g0 ≠ g := hg
    cases x with
    | v x =>
      simp only [insertElem, insertVertex]
      split
      · rfl
      · unfold addDoc
        cases k <;> simp [keyGraph] at hk <;> subst hk <;>
          (split <;> simp [get_set_ne, hne])
    | e x =>
      simp only [insertElem, insertEdge]
      split
      · rfl
      · unfold addDoc
        cases k <;> simp [keyGraph] at hk <;> subst hk <;>
          (split <;> simp [get_set_ne, hne])
  · simp only [hh]; rfl

theorem sequential_other_graph (k : SKey) (g : String) (hk : keyGraph k = some g)
    (ps : List (String × ElemIn)) (hall : ∀ p ∈ ps, p.1 ≠ g) :
    ∀ s : KState, (sequential s ps).kv.get k = s.kv.get k := by
  induction ps with
  | nil => intro s; rfl
  | cons p ps ih =>
    intro s
    simp only [sequential, List.foldl_cons]
    have := ih (fun q hq => hall q (List.mem_cons_of_mem _ hq)) (addOne s p)
    simp only [sequential] at this
    rw [this, addOne_other_graph s p k g hk (hall p (List.mem_cons_self ..))]

/-- **Unauthorised elements are not stored**: behind the write filter nothing addressed to a
    graph the caller may not write is accepted, and no vertex, edge or adjacency key of such a
    graph changes — while the permitted elements are treated exactly as if the refused ones had
    never been sent (`bulkAddAuth` on the stream = `bulkAdd` on the permitted sub-stream, which by
    `bulk_eq_sequential` is the sequential fold of its accepted elements). -/
theorem unauthorised_not_stored (allowed : String → Bool) (s : KState) (stream : List Item) :
    (∀ p ∈ accepted (hasGraph s) (authFilter allowed stream), allowed p.1 = true) ∧
    (∀ k g, keyGraph k = some g → allowed g = false →
        (bulkAddAuth allowed s stream).st.kv.get k = s.kv.get k) := by
  have hall : ∀ p ∈ accepted (hasGraph s) (authFilter allowed stream), allowed p.1 = true := by
    intro p hp
    obtain ⟨_, _, _, it, hit, hg⟩ := accepted_sound _ _ p hp
    simp only [authFilter, List.mem_filter] at hit
    rw [← hg]; exact hit.2
  refine ⟨hall, ?_⟩
  intro k g hk hd
  have hcore := bulk_eq_sequential s (authFilter allowed stream)
  have hkv : (bulkAddAuth allowed s stream).st.kv =
      (sequential s (accepted (hasGraph s) (authFilter allowed stream))).kv := by
    have := congrArg Prod.fst hcore; exact this
  rw [hkv]
  apply sequential_other_graph k g hk
  intro p hp e
  have := hall p hp
  rw [e, hd] at this
  exact Bool.noConfusion this

/-! ### util.StreamBatch -/

/-- **Batches flatten**: for every batch size (0 included, which behaves as 1) the batches handed
    to `vertexAdd` concatenate to the validated vertices of the channel in order, none is empty and
    none is longer than `max k 1`. -/
theorem batches_flatten (k : Nat) (graph : String) (xs : List GElem) :
    (vertexCalls k graph xs).flatten = sbVertices graph xs ∧
    (edgeCalls k graph xs).flatten = sbEdges graph xs ∧
    (∀ b ∈ vertexCalls k graph xs, 0 < b.length ∧ b.length ≤ max k 1) ∧
    (∀ b ∈ edgeCalls k graph xs, 0 < b.length ∧ b.length ≤ max k 1) :=
  Lemmas.batches_flatten k graph xs

/-- hence the sequence of elements loaded does not depend on the batch size -/
theorem batch_size_irrelevant (k k' : Nat) (graph : String) (xs : List GElem) :
    (vertexCalls k graph xs).flatten = (vertexCalls k' graph xs).flatten ∧
    (edgeCalls k graph xs).flatten = (edgeCalls k' graph xs).flatten := by
  rw [(batches_flatten k graph xs).1, (batches_flatten k' graph xs).1,
      (batches_flatten k graph xs).2.1, (batches_flatten k' graph xs).2.1]
  exact ⟨rfl, rfl⟩

/-- A batch add is the fold of single adds (C03's `insertAll` under append), so loading the
    batches one call after the other reaches the same stored keys as loading their concatenation
    element by element — for every split into batches. -/
theorem batched_load_eq_sequential (s : KState) (g : String) (batches : List (List ElemIn)) :
    core (batches.foldl (fun s b => (step s (.bulk g b)).1) s) =
    core (sequential s (batches.flatten.map fun x => (g, x))) :=
  Lemmas.batched_load_eq_sequential s g batches

/-- StreamBatch's "edge validation" is the vertex validation (gdbi.Edge = gdbi.Vertex); on edges
    that passed gripql.Edge.Validate — all that server.BulkAdd forwards — it rejects nothing. -/
theorem streamBatch_edges_of_valid (graph : String) (xs : List GElem)
    (h : ∀ el ∈ xs, el.g = graph ∧ el.v = none ∧ ∃ e, el.e = some e ∧ validEdge e = true) :
    sbEdges graph xs = xs.filterMap (·.e) :=
  Lemmas.sbEdges_of_valid graph xs h

/-! ### non-vacuity -/

/-- the hypothesis of `invalid_element_skipped` is satisfiable: an element of a graph that does not exist -/
example (g : String) (h : isSchema g = false) (s : KState) (hg : hasGraph s g = false) :
    verdict (hasGraph s) ⟨g, none, ""⟩ = .error := by simp [verdict, h, hg]

/-- StreamBatch with k = 2 on three valid vertices: two calls, [a, b] and [c] -/
example : vertexCalls 2 "g" [⟨"g", some ⟨"a", "L", .obj []⟩, none, ""⟩, ⟨"g", some ⟨"b", "L", .obj []⟩, none, ""⟩,
    ⟨"g", some ⟨"c", "L", .obj []⟩, none, ""⟩] =
    [[⟨"a", "L", .obj []⟩, ⟨"b", "L", .obj []⟩], [⟨"c", "L", .obj []⟩]] := by decide

end Grip.Props.C18
