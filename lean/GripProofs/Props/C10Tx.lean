/-
  Props.C10Tx — what a view inside an update transaction sees (property C10, transactional part).

  The C10 model hands a `view` step inside `Update` the transaction's contents AT THAT MOMENT.
  `Grip.Model.C10Tx` makes that an explicit parameter — the iterator policy — and this file proves,
  for every sorted base map and every step list (no bounds):

   (0) `fresh_is_model`            the policy `fresh` IS the model `txSteps` / `runUpdate`;
   (1) `view_eq_view_of_committed` a view after the steps `ss` observes exactly what the same view
       observes on the store that `Update` would leave if the callback returned now;
       `view_sees_own_writes`, `view_sees_own_deletes`, `view_sees_last_write`;
   (2) `get_agrees_with_view`      a point read and a seek agree at every moment;
   (3) `shared_snapshot_is_stale`  under `sharedSnapshot` a view misses writes a point read sees
       (witness), and `shared_snapshot_view_eq_iff`: the stale view is right exactly when the writes
       since the first view leave the scanned range unchanged;
   (4) `policies_agree_iff`        when the two policies cannot be told apart;
       `single_view_transactions_agree`;
   (5) `failed_update_views_still_saw_writes`.

  What the code does (read, not proved): all four adapters create the engine iterator per `View`
  call on the transaction, after the writes that precede it — Badger badger_store.go:199-204 with
  :224-237, Bolt bolt_store.go:169-173, LevelDB level_store.go:140-145, Pebble
  pebble_store.go:135-141 — i.e. `fresh`.  No statement below is false of the model, and no
  driver's transaction `View` was found to miss pending writes in the tree as it is.
-/
import Grip.Model.SMap
import Grip.Model.C10
import Grip.Model.C10Tx
import Grip.Spec.C10
import GripProofs.Lemmas.C10Order
import GripProofs.Lemmas.C10Map
import GripProofs.Lemmas.C10Iter
import GripProofs.Lemmas.C10Tx
import GripProofs.Props.C10

namespace Grip.Props.C10
open Grip Grip.Bytes Grip.SMap Grip.Spec.C10 Grip.C10

/-! ## (0) `fresh` is the model -/

/-- Running a callback under the policy `fresh` is the model's `txSteps`. -/
theorem fresh_is_model : txStepsP .fresh = txSteps := by
  funext t ss
  simp only [txStepsP, Lemmas.txStepsPS_fresh]

/-- …hence `Update` under `fresh` is the model's `runUpdate`. -/
theorem runUpdate_fresh_is_model : runUpdateP .fresh = runUpdate := by
  funext m ss fail
  simp only [runUpdateP, runUpdate, fresh_is_model]

/-- The policy changes what views observe, never what is written. -/
theorem policy_same_writes (pol : IterPolicy) (t : Tx) (ss : List TxStep) :
    (txStepsP pol t ss).1 = Tx.writes t (writesOf ss) :=
  Lemmas.txStepsPS_tx pol ss { tx := t }

theorem policy_same_outcome (pol : IterPolicy) (m : List KV) (ss : List TxStep) (fail : Bool) :
    (runUpdateP pol m ss fail).1 = (runUpdate m ss fail).1 := by
  simp only [runUpdateP, runUpdate, policy_same_writes, Lemmas.txSteps_tx]

/-- test: the two runs coincide on a transaction that writes between two views. -/
example :
    txStepsP .fresh { base := [([97], [1])] }
        [.view [.scan []], .set [98] [2], .view [.scan []], .get [98]]
      = txSteps { base := [([97], [1])] }
        [.view [.scan []], .set [98] [2], .view [.scan []], .get [98]] := by decide

/-! ## (1) A view inside a transaction reads the map that would exist if it committed now -/

/-- General form, any starting overlay: under `fresh` the view step after `ss` observes the given
    iterator calls on `contentsAfter t ss = (Tx.writes t (writesOf ss)).commit`. -/
theorem view_eq_view_of_committed_tx (t : Tx) (ss : List TxStep) (a : List ItStep) :
    (txStepsP .fresh t (ss ++ [.view a])).2 =
      (txStepsP .fresh t ss).2 ++ [.view (viewObs (Tx.writes t (writesOf ss)).commit a)] := by
  rw [Lemmas.fresh_obs_append]
  rfl

/-- `view_eq_view_of_committed`: inside `Update` on the store `m`, a view step after the steps `ss`
    observes exactly what the same view observes on the COMMITTED map
    `(Tx.writes {base := m} (writesOf ss)).commit` — which is the store `Update` leaves when the
    callback returns at that point, and on which the top-level `View` gives the same answer. -/
theorem view_eq_view_of_committed (m : List KV) (ss : List TxStep) (a : List ItStep) :
    (txStepsP .fresh { base := m } (ss ++ [.view a])).2 =
        (txStepsP .fresh { base := m } ss).2 ++
          [.view (viewObs (Tx.writes { base := m } (writesOf ss)).commit a)]
    ∧ (Tx.writes { base := m } (writesOf ss)).commit = (runUpdate m ss false).1
    ∧ (Tx.writes { base := m } (writesOf ss)).commit = applyWrites m (writesOf ss)
    ∧ (C10.step (runUpdate m ss false).1 (.view a)).2 =
        .view (viewObs (Tx.writes { base := m } (writesOf ss)).commit a) := by
  have h2 : (Tx.writes { base := m } (writesOf ss)).commit = (runUpdate m ss false).1 := by
    simp only [runUpdate, Bool.false_eq_true, if_false, Lemmas.txSteps_tx]
  refine ⟨view_eq_view_of_committed_tx _ ss a, h2, commit_eq_seq m _, ?_⟩
  rw [← h2]
  rfl

/-- test: after `set b`, `del a` the view lists `b` and not `a`, as the committed store does. -/
example :
    (txStepsP .fresh { base := [([97], [1])] } ([.set [98] [2], .del [97]] ++ [.view [.scan []]])).2
      = [.err false, .err false, .view [.kvs [([98], [2])]]]
    ∧ (runUpdate [([97], [1])] [.set [98] [2], .del [97]] false).1 = [([98], [2])] := by decide

/-- What a prefix scan inside a transaction lists, key by key: `(k, v)` is listed exactly when `k`
    has the prefix and the LAST write of the transaction to `k` set it to `v`, or there is no write
    to `k` and the store holds `v`. -/
theorem view_sees_last_write {m : List KV} (hs : Sorted m) (ss : List TxStep) (p k v : Bytes) :
    (txStepsP .fresh { base := m } (ss ++ [.view [.scan p]])).2 =
        (txStepsP .fresh { base := m } ss).2 ++
          [.view [.kvs (withPrefix (contentsAfter { base := m } ss) p)]]
    ∧ ((k, v) ∈ withPrefix (contentsAfter { base := m } ss) p ↔
        hasPrefix k p = true ∧
          (match lastWrite (writesOf ss) k with
            | some w => w = some v
            | none => SMap.get m k = some v)) := by
  have hsorted : Sorted (contentsAfter { base := m } ss) :=
    Lemmas.contentsAfter_sorted (t := { base := m }) hs ss
  refine ⟨?_, ?_⟩
  · rw [view_eq_view_of_committed_tx]
    show _ ++ [TxObs.view (viewObs (contentsAfter { base := m } ss) [.scan p])] = _
    rw [Lemmas.viewObs_scan hsorted]
  · rw [Lemmas.mem_withPrefix, ← get_iff_mem hsorted, Lemmas.contentsAfter_eq_applyWrites,
      Lemmas.get_applyWrites, Lemmas.commit_base]
    constructor
    · rintro ⟨h1, h2⟩
      exact ⟨h2, by cases h : lastWrite (writesOf ss) k <;> simpa [h] using h1⟩
    · rintro ⟨h1, h2⟩
      exact ⟨by cases h : lastWrite (writesOf ss) k <;> simpa [h] using h2, h1⟩

/-- `view_sees_own_writes`: after any steps, `set k v`, and further steps that do not write `k`, a
    scan of a prefix of `k` lists `(k, v)` — and lists `k` with no other value. -/
theorem view_sees_own_writes {m : List KV} (hs : Sorted m) (pre mid : List TxStep) (k v p : Bytes)
    (hp : hasPrefix k p = true) (hmid : ∀ w ∈ writesOf mid, wkey w ≠ k) :
    ∃ l, (txStepsP .fresh { base := m } (pre ++ .set k v :: mid ++ [.view [.scan p]])).2 =
          (txStepsP .fresh { base := m } (pre ++ .set k v :: mid)).2 ++ [.view [.kvs l]]
      ∧ (k, v) ∈ l ∧ ∀ v', (k, v') ∈ l → v' = v := by
  have hlw : lastWrite (writesOf (pre ++ .set k v :: mid)) k = some (some v) := by
    rw [Lemmas.writesOf_append]
    show lastWrite (writesOf pre ++ (Write.set k v :: writesOf mid)) k = _
    rw [Lemmas.lastWrite_append]
    simp [lastWrite, Lemmas.lastWrite_none_of_untouched _ _ hmid, wkey, wval]
  refine ⟨_, (view_sees_last_write hs _ p k v).1, ?_, ?_⟩
  · rw [(view_sees_last_write hs _ p k v).2, hlw]
    exact ⟨hp, rfl⟩
  · intro v' h
    rw [(view_sees_last_write hs _ p k v').2, hlw] at h
    simpa using h.2.symm

/-- Dually: after `del k` and further steps that do not write `k`, no scan lists `k`. -/
theorem view_sees_own_deletes {m : List KV} (hs : Sorted m) (pre mid : List TxStep) (k p : Bytes)
    (hmid : ∀ w ∈ writesOf mid, wkey w ≠ k) :
    ∃ l, (txStepsP .fresh { base := m } (pre ++ .del k :: mid ++ [.view [.scan p]])).2 =
          (txStepsP .fresh { base := m } (pre ++ .del k :: mid)).2 ++ [.view [.kvs l]]
      ∧ ∀ v', (k, v') ∉ l := by
  have hlw : lastWrite (writesOf (pre ++ .del k :: mid)) k = some none := by
    rw [Lemmas.writesOf_append]
    show lastWrite (writesOf pre ++ (Write.del k :: writesOf mid)) k = _
    rw [Lemmas.lastWrite_append]
    simp [lastWrite, Lemmas.lastWrite_none_of_untouched _ _ hmid, wkey, wval]
  refine ⟨_, (view_sees_last_write hs _ p k []).1, ?_⟩
  intro v' h
  rw [(view_sees_last_write hs _ p k v').2, hlw] at h
  simp at h

/-- test (hypotheses of `view_sees_own_writes` / `view_sees_own_deletes` on a non-trivial instance:
    an overwrite of a stored key, an unrelated write in between). -/
example :
    Sorted [([97, 49], [1]), ([98], [3])]
    ∧ hasPrefix [97, 49] [97] = true
    ∧ (∀ w ∈ writesOf [TxStep.set [98] [4], .get [97, 49]], wkey w ≠ [97, 49])
    ∧ (txStepsP .fresh { base := [([97, 49], [1]), ([98], [3])] }
        ([.get [98]] ++ .set [97, 49] [9] :: [.set [98] [4], .get [97, 49]] ++ [.view [.scan [97]]])).2
        = [.got (some [3]), .err false, .err false, .got (some [9]), .view [.kvs [([97, 49], [9])]]]
    ∧ (txStepsP .fresh { base := [([97, 49], [1]), ([98], [3])] }
        ([.get [98]] ++ .del [97, 49] :: [.set [98] [4], .get [97, 49]] ++ [.view [.scan [97]]])).2
        = [.got (some [3]), .err false, .err false, .got none, .view [.kvs []]] := by
  refine ⟨by unfold Sorted; decide, by decide, by decide, by decide, by decide⟩

/-! ## (2) Point reads and views agree at every moment -/

/-- `get_agrees_with_view`: after any steps `ss`, the transaction's `Get(k)` answers `v` exactly
    when a view opened at that moment lands on `(k, v)` with `Seek(k)`; and `HasKey(k)` answers
    true exactly when that seek lands on the key `k`. -/
theorem get_agrees_with_view {m : List KV} (hs : Sorted m) (ss : List TxStep) (k : Bytes) :
    ∃ g h c, (txStepsP .fresh { base := m } (ss ++ [.get k, .has k, .view [.seek k]])).2 =
          (txStepsP .fresh { base := m } ss).2 ++ [.got g, .has h, .view [.pos c]]
      ∧ (∀ v, g = some v ↔ c = some (k, v))
      ∧ (h = true ↔ c.map (·.1) = some k) := by
  have hsorted : Sorted (contentsAfter { base := m } ss) :=
    Lemmas.contentsAfter_sorted (t := { base := m }) hs ss
  refine ⟨(Tx.writes { base := m } (writesOf ss)).get k, (Tx.writes { base := m } (writesOf ss)).has k,
    Iter.firstGE (contentsAfter { base := m } ss) k, ?_, ?_, ?_⟩
  · rw [Lemmas.fresh_obs_append]
    rfl
  · intro v
    rw [Lemmas.tx_get_eq_get_commit]
    exact Lemmas.get_eq_some_iff_firstGE hsorted k v
  · unfold Tx.has
    rw [Lemmas.tx_get_eq_get_commit]
    exact Lemmas.get_isSome_iff_firstGE_key hsorted k

/-- The same at the level of one transaction state, whatever state the iterator is in. -/
theorem tx_get_iff_seek {t : Tx} (hs : Sorted t.base) (it : Iter) (k v : Bytes) :
    t.get k = some v ↔ (Iter.seek t.view it k).cur = some (k, v) := by
  rw [Lemmas.tx_get_eq_get_commit]
  exact Lemmas.get_eq_some_iff_firstGE (Lemmas.flush_sorted t.pend hs) k v

/-- test: a written key, a deleted key and an absent key between two stored ones. -/
example :
    Sorted [([97], [1]), ([99], [3])]
    ∧ (txStepsP .fresh { base := [([97], [1]), ([99], [3])] }
        ([.set [98] [2], .del [97]] ++ [.get [98], .has [98], .view [.seek [98]]])).2
        = [.err false, .err false] ++ [.got (some [2]), .has true, .view [.pos (some ([98], [2]))]]
    ∧ (txStepsP .fresh { base := [([97], [1]), ([99], [3])] }
        ([.set [98] [2], .del [97]] ++ [.get [97], .has [97], .view [.seek [97]]])).2
        = [.err false, .err false] ++ [.got none, .has false, .view [.pos (some ([98], [2]))]] := by
  refine ⟨by unfold Sorted; decide, by decide, by decide⟩

/-- The hypothesis `Sorted m` of (2) is needed (the model requires it of every store): on an
    unsorted list a point read finds a key the seek has passed over. -/
example :
    SMap.get [([98], [2]), ([97], [1])] [97] = some [1]
    ∧ (Iter.seek [([98], [2]), ([97], [1])] {} [97]).cur = some ([98], [2]) := by decide

/-! ## (3) The regression: one iterator shared by all views of a transaction -/

/-- The store and the callback of the witness: `a1` is stored; the callback scans `a`, sets `a2`,
    deletes `a1`, and scans `a` again. -/
def staleBase : List KV := [([97, 49], [1])]
def staleSteps : List TxStep := [.view [.scan [97]], .set [97, 50] [2], .del [97, 49]]

/-- `shared_snapshot_is_stale`: under `sharedSnapshot`, at one and the same moment the point reads
    see `a2` written and `a1` gone while the view still lists `a1` and not `a2`; under `fresh` the
    view lists what the point reads see.  Both runs commit the same store. -/
theorem shared_snapshot_is_stale :
    Sorted staleBase
    ∧ (txStepsP .sharedSnapshot { base := staleBase }
        (staleSteps ++ [.get [97, 50], .get [97, 49], .view [.scan [97]]])).2
        = (txStepsP .sharedSnapshot { base := staleBase } staleSteps).2
            ++ [.got (some [2]), .got none, .view [.kvs [([97, 49], [1])]]]
    ∧ (txStepsP .fresh { base := staleBase }
        (staleSteps ++ [.get [97, 50], .get [97, 49], .view [.scan [97]]])).2
        = (txStepsP .fresh { base := staleBase } staleSteps).2
            ++ [.got (some [2]), .got none, .view [.kvs [([97, 50], [2])]]]
    ∧ (runUpdateP .sharedSnapshot staleBase (staleSteps ++ [.view [.scan [97]]]) false).1
        = [([97, 50], [2])] := by
  refine ⟨by unfold staleBase Sorted; decide, by decide, by decide, by decide⟩

/-- In words of the statement: there are a sorted store, steps, a key and a value such that the
    point read returns the value and the view at the same moment does not list the key. -/
theorem shared_snapshot_misses_a_write :
    ∃ (m : List KV) (ss : List TxStep) (k v : Bytes) (l : List KV), Sorted m
      ∧ (txStepsP .sharedSnapshot { base := m } (ss ++ [.get k, .view [.scan []]])).2
          = (txStepsP .sharedSnapshot { base := m } ss).2 ++ [.got (some v), .view [.kvs l]]
      ∧ ∀ v', (k, v') ∉ l :=
  ⟨staleBase, staleSteps, [97, 50], [2], [([97, 49], [1])],
    by unfold staleBase Sorted; decide, by decide,
    by
      intro v' h
      simp only [List.mem_singleton, Prod.mk.injEq] at h
      exact absurd h.1 (by decide)⟩

/-- Under either policy the point reads go to the transaction: after any steps `ss`, `Get(k)` and
    `HasKey(k)` answer from the CURRENT contents (the writes of `ss` applied in order) — so under
    `sharedSnapshot` it is the views that are stale, not the reads. -/
theorem point_reads_current (pol : IterPolicy) (m : List KV) (ss : List TxStep) (k : Bytes) :
    (txStepsP pol { base := m } (ss ++ [.get k, .has k])).2 =
      (txStepsP pol { base := m } ss).2 ++
        [.got (SMap.get (applyWrites m (writesOf ss)) k), .has (SMap.has (applyWrites m (writesOf ss)) k)] := by
  simp only [txStepsP, Lemmas.txStepsPS_append, txStepsPS, txStepP, Lemmas.txStepsPS_tx, Tx.has,
    SMap.has, tx_get_eq_seq]

/-- `shared_snapshot_view_eq_iff`.  A transaction whose first view comes after `pre`; later, after
    `mid`, a view scans the prefix `p`.  Under `sharedSnapshot` that scan lists the entries with
    prefix `p` of the contents AT THE FIRST VIEW; under `fresh` those of the contents NOW; and the
    two lists are equal exactly when the writes of `mid` leave the range unchanged: every key with
    prefix `p` is either not written in `mid`, or the LAST write to it in `mid` puts back what the
    contents at the first view hold (`set` to the same value, `del` of a key that was absent).
    "No write of `mid` touches the range" is sufficient (`shared_snapshot_view_eq_of_untouched`),
    not necessary (test below). -/
theorem shared_snapshot_view_eq_iff {t : Tx} (hs : Sorted t.base) (pre mid : List TxStep)
    (a : List ItStep) (p : Bytes) (hpre : NoView pre) :
    (txStepsP .sharedSnapshot t ((pre ++ .view a :: mid) ++ [.view [.scan p]])).2 =
        (txStepsP .sharedSnapshot t (pre ++ .view a :: mid)).2 ++
          [.view [.kvs (withPrefix (contentsAfter t pre) p)]]
    ∧ (txStepsP .fresh t ((pre ++ .view a :: mid) ++ [.view [.scan p]])).2 =
        (txStepsP .fresh t (pre ++ .view a :: mid)).2 ++
          [.view [.kvs (withPrefix (contentsAfter t (pre ++ .view a :: mid)) p)]]
    ∧ (withPrefix (contentsAfter t pre) p = withPrefix (contentsAfter t (pre ++ .view a :: mid)) p ↔
        RangeUnchanged (contentsAfter t pre) (writesOf mid) (.scan p)) := by
  have h1 : Sorted (contentsAfter t pre) := Lemmas.contentsAfter_sorted hs pre
  have h2 : Sorted (contentsAfter t (pre ++ .view a :: mid)) := Lemmas.contentsAfter_sorted hs _
  refine ⟨?_, ?_, ?_⟩
  · rw [Lemmas.shared_obs_append t pre a mid _ hpre]
    show _ ++ [TxObs.view (viewObs (contentsAfter t pre) [.scan p])] = _
    rw [Lemmas.viewObs_scan h1]
  · rw [view_eq_view_of_committed_tx]
    show _ ++ [TxObs.view (viewObs (contentsAfter t (pre ++ .view a :: mid)) [.scan p])] = _
    rw [Lemmas.viewObs_scan h2]
  · unfold withPrefix
    rw [Lemmas.filter_key_eq_iff (fun x => hasPrefix x p) h1 h2]
    unfold RangeUnchanged
    rw [Lemmas.contentsAfter_append, Lemmas.writesOf_cons_view]
    constructor
    · intro h k hk
      exact (Lemmas.get_applyWrites_eq_iff _ _ k).mp (h k hk)
    · intro h k hk
      exact (Lemmas.get_applyWrites_eq_iff _ _ k).mpr (h k hk)

/-- The sufficient condition in the words of the task: if no write between the two views has a key
    with the scanned prefix, the shared iterator still shows the right entries. -/
theorem shared_snapshot_view_eq_of_untouched {t : Tx} (hs : Sorted t.base) (pre mid : List TxStep)
    (a : List ItStep) (p : Bytes) (_hpre : NoView pre)
    (hmid : ∀ w ∈ writesOf mid, hasPrefix (wkey w) p = false) :
    withPrefix (contentsAfter t pre) p = withPrefix (contentsAfter t (pre ++ .view a :: mid)) p := by
  rw [(shared_snapshot_view_eq_iff hs pre mid a p _hpre).2.2]
  intro k hk w hw
  have : lastWrite (writesOf mid) k = none := by
    apply Lemmas.lastWrite_none_of_untouched
    intro x hx e
    have := hmid x hx
    rw [e] at this
    simp only [inRange] at hk
    rw [hk] at this
    cases this
  rw [this] at hw
  cases hw

/-- test: the hypotheses of `shared_snapshot_view_eq_iff` hold on the witness (the range IS changed:
    `a2` is written), and on a transaction that touches the range without changing it (sets `a1` to
    the value it has, sets and deletes the absent `a3`): there the shared iterator is still right. -/
example :
    NoView ([] : List TxStep)
    ∧ ¬ RangeUnchanged (contentsAfter { base := staleBase } [])
          (writesOf [TxStep.set [97, 50] [2], .del [97, 49]]) (.scan [97])
    ∧ RangeUnchanged (contentsAfter { base := staleBase } [])
          (writesOf [TxStep.set [97, 49] [1], .set [97, 51] [7], .del [97, 51]]) (.scan [97])
    ∧ (txStepsP .sharedSnapshot { base := staleBase }
          [.view [.scan [97]], .set [97, 49] [1], .set [97, 51] [7], .del [97, 51], .view [.scan [97]]]).2
        = (txStepsP .fresh { base := staleBase }
          [.view [.scan [97]], .set [97, 49] [1], .set [97, 51] [7], .del [97, 51], .view [.scan [97]]]).2 := by
  refine ⟨(by intro x hx; cases hx), ?_, ?_, by decide⟩
  · intro h
    have := h [97, 50] (by decide) (some [2]) (by decide)
    revert this
    decide
  · intro k hk w hw
    -- the written keys are a1 and a3
    by_cases h1 : k = [97, 49]
    · subst h1
      have : lastWrite (writesOf [TxStep.set [97, 49] [1], .set [97, 51] [7], .del [97, 51]]) [97, 49]
          = some (some [1]) := by decide
      rw [this] at hw
      cases hw
      decide
    · by_cases h3 : k = [97, 51]
      · subst h3
        have : lastWrite (writesOf [TxStep.set [97, 49] [1], .set [97, 51] [7], .del [97, 51]]) [97, 51]
            = some none := by decide
        rw [this] at hw
        cases hw
        decide
      · have : lastWrite (writesOf [TxStep.set [97, 49] [1], .set [97, 51] [7], .del [97, 51]]) k = none := by
          apply Lemmas.lastWrite_none_of_untouched
          intro x hx
          simp only [writesOf, List.mem_cons, List.not_mem_nil, or_false] at hx
          rcases hx with rfl | rfl | rfl
          · exact fun e => h1 e.symm
          · exact fun e => h3 e.symm
          · exact fun e => h3 e.symm
        rw [this] at hw
        cases hw

/-! ## (4) When the two policies cannot be told apart -/

/-- `policies_agree_iff`, general form (any iterator calls in the views, any starting overlay, no
    sortedness needed): the two policies give the same result for `ss` exactly when every view step
    `b` after the first view step `a` observes, on the contents as they were at `a`, what it
    observes on the contents at its own moment. -/
theorem policies_agree_iff (t : Tx) (ss : List TxStep) :
    txStepsP .sharedSnapshot t ss = txStepsP .fresh t ss ↔
      ∀ pre a mid b post, ss = pre ++ .view a :: (mid ++ .view b :: post) → NoView pre →
        viewObs (contentsAfter t pre) b = viewObs (contentsAfter t (pre ++ .view a :: mid)) b := by
  rw [← Lemmas.agreeRec_iff, ← Lemmas.shared_none_obs_eq_iff, fresh_is_model]
  constructor
  · intro h
    have := congrArg Prod.snd h
    exact this
  · intro h
    apply Prod.ext
    · show (txStepsP .sharedSnapshot t ss).1 = _
      rw [policy_same_writes, Lemmas.txSteps_tx]
    · exact h

/-- `policies_agree_iff` for the views the callers write — prefix scans and iterator point reads —
    on a sorted store, with the condition said of the WRITES: the policies agree exactly when, for
    every view step after the first and every call in it, the writes made since the first view
    leave the range of that call unchanged (each key of the range is not written since, or its
    last write since puts back the value it had at the first view). -/
theorem policies_agree_iff_ranges {t : Tx} (hs : Sorted t.base) (ss : List TxStep)
    (hr : ∀ b, TxStep.view b ∈ ss → ∀ i ∈ b, isRangeStep i = true) :
    txStepsP .sharedSnapshot t ss = txStepsP .fresh t ss ↔
      ∀ pre a mid b post, ss = pre ++ .view a :: (mid ++ .view b :: post) → NoView pre →
        ∀ i ∈ b, RangeUnchanged (contentsAfter t pre) (writesOf mid) i := by
  rw [policies_agree_iff]
  have key : ∀ pre a mid b post, ss = pre ++ .view a :: (mid ++ .view b :: post) →
      (viewObs (contentsAfter t pre) b = viewObs (contentsAfter t (pre ++ .view a :: mid)) b ↔
        ∀ i ∈ b, RangeUnchanged (contentsAfter t pre) (writesOf mid) i) := by
    intro pre a mid b post e
    have hb : ∀ i ∈ b, isRangeStep i = true := hr b (by rw [e]; simp)
    rw [Lemmas.viewObs_range_eq_iff (Lemmas.contentsAfter_sorted hs pre)
      (Lemmas.contentsAfter_sorted hs _) b hb]
    rw [Lemmas.contentsAfter_append, Lemmas.writesOf_cons_view]
    unfold RangeUnchanged
    constructor
    · intro h i hi k hk
      exact (Lemmas.get_applyWrites_eq_iff _ _ k).mp (h i hi k hk)
    · intro h i hi k hk
      exact (Lemmas.get_applyWrites_eq_iff _ _ k).mpr (h i hi k hk)
  constructor
  · intro h pre a mid b post e hpre
    exact (key pre a mid b post e).mp (h pre a mid b post e hpre)
  · intro h pre a mid b post e hpre
    exact (key pre a mid b post e).mpr (h pre a mid b post e hpre)

/-- `single_view_transactions_agree`: a transaction with at most one view step cannot tell the
    policies apart — which is why ordinary use (kvindex opens one view per term inside its update,
    and most updates touch one term) did not show the regression. -/
theorem single_view_transactions_agree (t : Tx) (ss : List TxStep) (h : viewCount ss ≤ 1) :
    txStepsP .sharedSnapshot t ss = txStepsP .fresh t ss := by
  rw [policies_agree_iff]
  intro pre a mid b post e _
  exfalso
  rw [e] at h
  simp only [viewCount, List.filter_append, List.filter_cons, isView, if_true, List.length_append,
    List.length_cons] at h
  omega

/-- Transactions whose writes all come before their first view agree as well. -/
theorem no_write_after_first_view_agree (t : Tx) (ss : List TxStep)
    (h : ∀ pre a post, ss = pre ++ .view a :: post → writesOf post = []) :
    txStepsP .sharedSnapshot t ss = txStepsP .fresh t ss := by
  rw [policies_agree_iff]
  intro pre a mid b post e _
  have := h pre a _ e
  rw [Lemmas.writesOf_append] at this
  have hm : writesOf mid = [] := (List.append_eq_nil_iff.mp this).1
  rw [Lemmas.contentsAfter_append, Lemmas.writesOf_cons_view, hm]
  rfl

/-- test: the witness has two views and a changed range (the right-hand side of
    `policies_agree_iff` fails for it, the policies differ); with its first view removed it has one
    view and the policies agree. -/
example :
    viewCount (staleSteps ++ [.view [.scan [97]]]) = 2
    ∧ txStepsP .sharedSnapshot { base := staleBase } (staleSteps ++ [.view [.scan [97]]])
        ≠ txStepsP .fresh { base := staleBase } (staleSteps ++ [.view [.scan [97]]])
    ∧ viewCount (staleSteps.drop 1 ++ [.view [.scan [97]]]) ≤ 1
    ∧ (txStepsP .sharedSnapshot { base := staleBase } (staleSteps.drop 1 ++ [.view [.scan [97]]])).2
        = [.err false, .err false, .view [.kvs [([97, 50], [2])]]] := by
  refine ⟨by decide, ?_, by decide, by decide⟩
  intro h
  have := congrArg Prod.snd h
  revert this
  decide

/-- test: `policies_agree_iff_ranges` applies to a transaction in the shape of kvindex's
    `removeDocTx` (point read, recount by prefix scan, delete the entry, next term): the second
    recount scans another prefix than the one written since the first, so the policies agree —
    and they stop agreeing when it scans the same prefix. -/
example :
    (∀ b, TxStep.view b ∈ [TxStep.get [97, 49], .view [.scan [97]], .del [97, 49], .view [.scan [98]]] →
        ∀ i ∈ b, isRangeStep i = true)
    ∧ txStepsP .sharedSnapshot { base := [([97, 49], []), ([98, 49], [])] }
          [.get [97, 49], .view [.scan [97]], .del [97, 49], .view [.scan [98]]]
        = txStepsP .fresh { base := [([97, 49], []), ([98, 49], [])] }
          [.get [97, 49], .view [.scan [97]], .del [97, 49], .view [.scan [98]]]
    ∧ (txStepsP .sharedSnapshot { base := [([97, 49], []), ([98, 49], [])] }
          [.get [97, 49], .view [.scan [97]], .del [97, 49], .view [.scan [97]]]).2
        ≠ (txStepsP .fresh { base := [([97, 49], []), ([98, 49], [])] }
          [.get [97, 49], .view [.scan [97]], .del [97, 49], .view [.scan [97]]]).2 := by
  refine ⟨?_, by decide, by decide⟩
  intro b hb i hi
  simp only [List.mem_cons, List.not_mem_nil, or_false, reduceCtorEq, false_or,
    TxStep.view.injEq] at hb
  rcases hb with rfl | rfl <;> simp at hi <;> subst hi <;> rfl

/-! ## (5) A failed callback: the views and reads inside it still saw the writes -/

/-- `failed_update_views_still_saw_writes`: the observations made inside a transaction whose
    callback fails are those made inside the same transaction when it commits — the views and the
    point reads saw the writes; only the outcome differs (the model keeps the store `m`, the
    committed run stores the writes applied in order).  True under either policy. -/
theorem failed_update_views_still_saw_writes (pol : IterPolicy) (m : List KV) (ss : List TxStep) :
    (runUpdateP pol m ss true).2 = (runUpdateP pol m ss false).2
    ∧ (runUpdateP pol m ss true).1 = m
    ∧ (runUpdateP pol m ss false).1 = applyWrites m (writesOf ss) := by
  refine ⟨rfl, rfl, ?_⟩
  rw [policy_same_outcome, update_eq_seq]

/-- The same for the model's `runUpdate`, with what a view inside the failed transaction observed
    spelled out: the writes made before it, applied to the store — a store that never exists. -/
theorem failed_update_view_saw_writes (m : List KV) (ss : List TxStep) (a : List ItStep) :
    (runUpdate m (ss ++ [.view a]) true).2 = (runUpdate m (ss ++ [.view a]) false).2
    ∧ (runUpdate m (ss ++ [.view a]) true).2 =
        (runUpdate m ss true).2 ++ [.view (viewObs (applyWrites m (writesOf ss)) a)]
    ∧ (runUpdate m (ss ++ [.view a]) true).1 = m := by
  refine ⟨rfl, ?_, rfl⟩
  have := (view_eq_view_of_committed m ss a).1
  rw [(view_eq_view_of_committed m ss a).2.2.1, fresh_is_model] at this
  exact this

/-- test: a failed update whose view saw the write, and whose store is unchanged. -/
example :
    (runUpdate [([97], [1])] [.set [98] [2], .view [.scan []], .get [98]] true)
      = ([([97], [1])],
         [.err false, .view [.kvs [([97], [1]), ([98], [2])]], .got (some [2])])
    ∧ (runUpdate [([97], [1])] [.set [98] [2], .view [.scan []], .get [98]] false).1
      = [([97], [1]), ([98], [2])] := by decide

end Grip.Props.C10
