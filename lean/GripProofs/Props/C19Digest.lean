import GripProofs.Lemmas.C19Digest
import Grip.Model.C19
import Grip.Spec.C19

/-
  C19, percentile clause: "Percentiles over numeric values are non-decreasing in p and lie between
  the minimum and maximum" — for the estimate `TDigest.Quantile` of influxdata/tdigest v0.0.1 as
  modelled in `Grip.C19.Digest` (Quantile, weightedAverage with its clamp, updateCumulative, the
  tail branch as written), for EVERY well-formed processed digest (`wf`: positive weights, sorted
  means, min ≤ first mean, last mean ≤ max).  `process()` (which centroids get merged) is outside
  the model; the correspondence run checks on every case that the digests the real code builds are
  `wf` and that the real `Quantile` agrees with the model on them.

  Remark on the tail branch: as written, `z1 := index - processedWeight - w/2` is ≤ -w/2 < 0, the
  unclamped average is ≥ max, and the clamp of `weightedAverageSorted` returns exactly `max`
  (`Lemmas.was_tail`): for every index beyond the last knot the answer is `max` (a jump, not an
  interpolation).  Monotonicity and the bounds survive; they are theorems below, not findings.
-/
namespace Grip.Props.C19
open Grip.C19 Grip.C19.Digest

/-- `Quantile` is NaN exactly when the digest is empty or `q` is outside `[0, 1]`
    (no well-formedness needed). -/
theorem quantile_defined_iff (d : Digest) (q : Rat) :
    quantile d q = none ↔ (d.cs = [] ∨ q < 0 ∨ 1 < q) := by
  unfold quantile
  constructor
  · intro h
    by_cases h1 : q < 0 ∨ q > 1 ∨ d.cs.length = 0
    · rcases h1 with h1 | h1 | h1
      · exact Or.inr (Or.inl h1)
      · exact Or.inr (Or.inr h1)
      · exact Or.inl (List.length_eq_zero_iff.1 h1)
    · exfalso
      rw [if_neg h1] at h
      simp only [] at h
      split_ifs at h
  · intro h
    rw [if_pos]
    rcases h with h | h | h
    · exact Or.inr (Or.inr (by simp [h]))
    · exact Or.inl h
    · exact Or.inr (Or.inl h)

/-- The estimate lies between the digest's minimum and maximum. -/
theorem quantile_within (d : Digest) (h : wf d = true) (q r : Rat) (hq : quantile d q = some r) :
    d.min ≤ r ∧ r ≤ d.max := by
  have hwf := Lemmas.wf_WF d h
  have hdef : ¬ (d.cs = [] ∨ q < 0 ∨ 1 < q) := by
    intro hc; rw [(quantile_defined_iff d q).2 hc] at hq; cases hq
  have h0 : 0 ≤ q := by by_contra hc; exact hdef (Or.inr (Or.inl (not_le.1 hc)))
  have h1 : q ≤ 1 := by by_contra hc; exact hdef (Or.inr (Or.inr (not_le.1 hc)))
  have hne : 0 < d.cs.length := by
    rcases Nat.eq_zero_or_pos d.cs.length with e | e
    · exact absurd (Or.inl (List.length_eq_zero_iff.1 e)) hdef
    · exact e
  by_cases hn : 2 ≤ d.cs.length
  · obtain ⟨r', e, s⟩ := Lemmas.quantile_cases d hwf hn q h0 h1
    rw [e] at hq; cases hq
    exact Lemmas.seg_bounds d hwf hn _ _ (mul_nonneg h0 (Lemmas.total_pos d.cs hwf.pos hne).le) s
  · have e1 : d.cs.length = 1 := by omega
    unfold quantile at hq
    rw [if_neg (by intro hc; rcases hc with hc | hc | hc <;> linarith), if_pos e1] at hq
    cases hq
    have a := hwf.lo hne
    have b := hwf.hi hne
    rw [e1] at b
    exact ⟨a, b⟩

/-- The estimate is non-decreasing in `q`. -/
theorem quantile_mono (d : Digest) (h : wf d = true) (q1 q2 r1 r2 : Rat) (hq : q1 ≤ q2)
    (e1 : quantile d q1 = some r1) (e2 : quantile d q2 = some r2) : r1 ≤ r2 := by
  have hwf := Lemmas.wf_WF d h
  have def1 : ¬ (d.cs = [] ∨ q1 < 0 ∨ 1 < q1) := by
    intro hc; rw [(quantile_defined_iff d q1).2 hc] at e1; cases e1
  have def2 : ¬ (d.cs = [] ∨ q2 < 0 ∨ 1 < q2) := by
    intro hc; rw [(quantile_defined_iff d q2).2 hc] at e2; cases e2
  have h10 : 0 ≤ q1 := by by_contra hc; exact def1 (Or.inr (Or.inl (not_le.1 hc)))
  have h21 : q2 ≤ 1 := by by_contra hc; exact def2 (Or.inr (Or.inr (not_le.1 hc)))
  have hne : 0 < d.cs.length := by
    rcases Nat.eq_zero_or_pos d.cs.length with e | e
    · exact absurd (Or.inl (List.length_eq_zero_iff.1 e)) def1
    · exact e
  by_cases hn : 2 ≤ d.cs.length
  · have hW := Lemmas.total_pos d.cs hwf.pos hne
    obtain ⟨r1', e1', s1⟩ := Lemmas.quantile_cases d hwf hn q1 h10 (by linarith)
    obtain ⟨r2', e2', s2⟩ := Lemmas.quantile_cases d hwf hn q2 (by linarith) h21
    rw [e1'] at e1; rw [e2'] at e2; cases e1; cases e2
    exact Lemmas.seg_mono d hwf hn _ _ _ _ (mul_nonneg h10 hW.le)
      (mul_le_mul_of_nonneg_right hq hW.le) s1 s2
  · have l1 : d.cs.length = 1 := by omega
    unfold quantile at e1 e2
    rw [if_neg (by intro hc; rcases hc with hc | hc | hc <;> linarith), if_pos l1] at e1 e2
    cases e1; cases e2; exact le_refl _

/-- `Quantile(0)` of a non-empty digest: `min` (one centroid: its mean). -/
theorem quantile_zero (d : Digest) (h : wf d = true) (hn : 2 ≤ d.cs.length) :
    quantile d 0 = some d.min := by
  have hwf := Lemmas.wf_WF d h
  have hw := Lemmas.weightAt_pos d.cs hwf.pos 0 (by omega)
  unfold quantile
  rw [if_neg (by intro hc; rcases hc with hc | hc | hc <;> linarith), if_neg (by omega)]
  simp only [zero_mul]
  rw [if_pos (by linarith)]
  simp

/-- `Quantile(1)` of a digest with at least two centroids: `max` (through the tail branch as
    written and the clamp). -/
theorem quantile_one (d : Digest) (h : wf d = true) (hn : 2 ≤ d.cs.length) :
    quantile d 1 = some d.max := by
  have hwf := Lemmas.wf_WF d h
  obtain ⟨r, e, s⟩ := Lemmas.quantile_cases d hwf hn 1 (by norm_num) (le_refl _)
  rw [e]; congr 1
  have hl := Lemmas.cumAt_last d.cs
  have hw := Lemmas.weightAt_pos d.cs hwf.pos
  cases s with
  | tail hx hr => exact hr
  | head hx hr =>
    exfalso
    have := Lemmas.cum_strictMono d.cs hwf.pos (i := 0) (j := d.cs.length) (by omega) (le_refl _)
    rw [Lemmas.cumAt_zero' d.cs (by omega)] at this
    linarith
  | mid i h1 hi hlo hhi hr =>
    exfalso
    have := Lemmas.cum_strictMono d.cs hwf.pos (i := i) (j := d.cs.length) hi (le_refl _)
    linarith

/-- one centroid: every quantile is its mean. -/
theorem quantile_single (c : Centroid) (mn mx q : Rat) (h0 : 0 ≤ q) (h1 : q ≤ 1) :
    quantile ⟨[c], mn, mx⟩ q = some c.mean := by
  unfold quantile
  rw [if_neg (by intro hc; rcases hc with hc | hc | hc <;> first | linarith | simp at hc)]
  simp [meanAt]

/-! ### the percentile clause of C19, with the digest no longer a free parameter -/

/-- the rows of the percentile aggregation when the digest is `d`: `(p, td.Quantile(p/100))` per
    requested percent, in that order (`p` scaled by 1024 as everywhere in the protocol, so the
    quantile asked is `p/1024/100`); `none` = NaN. -/
def pctRowsD (d : Digest) (percents : List Int) : List (Int × Option Rat) :=
  percents.map fun p => (p, quantile d ((p : Rat) / 102400))

/-- **Percentile clause.**  Let the field values be `vals`; the digest is fed exactly their numeric
    values (`percentile_feed` / `numeric_feed`: `Spec.numerics numOf vals`, scaled by 1024).  For
    ANY well-formed processed digest `d` whose `min`/`max` are the least / greatest fed value — the
    merging done by `process()` is not constrained otherwise — the emitted estimates are
    non-decreasing in the percent, and lie between the minimum and the maximum of the numeric
    values.  (`percentile_clause_partial` is the same statement with the digest's behaviour assumed;
    here it is derived from the code of `Quantile`.) -/
theorem percentile_clause (numOf : String → Option Int) (vals : List JV) (percents : List Int)
    (d : Digest) (h : wf d = true)
    (hmin : ∀ v ∈ Spec.numerics numOf vals, (∀ w ∈ Spec.numerics numOf vals, v ≤ w) → d.min = (v : Rat) / 1024)
    (hmax : ∀ v ∈ Spec.numerics numOf vals, (∀ w ∈ Spec.numerics numOf vals, w ≤ v) → d.max = (v : Rat) / 1024) :
    (∀ a ∈ pctRowsD d percents, ∀ b ∈ pctRowsD d percents, a.1 ≤ b.1 →
        ∀ ra rb, a.2 = some ra → b.2 = some rb → ra ≤ rb) ∧
    (∀ a ∈ pctRowsD d percents, ∀ r, a.2 = some r →
        ∀ v ∈ Spec.numerics numOf vals, (∀ w ∈ Spec.numerics numOf vals, v ≤ w) → (v : Rat) / 1024 ≤ r) ∧
    (∀ a ∈ pctRowsD d percents, ∀ r, a.2 = some r →
        ∀ v ∈ Spec.numerics numOf vals, (∀ w ∈ Spec.numerics numOf vals, w ≤ v) → r ≤ (v : Rat) / 1024) := by
  refine ⟨?_, ?_, ?_⟩
  · intro a ha b hb hab ra rb ea eb
    simp only [pctRowsD, List.mem_map] at ha hb
    obtain ⟨p1, _, rfl⟩ := ha
    obtain ⟨p2, _, rfl⟩ := hb
    have hq : (p1 : Rat) / 102400 ≤ (p2 : Rat) / 102400 :=
      div_le_div_of_nonneg_right (by exact_mod_cast hab) (by norm_num)
    exact quantile_mono d h _ _ _ _ hq ea eb
  · intro a ha r ea v hv hvmin
    simp only [pctRowsD, List.mem_map] at ha
    obtain ⟨p, _, rfl⟩ := ha
    rw [← hmin v hv hvmin]
    exact (quantile_within d h _ r ea).1
  · intro a ha r ea v hv hvmax
    simp only [pctRowsD, List.mem_map] at ha
    obtain ⟨p, _, rfl⟩ := ha
    rw [← hmax v hv hvmax]
    exact (quantile_within d h _ r ea).2

/-- an estimate is missing (NaN) exactly when nothing numeric was fed (empty digest) or the
    percent is outside `[0, 100]`. -/
theorem percentile_nan_iff (d : Digest) (percents : List Int) (a : Int × Option Rat)
    (ha : a ∈ pctRowsD d percents) : a.2 = none ↔ (d.cs = [] ∨ a.1 < 0 ∨ 102400 < a.1) := by
  simp only [pctRowsD, List.mem_map] at ha
  obtain ⟨p, _, rfl⟩ := ha
  rw [quantile_defined_iff]
  have e1 : ((p : Rat) / 102400 < 0) ↔ p < 0 := by
    rw [div_lt_iff₀ (by norm_num), zero_mul]; exact_mod_cast Iff.rfl
  have e2 : (1 < (p : Rat) / 102400) ↔ 102400 < p := by
    rw [lt_div_iff₀ (by norm_num), one_mul]; exact_mod_cast Iff.rfl
  rw [e1, e2]

/-! ### non-vacuity and concrete instances -/

/-- a well-formed digest with a merged last centroid (weight 3, mean 4 < max 7). -/
def exDigest : Digest := ⟨[⟨1, 1⟩, ⟨2, 2⟩, ⟨4, 3⟩], 0, 7⟩

example : wf exDigest = true := by decide
example : quantile exDigest 0 = some 0 := quantile_zero exDigest (by decide) (by decide)
example : quantile exDigest 1 = some 7 := quantile_one exDigest (by decide) (by decide)
example : quantile exDigest (11 / 10) = none :=
  (quantile_defined_iff _ _).2 (Or.inr (Or.inr (by norm_num)))
/- TESTS (evaluation, not proofs): head branch, middle interpolation, and the tail branch as
   written — beyond the last knot (index > 4.5 of 6) the answer jumps from < 4 to max = 7. -/
#guard quantile exDigest (1 / 2) == some (14 / 5)
#guard quantile exDigest (7 / 10) == some (94 / 25)
#guard quantile exDigest (3 / 4) == some 4
#guard quantile exDigest (751 / 1000) == some 7
#guard quantile exDigest (8 / 10) == some 7
/-- the hypotheses of `percentile_clause` are satisfiable: values 0, 2, 2, 7 (scaled), digest with
    one centroid per distinct value. -/
example : wf ⟨[⟨0, 1⟩, ⟨2, 2⟩, ⟨7, 1⟩], 0, 7⟩ = true ∧
    Spec.numerics (fun _ => none) [.num 0, .num 2048, .str "x", .num 2048, .num 7168] = [0, 2048, 2048, 7168] := by
  decide

end Grip.Props.C19
