/-
  Props.C13 — internal stream combinators preserve order and multiplicity.

  Every theorem below is a HISTORY INVARIANT of a nondeterministic transition system
  (Grip.Model.C13): it is stated for every state `s` with `Reach act init s`, i.e. for every
  interleaving of the goroutines, every worker latency, every input length and every worker
  count.  `Spec.StageOK expected out closed exhausted` says: what has been emitted so far is a
  prefix of the expected stream (exactly the given items, once each, in input order) and the
  output is closed only when everything was emitted and the input is exhausted.

  What is NOT proved here (see docs/notes/C13.md): that the output is *eventually* closed
  (liveness under the channel bounds and the Go scheduler) — that half of "closes exactly when"
  is covered by the correspondence run (`closed:true` within a timeout); Go's channel FIFO
  semantics and the sequential consistency assumed for the queue's racy `closed` flag are trusted.
-/
import Grip.Model.C13
import Grip.Spec.C13
import GripGen.C13Buffers
import GripProofs.Lemmas.C13
import GripProofs.Lemmas.C13Tagged
import GripProofs.Lemmas.C13Deal
import GripProofs.Lemmas.C13Progress

namespace Grip.Props.C13
open Grip.C13 Grip.C13.Spec

/-! ## what the translator read from the Go source today -/

/-- The facts about the source the theorems below rest on, re-read on every run by
    tools/extract/c13_buffers.go: both distributors wrap at `n >= nworkers`, both merge loops
    start at worker 0, every caller passes a positive worker count, runMux indexes the outputs by
    the received order token, the batcher has its final flush, the queue pops the head. -/
theorem generated_config_ok :
    GripGen.C13Buffers.marshalResetGe = true ∧ GripGen.C13Buffers.unmarshalResetGe = true ∧
    GripGen.C13Buffers.marshalMergeStart = 0 ∧ GripGen.C13Buffers.unmarshalMergeStart = 0 ∧
    (∀ w ∈ GripGen.C13Buffers.jobWorkers, 0 < w) ∧
    GripGen.C13Buffers.muxOutputIndexIsOrder = true ∧
    GripGen.C13Buffers.batcherFinalFlush = true ∧
    GripGen.C13Buffers.queuePopsHead = true := by decide

/-- MarshalStream as configured in the source, with `w` workers -/
def marshalCfg (w : Nat) : RRCfg :=
  { n := w, ge := GripGen.C13Buffers.marshalResetGe, mstart := GripGen.C13Buffers.marshalMergeStart }
/-- UnmarshalStream as configured in the source -/
def unmarshalCfg (w : Nat) : RRCfg :=
  { n := w, ge := GripGen.C13Buffers.unmarshalResetGe, mstart := GripGen.C13Buffers.unmarshalMergeStart }

/-! ## round-robin worker pool (MarshalStream / UnmarshalStream) -/

/-- `out ++ pendingInMergeOrder = consumed.map f`: the items inside the pool, in input order
    (`pend`, tagged with the worker they went to), continue the output to the image of what the
    distributor has consumed; each worker holds exactly its own sub-sequence of them. -/
theorem rr_invariant {α β : Type} (c : RRCfg) (hn : 0 < c.n) (hge : c.ge = true) (hms : c.mstart = 0)
    (f : α → β) (xs : List α) (s : RR α β) (h : Reach (rrAct c f) (rrInit c xs) s) :
    ∃ (consumed : List α) (pend : List (Nat × β)),
      consumed ++ s.inp = xs ∧ s.out ++ pend.map (·.2) = consumed.map f ∧
      ∀ i, s.fromW i ++ ((s.hold i).toList ++ (s.toW i).map f) = Lemmas.proj pend i := by
  obtain ⟨consumed, pend, hi⟩ := Lemmas.rr_inv c hn hge hms f xs s h
  exact ⟨consumed, pend, hi.cons, hi.outp, hi.prj⟩

/-- C13 for the worker pool, any interleaving, any length, any positive worker count. -/
theorem rr_stage_ok {α β : Type} (c : RRCfg) (hn : 0 < c.n) (hge : c.ge = true) (hms : c.mstart = 0)
    (f : α → β) (xs : List α) (s : RR α β) (h : Reach (rrAct c f) (rrInit c xs) s) :
    StageOK (xs.map f) s.out s.outClosed s.inp.isEmpty := by
  obtain ⟨consumed, pend, hi⟩ := Lemmas.rr_inv c hn hge hms f xs s h
  refine ⟨⟨pend.map (·.2) ++ s.inp.map f, ?_⟩, ?_⟩
  · rw [← List.append_assoc, hi.outp, ← List.map_append, hi.cons]
  · intro hc; have := hi.fin hc; exact ⟨this.1, by simp [this.2]⟩

/-- the closing clause alone -/
theorem rr_final {α β : Type} (c : RRCfg) (hn : 0 < c.n) (hge : c.ge = true) (hms : c.mstart = 0)
    (f : α → β) (xs : List α) (s : RR α β) (h : Reach (rrAct c f) (rrInit c xs) s)
    (hc : s.outClosed = true) : s.out = xs.map f ∧ s.inp = [] := by
  obtain ⟨consumed, pend, hi⟩ := Lemmas.rr_inv c hn hge hms f xs s h
  exact hi.fin hc

/-- MarshalStream and UnmarshalStream with the constants found in the source today. -/
theorem marshal_stream_ok {α β : Type} (w : Nat) (hw : 0 < w) (f : α → β) (xs : List α) (s : RR α β)
    (h : Reach (rrAct (marshalCfg w) f) (rrInit (marshalCfg w) xs) s) :
    StageOK (xs.map f) s.out s.outClosed s.inp.isEmpty :=
  rr_stage_ok (marshalCfg w) hw generated_config_ok.1 generated_config_ok.2.2.1 f xs s h

theorem unmarshal_stream_ok {α β : Type} (w : Nat) (hw : 0 < w) (f : α → β) (xs : List α) (s : RR α β)
    (h : Reach (rrAct (unmarshalCfg w) f) (rrInit (unmarshalCfg w) xs) s) :
    StageOK (xs.map f) s.out s.outClosed s.inp.isEmpty :=
  rr_stage_ok (unmarshalCfg w) hw generated_config_ok.2.1 generated_config_ok.2.2.2.1 f xs s h

/-- The textbook statement: dealing round-robin to `n > 0` workers and collecting round-robin
    is the identity, for every list and every `n`. -/
theorem roundrobin_identity {α : Type} (n : Nat) (hn : 0 < n) (xs : List α) :
    collect (xs.length + 1) (deal n xs) = xs :=
  Lemmas.collect_deal n hn (xs.length + 1) xs (by omega)

/-- The runs `gripdriver C13` executes are reachable states, so the theorems apply to them:
    whenever the scheduled run ends closed, its output is the input. -/
theorem rrRun_ok (c : RRCfg) (hn : 0 < c.n) (hge : c.ge = true) (hms : c.mstart = 0) (seed : Nat)
    (xs : List Nat) (hc : (rrRun c seed xs).outClosed = true) : (rrRun c seed xs).out = xs := by
  have h := Lemmas.runSched_reach (rrAct c id) (rrCands c) (rrInit c xs) (20 * (xs.length + c.n) + 50) seed _ Reach.init
  simpa [rrRun] using (rr_final c hn hge hms id xs _ h hc).1

/-! ## channel multiplexer -/

/-- Output order = `Put` order, when every pipeline answers each input once (pipeline `j` answers
    `v` with `g j v`), for every interleaving of the caller, the pipelines and runMux. -/
theorem mux_order {α β : Type} (c : MuxCfg) (hc : c.idxIsOrder = true) (g : Nat → α → β)
    (puts : List (Nat × α)) (s : Mux α β) (h : Reach (muxAct c g) (muxInit puts) s) :
    StageOK (puts.map (fun p => g p.1 p.2)) s.out s.outClosed (s.puts.isEmpty && s.half.isNone) := by
  obtain ⟨issued, pend, hi⟩ := Lemmas.mux_inv c hc g puts s h
  refine ⟨⟨pend.map (·.2) ++ s.puts.map (fun p => g p.1 p.2), ?_⟩, ?_⟩
  · rw [← List.append_assoc, hi.outp, ← List.map_append, hi.iss]
  · intro hcl
    obtain ⟨hcc, ho⟩ := hi.fin hcl
    obtain ⟨hp, hh⟩ := hi.cl hcc
    have hord := hi.ord
    simp [ho, hh] at hord
    have hout := hi.outp
    have hiss := hi.iss
    simp [hord] at hout
    simp [hp] at hiss
    subst hiss
    exact ⟨hout, by simp [hp, hh]⟩

theorem mux_order_generated {α β : Type} (g : Nat → α → β) (puts : List (Nat × α)) (s : Mux α β)
    (h : Reach (muxAct { idxIsOrder := GripGen.C13Buffers.muxOutputIndexIsOrder } g) (muxInit puts) s) :
    StageOK (puts.map (fun p => g p.1 p.2)) s.out s.outClosed (s.puts.isEmpty && s.half.isNone) :=
  mux_order _ (by decide) g puts s h

/-! ## lookup batcher -/

/-- For every sequence of `select` outcomes and timeout decisions: the batches emitted so far
    are non-empty, at most `batchSize` long, and together with the open batch and the unread input
    they concatenate to the input; the output is closed only after the input was exhausted and the
    last partial batch was flushed. -/
theorem batcher_concat {α : Type} (c : BatCfg) (hbs : 0 < c.bs) (hf : c.finalFlush = true)
    (xs : List α) (s : Bat α) (h : Reach (batAct c) (batInit xs) s) :
    s.out.flatten ++ (s.o ++ s.inp) = xs ∧ (∀ b ∈ s.out, b ≠ [] ∧ b.length ≤ c.bs) ∧
    (s.outClosed = true → BatchesOK c.bs xs s.out ∧ s.inp = []) := by
  have hi := Lemmas.bat_inv c hbs hf xs s h
  refine ⟨hi.flow, hi.ok, ?_⟩
  intro hc
  obtain ⟨ho, hoe⟩ := hi.fin hc
  have hin := hi.closedIn ho
  have hfl := hi.flow
  simp [hoe, hin] at hfl
  exact ⟨⟨hfl, hi.ok⟩, hin⟩

/-- The executable form the driver runs: whatever the recorded events, a finished run is a valid batching. -/
theorem batcher_run {α : Type} (bs : Nat) (hbs : 0 < bs) (evs : List BatAct) (xs : List α)
    (hc : (batRun { bs := bs, finalFlush := GripGen.C13Buffers.batcherFinalFlush } evs xs).outClosed = true) :
    BatchesOK bs xs (batRun { bs := bs, finalFlush := GripGen.C13Buffers.batcherFinalFlush } evs xs).out :=
  ((batcher_concat { bs := bs, finalFlush := GripGen.C13Buffers.batcherFinalFlush } hbs generated_config_ok.2.2.2.2.2.2.1 xs _
    (Lemmas.batRun_reach _ xs evs)).2.2 hc).1

/-! ## two-stage lookup processor -/

/-- FIFO through both stages: the output is the concatenation, in request order, of each
    request's answers (a signal passes through as itself; otherwise one output per item the
    loader yields, deserialized). -/
theorem dual_fifo {ρ δ : Type} (isSig : ρ → Bool) (loader : ρ → List δ) (des : ρ → δ → ρ)
    (xs : List ρ) (s : Dual ρ δ) (h : Reach (dualAct isSig loader des) (dualInit xs) s) :
    StageOK (xs.flatMap (dualOutOf isSig loader des)) s.out s.outClosed s.inp.isEmpty := by
  have hi := Lemmas.dual_inv isSig loader des xs s h
  refine ⟨⟨_, hi.flow⟩, ?_⟩
  intro hc
  obtain ⟨h1, hd⟩ := hi.fin hc
  obtain ⟨hin, hcur⟩ := hi.s1 h1
  have hfl := hi.flow
  simp [hd, hin, hcur, Lemmas.dualCur] at hfl
  exact ⟨hfl, by simp [hin]⟩

/-- "exactly the items it was given, once each": when the loader answers every request once. -/
theorem dual_once_each {ρ δ : Type} (isSig : ρ → Bool) (ld : ρ → δ) (des : ρ → δ → ρ)
    (xs : List ρ) (s : Dual ρ δ) (h : Reach (dualAct isSig (fun r => [ld r]) des) (dualInit xs) s)
    (hc : s.outClosed = true) :
    s.out = xs.map (fun r => if isSig r then r else des r (ld r)) := by
  have := ((dual_fifo isSig (fun r => [ld r]) des xs s h).2 hc).1
  rw [this]
  apply Lemmas.flatMap_single
  intro r
  unfold dualOutOf
  split <;> simp

/-! ## jump queue -/

theorem queue_fifo {α : Type} (c : QCfg) (hc : c.popsHead = true) (xs : List α) (s : Q α)
    (h : Reach (qAct c) (qInit xs) s) :
    StageOK xs s.out s.outClosed (s.inp.isEmpty && s.inClosed) := by
  have hi := Lemmas.q_inv c hc xs s h
  refine ⟨⟨_, hi.flow⟩, ?_⟩
  intro hcl
  obtain ⟨hr, hh⟩ := hi.fin hcl
  obtain ⟨hq, hcd, _⟩ := hi.stopped hr
  obtain ⟨hch, hin, hic⟩ := hi.closed hcd
  have hfl := hi.flow
  simp [hh, hq, hch, hin] at hfl
  exact ⟨hfl, by simp [hin, hic]⟩

theorem queue_fifo_generated {α : Type} (xs : List α) (s : Q α)
    (h : Reach (qAct { popsHead := GripGen.C13Buffers.queuePopsHead }) (qInit xs) s) :
    StageOK xs s.out s.outClosed (s.inp.isEmpty && s.inClosed) :=
  queue_fifo _ (by decide) xs s h

/-! ## the liveness half of "closes its output exactly when its input is exhausted" — PARTIAL

  Proved: in the models (channels unbounded) no state with an open output is stuck: some
  goroutine can always act, for every reachable state.  Missing for the full clause "the output IS
  eventually closed": (1) termination of every run (a decreasing measure), (2) the channel
  capacities (a bounded channel can block a sender; deadlock freedom under the real bounds 10 /
  nworkers*10 / 50 / 250 / 100 is only sampled by the correspondence run under a timeout),
  (3) fairness of the Go scheduler.  The batcher is omitted: its loop can idle forever while
  the producer is silent, closure depends on the environment closing the input. -/

theorem rr_no_deadlock_partial {α β : Type} (c : RRCfg) (f : α → β) (s : RR α β)
    (h : s.outClosed = false) : ∃ a, (rrAct c f a s).isSome = true :=
  Lemmas.rr_progress c f s h

theorem mux_no_deadlock_partial {α β : Type} (c : MuxCfg) (hc : c.idxIsOrder = true) (g : Nat → α → β)
    (puts : List (Nat × α)) (s : Mux α β) (hr : Reach (muxAct c g) (muxInit puts) s)
    (h : s.outClosed = false) : ∃ a, (muxAct c g a s).isSome = true :=
  Lemmas.mux_progress c hc g puts s hr h

theorem dual_no_deadlock_partial {ρ δ : Type} (isSig : ρ → Bool) (loader : ρ → List δ) (des : ρ → δ → ρ)
    (s : Dual ρ δ) (h : s.outClosed = false) : ∃ a, (dualAct isSig loader des a s).isSome = true :=
  Lemmas.dual_progress isSig loader des s h

theorem queue_no_deadlock_partial {α : Type} (c : QCfg) (hc : c.popsHead = true) (xs : List α) (s : Q α)
    (hr : Reach (qAct c) (qInit xs) s) (h : s.outClosed = false) : ∃ a, (qAct c a s).isSome = true :=
  Lemmas.q_progress c hc xs s hr h

/-! ## non-vacuity: closed states are reachable (the hypotheses above are satisfiable), and the
    configuration hypotheses are needed (the mutated configurations do lose or reorder items) -/

example : ∃ s, Reach (rrAct (marshalCfg 2) id) (rrInit (marshalCfg 2) [7, 8, 9]) s ∧ s.outClosed = true ∧ s.out = [7, 8, 9] :=
  ⟨rrRun (marshalCfg 2) 5 [7, 8, 9],
   Lemmas.runSched_reach _ _ _ _ _ _ Reach.init, by decide, by decide⟩

example : (batRun { bs := 2, finalFlush := true } (batEventsOfSizes [1, 2, 2] 5) [1, 2, 3, 4, 5]).out = [[1], [2, 3], [4, 5]] := by decide

/-- without the final flush the last partial batch is lost (DESIGN §8a mutation) -/
example : (batRun { bs := 2, finalFlush := false } (batEventsOfSizes [] 3) [1, 2, 3]).out.flatten ≠ [1, 2, 3] := by decide

end Grip.Props.C13
