/-
  Props.C03Cache — C03, last sentence, at the level of HISTORIES:

    "The timestamp reported for a graph changes after every successful mutation of that graph and at
     no other time, so a client seeing an unchanged timestamp may reuse cached results."

  `Props.C03.timestamp_iff_write` is the ONE-STEP statement (the stamp of g changes across an
  operation iff the operation is a write to g).  The promise to the client compares two ARBITRARY
  moments of a history; it does not follow from the one-step statement (section 4: a recorder that
  satisfies the one-step statement at every step and breaks the promise).  It follows from the
  one-step statement TOGETHER WITH "a stamp handed out is above every stamp handed out before"
  (the global clock: `C18.ClockOK`, `AClockOK`).

  Vocabulary (Lemmas/C03Cache.lean):
    `specAt a ops i`, `modelAt s ops i`   the abstract store / the kvgraph store after the first i
                                           operations of the history `ops` (moment i)
    `content a g`                          what the abstract store holds for graph g
                                           (listed?, vertices, edges)
    `SpecSameReads`, `ModelSameReads`      every read of g that `observe_eq` lists answers alike
    `NoWriteBetween a ops g i j`           none of the operations i … j-1 is a write to g (`Wrote`)
    `NoTouchBetween s ops g i j`           none of the operations i … j-1 reaches a `ts.Touch(g)`

  WHAT THE MODEL (= the Go code) DOES, as far as the questions of this file go:
    * DeleteGraph TOUCHES the stamp, it does not drop it (kvgraph/graphdb.go DeleteGraph:
      `kgraph.ts.Touch(graph)` first thing) — also for a graph that never existed
      (`delGraph_stamps`).  So a stamp `some _` does NOT say that the graph exists
      (`stamp_some_not_listed`), and `none` (Go: `Get` returns "") says: no write to this name has
      been seen since the table was created — never created, never deleted
      (`stamp_none_iff_never_written`).
    * an invalid / refused write does not touch (`invalid_rejected`, and `Wrote` in general).
    * a write to g1 never changes the stamp of g2 (`timestamp_iff_write`, third part; here
      `stamp_eq_iff_no_touch_between`).
    * OUTSIDE THE MODEL: timestamp.Touch stores `time.Now().UnixNano()`; the model's clock is a
      counter.  Two touches in the same nanosecond (or a wall clock stepping back) hand out the same
      (a smaller) value: then `AClockOK`/"strictly later" fails and with it everything below.  And
      NewKVGraph (a restart) builds a fresh table and touches every listed graph: the stamps of
      deleted names are gone (`Get` = ""), which no history of `Op`s reproduces (C04 `reopen`).
-/
import GripProofs.Lemmas.C03Cache

namespace Grip.Props.C03
open Grip Grip.C03 Grip.C03.Spec Grip.Props.C03.Lemmas
open Grip.Props.C18 (TS)

/-! ## (1) SPEC: equal stamps at two moments, equal graph -/

/-- **`no_write_between`** (SPEC, full strength, both directions): from any abstract store whose
    stamps do not exceed its clock (`AClockOK`: every reachable store, `aclockOK_run`), for every
    history, every graph name and every two moments i ≤ j: the stamp of g is the same at both
    moments IFF no operation between them is a write to g.  No hypothesis on the stamp being
    present: `none = none` counts. -/
theorem no_write_between {a : AG} (h : AClockOK a) (ops : List Op) (g : String) {i j : Nat}
    (hij : i ≤ j) :
    (specAt a ops j).stamp g = (specAt a ops i).stamp g ↔ NoWriteBetween a ops g i j := by
  have hi : AClockOK (specAt a ops i) := aclockOK_run h _
  rw [noWriteBetween_iff h ops g hij, noWrite_iff_noTouch _ _ hi,
    ← specSys.stamp_run_eq_iff _ _ g hi, specAt_split a ops hij]
  rfl

/-- **(1) `equal_stamp_equal_graph`** (SPEC, full strength).  From any abstract store with
    `AClockOK`, for every history `ops`, every graph name `g`, every two moments i ≤ j: if the
    stamp of g after i operations equals the stamp after j operations — present or not — then
      * no operation between the two moments is a write to g,
      * the abstract content of g (listed?, vertices, edges) is EQUAL at the two moments,
      * hence every read of g answers the same at the two moments.
    The hypothesis "the stamp is `some _`" of the informal statement is not needed. -/
theorem equal_stamp_equal_graph {a : AG} (h : AClockOK a) (ops : List Op) (g : String) {i j : Nat}
    (hij : i ≤ j) (he : (specAt a ops i).stamp g = (specAt a ops j).stamp g) :
    NoWriteBetween a ops g i j ∧
    content (specAt a ops i) g = content (specAt a ops j) g ∧
    SpecSameReads (specAt a ops i) (specAt a ops j) g := by
  have hnw := (no_write_between h ops g hij).1 he.symm
  have hc : content (specAt a ops j) g = content (specAt a ops i) g := by
    rw [specAt_split a ops hij]
    exact content_of_noWrite _ g _ ((noWriteBetween_iff h ops g hij).1 hnw)
  exact ⟨hnw, hc.symm, specReads_of_content hc.symm⟩

/-- (1) from the empty store: every history. -/
theorem equal_stamp_equal_graph_init (ops : List Op) (g : String) {i j : Nat} (hij : i ≤ j)
    (he : (specAt {} ops i).stamp g = (specAt {} ops j).stamp g) :
    NoWriteBetween {} ops g i j ∧
    content (specAt {} ops i) g = content (specAt {} ops j) g ∧
    SpecSameReads (specAt {} ops i) (specAt {} ops j) g :=
  equal_stamp_equal_graph aclockOK_init ops g hij he

/-! ### the absent stamp -/

/-- A stamp never disappears: once `some`, always `some` (and not smaller).  So `none` at moment j
    implies `none` at every earlier moment. -/
theorem stamp_none_downward {a : AG} (h : AClockOK a) (ops : List Op) (g : String) {i j : Nat}
    (hij : i ≤ j) (hn : (specAt a ops j).stamp g = none) : (specAt a ops i).stamp g = none := by
  cases hs : (specAt a ops i).stamp g with
  | none => rfl
  | some n =>
    have hi : AClockOK (specAt a ops i) := aclockOK_run h _
    obtain ⟨m, hm, _⟩ := specSys.stamp_run_mono (specAt a ops i) ((ops.take j).drop i) g hi n hs
    have e : specSys.stamp (specSys.run (specAt a ops i) ((ops.take j).drop i)) g =
        (specAt a ops j).stamp g := by rw [specAt_split a ops hij]; rfl
    rw [e, hn] at hm; cases hm

/-- **What `none` means.**  From the empty store: the stamp of g is absent after j operations iff
    none of them was a write to g — g was never created and never deleted (DeleteGraph of a name
    that does not exist is a write in the sense of `Wrote` and stamps the name); and then g is not
    listed and holds nothing.  Two moments with stamp `none` therefore never differ in content
    (also a case of `equal_stamp_equal_graph`). -/
theorem stamp_none_iff_never_written (ops : List Op) (g : String) (j : Nat) :
    ((specAt {} ops j).stamp g = none ↔ NoWriteBetween {} ops g 0 j) ∧
    ((specAt {} ops j).stamp g = none → content (specAt {} ops j) g = GContent.empty) := by
  have key := no_write_between aclockOK_init ops g (Nat.zero_le j)
  have h0 : (specAt {} ops 0).stamp g = none := rfl
  rw [h0] at key
  refine ⟨key, fun hn => ?_⟩
  have := (equal_stamp_equal_graph_init ops g (Nat.zero_le j) (by rw [h0, hn])).2.1
  rw [← this]; rfl

/-- **DeleteGraph touches, it does not drop** — SPEC and MODEL, any state, existing graph or not:
    after DeleteGraph g the stamp of g is the new clock value. -/
theorem delGraph_stamps (a : AG) (s : KState) (g : String) :
    (specStep a (.delGraph g)).1.stamp g = some (a.clock + 1) ∧
    (step s (.delGraph g)).1.stamp g = some (s.clock + 1) := by
  constructor
  · exact specSys.stamp_of_touched a (.delGraph g) g ⟨rfl, by show a.clock + 1 ≠ a.clock; omega⟩
  · exact modelSys.stamp_of_touched s (.delGraph g) g ⟨rfl, by show s.clock + 1 ≠ s.clock; omega⟩

/-- test: a present stamp does not say the graph exists: after AddGraph g, DeleteGraph g the stamp
    of g is 2 and g is not listed; after DeleteGraph h alone (h never existed) h has stamp 1. -/
theorem stamp_some_not_listed :
    (specRun {} [.addGraph "g", .delGraph "g"]).stamp "g" = some 2 ∧
    (specRun {} [.addGraph "g", .delGraph "g"]).graphs.contains "g" = false ∧
    (run {} [.addGraph "g", .delGraph "g"]).stamp "g" = some 2 ∧
    hasGraph (run {} [.addGraph "g", .delGraph "g"]) "g" = false ∧
    (run {} [.delGraph "h"]).stamp "h" = some 1 ∧ hasGraph (run {} [.delGraph "h"]) "h" = false := by
  decide +kernel

/-! ## (2) MODEL -/

/-- **(2a) the stamps of kvgraph, unconditionally** (no refinement, no side condition; `C18.ClockOK`
    holds in every reachable state: `C18.clock_dominates`): the stamp of g is the same at two
    moments i ≤ j of a history iff no operation between them reached a `ts.Touch(g)`. -/
theorem stamp_eq_iff_no_touch_between {s : KState} (h : C18.ClockOK s) (ops : List Op) (g : String)
    {i j : Nat} (hij : i ≤ j) :
    (modelAt s ops j).stamp g = (modelAt s ops i).stamp g ↔ NoTouchBetween s ops g i j := by
  have hi : (modelSys.ts (modelAt s ops i)).OK := modelSys.OK_at s ops i h
  have := modelSys.stamp_run_eq_iff (modelAt s ops i) ((ops.take j).drop i) g hi
  rw [modelAt_eq, modelSys.noTouch_window s ops g hij] at this
  rw [modelAt_split s ops hij]
  exact this

/-- **(2b) `equal_stamp_equal_graph_model_partial`** (MODEL).  For the histories the refinement
    theorem covers (`NoReaddHist`, the hypothesis of `history_refines_partial`: no edge re-added
    under a live id with other endpoints/label), from any store that represents an abstract store:
    if kvgraph reports the same stamp for g at moments i ≤ j, then no operation between them is a
    write to g (equivalently: none reached `ts.Touch(g)`), and every read of g that `observe_eq`
    lists answers alike at the two moments (lookups equal, listings equal as multisets, label
    listings as sets).
    PARTIAL.  Full statement: the same WITHOUT `hh`.  Missing: a proof that a kvgraph operation
    which does not reach `ts.Touch(g)` leaves every read of g alone, directly on the key-value
    store; in the region of the open finding C03-edge-readd the abstract store is no guide
    (`stamps_diverge_after_readd`). -/
theorem equal_stamp_equal_graph_model_partial {s : KState} {a : AG} (h : Refines s a)
    (ops : List Op) (hh : NoReaddHist a ops) (g : String) {i j : Nat} (hij : i ≤ j)
    (he : (modelAt s ops i).stamp g = (modelAt s ops j).stamp g) :
    NoWriteBetween a ops g i j ∧ NoTouchBetween s ops g i j ∧
    ModelSameReads (modelAt s ops i) (modelAt s ops j) g := by
  have ri := refines_at h hh i
  have rj := refines_at h hh j
  have he' : (specAt a ops i).stamp g = (specAt a ops j).stamp g := by
    rw [← (observe_eq ri g).2.2.2.2.2.2.2.2.2.2.2.2, ← (observe_eq rj g).2.2.2.2.2.2.2.2.2.2.2.2]
    exact he
  obtain ⟨h1, h2, _⟩ := equal_stamp_equal_graph (clockOK_of_refines h) ops g hij he'
  exact ⟨h1, (stamp_eq_iff_no_touch_between (modelOK_of_refines h) ops g hij).1 he.symm,
    modelReads_of_content ri rj h2⟩

/-- (2b) from the empty store. -/
theorem equal_stamp_equal_graph_model_init_partial (ops : List Op) (hh : NoReaddHist {} ops)
    (g : String) {i j : Nat} (hij : i ≤ j)
    (he : (modelAt {} ops i).stamp g = (modelAt {} ops j).stamp g) :
    NoWriteBetween {} ops g i j ∧ NoTouchBetween {} ops g i j ∧
    ModelSameReads (modelAt {} ops i) (modelAt {} ops j) g :=
  equal_stamp_equal_graph_model_partial refines_init ops hh g hij he

/-- On the covered histories MODEL and SPEC report the same stamp at every moment, and "reached
    `ts.Touch(g)`" is "write to g". -/
theorem stamps_agree_partial {s : KState} {a : AG} (h : Refines s a) (ops : List Op)
    (hh : NoReaddHist a ops) (g : String) (k : Nat) :
    (modelAt s ops k).stamp g = (specAt a ops k).stamp g ∧
    ∀ o, modelSys.Touched (modelAt s ops k) o g ↔ Wrote (specAt a ops k) o g :=
  ⟨(observe_eq (refines_at h hh k) g).2.2.2.2.2.2.2.2.2.2.2.2,
   fun o => touched_iff_wrote (refines_at h hh k) o g⟩

/-- **`stamps_diverge_after_readd`: "the stamps are equal on both sides without side condition" is
    FALSE for histories** (it is true for one step from related states: `timestamp_iff_write`).
    corpus/C03/kf-edge-readd.ops followed by DelEdge e1 twice: the re-add left two records for e1
    in kvgraph (open finding C03-edge-readd); the first DelEdge removes one of them, the second
    DelEdge finds the other, succeeds and touches — the SPEC has no edge e1 any more, refuses and
    does not touch.  kvgraph reports 6, the SPEC 5.  (kvgraph/graph.go DelEdge after AddEdge,
    AddEdge; a consequence of the open finding, no new defect: the client is told "changed" once
    too often.) -/
theorem stamps_diverge_after_readd :
    let ops := witnessOps ++ [.delE "g1" "e1", .delE "g1" "e1"]
    (run {} ops).stamp "g1" = some 6 ∧ (specRun {} ops).stamp "g1" = some 5 ∧
    (step (run {} (ops.take 5)) (.delE "g1" "e1")).2 = .ok ∧
    (specStep (specRun {} (ops.take 5)) (.delE "g1" "e1")).2 = .err := by
  decide +kernel

/-! ### tests for (1) and (2): the hypotheses are satisfiable -/

/-- test (`equal_stamp_equal_graph`, `no_write_between`): on `goodOps` (nine operations on g1 and
    g2, from the empty store) graph g1 reports 7 at moments 7 and 9 — operations 7 and 8 are
    DelEdge and DeleteGraph on g2 — so nothing of g1 changed; and it reports 5 at moment 5 and 7 at
    moment 7: operation 6 (DelVertex g1 b) is a write to g1. -/
example :
    (specAt {} goodOps 7).stamp "g1" = some 7 ∧ (specAt {} goodOps 9).stamp "g1" = some 7 ∧
    content (specAt {} goodOps 7) "g1" = content (specAt {} goodOps 9) "g1" ∧
    NoWriteBetween {} goodOps "g1" 7 9 ∧
    (specAt {} goodOps 5).stamp "g1" = some 5 ∧ ¬ NoWriteBetween {} goodOps "g1" 5 7 := by
  have e : (specAt {} goodOps 7).stamp "g1" = (specAt {} goodOps 9).stamp "g1" := by decide +kernel
  obtain ⟨h1, h2, _⟩ := equal_stamp_equal_graph_init goodOps "g1" (by decide : 7 ≤ 9) e
  refine ⟨by decide +kernel, by decide +kernel, h2, h1, by decide +kernel, ?_⟩
  rw [← no_write_between aclockOK_init goodOps "g1" (by decide : 5 ≤ 7)]
  decide +kernel

/-- test (`stamp_none_iff_never_written`): g2 has no stamp at moment 1 of `goodOps` (only g1 was
    created), and holds nothing -/
example : (specAt {} goodOps 1).stamp "g2" = none ∧
    content (specAt {} goodOps 1) "g2" = GContent.empty := by
  have h : (specAt {} goodOps 1).stamp "g2" = none := by decide +kernel
  exact ⟨h, (stamp_none_iff_never_written goodOps "g2" 1).2 h⟩

/-- test (`equal_stamp_equal_graph_model_partial`, `stamp_eq_iff_no_touch_between`): the same
    instance on kvgraph; the side condition holds on `goodOps` (`goodOps_ok`) -/
example :
    (modelAt {} goodOps 7).stamp "g1" = some 7 ∧ (modelAt {} goodOps 9).stamp "g1" = some 7 ∧
    NoReaddHist {} goodOps ∧
    ModelSameReads (modelAt {} goodOps 7) (modelAt {} goodOps 9) "g1" ∧
    NoTouchBetween {} goodOps "g1" 7 9 := by
  have e : (modelAt {} goodOps 7).stamp "g1" = (modelAt {} goodOps 9).stamp "g1" := by
    decide +kernel
  obtain ⟨_, h2, h3⟩ :=
    equal_stamp_equal_graph_model_init_partial goodOps goodOps_ok "g1" (by decide : 7 ≤ 9) e
  exact ⟨by decide +kernel, by decide +kernel, goodOps_ok, h3, h2⟩

/-! ## (3) the stamps a name reports over time -/

/-- **(3) `stamps_strictly_increase_per_write`** (SPEC; any history from any store with `AClockOK`;
    any two moments i ≤ j; any name g).  The stamps g reports over time
      (a) never decrease and never disappear;
      (b) are equal at the two moments iff no write to g lies between;
      (c) iff a write to g lies between, the later stamp is above the CLOCK of moment i, hence
          strictly above every stamp that ANY name — g itself, in any incarnation — reported at
          moment i;
      (d) step by step: a write to g moves the stamp of g to the next clock value, any other
          operation leaves it alone.
    Deleting and re-creating the name makes no difference: the clock is global. -/
theorem stamps_strictly_increase_per_write {a : AG} (h : AClockOK a) (ops : List Op) (g : String)
    {i j : Nat} (hij : i ≤ j) :
    (∀ n, (specAt a ops i).stamp g = some n → ∃ m, (specAt a ops j).stamp g = some m ∧ n ≤ m) ∧
    (NoWriteBetween a ops g i j ↔ (specAt a ops j).stamp g = (specAt a ops i).stamp g) ∧
    (¬ NoWriteBetween a ops g i j ↔
      ∃ m, (specAt a ops j).stamp g = some m ∧ (specAt a ops i).clock < m ∧
        ∀ g' n, (specAt a ops i).stamp g' = some n → n < m) ∧
    (∀ k o, ops[k]? = some o →
      (Wrote (specAt a ops k) o g →
        (specAt a ops (k + 1)).stamp g = some ((specAt a ops k).clock + 1)) ∧
      (¬ Wrote (specAt a ops k) o g → (specAt a ops (k + 1)).stamp g = (specAt a ops k).stamp g)) := by
  obtain ⟨h1, h2, h3⟩ := specSys.stamps_increase a h ops g hij
  rw [noTouchIn_spec h] at h2 h3
  refine ⟨h1, h2, h3, ?_⟩
  intro k o hk
  have hkk : AClockOK (specAt a ops k) := aclockOK_run h _
  have hs : specAt a ops (k + 1) = (specStep (specAt a ops k) o).1 := specSys.at_succ a ops k o hk
  rw [hs]
  constructor
  · intro hw
    exact specSys.stamp_of_touched _ o g ((wrote_iff_touched hkk o g).1 hw)
  · intro hw
    exact Classical.byContradiction fun hne => hw ((spec_stamp_iff hkk o g).1 hne)

/-- (3) on kvgraph, unconditionally (`C18.ClockOK s`; no refinement, no side condition), with
    "reached `ts.Touch(g)`" in the place of "write to g". -/
theorem stamps_strictly_increase_per_touch {s : KState} (h : C18.ClockOK s) (ops : List Op)
    (g : String) {i j : Nat} (hij : i ≤ j) :
    (∀ n, (modelAt s ops i).stamp g = some n → ∃ m, (modelAt s ops j).stamp g = some m ∧ n ≤ m) ∧
    (NoTouchBetween s ops g i j ↔ (modelAt s ops j).stamp g = (modelAt s ops i).stamp g) ∧
    (¬ NoTouchBetween s ops g i j ↔
      ∃ m, (modelAt s ops j).stamp g = some m ∧ (modelAt s ops i).clock < m ∧
        ∀ g' n, (modelAt s ops i).stamp g' = some n → n < m) :=
  modelSys.stamps_increase s h ops g hij

/-- **`stamp_after_write_is_fresh`** (SPEC): if operation number k is a write to g, then at every
    later moment j > k graph g reports a stamp strictly above everything that any name reported at
    any moment i ≤ k; in particular it differs from every stamp g reported up to moment k. -/
theorem stamp_after_write_is_fresh {a : AG} (h : AClockOK a) (ops : List Op) (g : String)
    {i k j : Nat} (hik : i ≤ k) (hkj : k < j) (o : Op) (hk : ops[k]? = some o)
    (hw : Wrote (specAt a ops k) o g) :
    (∃ m, (specAt a ops j).stamp g = some m ∧
      ∀ g' n, (specAt a ops i).stamp g' = some n → n < m) ∧
    (specAt a ops j).stamp g ≠ (specAt a ops i).stamp g := by
  have hij : i ≤ j := Nat.le_trans hik (Nat.le_of_lt hkj)
  obtain ⟨_, h2, h3⟩ := stamps_strictly_increase_per_write h ops g hij
  have hnw : ¬ NoWriteBetween a ops g i j := fun hn => hn k o hik hkj hk hw
  obtain ⟨m, hm, _, hall⟩ := h3.1.1 hnw
  exact ⟨⟨m, hm, hall⟩, fun e => hnw (h2.2 e)⟩

/-- **`stamp_after_recreate_is_fresh`** (SPEC): a graph (re-)created under the name g by operation
    number k never afterwards reports a stamp that g — any earlier incarnation of it, or any other
    name — reported at a moment up to k. -/
theorem stamp_after_recreate_is_fresh {a : AG} (h : AClockOK a) (ops : List Op) (g : String)
    {i k j : Nat} (hik : i ≤ k) (hkj : k < j) (hk : ops[k]? = some (.addGraph g))
    (hv : validName g = true) :
    (∃ m, (specAt a ops j).stamp g = some m ∧
      ∀ g' n, (specAt a ops i).stamp g' = some n → n < m) ∧
    (specAt a ops j).stamp g ≠ (specAt a ops i).stamp g :=
  stamp_after_write_is_fresh h ops g hik hkj (.addGraph g) hk ⟨rfl, hv⟩

/-- `stamp_after_recreate_is_fresh` on kvgraph, unconditionally. -/
theorem stamp_after_recreate_is_fresh_model {s : KState} (h : C18.ClockOK s) (ops : List Op)
    (g : String) {i k j : Nat} (hik : i ≤ k) (hkj : k < j) (hk : ops[k]? = some (.addGraph g))
    (hv : validName g = true) :
    (∃ m, (modelAt s ops j).stamp g = some m ∧
      ∀ g' n, (modelAt s ops i).stamp g' = some n → n < m) ∧
    (modelAt s ops j).stamp g ≠ (modelAt s ops i).stamp g := by
  have hij : i ≤ j := Nat.le_trans hik (Nat.le_of_lt hkj)
  obtain ⟨_, h2, h3⟩ := stamps_strictly_increase_per_touch h ops g hij
  have hnt : ¬ NoTouchBetween s ops g i j :=
    fun hn => hn k _ hik hkj hk (touched_addGraph (modelAt s ops k) hv)
  obtain ⟨m, hm, _, hall⟩ := h3.1 hnt
  exact ⟨⟨m, hm, hall⟩, fun e => hnt (h2.2 e)⟩

/-- a history that creates g, writes, deletes g (and tries a write on the deleted graph), creates
    g again, and offers an invalid vertex -/
def recreateOps : List Op :=
  [.addGraph "g", .addV "g" [Cache.va], .addV "h" [Cache.va], .delGraph "g", .delE "g" "x",
   .addGraph "g", .addV "g" [⟨"", "L", .obj []⟩]]

/-- test (3): along `recreateOps` graph g reports  –, 1, 2, 2, 3, 3, 4, 4 : it moves at operations
    0, 1, 3, 5 (the writes to g: create, vertex, delete, re-create) and stands still at 2 (a vertex
    for a graph h that does not exist), 4 (DelEdge on the deleted graph), 6 (invalid vertex); the
    re-created graph (operation 5) reports 4, above the 1, 2, 3 the first incarnation reported. -/
example :
    (List.range 8).map (fun i => (specAt {} recreateOps i).stamp "g") =
      [none, some 1, some 2, some 2, some 3, some 3, some 4, some 4] ∧
    (List.range 8).map (fun i => (modelAt {} recreateOps i).stamp "g") =
      [none, some 1, some 2, some 2, some 3, some 3, some 4, some 4] ∧
    recreateOps[5]? = some (.addGraph "g") ∧ validName "g" = true :=
  ⟨by decide +kernel, by decide +kernel, rfl, by decide +kernel⟩

/-- test (`stamp_after_recreate_is_fresh`): hypotheses hold for i = 2, k = 5, j = 7 -/
example : (specAt {} recreateOps 7).stamp "g" ≠ (specAt {} recreateOps 2).stamp "g" :=
  (stamp_after_recreate_is_fresh aclockOK_init recreateOps "g" (by decide : 2 ≤ 5)
    (by decide : 5 < 7) rfl (by decide +kernel)).2

/-- test (`stamp_after_recreate_is_fresh_model`, `stamps_strictly_increase_per_touch`): the same
    on kvgraph; `C18.ClockOK` holds of the empty store -/
example : (modelAt {} recreateOps 7).stamp "g" ≠ (modelAt {} recreateOps 2).stamp "g" ∧
    ¬ NoTouchBetween {} recreateOps "g" 2 7 := by
  have h := stamp_after_recreate_is_fresh_model C18.clockOK_init recreateOps "g"
    (by decide : 2 ≤ 5) (by decide : 5 < 7) rfl (by decide +kernel)
  exact ⟨h.2, fun hn =>
    h.2 ((stamps_strictly_increase_per_touch C18.clockOK_init recreateOps "g"
      (by decide : 2 ≤ 7)).2.1.1 hn)⟩

/-! ## (4) the regression as a theorem

  Recorders (`Grip.C03.Cache`, Grip/Model/C03Cache.lean) run beside kvgraph: every `ts.Touch` call
  site an operation reaches calls `R.touch`, DeleteGraph calls `R.drop`; `R.stampAt ops i g` is what
  the client is told for g at moment i of the history `ops` from the empty store.
-/

open Grip.C03.Cache

/-- **`Global` is the recorder of the code**: beside every history it reports what kvgraph
    (`KState.stamp`) reports. -/
theorem global_is_model (ops : List Op) (i : Nat) (g : String) :
    Global.stampAt ops i g = (modelAt {} ops i).stamp g := by
  unfold Recorder.stampAt
  have := global_runK (ops.take i) {}
  have e : Global.runK {} Global.init (ops.take i) = gOf (run {} (ops.take i)) := this
  rw [e]; rfl

/-- THE ONE-STEP STATEMENT, as a property of a recorder (`W`: the notion of write): along every
    history from the empty store that the refinement theorem covers, the stamp the recorder reports
    for g changes across operation number k iff that operation is a write to g.
    (For `Global` and `W = Wrote` this is `timestamp_iff_write` along the history.) -/
def OneStepOK (R : Recorder) (W : AG → Op → String → Prop) : Prop :=
  ∀ ops, NoReaddHist {} ops → ∀ k o g, ops[k]? = some o →
    (R.stampAt ops (k + 1) g ≠ R.stampAt ops k g ↔ W (specAt {} ops k) o g)

/-- THE PROMISE, as a property of a recorder: along every such history, if the recorder reports the
    same stamp for g at moments i ≤ j, every read of g answers alike at the two moments. -/
def CacheValid (R : Recorder) : Prop :=
  ∀ ops, NoReaddHist {} ops → ∀ g i j, i ≤ j → R.stampAt ops i g = R.stampAt ops j g →
    ModelSameReads (modelAt {} ops i) (modelAt {} ops j) g

/-- the recorder of the code satisfies the one-step statement … -/
theorem global_oneStep : OneStepOK Global Wrote := by
  intro ops hh k o g hk
  rw [global_is_model, global_is_model]
  have hr := refines_at refines_init hh k
  have hs : modelAt {} ops (k + 1) = (step (modelAt {} ops k) o).1 := modelSys.at_succ {} ops k o hk
  rw [hs]
  exact (timestamp_iff_write hr o g).1

/-- … and keeps the promise (this is (2b)). -/
theorem global_cacheValid : CacheValid Global := by
  intro ops hh g i j hij he
  rw [global_is_model, global_is_model] at he
  exact (equal_stamp_equal_graph_model_init_partial ops hh g hij he).2.2

/-! ### "write" (`Wrote`) and "successful mutation" (`Mutates`) -/

/-- **The code changes the stamp at some moments at which nothing is mutated** (the property says
    "and at no other time"; `Wrote` calls these operations writes by definition, so
    `timestamp_iff_write` does not see them).  DeleteGraph of a graph that is not listed
    (kvgraph/graphdb.go DeleteGraph: `ts.Touch` before anything is looked up): a write in the
    sense of `Wrote`, not a mutation (`Mutates`), the content of every graph stays what it was —
    and the stamp of the name changes.  Harmless for a cache (one invalidation too many). -/
theorem delete_absent_is_no_mutation {s : KState} {a : AG} (h : Refines s a) (g : String)
    (hg : g ∉ a.graphs) :
    Wrote a (.delGraph g) g ∧ ¬ Mutates a (.delGraph g) g ∧
    (∀ g', content (specStep a (.delGraph g)).1 g' = content a g') ∧
    (step s (.delGraph g)).1.stamp g ≠ s.stamp g :=
  ⟨rfl, fun hm => hg (hm.2 rfl), delGraph_absent_noop h g hg,
   (timestamp_iff_write h (.delGraph g) g).1.2 rfl⟩

/-- `Wrote` and `Mutates` differ there and nowhere else. -/
theorem wrote_iff_mutates' (a : AG) (op : Op) (g : String) :
    Wrote a op g ↔ Mutates a op g ∨ (op = .delGraph g ∧ g ∉ a.graphs) :=
  wrote_iff_mutates a op g

/-- test (`delete_absent_is_no_mutation`): the empty store, any name.  And the second such moment:
    DelVertex of a vertex that is not there (kvgraph/graph.go DelVertex: `ts.Touch` unconditionally;
    `delete_absent_noop` in Props/C03.lean): the stamp moves from 1 to 2, the content does not. -/
example :
    (step {} (.delGraph "h")).1.stamp "h" ≠ (({} : KState)).stamp "h" ∧
    (run {} [.addGraph "g", .delV "g" "zz"]).stamp "g" = some 2 ∧
    (run {} [.addGraph "g"]).stamp "g" = some 1 ∧
    content (specRun {} [.addGraph "g", .delV "g" "zz"]) "g" = content (specRun {} [.addGraph "g"]) "g" :=
  ⟨(delete_absent_is_no_mutation refines_init "h" (by simp)).2.2.2, by decide +kernel,
   by decide +kernel, by decide +kernel⟩

/-! ### the regression satisfies the one-step statement -/

/-- **`PerNameT`, one step, unconditionally** (every history from the empty store, no side
    condition): the tombstone regression changes its stamp of g across an operation iff kvgraph
    changes its stamp of g across that operation. -/
theorem perNameT_changes_with_model (ops : List Op) (k : Nat) (o : Op) (g : String)
    (hk : ops[k]? = some o) :
    PerNameT.stampAt ops (k + 1) g ≠ PerNameT.stampAt ops k g ↔
      (modelAt {} ops (k + 1)).stamp g ≠ (modelAt {} ops k).stamp g := by
  unfold Recorder.stampAt
  rw [runK_succ PerNameT {} PerNameT.init ops k o hk]
  have hI : TInv (PerNameT.runK {} PerNameT.init (ops.take k)) := tInv_runK _ _ _ tInv_init
  have hs : modelAt {} ops (k + 1) = (step (modelAt {} ops k) o).1 := modelSys.at_succ {} ops k o hk
  have hOK : (modelSys.ts (modelAt {} ops k)).OK := modelSys.OK_at {} ops k C18.clockOK_init
  unfold Recorder.stepK
  rw [perNameT_apply_ne_iff hI, hs]
  have := modelSys.stamp_step_ne_iff (modelAt {} ops k) o g hOK
  rw [show (step (modelAt {} ops k) o).1.stamp g ≠ (modelAt {} ops k).stamp g ↔
      modelSys.Touched (modelAt {} ops k) o g from this]
  constructor
  · rintro ⟨e, hd | ht⟩
    · rw [e]; exact (ticked_iff _ o).1 (ticked_del _ o hd)
    · rw [e]; exact (ticked_iff _ o).1 ht
  · intro ht
    have e : g = opGraph o := ht.1
    refine ⟨e, Or.inr ?_⟩
    rw [e] at ht
    exact (ticked_iff _ o).2 ht

/-- **`PerNameT` satisfies the one-step statement `timestamp_iff_write` states, word for word**
    (`Wrote`, DeleteGraph of an absent graph included). -/
theorem perNameT_oneStep : OneStepOK PerNameT Wrote := by
  intro ops hh k o g hk
  rw [perNameT_changes_with_model ops k o g hk, ← global_is_model, ← global_is_model]
  exact global_oneStep ops hh k o g hk

/-- **`PerName` (touch / drop) satisfies the one-step statement** with "successful mutation"
    (`Mutates`) for "write": its stamp of g changes across an operation iff the operation created
    g, deleted the EXISTING graph g, accepted an element for g, deleted a vertex of g, deleted an
    existing edge of g.  `Mutates` and `Wrote` differ only on DeleteGraph of a graph that is not
    listed (`wrote_iff_mutates`), which changes nothing at all (`delGraph_absent_noop`) — there
    the CODE changes its stamp and `PerName` does not (`perName_delete_absent`). -/
theorem perName_oneStep : OneStepOK PerName Mutates := by
  intro ops hh k o g hk
  unfold Recorder.stampAt
  rw [runK_succ PerName {} PerName.init ops k o hk]
  have hr := refines_at refines_init hh k
  have hI : PNInv (specAt {} ops k) (PerName.runK {} PerName.init (ops.take k)) :=
    pnInv_runK _ refines_init pnInv_init (noReaddHist_take hh k)
  unfold Recorder.stepK
  rw [perName_apply_ne_iff]
  unfold Mutates
  cases hd : isDel o with
  | true =>
    simp only [↓reduceIte, true_implies]
    rw [hI g]
    have eo := (isDel_iff o).1 hd
    constructor
    · rintro ⟨e, hl⟩
      refine ⟨?_, by simpa using hl⟩
      rw [eo]; exact e
    · rintro ⟨hw, hl⟩
      exact ⟨wrote_opGraph hw, by simpa using hl⟩
  | false =>
    simp only [Bool.false_eq_true, ↓reduceIte, false_implies, and_true]
    constructor
    · rintro ⟨e, ht⟩
      rw [e]; exact (ticked_iff_wrote hr o).1 ht
    · intro hw
      have e := wrote_opGraph hw
      refine ⟨e, ?_⟩
      rw [e] at hw
      exact (ticked_iff_wrote hr o).2 hw

/-- where `PerName` and the code part company at one step: DeleteGraph of a graph that never
    existed — the code stamps the name (1), `PerName` reports nothing before and after; nothing
    can be read of the graph before or after. -/
theorem perName_delete_absent :
    Global.stampAt [.delGraph "h"] 0 "h" = none ∧ Global.stampAt [.delGraph "h"] 1 "h" = some 1 ∧
    PerName.stampAt [.delGraph "h"] 0 "h" = none ∧ PerName.stampAt [.delGraph "h"] 1 "h" = none ∧
    PerNameT.stampAt [.delGraph "h"] 1 "h" = some 2 ∧
    content (specAt {} [.delGraph "h"] 1) "h" = content (specAt {} [.delGraph "h"] 0) "h" := by
  decide +kernel

/-! ### the regression breaks the promise -/

/-- **The witness** (AddGraph g, AddVertex a, DeleteGraph g, AddGraph g, AddVertex b).  Both
    regressions report 2 at moment 2 and 2 again at moment 5; the graph holds vertex a and not b at
    moment 2, b and not a at moment 5.  The code reports 2 and 5.  The history satisfies the side
    condition of the refinement theorem. -/
theorem regression_witness :
    PerName.stampAt witness 2 "g" = some 2 ∧ PerName.stampAt witness 5 "g" = some 2 ∧
    PerNameT.stampAt witness 2 "g" = some 2 ∧ PerNameT.stampAt witness 5 "g" = some 2 ∧
    Global.stampAt witness 2 "g" = some 2 ∧ Global.stampAt witness 5 "g" = some 5 ∧
    getVertex (modelAt {} witness 2).kv "g" "a" = some ⟨"a", "L", .obj []⟩ ∧
    getVertex (modelAt {} witness 5).kv "g" "a" = none ∧
    getVertex (modelAt {} witness 2).kv "g" "b" = none ∧
    getVertex (modelAt {} witness 5).kv "g" "b" = some ⟨"b", "L", .obj []⟩ ∧
    content (specAt {} witness 2) "g" ≠ content (specAt {} witness 5) "g" ∧
    NoReaddHist {} witness := by
  decide +kernel

/-- the regression, both variants, on the whole witness history: –, 1, 2, (– | 3), 1, 2 against the
    code's –, 1, 2, 3, 4, 5 -/
example :
    (List.range 6).map (fun i => PerName.stampAt witness i "g") =
      [none, some 1, some 2, none, some 1, some 2] ∧
    (List.range 6).map (fun i => PerNameT.stampAt witness i "g") =
      [none, some 1, some 2, some 3, some 1, some 2] ∧
    (List.range 6).map (fun i => Global.stampAt witness i "g") =
      [none, some 1, some 2, some 3, some 4, some 5] := by
  decide +kernel

/-- **`PerName` violates (1)/(2).** -/
theorem perName_not_cacheValid : ¬ CacheValid PerName := by
  intro h
  obtain ⟨h1, h2, _, _, _, _, h7, h8, _, _, _, hh⟩ := regression_witness
  have := (h witness hh "g" 2 5 (by decide) (by rw [h1, h2])).1 "a"
  rw [h7, h8] at this
  cases this

/-- **`PerNameT` violates (1)/(2).** -/
theorem perNameT_not_cacheValid : ¬ CacheValid PerNameT := by
  intro h
  obtain ⟨_, _, h3, h4, _, _, h7, h8, _, _, _, hh⟩ := regression_witness
  have := (h witness hh "g" 2 5 (by decide) (by rw [h3, h4])).1 "a"
  rw [h7, h8] at this
  cases this

/-- **THE ONE-STEP STATEMENT DOES NOT IMPLY THE PROMISE.**  There is a recorder that satisfies the
    one-step statement of `timestamp_iff_write` (`Wrote`) at every step of every covered history —
    it changes its stamp at exactly the steps at which the code does — and lets a client reuse a
    stale cache; and the plain touch/drop regression does the same with "successful mutation" for
    "write".  The code's recorder satisfies both. -/
theorem one_step_does_not_imply_cache_validity :
    (OneStepOK PerNameT Wrote ∧ ¬ CacheValid PerNameT) ∧
    (OneStepOK PerName Mutates ∧ ¬ CacheValid PerName) ∧
    (OneStepOK Global Wrote ∧ CacheValid Global) :=
  ⟨⟨perNameT_oneStep, perNameT_not_cacheValid⟩, ⟨perName_oneStep, perName_not_cacheValid⟩,
   ⟨global_oneStep, global_cacheValid⟩⟩

/-- **The general statement.**  Any history `ops1 ++ DeleteGraph g :: ops2` from the empty store in
    which neither part holds a DeleteGraph g and both parts reach `ts.Touch(g)` equally often (the
    graph is dropped, re-created and written as often as before): `PerName` reports for g at the
    end what it reported after `ops1` — although an operation between the two moments touched g
    (the DeleteGraph, and every write of `ops2`), and the code's recorder reports two different
    stamps. -/
theorem perName_collision (g : String) (ops1 ops2 : List Op) (hd1 : NoDel ops1 g)
    (hd2 : NoDel ops2 g)
    (hn : ticksOf {} ops1 g = ticksOf (step (run {} ops1) (.delGraph g)).1 ops2 g) :
    PerName.stampAt (ops1 ++ .delGraph g :: ops2) ops1.length g =
      PerName.stampAt (ops1 ++ .delGraph g :: ops2) (ops1 ++ .delGraph g :: ops2).length g ∧
    ¬ NoTouchBetween {} (ops1 ++ .delGraph g :: ops2) g ops1.length
        (ops1 ++ .delGraph g :: ops2).length ∧
    Global.stampAt (ops1 ++ .delGraph g :: ops2) ops1.length g ≠
      Global.stampAt (ops1 ++ .delGraph g :: ops2) (ops1 ++ .delGraph g :: ops2).length g := by
  have hle : ops1.length ≤ (ops1 ++ .delGraph g :: ops2).length := by
    rw [List.length_append]; omega
  have hnt : ¬ NoTouchBetween {} (ops1 ++ .delGraph g :: ops2) g ops1.length
      (ops1 ++ .delGraph g :: ops2).length := by
    intro h
    refine h ops1.length (.delGraph g) (Nat.le_refl _) ?_ (by simp) ⟨rfl, ?_⟩
    · rw [List.length_append, List.length_cons]; omega
    · show (modelAt {} _ ops1.length).clock + 1 ≠ (modelAt {} _ ops1.length).clock
      omega
  refine ⟨?_, hnt, ?_⟩
  · unfold Recorder.stampAt
    rw [List.take_length, List.take_left' rfl]
    exact (perName_collision_run {} PerName.init ppos_init g ops1 ops2 hd1 hd2
      (by rw [← hn]; show 0 + _ = _; omega)).symm
  · rw [global_is_model, global_is_model]
    intro e
    exact hnt ((stamp_eq_iff_no_touch_between C18.clockOK_init _ g hle).1 e.symm)

/-- test (`perName_collision`): the witness is an instance — `ops1` = AddGraph g, AddVertex a and
    `ops2` = AddGraph g, AddVertex b reach `ts.Touch(g)` twice each -/
example :
    let ops1 : List Op := [.addGraph "g", .addV "g" [va]]
    let ops2 : List Op := [.addGraph "g", .addV "g" [vb]]
    witness = ops1 ++ .delGraph "g" :: ops2 ∧ NoDel ops1 "g" ∧ NoDel ops2 "g" ∧
    ticksOf {} ops1 "g" = 2 ∧ ticksOf (step (run {} ops1) (.delGraph "g")).1 ops2 "g" = 2 := by
  refine ⟨rfl, ?_, ?_, by decide +kernel, by decide +kernel⟩
  · intro o ho
    simp only [List.mem_cons, List.not_mem_nil, or_false] at ho
    rcases ho with rfl | rfl <;> simp [isDel]
  · intro o ho
    simp only [List.mem_cons, List.not_mem_nil, or_false] at ho
    rcases ho with rfl | rfl <;> simp [isDel]

/-- test (`OneStepOK`, `CacheValid`): their hypothesis `NoReaddHist {} ops` holds on `goodOps`
    (nine operations, `goodOps_ok`) and on `witness`; on `goodOps` all three recorders move the
    stamp of g1 across operation 6 (DelVertex g1 b) and none across operation 5 (AddEdge on g2) -/
example : NoReaddHist {} goodOps ∧ NoReaddHist {} witness ∧
    PerName.stampAt goodOps 7 "g1" ≠ PerName.stampAt goodOps 6 "g1" ∧
    PerNameT.stampAt goodOps 7 "g1" ≠ PerNameT.stampAt goodOps 6 "g1" ∧
    Global.stampAt goodOps 7 "g1" ≠ Global.stampAt goodOps 6 "g1" ∧
    PerName.stampAt goodOps 6 "g1" = PerName.stampAt goodOps 5 "g1" ∧
    PerNameT.stampAt goodOps 6 "g1" = PerNameT.stampAt goodOps 5 "g1" ∧
    Global.stampAt goodOps 6 "g1" = Global.stampAt goodOps 5 "g1" :=
  ⟨goodOps_ok, regression_witness.2.2.2.2.2.2.2.2.2.2.2, by decide +kernel, by decide +kernel,
   by decide +kernel, by decide +kernel, by decide +kernel, by decide +kernel⟩

end Grip.Props.C03
