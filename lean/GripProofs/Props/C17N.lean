/-
  Property C17 (ii), continued — what was only sampled by the driver, now proved:

  (a) confluence for ANY number of clients on the functional store `FS`
      (`independent_sessions_confluent_N`, `all_interleavings_agree_N`);
  (b) the link between `FS` and the abstract graph `AG` the driver really computes with
      (`Grip.C03.Spec.specStep`/`specRun`): `specRun_simulates` — restricted to one existing graph
      `g`, every C03 operation except `delGraph g` acts on the abstraction `absG` as the run of its
      translation `trOp` (batches of any length, `bulk`, operations on other graphs and `addGraph`
      included; invalid elements translate to no edit; `delV` translates to the `FS` vertex delete
      that kills the incident edges; `delE` of an absent edge is the identity on both sides);
  (c) the transfer: sessions whose edits have pairwise disjoint footprints on `g` (`opIndep`,
      Grip.Spec.C17Indep — stated on the C03 operations, computable) reach the same lookups and the
      same `Final` (up to `Final.same`, the comparison the driver uses) under EVERY interleaving:
      `disjoint_sessions_same_lookups`, `disjoint_sessions_same_final` (two clients),
      `disjoint_sessions_same_final_N` (any number, against `serialFinal`), and
      `disjoint_sessions_admissible_iff`: for such sessions the driver's membership test
      `admissible` is the comparison with the ONE result `serialFinal`.

  Hypotheses added, and why (none can be dropped):
    * `WF init` — the association lists of `init` have no duplicate keys.  `AG` is a raw list
      structure; with a duplicated edge key `getE` after `delV` is not `kill` of `getE` before.  It
      is an invariant of every reachable state (`wf_reachable`), so it costs nothing.
    * `g ∈ init.graphs` — on a missing graph every edit is refused, so the translation would be wrong.
    * `keepsGraph g o` for every edit — no client issues `delGraph g` (after it every edit of `g` is
      refused: it commutes with nothing).  Everything else is allowed.
    * equality of the results is `Final.same` / `List.Perm` / equality of all lookups, NOT equality
      of the lists `vertexList`/`edgeList`: the lists are in last-write-first order, which differs
      between interleavings (`order_differs` below is the witness).
-/
import GripProofs.Props.C17
import GripProofs.Lemmas.C17N
import GripProofs.Lemmas.C17Sim

namespace Grip.Props.C17
open Grip Grip.C17.Spec Grip.C03 Grip.C03.Spec
open Grip.Props.C17.Lemmas

/-! ## (a) N clients on the functional store -/

/-- every interleaving of any number of pairwise independent clients yields the state of running
    the clients one after the other -/
theorem independent_sessions_confluent_N {ι : Type} [DecidableEq ι] {cs : List (List (FOp ι))}
    {zs : List (FOp ι)} (hm : MergeN cs zs)
    (hi : cs.Pairwise fun c d => ∀ x ∈ c, ∀ y ∈ d, indep x y = true) (s : FS ι) :
    FS.run s zs = FS.run s cs.flatten :=
  mergeN_confluent hm hi s

/-- … hence any two interleavings yield the same store -/
theorem all_interleavings_agree_N {ι : Type} [DecidableEq ι] {cs : List (List (FOp ι))}
    {zs zs' : List (FOp ι)} (hm : MergeN cs zs) (hm' : MergeN cs zs')
    (hi : cs.Pairwise fun c d => ∀ x ∈ c, ∀ y ∈ d, indep x y = true) (s : FS ι) :
    FS.run s zs = FS.run s zs' :=
  (independent_sessions_confluent_N hm hi s).trans (independent_sessions_confluent_N hm' hi s).symm

/-- `indep` is symmetric, so stating the hypothesis for i < j (`List.Pairwise`) is stating it for
    all i ≠ j -/
theorem indep_symmetric {ι : Type} [DecidableEq ι] (a b : FOp ι) : indep a b = indep b a :=
  indep_symm a b

/-! test: three clients (client 0 writes vertices 1, 2 and deletes vertex 9; client 1 writes edges
    10, 11 between vertices 1..4 and deletes edge 12; client 2 writes vertex 5, deletes vertex 8
    and edge 13) are pairwise independent, a genuine interleaving exists, and it differs from the
    serial order -/
def tClients : List (List (FOp Nat)) :=
  [ [.putV 1 7, .putV 2 8, .delV 9],
    [.putE 10 1 2 0, .putE 11 3 4 1, .delE 12],
    [.putV 5 9, .delV 8, .delE 13] ]

def tInterleaving : List (FOp Nat) :=
  [.putV 5 9, .putE 10 1 2 0, .putV 1 7, .delV 8, .putV 2 8, .putE 11 3 4 1, .delE 13, .delV 9, .delE 12]

/-- test (hypotheses of `independent_sessions_confluent_N` are satisfiable) -/
example : tClients.Pairwise (fun c d => ∀ x ∈ c, ∀ y ∈ d, indep x y = true) := by decide

/-- test: the interleaving is one, and is not the serial order -/
example : MergeN tClients tInterleaving ∧ tInterleaving ≠ tClients.flatten := by
  refine ⟨?_, by decide⟩
  exact .cons (.cons (.cons .nil
      (.left (.left (.left .nil))))
      (.right (.left (.right (.left (.right (.left .nil)))))))
      (.right (.right (.left (.right (.left (.right (.right (.left (.right .nil)))))))))

/-- test: a pair that is NOT independent is refused (client 1's edge 10 ends at vertex 2, which a
    fourth client deletes) -/
example : ¬ (tClients ++ [[FOp.delV 2]]).Pairwise (fun c d => ∀ x ∈ c, ∀ y ∈ d, indep x y = true) := by
  decide

/-! ## (b) the abstract graph of the SPEC simulates the functional store -/

/-- one step: for every coding of the records, `specStep` acts on the abstraction of graph `g` as
    the run of the translated edits, and `g` stays a graph -/
theorem specStep_simulates (cv : VRec → Nat) (ce : ERec → Nat) (a : AG) (g : String)
    (hg : g ∈ a.graphs) (hwf : WF a) (o : Op) (ho : keepsGraph g o = true) :
    absG cv ce (specStep a o).1 g = FS.run (absG cv ce a g) (trOp cv ce g o) ∧
      g ∈ (specStep a o).1.graphs ∧ WF (specStep a o).1 := by
  have h := sim_step cv ce a g (List.contains_iff_mem.2 hg) hwf.2 o ho
  exact ⟨h.1, List.contains_iff_mem.1 h.2, wf_specStep hwf o⟩

/-- a whole history -/
theorem specRun_simulates (cv : VRec → Nat) (ce : ERec → Nat) (a : AG) (g : String)
    (hg : g ∈ a.graphs) (hwf : WF a) (ops : List Op) (ho : ∀ o ∈ ops, keepsGraph g o = true) :
    absG cv ce (specRun a ops) g = FS.run (absG cv ce a g) (ops.flatMap (trOp cv ce g)) :=
  sim_run cv ce g ops a (List.contains_iff_mem.2 hg) hwf ho

/-- the side condition on the initial state holds in every reachable state -/
theorem wf_reachable (setup : List Op) : WF (specRun {} setup) := wf_specRun setup wf_empty

/-- the abstraction loses nothing: equal under all codings = equal lookups in `g` -/
theorem abstraction_faithful (a b : AG) (g : String) :
    (∀ cv ce, absG cv ce a g = absG cv ce b g) ↔
      (∀ id, a.getV g id = b.getV g id) ∧ (∀ id, a.getE g id = b.getE g id) :=
  absG_eq_iff a b g

/-- the SPEC-level footprint test implies the store-level one on the translated edits -/
theorem opIndep_sound (cv : VRec → Nat) (ce : ERec → Nat) (g : String) (o o' : Op)
    (h : opIndep g o o' = true) :
    ∀ x ∈ trOp cv ce g o, ∀ y ∈ trOp cv ce g o', indep x y = true :=
  fun x hx y hy => indep_of_opIndep g o o' h x y (covers_trOp cv ce g o x hx) (covers_trOp cv ce g o' y hy)

/-! ## (c) transfer to `specRun` -/

theorem flatMap_flatten {α β : Type} (f : α → List β) :
    ∀ cs : List (List α), cs.flatten.flatMap f = (cs.map (·.flatMap f)).flatten
  | [] => rfl
  | c :: cs => by
    rw [List.flatten_cons, List.flatMap_append, List.map_cons, List.flatten_cons, flatMap_flatten f cs]

/-- any number of clients with pairwise disjoint footprints: every interleaving leaves the same
    lookups in graph `g` as running the clients one after the other -/
theorem disjoint_sessions_same_lookups_N (init : AG) (g : String) (hg : g ∈ init.graphs) (hwf : WF init)
    {cs : List (List Op)} {zs : List Op} (hk : ∀ c ∈ cs, ∀ o ∈ c, keepsGraph g o = true)
    (hi : cs.Pairwise fun c d => sessionsIndep g c d = true) (hm : MergeN cs zs) :
    (∀ id, (specRun init zs).getV g id = (specRun init cs.flatten).getV g id) ∧
    (∀ id, (specRun init zs).getE g id = (specRun init cs.flatten).getE g id) := by
  rw [← absG_eq_iff]
  intro cv ce
  have hkz : ∀ o ∈ zs, keepsGraph g o = true := by
    intro o ho
    obtain ⟨c, hc, hoc⟩ := (mergeN_mem hm o).1 ho
    exact hk c hc o hoc
  have hkf : ∀ o ∈ cs.flatten, keepsGraph g o = true := by
    intro o ho
    obtain ⟨c, hc, hoc⟩ := List.mem_flatten.1 ho
    exact hk c hc o hoc
  rw [specRun_simulates cv ce init g hg hwf zs hkz, specRun_simulates cv ce init g hg hwf _ hkf,
    flatMap_flatten]
  apply mergeN_confluent (mergeN_flatMap _ hm)
  rw [List.pairwise_map]
  exact hi.imp fun {c d} h => indepL_of_sessionsIndep cv ce g c d h

/-- two clients -/
theorem disjoint_sessions_same_lookups (init : AG) (g : String) (hg : g ∈ init.graphs) (hwf : WF init)
    {xs ys zs : List Op} (hx : ∀ o ∈ xs, keepsGraph g o = true) (hy : ∀ o ∈ ys, keepsGraph g o = true)
    (hi : sessionsIndep g xs ys = true) (hm : Merge xs ys zs) :
    (∀ id, (specRun init zs).getV g id = (specRun init (xs ++ ys)).getV g id) ∧
    (∀ id, (specRun init zs).getE g id = (specRun init (xs ++ ys)).getE g id) := by
  have hmN : MergeN [xs, ys] zs := .cons (.cons .nil (merge_nil_right ys)) hm
  have := disjoint_sessions_same_lookups_N init g hg hwf (cs := [xs, ys]) (zs := zs)
    (by
      intro c hc
      simp only [List.mem_cons, List.not_mem_nil, or_false] at hc
      rcases hc with rfl | rfl
      · exact hx
      · exact hy)
    (by simp [hi]) hmN
  simpa using this

/-- MAIN (two clients): two sessions of edits of an existing graph `g` — `addV`, `addE`, `bulk`
    batches, `delV`, `delE`, and anything addressed to other graphs — whose footprints are disjoint
    leave, under EVERY interleaving `zs`, the same final graph `g` as one session after the other:
    the same vertices and edges (as sets without duplicates: `Perm`), i.e. `Final.same`. -/
theorem disjoint_sessions_same_final (init : AG) (g : String) (hg : g ∈ init.graphs) (hwf : WF init)
    {xs ys zs : List Op} (hx : ∀ o ∈ xs, keepsGraph g o = true) (hy : ∀ o ∈ ys, keepsGraph g o = true)
    (hi : sessionsIndep g xs ys = true) (hm : Merge xs ys zs) :
    (finalOf (specRun init zs) g).same (finalOf (specRun init (xs ++ ys)) g) = true ∧
    (finalOf (specRun init zs) g).verts.Perm (finalOf (specRun init (xs ++ ys)) g).verts ∧
    (finalOf (specRun init zs) g).edges.Perm (finalOf (specRun init (xs ++ ys)) g).edges := by
  obtain ⟨hv, he⟩ := disjoint_sessions_same_lookups init g hg hwf hx hy hi hm
  obtain ⟨pv, pe⟩ := final_same_of_lookups (wf_specRun zs hwf) (wf_specRun (xs ++ ys) hwf) g hv he
  refine ⟨?_, pv, pe⟩
  simp only [Final.same, Bool.and_eq_true]
  exact ⟨sameSet_of_perm pv, sameSet_of_perm pe⟩

/-- MAIN (any number of clients): every interleaving agrees with `serialFinal`, the one serial order
    the SPEC singles out -/
theorem disjoint_sessions_same_final_N (init : AG) (g : String) (hg : g ∈ init.graphs) (hwf : WF init)
    {cs : List (List Op)} {zs : List Op} (hk : ∀ c ∈ cs, ∀ o ∈ c, keepsGraph g o = true)
    (hi : cs.Pairwise fun c d => sessionsIndep g c d = true) (hm : MergeN cs zs) :
    (finalOf (specRun init zs) g).same (serialFinal init cs g) = true ∧
    (finalOf (specRun init zs) g).verts.Perm (serialFinal init cs g).verts ∧
    (finalOf (specRun init zs) g).edges.Perm (serialFinal init cs g).edges := by
  obtain ⟨hv, he⟩ := disjoint_sessions_same_lookups_N init g hg hwf hk hi hm
  obtain ⟨pv, pe⟩ := final_same_of_lookups (wf_specRun zs hwf) (wf_specRun cs.flatten hwf) g hv he
  refine ⟨?_, pv, pe⟩
  simp only [Final.same, Bool.and_eq_true]
  exact ⟨sameSet_of_perm pv, sameSet_of_perm pe⟩

/-- the computable form of the pairwise hypothesis -/
theorem clientsIndep_iff (g : String) (cs : List (List Op)) :
    clientsIndep g cs = true ↔ cs.Pairwise fun c d => sessionsIndep g c d = true := by
  induction cs with
  | nil => simp [clientsIndep]
  | cons c cs ih =>
    simp only [clientsIndep, Bool.and_eq_true, List.all_eq_true, List.pairwise_cons, ih]

/-! ### `Final.same` is symmetric and transitive (it compares two listings as sets of equal size) -/

theorem sameSet_symm {α : Type} [DecidableEq α] {xs ys : List α} (h : sameSet xs ys = true) :
    sameSet ys xs = true := by
  simp only [sameSet, Bool.and_eq_true, beq_iff_eq] at h ⊢
  exact ⟨⟨h.1.2, h.1.1⟩, h.2.symm⟩

theorem sameSet_trans {α : Type} [DecidableEq α] {xs ys zs : List α} (h1 : sameSet xs ys = true)
    (h2 : sameSet ys zs = true) : sameSet xs zs = true := by
  simp only [sameSet, Bool.and_eq_true, beq_iff_eq, List.all_eq_true, List.contains_iff_mem] at h1 h2 ⊢
  exact ⟨⟨fun x hx => h2.1.1 x (h1.1.1 x hx), fun z hz => h1.1.2 _ (h2.1.2 z hz)⟩, h1.2.trans h2.2⟩

theorem Final.same_symm {x y : Final} (h : x.same y = true) : y.same x = true := by
  simp only [Final.same, Bool.and_eq_true] at h ⊢
  exact ⟨sameSet_symm h.1, sameSet_symm h.2⟩

theorem Final.same_trans {x y z : Final} (h1 : x.same y = true) (h2 : y.same z = true) :
    x.same z = true := by
  simp only [Final.same, Bool.and_eq_true] at h1 h2 ⊢
  exact ⟨sameSet_trans h1.1 h2.1, sameSet_trans h1.2 h2.2⟩

/-- for clients with pairwise disjoint footprints the driver's membership test over ALL
    interleavings is the comparison with the single result `serialFinal` -/
theorem disjoint_sessions_admissible_iff (init : AG) (g : String) (hg : g ∈ init.graphs) (hwf : WF init)
    {cs : List (List Op)} (hk : ∀ c ∈ cs, ∀ o ∈ c, keepsGraph g o = true)
    (hi : clientsIndep g cs = true) (obs : Final) :
    admissible init cs g obs = true ↔ (serialFinal init cs g).same obs = true := by
  rw [admissible_iff]
  rw [clientsIndep_iff] at hi
  constructor
  · rintro ⟨zs, hm, hs⟩
    exact Final.same_trans (Final.same_symm (disjoint_sessions_same_final_N init g hg hwf hk hi hm).1) hs
  · intro hs
    exact ⟨cs.flatten, mergeN_flatten cs, hs⟩

/-! ### tests: the hypotheses are satisfiable on a concrete session of three clients -/

/-- graph "g" with vertices a, b, c, d, old and edges e0 : a → b, e9 : c → old; another graph "h" -/
def tInit : AG :=
  { graphs := ["g", "h"],
    verts := [(("g", "a"), ⟨"L", .null⟩), (("g", "b"), ⟨"L", .null⟩), (("g", "c"), ⟨"L", .null⟩),
              (("g", "d"), ⟨"L", .null⟩), (("g", "old"), ⟨"L", .null⟩), (("h", "a"), ⟨"L", .null⟩)],
    edges := [(("g", "e0"), ⟨"a", "b", "E", .null⟩), (("g", "e9"), ⟨"c", "old", "E", .null⟩)] }

/-- client 0: rewrites vertex a, adds vertex x (and an invalid vertex with an empty id, rejected),
      deletes vertex old (which removes the incident edge e9);
    client 1: adds edges e1 : a → b, e2 : c → d (their endpoints are written, but not deleted, by
      the others), rewrites e0, deletes edge e1 again;
    client 2: bulk-adds vertex y and edge e3 : y → y, deletes vertex "zz" (absent), works on graph
      "h" with the SAME ids as client 0 (isolated), creates a graph -/
def tOps : List (List Op) :=
  [ [.addV "g" [⟨"a", "M", .null⟩, ⟨"x", "L", .null⟩, ⟨"", "L", .null⟩], .delV "g" "old"],
    [.addE "g" [⟨"e1", "E", "a", "b", .null⟩, ⟨"e2", "E", "c", "d", .null⟩],
     .addE "g" [⟨"e0", "F", "a", "b", .null⟩], .delE "g" "e1"],
    [.bulk "g" [.v ⟨"y", "L", .null⟩, .e ⟨"e3", "E", "y", "y", .null⟩], .delV "g" "zz",
     .addV "h" [⟨"a", "M", .null⟩], .delV "h" "old", .addGraph "k"] ]

/-- test: the hypotheses of `disjoint_sessions_same_final_N` / `disjoint_sessions_admissible_iff`
    hold on `tInit`, `tOps` -/
example : "g" ∈ tInit.graphs ∧ WF tInit ∧ (∀ c ∈ tOps, ∀ o ∈ c, keepsGraph "g" o = true) ∧
    clientsIndep "g" tOps = true := by
  refine ⟨by decide, ⟨?_, ?_⟩, ?_, ?_⟩
  · unfold Grip.Props.C03.Lemmas.KeysNodup; with_unfolding_all decide
  · unfold Grip.Props.C03.Lemmas.KeysNodup; with_unfolding_all decide
  · with_unfolding_all decide
  · with_unfolding_all decide

/-- test: the main theorem applies to the concrete session (every interleaving of `tOps`) -/
example (zs : List Op) (hm : MergeN tOps zs) :
    (finalOf (specRun tInit zs) "g").same (serialFinal tInit tOps "g") = true :=
  (disjoint_sessions_same_final_N tInit "g" (by decide)
    ⟨by unfold Grip.Props.C03.Lemmas.KeysNodup; with_unfolding_all decide,
     by unfold Grip.Props.C03.Lemmas.KeysNodup; with_unfolding_all decide⟩
    (by with_unfolding_all decide)
    ((clientsIndep_iff "g" tOps).1 (by with_unfolding_all decide)) hm).1

/-- test (the theorem against plain computation): one genuine interleaving of `tOps`, evaluated, is
    `same` as `serialFinal`; the final graph holds 6 vertices and 3 edges (e9 went with vertex old,
    e1 was deleted again, the invalid vertex was rejected) -/
example :
    (finalOf (specRun tInit
      [ .bulk "g" [.v ⟨"y", "L", .null⟩, .e ⟨"e3", "E", "y", "y", .null⟩],
        .addE "g" [⟨"e1", "E", "a", "b", .null⟩, ⟨"e2", "E", "c", "d", .null⟩],
        .delV "g" "zz",
        .addV "g" [⟨"a", "M", .null⟩, ⟨"x", "L", .null⟩, ⟨"", "L", .null⟩],
        .addE "g" [⟨"e0", "F", "a", "b", .null⟩],
        .addV "h" [⟨"a", "M", .null⟩],
        .delV "g" "old",
        .delE "g" "e1",
        .delV "h" "old", .addGraph "k" ]) "g").same (serialFinal tInit tOps "g") = true ∧
    (serialFinal tInit tOps "g").verts.length = 6 ∧ (serialFinal tInit tOps "g").edges.length = 3 := by
  refine ⟨?_, ?_, ?_⟩ <;> with_unfolding_all decide

/-- test: a conflicting pair is refused — client 0 deletes vertex old, a client adding an edge that
    ends at old is not independent of it; nor is a second writer of vertex a -/
example : opIndep "g" (.delV "g" "old") (.addE "g" [⟨"e7", "E", "a", "old", .null⟩]) = false ∧
    opIndep "g" (.addV "g" [⟨"a", "M", .null⟩]) (.addV "g" [⟨"a", "N", .null⟩]) = false ∧
    opIndep "g" (.addV "g" [⟨"a", "M", .null⟩]) (.addV "h" [⟨"a", "N", .null⟩]) = true := by
  refine ⟨?_, ?_, ?_⟩ <;> with_unfolding_all decide

/-- test (why the conclusion is `same`/`Perm` and not equality of the listings): two interleavings
    of two independent one-edit sessions list the vertices in different orders -/
theorem order_differs :
    sessionsIndep "g" [.addV "g" [⟨"x", "L", .null⟩]] [.addV "g" [⟨"y", "L", .null⟩]] = true ∧
    (finalOf (specRun tInit [.addV "g" [⟨"x", "L", .null⟩], .addV "g" [⟨"y", "L", .null⟩]]) "g").verts ≠
    (finalOf (specRun tInit [.addV "g" [⟨"y", "L", .null⟩], .addV "g" [⟨"x", "L", .null⟩]]) "g").verts := by
  refine ⟨?_, ?_⟩ <;> with_unfolding_all decide

end Grip.Props.C17
