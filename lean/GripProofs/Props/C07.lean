import Grip.Model.C07
namespace Grip.Props.C07
open Grip.C07

theorem capacities_positive : ∀ c ∈ Gen.allCaps, 0 < c := by decide

end Grip.Props.C07
