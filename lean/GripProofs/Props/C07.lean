/-
  Property C07 — traversals terminate for any data volume and stop when cancelled.

  Theorems over the transition systems of Grip.Model.C07, for all capacities > 0, all finite
  inputs, all fan-outs and ALL interleavings (any enabled goroutine may move), plus decision
  theorems over the table GripGen.BuffersC07 regenerated from the Go source on every run.

  Level: PARTIAL.  Proved: the buffer bookkeeping (who waits for whom, what every step does to the
  remaining work).  Not modelled: the Go scheduler's fairness and real time (not needed for
  termination here: every step decreases a measure, so no schedule can run for ever, and a state in
  which nothing can move is final); the correspondence between the Go code and `Step` is checked by
  running the engine, not proved; `both`/`aggregate` are proved standing alone (fed by a list,
  delivering to a consumer that keeps reading), not embedded in a longer chain; cycles are C12.
-/
import GripProofs.Lemmas.C07Both

namespace Grip.Props.C07
open Grip.C07 Grip.Props.C07.Lemmas

/-! ## chains of stages -/

/-- `chain_terminates`: a linear chain of stages, each emitting finitely many items per input item,
    over any finite input with any positive capacities:
    (1) no reachable deadlock — a reachable state in which no goroutine can move has every stage
        ended and every channel closed;
    (2) from every reachable state the all-closed state is reachable;
    (3) every execution, under every schedule, has at most `mu` steps (a well-founded measure on
        the remaining work), so the result stream is closed after finitely many rows. -/
theorem chain_terminates {α : Type} (stages : List (Nat × (α → List α))) (input : List α)
    (hpos : ∀ s ∈ stages, 0 < s.1) :
    (∀ s, Reach Step (initChain stages input) s → (∀ s', ¬ Step s s') → AllDone s) ∧
    (∀ s, Reach Step (initChain stages input) s → ∃ t, Reach Step s t ∧ AllDone t) ∧
    (∀ (run : Nat → List (Cell α)) (k : Nat), run 0 = initChain stages input →
        (∀ i, i < k → Step (run i) (run (i + 1))) → k ≤ mu (initChain stages input)) := by
  have hinv : ∀ s, Reach Step (initChain stages input) s → Linked s ∧ headInClosed s = true := by
    intro s hr
    refine reach_inv (fun s => Linked s ∧ headInClosed s = true) ?_ hr ?_
    · intro a b ⟨hl, hc⟩ hs
      exact ⟨linked_step hs hl, by rw [headInClosed_step hs]; exact hc⟩
    · refine ⟨linked_init stages input hpos, ?_⟩
      cases stages with
      | nil => rfl
      | cons a r => obtain ⟨c, f⟩ := a; rfl
  have hstuck : ∀ s : List (Cell α), Linked s → headInClosed s = true → (∀ s', ¬ Step s s') → AllDone s :=
    fun s hl hc hno => closed_branch_done hl hc hno
  refine ⟨fun s hr hno => hstuck s (hinv s hr).1 (hinv s hr).2 hno, ?_, ?_⟩
  · intro s hr
    obtain ⟨t, hst, hterm⟩ := exists_terminal Step mu (fun a b h => mu_step h) (mu s) s (Nat.le_refl _)
    have hrt := reach_trans hr hst
    exact ⟨t, hst, hstuck t (hinv t hrt).1 (hinv t hrt).2 hterm⟩
  · intro run k h0 hrun
    have := run_bounded Step mu (fun a b h => mu_step h) run k hrun
    rw [h0] at this
    omega

/-- every step of a chain strictly decreases the remaining work -/
theorem chain_step_decreases {α : Type} {cs cs' : List (Cell α)} (h : Step cs cs') : mu cs' < mu cs :=
  mu_step h

/-- non-vacuity: a two-stage chain (fan-out 2, then 1) over three items with capacity-1 channels
    satisfies the hypotheses and can move. -/
example : ∃ s', Step (initChain [(1, fun (x : Nat) => [x, x]), (1, fun x => [x])] [1, 2, 3]) s' :=
  ⟨_, Step.take rfl rfl rfl⟩

/-! ## both, as it was written -/

/-- `both_deadlock_threshold`: the forwarding loop of both.Process AS IT WAS WRITTEN (each input
    item pushed into both branches before any branch output is read), on branches of one-to-one
    stages with channel capacities `caps0`, `caps1` (all positive) and `n` input items: a state in
    which the loop still has input and no goroutine can move is reachable IF AND ONLY IF
    `n` exceeds what the smaller branch absorbs, i.e. the sum of its capacities plus one item held
    by each stage between them:  n > min (Σ caps0 + |caps0| − 1) (Σ caps1 + |caps1| − 1). -/
theorem both_deadlock_threshold (n : Nat) (caps0 caps1 : List Nat)
    (h0 : ∀ c ∈ caps0, 0 < c) (h1 : ∀ c ∈ caps1, 0 < c) :
    (∃ s, Reach WStep (wInit n caps0 caps1) s ∧ WDeadlocked s) ↔
      n > min (absorb (emptyBranch caps0)) (absorb (emptyBranch caps1)) := by
  have hinv : ∀ s, Reach WStep (wInit n caps0 caps1) s →
      WInv n (absorb (emptyBranch caps0)) (absorb (emptyBranch caps1)) s :=
    fun s hr => reach_inv (WInv n (absorb (emptyBranch caps0)) (absorb (emptyBranch caps1))) (fun a b hi hs => winv_step hi hs) hr (winv_init n caps0 caps1 h0 h1)
  constructor
  · rintro ⟨s, hr, htodo, hno⟩
    obtain ⟨hw0, hw1, ha0, ha1, hh0, hh1, _⟩ := hinv s hr
    cases hturn : s.turn with
    | false =>
      have hk : n > absorb (emptyBranch caps0) := by
        cases hb : s.b0 with
        | nil => rw [hb] at ha0 hh0; simp [held, absorb, hturn] at ha0 hh0; omega
        | cons c r =>
          rw [hb] at hw0 ha0 hh0
          have hc := bwf_head hw0
          have hfull : c.buf = c.cap := by
            by_cases hlt : c.buf < c.cap
            · exact absurd (WStep.push0 htodo hturn hb hlt) (hno _)
            · omega
          have hstuck := stuck_full r c hw0 (fun b' hs => hno _ (WStep.in0 (by rw [hb]; exact hs))) hfull
          simp [hturn] at hh0
          omega
      exact Nat.lt_of_le_of_lt (Nat.min_le_left _ _) hk
    | true =>
      have hk : n > absorb (emptyBranch caps1) := by
        cases hb : s.b1 with
        | nil => rw [hb] at ha1 hh1; simp [held, absorb] at ha1 hh1; omega
        | cons c r =>
          rw [hb] at hw1 ha1 hh1
          have hc := bwf_head hw1
          have hfull : c.buf = c.cap := by
            by_cases hlt : c.buf < c.cap
            · exact absurd (WStep.push1 htodo hturn hb hlt) (hno _)
            · omega
          have hstuck := stuck_full r c hw1 (fun b' hs => hno _ (WStep.in1 (by rw [hb]; exact hs))) hfull
          omega
      exact Nat.lt_of_le_of_lt (Nat.min_le_right _ _) hk
  · intro hn
    obtain ⟨t, hrt, hterm⟩ := exists_terminal WStep wMu (fun a b h => wMu_step h)
      (wMu (wInit n caps0 caps1)) _ (Nat.le_refl _)
    refine ⟨t, hrt, ?_, hterm⟩
    obtain ⟨hw0, hw1, ha0, ha1, hh0, hh1, _⟩ := hinv t hrt
    have l0 := held_le_absorb _ hw0
    have l1 := held_le_absorb _ hw1
    rw [ha0] at l0
    rw [ha1] at l1
    have : min (absorb (emptyBranch caps0)) (absorb (emptyBranch caps1)) < n := hn
    rw [Nat.min_def] at this
    split at this <;> split at hh0 <;> omega

/-- the threshold is the closed form the harness and the driver compute from the capacity table -/
theorem absorb_closed_form (caps : List Nat) : absorb (emptyBranch caps) = absorbCaps caps := by
  have key : ∀ (caps : List Nat) (acc : Nat), caps.foldl (· + ·) acc = acc + caps.foldl (· + ·) 0 := by
    intro caps
    induction caps with
    | nil => intro acc; simp
    | cons a r ih => intro acc; simp only [List.foldl_cons]; rw [ih (acc + a), ih (0 + a)]; omega
  induction caps with
  | nil => rfl
  | cons a rest ih =>
    cases rest with
    | nil => simp [emptyBranch, absorb, absorbCaps]
    | cons b r =>
      simp only [emptyBranch, List.map_cons, absorb] at ih ⊢
      rw [ih]
      simp only [absorbCaps, List.foldl_cons, List.length_cons]
      rw [key r (0 + a + b), key r (0 + b)]
      omega

/-- the as-written threshold for `V().both()` on a graph with one in-edge per vertex, instantiated
    with TODAY's capacities (regenerated table): a hang is reachable iff the vertex count exceeds
    what the in-branch (chanIn, queryChan, the backend's channel, chanOut) and the out-branch absorb.
    (With the capacities of the pinned source these are 2203 and 2304.) -/
theorem both_as_written_vertex_threshold (n : Nat) :
    (∃ s, Reach WStep (wInit n (Gen.branchCaps "LookupVertexAdjIn") (Gen.branchCaps "LookupVertexAdjOut")) s ∧ WDeadlocked s)
      ↔ n > min (Gen.branchAbsorb "LookupVertexAdjIn") (Gen.branchAbsorb "LookupVertexAdjOut") := by
  have h0 : ∀ c ∈ Gen.branchCaps "LookupVertexAdjIn", 0 < c := by decide
  have h1 : ∀ c ∈ Gen.branchCaps "LookupVertexAdjOut", 0 < c := by decide
  rw [both_deadlock_threshold n _ _ h0 h1, absorb_closed_form, absorb_closed_form]
  rfl

/-! ## both as deployed (repaired), and aggregate -/

/-- `both_fixed_terminates`: a feeder goroutine forwarding every input item to two branches while
    both branch outputs are drained (both.Process after the repair; aggregate.Process with two
    aggregations has the same shape: the branches are then single consuming stages).  For all
    inputs, branch chains, positive capacities and interleavings:
    (1) a reachable state in which nothing can move is final (input closed, all stages ended);
    (2) from every reachable state a final state is reachable;
    (3) no execution has more than `bMu` steps. -/
theorem both_fixed_terminates {α : Type} (input : List α) (st0 st1 : List (Nat × (α → List α)))
    (h0 : ∀ s ∈ st0, 0 < s.1) (h1 : ∀ s ∈ st1, 0 < s.1) (hn0 : st0 ≠ []) (hn1 : st1 ≠ []) :
    (∀ s, Reach BStep (bInit input st0 st1) s → (∀ s', ¬ BStep s s') → BFinal s) ∧
    (∀ s, Reach BStep (bInit input st0 st1) s → ∃ t, Reach BStep s t ∧ BFinal t) ∧
    (∀ (run : Nat → BState α) (k : Nat), run 0 = bInit input st0 st1 →
        (∀ i, i < k → BStep (run i) (run (i + 1))) → k ≤ bMu (bInit input st0 st1)) := by
  have hinv : ∀ s, Reach BStep (bInit input st0 st1) s → BInv s :=
    fun s hr => reach_inv BInv (fun a b hi hs => binv_step hi hs) hr (binv_init input st0 st1 h0 h1 hn0 hn1)
  have hstuck : ∀ s : BState α, BInv s → (∀ s', ¬ BStep s s') → BFinal s := by
    intro s hi hno
    by_cases hf : BFinal s
    · exact hf
    · obtain ⟨s', hs⟩ := bprogress hi hf
      exact absurd hs (hno s')
  refine ⟨fun s hr hno => hstuck s (hinv s hr) hno, ?_, ?_⟩
  · intro s hr
    obtain ⟨t, hst, hterm⟩ := exists_terminal BStep bMu (fun a b h => bMu_step h) (bMu s) s (Nat.le_refl _)
    exact ⟨t, hst, hstuck t (hinv t (reach_trans hr hst)) hterm⟩
  · intro run k hr0 hrun
    have := run_bounded BStep bMu (fun a b h => bMu_step h) run k hrun
    rw [hr0] at this
    omega

/-- the deployed both.Process has the repaired shape (regenerated fact): its input is forwarded
    from a goroutine of its own and the other branch is drained concurrently. -/
theorem both_deployed_drains_while_feeding :
    GripGen.BuffersC07.bothFeedConcurrent = true ∧ GripGen.BuffersC07.bothDrainConcurrent = true := by decide

/-- `aggregate_terminates`, fan-out part: aggregate.Process feeds one channel per aggregation and
    every aggregation goroutine consumes its channel to the end before it emits (a stage with no
    per-item output): the two-aggregation instance of `both_fixed_terminates`. -/
theorem aggregate_fanout_terminates {α : Type} (input : List α) (cap : Nat) (hcap : 0 < cap) :
    ∀ s, Reach BStep (bInit input [(cap, fun _ => ([] : List α))] [(cap, fun _ => [])]) s →
      (∀ s', ¬ BStep s s') → BFinal s :=
  (both_fixed_terminates input _ _ (by simpa using hcap) (by simpa using hcap) (by simp) (by simp)).1

/-! ## the histogram bucket loop -/

/-- `aggregate_terminates`, bucket loop as repaired (`if bucket+i <= bucket { break }`): for ANY
    machine addition — exact, rounding, or stuck — the loop ends within `max + 1 - b` rounds. -/
theorem aggregate_terminates (add : Nat → Nat) (max : Nat) {b b' : Nat} (h : HStepG add max b b') :
    max + 1 - b' < max + 1 - b := by
  obtain ⟨h1, h2, h3⟩ := h
  omega

/-- the loop as it was written terminates only under the hypothesis that the addition advances —
    in exact arithmetic `0 < interval`; -/
theorem aggregate_terminates_partial (add : Nat → Nat) (max : Nat) (hadv : ∀ b, b ≤ max → b < add b)
    {b b' : Nat} (h : HStepU add max b b') : max + 1 - b' < max + 1 - b := by
  obtain ⟨h1, h2⟩ := h
  have := hadv b h1
  omega

/-- … and runs for ever when it does not (float64: 10^16 + 1 = 10^16): an endless result stream. -/
theorem histogram_as_written_diverges (add : Nat → Nat) (max b : Nat) (hb : b ≤ max) (hstall : add b = b) :
    ∀ k : Nat, ∃ run : Nat → Nat, run 0 = b ∧ ∀ i, i < k → HStepU add max (run i) (run (i + 1)) :=
  fun _ => ⟨fun _ => b, rfl, fun _ _ => ⟨hb, hstall.symm⟩⟩

/-- the deployed loop has the guard (regenerated fact) -/
theorem histogram_deployed_guarded : GripGen.BuffersC07.histogramAdvanceGuard = true := by decide

/-! ## cancellation -/

theorem src_inv {total : Nat} {s : SrcState} (h : Reach SrcStep (srcInit total) s) :
    s.total = total ∧ (s.pending = true → s.pos < s.total) ∧ s.emitted = s.pos := by
  refine reach_inv (fun s => s.total = total ∧ (s.pending = true → s.pos < s.total) ∧ s.emitted = s.pos) ?_ h ?_
  · intro a b ⟨h1, h2, h3⟩ hs
    cases hs with
    | check _ _ hlt _ => exact ⟨h1, fun _ => hlt, h3⟩
    | stop _ hp _ _ => exact ⟨h1, h2, h3⟩
    | finish _ _ _ => exact ⟨h1, h2, h3⟩
    | send _ _ _ => exact ⟨h1, by simp, by simp [h3]⟩
    | cancel _ => exact ⟨h1, h2, h3⟩
  · exact ⟨rfl, by simp [srcInit], rfl⟩

/-- `cancel_bounded`: once the context is cancelled a scanning source (GetVertexList/GetEdgeList)
    sends at most the one item it had already decided to send; it never scans on. -/
theorem cancel_bounded {s t : SrcState} (h : Reach SrcStep s t) (hc : s.cancelled = true) :
    t.emitted ≤ s.emitted + 1 := by
  have key : t.cancelled = true ∧
      t.emitted + (if t.pending then 1 else 0) ≤ s.emitted + (if s.pending then 1 else 0) := by
    refine reach_inv (fun t => t.cancelled = true ∧
      t.emitted + (if t.pending then 1 else 0) ≤ s.emitted + (if s.pending then 1 else 0)) ?_ h ⟨hc, Nat.le_refl _⟩
    intro a b ⟨h1, h2⟩ hs
    cases hs with
    | check _ _ _ hnc => rw [h1] at hnc; cases hnc
    | stop _ _ _ _ => exact ⟨h1, h2⟩
    | finish _ _ _ => exact ⟨h1, h2⟩
    | send _ hp _ => simp [hp] at h2; exact ⟨h1, by simp; omega⟩
    | cancel _ => exact ⟨rfl, h2⟩
  have := key.2
  split at this <;> split at this <;> omega

/-- cancelled or not, the source ends: every step decreases `srcMu`, and a source that cannot move
    has returned (its deferred close has closed the channel), so the stages behind it see a closed
    input after finitely many items and `chain_terminates` applies to them. -/
theorem source_always_stops (total : Nat) :
    (∀ s s', SrcStep s s' → srcMu s' < srcMu s) ∧
    (∀ s, Reach SrcStep (srcInit total) s → (∀ s', ¬ SrcStep s s') → s.stopped = true) := by
  constructor
  · intro s s' h
    cases h with
    | check hs hp _ _ => simp [srcMu, hs, hp]
    | stop hs _ _ _ => simp [srcMu, hs]
    | finish hs _ _ => simp [srcMu, hs]
    | send hs hp hlt => simp [srcMu, hs, hp]; omega
    | cancel hc => simp [srcMu, hc]
  · intro s hr hno
    obtain ⟨_, hp, _⟩ := src_inv hr
    cases hst : s.stopped with
    | true => rfl
    | false =>
      exfalso
      cases hpe : s.pending with
      | true => exact hno _ (SrcStep.send hst hpe (hp hpe))
      | false =>
        by_cases hlt : s.pos < s.total
        · cases hcn : s.cancelled with
          | true => exact hno _ (SrcStep.stop hst hpe hlt hcn)
          | false => exact hno _ (SrcStep.check hst hpe hlt hcn)
        · exact hno _ (SrcStep.finish hst hpe hlt)

/-- the facts about the code that the cancellation argument rests on (regenerated on every run):
    the kvgraph sources poll ctx.Done inside their scan loops; Limit and Range cancel the context
    they hand to the stages before them; no processor and no backend request loop can leave the
    loop over a channel it must drain (a stage that stops reading blocks its producer for ever);
    every processor closes its output. -/
theorem stages_drain_and_close :
    GripGen.BuffersC07.getVertexListChecksCtx = true ∧ GripGen.BuffersC07.getEdgeListChecksCtx = true ∧
    GripGen.BuffersC07.limitCancels = true ∧ GripGen.BuffersC07.rangeCancels = true ∧
    GripGen.BuffersC07.earlyExitProcessors = [] ∧ GripGen.BuffersC07.backendEarlyExit = [] ∧
    GripGen.BuffersC07.processorsNotClosingOut = [] := by decide

/-! ## temporary storage -/

/-- `cleanup_called`: on every path through the goroutine of pipeline.Run and pipeline.Resume, as
    the source stands today, Manager.Cleanup runs and the result channel is closed. -/
theorem cleanup_called :
    (∀ p ∈ runPaths GripGen.BuffersC07.runLoopExits GripGen.BuffersC07.runCleanup GripGen.BuffersC07.runCloseDeferred,
        pathCleansUp p = true) ∧
    (∀ p ∈ runPaths GripGen.BuffersC07.resumeLoopExits GripGen.BuffersC07.resumeCleanup GripGen.BuffersC07.resumeCloseDeferred,
        pathCleansUp p = true) := by decide

/-- what `cleanup_called` needs of the code, for every shape the translator can report -/
theorem cleanup_iff (exits closeDeferred : Bool) (pos : String) :
    (∀ p ∈ runPaths exits pos closeDeferred, pathCleansUp p = true) ↔
      (pos = "deferred" ∧ (exits = true → closeDeferred = true)) ∨ (pos = "after-loop" ∧ exits = false) := by
  by_cases h1 : pos = "deferred"
  · subst h1; cases exits <;> cases closeDeferred <;> decide
  · by_cases h2 : pos = "after-loop"
    · subst h2; cases exits <;> cases closeDeferred <;> decide
    · have e1 : (pos == "deferred") = false := by simpa using h1
      have e2 : (pos == "after-loop") = false := by simpa using h2
      cases exits <;> cases closeDeferred <;>
        simp [runPaths, pathCleansUp, e1, e2, h1, h2]

/-! ## the capacity table -/

/-- every channel on the path of a traveler has a positive capacity (hypothesis of the theorems) -/
theorem capacities_positive : ∀ c ∈ Gen.allCaps, 0 < c := by decide

end Grip.Props.C07
