/-
  C20 — SQL backends treat client-supplied identifiers as data.

  "For the PostgreSQL and existing-SQL drivers, the text of every statement sent to the database is
   structurally the same whatever characters occur in the ids, labels and graph names supplied by
   clients: client strings appear only as bound parameters or correctly quoted literals and can
   never add, remove or alter SQL tokens."

  SPEC   Grip.Spec.C20     the scanner (`run`, `shape`, `SameShape`) and the quoting functions
  MODEL  Grip.Model.C20    sites, `render`, the decidable safety check `Site.safeOn`
  TABLE  GripGen.SqlSites  every site of today's psql/ and existing-sql/ (regenerated on every run)

  Property theorems only; lemmas are in GripProofs/Lemmas/C20.lean.
-/
import Grip.Model.C20
import Grip.Model.C20Known
import GripGen.SqlSites
import GripProofs.Lemmas.C20

namespace Grip.Props.C20
open Grip.C20 GripGen.SqlSites

/-- MAIN THEOREM.  If a site passes the safety check on one argument vector `a` — no client value is
    spliced raw (a validated graph name may stand inside a literal), every quoted client value
    starts where its quote opens a literal / quoted identifier — then the token shape of the
    statement is the same for ALL argument vectors of the same list lengths: whatever characters
    the ids, labels, keys and names contain (quotes, backslashes, comment markers, `;`, unicode, NUL),
    they never add, remove or alter a token.  `ArgsOK` only says that values tagged `validated`
    contain no `'`, which is what gripql.ValidateGraphName guarantees (`validate_rejects_quote`).
    Proved by induction along the scanner run (Lemmas: `run_append`, `run_str_dbl`, `pieces_safe`). -/
theorem safe_site_shape (s : Site) (env : Env) (a b : Args)
    (hs : s.safeOn env a = true) (hl : sameLens a b s = true)
    (ha : ArgsOK a s = true) (hb : ArgsOK b s = true) :
    SameShape (render env a s) (render env b s) := by
  have hrun : (piecesSafeRun env a .dflt s.pieces).isSome = true := by
    unfold Site.safeOn at hs
    cases hc : s.clientFree with
    | true => exact Lemmas.clientFree_safeRun env a s.pieces (by simpa [Site.clientFree] using hc) .dflt
    | false => simp only [hc, Bool.false_or, Bool.and_eq_true] at hs; exact hs.2
  cases hr : piecesSafeRun env a .dflt s.pieces with
  | none => simp [hr] at hrun
  | some s' =>
    obtain ⟨evs, h⟩ := Lemmas.pieces_safe env a s.pieces .dflt s' hr
    have h1 := h a (Lemmas.sameLens_spec a a s (Lemmas.sameLens_refl a s)) ha
    have h2 := h b (Lemmas.sameLens_spec a b s hl) hb
    unfold SameShape shape render
    rw [h1, h2]

/-- Safety does not depend on which arguments it was checked with. -/
theorem safe_site_shape_any (s : Site) (env : Env) (a b c : Args)
    (hs : s.safeOn env a = true) (hab : sameLens a b s = true) (hac : sameLens a c s = true)
    (ha : ArgsOK a s = true) (hb : ArgsOK b s = true) (hc : ArgsOK c s = true) :
    SameShape (render env b s) (render env c s) := by
  have h1 := safe_site_shape s env a b hs hab ha hb
  have h2 := safe_site_shape s env a c hs hac ha hc
  unfold SameShape at *
  rw [← h1, h2]

/-- A correctly quoted literal is one token whatever it contains (the core of the main theorem):
    started between tokens, it emits "string opens" and ends just after the closing quote. -/
theorem quoted_literal_one_token (v : List Char) : run .dflt (quoteLit v) = (.strQ, [.strOpen]) :=
  Lemmas.run_quoteLit .dflt (by decide) v

theorem quoted_ident_one_token (v : List Char) : run .dflt (quoteIdent v) = (.qidQ, [.qidOpen]) :=
  Lemmas.run_quoteIdent .dflt (by decide) v

/-! ### What goes wrong without quoting (concrete witnesses) -/

/-- `DELETE FROM t WHERE gid='%s'` as psql.DelVertex writes it. -/
def rawSite : Site :=
  { id := "", num := 0, drv := "psql", file := "", fn := "", via := "", call := "Exec", tmpl := "",
    pieces := [.atom (.lit "DELETE FROM t WHERE gid='"), .atom (.cli .client .raw (.param "key")), .atom (.lit "'")],
    bound := [] }

/-- The same statement with the key passed through a quote-doubling helper. -/
def quotedSite : Site :=
  { rawSite with pieces := [.atom (.lit "DELETE FROM t WHERE gid="), .atom (.cli .client .quoteLit (.param "key"))] }

def benignKey : Args := { params := [("key", "a")], lists := [] }
def hostileKey : Args := { params := [("key", "x' OR '1'='1")], lists := [] }
def commentKey : Args := { params := [("key", "x'; DROP TABLE t; --")], lists := [] }

/-- WITNESS: a `'%s'` site without escaping changes the token shape for a hostile string. -/
theorem quote_breaks : ¬ SameShape (render [] hostileKey rawSite) (render [] benignKey rawSite) := by decide

theorem quote_breaks_comment : ¬ SameShape (render [] commentKey rawSite) (render [] benignKey rawSite) := by decide

/-- Non-vacuity of `safe_site_shape`: the quoted variant passes the check … -/
example : quotedSite.safeOn [] benignKey = true := by decide
/-- … and the hostile strings leave its shape alone (instances of the theorem, also checked directly). -/
example : SameShape (render [] hostileKey quotedSite) (render [] benignKey quotedSite) :=
  safe_site_shape quotedSite [] hostileKey benignKey (by decide) (by decide) (by decide) (by decide)
example : SameShape (render [] commentKey quotedSite) (render [] benignKey quotedSite) := by decide
/-- the raw variant does not pass the check -/
example : rawSite.safeOn [] benignKey = false := by decide
/-- a quoted value placed inside an already open literal is refused by the check -/
example : ({ rawSite with pieces := [.atom (.lit "SELECT 'x "), .atom (.cli .client .quoteLit (.param "key")), .atom (.lit "'")] } : Site).safeOn [] benignKey = false := by decide
/-- a quoted value behind an E prefix (escape string) is refused by the check -/
example : ({ rawSite with pieces := [.atom (.lit "SELECT E"), .atom (.cli .client .quoteLit (.param "key"))] } : Site).safeOn [] benignKey = false := by decide

/-! ### gripql.ValidateGraphName (blacklist regenerated from gripql/util.go) -/

def validGraphName (x : String) : Bool :=
  validateName validateBlacklist.toList (validatePrefixes.map String.toList) x.toList

/-- The validator refuses every name that contains a quote or a backslash, so a validated name is
    harmless *inside* a literal (the `validated` rule of the safety check). -/
theorem validate_rejects_quote :
    validateBlacklist.toList.contains '\'' = true ∧ validateBlacklist.toList.contains '"' = true ∧
    validateBlacklist.toList.contains '\\' = true ∧ validateBlacklist.toList.contains ';' = true := by decide

theorem validated_has_no_quote (x : List Char) (bl : List Char) (pf : List (List Char))
    (hq : bl.contains '\'' = true) (hv : validateName bl pf x = true) : x.contains '\'' = false := by
  unfold validateName at hv
  simp only [Bool.and_eq_true, Bool.not_eq_true'] at hv
  cases hc : x.contains '\'' with
  | false => rfl
  | true =>
    have hm : '\'' ∈ x := by simpa using hc
    have hb : '\'' ∈ bl := by simpa using hq
    have : x.any bl.contains = true := List.any_eq_true.mpr ⟨'\'', hm, by simpa using hb⟩
    rw [this] at hv; exact absurd hv.1 (by simp)

/-- WITNESS: the validator is a blacklist that lets white space other than the blank through, so a
    validated graph name used as a *table name* still changes the token shape
    (`CREATE TABLE IF NOT EXISTS a<TAB>b_vertices …`). -/
def createTableSite : Site :=
  { rawSite with pieces := [.atom (.lit "CREATE TABLE IF NOT EXISTS "),
      .atom (.cli .validated .raw (.replace (.param "graph") "-" "_")), .atom (.lit "_vertices (gid varchar PRIMARY KEY)")] }

theorem validate_gap :
    validGraphName "a\tb" = true ∧
    ¬ SameShape (render [] { params := [("graph", "a\tb")], lists := [] } createTableSite)
                (render [] { params := [("graph", "a")], lists := [] } createTableSite) := by decide

/-! ### The regenerated table -/

theorem table_extracted : extractionFailed = false := by decide

/-- TODAY'S OBLIGATION over the regenerated table: every site is safe — with every server value an
    identifier, for all client strings by `safe_site_shape` — or is one of the listed known findings.
    A new interpolating site, or a parameterised statement rewritten with Sprintf, has a new id and
    breaks this theorem.  (Full strength would be `all_sites_safe` with an empty list: it does not
    hold today, see `listed_sites_break`.) -/
theorem all_sites_safe_or_listed :
    ∀ s ∈ sites, s.safeOn s.identEnv (s.argsWith benignStr) = true ∨ s.num ∈ knownUnsafe := by decide +kernel

/-- Unfolded consequence for the safe sites of today's table: shape independence for all strings. -/
theorem unlisted_sites_shape_independent (s : Site) (hs : s ∈ sites) (hn : s.num ∉ knownUnsafe)
    (b : Args) (hl : sameLens (s.argsWith benignStr) b s = true)
    (ha : ArgsOK (s.argsWith benignStr) s = true) (hb : ArgsOK b s = true) :
    SameShape (render s.identEnv (s.argsWith benignStr) s) (render s.identEnv b s) := by
  cases all_sites_safe_or_listed s hs with
  | inl h => exact safe_site_shape s s.identEnv _ b h hl ha hb
  | inr h => exact absurd h hn

/-- The list is tight: every listed site of the table fails the check … -/
theorem listed_sites_unsafe :
    ∀ s ∈ sites, s.num ∈ knownUnsafe → s.safeOn s.identEnv (s.argsWith benignStr) = false := by decide +kernel

/-- … and for every listed site the full statement is false on a concrete witness: a hostile value
    (a quote; a tab for validated graph names) changes the token shape.  These are the open findings. -/
theorem listed_sites_break :
    ∀ s ∈ sites, s.num ∈ knownUnsafe →
      ¬ SameShape (render s.identEnv (s.argsWith hostileStr) s) (render s.identEnv (s.argsWith benignStr) s) := by
  decide +kernel

/-- The statements that carry client data as bound parameters only (AddVertex/AddEdge) and the
    statements without client data are exactly the unlisted ones; their text ignores the arguments. -/
theorem parameterised_sites_present :
    (sites.filter fun s => s.clientFree && !s.bound.isEmpty).length ≥ 2 := by decide

end Grip.Props.C20
