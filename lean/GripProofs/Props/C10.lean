/-
  Props.C10 — all embedded key-value drivers behave as the same ordered map.

  What is proved here (for every map, key, value, prefix and operation sequence — no bounds):
  the MODEL that the four drivers are compared against (`Grip.SMap`, `Grip.C10.step`) *is* an
  ordered byte-string map in the SPEC's sense (`Grip.Spec.C10`): point laws, invariant, seeks land
  on the least / greatest admissible key, `Next` is successor / predecessor, the prefix-scan loop
  equals a filter, transactions and bulk writes equal sequential application, and any two stores
  that refine the model are observationally identical.

  What is NOT proved: that Badger, Bolt, LevelDB and Pebble (third-party engines behind the thin
  adapters in kvi/*) refine the model.  That is checked by the correspondence run
  (go/harness/hx/c10.go), i.e. sampled.
-/
import Grip.Model.SMap
import Grip.Model.C10
import Grip.Spec.C10
import GripProofs.Lemmas.C10Order
import GripProofs.Lemmas.C10Map
import GripProofs.Lemmas.C10Iter
import GripProofs.Lemmas.C10Rev

namespace Grip.Props.C10
open Grip Grip.Bytes Grip.SMap Grip.Spec.C10 Grip.C10

/-! ## Byte-string order (= bytes.Compare) -/

/-- The key order is a strict total order. -/
theorem key_order_strict_total (a b c : Bytes) :
    blt a a = false ∧ (blt a b = true → blt b c = true → blt a c = true) ∧
    (blt a b = true ∨ a = b ∨ blt b a = true) := by
  refine ⟨Lemmas.blt_irrefl a, Lemmas.blt_trans, ?_⟩
  cases h1 : blt a b with
  | true => exact Or.inl rfl
  | false =>
    cases h2 : blt b a with
    | true => exact Or.inr (Or.inr rfl)
    | false => exact Or.inr (Or.inl (Lemmas.blt_total h1 h2))

/-- Keys sharing a prefix are contiguous: anything between two keys with prefix `p` has prefix `p`. -/
theorem prefix_contiguous {p a b c : Bytes} (ha : hasPrefix a p = true) (hc : hasPrefix c p = true)
    (hab : ble a b = true) (hbc : ble b c = true) : hasPrefix b p = true :=
  Lemmas.hasPrefix_between ha hc hab hbc

/-- …and they start at the least key ≥ the prefix: a key with prefix `p` is never below `p`. -/
theorem prefix_above {k p : Bytes} (h : hasPrefix k p = true) : ble p k = true :=
  Lemmas.ble_of_hasPrefix h

/-! ## Sorted-map laws -/

theorem get_set (m : List KV) (k v : Bytes) : SMap.get (SMap.set m k v) k = some v :=
  Lemmas.get_set_eq m k v

theorem get_set_ne (m : List KV) (k v k' : Bytes) (h : k' ≠ k) :
    SMap.get (SMap.set m k v) k' = SMap.get m k' :=
  Lemmas.get_set_ne m k v k' h

theorem get_delete (m : List KV) (k k' : Bytes) :
    SMap.get (SMap.delete m k) k' = if k' = k then none else SMap.get m k' :=
  Lemmas.get_delete m k k'

/-- `DeletePrefix p` removes exactly the keys that start with `p`. -/
theorem deletePrefix_spec (m : List KV) (p k : Bytes) :
    SMap.get (SMap.deletePrefix m p) k = if hasPrefix k p then none else SMap.get m k :=
  Lemmas.get_deletePrefix m p k

theorem has_iff_get (m : List KV) (k : Bytes) : SMap.has m k = true ↔ ∃ v, SMap.get m k = some v := by
  unfold SMap.has
  cases SMap.get m k <;> simp

/-- On a sorted map, `Get` answers membership (no shadowed duplicates). -/
theorem get_iff_mem {m : List KV} (hs : Sorted m) (k v : Bytes) :
    SMap.get m k = some v ↔ (k, v) ∈ m :=
  ⟨Lemmas.mem_of_get_eq_some, Lemmas.get_eq_some_of_mem hs⟩

/-- Every mutation keeps the invariant (strictly ascending keys, hence no duplicate keys). -/
theorem set_keeps_sorted {m : List KV} (hs : Sorted m) (k v : Bytes) : Sorted (SMap.set m k v) :=
  Lemmas.set_sorted k v hs

theorem delete_keeps_sorted {m : List KV} (hs : Sorted m) (k : Bytes) : Sorted (SMap.delete m k) :=
  Lemmas.filter_sorted _ hs

theorem deletePrefix_keeps_sorted {m : List KV} (hs : Sorted m) (p : Bytes) :
    Sorted (SMap.deletePrefix m p) :=
  Lemmas.filter_sorted _ hs

/-! ## Seeks and iteration -/

/-- `Seek(k)` lands on the entry with the least key ≥ `k`, and is invalid exactly when every key
    is below `k`. -/
theorem seek_least_ge {m : List KV} (hs : Sorted m) (it : Iter) (k : Bytes) :
    match (Iter.seek m it k).cur with
    | some kv => IsLeastGE m k kv
    | none => ∀ y ∈ m, blt y.1 k = true := by
  unfold Iter.seek
  simp only
  cases h : Iter.firstGE m k with
  | some kv => exact Lemmas.find_sorted_min hs h
  | none =>
    intro y hy
    have := Lemmas.find_none h y hy
    simpa [ble] using this

/-- `SeekReverse(k)` lands on the entry with the greatest key ≤ `k` — in particular on the last
    key when `k` is beyond the end — and is invalid exactly when every key is above `k`.
    (This is how kvindex uses it: `SeekReverse(upper bound of a range)`.  Before the repairs
    recorded in findings/C10.jsonl only Badger did this; Bolt, LevelDB and Pebble answered
    "invalid" beyond the last key and "valid with an empty key" before the first.) -/
theorem seekReverse_greatest_le {m : List KV} (hs : Sorted m) (it : Iter) (k : Bytes) :
    match (Iter.seekReverse m it k).cur with
    | some kv => IsGreatestLE m k kv
    | none => ∀ y ∈ m, blt k y.1 = true := by
  unfold Iter.seekReverse
  simp only
  cases h : Iter.lastLE m k with
  | some kv => exact Lemmas.findrev_sorted_max hs h
  | none =>
    intro y hy
    have := Lemmas.findrev_none h y hy
    simpa [ble] using this

/-- A seek target beyond the last key: `SeekReverse` is valid as soon as the map is not empty. -/
theorem seekReverse_beyond_end {m : List KV} (hs : Sorted m) (it : Iter) (k : Bytes) (x : KV)
    (hx : x ∈ m) (hk : ∀ y ∈ m, blt y.1 k = true) : (Iter.seekReverse m it k).valid = true := by
  have := seekReverse_greatest_le hs it k
  unfold Iter.valid
  cases h : (Iter.seekReverse m it k).cur with
  | some kv => rfl
  | none =>
    rw [h] at this
    have h1 := this x hx
    have h2 := hk x hx
    simp [Lemmas.blt_asymm h2] at h1

/-- Forward `Next()` moves to the successor; it becomes invalid exactly on the last key. -/
theorem next_succ {m : List KV} (hs : Sorted m) (k v : Bytes) :
    match (Iter.next m { forward := true, cur := some (k, v) }).cur with
    | some kv => IsSucc m k kv
    | none => ∀ y ∈ m, ble y.1 k = true := by
  simp only [Iter.next, if_true]
  cases h : Iter.firstGT m k with
  | some kv => exact Lemmas.find_sorted_min hs h
  | none =>
    intro y hy
    have := Lemmas.find_none h y hy
    simpa [ble] using this

/-- Backward `Next()` (after `SeekReverse`) moves to the predecessor; invalid exactly on the first key. -/
theorem next_pred {m : List KV} (hs : Sorted m) (k v : Bytes) :
    match (Iter.next m { forward := false, cur := some (k, v) }).cur with
    | some kv => IsPred m k kv
    | none => ∀ y ∈ m, ble k y.1 = true := by
  simp only [Iter.next, Bool.false_eq_true, if_false]
  cases h : Iter.lastLT m k with
  | some kv => exact Lemmas.findrev_sorted_max hs h
  | none =>
    intro y hy
    have := Lemmas.findrev_none h y hy
    simpa [ble] using this

/-- An invalid iterator stays invalid under `Next()`. -/
theorem next_invalid (m : List KV) (f : Bool) :
    (Iter.next m { forward := f, cur := none }).valid = false := rfl

/-- The loop every caller writes — `for it.Seek(p); it.Valid() && HasPrefix(it.Key(), p); it.Next()` —
    enumerates exactly the entries whose key starts with `p`, in key order, whatever state the
    (reused) iterator was in.  Unbounded: any map size. -/
theorem scan_eq_filter {m : List KV} (hs : Sorted m) (it : Iter) (p : Bytes) :
    (Iter.scan m it p).1 = prefixEntries m p :=
  Lemmas.scan_eq_filter hs it p

/-- The reverse loop of kvindex's numeric scans —
    `for it.SeekReverse(k); it.Valid() && HasPrefix(it.Key(), p); it.Next()` — enumerates the
    entries with key ≤ `k` in DESCENDING key order for as long as they carry the prefix `p`,
    whatever state the (reused) iterator was in.  Unbounded: any map size. -/
theorem scanReverse_eq {m : List KV} (hs : Sorted m) (it : Iter) (k p : Bytes) :
    (Iter.scanReverse m it k p).1 =
      ((m.filter (fun kv => ble kv.1 k)).reverse).takeWhile (fun kv => hasPrefix kv.1 p) :=
  Lemmas.scanReverse_eq hs it k p

/-- Hence everything a reverse scan returns is an entry of the map with the prefix and a key at or
    below the start key. -/
theorem scanReverse_sound {m : List KV} (hs : Sorted m) (it : Iter) (k p : Bytes) :
    ∀ kv ∈ (Iter.scanReverse m it k p).1, kv ∈ m ∧ hasPrefix kv.1 p = true ∧ ble kv.1 k = true := by
  intro kv hkv
  rw [scanReverse_eq hs] at hkv
  have hp : hasPrefix kv.1 p = true := by
    have : ∀ (l : List KV), kv ∈ l.takeWhile (fun kv => hasPrefix kv.1 p) → hasPrefix kv.1 p = true := by
      intro l
      induction l with
      | nil => intro h; cases h
      | cons a l ih =>
        intro h
        rw [List.takeWhile_cons] at h
        split at h
        · rename_i ha
          rcases List.mem_cons.mp h with rfl | h
          · exact ha
          · exact ih h
        · cases h
    exact this _ hkv
  have hm := (List.takeWhile_sublist _).mem hkv
  rw [List.mem_reverse, List.mem_filter] at hm
  exact ⟨hm.1, hp, hm.2⟩

/-- The scan with an empty prefix is a full dump. -/
theorem scan_all {m : List KV} (hs : Sorted m) (it : Iter) : (Iter.scan m it []).1 = m := by
  rw [scan_eq_filter hs]
  unfold prefixEntries
  apply List.filter_eq_self.mpr
  intro a _
  exact Lemmas.hasPrefix_nil a.1

/-! ## Transactions and bulk writes = sequential application -/

/-- Reads inside a transaction see exactly the sequentially applied state. -/
theorem tx_get_eq_seq (m : List KV) (ws : List Write) (k : Bytes) :
    (Tx.writes { base := m } ws).get k = SMap.get (applyWrites m ws) k := by
  have h1 := Lemmas.tx_get_eq_commit (Tx.writes { base := m } ws).base (Tx.writes { base := m } ws).pend k
  have h2 := Lemmas.commit_writes ws { base := m }
  simp only [Tx.commit, Tx.flush] at h2
  rw [← h2]
  exact h1

/-- Committing a transaction equals applying its writes one after the other. -/
theorem commit_eq_seq (m : List KV) (ws : List Write) :
    (Tx.writes { base := m } ws).commit = applyWrites m ws := by
  have := Lemmas.commit_writes ws { base := m }
  simpa [Tx.commit, Tx.flush] using this

private theorem txSteps_tx : ∀ (steps : List TxStep) (t : Tx),
    (txSteps t steps).1 = Tx.writes t (writesOf steps)
  | [], t => rfl
  | s :: rest, t => by
    cases s <;> simp [txSteps, txStep, writesOf, Tx.writes, txSteps_tx rest] <;> rfl

/-- `Update(callback)` with a callback that returns no error = the callback's writes applied in
    program order (reads and nested `View`s do not change the store). -/
theorem update_eq_seq (m : List KV) (steps : List TxStep) :
    (runUpdate m steps false).1 = applyWrites m (writesOf steps) := by
  simp only [runUpdate, Bool.false_eq_true, if_false]
  rw [txSteps_tx, commit_eq_seq]

/-- `BulkWrite(callback)` = the sets applied one after the other. -/
theorem bulk_eq_seq (m : List KV) (sets : List KV) :
    runBulk m sets false = sets.foldl (fun s kv => SMap.set s kv.1 kv.2) m := by
  simp only [runBulk, Bool.false_eq_true, if_false]
  rw [commit_eq_seq]
  unfold applyWrites
  rw [List.foldl_map]
  rfl

/-- A callback that returns an error leaves the MODEL unchanged; what the drivers do then is not
    fixed by the property (reported, not judged — the harness re-reads the store, `Op.sync`). -/
theorem failed_callback_model (m : List KV) (steps : List TxStep) (sets : List KV) :
    (runUpdate m steps true).1 = m ∧ runBulk m sets true = m := by
  simp [runUpdate, runBulk]

/-! ## The whole interface keeps the invariant, and drivers that refine it are indistinguishable -/

def opOk : Op → Prop
  | .sync kvs => Sorted kvs
  | _ => True

theorem step_keeps_sorted {m : List KV} (hs : Sorted m) (op : Op) (hop : opOk op) :
    Sorted (step m op).1 := by
  cases op with
  | set k v => exact Lemmas.set_sorted k v hs
  | get k => exact hs
  | has k => exact hs
  | del k => exact Lemmas.filter_sorted _ hs
  | delPrefix p => exact Lemmas.filter_sorted _ hs
  | dump => exact hs
  | view steps => exact hs
  | update steps fail =>
    cases fail with
    | true => simpa [step, runUpdate] using hs
    | false =>
      show Sorted (runUpdate m steps false).1
      rw [update_eq_seq]
      exact Lemmas.applyWrites_sorted _ hs
  | bulk sets fail =>
    cases fail with
    | true => simpa [step, runBulk] using hs
    | false =>
      show Sorted (runBulk m sets false)
      simp only [runBulk, Bool.false_eq_true, if_false]
      rw [commit_eq_seq]
      exact Lemmas.applyWrites_sorted _ hs
  | sync kvs => exact hop

theorem run_keeps_sorted : ∀ (ops : List Op) {m : List KV}, Sorted m → (∀ o ∈ ops, opOk o) →
    Sorted (run m ops)
  | [], _, hs, _ => hs
  | o :: ops, m, hs, h => by
    simp only [run, List.foldl_cons]
    exact run_keeps_sorted ops (step_keeps_sorted hs o (h o (by simp)))
      (fun o' ho' => h o' (List.mem_cons_of_mem _ ho'))

/-- A store seen through the interface: a state, a step function and the map it stands for. -/
structure Store where
  State : Type
  step : State → Op → State × Obs
  abs : State → List KV

/-- `S` refines the model: every call answers as the model does on the abstract content. -/
def Refines (S : Store) : Prop :=
  ∀ s op, S.abs (S.step s op).1 = (C10.step (S.abs s) op).1 ∧ (S.step s op).2 = (C10.step (S.abs s) op).2

def observe (S : Store) : S.State → List Op → List Obs
  | _, [] => []
  | s, o :: ops => (S.step s o).2 :: observe S (S.step s o).1 ops

/-- Driver independence: two stores that refine the ordered-map model and start from the same
    content give identical answers to every operation sequence — so the same mutation history and
    traversal produce identical results whichever store backs the graph. -/
theorem driver_independence (A B : Store) (ha : Refines A) (hb : Refines B) :
    ∀ (ops : List Op) (a : A.State) (b : B.State), A.abs a = B.abs b →
      observe A a ops = observe B b ops
  | [], _, _, _ => rfl
  | o :: ops, a, b, h => by
    simp only [observe]
    have h1 := ha a o
    have h2 := hb b o
    rw [h1.2, h2.2, h]
    congr 1
    apply driver_independence A B ha hb ops
    rw [h1.1, h2.1, h]

/-! ## Non-vacuity (tests, not proofs of the property) -/

def ex : List KV := [([97], [1]), ([97, 98], []), ([97, 99], [2]), ([98], [3])]

example : Sorted ex := by unfold ex Sorted; decide
example : (Iter.scan ex {} [97]).1 = [([97], [1]), ([97, 98], []), ([97, 99], [2])] := by decide
example : (Iter.seekReverse ex {} [255]).cur = some ([98], [3]) := by decide
example : (Iter.seekReverse ex {} [96]).cur = none := by decide
example : (Iter.seek ex {} [97, 98, 0]).cur = some ([97, 99], [2]) := by decide
example : (Iter.next ex { forward := false, cur := some ([97, 98], []) }).cur = some ([97], [1]) := by decide
example : SMap.deletePrefix ex [97] = [([98], [3])] := by decide
/-- The model refines itself (so `Refines` is satisfiable). -/
example : Refines { State := List KV, step := C10.step, abs := id } := fun _ _ => ⟨rfl, rfl⟩

end Grip.Props.C10
