/-
  Property C15, the edge lookup by id (`GetEdge`, the `E(ids)` start of a traversal).
  Property theorems only; lemmas are in GripProofs/Lemmas/C15Edge.lean, the hypotheses
  (`DashFree`, `SharedIdsAgree`, …) in Grip/Spec/C15Edge.lean.

  MODEL = `tgGetEdge` (ParseEdge + GetEdge of gripper/graph.go, sources.go; Grip.Model.C15),
  SPEC = the lookup of the id among the edges of `materialise t m`.

  Summary of what is true of the model (= of the Go code):
  * GetEdge never invents: an answer is a materialised edge with the id asked for (no hypothesis);
  * GetEdge misses exactly the ids ParseEdge refuses: those that do not hold exactly two `-`
    (`edge_lookup_exact`), so a listed edge is not found iff one of its ends or its label holds a
    `-` (`listed_not_found_iff_extra_dash`; the open finding C15-edge-id-dash, exactly);
  * the hypothesis "no `-` in vertex prefixes, vertex-table row ids and labels" (`DashFreeIds`)
    is NOT enough: the id is built from the link values, and a dangling link value may hold a `-`
    (`dashfree_ids_not_enough`); `DashFree` adds the link values (or use `NoDangling`);
  * when two link rows share an edge id, GetEdge answers with the LAST such row of the first
    source, the materialised graph's `getEdge` with the first: equal as functions only when edges
    sharing an id are equal (`SharedIdsAgree`; `shared_ids_needed`).
-/
import Grip.Model.C15
import Grip.Spec.C15
import Grip.Spec.C15Edge
import GripProofs.Lemmas.C15
import GripProofs.Lemmas.C15Edges
import GripProofs.Lemmas.C15Run
import GripProofs.Lemmas.C15Edge
import GripProofs.Props.C15

namespace Grip.Props.C15
open Grip Grip.C15 Grip.Spec.C15 Grip.Props.C15.Lemmas

/-! ### (2) ParseEdge against GenID -/

/-- ParseEdge accepts exactly the ids `a-b-c` with dash-free `a`, `b`, `c` and returns these parts
    (in its order: source, destination, label). -/
theorem parse_eq_some_iff (key a b c : String) :
    parseEdge key = some (a, c, b) ↔
      (key = a ++ "-" ++ b ++ "-" ++ c ∧ noDash a = true ∧ noDash b = true ∧ noDash c = true) :=
  parseEdge_eq_some_iff key a b c

/-- ParseEdge accepts an id iff it holds exactly two `-`. -/
theorem parse_accepts_iff_two_dashes (key : String) : parseEdge key ≠ none ↔ dashCount key = 2 := by
  rw [Ne, parseEdge_eq_none_iff]
  exact Decidable.not_not

/-- The round trip, for any edge source (outbound or flipped) and any two row ids: when the two
    prefixes, the label and the two row ids hold no `-`, the id GenID builds parses back into
    GenID's three parts. -/
theorem genID_parses (es : ESource) (src dst : String)
    (h : noDash es.fromPfx = true ∧ noDash es.toPfx = true ∧ noDash es.label = true ∧
      noDash src = true ∧ noDash dst = true) :
    parseEdge (es.genID src dst) =
      some (if es.reverse then (es.toPfx ++ src, es.fromPfx ++ dst, es.label)
            else (es.fromPfx ++ src, es.toPfx ++ dst, es.label)) := by
  obtain ⟨h1, h2, h3, h4, h5⟩ := h
  unfold ESource.genID
  cases es.reverse
  · simp only [Bool.false_eq_true, if_false]
    have e : es.fromPfx ++ src ++ "-" ++ es.label ++ "-" ++ es.toPfx ++ dst =
        (es.fromPfx ++ src) ++ "-" ++ es.label ++ "-" ++ (es.toPfx ++ dst) := by
      simp [String.append_assoc]
    rw [e]
    exact (parseEdge_eq_some_iff _ _ _ _).2 ⟨rfl, by simp [noDash_append, h1, h4], h3, by simp [noDash_append, h2, h5]⟩
  · simp only [if_true]
    have e : es.toPfx ++ src ++ "-" ++ es.label ++ "-" ++ es.fromPfx ++ dst =
        (es.toPfx ++ src) ++ "-" ++ es.label ++ "-" ++ (es.fromPfx ++ dst) := by
      simp [String.append_assoc]
    rw [e]
    exact (parseEdge_eq_some_iff _ _ _ _).2 ⟨rfl, by simp [noDash_append, h2, h4], h3, by simp [noDash_append, h1, h5]⟩

/-- WITHOUT any dash-free hypothesis, the exact characterisation of the ids that do not round-trip:
    ParseEdge refuses the id GenID builds iff one of the two prefixes, the label or one of the two
    row ids holds a `-` (and otherwise returns GenID's parts, `genID_parses`). -/
theorem parse_fails_iff_extra_dash (es : ESource) (src dst : String) :
    parseEdge (es.genID src dst) = none ↔
      ¬ (noDash es.fromPfx = true ∧ noDash es.toPfx = true ∧ noDash es.label = true ∧
         noDash src = true ∧ noDash dst = true) := by
  constructor
  · intro h hall
    rw [genID_parses es src dst hall] at h
    cases h
  · intro h
    rw [parseEdge_eq_none_iff]
    intro h2
    apply h
    simp only [noDash_iff_count]
    unfold ESource.genID at h2
    cases hr : es.reverse
    · simp only [hr, Bool.false_eq_true, if_false] at h2
      have e : es.fromPfx ++ src ++ "-" ++ es.label ++ "-" ++ es.toPfx ++ dst =
          (es.fromPfx ++ src) ++ "-" ++ es.label ++ "-" ++ (es.toPfx ++ dst) := by
        simp [String.append_assoc]
      rw [e, dashCount_id] at h2
      simp only [dashCount, String.toList_append, List.count_append] at h2 ⊢
      omega
    · simp only [hr, if_true] at h2
      have e : es.toPfx ++ src ++ "-" ++ es.label ++ "-" ++ es.fromPfx ++ dst =
          (es.toPfx ++ src) ++ "-" ++ es.label ++ "-" ++ (es.fromPfx ++ dst) := by
        simp [String.append_assoc]
      rw [e, dashCount_id] at h2
      simp only [dashCount, String.toList_append, List.count_append] at h2 ⊢
      omega

/-- Under `DashFree` every edge id of the graph parses back into (from, to, label) of its edge:
    the ids GetEdgeList emits, i.e. the ids of the materialised edges, i.e. what GenID makes of every
    link row that is an edge. -/
theorem edge_ids_parse (t : Tables) (m : Mapping) (hd : EndsDeclared m) (hdf : DashFree t m) :
    (∀ x ∈ (materialise t m).edges, parseEdge x.gid = some (x.frm, x.to, x.label)) ∧
    (PrefixFree m → ∀ x ∈ tgEdgeList t m, parseEdge x.gid = some (x.frm, x.to, x.label)) ∧
    (∀ e ∈ m.edges, ∀ r ∈ t.rows e.table, ∀ f d,
      fieldString r.data e.fromField = some f → fieldString r.data e.toField = some d →
      f ≠ "" → d ≠ "" →
      parseEdge ((outSource e).genID f d) = some (e.frm ++ f, e.to ++ d, e.label)) := by
  have hde := dashFreeEdges_of_dashFree t m hd hdf
  have hparts := edgeParts_of_dashFreeEdges t m hde
  have h1 : ∀ x ∈ (materialise t m).edges, parseEdge x.gid = some (x.frm, x.to, x.label) :=
    fun x hx => edge_parse t m x hx (hparts x hx)
  refine ⟨h1, fun hp x hx => h1 x ((edgeList_perm t m hp hd).mem_iff.1 hx), ?_⟩
  intro e he r hr f d hf hdd hfe hde'
  obtain ⟨n1, n2, n3, n4⟩ := hde e he
  have n5 := n4 r hr
  simp only [linkDashFree, hf, hdd, Bool.or_eq_true, beq_iff_eq, hfe, hde', false_or,
    Bool.and_eq_true] at n5
  have := genID_parses (outSource e) f d ⟨n1, n2, n3, n5.1, n5.2⟩
  rw [this]
  rfl

/-! ### (1) the edge lookup by id -/

/-- GetEdge never invents an edge: whatever it answers is an edge of the materialised graph and
    carries the id asked for.  No hypothesis on tables or mapping. -/
theorem edge_lookup_sound (t : Tables) (m : Mapping) (key : String) (x : Elem)
    (h : tgGetEdge t m key = some x) : x ∈ (materialise t m).edges ∧ x.gid = key :=
  getEdge_sound t m key x h

/-- Exactly what GetEdge misses, WITHOUT any dash-free hypothesis: it answers nothing iff ParseEdge
    refuses the id (it does not hold exactly two `-`) or no materialised edge carries it. -/
theorem edge_lookup_exact (t : Tables) (m : Mapping) (hd : EndsDeclared m) (key : String) :
    tgGetEdge t m key = none ↔
      (parseEdge key = none ∨ ∀ x ∈ (materialise t m).edges, x.gid ≠ key) := by
  constructor
  · intro h
    by_cases hp : parseEdge key = none
    · exact Or.inl hp
    · refine Or.inr (fun x hx hg => ?_)
      subst hg
      exact getEdge_complete t m hd x hx hp h
  · rintro (hp | hno)
    · rw [tgGetEdge_eq, hp]
    · cases h : tgGetEdge t m key with
      | none => rfl
      | some x =>
        obtain ⟨hx, hg⟩ := getEdge_sound t m key x h
        exact absurd hg (hno x hx)

/-- A listed (materialised) edge is not found by its own id iff one of its ends or its label holds
    a `-`: the region of the open finding C15-edge-id-dash, exactly. -/
theorem listed_not_found_iff_extra_dash (t : Tables) (m : Mapping) (hd : EndsDeclared m) (x : Elem)
    (hx : x ∈ (materialise t m).edges) :
    tgGetEdge t m x.gid = none ↔
      ¬ (noDash x.frm = true ∧ noDash x.label = true ∧ noDash x.to = true) := by
  rw [edge_lookup_exact t m hd, ← edge_parses_iff t m x hx]
  constructor
  · rintro (h | h)
    · exact fun hn => hn h
    · exact absurd rfl (h x hx)
  · intro h
    exact Or.inl (Decidable.not_not.1 h)

/-- The lookup theorem under the exact hypothesis (`EdgePartsDashFree`: the ends and the label of
    every materialised edge hold no `-`), for EVERY id string:
    * an answer is one of the edges of the materialised graph with that id;
    * the answer is `none` iff there is no such edge;
    * hence GetEdge answers iff the materialised graph's lookup does;
    * and when edges sharing an id are equal, the two lookups are the same function. -/
theorem edge_lookup_eq_parts (t : Tables) (m : Mapping) (hd : EndsDeclared m)
    (hdf : EdgePartsDashFree t m) (key : String) :
    (∀ x, tgGetEdge t m key = some x → x ∈ (materialise t m).edges ∧ x.gid = key) ∧
    (tgGetEdge t m key = none ↔ ∀ x ∈ (materialise t m).edges, x.gid ≠ key) ∧
    ((tgGetEdge t m key).isSome = ((materialise t m).getEdge key).isSome) ∧
    (SharedIdsAgree t m → tgGetEdge t m key = (materialise t m).getEdge key) := by
  have hnone : tgGetEdge t m key = none ↔ ∀ x ∈ (materialise t m).edges, x.gid ≠ key := by
    rw [edge_lookup_exact t m hd]
    constructor
    · rintro (hp | h)
      · intro x hx hg
        subst hg
        exact (edge_parses_iff t m x hx).2 (hdf x hx) hp
      · exact h
    · exact Or.inr
  refine ⟨fun x => getEdge_sound t m key x, hnone, ?_, fun hs => getEdge_eq_of_parts t m hd hs hdf key⟩
  rw [Bool.eq_iff_iff, Option.isSome_iff_ne_none, Ne, hnone]
  simp only [AGraph.getEdge, List.find?_isSome, beq_iff_eq]
  constructor
  · intro h
    apply Classical.byContradiction
    intro hne
    exact h (fun x hx hg => hne ⟨x, hx, hg⟩)
  · rintro ⟨x, hx, hg⟩ h
    exact h x hx hg

/-- (1) `edge_lookup_eq`: under `EndsDeclared` and `DashFree`, for EVERY id string, `tgGetEdge t m id`
    is the lookup of the id in `materialise t m`: the answer is one of the edges of the materialised
    graph with that id, and is `none` iff there is none.  When two link rows share one id the
    materialised graph has two edges with that id: GetEdge answers with one of them (the last such
    row of the first source), `AGraph.getEdge` with the first; they are the same function when
    edges sharing an id are equal.  (`PrefixFree` and `configOk` are not needed; `configOk` gives
    `EndsDeclared`: `edge_lookup_eq_configOk`.) -/
theorem edge_lookup_eq (t : Tables) (m : Mapping) (hd : EndsDeclared m) (hdf : DashFree t m)
    (key : String) :
    (∀ x, tgGetEdge t m key = some x → x ∈ (materialise t m).edges ∧ x.gid = key) ∧
    (tgGetEdge t m key = none ↔ ∀ x ∈ (materialise t m).edges, x.gid ≠ key) ∧
    ((tgGetEdge t m key).isSome = ((materialise t m).getEdge key).isSome) ∧
    (SharedIdsAgree t m → tgGetEdge t m key = (materialise t m).getEdge key) :=
  edge_lookup_eq_parts t m hd (edgeParts_of_dashFreeEdges t m (dashFreeEdges_of_dashFree t m hd hdf)) key

/-- The same with the hypotheses of an accepted configuration. -/
theorem edge_lookup_eq_configOk (t : Tables) (m : Mapping) (hc : configOk t m = true)
    (hdf : DashFree t m) (key : String) :
    (∀ x, tgGetEdge t m key = some x → x ∈ (materialise t m).edges ∧ x.gid = key) ∧
    (tgGetEdge t m key = none ↔ ∀ x ∈ (materialise t m).edges, x.gid ≠ key) ∧
    ((tgGetEdge t m key).isSome = ((materialise t m).getEdge key).isSome) ∧
    (SharedIdsAgree t m → tgGetEdge t m key = (materialise t m).getEdge key) :=
  edge_lookup_eq t m (configOk_ends_declared t m hc) hdf key

/-- The hypothesis as first worded (`DashFreeIds`: no `-` in vertex prefixes, vertex-table row ids,
    labels) is enough when no edge dangles (`NoDangling`). -/
theorem edge_lookup_eq_ids (t : Tables) (m : Mapping) (hd : EndsDeclared m) (hdf : DashFreeIds t m)
    (hn : NoDangling t m) (key : String) :
    (∀ x, tgGetEdge t m key = some x → x ∈ (materialise t m).edges ∧ x.gid = key) ∧
    (tgGetEdge t m key = none ↔ ∀ x ∈ (materialise t m).edges, x.gid ≠ key) ∧
    ((tgGetEdge t m key).isSome = ((materialise t m).getEdge key).isSome) ∧
    (SharedIdsAgree t m → tgGetEdge t m key = (materialise t m).getEdge key) :=
  edge_lookup_eq_parts t m hd (edgeParts_of_ids_noDangling t m hdf hn) key

/-- The hypothesis is exact: every materialised edge is found by its id iff `EdgePartsDashFree`. -/
theorem all_edges_found_iff (t : Tables) (m : Mapping) (hd : EndsDeclared m) :
    (∀ x ∈ (materialise t m).edges, tgGetEdge t m x.gid ≠ none) ↔ EdgePartsDashFree t m := by
  constructor
  · intro h x hx
    exact Decidable.not_not.1 (fun hn => h x hx ((listed_not_found_iff_extra_dash t m hd x hx).2 hn))
  · intro h x hx hnone
    exact (listed_not_found_iff_extra_dash t m hd x hx).1 hnone (h x hx)

/-! ### (3) traversals with `E(ids)` -/

/-- The start step `E(ids)` (and `E()`): the rows agree as multisets. -/
theorem E_ids_rows_agree (t : Tables) (m : Mapping) (hp : PrefixFree m) (hd : EndsDeclared m)
    (hdf : DashFree t m) (hs : SharedIdsAgree t m) (ids : List String) (tr : Traveler) :
    (rStepE (tgReads t m) ids tr).Perm (rStepE (Reads.ofGraph (materialise t m)) ids tr) := by
  have hg : (tgReads t m).getEdge = (Reads.ofGraph (materialise t m)).getEdge :=
    funext (fun key => (edge_lookup_eq t m hd hdf key).2.2.2 hs)
  unfold rStepE
  split
  · exact (edgeList_perm t m hp hd).map _
  · rw [hg]

/-- The reduction: a traversal of order-free statements, `E(ids)` included, returns on the gripper
    graph what it returns on the materialised graph as soon as the two graphs answer the looked-up
    edge ids alike. -/
theorem traversal_eq_of_lookups_agree (numOf : String → Option Int) (t : Tables) (m : Mapping)
    (hp : PrefixFree m) (hd : EndsDeclared m) (stmts : List Stmt)
    (hs : ∀ s ∈ stmts, orderFree s = true)
    (hE : ∀ id ∈ lookedUp stmts, tgGetEdge t m id = (materialise t m).getEdge id) :
    SameRows (runT numOf t m stmts) (run numOf (materialise t m) stmts) := by
  rw [tabularOptimizer_preserves_gripper, ← reads_of_graph_is_run]
  exact runPlainR_permE numOf (reads_agree t m hp hd) stmts hs hE

/-- (3) `traversal_eq_with_edge_ids`: `traversal_eq_partial` extended to traversals with `E(ids)`
    (at the start, where Validate allows it — or anywhere): under `DashFree`, and when edges
    sharing an id are equal, every traversal of order-free statements returns the same compile
    error or the same rows as multisets on the gripper graph and on the materialised graph.
    (Still excluded, as in `traversal_eq_partial`: `limit/skip/range/distinct`, whose SPEC is a
    sub-multiset, not an equality of rows.) -/
theorem traversal_eq_with_edge_ids (numOf : String → Option Int) (t : Tables) (m : Mapping)
    (hp : PrefixFree m) (hd : EndsDeclared m) (hdf : DashFree t m) (hsh : SharedIdsAgree t m)
    (stmts : List Stmt) (hs : ∀ s ∈ stmts, orderFree s = true) :
    SameRows (runT numOf t m stmts) (run numOf (materialise t m) stmts) :=
  traversal_eq_of_lookups_agree numOf t m hp hd stmts hs
    (fun id _ => (edge_lookup_eq t m hd hdf id).2.2.2 hsh)

/-- WITHOUT `DashFree`: the same for every traversal outside the region of the open finding
    (`dashLookup`, Spec.C15: some looked-up id holds more than two `-`).  With
    `traversal_eq_fails_on_dash_ids` the region is exact. -/
theorem traversal_eq_off_dash_lookup (numOf : String → Option Int) (t : Tables) (m : Mapping)
    (hp : PrefixFree m) (hd : EndsDeclared m) (hsh : SharedIdsAgree t m)
    (stmts : List Stmt) (hs : ∀ s ∈ stmts, orderFree s = true) (hdl : dashLookup stmts = false) :
    SameRows (runT numOf t m stmts) (run numOf (materialise t m) stmts) :=
  traversal_eq_of_lookups_agree numOf t m hp hd stmts hs
    (fun id hid => getEdge_eq_of_le_two t m hd hsh id ((dashLookup_false_iff stmts).1 hdl id hid))

/-! ### (4) the hypotheses are needed -/

/-- One vertex type, one self-link type; the link row 1 → 1. -/
def tOne : Tables :=
  [{ name := "T1", rows := [{ id := "1" }] },
   { name := "L", rows := [{ id := "r1", data := .obj [("f", .str "1"), ("t", .str "1")] }] }]
/-- … with a `-` in the edge label, -/
def mDashLabel : Mapping :=
  { verts := [{ pfx := "A:", label := "A", table := "T1" }],
    edges := [{ name := "E1", frm := "A:", to := "A:", label := "k-l", table := "L", fromField := "f", toField := "t" }] }
/-- … with a `-` in the vertex prefix, -/
def mDashPfx : Mapping :=
  { verts := [{ pfx := "A-", label := "A", table := "T1" }],
    edges := [{ name := "E1", frm := "A-", to := "A-", label := "k", table := "L", fromField := "f", toField := "t" }] }
/-- … with no `-` in the mapping. -/
def mPlain : Mapping :=
  { verts := [{ pfx := "A:", label := "A", table := "T1" }],
    edges := [{ name := "E1", frm := "A:", to := "A:", label := "k", table := "L", fromField := "f", toField := "t" }] }

/-- (4) `dashfree_needed`: (1) fails without `DashFree`.  Minimal mappings (one vertex type, one
    edge type, one link row), accepted by NewTabularGraph, prefix-free, unique edge ids: a `-` in the
    label (`mDashLabel`), in the prefix (`mDashPfx`) or in a row id (`tDash`/`mDash` of Props.C15)
    — the edge is listed by `E()`, the materialised graph finds it by id, GetEdge answers nothing.
    Open finding C15-edge-id-dash (TabularGraph.ParseEdge: `strings.Split(gid, "-")`, `len ≠ 3`). -/
theorem dashfree_needed :
    (PrefixFree mDashLabel ∧ configOk tOne mDashLabel = true ∧ SharedIdsAgree tOne mDashLabel ∧
      ¬ DashFree tOne mDashLabel ∧
      (tgEdgeList tOne mDashLabel).map (·.gid) = ["A:1-k-l-A:1"] ∧
      ((materialise tOne mDashLabel).getEdge "A:1-k-l-A:1").isSome = true ∧
      tgGetEdge tOne mDashLabel "A:1-k-l-A:1" = none) ∧
    (PrefixFree mDashPfx ∧ configOk tOne mDashPfx = true ∧ SharedIdsAgree tOne mDashPfx ∧
      ¬ DashFree tOne mDashPfx ∧
      (tgEdgeList tOne mDashPfx).map (·.gid) = ["A-1-k-A-1"] ∧
      ((materialise tOne mDashPfx).getEdge "A-1-k-A-1").isSome = true ∧
      tgGetEdge tOne mDashPfx "A-1-k-A-1" = none) ∧
    (PrefixFree mDash ∧ configOk tDash mDash = true ∧ SharedIdsAgree tDash mDash ∧
      ¬ DashFree tDash mDash ∧
      (tgEdgeList tDash mDash).map (·.gid) = ["A:a-b-k-B:1"] ∧
      ((materialise tDash mDash).getEdge "A:a-b-k-B:1").isSome = true ∧
      tgGetEdge tDash mDash "A:a-b-k-B:1" = none) := by
  refine ⟨⟨by decide, by decide, by decide, by decide, by decide, by decide, by decide⟩,
          ⟨by decide, by decide, by decide, by decide, by decide, by decide, by decide⟩,
          ⟨by decide, by decide, by decide, by decide, by decide, by decide, by decide⟩⟩

/-- The link row points from "a-b", which is no row of the vertex table (a dangling edge). -/
def tDangling : Tables :=
  [{ name := "T1", rows := [{ id := "1" }] },
   { name := "L", rows := [{ id := "r1", data := .obj [("f", .str "a-b"), ("t", .str "1")] }] }]

/-- FALSE AS FIRST WORDED: with `DashFree` read as "no `-` in any vertex prefix, row id of a vertex
    table, or edge label" (`DashFreeIds`), statement (1) is false of the model.  The edge id is
    built from the link *values* (EdgeSource.GenID(srcID, dstID) with the link row's field values),
    and a link value need not be a row id of the vertex table.  Go: TabularGraph.GetEdgeList emits
    "A:a-b-k-A:1", TabularGraph.GetEdge("A:a-b-k-A:1") returns nil (ParseEdge: 4 parts).  Same open
    finding (C15-edge-id-dash), reached with dash-free vertex tables. -/
theorem dashfree_ids_not_enough :
    PrefixFree mPlain ∧ configOk tDangling mPlain = true ∧ DashFreeIds tDangling mPlain ∧
    SharedIdsAgree tDangling mPlain ∧
    ¬ LinksDashFree tDangling mPlain ∧ ¬ NoDangling tDangling mPlain ∧
    (tgEdgeList tDangling mPlain).map (·.gid) = ["A:a-b-k-A:1"] ∧
    ((materialise tDangling mPlain).getEdge "A:a-b-k-A:1").isSome = true ∧
    tgGetEdge tDangling mPlain "A:a-b-k-A:1" = none := by
  refine ⟨by decide, by decide, by decide, by decide, by decide, by decide, by decide, by decide, by decide⟩

/-- Two link rows 1 → 1 that differ in another column: two edges with the one id "A:1-k-A:1". -/
def tShared : Tables :=
  [{ name := "T1", rows := [{ id := "1" }] },
   { name := "L", rows := [{ id := "r1", data := .obj [("f", .str "1"), ("t", .str "1"), ("w", .str "first")] },
                            { id := "r2", data := .obj [("f", .str "1"), ("t", .str "1"), ("w", .str "second")] }] }]

/-- The value of column `w` of the edge rows of an outcome. -/
def edgeRowW (r : Except TypeErr (List Row)) : List (Option String) :=
  match r with
  | .ok rows => rows.filterMap (fun row => match row with
      | .edge (some e) => some (fieldString e.data "w")
      | _ => none)
  | .error _ => []

theorem sameRows_edgeRowW (a b : Except TypeErr (List Row)) (h : SameRows a b) :
    (edgeRowW a).Perm (edgeRowW b) := by
  cases a <;> cases b <;> simp only [SameRows] at h
  · exact List.Perm.refl _
  · exact h.filterMap _

/-- `SharedIdsAgree` is needed for the equality with `AGraph.getEdge` and for (3): with two link
    rows sharing an id (everything dash-free), GetEdge answers with the LAST such row (the Go loop
    `for row := range res { … out = &o }` keeps overwriting), the materialised graph's `getEdge`
    with the first; `E("A:1-k-A:1")` then returns rows with different properties.  Both answers
    are "one of the edges with that id" (`edge_lookup_eq`); neither graph is wrong — the mapping
    yields a graph whose edge ids are not unique. -/
theorem shared_ids_needed :
    PrefixFree mPlain ∧ configOk tShared mPlain = true ∧ DashFree tShared mPlain ∧
    ¬ SharedIdsAgree tShared mPlain ∧
    (tgGetEdge tShared mPlain "A:1-k-A:1").bind (fun e => fieldString e.data "w") = some "second" ∧
    ((materialise tShared mPlain).getEdge "A:1-k-A:1").bind (fun e => fieldString e.data "w") = some "first" ∧
    ¬ SameRows (runT (fun _ => none) tShared mPlain [.E ["A:1-k-A:1"]])
        (run (fun _ => none) (materialise tShared mPlain) [.E ["A:1-k-A:1"]]) := by
  refine ⟨by decide, by decide, by decide, by decide, by decide, by decide, ?_⟩
  intro h
  have hp := sameRows_edgeRowW _ _ h
  have e1 : edgeRowW (runT (fun _ => none) tShared mPlain [.E ["A:1-k-A:1"]]) = [some "second"] := by
    decide
  have e2 : edgeRowW (run (fun _ => none) (materialise tShared mPlain) [.E ["A:1-k-A:1"]]) =
      [some "first"] := by decide
  rw [e1, e2] at hp
  exact absurd (List.perm_singleton.1 hp) (by decide)

/-! ### tests: the hypotheses are satisfiable on a non-trivial instance (`tEx`/`mEx` of Props.C15:
    two vertex types, three rows, a link table with a repeated link and a row with an empty end) -/

/-- test (1): hypotheses of `edge_lookup_eq` / `edge_lookup_eq_configOk` / `edge_lookup_eq_ids`. -/
example : configOk tEx mEx = true ∧ PrefixFree mEx ∧ DashFree tEx mEx ∧ DashFreeIds tEx mEx ∧
    NoDangling tEx mEx ∧ EdgePartsDashFree tEx mEx ∧ SharedIdsAgree tEx mEx := by
  refine ⟨by decide, by decide, by decide, by decide, by decide, by decide, by decide⟩
/-- test (1): … and the lookup does find something there (and nothing for an absent id). -/
example : (tgGetEdge tEx mEx "A:1-k-B:1").map (·.gid) = some "A:1-k-B:1" ∧
    tgGetEdge tEx mEx "A:2-k-B:1" = none := by
  refine ⟨by decide, by decide⟩
/-- test (1): the theorem applied. -/
example (key : String) : tgGetEdge tEx mEx key = (materialise tEx mEx).getEdge key :=
  (edge_lookup_eq_configOk tEx mEx (by decide) (by decide) key).2.2.2 (by decide)
/-- test (2): hypotheses of `genID_parses` on an outbound and on a flipped source of `mEx`; the
    three parts; an id `parse_fails_iff_extra_dash` speaks of. -/
example : parseEdge ((outSource (mEx.edges.head!)).genID "1" "2") = some ("A:" ++ "1", "B:" ++ "2", "k") :=
  genID_parses (outSource (mEx.edges.head!)) "1" "2" (by decide)
example : parseEdge ((inSource (mEx.edges.head!)).genID "2" "1") = some ("A:" ++ "2", "B:" ++ "1", "k") :=
  genID_parses (inSource (mEx.edges.head!)) "2" "1" (by decide)
example : parseEdge "A:1-k-B:1" = some ("A:1", "B:1", "k") ∧ parseEdge "A:a-b-k-B:1" = none ∧
    dashCount "A:a-b-k-B:1" = 3 := by
  refine ⟨by decide, by decide, by decide⟩
example : parseEdge ((outSource (mDash.edges.head!)).genID "a-b" "1") = none :=
  (parse_fails_iff_extra_dash _ _ _).2 (by decide)
/-- test (3): hypotheses of `traversal_eq_with_edge_ids` on a traversal starting with `E(ids)`. -/
example : (∀ s ∈ [Stmt.E ["A:1-k-B:1", "A:9-k-B:1"], .out [], .count], orderFree s = true) ∧
    dashLookup [Stmt.E ["A:1-k-B:1", "A:9-k-B:1"], .out [], .count] = false ∧
    lookedUp [Stmt.E ["A:1-k-B:1", "A:9-k-B:1"], .out [], .count] = ["A:1-k-B:1", "A:9-k-B:1"] := by
  refine ⟨by decide, by decide, by decide⟩
/-- test (3): the traversal returns something (one edge found, its far end one vertex). -/
example : rowCount (runT (fun _ => none) tEx mEx [.E ["A:1-k-B:1", "A:9-k-B:1"], .out []]) = 1 := by
  decide
/-- test (3): the theorem applied. -/
example : SameRows (runT (fun _ => none) tEx mEx [.E ["A:1-k-B:1", "A:9-k-B:1"], .out [], .count])
    (run (fun _ => none) (materialise tEx mEx) [.E ["A:1-k-B:1", "A:9-k-B:1"], .out [], .count]) :=
  traversal_eq_with_edge_ids _ tEx mEx (by decide) (configOk_ends_declared tEx mEx (by decide))
    (by decide) (by decide) _ (by decide)

end Grip.Props.C15
