import Grip.Model.C18
import Grip.Spec.C18
import Grip.Model.C04
import GripProofs.Lemmas.C18
import GripProofs.Lemmas.C18Stamp
import GripProofs.Props.C18

/-!
  C18 — the graph TIMESTAMP under bulk loading and under one-by-one loading.  Property theorems.

  `bulk_eq_sequential` compares `Spec.core s = (s.kv, s.fields)`; `KState.clock` and
  `KState.stamps` are NOT part of that projection.  They cannot be: the two loads leave different
  clocks and different stamp VALUES (`full_state_differs`).  What is equal is stated here.

  MODEL: `KState.touch` / `KState.stamp` (timestamp.Touch / timestamp.Get), C03 `step`
  (kvgraph: `if inserted { ts.Touch(graph) }` in AddVertex, AddEdge, BulkAdd; unconditional Touch in
  AddGraph, DeleteGraph, DelVertex, DelEdge), C18 `bulkAdd` (server.BulkAdd: one `graph.BulkAdd`
  per *segment* of the stream).
  The clock of the model is a counter; the Go clock is `time.Now().UnixNano()` (see the remark at
  `stamps_monotone`).

  Notions used in the statements (defined in Lemmas/C18Stamp.lean):
    `ClockOK s`      every stamp of the table is ≤ the clock (invariant of every reachable state)
    `segments str`   maximal runs of consecutive non-schema items addressed to the same graph
    `bulkTouches`    the graphs of the segments that store something (one entry per such segment)
    `seqTouches`     the graphs of the applied single adds (one entry per element)
-/
namespace Grip.Props.C18
open Grip.C03 Grip.C18 Grip.C18.Spec Grip.Props.C18.Lemmas

/-- The model's notion of *applied*: the stream holds an item for `g` whose verdict is `store`
    (not a schema graph, the graph exists, an element is present and valid after `fillId`).
    Same thing as "`accepted` holds an element for `g`" (`appliedTo_iff_accepted`). -/
def AppliedTo (ex : String → Bool) (stream : List Item) (g : String) : Prop :=
  ∃ it ∈ stream, it.g = g ∧ isStored ex it = true

theorem appliedTo_iff_accepted (ex : String → Bool) (stream : List Item) (g : String) :
    AppliedTo ex stream g ↔ ∃ p ∈ accepted ex stream, p.1 = g :=
  (mem_accepted_graph ex stream g).symm

/-- timestamps did not go back between `s` and `s'`: the clock did not, and every graph that had a
    stamp still has one, at least as large -/
def StampsLE (s s' : KState) : Prop :=
  s.clock ≤ s'.clock ∧ ∀ g n, s.stamp g = some n → ∃ n', s'.stamp g = some n' ∧ n ≤ n'

/-! ### concrete instances used by the tests -/

def vtx (id : String) : ElemIn := .v ⟨id, "L", .obj []⟩

/-- graphs g and h exist; both were stamped before; the clock stands at 2 -/
def s0 : KState :=
  { kv := [(.graph "g", .unit), (.graph "h", .unit)], stamps := [("g", 1), ("h", 2)], clock := 2 }

/-- two vertices for g | an invalid vertex for h | a vertex for a graph that does not exist |
    an edge for g without id (gets the drawn id "u1") | an item for a schema graph -/
def stream0 : List Item :=
  [⟨"g", some (vtx "a"), ""⟩, ⟨"g", some (vtx "b"), ""⟩, ⟨"h", some (vtx ""), ""⟩,
   ⟨"zz", some (vtx "c"), ""⟩, ⟨"g", some (.e ⟨"", "l", "a", "b", .obj []⟩), "u1"⟩,
   ⟨"g__schema__", some (vtx "d"), ""⟩]

/-- test: the instance is what it is meant to be: three stored elements, all for g, in two
    segments of the four segments g | h | zz | g -/
example : (accepted (hasGraph s0) stream0).map (·.1) = ["g", "g", "g"] ∧
    bulkTouches (hasGraph s0) stream0 = ["g", "g"] ∧
    (segments stream0).map (·.1) = ["g", "h", "zz", "g"] ∧ ClockOK s0 := by
  refine ⟨by decide +kernel, by decide +kernel, by decide +kernel, ?_⟩
  intro p hp; simp [s0] at hp; rcases hp with rfl | rfl <;> simp [s0]

/-! ### the stamp table after each load, exactly -/

/-- After `server.BulkAdd` the timestamp part of the state is the start table touched once per
    segment that stored something, in stream order. -/
theorem bulk_stamp_table (s : KState) (stream : List Item) :
    ts (bulkAdd s stream).st = (ts s).touches (bulkTouches (hasGraph s) stream) :=
  ts_bulkAdd s stream

/-- After adding `ps` one by one: touched once per applied element (graph exists, element valid). -/
theorem sequential_stamp_table (s : KState) (ps : List (String × ElemIn)) :
    ts (sequential s ps) = (ts s).touches (seqTouches (hasGraph s) ps) :=
  ts_sequential ps s

/-- every accepted element is applied by its single add -/
theorem seqTouches_accepted (ex : String → Bool) (stream : List Item) :
    seqTouches ex (accepted ex stream) = (accepted ex stream).map (·.1) := by
  have hf : (accepted ex stream).filter (appliedOne ex) = accepted ex stream := by
    apply List.filter_eq_self.2
    intro p hp
    obtain ⟨hv, he, _, _⟩ := accepted_sound ex stream p hp
    simp [appliedOne, hv, he]
  unfold seqTouches
  rw [hf]

theorem mem_seqTouches_accepted (ex : String → Bool) (stream : List Item) (g : String) :
    g ∈ seqTouches ex (accepted ex stream) ↔ AppliedTo ex stream g := by
  rw [seqTouches_accepted, appliedTo_iff_accepted]
  constructor
  · intro h; obtain ⟨p, hp, e⟩ := List.mem_map.1 h; exact ⟨p, hp, e⟩
  · rintro ⟨p, hp, e⟩; exact List.mem_map.2 ⟨p, hp, e⟩

theorem mem_bulkTouches_iff (ex : String → Bool) (stream : List Item) (g : String) :
    g ∈ bulkTouches ex stream ↔ AppliedTo ex stream g := mem_bulkTouches ex stream g

/-- **The exact stamp after a bulk load**: the clock value of the LAST segment of `g` that stored
    something — the start clock plus the number of storing segments up to and including it. -/
theorem bulk_stamp_exact (s : KState) (stream : List Item) (g : String) (pre post : List String)
    (h : bulkTouches (hasGraph s) stream = pre ++ g :: post) (hg : g ∉ post) :
    (bulkAdd s stream).st.stamp g = some (s.clock + pre.length + 1) := by
  rw [stamp_ts, bulk_stamp_table, h, TS.stamp_touches_last _ _ _ _ hg]; rfl

/-- **The exact stamp after one-by-one loading**: the start clock plus the number of accepted
    elements up to and including the last one for `g`. -/
theorem sequential_stamp_exact (s : KState) (stream : List Item) (g : String)
    (pre post : List String)
    (h : (accepted (hasGraph s) stream).map (·.1) = pre ++ g :: post) (hg : g ∉ post) :
    (sequential s (accepted (hasGraph s) stream)).stamp g = some (s.clock + pre.length + 1) := by
  rw [stamp_ts, sequential_stamp_table, seqTouches_accepted, h, TS.stamp_touches_last _ _ _ _ hg]; rfl

/-- test (`bulk_stamp_exact`, `sequential_stamp_exact`): g ends on 4 after the bulk load and on 5
    after the single adds; h keeps 2; zz has no stamp -/
example : (bulkAdd s0 stream0).st.stamp "g" = some 4 ∧
    (sequential s0 (accepted (hasGraph s0) stream0)).stamp "g" = some 5 ∧
    (bulkAdd s0 stream0).st.stamp "h" = some 2 ∧ (bulkAdd s0 stream0).st.stamp "zz" = none := by
  decide +kernel

/-! ### (1) the stamp changes iff something was applied -/

/-- **(1)** For a start state whose stamps do not exceed its clock: after a bulk load the stamp of
    `g` differs from the one before iff at least one element for `g` was applied; and the same for
    loading the accepted elements one by one.
    Hypothesis `ClockOK s`: an invariant of every reachable state (`clock_dominates`); without it
    the statement is false of the model (`stamp_changes_iff_applied_needs_clockOK`). -/
theorem stamp_changes_iff_applied (s : KState) (hs : ClockOK s) (stream : List Item) (g : String) :
    ((bulkAdd s stream).st.stamp g ≠ s.stamp g ↔ AppliedTo (hasGraph s) stream g) ∧
    ((sequential s (accepted (hasGraph s) stream)).stamp g ≠ s.stamp g ↔
      AppliedTo (hasGraph s) stream g) := by
  constructor
  · rw [stamp_ts, stamp_ts, bulk_stamp_table, TS.stamp_touches_ne_iff _ _ ((clockOK_ts s).1 hs), mem_bulkTouches_iff]
  · rw [stamp_ts, stamp_ts, sequential_stamp_table, TS.stamp_touches_ne_iff _ _ ((clockOK_ts s).1 hs),
      mem_seqTouches_accepted]

/-- (1) for any list of single adds, accepted or not: the stamp of `g` changes iff one of them
    addresses `g`, an existing graph, with a valid element -/
theorem sequential_stamp_changes_iff (s : KState) (hs : ClockOK s) (ps : List (String × ElemIn))
    (g : String) :
    (sequential s ps).stamp g ≠ s.stamp g ↔
      ∃ p ∈ ps, p.1 = g ∧ appliedOne (hasGraph s) p = true := by
  rw [stamp_ts, stamp_ts, sequential_stamp_table, TS.stamp_touches_ne_iff _ _ ((clockOK_ts s).1 hs)]
  simp only [seqTouches, List.mem_map, List.mem_filter]
  constructor
  · rintro ⟨p, ⟨hp, ha⟩, rfl⟩; exact ⟨p, hp, rfl, ha⟩
  · rintro ⟨p, hp, rfl, ha⟩; exact ⟨p, ⟨hp, ha⟩, rfl⟩

/-- **(1, consequence)** The SET of graphs whose timestamp changed is the same for the bulk load
    and for the one-by-one load. -/
theorem bulk_and_sequential_touch_same_graphs (s : KState) (hs : ClockOK s) (stream : List Item)
    (g : String) :
    (bulkAdd s stream).st.stamp g ≠ s.stamp g ↔
      (sequential s (accepted (hasGraph s) stream)).stamp g ≠ s.stamp g := by
  rw [(stamp_changes_iff_applied s hs stream g).1, (stamp_changes_iff_applied s hs stream g).2]

/-- The same with `Spec.C18.Touched` ("got a stamp above the start clock") in place of "differs":
    this form needs NO hypothesis on the start state. -/
theorem bulk_and_sequential_Touched_same_graphs (s : KState) (stream : List Item) (g : String) :
    Touched s (bulkAdd s stream).st g ↔
      Touched s (sequential s (accepted (hasGraph s) stream)) g := by
  unfold Touched
  rw [stamp_ts, stamp_ts, bulk_stamp_table, sequential_stamp_table]
  by_cases ha : AppliedTo (hasGraph s) stream g
  · obtain ⟨n, h1, h2, _⟩ := TS.stamp_touches_mem (ts s) _ g ((mem_bulkTouches_iff _ _ _).2 ha)
    obtain ⟨m, h3, h4, _⟩ :=
      TS.stamp_touches_mem (ts s) _ g ((mem_seqTouches_accepted _ _ _).2 ha)
    exact ⟨fun _ => ⟨m, h3, h4⟩, fun _ => ⟨n, h1, h2⟩⟩
  · rw [TS.stamp_touches_not_mem _ _ _ (fun h => ha ((mem_bulkTouches_iff _ _ _).1 h)),
      TS.stamp_touches_not_mem _ _ _ (fun h => ha ((mem_seqTouches_accepted _ _ _).1 h))]

/-- test (1): on the instance, g changes under both loads and is applied; h does not, is not -/
example : ClockOK s0 ∧ AppliedTo (hasGraph s0) stream0 "g" ∧
    (bulkAdd s0 stream0).st.stamp "g" ≠ s0.stamp "g" ∧
    (sequential s0 (accepted (hasGraph s0) stream0)).stamp "g" ≠ s0.stamp "g" ∧
    (bulkAdd s0 stream0).st.stamp "h" = s0.stamp "h" := by
  refine ⟨?_, ⟨⟨"g", some (vtx "a"), ""⟩, by simp [stream0], rfl, by decide +kernel⟩, by decide +kernel, by decide +kernel,
    by decide +kernel⟩
  intro p hp; simp [s0] at hp; rcases hp with rfl | rfl <;> simp [s0]

/-- a state that no run of operations produces: the table holds a stamp above the clock -/
def sBad : KState := { kv := [(.graph "g", .unit)], stamps := [("g", 2)], clock := 0 }

/-- **(1) is FALSE without `ClockOK`** (a fact about the counter model, not about the Go code: the
    table of such a state was not written by `Touch`).  From `sBad`, two vertices for g:
    the bulk load touches once and leaves stamp 1 (changed), the single adds touch twice and leave
    stamp 2 — the value before: "changed" and "applied" disagree, and so do the two loads. -/
theorem stamp_changes_iff_applied_needs_clockOK :
    let str : List Item := [⟨"g", some (vtx "a"), ""⟩, ⟨"g", some (vtx "b"), ""⟩]
    ¬ ClockOK sBad ∧ AppliedTo (hasGraph sBad) str "g" ∧
    (bulkAdd sBad str).st.stamp "g" ≠ sBad.stamp "g" ∧
    (sequential sBad (accepted (hasGraph sBad) str)).stamp "g" = sBad.stamp "g" := by
  refine ⟨?_, ⟨⟨"g", some (vtx "a"), ""⟩, by simp, rfl, by decide +kernel⟩, by decide +kernel, by decide +kernel⟩
  intro h
  have := h ("g", 2) (by simp [sBad])
  simp [sBad] at this

/-! ### (2) graphs without an applied element keep their stamp -/

/-- **(2)** A graph none of whose elements was applied keeps its timestamp exactly — under the bulk
    load and under the one-by-one load, from ANY start state. -/
theorem untouched_graphs_keep_stamp (s : KState) (stream : List Item) (g : String)
    (h : ¬ AppliedTo (hasGraph s) stream g) :
    (bulkAdd s stream).st.stamp g = s.stamp g ∧
    (sequential s (accepted (hasGraph s) stream)).stamp g = s.stamp g := by
  constructor
  · rw [stamp_ts, bulk_stamp_table,
      TS.stamp_touches_not_mem _ _ _ (fun hm => h ((mem_bulkTouches_iff _ _ _).1 hm))]; rfl
  · rw [stamp_ts, sequential_stamp_table,
      TS.stamp_touches_not_mem _ _ _ (fun hm => h ((mem_seqTouches_accepted _ _ _).1 hm))]; rfl

/-- A stream in which nothing is accepted (only invalid elements, unknown graphs, schema graphs,
    empty items) leaves the whole timestamp part alone: no stamp changes, none is created, the clock
    does not tick.  (kvgraph.BulkAdd: `inserted` stays false, no `Touch`.) -/
theorem invalid_only_no_touch (s : KState) (stream : List Item)
    (h : accepted (hasGraph s) stream = []) :
    (bulkAdd s stream).st.stamps = s.stamps ∧ (bulkAdd s stream).st.clock = s.clock := by
  have hb : bulkTouches (hasGraph s) stream = [] := by
    apply List.eq_nil_iff_forall_not_mem.2
    intro g hg
    obtain ⟨p, hp, _⟩ := (appliedTo_iff_accepted _ _ _).1 ((mem_bulkTouches_iff _ _ _).1 hg)
    rw [h] at hp; cases hp
  have := bulk_stamp_table s stream
  rw [hb] at this
  exact ⟨congrArg TS.stamps this, congrArg TS.clock this⟩

/-- An element addressed to a graph that does not exist creates no stamp (and changes none). -/
theorem nonexistent_graph_no_stamp (s : KState) (stream : List Item) (g : String)
    (hg : hasGraph s g = false) :
    (bulkAdd s stream).st.stamp g = s.stamp g ∧
    (sequential s (accepted (hasGraph s) stream)).stamp g = s.stamp g := by
  apply untouched_graphs_keep_stamp
  rintro ⟨it, _, rfl, hst⟩
  rw [isStored_of_not_ex _ it hg] at hst
  cases hst

/-- A schema graph is never stamped by a bulk load. -/
theorem schema_graph_no_stamp (s : KState) (stream : List Item) (g : String)
    (hg : isSchema g = true) : (bulkAdd s stream).st.stamp g = s.stamp g := by
  apply (untouched_graphs_keep_stamp s stream g _).1
  rintro ⟨it, _, rfl, hst⟩
  rw [isStored_of_schema _ it hg] at hst
  cases hst

/-- test (2): h and zz receive elements in `stream0`, none is applied -/
example : ¬ AppliedTo (hasGraph s0) stream0 "h" ∧ ¬ AppliedTo (hasGraph s0) stream0 "zz" ∧
    hasGraph s0 "zz" = false := by
  refine ⟨?_, ?_, by decide +kernel⟩
  · rw [← mem_bulkTouches_iff]; decide +kernel
  · rw [← mem_bulkTouches_iff]; decide +kernel

/-- test (`invalid_only_no_touch`): only invalid / unresolvable items: counts 0 and 3, nothing ticks -/
example :
    let str : List Item := [⟨"h", some (vtx ""), ""⟩, ⟨"zz", some (vtx "c"), ""⟩, ⟨"g", none, ""⟩,
      ⟨"g__schema__", some (vtx "d"), ""⟩]
    accepted (hasGraph s0) str = [] ∧ (bulkAdd s0 str).errorCount = 3 ∧
    (bulkAdd s0 str).st.clock = 2 := by decide +kernel

/-! ### (3) timestamps never go back; the clock dominates -/

/-- everything that acts as a list of touches keeps the invariant and does not go back -/
theorem of_touches (s s' : KState) (gs : List String) (h : ts s' = (ts s).touches gs)
    (hs : ClockOK s) : ClockOK s' ∧ StampsLE s s' := by
  refine ⟨?_, ?_, ?_⟩
  · rw [clockOK_ts, h]; exact TS.OK_touches _ _ ((clockOK_ts s).1 hs)
  · rw [clock_ts s', h, TS.clock_touches]; exact Nat.le_add_right _ _
  · intro g n hn
    rw [stamp_ts s', h]
    exact TS.stamp_touches_mono _ _ ((clockOK_ts s).1 hs) g n hn

/-- the initial state satisfies the invariant -/
theorem clockOK_init : ClockOK ({} : KState) := by intro p hp; cases hp

/-- **(3a) `clock_dominates`, one operation**: EVERY operation of C03 (AddGraph, DeleteGraph,
    AddVertex, AddEdge, BulkAdd, DelVertex, DelEdge; accepted or refused) keeps every stamp ≤ clock. -/
theorem clock_dominates_step (s : KState) (op : Op) (hs : ClockOK s) : ClockOK (step s op).1 := by
  rcases step_ts s op with h | h
  · exact (of_touches s _ [] h hs).1
  · exact (of_touches s _ [opGraph op] h hs).1

/-- **(3a) `clock_dominates`**: for ANY sequence of operations, from any state with the invariant;
    in particular in every state reachable from the empty store. -/
theorem clock_dominates (s : KState) (ops : List Op) (hs : ClockOK s) : ClockOK (run s ops) := by
  obtain ⟨gs, _, h⟩ := run_ts ops s
  exact (of_touches s _ gs h hs).1

theorem clock_dominates_reachable (ops : List Op) : ClockOK (run {} ops) :=
  clock_dominates _ ops clockOK_init

/-- … and across the loads of this property, and across a restart (NewKVGraph: fresh table, every
    listed graph touched; the stamps of graphs that are no longer listed are gone). -/
theorem clock_dominates_loads (s : KState) (hs : ClockOK s) (stream : List Item)
    (ps : List (String × ElemIn)) :
    ClockOK (bulkAdd s stream).st ∧ ClockOK (sequential s ps) ∧ ClockOK (Grip.C04.reopen s) := by
  refine ⟨(of_touches s _ _ (bulk_stamp_table s stream) hs).1,
    (of_touches s _ _ (sequential_stamp_table s ps) hs).1, ?_⟩
  rw [clockOK_ts, ts_reopen]
  apply TS.OK_touches
  intro p hp; cases hp

/-- **(3b) `stamps_monotone`, one operation**: the clock does not go back and no stamp decreases
    or disappears, for EVERY operation of C03. -/
theorem stamps_monotone_step (s : KState) (op : Op) (hs : ClockOK s) :
    StampsLE s (step s op).1 := by
  rcases step_ts s op with h | h
  · exact (of_touches s _ [] h hs).2
  · exact (of_touches s _ [opGraph op] h hs).2

/-- **(3b) `stamps_monotone`**: over ANY sequence of operations of C03.
    Remark on the Go code: the model's clock is a counter, so "strictly later" is built in.
    timestamp.Touch stores `time.Now().UnixNano()`: the wall clock (the monotonic reading is
    dropped by `UnixNano`), which may repeat a value or step back; nothing in kvgraph compares two
    stamps, so this is an assumption of the model, not a checked fact. -/
theorem stamps_monotone (s : KState) (ops : List Op) (hs : ClockOK s) : StampsLE s (run s ops) := by
  obtain ⟨gs, _, h⟩ := run_ts ops s
  exact (of_touches s _ gs h hs).2

/-- (3b) for the two loads -/
theorem stamps_monotone_loads (s : KState) (hs : ClockOK s) (stream : List Item)
    (ps : List (String × ElemIn)) :
    StampsLE s (bulkAdd s stream).st ∧ StampsLE s (sequential s ps) :=
  ⟨(of_touches s _ _ (bulk_stamp_table s stream) hs).2,
   (of_touches s _ _ (sequential_stamp_table s ps) hs).2⟩

/-- an operation can change the stamp of the graph it names and of no other -/
theorem step_other_graph_keeps_stamp (s : KState) (op : Op) (g : String) (hg : g ≠ opGraph op) :
    (step s op).1.stamp g = s.stamp g := by
  rcases step_ts s op with h | h
  · rw [stamp_ts, h]; rfl
  · rw [stamp_ts, h, TS.stamp_touch_ne _ _ _ hg]; rfl

/-- **(3c) a stamp handed out is strictly larger than every stamp handed out before**: when an
    operation changes the stamp of `g`, the new stamp is above the old clock (`Touched`), hence above
    every stamp of the old table. -/
theorem new_stamp_exceeds_all_old (s : KState) (op : Op) (hs : ClockOK s) (g : String)
    (hch : (step s op).1.stamp g ≠ s.stamp g) :
    Touched s (step s op).1 g ∧
    ∀ n, (step s op).1.stamp g = some n → ∀ g' m, s.stamp g' = some m → m < n := by
  have hT : Touched s (step s op).1 g := by
    rcases step_ts s op with h | h
    · exact absurd (by rw [stamp_ts, h]; rfl) hch
    · by_cases hg : g = opGraph op
      · subst hg
        exact ⟨s.clock + 1, by rw [stamp_ts, h, TS.stamp_touch_self]; rfl, Nat.lt_succ_self _⟩
      · exact absurd (step_other_graph_keeps_stamp s op g hg) hch
  refine ⟨hT, ?_⟩
  intro n hn g' m hm
  obtain ⟨n', h1, h2⟩ := hT
  rw [hn] at h1
  injection h1 with h1
  have := TS.stamp_le_clock (ts s) ((clockOK_ts s).1 hs) g' m hm
  have hc : (ts s).clock = s.clock := rfl
  omega

/-- **(3b) is FALSE without `ClockOK`**: from `sBad` (stamp 2 above clock 0) one valid AddVertex
    moves the stamp of g back to 1. -/
theorem stamps_monotone_needs_clockOK :
    sBad.stamp "g" = some 2 ∧ (step sBad (.addV "g" [⟨"a", "L", .obj []⟩])).1.stamp "g" = some 1 := by
  decide +kernel

/-- test (3): a run with every kind of operation, accepted and refused, from the empty store -/
example :
    let ops : List Op := [.addGraph "g", .addGraph "bad name", .addV "g" [⟨"a", "L", .obj []⟩],
      .addV "g" [⟨"", "L", .obj []⟩], .addE "g" [⟨"e", "l", "a", "a", .obj []⟩],
      .bulk "g" [vtx "b"], .delE "g" "nope", .delE "g" "e", .delV "g" "a", .addV "h" [⟨"a", "L", .obj []⟩],
      .delGraph "g", .delGraph "h"]
    (run {} ops).clock = 8 ∧ (run {} ops).stamp "g" = some 7 ∧ (run {} ops).stamp "h" = some 8 := by
  decide +kernel

/-! ### (4) connection to `Spec.C18.Touched` -/

/-- **(4)** Every graph with an applied element is `Touched` by the load — bulk and one by one,
    from any start state. -/
theorem touched_after_load (s : KState) (stream : List Item) (g : String)
    (h : AppliedTo (hasGraph s) stream g) :
    Touched s (bulkAdd s stream).st g ∧
    Touched s (sequential s (accepted (hasGraph s) stream)) g := by
  constructor
  · obtain ⟨n, h1, h2, _⟩ := TS.stamp_touches_mem (ts s) _ g ((mem_bulkTouches_iff _ _ _).2 h)
    exact ⟨n, by rw [stamp_ts, bulk_stamp_table]; exact h1, h2⟩
  · obtain ⟨n, h1, h2, _⟩ := TS.stamp_touches_mem (ts s) _ g ((mem_seqTouches_accepted _ _ _).2 h)
    exact ⟨n, by rw [stamp_ts, sequential_stamp_table]; exact h1, h2⟩

/-- (4), converse, for start states with the invariant: `Touched` characterises exactly the graphs
    with an applied element. -/
theorem touched_iff_applied (s : KState) (hs : ClockOK s) (stream : List Item) (g : String) :
    Touched s (bulkAdd s stream).st g ↔ AppliedTo (hasGraph s) stream g := by
  constructor
  · intro hT
    apply Classical.byContradiction
    intro ha
    obtain ⟨n, h1, h2⟩ := hT
    rw [(untouched_graphs_keep_stamp s stream g ha).1] at h1
    have := TS.stamp_le_clock (ts s) ((clockOK_ts s).1 hs) g n h1
    have hc : (ts s).clock = s.clock := rfl
    omega
  · exact fun h => (touched_after_load s stream g h).1

/-- test (4): g is Touched by both loads of the instance (stamps 4 and 5 above the clock 2) -/
example : Touched s0 (bulkAdd s0 stream0).st "g" ∧
    Touched s0 (sequential s0 (accepted (hasGraph s0) stream0)) "g" :=
  ⟨⟨4, by decide +kernel, by decide +kernel⟩, ⟨5, by decide +kernel, by decide +kernel⟩⟩

/-! ### (5) how often the clock ticks -/

theorem runTouches_length (ex : String → Bool) (runs : List (String × List Item)) :
    (runTouches ex runs).length = runs.countP (fun sg => sg.2.any (isStored ex)) := by
  induction runs with
  | nil => rfl
  | cons sg more ih =>
    obtain ⟨g, r⟩ := sg
    rw [runTouches_cons, List.length_append, ih, List.countP_cons]
    cases r.any (isStored ex) <;> simp [tch] <;> omega

theorem bulk_clock_eq (s : KState) (stream : List Item) :
    (bulkAdd s stream).st.clock = s.clock + (bulkTouches (hasGraph s) stream).length := by
  have h : (bulkAdd s stream).st.clock = (ts (bulkAdd s stream).st).clock := rfl
  rw [h, bulk_stamp_table, TS.clock_touches]; rfl

/-- **(5) `bulk_clock_ticks`**: a bulk load ticks the clock once per segment (maximal run of
    consecutive non-schema items for one graph) that stores at least one element. -/
theorem bulk_clock_ticks (s : KState) (stream : List Item) :
    (bulkAdd s stream).st.clock =
      s.clock + (segments stream).countP (fun sg => sg.2.any (isStored (hasGraph s))) := by
  rw [bulk_clock_eq, bulkTouches, runTouches_length]

/-- **(5) `sequential_clock_ticks`**: one-by-one loading ticks once per accepted element. -/
theorem sequential_clock_ticks (s : KState) (stream : List Item) :
    (sequential s (accepted (hasGraph s) stream)).clock =
      s.clock + (accepted (hasGraph s) stream).length := by
  rw [clock_ts, sequential_stamp_table, TS.clock_touches, seqTouches_accepted, List.length_map]; rfl

/-- (5) for any list of single adds: once per applied one -/
theorem sequential_clock_ticks_general (s : KState) (ps : List (String × ElemIn)) :
    (sequential s ps).clock = s.clock + ps.countP (appliedOne (hasGraph s)) := by
  rw [clock_ts, sequential_stamp_table, TS.clock_touches, seqTouches, List.length_map,
    List.countP_eq_length_filter]; rfl

/-- **(5) the inequality**: the bulk load never ticks more often than the one-by-one load, and it
    ticks at least once as soon as anything is accepted. -/
theorem bulk_ticks_le_sequential (s : KState) (stream : List Item) :
    (bulkAdd s stream).st.clock ≤ (sequential s (accepted (hasGraph s) stream)).clock ∧
    (accepted (hasGraph s) stream ≠ [] → s.clock < (bulkAdd s stream).st.clock) := by
  constructor
  · rw [sequential_clock_ticks, bulk_clock_eq]
    have := bulkTouches_length_le (hasGraph s) stream
    omega
  · intro hne
    obtain ⟨p, hp⟩ := List.exists_mem_of_ne_nil _ hne
    have ha : AppliedTo (hasGraph s) stream p.1 := (appliedTo_iff_accepted _ _ _).2 ⟨p, hp, rfl⟩
    have hm := (mem_bulkTouches_iff _ _ _).2 ha
    rw [bulk_clock_eq]
    have := List.length_pos_of_mem hm
    omega

/-- (5) when the two tick counts coincide: exactly when no segment stores two elements -/
theorem bulk_ticks_eq_sequential_iff (s : KState) (stream : List Item) :
    (bulkAdd s stream).st.clock = (sequential s (accepted (hasGraph s) stream)).clock ↔
      ∀ sg ∈ segments stream, (accepted (hasGraph s) sg.2).length ≤ 1 := by
  rw [← bulkTouches_length_eq_iff, sequential_clock_ticks, bulk_clock_eq]
  omega

/-- Loading batch after batch through `graph.BulkAdd` (the StreamBatch back ends): one tick per
    batch with at least one valid element, when the graph exists; none otherwise. -/
theorem batched_clock_ticks (g : String) (batches : List (List ElemIn)) : ∀ s : KState,
    (batches.foldl (fun s b => (step s (.bulk g b)).1) s).clock =
      s.clock + if hasGraph s g then batches.countP (fun b => b.any elemValid) else 0 := by
  induction batches with
  | nil => intro s; simp
  | cons b bs ih =>
    intro s
    rw [List.foldl_cons, ih]
    have hex : hasGraph (step s (.bulk g b)).1 g = hasGraph s g := hasGraph_addElems s g b g
    have hts : ts (step s (.bulk g b)).1 =
        if hasGraph s g && b.any elemValid then (ts s).touch g else ts s := ts_addElems s g b
    have hc : (step s (.bulk g b)).1.clock = (ts (step s (.bulk g b)).1).clock := rfl
    rw [hex, hc, hts, List.countP_cons]
    cases hg : hasGraph s g <;> cases hb : b.any elemValid <;> simp [TS.touch, ts] <;> omega

/-- **The two loads do not leave the same full state** — which is why `bulk_eq_sequential` is stated
    on `Spec.core`: on the instance the bulk load ends on clock 4, stamp of g = 4; the single adds on
    clock 5, stamp 5. -/
theorem full_state_differs :
    (bulkAdd s0 stream0).st.clock = 4 ∧
    (sequential s0 (accepted (hasGraph s0) stream0)).clock = 5 ∧
    (bulkAdd s0 stream0).st.stamp "g" ≠ (sequential s0 (accepted (hasGraph s0) stream0)).stamp "g" ∧
    core (bulkAdd s0 stream0).st = core (sequential s0 (accepted (hasGraph s0) stream0)) :=
  ⟨by decide +kernel, by decide +kernel, by decide +kernel, bulk_eq_sequential s0 stream0⟩

/-- test (5): the instance has 4 segments, 2 of them store (2 ticks), 3 accepted elements
    (3 ticks); the first segment stores two elements, so the counts differ -/
example : (segments stream0).length = 4 ∧
    (segments stream0).countP (fun sg => sg.2.any (isStored (hasGraph s0))) = 2 ∧
    (accepted (hasGraph s0) stream0).length = 3 ∧
    ¬ (∀ sg ∈ segments stream0, (accepted (hasGraph s0) sg.2).length ≤ 1) := by
  refine ⟨by decide +kernel, by decide +kernel, by decide +kernel, ?_⟩
  intro h
  have := (bulk_ticks_eq_sequential_iff s0 stream0).2 h
  revert this; decide +kernel

/-- test (`batched_clock_ticks`): three batches, one of them all-invalid: two ticks -/
example : ([[vtx "a", vtx ""], [vtx ""], [vtx "b"]].foldl (fun s b => (step s (.bulk "g" b)).1) s0).clock = 4 := by
  decide +kernel

/-! ### the characterisation of `segments` (so that the count above means what it says) -/

/-- the segments, concatenated, are the non-schema items of the stream, in order -/
theorem segments_flatten (stream : List Item) :
    ((segments stream).map (·.2)).flatten = stream.filter notSchema := runsBy_flatten _

/-- a segment is non-empty and all its items address the segment's graph -/
theorem segments_graph (stream : List Item) :
    ∀ sg ∈ segments stream, sg.2 ≠ [] ∧ ∀ it ∈ sg.2, it.g = sg.1 := runsBy_graph _

/-- segments are maximal: neighbours address different graphs -/
theorem segments_maximal (stream : List Item) :
    ∀ pre a b post, segments stream = pre ++ a :: b :: post → a.1 ≠ b.1 := runsBy_maximal _

/-! ### behind the write filter -/

/-- With accounts.BulkWriteFilter in front: the graphs whose timestamp changes are the same for the
    bulk load and for what the SPEC (`expected`) prescribes, namely those with an applied element
    among the permitted ones; a graph the caller may not write keeps its stamp. -/
theorem auth_stamps (allowed : String → Bool) (s : KState) (hs : ClockOK s) (stream : List Item)
    (g : String) :
    ((bulkAddAuth allowed s stream).st.stamp g ≠ s.stamp g ↔
        (expected allowed s stream).st.stamp g ≠ s.stamp g) ∧
    ((bulkAddAuth allowed s stream).st.stamp g ≠ s.stamp g ↔
        AppliedTo (hasGraph s) (authFilter allowed stream) g) ∧
    (allowed g = false → (bulkAddAuth allowed s stream).st.stamp g = s.stamp g ∧
        (expected allowed s stream).st.stamp g = s.stamp g) := by
  refine ⟨bulk_and_sequential_touch_same_graphs s hs (authFilter allowed stream) g,
    (stamp_changes_iff_applied s hs (authFilter allowed stream) g).1, ?_⟩
  intro hd
  apply untouched_graphs_keep_stamp s (authFilter allowed stream) g
  rintro ⟨it, hit, rfl, _⟩
  simp only [authFilter, List.mem_filter] at hit
  rw [hd] at hit
  exact Bool.noConfusion hit.2

/-- test (`auth_stamps`): only h may be written: g keeps stamp 1 although valid elements for it arrive -/
example : (bulkAddAuth (fun g => g == "h") s0 stream0).st.stamp "g" = some 1 ∧
    (bulkAddAuth (fun g => g == "h") s0 stream0).insertCount = 0 := by decide +kernel

end Grip.Props.C18
