/-
  Props.C16 (second file) — the storage layers composed (DESIGN.md §4.3):

     layer 3  kvgraph MODEL over structured keys (`Grip.C03.KV`: an association list SKey ↦ Val;
              prefix scans are filters on the structured key)            — C03's refinement theorems
     layer 2  `encode : SKey → Bytes`, injective and prefix-faithful on NUL-free keys  — C16
     layer 1  the ordered byte map with the iterator state machine every driver refines — C10

  `byteStore encV m` is the ordered byte map that holds the structured store `m`: every entry
  encoded, sorted by key.  The theorems below say that what the Go code does at the byte level — a
  point `Get`, the loop `for it.Seek(p); it.Valid() && HasPrefix(it.Key(), p); it.Next()` — returns
  exactly what the structured model's `get` / filter returns, for every store whose keys are
  NUL-free and pairwise different (which `accepted_*_nulFree` and C03's invariant `nodup` provide).
  So C03's theorems about structured filters are theorems about the byte-level scans of any driver
  that refines `SMap` (C10's correspondence).
-/
import Grip.Model.SMap
import GripProofs.Props.C16
import GripProofs.Props.C10

namespace Grip.Props.C16
open Grip Grip.C03 Grip.C16 Grip.Bytes Grip.SMap
open Grip.Props.C10.Lemmas (blt_total blt_asymm blt_irrefl hasPrefix_iff)

/-! ### sorting by key -/

def insertKV (x : Grip.KV) : List Grip.KV → List Grip.KV
  | [] => [x]
  | y :: ys => if blt x.1 y.1 then x :: y :: ys else y :: insertKV x ys

def sortKV : List Grip.KV → List Grip.KV
  | [] => []
  | x :: xs => insertKV x (sortKV xs)

theorem insertKV_perm (x : Grip.KV) : ∀ l, (insertKV x l).Perm (x :: l)
  | [] => List.Perm.refl _
  | y :: ys => by
    unfold insertKV
    split
    · exact List.Perm.refl _
    · exact ((insertKV_perm x ys).cons y).trans (List.Perm.swap x y ys)

theorem sortKV_perm : ∀ l, (sortKV l).Perm l
  | [] => List.Perm.refl _
  | x :: xs => (insertKV_perm x (sortKV xs)).trans ((sortKV_perm xs).cons x)

theorem insertKV_sorted (x : Grip.KV) : ∀ l, Sorted l → (∀ y ∈ l, y.1 ≠ x.1) → Sorted (insertKV x l)
  | [], _, _ => by simp [insertKV, Sorted]
  | y :: ys, hs, hne => by
    unfold Sorted at hs
    rw [List.pairwise_cons] at hs
    unfold insertKV
    split
    · rename_i hlt
      unfold Sorted
      rw [List.pairwise_cons]
      refine ⟨?_, List.pairwise_cons.2 hs⟩
      intro z hz
      rcases List.mem_cons.1 hz with rfl | hz
      · exact hlt
      · exact Grip.Props.C10.Lemmas.blt_trans hlt (hs.1 z hz)
    · rename_i hnlt
      have hyx : blt y.1 x.1 = true := by
        cases h : blt y.1 x.1 with
        | true => rfl
        | false =>
          have : x.1 = y.1 := blt_total (by simpa using hnlt) h
          exact absurd this.symm (hne y (by simp))
      have ih := insertKV_sorted x ys hs.2 (fun z hz => hne z (List.mem_cons_of_mem _ hz))
      unfold Sorted
      rw [List.pairwise_cons]
      refine ⟨?_, ih⟩
      intro z hz
      rcases List.mem_cons.1 ((insertKV_perm x ys).mem_iff.1 hz) with rfl | hz
      · exact hyx
      · exact hs.1 z hz

theorem sortKV_sorted : ∀ l : List Grip.KV, (l.map (·.1)).Nodup → Sorted (sortKV l)
  | [], _ => by simp [sortKV, Sorted]
  | x :: xs, hnd => by
    rw [List.map_cons, List.nodup_cons] at hnd
    unfold sortKV
    apply insertKV_sorted x _ (sortKV_sorted xs hnd.2)
    intro y hy heq
    have hy' : y ∈ xs := (sortKV_perm xs).mem_iff.1 hy
    exact hnd.1 (heq ▸ List.mem_map.2 ⟨y, hy', rfl⟩)

/-! ### the byte store of a structured store -/

/-- one entry as the store holds it (`encV`: the protobuf encoding of the value, left abstract) -/
def encEntry (encV : Val → Bytes) (p : SKey × Val) : Grip.KV := (encode p.1, encV p.2)

/-- The ordered byte map holding the structured store `m`. -/
def byteStore (encV : Val → Bytes) (m : C03.KV) : List Grip.KV := sortKV (m.map (encEntry encV))

/-- Keys NUL-free and pairwise different: what C16's `accepted_*_nulFree` and C03's `nodup` give. -/
structure CleanStore (m : C03.KV) : Prop where
  nulFree : ∀ p ∈ m, NulFree p.1
  nodup : (m.map (·.1)).Nodup

theorem byteStore_perm (encV : Val → Bytes) (m : C03.KV) :
    (byteStore encV m).Perm (m.map (encEntry encV)) := sortKV_perm _

theorem encoded_keys_nodup (encV : Val → Bytes) {m : C03.KV} (h : CleanStore m) :
    ((m.map (encEntry encV)).map (·.1)).Nodup := by
  have e : (m.map (encEntry encV)).map (·.1) = (m.map (·.1)).map encode := by
    simp [List.map_map, encEntry, Function.comp_def]
  rw [e]
  have hnf : ∀ k ∈ m.map (·.1), NulFree k := by
    intro k hk
    obtain ⟨p, hp, rfl⟩ := List.mem_map.1 hk
    exact h.nulFree p hp
  -- an injective-on-the-list map keeps Nodup
  have : ∀ (l : List SKey), l.Nodup → (∀ k ∈ l, NulFree k) → (l.map encode).Nodup := by
    intro l
    induction l with
    | nil => intro _ _; simp
    | cons a l ih =>
      intro hnd hall
      rw [List.nodup_cons] at hnd
      rw [List.map_cons, List.nodup_cons]
      refine ⟨fun hin => ?_, ih hnd.2 (fun k hk => hall k (List.mem_cons_of_mem _ hk))⟩
      obtain ⟨b, hb, hbe⟩ := List.mem_map.1 hin
      have : b = a := encode_inj (hall b (List.mem_cons_of_mem _ hb)) (hall a (by simp)) hbe
      exact hnd.1 (this ▸ hb)
  exact this _ h.nodup hnf

/-- The byte store is a legal state of the ordered map (strictly ascending keys). -/
theorem byteStore_sorted (encV : Val → Bytes) {m : C03.KV} (h : CleanStore m) :
    Sorted (byteStore encV m) :=
  sortKV_sorted _ (encoded_keys_nodup encV h)

/-- `Get(encode k)` on the byte store is the structured `get k` (value encoded). -/
theorem byte_get_eq (encV : Val → Bytes) {m : C03.KV} (h : CleanStore m) (k : SKey) (hk : NulFree k) :
    SMap.get (byteStore encV m) (encode k) = (m.get k).map encV := by
  have hs := byteStore_sorted encV h
  cases hg : m.get k with
  | some v =>
    -- (k, v) ∈ m, so its encoding is in the byte store
    have hmem : (k, v) ∈ m := by
      unfold C03.KV.get at hg
      cases hf : m.find? (fun p => p.1 = k) with
      | none => simp [hf] at hg
      | some p =>
        simp only [hf, Option.map_some, Option.some.injEq] at hg
        have hp := List.find?_some hf
        have hin := List.mem_of_find?_eq_some hf
        have : p = (k, v) := by
          cases p with
          | mk a b =>
            simp only [decide_eq_true_eq] at hp
            simp only at hg
            subst hp; subst hg; rfl
        exact this ▸ hin
    have : (encode k, encV v) ∈ byteStore encV m :=
      (byteStore_perm encV m).mem_iff.2 (List.mem_map.2 ⟨(k, v), hmem, rfl⟩)
    simpa using (Grip.Props.C10.get_iff_mem hs (encode k) (encV v)).2 this
  | none =>
    -- no entry of the byte store has this key
    cases hb : SMap.get (byteStore encV m) (encode k) with
    | none => rfl
    | some b =>
      exfalso
      have hin := (Grip.Props.C10.get_iff_mem hs (encode k) b).1 hb
      obtain ⟨p, hp, hpe⟩ := List.mem_map.1 ((byteStore_perm encV m).mem_iff.1 hin)
      have hkey : encode p.1 = encode k := by
        have := congrArg Prod.fst hpe
        simpa [encEntry] using this
      have hpk : p.1 = k := encode_inj (h.nulFree p hp) hk hkey
      unfold C03.KV.get at hg
      have : m.find? (fun q => q.1 = k) ≠ none := by
        intro hnone
        have := List.find?_eq_none.1 hnone p hp
        simp [hpk] at this
      cases hf : m.find? (fun q => q.1 = k) with
      | none => exact this hf
      | some q => simp [hf] at hg

/-- `bytes.HasPrefix(key, p)` of layer 1 is `p <+: key`. -/
theorem hasPrefix_iff_prefix (key p : Bytes) : Bytes.hasPrefix key p = true ↔ p <+: key := by
  rw [hasPrefix_iff]
  constructor
  · rintro ⟨s, rfl⟩; exact List.prefix_append p s
  · rintro ⟨s, hs⟩; exact ⟨s, hs.symm⟩

/-- The composition theorem.  For a byte prefix `pfx` and a structured pattern `pat` that agree on
    NUL-free keys (every `*_faithful` theorem of this property is such a pair), the scan loop over
    the byte store — from whatever state the reused iterator is in — returns exactly the encodings
    of the entries the structured model's filter keeps. -/
theorem byte_scan_is_structured_filter (encV : Val → Bytes) {m : C03.KV} (h : CleanStore m)
    (pfx : Bytes) (pat : SKey → Bool)
    (hf : ∀ k, NulFree k → (pfx <+: encode k ↔ pat k = true)) (it : Iter) :
    ((Iter.scan (byteStore encV m) it pfx).1).Perm ((m.filter (fun p => pat p.1)).map (encEntry encV)) := by
  rw [Grip.Props.C10.scan_eq_filter (byteStore_sorted encV h)]
  unfold Grip.Spec.C10.prefixEntries
  have h1 : ((byteStore encV m).filter (fun kv => Bytes.hasPrefix kv.1 pfx)).Perm
      ((m.map (encEntry encV)).filter (fun kv => Bytes.hasPrefix kv.1 pfx)) :=
    (byteStore_perm encV m).filter _
  refine h1.trans ?_
  rw [List.filter_map]
  apply List.Perm.of_eq
  congr 1
  apply List.filter_congr
  intro p hp
  have := hf p.1 (h.nulFree p hp)
  show Bytes.hasPrefix (encode p.1) pfx = pat p.1
  cases hpat : pat p.1 with
  | true => exact (hasPrefix_iff_prefix _ _).2 (this.2 hpat)
  | false =>
    cases hh : Bytes.hasPrefix (encode p.1) pfx with
    | false => rfl
    | true =>
      have := this.1 ((hasPrefix_iff_prefix _ _).1 hh)
      rw [hpat] at this
      cases this

/-- Instance: `GetVertexList` / `DeleteGraph`'s vertex pass — the scan of `VertexListPrefix(g)` over
    the byte store returns the encodings of exactly the vertex records of graph `g`. -/
theorem vertexList_scan (encV : Val → Bytes) {m : C03.KV} (h : CleanStore m) (g : String)
    (hg : (0 : UInt8) ∉ utf8 g) (it : Iter) :
    ((Iter.scan (byteStore encV m) it (vertexListPrefix g)).1).Perm
      ((m.filter (fun p => patVertexList g p.1)).map (encEntry encV)) :=
  byte_scan_is_structured_filter encV h _ _ (fun k hk => vertexListPrefix_faithful g k hg hk) it

/-- Instance: the adjacency scan `SrcEdgePrefix(g, id)` (out-edges of a vertex, DelVertex's sweep). -/
theorem srcEdge_scan (encV : Val → Bytes) {m : C03.KV} (h : CleanStore m) (g id : String)
    (hg : (0 : UInt8) ∉ utf8 g) (hid : (0 : UInt8) ∉ utf8 id) (it : Iter) :
    ((Iter.scan (byteStore encV m) it (srcEdgePrefix g id)).1).Perm
      ((m.filter (fun p => patSrc g id p.1)).map (encEntry encV)) :=
  byte_scan_is_structured_filter encV h _ _ (fun k hk => srcEdgePrefix_faithful g id k hg hid hk) it

/-- Instance: the label-index scan `EntryValuePrefix(field, label)` behind `V().hasLabel(l)`. -/
theorem entryValue_scan (encV : Val → Bytes) {m : C03.KV} (h : CleanStore m) (f t : String)
    (hf : (0 : UInt8) ∉ utf8 f) (ht : (0 : UInt8) ∉ utf8 t) (it : Iter) :
    ((Iter.scan (byteStore encV m) it (entryValuePrefix f t)).1).Perm
      ((m.filter (fun p => patEntryValue f t p.1)).map (encEntry encV)) :=
  byte_scan_is_structured_filter encV h _ _ (fun k hk => entryValuePrefix_faithful f t k hf ht hk) it

/-- non-vacuity: a two-entry store is clean, and its byte store is sorted -/
example : CleanStore [(.vertex "g" "b", .unit), (.vertex "g" "a", .unit)] := by
  constructor
  · intro p hp
    simp at hp
    rcases hp with rfl | rfl <;> (intro c hc; simp [comps] at hc; rcases hc with rfl | rfl | rfl <;> decide)
  · decide

end Grip.Props.C16
