/-
  Property C02, main theorems: the index-start rewrite preserves the rows of every traversal
  (`indexStart_preserves`), load elision is sound for every backend (`elision_sound`), and their
  composition (`planning_preserves`, `count_under_planning`).  Property theorems only.
-/
import Grip.Model.Eval
import Grip.Model.C02
import Grip.Spec.C02
import GripProofs.Lemmas.C02Fold
import GripProofs.Lemmas.C02Sim

namespace Grip.Props.C02
open Grip Grip.C02 Grip.C08 Grip.Spec.C02 Grip.Props.C02.Lemmas

variable (numOf : String → Option Int) (g : AGraph)

/-- **The index-start rewrite never changes answers.**  For every graph with unique ids, every
    well-typed traversal whose statements do not depend on the order of their input rows, and
    every plan `IndexStartOptimize` produces for it — through any number of and-flattening
    recursions, with an id lookup, a label-index lookup or no rewrite at all — the plan has the
    same result type and, executed literally, returns the same multiset of rows.
    (`limit/skip/range/distinct` are excluded because their documented meaning picks rows by an
    order the documentation does not fix, and the lookup enumerates vertices in another order
    than the scan: for those the harness compares what C01 states — count and sub-multiset.) -/
theorem indexStart_preserves (hg : g.WellFormed) (stmts plan : List Stmt) (st : TState)
    (hall : stmts.all orderFree = true) (hopt : indexStartOptimize stmts = some plan)
    (ht : typeCheck stmts = .ok st) :
    typeFold {} plan = .ok st ∧
    ((evalPlan numOf g plan).map (convert st)).Perm
      ((evalFrom numOf g {} [Traveler.seed] stmts).map (convert st)) := by
  have ht' : typeFold {} stmts = .ok st := by
    unfold typeCheck at ht
    cases hv : validate stmts with
    | error e => simp [hv] at ht
    | ok u => simpa [hv] using ht
  obtain ⟨h1, h2⟩ := opt_preserves numOf g hg (pipeW stmts) stmts plan st (Nat.le_refl _) hall hopt ht'
  exact ⟨h1, h2.map _⟩

/-- **Load elision is sound on every backend.**  For every assignment `hon` of "the backend
    honours the do-not-load hint at this statement" (from "never" to "everywhere"), executing a
    plan with the load flags `PipelineStepOutputs`/`StepLoadData` compute, and reloading unloaded
    elements at output as `Convert` does, gives exactly the rows of the fully loaded execution
    (same order, same multiplicity).  `hdoc`: the plan consists of documented statements (C01's
    program space) and the index lookup; `hgid`: the string fact `"_gid" ↦ $.gid` (the default key
    of `distinct()`), which the kernel cannot compute and the driver checks on every run. -/
theorem elision_sound (hg : g.WellFormed) (hon : Nat → Bool) (plan : List Stmt) (st : TState)
    (ht : typeFold {} plan = .ok st)
    (hdoc : ∀ s ∈ plan, s.kind.documented = true ∨ s.kind = .lookupVertsIndex)
    (hgid : GidFacts) :
    (evalElided numOf g hon plan).map (convertE g st) = (evalPlan numOf g plan).map (convert st) :=
  elided_eq_literal numOf g hg hon plan st ht hdoc hgid

/-- The same without the string fact, for plans that do not use `distinct()` with its default key. -/
theorem elision_sound_no_default_distinct (hg : g.WellFormed) (hon : Nat → Bool) (plan : List Stmt)
    (st : TState) (ht : typeFold {} plan = .ok st)
    (hdoc : ∀ s ∈ plan, s.kind.documented = true ∨ s.kind = .lookupVertsIndex)
    (hnd : ∀ s ∈ plan, s ≠ .distinct []) :
    (evalElided numOf g hon plan).map (convertE g st) = (evalPlan numOf g plan).map (convert st) :=
  elided_eq_literal_partial numOf g hg hon plan st ht hdoc hnd

/-- **Planning never changes answers**: the production execution (`Validate`, rewrite, typing of
    the plan, elided lookups on any backend, reload at output) accepts exactly the traversals the
    literal execution accepts and returns the same multiset of rows. -/
theorem planning_preserves (hg : g.WellFormed) (hon : Nat → Bool) (stmts plan : List Stmt)
    (rows : List Row) (hall : stmts.all orderFree = true)
    (hopt : indexStartOptimize stmts = some plan)
    (hdoc : ∀ s ∈ plan, s.kind.documented = true ∨ s.kind = .lookupVertsIndex)
    (hgid : GidFacts) (hr : run numOf g stmts = .ok rows) :
    ∃ rows', runProd numOf hon g stmts = some (.ok rows') ∧ rows'.Perm rows := by
  unfold run at hr
  cases htc : typeCheck stmts with
  | error e => simp [htc] at hr
  | ok st =>
    simp only [htc] at hr
    obtain ⟨h1, h2⟩ := indexStart_preserves numOf g hg stmts plan st hall hopt htc
    have hv : validate stmts = .ok () := by
      unfold typeCheck at htc
      cases hv : validate stmts with
      | error e => simp [hv] at htc
      | ok u => rfl
    have hel := elision_sound numOf g hg hon plan st h1 hdoc hgid
    unfold runProd
    simp only [hv, hopt, h1]
    by_cases hemp : stmts.isEmpty = true
    · have : stmts = [] := by simpa using hemp
      subst this
      have hp : plan = [] := by
        rw [opt_other [] (by simp)] at hopt
        simpa using hopt.symm
      subst hp
      simp only [List.isEmpty_nil, if_true, Except.ok.injEq] at hr ⊢
      subst hr
      exact ⟨[], rfl, List.Perm.refl _⟩
    · simp only [hemp, Bool.false_eq_true, if_false, Except.ok.injEq] at hr
      subst hr
      have hpne : plan ≠ [] :=
        opt_ne_nil (pipeW stmts) stmts plan (Nat.le_refl _) (by intro h; simp [h] at hemp) hopt
      have hpe : plan.isEmpty = false := by cases plan <;> simp_all
      simp only [hpe, Bool.false_eq_true, if_false]
      exact ⟨_, rfl, by rw [hel]; exact h2⟩

/-- `count()` under planning: the production execution of `stmts ++ [count()]` returns exactly one
    row, the number of rows the literal execution of `stmts` returns. -/
theorem count_under_planning (hg : g.WellFormed) (hon : Nat → Bool) (stmts plan : List Stmt)
    (rows : List Row) (hne : stmts ≠ []) (hall : (stmts ++ [Stmt.count]).all orderFree = true)
    (hopt : indexStartOptimize (stmts ++ [Stmt.count]) = some plan)
    (hdoc : ∀ s ∈ plan, s.kind.documented = true ∨ s.kind = .lookupVertsIndex)
    (hgid : GidFacts) (hr : run numOf g stmts = .ok rows) :
    runProd numOf hon g (stmts ++ [Stmt.count]) = some (.ok [Row.count rows.length]) := by
  have hc := run_count numOf g stmts rows hne hr
  obtain ⟨rows', h1, h2⟩ := planning_preserves numOf g hg hon _ plan _ hall hopt hdoc hgid hc
  rw [h1, List.perm_singleton.1 h2]

/-! ### non-vacuity -/

example : [Stmt.V [], .hasId ["a"], .out [], .count].all orderFree = true := by decide
example : ∀ s ∈ [Stmt.V ["a"], .out [], .count], s.kind.documented = true ∨ s.kind = .lookupVertsIndex := by
  intro s hs; simp at hs; rcases hs with rfl | rfl | rfl <;> simp [Stmt.kind, Kind.documented]

end Grip.Props.C02
