import Grip.Model.C19
import Grip.Spec.C19
import GripProofs.Lemmas.C19
import GripProofs.Lemmas.C19Hist
import GripProofs.Lemmas.C19Chan

/-
  C19 — aggregations summarise exactly the rows they are given.  Property theorems only.

  MODEL = Grip.C19 (the aggregate processor after the two `fix:` commits), SPEC = Grip.C19.Spec.
  Every statement is for all lists of field values (missing = null, mixed types, negatives,
  duplicates, empty), all parameters, all lists of aggregations with unique names; the histogram
  clauses need `0 < interval` and at least one numeric value (outside that the real code does not
  return at all — C06/C07 — and `crashes` marks the region).

  The percentile clause is NOT a theorem about the code: the estimate comes from the external
  t-digest (`Q`).  What is proved is which values reach the digest (`percentile_feed`) and that the
  clause follows if the digest has it (`percentile_clause_partial`); the clause itself is checked on
  the real code's answers by the correspondence run only.
-/
namespace Grip.Props.C19
open Grip Grip.C19

/-- count equals the number of input rows. -/
theorem count_eq {α : Type} (ts : List α) : Spec.CountIs ts (countRows ts) :=
  Lemmas.countRows_eq ts

/-- term buckets list each distinct scalar value of the field with its exact frequency. -/
theorem term_exact (vals : List JV) : Spec.TermExact vals (termCounts vals) := by
  rw [Lemmas.termCounts_eq]
  exact Lemmas.exact_countsFrom _

/-- … limited to the most frequent `size` buckets when a size is given (all of them otherwise). -/
theorem term_top_size (size : Nat) (vals : List JV) :
    Spec.ValidTop size (termCounts vals) (termRows size vals) := by
  by_cases hs : size = 0
  · simp [Spec.ValidTop, termRows, termTop, hs]
  · simp only [termRows, termTop, hs, if_false]
    exact Lemmas.validTop_take size hs _

/-- Both term clauses in one statement about what is emitted. -/
theorem term_rows (size : Nat) (vals : List JV) :
    ∃ exact, Spec.TermExact vals exact ∧ Spec.ValidTop size exact (termRows size vals) :=
  ⟨termCounts vals, term_exact vals, term_top_size size vals⟩

/-- The driver's check of the implementation's own choice among equally frequent terms is sound:
    an answer it accepts is a valid top-`size` selection of the exact buckets. -/
theorem term_choice_check_sound (size : Nat) (vals : List JV) (out : List (JV × Nat))
    (h : validTopB size (termCounts vals) out = true) :
    ∃ exact, Spec.TermExact vals exact ∧ Spec.ValidTop size exact out :=
  ⟨termCounts vals, term_exact vals,
    Lemmas.validTopB_sound size _ out (Lemmas.nodup_of_nodup_keys _ (term_exact vals).1) h⟩

/-- The values the histogram and the percentile digest are fed: exactly the numeric values. -/
theorem numeric_feed (numOf : String → Option Int) (vals : List JV) :
    numericFeed numOf vals = Spec.numerics numOf vals :=
  Lemmas.numericFeed_eq numOf vals

/-- The whole histogram clause. -/
theorem hist_spec (numOf : String → Option Int) (interval : Nat) (vals : List JV)
    (hI : 0 < interval) :
    Spec.Hist ((interval : Int) * 1024) (Spec.numerics numOf vals) (histRows numOf interval vals) := by
  have hI' : (0 : Int) < (interval : Int) * 1024 := by omega
  rw [histRows, if_neg (by omega), numeric_feed]
  generalize (interval : Int) * 1024 = I at hI'
  generalize Spec.numerics numOf vals = nums
  match nums with
  | [] =>
    -- no numeric value (incl. empty input): no bucket — `if len(fieldValues) == 0 { return }`
    simp only [histBuckets]
    exact ⟨by simp, by simp, by simp, by simp, by simp⟩
  | x :: xs =>
    have hrange : ∀ v ∈ x :: xs, minOf x xs / I * I ≤ v ∧ v ≤ maxOf x xs := fun v hv =>
      ⟨Int.le_trans (Lemmas.start_le I _ hI') (Lemmas.minOf_le x xs v hv), Lemmas.le_maxOf x xs v hv⟩
    simp only [histBuckets]
    refine ⟨?_, ?_, ?_, ?_, ?_⟩
    · -- aligned
      intro p hp
      obtain ⟨j, _, rfl⟩ := List.mem_map.1 hp
      exact Int.dvd_add (Int.dvd_mul_left _ _) (Int.dvd_mul_left _ _)
    · -- distinct
      rw [List.map_map]
      refine List.pairwise_map.2 (List.Pairwise.imp ?_ List.nodup_range)
      intro a b hab e
      simp only [Function.comp] at e
      have : (a : Int) * I = (b : Int) * I := by omega
      have := Int.eq_of_mul_eq_mul_right (Int.ne_of_gt hI') this
      exact hab (by omega)
    · -- counts
      intro p hp
      obtain ⟨j, _, rfl⟩ := List.mem_map.1 hp
      simp only
      congr 1
      funext v
      exact Lemmas.inBucket_decide _ _ _
    · -- partition
      intro v hv
      obtain ⟨h1, h2⟩ := hrange v hv
      obtain ⟨h0, hlt⟩ := Lemmas.idx_lt I _ _ v hI' h1 h2
      refine ⟨minOf x xs / I * I + (v - minOf x xs / I * I) / I * I, ⟨?_, ?_⟩, ?_⟩
      · rw [List.map_map]
        refine List.mem_map.2 ⟨((v - minOf x xs / I * I) / I).toNat, List.mem_range.2 hlt, ?_⟩
        simp only [Function.comp]
        rw [Int.toNat_of_nonneg h0]
      · exact (Lemmas.inBucket_iff I _ v hI' _).2 rfl
      · rintro b' ⟨hb', hin⟩
        rw [List.map_map] at hb'
        obtain ⟨j, _, rfl⟩ := List.mem_map.1 hb'
        simp only [Function.comp] at hin ⊢
        rw [(Lemmas.inBucket_iff I _ v hI' _).1 hin]
    · -- sum
      rw [List.map_map]
      exact Lemmas.sum_counts I _ _ hI' (x :: xs) hrange

/-- histogram buckets are aligned to multiples of the interval. -/
theorem hist_aligned (numOf : String → Option Int) (interval : Nat) (vals : List JV)
    (hI : 0 < interval) :
    ∀ p ∈ histRows numOf interval vals, ((interval : Int) * 1024) ∣ p.1 :=
  (hist_spec numOf interval vals hI).aligned

/-- … cover every numeric value exactly once (each lies in one and only one listed bucket;
    bucket starts are pairwise distinct and each count is the number of values in the bucket). -/
theorem hist_partition (numOf : String → Option Int) (interval : Nat) (vals : List JV)
    (hI : 0 < interval) :
    ((histRows numOf interval vals).map (·.1)).Nodup ∧
    (∀ p ∈ histRows numOf interval vals,
      p.2 = (Spec.numerics numOf vals).countP
        (fun v => decide (Spec.InBucket ((interval : Int) * 1024) p.1 v))) ∧
    ∀ v ∈ Spec.numerics numOf vals,
      ∃ b, (b ∈ (histRows numOf interval vals).map (·.1) ∧ Spec.InBucket ((interval : Int) * 1024) b v) ∧
        ∀ b', (b' ∈ (histRows numOf interval vals).map (·.1) ∧
                Spec.InBucket ((interval : Int) * 1024) b' v) → b' = b :=
  let h := hist_spec numOf interval vals hI
  ⟨h.distinct, h.counts, h.partition⟩

/-- … and sum to the number of numeric values. -/
theorem hist_sum (numOf : String → Option Int) (interval : Nat) (vals : List JV)
    (hI : 0 < interval) :
    ((histRows numOf interval vals).map (·.2)).sum = (Spec.numerics numOf vals).length :=
  (hist_spec numOf interval vals hI).sum

/-- No numeric value (empty input included): no bucket, and nothing to crash on. -/
theorem hist_no_numeric_no_rows (numOf : String → Option Int) (interval : Nat) (vals : List JV)
    (h : Spec.numerics numOf vals = []) : histRows numOf interval vals = [] := by
  unfold histRows
  split
  · rfl
  · rw [numeric_feed, h]; rfl

/-- Interval 0 (the one parameter value the clause cannot be met for: no bucket width): the code
    returns no bucket at all — `floor(min/0)*0` is NaN and the bucket loop does not run. The
    histogram clause is stated for `0 < interval`; this is the remaining point, by correspondence. -/
theorem hist_interval_zero_no_rows (numOf : String → Option Int) (vals : List JV) :
    histRows numOf 0 vals = [] := by simp [histRows]

/-- field aggregation counts exactly the keys present. -/
theorem field_counts (vals : List JV) : Spec.FieldExact vals (fieldCounts vals) := by
  rw [Lemmas.fieldCounts_eq]
  exact Lemmas.exact_countsFrom _

/-- type aggregation counts exactly the value types present. -/
theorem type_counts (vals : List JV) : Spec.TypeExact vals (typeCounts vals) := by
  rw [Lemmas.typeCounts_eq]
  exact Lemmas.exact_countsFrom _

/-- each listed type count is the number of rows whose value has that type. -/
theorem type_counts_cover (vals : List JV) (k : String) (c : Nat) (h : (k, c) ∈ typeCounts vals) :
    c = (vals.filter (fun v => Spec.typeOf v = k)).length := by
  have := ((type_counts vals).2 k c).1 h
  rw [this.1, List.count_eq_countP, List.countP_map, List.countP_eq_length_filter]
  congr 1

/-- Percentiles: the digest is asked, per requested percent and in that order, about exactly the
    numeric values of the field (for any digest `Q`). -/
theorem percentile_feed (Q : List Int → Int → Int) (numOf : String → Option Int)
    (percents : List Int) (vals : List JV) :
    pctRows Q numOf percents vals = percents.map fun p => (p, Q (Spec.numerics numOf vals) p) := by
  simp [pctRows, numeric_feed]

/-- PARTIAL (by design, DESIGN.md §5 C19): the clause "non-decreasing in p, between min and max"
    holds for the emitted rows *provided the digest `Q` has it* on the values it was fed.  That
    proviso is about influxdata/tdigest and is not proved; it is sampled on the real code. -/
theorem percentile_clause_partial (unit : Int) (Q : List Int → Int → Int) (numOf : String → Option Int)
    (percents : List Int) (vals : List JV)
    (hQ : ∀ feed, Spec.PctOk unit feed (percents.map fun p => (p, Q feed p))) :
    Spec.PctOk unit (Spec.numerics numOf vals) (pctRows Q numOf percents vals) := by
  rw [percentile_feed]
  exact hQ _

/-- With unique names, each aggregation's goroutine reads exactly the input rows, in order,
    whatever else is requested in the same step. -/
theorem chan_receives_input (aggs : List Named) (h : (aggs.map (·.name)).Nodup) (ts : List Elem)
    (a : Named) (ha : a ∈ aggs) : getChan (broadcast aggs ts) a.name = ts :=
  Lemmas.getChan_broadcast aggs h ts a ha

/-- Each aggregation's result is independent of the others requested in the same step: with
    unique names, the rows called `a.name` in the step's output are what `a`'s finaliser makes of
    the input alone. -/
theorem aggs_independent (Q : List Int → Int → Int) (numOf : String → Option Int)
    (aggs : List Named) (h : (aggs.map (·.name)).Nodup) (ts : List Elem) (a : Named) (ha : a ∈ aggs) :
    rowsOf a.name (run Q numOf aggs ts) = runOne Q numOf a ts := by
  have hrun : run Q numOf aggs ts = aggs.flatMap fun b => runOne Q numOf b ts := by
    simp only [run]
    apply Lemmas.flatMap_congr'
    intro b hb
    rw [chan_receives_input aggs h ts b hb]
  rw [hrun]
  exact Lemmas.rowsOf_flatMap Q numOf ts aggs h a ha

/-- Same, stated between two steps: what is requested alongside does not matter. -/
theorem aggs_independent_pair (Q : List Int → Int → Int) (numOf : String → Option Int)
    (aggs aggs' : List Named) (h : (aggs.map (·.name)).Nodup) (h' : (aggs'.map (·.name)).Nodup)
    (ts : List Elem) (a : Named) (ha : a ∈ aggs) (ha' : a ∈ aggs') :
    rowsOf a.name (run Q numOf aggs ts) = rowsOf a.name (run Q numOf aggs' ts) := by
  rw [aggs_independent Q numOf aggs h ts a ha, aggs_independent Q numOf aggs' h' ts a ha']

/-- End to end for `count`: inside any step with unique names, the rows named `n` are the single
    row ("count", number of input rows). -/
theorem step_count (Q : List Int → Int → Int) (numOf : String → Option Int)
    (aggs : List Named) (h : (aggs.map (·.name)).Nodup) (ts : List Elem) (n : String)
    (ha : (⟨n, .count⟩ : Named) ∈ aggs) :
    rowsOf n (run Q numOf aggs ts) = [⟨n, .str "count", ts.length⟩] := by
  have := aggs_independent Q numOf aggs h ts ⟨n, .count⟩ ha
  simp only [runOne, Lemmas.countRows_eq] at this
  exact this

/-- End to end for `term`: the rows named `n` are a valid top-`size` selection of the exact
    buckets of the field values of the input rows. -/
theorem step_term (Q : List Int → Int → Int) (numOf : String → Option Int)
    (aggs : List Named) (h : (aggs.map (·.name)).Nodup) (ts : List Elem) (n f : String) (size : Nat)
    (ha : (⟨n, .term f size⟩ : Named) ∈ aggs) :
    ∃ out exact, rowsOf n (run Q numOf aggs ts) = out.map (fun (p : JV × Nat) => (⟨n, p.1, p.2⟩ : Row)) ∧
      Spec.TermExact (ts.map (lookup · f)) exact ∧ Spec.ValidTop size exact out := by
  have := aggs_independent Q numOf aggs h ts ⟨n, .term f size⟩ ha
  refine ⟨termRows size (ts.map (lookup · f)), termCounts (ts.map (lookup · f)), ?_, term_exact _, term_top_size _ _⟩
  simpa [runOne, fieldOf] using this

/-! ### non-vacuity and concrete instances -/

/-- the histogram hypotheses are satisfiable, and the model computes the documented buckets
    (empty buckets between min and max included): values 5, 15.5, -1, 31 with interval 10. -/
example : histRows (fun _ => none) 10 [.num 5120, .str "x", .null, .num 15872, .num (-1024), .num 31744]
    = [(-10240, 1), (0, 1), (10240, 1), (20480, 0), (30720, 1)] := by decide

example : Spec.numerics (fun _ => none) [.num 5120, .str "x", .null] ≠ [] := by decide

/-- `size` is applied to the most frequent buckets; `1`, `"1"` and `true` stay apart. -/
example : Spec.ValidTop 2
    (termCounts [.str "a", .num 1024, .str "1", .str "b", .str "a", .bool true, .str "b", .str "a", .null])
    [(.str "b", 2), (.str "a", 3)] :=
  Lemmas.validTopB_sound _ _ _ (Lemmas.nodup_of_nodup_keys _ (term_exact _).1) (by decide)

/-- … and keeping a less frequent bucket instead is not a valid answer. -/
example : validTopB 2
    (termCounts [.str "a", .num 1024, .str "1", .str "b", .str "a", .bool true, .str "b", .str "a", .null])
    [(.str "a", 3), (.num 1024, 1)] = false := by decide

example : termRows 0 [.num 1024, .str "1", .bool true, .arr [], .num 1024]
    = [(.num 1024, 2), (.str "1", 1), (.bool true, 1)] := by decide

/-- unique names are satisfiable and the independence statement is not vacuous. -/
example : rowsOf "c" (run (fun _ _ => 0) (fun _ => none)
      [⟨"t", .type "x"⟩, ⟨"c", .count⟩] [{ gid := "v", data := .obj [("x", .num 1024)] }])
    = [⟨"c", .str "count", 1⟩] := by decide

end Grip.Props.C19
