import Grip.Model.C19
import Grip.Spec.C19
import GripProofs.Lemmas.C19

/-
  C19 — aggregations summarise exactly the rows they are given.  Property theorems only.
-/
namespace Grip.Props.C19
open Grip Grip.C19

/-- count equals the number of input rows. -/
theorem count_eq {α : Type} (ts : List α) : Spec.CountIs ts (countRows ts) :=
  Lemmas.countRows_eq ts

end Grip.Props.C19
