/-
  Grip.Props.C06 — property theorems for "no request can crash the server".

  MODEL: Grip.Model.C06 (`handle : Server → Req → Outcome`, every Go operation of the anchored
  sources that can panic is an explicit primitive returning `none`).  All defects found by the check
  were repaired in the grip tree (docs/notes/C06.md), so the theorem is the full-strength one.
-/
import Grip.Model.C06
import Grip.Model.C06Sites
import GripGen.PanicSites
import GripProofs.Lemmas.C06

namespace Grip.Props.C06
open Grip Grip.C06 Grip.Props.C06.Lemmas

/-- The optimizer never panics, whatever the condition values are. -/
theorem optimizer_no_panic (stmts : List Stmt) : optimizerP stmts ≠ none := by
  rw [optimizerP_some]; simp

/-- `extractHasVals` on any has-expression (values of any JSON type). -/
theorem extractHasVals_no_panic (e : C08.HasE) : extractHasVals e ≠ none := by
  obtain ⟨v, h⟩ := extractHasVals_some e; rw [h]; simp

/-- `Compile` never indexes `ps.Steps` out of range. -/
theorem compile_no_panic (stmts : List Stmt) : compileP stmts ≠ none := by
  obtain ⟨v, h⟩ := compileP_some stmts; rw [h]; simp

/-- No processor panics on any traveler stream — null currents, nil marks, travelers without a
    current element, empty inputs included — once the statement passed the compiler. -/
theorem processors_no_panic (numOf : String → Option Int) (g : AGraph) (stmts : List Stmt)
    (st : TState) (ts : List Traveler) : evalP numOf g st ts stmts ≠ none := by
  obtain ⟨v, h⟩ := evalP_some numOf g stmts st ts; rw [h]; simp

/-- The aggregate processor closes every channel once: compiled aggregations have unique names. -/
theorem aggregate_no_panic (aggs : List Agg) (ts : List Traveler)
    (h : dupCheck (.aggregate aggs) = .ok ()) : aggregateP aggs ts ≠ none := by
  have hn : (aggNames aggs).Nodup := by
    unfold dupCheck at h
    by_cases hn : (aggNames aggs).Nodup
    · exact hn
    · simp [hn] at h
  obtain ⟨v, hv⟩ := aggregateP_some aggs ts hn; rw [hv]; simp

/-- `Convert` never dereferences a nil element or aggregation. -/
theorem convert_no_panic (g : AGraph) (st : TState) (t : Traveler) : convertP g st t ≠ none := by
  obtain ⟨v, h⟩ := convertP_some g st t; rw [h]; simp

theorem traversal_no_panic (numOf : String → Option Int) (g : AGraph) (stmts : List Stmt) :
    traversalP numOf g stmts ≠ .panic := by
  unfold traversalP
  split
  · simp
  · rw [optimizerP_some]
    obtain ⟨c, hc⟩ := compileP_some stmts
    simp only [hc]
    cases c with
    | error e => simp
    | ok st =>
      obtain ⟨ts, hts⟩ := evalP_some numOf g stmts {} [Traveler.seed]
      simp only [hts]
      obtain ⟨rows, hr⟩ := mapM_some ts (fun t _ => convertP_some g st t)
      simp [hr]

/-- `BulkAdd` on ANY element sequence (missing graphs, schema graphs, invalid or absent
    vertices/edges, in any order): the element stream is never closed twice nor sent to after a
    close. -/
theorem bulkAdd_no_panic (graphs : List String) (els : List GElem) :
    bulkAddP graphs els ≠ .panic := by
  unfold bulkAddP
  obtain ⟨st, h, hok⟩ := bulkLoop_ok graphs els {} (by simp [StreamOk])
  simp only [h, closeIfOpen_some _ hok]
  simp

theorem addVertex_no_panic (graphs : List String) (el : GElem) : addVertexP graphs el ≠ .panic := by
  unfold addVertexP deref
  repeat' split
  all_goals simp_all

theorem addEdge_no_panic (graphs : List String) (el : GElem) : addEdgeP graphs el ≠ .panic := by
  unfold addEdgeP deref
  repeat' split
  all_goals simp_all

/-- **C06.**  No request — whatever its statements, condition values, marks, aggregations, ranges,
    elements and graph names — on any server state makes a handler panic. -/
theorem no_panic (numOf : String → Option Int) (srv : Server) (req : Req) :
    handle numOf srv req ≠ .panic := by
  cases req with
  | traversal graph stmts =>
    simp only [handle]; split
    · exact traversal_no_panic numOf srv.g stmts
    · simp
  | bulkAdd els => exact bulkAdd_no_panic srv.graphs els
  | addVertex el => exact addVertex_no_panic srv.graphs el
  | addEdge el => exact addEdge_no_panic srv.graphs el
  | lookup graph found => simp only [handle]; split <;> simp

theorem coveredBy_sound : ∀ (ts ks : List String), coveredBy ks ts = true → ∀ k ∈ ks, k ∈ ts := by
  intro ts
  induction ts with
  | nil =>
    intro ks h k hk
    cases ks with
    | nil => cases hk
    | cons a as => simp [coveredBy] at h
  | cons t ts ih =>
    intro ks h k hk
    cases ks with
    | nil => cases hk
    | cons a as =>
      unfold coveredBy at h
      by_cases hat : (a == t) = true
      · rw [if_pos hat] at h
        have hat' : a = t := by simpa using hat
        cases hk with
        | head => simp [hat']
        | tail _ hk' => exact List.mem_cons_of_mem _ (ih as h k hk')
      · rw [if_neg hat] at h
        exact List.mem_cons_of_mem _ (ih (a :: as) h k hk)

set_option maxRecDepth 100000 in
theorem sites_cover_check :
    coveredBy (GripGen.PanicSites.sites.map (·.key)) siteKeys = true := by
  decide

/-- Every panic site extracted from today's source is accounted for in the hand-written cover
    table (`decide` over the finite regenerated table: a proof, not a sample). -/
theorem sites_covered : ∀ s ∈ GripGen.PanicSites.sites, s.key ∈ siteKeys := by
  intro s hs
  exact coveredBy_sound _ _ sites_cover_check s.key (List.mem_map.mpr ⟨s, hs, rfl⟩)

/-! ### the guards are needed (non-vacuity: the primitives do panic without them) -/

/-- Two aggregations with one name would close one channel twice. -/
theorem duplicate_names_would_panic : closeAll [] ["n", "n"] = none := by decide

/-- …and the compiler rejects them. -/
example : dupCheck (.aggregate [⟨"n", .count⟩, ⟨"n", .count⟩]) = .error .emptyArgs := by
  simp [dupCheck, aggNames]

/-- Indexing the empty value list (the histogram finaliser without its guard). -/
theorem empty_histogram_would_panic : index ([] : List Int) 0 = none := by decide

/-- A WITHIN value that is no list, asserted without comma-ok. -/
theorem within_nonlist_would_panic : assertList (.num 3) = none := rfl

/-- A field of a null current element. -/
theorem null_current_would_panic : (deref (none : Option Elem)).map (·.label) = none := rfl

/-- Closing the element stream again after a failed graph switch. -/
theorem double_close_would_panic : (closeChan .opened).bind closeChan = none := rfl

/-- The hypotheses of `aggregate_no_panic` are satisfiable. -/
example : dupCheck (.aggregate [⟨"a", .count⟩, ⟨"b", .count⟩]) = .ok () := by
  simp [dupCheck, aggNames]

end Grip.Props.C06
