/-
  Property C01, the `*Null` moves: theorems ABOUT Grip.EvalN (Grip/Model/EvalN.lean) — the
  traversal semantics with `outNull / inNull / outENull / inENull`, Go's placeholder
  `&gdbi.DataElement{}` in a several-mark `select`, and `pipeline.Convert`'s lazy reload — which is
  what the correspondence check runs against the real engine for every traversal containing a
  `*Null` move.  Property theorems only; lemmas are in GripProofs/Lemmas/C01N.lean.
  Everything is for ALL graphs, travelers, label lists and programs, except where a hypothesis is
  stated; each hypothesis is shown necessary by a counterexample next to the theorem.

  §1 CONSERVATIVE EXTENSION   `evalStepN_eq_evalStepT`, `stepSelectN_eq_stepSelect` (+ `_iff`),
                              `runN_eq_run`, `evalN_eq_evalFrom`, `result_elements_present_loaded`;
                              necessity: `runN_ne_run_*`
  §2 MEANING OF A *NULL MOVE  `null_row_spec`, `outNull_from_vertex` (+ in/outE/inE), `*_extra_row_iff`,
                              `*_length`, `outENull_miss_iff` / `inENull_miss_iff` / `inNull_miss_iff`,
                              `outNull_miss_imp`, `outNull_drops_iff`, `null_move_never_drops`,
                              `null_move_never_drops_stream`, `outNull_never_drops_of_no_dangling`,
                              `outNull_dangling_drops`, `outNull_from_edge` / `inNull_from_edge`
  §3 LATER STEPS ON A ROW WITHOUT CURRENT ELEMENT
                              `null_row_hasLabel`, `null_row_hasId`, `null_row_has`, `null_row_hasKey`,
                              `null_row_has_eq_null`, `has_label_eq_empty_keeps_null_row`,
                              `null_row_as`, `null_row_render`, `null_row_select`, `null_row_fields`,
                              `null_row_unwind`, `null_row_moves`, `hasLabel_drops_null_rows`,
                              `null_row_null_moves_from_vertex`, `null_row_null_moves_from_edge`,
                              `count_counts_null_rows`, `null_row_distinct_*`, `trunc_parametric`
  §4 PLACEHOLDER              `select_placeholder_row`, `select_placeholder_entry`
  §5 TYPING                   `typeStep_null_eq`, `typing_table_null_rows`, `typeStepT_null_eq`

  FINDING (reported; the model was corrected accordingly): Go's `HasLabel.Process` is
  `if !t.IsNull() && contains(labels, t.GetCurrent().Label)` — it drops EVERY row without current
  element, while `keepHasLabel` was `labels.contains (curLabel t)` and kept such a row for
  `hasLabel([""])`.  `null_row_hasLabel` is about the corrected definition.
-/
import Grip.Model.EvalN
import GripProofs.Lemmas.C01N
import GripProofs.Props.C01
import GripGen.CoreTyping

namespace Grip.Props.C01N
open Grip Grip.EvalN Grip.Props.C01N.Lemmas

variable (numOf : String → Option Int) (g : AGraph)

/-! ## §1 conservative extension -/

/-- (1a) On every statement that is neither a `*Null` move, nor a several-mark `select`, nor the
    index lookup, the step of `Grip.EvalN` is the C01 step — for every `emitNull` behaviour `m`. -/
theorem evalStepN_eq_evalStepT (m : C02.NullMiss) (ty : DataType) (s : Stmt) (ts : List Traveler)
    (hn : C02.isNullMove s = false) (hi : s.kind ≠ .lookupVertsIndex)
    (hs : ∀ ms, s = .select ms → ms.length ≤ 1) :
    EvalN.evalStepN m numOf g ty s ts = evalStepT numOf g ty s ts :=
  Lemmas.evalStepN_eq_evalStepT m numOf g ty s ts hn hi hs

/-- test of (1a): `has` on a stream with a row that has no current element -/
example : EvalN.evalStepN C02.kvMiss numOf g .vertex (.hasId ["a"]) [{}, { cur := some { gid := "a" } }]
    = evalStepT numOf g .vertex (.hasId ["a"]) [{}, { cur := some { gid := "a" } }] :=
  evalStepN_eq_evalStepT numOf g _ _ _ _ rfl (by decide) (fun _ h => by cases h)

/-- (1b) If every selected mark holds an element, Go's placeholder is never used. -/
theorem stepSelectN_eq_stepSelect (ms : List String) (t : Traveler)
    (h : ∀ m ∈ ms, (t.getMark m).isSome = true) : stepSelectN ms t = stepSelect ms t :=
  Lemmas.stepSelectN_eq_stepSelect ms t h

/-- … and for a several-mark `select` ONLY then: the two differ as soon as one selected mark holds
    no element (`{}` is loaded, the placeholder is not). -/
theorem stepSelectN_eq_stepSelect_iff (a b : String) (rest : List String) (t : Traveler) :
    stepSelectN (a :: b :: rest) t = stepSelect (a :: b :: rest) t ↔
      ∀ m ∈ a :: b :: rest, (t.getMark m).isSome = true := by
  refine ⟨fun h m hm => ?_, Lemmas.stepSelectN_eq_stepSelect _ t⟩
  rw [stepSelectN_many, stepSelect_many] at h
  have h2 : (a :: b :: rest).eraseDups.map (fun m => (m, (t.getMark m).getD { loaded := false }))
      = (a :: b :: rest).eraseDups.map (fun m => (m, (t.getMark m).getD ({} : Elem))) := by
    have := congrArg Traveler.sel h
    injection this
  have h3 := List.map_inj_left.1 h2 m (List.mem_eraseDups.2 hm)
  cases hg : t.getMark m with
  | some e => rfl
  | none =>
    rw [hg] at h3
    simp at h3

/-- test of (1b): both marks hold an element -/
example : stepSelectN ["x", "y"]
      { marks := [("x", some { gid := "a" }), ("y", some { gid := "b" })] }
    = stepSelect ["x", "y"] { marks := [("x", some { gid := "a" }), ("y", some { gid := "b" })] } := by
  decide

/-- test: the hypothesis of (1b) is needed -/
example : stepSelectN ["x", "y"] { marks := [("x", some { gid := "a" }), ("y", none)] }
    ≠ stepSelect ["x", "y"] { marks := [("x", some { gid := "a" }), ("y", none)] } := by
  decide

theorem conservative_of {stmts : List Stmt} (hn : ∀ s ∈ stmts, C02.isNullMove s = false)
    (hi : ∀ s ∈ stmts, s.kind ≠ .lookupVertsIndex) (he : ∀ s ∈ stmts, s.kind ≠ .engineCustom) :
    ∀ s ∈ stmts, conservative s = true := by
  intro s hs
  have h1 := hn s hs; have h2 := hi s hs; have h3 := he s hs
  cases s <;> first | rfl | (cases h1; done) | exact absurd rfl h2 | exact absurd rfl h3

/-- The travelers of the two evaluations coincide, and every element they hold is PRESENT and
    LOADED, for every program without `*Null` moves, index lookup and `engineCustom` whose final
    type is not `selection`: on an element type there is a current element; every mark recorded
    with an element type holds an element; every element is loaded (`vertexElem`/`edgeElem` build
    loaded elements whatever the graph stores; `fields` and `unwind` keep the flag); no traveler
    carries selections.  This is the invariant behind (1c). -/
theorem result_elements_present_loaded (m : C02.NullMiss) (stmts : List Stmt) (stf : TState)
    (hn : ∀ s ∈ stmts, C02.isNullMove s = false)
    (hi : ∀ s ∈ stmts, s.kind ≠ .lookupVertsIndex) (he : ∀ s ∈ stmts, s.kind ≠ .engineCustom)
    (ht : typeCheck stmts = .ok stf) (hl : stf.last ≠ .selection) :
    EvalN.evalN m numOf g stmts = evalFrom numOf g {} [Traveler.seed] stmts ∧
    ∀ t ∈ evalFrom numOf g {} [Traveler.seed] stmts,
      (stf.last.isElement = true → ∃ e, t.cur = some e) ∧
      (stf.last.isElement = true → ∀ mk, (stf.marks.get mk).isElement = true → ∃ e, t.getMark mk = some e) ∧
      (∀ e, t.cur = some e → e.loaded = true) ∧ (∀ mk e, t.getMark mk = some e → e.loaded = true) ∧
      t.sel = none := by
  have hc := conservative_of hn hi he
  obtain ⟨h1, h2⟩ := result_inv m numOf g stmts stf hc (Grip.Props.C01.Lemmas.typeCheck_fold ht) hl
  exact ⟨h1, fun t htm => ⟨(h2 t htm).cur, fun h => (h2 t htm).marks (Or.inl h),
    (h2 t htm).loaded.1, (h2 t htm).loaded.2, (h2 t htm).sel⟩⟩

/-- test: the hypotheses hold for `V().out().hasLabel("Q").limit(1)`; on `gEx` there IS a result -/
example : EvalN.evalN C02.kvMiss numOf Grip.Props.C01.gEx [.V [], .out [], .hasLabel ["Q"], .limit 1]
      = evalFrom numOf Grip.Props.C01.gEx {} [Traveler.seed] [.V [], .out [], .hasLabel ["Q"], .limit 1] ∧
    (evalFrom (fun _ => none) Grip.Props.C01.gEx {} [Traveler.seed]
      [.V [], .out [], .hasLabel ["Q"], .limit 1]).length = 1 :=
  ⟨(result_elements_present_loaded numOf Grip.Props.C01.gEx C02.kvMiss _ ⟨.vertex, []⟩
      (by decide) (by decide) (by decide) rfl (by decide)).1, by decide⟩

/-- The rows of the two evaluations coincide (any `emitNull` behaviour, any final type —
    including `selection`, where the travelers differ in the placeholder but the rows do not). -/
theorem evalN_eq_evalFrom (m : C02.NullMiss) (stmts : List Stmt) (stf : TState)
    (hn : ∀ s ∈ stmts, C02.isNullMove s = false)
    (hi : ∀ s ∈ stmts, s.kind ≠ .lookupVertsIndex) (he : ∀ s ∈ stmts, s.kind ≠ .engineCustom)
    (ht : typeCheck stmts = .ok stf) :
    (EvalN.evalN m numOf g stmts).map (convertN g stf)
      = ((evalFrom numOf g {} [Traveler.seed] stmts).map (convert stf)).map RowN.ofRow := by
  have hc := conservative_of hn hi he
  rw [List.map_map]
  exact fold_rel m numOf g stmts {} stf 0 _ _ hc (Grip.Props.C01.Lemmas.typeCheck_fold ht) rel_seed

/-- (1c) CONSERVATIVE EXTENSION, whole programs: on every program without `*Null` moves (and
    without the two Go-only statements `lookupVertsIndex`, `engineCustom`) `runN` IS `run`, modulo
    the embedding `RowN.ofRow` of rows.  No hypothesis on marks is needed: that every mark a
    several-mark `select` names either holds a loaded element or is recorded with a non-element
    type (and is then left out of the row by `Convert`) is PROVED (`Lemmas.Inv`, `Lemmas.Rel`),
    for all graphs — including ill-formed ones — and all such programs, well typed or not. -/
theorem runN_eq_run (stmts : List Stmt)
    (hn : ∀ s ∈ stmts, C02.isNullMove s = false)
    (hi : ∀ s ∈ stmts, s.kind ≠ .lookupVertsIndex) (he : ∀ s ∈ stmts, s.kind ≠ .engineCustom) :
    runN numOf g stmts = (run numOf g stmts).map (List.map RowN.ofRow) := by
  unfold runN run
  cases ht : typeCheck stmts with
  | error e => rfl
  | ok stf =>
    simp only
    split
    · rfl
    · show Except.ok _ = Except.ok _
      rw [evalN_eq_evalFrom numOf g C02.kvMiss stmts stf hn hi he ht]

/-- a program with marks, a several-mark `select` (one mark undefined), filters and a cut -/
def progSel : List Stmt :=
  [.V [], .as_ "x", .out [], .hasLabel ["Q"], .as_ "y", .select ["x", "y", "zz"], .limit 5]

/-- test of (1c) (the hypotheses hold for `progSel`; the theorem gives the equation for every
    graph; the `#guard`s evaluate both sides on `gEx`: the rows are there) -/
example : runN numOf g progSel = (run numOf g progSel).map (List.map RowN.ofRow) :=
  runN_eq_run numOf g progSel (by decide) (by decide) (by decide)

#guard (match run (fun _ => none) Grip.Props.C01.gEx progSel with
  | .ok [Row.sel [("x", .vertex, x), ("y", .vertex, y)]] => x.gid == "a" && y.gid == "b" | _ => false)
#guard (match runN (fun _ => none) Grip.Props.C01.gEx progSel with
  | .ok [RowN.sel [("x", .vertex, some x), ("y", .vertex, some y)]] => x.gid == "a" && y.gid == "b"
  | _ => false)

/-! #### each exclusion of (1c) is necessary (evaluated instances on `gEx`) -/

/-- `*Null` moves: `V("a").outNull()` — `run` treats the move as the identity (1 row), `runN` moves
    (2 rows: `a` has two out-edges). -/
theorem runN_ne_run_null :
    (∃ rows, run (fun _ => none) Grip.Props.C01.gEx [.V ["a"], .outNull []] = .ok rows ∧ rows.length = 1) ∧
    (∃ rows, runN (fun _ => none) Grip.Props.C01.gEx [.V ["a"], .outNull []] = .ok rows ∧ rows.length = 2) :=
  ⟨⟨_, rfl, by decide⟩, ⟨_, rfl, by decide⟩⟩

/-- `lookupVertsIndex`: the identity for `run`, the index lookup for `runN` (no vertex is labelled
    "Z": no row). -/
theorem runN_ne_run_index :
    (∃ rows, run (fun _ => none) Grip.Props.C01.gEx [.V [], .lookupVertsIndex ["Z"]] = .ok rows ∧ rows.length = 2) ∧
    (∃ rows, runN (fun _ => none) Grip.Props.C01.gEx [.V [], .lookupVertsIndex ["Z"]] = .ok rows ∧ rows.length = 0) :=
  ⟨⟨_, rfl, by decide⟩, ⟨_, rfl, by decide⟩⟩

/-! `engineCustom` (its typing rule announces any type for an unchanged traveler):
    `V().as("a").count().engineCustom(vertex).select(["a","b"])` — the count traveler has no marks,
    the static environment still records `a : vertex`; `run` answers with the default element `{}`,
    `runN` (Go: placeholder, reloaded under the empty id) with no element.  (`#guard`: the typing of
    `as` calls `validFieldName`, whose string functions do not reduce in the kernel.) -/
#guard (match run (fun _ => none) Grip.Props.C01.gEx
    [.V [], .as_ "a", .count, .engineCustom "x" .vertex, .select ["a", "b"]] with
  | .ok [Row.sel [("a", .vertex, e)]] => e == {} | _ => false)
#guard (match runN (fun _ => none) Grip.Props.C01.gEx
    [.V [], .as_ "a", .count, .engineCustom "x" .vertex, .select ["a", "b"]] with
  | .ok [RowN.sel [("a", .vertex, none)]] => true | _ => false)

/-! ## §2 the meaning of a `*Null` move -/

/-- THE NULL ROW `t.AddCurrent(nil)`: no current element, the same marks, the path extended by the
    empty `DataElementID`; count, render, selections and aggregation are not copied. -/
theorem null_row_spec (t : Traveler) :
    (t.addCurrent none).cur = none ∧ (t.addCurrent none).marks = t.marks ∧
    (t.addCurrent none).path = t.path ++ [PathEl.empty] ∧
    (t.addCurrent none).count = 0 ∧ (t.addCurrent none).render = .null ∧
    (t.addCurrent none).sel = none ∧ (t.addCurrent none).agg = none :=
  ⟨rfl, rfl, rfl, rfl, rfl, rfl, rfl⟩

/-- On streams a `*Null` move works row by row. -/
theorem null_moves_per_row (m : C02.NullMiss) (ty : DataType) (ls : List String) (ts : List Traveler) :
    EvalN.evalStepN m numOf g ty (.outNull ls) ts = ts.flatMap (C02.stepOutNull m g ty ls) ∧
    EvalN.evalStepN m numOf g ty (.inNull ls) ts = ts.flatMap (C02.stepInNull m g ty ls) ∧
    EvalN.evalStepN m numOf g ty (.outENull ls) ts = ts.flatMap (C02.stepOutENull m g ls) ∧
    EvalN.evalStepN m numOf g ty (.inENull ls) ts = ts.flatMap (C02.stepInENull m g ls) :=
  ⟨rfl, rfl, rfl, rfl⟩

/-- `outNull` from a VERTEX (any type but `edge`): the rows of `out`, followed by exactly one extra
    row — the null row — iff the adjacency channel found nothing. -/
theorem outNull_from_vertex (m : C02.NullMiss) (ty : DataType) (hty : ty ≠ .edge) (ls : List String)
    (t : Traveler) :
    C02.stepOutNull m g ty ls t =
      stepOut g ty ls t ++ (if m.outV g (curId t) ls = true then [t.addCurrent none] else []) := by
  unfold C02.stepOutNull C02.nullRow
  have : (ty == DataType.edge) = false := by cases ty <;> first | rfl | exact absurd rfl hty
  simp [this]

theorem inNull_from_vertex (m : C02.NullMiss) (ty : DataType) (hty : ty ≠ .edge) (ls : List String)
    (t : Traveler) :
    C02.stepInNull m g ty ls t =
      stepIn g ty ls t ++ (if m.inV g (curId t) ls = true then [t.addCurrent none] else []) := by
  unfold C02.stepInNull C02.nullRow
  have : (ty == DataType.edge) = false := by cases ty <;> first | rfl | exact absurd rfl hty
  simp [this]

theorem outENull_from_vertex (m : C02.NullMiss) (ls : List String) (t : Traveler) :
    C02.stepOutENull m g ls t =
      stepOutE g ls t ++ (if m.outE g (curId t) ls = true then [t.addCurrent none] else []) := rfl

theorem inENull_from_vertex (m : C02.NullMiss) (ls : List String) (t : Traveler) :
    C02.stepInENull m g ls t =
      stepInE g ls t ++ (if m.inE g (curId t) ls = true then [t.addCurrent none] else []) := rfl

/-- The row count: `|plain| + (if miss then 1 else 0)`. -/
theorem outNull_length (m : C02.NullMiss) (ty : DataType) (hty : ty ≠ .edge) (ls : List String)
    (t : Traveler) :
    (C02.stepOutNull m g ty ls t).length =
      (stepOut g ty ls t).length + (if m.outV g (curId t) ls = true then 1 else 0) := by
  rw [outNull_from_vertex g m ty hty]; split <;> simp

theorem inNull_length (m : C02.NullMiss) (ty : DataType) (hty : ty ≠ .edge) (ls : List String)
    (t : Traveler) :
    (C02.stepInNull m g ty ls t).length =
      (stepIn g ty ls t).length + (if m.inV g (curId t) ls = true then 1 else 0) := by
  rw [inNull_from_vertex g m ty hty]; split <;> simp

theorem outENull_length (m : C02.NullMiss) (ls : List String) (t : Traveler) :
    (C02.stepOutENull m g ls t).length =
      (stepOutE g ls t).length + (if m.outE g (curId t) ls = true then 1 else 0) := by
  rw [outENull_from_vertex]; split <;> simp

theorem inENull_length (m : C02.NullMiss) (ls : List String) (t : Traveler) :
    (C02.stepInENull m g ls t).length =
      (stepInE g ls t).length + (if m.inE g (curId t) ls = true then 1 else 0) := by
  rw [inENull_from_vertex]; split <;> simp

/-- "Exactly one extra row iff the channel found nothing", spelled out: the result is the plain
    rows followed by the null row iff `miss`, and just the plain rows iff not `miss`. -/
theorem outNull_extra_row_iff (m : C02.NullMiss) (ty : DataType) (hty : ty ≠ .edge) (ls : List String)
    (t : Traveler) :
    (C02.stepOutNull m g ty ls t = stepOut g ty ls t ++ [t.addCurrent none] ↔ m.outV g (curId t) ls = true) ∧
    (C02.stepOutNull m g ty ls t = stepOut g ty ls t ↔ m.outV g (curId t) ls = false) := by
  rw [outNull_from_vertex g m ty hty]; exact append_if_single_iff _ _ _

theorem inNull_extra_row_iff (m : C02.NullMiss) (ty : DataType) (hty : ty ≠ .edge) (ls : List String)
    (t : Traveler) :
    (C02.stepInNull m g ty ls t = stepIn g ty ls t ++ [t.addCurrent none] ↔ m.inV g (curId t) ls = true) ∧
    (C02.stepInNull m g ty ls t = stepIn g ty ls t ↔ m.inV g (curId t) ls = false) := by
  rw [inNull_from_vertex g m ty hty]; exact append_if_single_iff _ _ _

theorem outENull_extra_row_iff (m : C02.NullMiss) (ls : List String) (t : Traveler) :
    (C02.stepOutENull m g ls t = stepOutE g ls t ++ [t.addCurrent none] ↔ m.outE g (curId t) ls = true) ∧
    (C02.stepOutENull m g ls t = stepOutE g ls t ↔ m.outE g (curId t) ls = false) := by
  rw [outENull_from_vertex]; exact append_if_single_iff _ _ _

theorem inENull_extra_row_iff (m : C02.NullMiss) (ls : List String) (t : Traveler) :
    (C02.stepInENull m g ls t = stepInE g ls t ++ [t.addCurrent none] ↔ m.inE g (curId t) ls = true) ∧
    (C02.stepInENull m g ls t = stepInE g ls t ↔ m.inE g (curId t) ls = false) := by
  rw [inENull_from_vertex]; exact append_if_single_iff _ _ _

/-! ### kvgraph's channels (`kvMiss`) -/

/-- `outENull` (GetOutEdgeChannel): "found nothing" IS "`outE` returns no row". -/
theorem outENull_miss_iff (ls : List String) (t : Traveler) :
    C02.kvMiss.outE g (curId t) ls = true ↔ stepOutE g ls t = [] := by
  simp [C02.kvMiss, stepOutE]

/-- `inENull` (GetInEdgeChannel): likewise. -/
theorem inENull_miss_iff (ls : List String) (t : Traveler) :
    C02.kvMiss.inE g (curId t) ls = true ↔ stepInE g ls t = [] := by
  simp [C02.kvMiss, stepInE]

/-- `inNull` (GetInChannel sets `found` only when the source vertex could be fetched): "found
    nothing" IS "`in` returns no row". -/
theorem inNull_miss_iff (ty : DataType) (hty : ty ≠ .edge) (ls : List String) (t : Traveler) :
    C02.kvMiss.inV g (curId t) ls = true ↔ stepIn g ty ls t = [] := by
  have : (ty == DataType.edge) = false := by cases ty <;> first | rfl | exact absurd rfl hty
  simp [C02.kvMiss, stepIn, this]

/-- `outNull` (GetOutChannel sets `found` as soon as an edge KEY matches, before the destination
    vertex is fetched): "found nothing" means "no out-EDGE", which implies "`out` returns no row" … -/
theorem outNull_miss_imp (ty : DataType) (hty : ty ≠ .edge) (ls : List String) (t : Traveler)
    (h : C02.kvMiss.outV g (curId t) ls = true) : stepOut g ty ls t = [] := by
  have : (ty == DataType.edge) = false := by cases ty <;> first | rfl | exact absurd rfl hty
  have h' : g.outEdges (curId t) ls = [] := by simpa [C02.kvMiss] using h
  simp [stepOut, this, AGraph.outVerts, h']

/-- … but not conversely: `outNull` returns NO row at all — neither a neighbour nor the null row —
    exactly for a vertex that has out-edges (with a label the move allows) all of which lead to vertices
    that do not exist. -/
theorem outNull_drops_iff (ty : DataType) (hty : ty ≠ .edge) (ls : List String) (t : Traveler) :
    C02.stepOutNull C02.kvMiss g ty ls t = [] ↔
      g.outEdges (curId t) ls ≠ [] ∧ g.outVerts (curId t) ls = [] := by
  have : (ty == DataType.edge) = false := by cases ty <;> first | rfl | exact absurd rfl hty
  rw [outNull_from_vertex g C02.kvMiss ty hty]
  simp only [C02.kvMiss, stepOut, this, Bool.false_eq_true, if_false, List.append_eq_nil_iff,
    List.map_eq_nil_iff, List.isEmpty_iff]
  constructor
  · rintro ⟨h1, h2⟩
    refine ⟨fun h => ?_, h1⟩
    rw [if_pos h] at h2
    cases h2
  · rintro ⟨h1, h2⟩
    exact ⟨h2, by rw [if_neg h1]⟩

/-- A `*Null` move never drops a row — for `outENull`, `inENull` and (from a vertex) `inNull`:
    every input row yields at least one output row. -/
theorem null_move_never_drops (ty : DataType) (hty : ty ≠ .edge) (ls : List String) (t : Traveler) :
    C02.stepOutENull C02.kvMiss g ls t ≠ [] ∧ C02.stepInENull C02.kvMiss g ls t ≠ [] ∧
    C02.stepInNull C02.kvMiss g ty ls t ≠ [] := by
  refine ⟨?_, ?_, ?_⟩
  · rw [outENull_from_vertex]
    by_cases h : stepOutE g ls t = []
    · rw [if_pos ((outENull_miss_iff g ls t).2 h)]; simp
    · simp [h]
  · rw [inENull_from_vertex]
    by_cases h : stepInE g ls t = []
    · rw [if_pos ((inENull_miss_iff g ls t).2 h)]; simp
    · simp [h]
  · rw [inNull_from_vertex g C02.kvMiss ty hty]
    by_cases h : stepIn g ty ls t = []
    · rw [if_pos ((inNull_miss_iff g ty hty ls t).2 h)]; simp
    · simp [h]

/-- … on streams: the result has at least as many rows as the input. -/
theorem null_move_never_drops_stream (ty : DataType) (hty : ty ≠ .edge) (ls : List String)
    (ts : List Traveler) :
    ts.length ≤ (EvalN.evalStepN C02.kvMiss numOf g ty (.outENull ls) ts).length ∧
    ts.length ≤ (EvalN.evalStepN C02.kvMiss numOf g ty (.inENull ls) ts).length ∧
    ts.length ≤ (EvalN.evalStepN C02.kvMiss numOf g ty (.inNull ls) ts).length :=
  ⟨length_le_flatMap _ ts (fun t _ => (null_move_never_drops g ty hty ls t).1),
   length_le_flatMap _ ts (fun t _ => (null_move_never_drops g ty hty ls t).2.1),
   length_le_flatMap _ ts (fun t _ => (null_move_never_drops g ty hty ls t).2.2)⟩

/-- `outNull` never drops a row either on a graph WITHOUT dangling out-edges. -/
theorem outNull_never_drops_of_no_dangling (hd : ∀ e ∈ g.edges, (g.getVertex e.to).isSome = true)
    (ty : DataType) (hty : ty ≠ .edge) (ls : List String) (t : Traveler) :
    C02.stepOutNull C02.kvMiss g ty ls t ≠ [] := by
  intro h
  obtain ⟨h1, h2⟩ := (outNull_drops_iff g ty hty ls t).1 h
  cases he : g.outEdges (curId t) ls with
  | nil => exact h1 he
  | cons e es =>
    have hmem : e ∈ g.edges := by
      have : e ∈ g.outEdges (curId t) ls := by rw [he]; simp
      exact (List.mem_filter.1 this).1
    have := hd e hmem
    unfold AGraph.outVerts at h2
    rw [he, List.filterMap_cons] at h2
    cases hv : g.getVertex e.to with
    | none => rw [hv] at this; cases this
    | some v => rw [hv] at h2; cases h2

/-- test of `outNull_never_drops_of_no_dangling`: `a → b` has no dangling edge; from `b` (no
    out-edge) `outNull` yields the null row -/
example : C02.stepOutNull C02.kvMiss
      { verts := [{ gid := "a" }, { gid := "b" }], edges := [{ gid := "e", frm := "a", to := "b" }] }
      .vertex [] { cur := some { gid := "b" } } ≠ [] :=
  outNull_never_drops_of_no_dangling _ (by simp [AGraph.getVertex]) _ (by decide) _ _

/-- the row standing on vertex `b` of `gEx` (whose only out-edge `e3` leads to the absent `ghost`) -/
def tB : Traveler := { cur := some { gid := "b", label := "Q" } }
def tA : Traveler := { cur := some { gid := "a", label := "P" } }

/-- `outNull_dangling_drops`: on `gEx`, vertex `b` has the single out-edge `e3 : b → ghost` and no
    vertex `ghost`: `outNull` yields NO row for it — kvgraph.GetOutChannel sets `found = true` when
    it sends the key of the destination vertex, the second goroutine cannot `Get` that key and sends
    nothing.  (`out`, `outE`, `outENull` for comparison: nothing, the edge, the edge.) -/
theorem outNull_dangling_drops :
    C02.stepOutNull C02.kvMiss Grip.Props.C01.gEx .vertex [] tB = [] ∧
    stepOut Grip.Props.C01.gEx .vertex [] tB = [] ∧
    (C02.stepOutENull C02.kvMiss Grip.Props.C01.gEx [] tB).length = 1 ∧
    (∃ rows, runN (fun _ => none) Grip.Props.C01.gEx [.V [], .outNull []] = .ok rows ∧ rows.length = 2) := by
  refine ⟨by decide, by decide, by decide, ⟨_, rfl, by decide⟩⟩

/-- test of `outNull_from_vertex` / `outNull_length`: from `a` (two out-edges) two rows and no null
    row; with the label "zz" (no such edge) exactly the null row -/
example : (C02.stepOutNull C02.kvMiss Grip.Props.C01.gEx .vertex [] tA).length = 2 ∧
    C02.stepOutNull C02.kvMiss Grip.Props.C01.gEx .vertex ["zz"] tA = [tA.addCurrent none] := by
  constructor <;> decide

/-- test of `null_move_never_drops` on `gEx`: `inNull` from `b` finds `a`; `inENull` with a label
    nobody has yields the null row -/
example : (C02.stepInNull C02.kvMiss Grip.Props.C01.gEx .vertex [] tB).length = 1 ∧
    C02.stepInENull C02.kvMiss Grip.Props.C01.gEx ["zz"] tB = [tB.addCurrent none] := by
  constructor <;> decide

/-- From an EDGE, `outNull` / `inNull` ARE `out` / `in` (`LookupEdgeAdjOut/In`, no `emitNull`):
    an edge whose endpoint vertex is absent yields no row. -/
theorem outNull_from_edge (m : C02.NullMiss) (ls : List String) (ts : List Traveler) :
    EvalN.evalStepN m numOf g .edge (.outNull ls) ts = evalStepT numOf g .edge (.out ls) ts := rfl

theorem inNull_from_edge (m : C02.NullMiss) (ls : List String) (ts : List Traveler) :
    EvalN.evalStepN m numOf g .edge (.inNull ls) ts = evalStepT numOf g .edge (.in_ ls) ts := rfl

/-! ## §3 what later steps do with a row without current element -/

section nullRows
variable {t : Traveler} (hc : t.cur = none)
include hc

/-- `hasLabel` drops it, whatever the labels (Go: `!t.IsNull() && …`). -/
theorem null_row_hasLabel (ls : List String) : keepHasLabel ls t = false := by
  simp [keepHasLabel, hc]

/-- `hasId` keeps it iff the empty id is asked for (Go: `contains(ids, t.GetCurrentID())`, and
    `GetCurrentID()` of a nil element is ""). -/
theorem null_row_hasId (ids : List String) : keepHasId ids t = ids.contains "" := by
  simp [keepHasId, curId_of_no_cur hc]

/-- `has(x)` keeps it iff the EMPTY element (id, label, from, to = "", no data — the dictionary
    `ToDict` makes of a nil element) satisfies `x`; references to marks are unaffected. -/
theorem null_row_has (x : C08.HasE) : keepHas numOf x t = keepHas numOf x (withEmpty t) :=
  keepHas_of_no_cur numOf x hc

/-- `hasKey` likewise: the reserved keys `_gid`, `_label`, `_from`, `_to` "exist", no data field does. -/
theorem null_row_hasKey (ks : List String) : keepHasKey ks t = keepHasKey ks (withEmpty t) :=
  keepHasKey_of_no_cur ks hc

/-- e.g. `has(eq(field, null))` on a data field of the current element KEEPS the row … -/
theorem null_row_has_eq_null {p f : String} {rest : List String} (hp : isCurrentKey p)
    (hj : Path.jsonPathOf p = "data" :: f :: rest) :
    keepHas numOf (.cond p .eq .null) t = true := by
  simp [keepHas, evalHas, C08.matchesCond, (value_data_of_no_cur hc hp hj).1]

/-- … every other comparison of a data field with a non-null value drops it -/
theorem null_row_has_eq_value {p f : String} {rest : List String} (hp : isCurrentKey p)
    (hj : Path.jsonPathOf p = "data" :: f :: rest) (v : JV) (hv : v ≠ .null) :
    keepHas numOf (.cond p .eq v) t = false := by
  have : (JV.null == v) = false := by
    rw [beq_eq_false_iff_ne]; exact fun h => hv h.symm
  simp [keepHas, evalHas, C08.matchesCond, (value_data_of_no_cur hc hp hj).1, this]

/-- `has(eq("_label", ""))` KEEPS a row without current element while `hasLabel([""])` drops it:
    the two spellings of a label test differ exactly on such rows. -/
theorem has_label_eq_empty_keeps_null_row {p : String} (hp : isCurrentKey p)
    (hj : Path.jsonPathOf p = ["label"]) :
    keepHas numOf (.cond p .eq (.str "")) t = true ∧ keepHasLabel [""] t = false := by
  refine ⟨?_, null_row_hasLabel hc _⟩
  simp [keepHas, evalHas, C08.matchesCond, (value_reserved_of_no_cur hc hp hj (by simp)).1]

/-- `as` records "no element" under the name (and the row still has no current element). -/
theorem null_row_as (n : String) :
    (stepAs n t).getMark n = none ∧ (stepAs n t).cur = none ∧
    ∀ m, m ≠ n → (stepAs n t).getMark m = t.getMark m := by
  refine ⟨?_, hc, fun m hm => ?_⟩
  · unfold stepAs; rw [Grip.Props.C01.Lemmas.getMark_addMark, if_pos rfl, hc]
  · unfold stepAs; rw [Grip.Props.C01.Lemmas.getMark_addMark, if_neg hm]

/-- `render` fills its template from the empty element (references to marks are unaffected). -/
theorem null_row_render (tpl : JV) : stepRender tpl t = stepRender tpl (withEmpty t) := by
  unfold stepRender
  rw [renderT_congr_value (value_of_no_cur hc) tpl]

/-- `select` (one mark or several) never looks at the current element. -/
theorem null_row_select (ms : List String) : stepSelectN ms t = stepSelectN ms (withEmpty t) := by
  have _ := hc
  match ms with
  | [] => rfl
  | [_] => rfl
  | _ :: _ :: _ => rfl

/-- `fields` passes it on unchanged. -/
theorem null_row_fields (ks : List String) : stepFields ks t = t :=
  Grip.Props.C01.Lemmas.stepFields_none ks t hc

/-- `unwind` passes it on unchanged. -/
theorem null_row_unwind (f : String) : stepUnwind f t = [t] := by
  unfold stepUnwind; rw [hc]

/-- The moves `out / in / both / outE / inE / bothE` produce nothing from it, from whatever type —
    on a graph without blank ids (`NoEmptyId`: the adjacency of the id "" is empty and `GetVertex("")`
    finds nothing). -/
theorem null_row_moves (hg : NoEmptyId g) (ty : DataType) (ls : List String) :
    evalStepT numOf g ty (.out ls) [t] = [] ∧ evalStepT numOf g ty (.in_ ls) [t] = [] ∧
    evalStepT numOf g ty (.both ls) [t] = [] ∧ evalStepT numOf g ty (.outE ls) [t] = [] ∧
    evalStepT numOf g ty (.inE ls) [t] = [] ∧ evalStepT numOf g ty (.bothE ls) [t] = [] := by
  simp [evalStepT, stepOut_of_no_cur hg ty ls hc, stepIn_of_no_cur hg ty ls hc,
    stepOutE_of_no_cur hg ls hc, stepInE_of_no_cur hg ls hc]

/-- A `*Null` move from a type other than `edge` (after `outNull` / `inNull`, typed `vertex`) turns
    it into exactly one null row again … -/
theorem null_row_null_moves_from_vertex (hg : NoEmptyId g) (ty : DataType) (hty : ty ≠ .edge)
    (ls : List String) :
    C02.stepOutNull C02.kvMiss g ty ls t = [t.addCurrent none] ∧
    C02.stepInNull C02.kvMiss g ty ls t = [t.addCurrent none] ∧
    C02.stepOutENull C02.kvMiss g ls t = [t.addCurrent none] ∧
    C02.stepInENull C02.kvMiss g ls t = [t.addCurrent none] := by
  refine ⟨?_, ?_, ?_, ?_⟩
  · rw [outNull_from_vertex g _ ty hty, stepOut_of_no_cur hg ty ls hc, curId_of_no_cur hc]
    simp [C02.kvMiss, outEdges_blank hg]
  · rw [inNull_from_vertex g _ ty hty, stepIn_of_no_cur hg ty ls hc, curId_of_no_cur hc]
    simp [C02.kvMiss, inVerts_blank hg]
  · rw [outENull_from_vertex, stepOutE_of_no_cur hg ls hc, curId_of_no_cur hc]
    simp [C02.kvMiss, outEdges_blank hg]
  · rw [inENull_from_vertex, stepInE_of_no_cur hg ls hc, curId_of_no_cur hc]
    simp [C02.kvMiss, inEdges_blank hg]

/-- … but `outNull` / `inNull` from type `edge` (after `outENull` / `inENull`) DROP it:
    `LookupEdgeAdjOut/In` skip a traveler without current element and have no `emitNull`.
    So `V().outENull().outNull()` loses every vertex without out-edges. -/
theorem null_row_null_moves_from_edge (m : C02.NullMiss) (hg : NoEmptyId g) (ls : List String) :
    C02.stepOutNull m g .edge ls t = [] ∧ C02.stepInNull m g .edge ls t = [] := by
  constructor
  · show stepOut g .edge ls t = []
    exact stepOut_of_no_cur hg .edge ls hc
  · show stepIn g .edge ls t = []
    exact stepIn_of_no_cur hg .edge ls hc

/-- `distinct` computes its key on the empty element … -/
theorem null_row_distinct_key (fs : List String) : distinctKey fs t = distinctKey fs (withEmpty t) :=
  distinctKey_of_no_cur fs hc

/-- … so for the default key (the element id; `p = "_gid"`) the key of such a row is `[""]` -/
theorem null_row_distinct_gid {p : String} (hp : isCurrentKey p) (hj : Path.jsonPathOf p = ["gid"]) :
    distinctKey [p] t = some [.str ""] := by
  have h := value_reserved_of_no_cur hc hp hj (by simp)
  simp [distinctKey, h.1, h.2]

end nullRows

/-- `distinct` treats a row without current element as ONE MORE KEY VALUE: appended to a stream in
    which no row has its key, it is kept (last) … -/
theorem null_row_distinct_new (fs : List String) (hfs : fs ≠ []) (ts : List Traveler) (n : Traveler)
    (k : List JV) (hk : distinctKey fs n = some k) (hnew : ∀ x ∈ ts, distinctKey fs x ≠ some k) :
    evalStepT numOf g .vertex (.distinct fs) (ts ++ [n]) = evalStepT numOf g .vertex (.distinct fs) ts ++ [n] := by
  have : fs.isEmpty = false := by cases fs <;> simp_all
  simp only [evalStepT, stepDistinct, this, Bool.false_eq_true, if_false]
  exact distinctGo_append_new fs n k hk ts [] (by simp) hnew

/-- … and dropped when a row with its key came earlier: of several null rows (on the default key
    they all have the key `[""]`) only the first survives. -/
theorem null_row_distinct_old (fs : List String) (hfs : fs ≠ []) (ts : List Traveler) (n : Traveler)
    (k : List JV) (hk : distinctKey fs n = some k) (hold : ∃ x ∈ ts, distinctKey fs x = some k) :
    evalStepT numOf g .vertex (.distinct fs) (ts ++ [n]) = evalStepT numOf g .vertex (.distinct fs) ts := by
  have : fs.isEmpty = false := by cases fs <;> simp_all
  simp only [evalStepT, stepDistinct, this, Bool.false_eq_true, if_false]
  exact distinctGo_append_old fs n k hk ts [] (Or.inr hold)

/-- On streams: `hasLabel` removes every row without current element (and then filters by label). -/
theorem hasLabel_drops_null_rows (ty : DataType) (ls : List String) (ts : List Traveler) :
    evalStepT numOf g ty (.hasLabel ls) ts
      = evalStepT numOf g ty (.hasLabel ls) (ts.filter (fun t => t.cur.isSome)) ∧
    ∀ t ∈ evalStepT numOf g ty (.hasLabel ls) ts, t.cur.isSome = true := by
  constructor
  · simp only [evalStepT, List.filter_filter]
    apply List.filter_congr
    intro t _
    cases h : t.cur.isSome <;> simp [keepHasLabel, h]
  · intro t ht
    have := (List.mem_filter.1 ht).2
    cases h : t.cur with
    | some e => rfl
    | none => rw [null_row_hasLabel h] at this; cases this

/-- `count` counts it like any row. -/
theorem count_counts_null_rows (ty : DataType) (ts : List Traveler) (t : Traveler) :
    evalStepT numOf g ty .count (ts ++ [t.addCurrent none]) = [{ count := ts.length + 1 }] := by
  simp [evalStepT]

/-- `limit / skip / range` treat it like any row: they never look at a row — they commute with
    EVERY transformation of the rows (for instance the one that removes the current element). -/
theorem trunc_parametric (ty : DataType) (s : Stmt)
    (hs : s.kind = .limit ∨ s.kind = .skip ∨ s.kind = .range) (f : Traveler → Traveler)
    (ts : List Traveler) :
    evalStepT numOf g ty s (ts.map f) = (evalStepT numOf g ty s ts).map f := by
  cases s <;> simp [Stmt.kind] at hs
  · exact (List.map_take).symm
  · exact (List.map_drop).symm
  · exact rangeGo_map f _ _ 0 ts

/-- `AGraph.WellFormed` (unique ids) does NOT give `NoEmptyId`: a single vertex with the blank id is
    well formed.  (The server's validators refuse it: `gripql.Vertex.Validate`, `Edge.Validate`.) -/
theorem wellFormed_not_noEmptyId :
    ∃ g : AGraph, g.WellFormed ∧ ¬ NoEmptyId g :=
  ⟨{ verts := [{ gid := "" }] }, by simp [AGraph.WellFormed], fun h => h.vertex { gid := "" } (by simp) rfl⟩

theorem gEx_noEmptyId : NoEmptyId Grip.Props.C01.gEx := by
  constructor <;> (unfold Grip.Props.C01.gEx; simp)

/-- test of §3 on `gEx`: the null row `outNull("zz")` makes of `a`, through `as`, a move, a
    `*Null` move and `count` -/
example : (tA.addCurrent none).cur = none ∧
    evalStepT numOf Grip.Props.C01.gEx .vertex (.out []) [tA.addCurrent none] = [] ∧
    C02.stepOutENull C02.kvMiss Grip.Props.C01.gEx [] (tA.addCurrent none)
      = [(tA.addCurrent none).addCurrent none] ∧
    keepHasLabel ["", "P"] (tA.addCurrent none) = false :=
  ⟨rfl, (null_row_moves numOf Grip.Props.C01.gEx rfl gEx_noEmptyId .vertex []).1,
   (null_row_null_moves_from_vertex Grip.Props.C01.gEx rfl gEx_noEmptyId .vertex (by decide) []).2.2.1,
   null_row_hasLabel rfl _⟩

/-! the string facts the theorems above take as hypotheses, for the keys one writes in practice
    (`String.splitOn` does not reduce in the kernel; evaluated) -/
#guard Path.namespaceOf "name" == none && Path.jsonPathOf "name" == ["data", "name"]
#guard Path.namespaceOf "_label" == none && Path.jsonPathOf "_label" == ["label"]
#guard Path.namespaceOf "_gid" == none && Path.jsonPathOf "_gid" == ["gid"]
#guard keepHas (fun _ => none) (.cond "name" .eq .null) (tA.addCurrent none)
#guard keepHas (fun _ => none) (.cond "_label" .eq (.str "")) (tA.addCurrent none)
#guard !keepHasLabel [""] (tA.addCurrent none)
#guard distinctKey ["_gid"] (tA.addCurrent none) == some [.str ""]

/-! ## §4 the placeholder -/

/-- THE SELECTION ROW of `select(m₁, m₂, …)` under `Convert`'s lazy reload, on a graph without blank
    ids: for every selected mark recorded with type vertex/edge (first occurrences, in order) the
    entry `(m, type, what the mark holds)` — `none` for a mark that holds no element (Go: the
    placeholder `&gdbi.DataElement{}` has `Loaded = false`, `Convert` looks it up under the id ""
    and finds nothing), `some e` for a mark holding the loaded element `e`.  Marks recorded with
    another type (or never recorded) are left out. -/
theorem select_placeholder_row (hg : NoEmptyId g) (marks : MarkTypes) (a b : String)
    (rest : List String) (t : Traveler) (hl : ∀ m e, t.getMark m = some e → e.loaded = true) :
    convertN g ⟨.selection, marks⟩ (stepSelectN (a :: b :: rest) t) =
      .sel ((a :: b :: rest).eraseDups.filterMap (fun m =>
        match marks.get m with
        | .vertex => some (m, DataType.vertex, t.getMark m)
        | .edge => some (m, DataType.edge, t.getMark m)
        | _ => none)) :=
  convertN_stepSelectN hg marks a b rest t hl

/-- entry by entry -/
theorem select_placeholder_entry (hg : NoEmptyId g) (marks : MarkTypes) (a b : String)
    (rest : List String) (t : Traveler) (hl : ∀ m e, t.getMark m = some e → e.loaded = true)
    (m : String) (hm : m ∈ a :: b :: rest) (ty : DataType) (hty : ty = .vertex ∨ ty = .edge)
    (hmt : marks.get m = ty) :
    ∃ s, convertN g ⟨.selection, marks⟩ (stepSelectN (a :: b :: rest) t) = .sel s ∧
      (m, ty, t.getMark m) ∈ s := by
  refine ⟨_, select_placeholder_row g hg marks a b rest t hl, ?_⟩
  rw [List.mem_filterMap]
  refine ⟨m, List.mem_eraseDups.2 hm, ?_⟩
  rcases hty with rfl | rfl <;> simp [hmt]

/-- Without `NoEmptyId` the placeholder is NOT "no element": on a graph that stores a vertex under
    the blank id, `Convert`'s reload of the placeholder finds that vertex. -/
theorem placeholder_needs_noEmptyId :
    C02.reload { verts := [{ gid := "", label := "L" }] } .vertex { loaded := false }
      = some { gid := "", label := "L" } := by decide

/-- test of §4: `x` holds `a`, `y` holds nothing (an `as` on a null row), `zz` was never recorded -/
example : convertN Grip.Props.C01.gEx ⟨.selection, [("x", .vertex), ("y", .vertex)]⟩
      (stepSelectN ["x", "y", "zz"] { marks := [("x", some { gid := "a", label := "P" }), ("y", none)] })
    = .sel [("x", .vertex, some { gid := "a", label := "P" }), ("y", .vertex, none)] := by
  rw [select_placeholder_row Grip.Props.C01.gEx gEx_noEmptyId]
  · exact congrArg RowN.sel (by decide)
  · intro m e h
    cases h1 : ("x" == m) <;> cases h2 : ("y" == m) <;>
      simp [Traveler.getMark, List.find?, h1, h2] at h
    all_goals (subst h; rfl)

/-! … and the whole traversal `V().as("x").outNull("zz").as("y").select(["x","y"])` (evaluated) -/
#guard (match runN (fun _ => none) Grip.Props.C01.gEx
    [.V ["a"], .as_ "x", .outNull ["zz"], .as_ "y", .select ["x", "y"]] with
  | .ok [RowN.sel [("x", .vertex, some x), ("y", .vertex, none)]] => x.gid == "a" | _ => false)

/-! ## §5 typing is unaffected -/

/-- The four `*Null` moves are typed exactly like the plain moves (hand-written switch). -/
theorem typeStep_null_eq (st : TState) (ls : List String) :
    typeStep st (.outNull ls) = typeStep st (.out ls) ∧ typeStep st (.inNull ls) = typeStep st (.in_ ls) ∧
    typeStep st (.outENull ls) = typeStep st (.outE ls) ∧ typeStep st (.inENull ls) = typeStep st (.inE ls) :=
  ⟨rfl, rfl, rfl, rfl⟩

/-- … in the table REGENERATED from engine/core/compile.go as well: the rows of the `*Null` cases
    equal the rows of the plain cases (outcome per data type, argument checks, mark flag). -/
theorem typing_table_null_rows :
    let row := fun k => (GripGen.CoreTyping.table.find k .plain).map (fun e => (e.res, e.checks, e.setsMark))
    row .outNull = row .out ∧ row .inNull = row .in_ ∧ row .outENull = row .outE ∧
    row .inENull = row .inE ∧ (row .out).isSome = true ∧ (row .outE).isSome = true := by
  decide

/-- … hence for the interpreter over the regenerated table (the Go switch as it is today). -/
theorem typeStepT_null_eq (st : TState) (ls : List String) :
    typeStepT GripGen.CoreTyping.table st (.outNull ls) = typeStepT GripGen.CoreTyping.table st (.out ls) ∧
    typeStepT GripGen.CoreTyping.table st (.inNull ls) = typeStepT GripGen.CoreTyping.table st (.in_ ls) ∧
    typeStepT GripGen.CoreTyping.table st (.outENull ls) = typeStepT GripGen.CoreTyping.table st (.outE ls) ∧
    typeStepT GripGen.CoreTyping.table st (.inENull ls) = typeStepT GripGen.CoreTyping.table st (.inE ls) := by
  simp only [← Grip.Props.C01.typeStep_is_source_switch]
  exact typeStep_null_eq st ls

/-- test of §5: a traversal through all four `*Null` moves type checks like its plain twin -/
example : typeCheck [.V [], .outNull [], .outENull ["k"], .inNull [], .inENull []]
    = typeCheck [.V [], .out [], .outE ["k"], .in_ [], .inE []] := rfl

end Grip.Props.C01N
