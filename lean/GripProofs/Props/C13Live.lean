/-
  Props.C13Live — the liveness half of C13: every stream combinator DOES close its output, after a
  bounded number of steps, and exactly when its input is exhausted and everything was delivered.

  Vocabulary (Grip.Spec.C13Live): a step `act a s = some s'` is IDLE when `s' = s`;
  `Exec act s n k s'` is a finite execution with `n` steps of which `k` are non-idle;
  `Terminal act s`: no non-idle step is enabled (the execution is maximal); `Dead act s`: no step
  at all is enabled; `IsRun act run`: an infinite execution; `nonIdle run n`: its non-idle steps
  among the first `n`; `Progress act run`: the assumption about idle steps (below).

  For each of the five transition systems of Grip.Model.C13 (channels unbounded, see below):

    `…_measure`            a natural-number measure on states that EVERY step decreases — for
                           dual / queue / mux by exactly one, for rr strictly; for the batcher every
                           step except the idle poll (`batcher_idle_iff`: a `select` that took the
                           `default:` arm and whose flush test failed — the only idle step of the
                           five models).
    (a) `…_steps_bound`    every execution from the initial state has at most `f` non-idle steps:
                               rr       (2·nworkers + 5)·|input| + 3·nworkers + 2
                               mux      4·|puts| + 2                      (exact for maximal ones)
                               batcher  2·|input| + 2
                               dual     Σ_r (signal: 2 | other: 2·|loader r| + 2) + 2
                                        ≤ 2·|expected output| + 2·|input| + 2   (exact for maximal ones)
                               queue    4·|input| + 4                     (exact for maximal ones)
    (b) `…_terminal_closed` a reachable state in which no non-idle step is enabled is closed, its
                           output is the complete specified output and the input is exhausted;
        `…_closed_dead`    conversely in a closed reachable state NOTHING is enabled any more
                           (every goroutine has returned: the close is the last step).
    `…_maximal_closed`     hence every maximal finite execution ends closed with the specified output;
    `…_extends_to_maximal` every finite execution can be extended to a maximal one;
    `…_no_infinite_run`    rr, mux, dual, queue have no idle steps, hence no infinite execution at
                           all: EVERY maximal execution is finite and ends closed, in every interleaving.

  What is assumed about idle steps (batcher only).  Between two non-idle steps the batcher may
  poll any finite number of times (`Exec` allows that; `batcher_steps_bound` bounds `k`, not `n`).
  An infinite execution has at most `2·|input| + 2` non-idle steps (`batcher_run_bound`), so from
  some point on it only polls (`batcher_run_eventually_idle`), and this CAN happen
  (`batcher_idle_forever`: the run that polls forever and never receives is an execution of the
  model — in Go: the producer never sends and never closes the request channel).  The assumption
  that excludes it is `Progress`: idle steps do not go on forever while a non-idle step is enabled.
  In Go terms: `select` takes a ready receive in preference to `default`, and the producer
  eventually sends or closes.  Under it no infinite execution exists
  (`batcher_no_infinite_run_of_progress`), so every maximal execution is finite and ends closed
  with a valid batching of the whole input.

  The jump queue's goroutine B busy-waits on an empty queue in the Go code; the model `qAct`
  leaves those iterations out.  `Spec.qSpinAct` adds them as an idle `spin` action and the same
  three statements are proved for it (`queue_spin_steps_bound`, `queue_spin_maximal_closed`,
  `queue_spin_forever` — spinning forever is an execution —, and
  `queue_spin_no_infinite_run_of_progress`).

  What is still NOT covered: the channel capacities (10 / nworkers*10 / 50 / 250 / 100).  In the
  models a send never blocks; with bounded channels a send is disabled while the channel is full,
  which removes interleavings — all bounds and `…_maximal_closed` remain true of the executions
  that remain, but `Terminal` would have to be re-proved to imply closed (absence of a deadlock
  caused by a full channel).  That is sampled by the correspondence run only.
-/
import GripProofs.Props.C13
import GripProofs.Lemmas.C13Live
import GripProofs.Lemmas.C13LiveRR

namespace Grip.Props.C13
open Grip.C13 Grip.C13.Spec

/-! ## round-robin worker pool (MarshalStream / UnmarshalStream) -/

/-- the step bound for the worker pool: `(2·nworkers + 5)·len + 3·nworkers + 2` -/
def rrStepBound (nworkers len : Nat) : Nat := (2 * nworkers + 5) * len + 3 * nworkers + 2

theorem rrStepBound_eq (n len : Nat) : rrStepBound n len = Lemmas.rrSteps n len := by
  simp only [rrStepBound, Lemmas.rrSteps, Nat.add_mul, Nat.mul_assoc]
  have : n * (2 * len) = 2 * (n * len) := by rw [Nat.mul_left_comm]
  omega

/-- Every step of every goroutine (distributor, workers, merger) strictly decreases `rrMu`, for
    every configuration; `RRBound` (worker numbers > nworkers are never used) holds in every
    reachable state (`Lemmas.rr_bound`). -/
theorem rr_measure {α β : Type} (c : RRCfg) (f : α → β) (a : RRAct) (s s' : RR α β)
    (hb : Lemmas.RRBound c s) (hact : rrAct c f a s = some s') :
    Lemmas.RRBound c s' ∧ Lemmas.rrMu c s' < Lemmas.rrMu c s :=
  ⟨Lemmas.rr_bound_step c f a s s' hb hact, Lemmas.rr_dec c f a s s' hb hact⟩

/-- (a) every execution has at most `(2n+5)·|xs| + 3n + 2` steps, none of them idle. -/
theorem rr_steps_bound {α β : Type} (c : RRCfg) (f : α → β) (xs : List α) {n k : Nat} {s : RR α β}
    (he : Exec (rrAct c f) (rrInit c xs) n k s) : n = k ∧ n ≤ rrStepBound c.n xs.length := by
  have hr := Lemmas.ranked_of_strict (Lemmas.rr_bound_step c f) (Lemmas.rr_strict c f)
  have h1 := Lemmas.exec_strict_total (Lemmas.rr_bound_step c f) (Lemmas.rr_strict c f) he
    (Lemmas.rr_bound_init c xs)
  have h2 := Lemmas.exec_bound hr he (Lemmas.rr_bound_init c xs)
  have h3 := Lemmas.rr_mu_init (β := β) c xs
  rw [rrStepBound_eq]
  omega

/-- (b) a reachable state in which no non-idle step is enabled is the closed state with the
    complete output, the input exhausted. -/
theorem rr_terminal_closed {α β : Type} (c : RRCfg) (hn : 0 < c.n) (hge : c.ge = true) (hms : c.mstart = 0)
    (f : α → β) (xs : List α) (s : RR α β) (hr : Reach (rrAct c f) (rrInit c xs) s)
    (ht : Terminal (rrAct c f) s) : s.outClosed = true ∧ s.out = xs.map f ∧ s.inp = [] := by
  have hd := Lemmas.dead_of_terminal_strict (Lemmas.rr_strict c f) (Lemmas.rr_bound c f xs s hr) ht
  have hc : s.outClosed = true := by
    cases h : s.outClosed with
    | true => rfl
    | false =>
      obtain ⟨a, ha⟩ := rr_no_deadlock_partial c f s h
      rw [hd a] at ha
      cases ha
  exact ⟨hc, rr_final c hn hge hms f xs s hr hc⟩

/-- conversely, once the output is closed nothing is enabled: the distributor has closed every
    worker channel, every worker has drained and closed its own, the merger has returned. -/
theorem rr_closed_dead {α β : Type} (c : RRCfg) (hn : 0 < c.n) (hge : c.ge = true) (hms : c.mstart = 0)
    (f : α → β) (xs : List α) (s : RR α β) (hr : Reach (rrAct c f) (rrInit c xs) s)
    (hc : s.outClosed = true) : Dead (rrAct c f) s :=
  Lemmas.rr_closed_dead c hn hge hms f xs s hr hc

/-- "closes exactly when": maximal = closed -/
theorem rr_terminal_iff_closed {α β : Type} (c : RRCfg) (hn : 0 < c.n) (hge : c.ge = true) (hms : c.mstart = 0)
    (f : α → β) (xs : List α) (s : RR α β) (hr : Reach (rrAct c f) (rrInit c xs) s) :
    Terminal (rrAct c f) s ↔ s.outClosed = true :=
  ⟨fun ht => (rr_terminal_closed c hn hge hms f xs s hr ht).1,
   fun hc => Lemmas.terminal_of_dead (rr_closed_dead c hn hge hms f xs s hr hc)⟩

/-- every maximal finite execution ends closed with output = the image of the input, in order. -/
theorem rr_maximal_closed {α β : Type} (c : RRCfg) (hn : 0 < c.n) (hge : c.ge = true) (hms : c.mstart = 0)
    (f : α → β) (xs : List α) {n k : Nat} {s : RR α β} (he : Exec (rrAct c f) (rrInit c xs) n k s)
    (ht : Terminal (rrAct c f) s) :
    s.outClosed = true ∧ s.out = xs.map f ∧ s.inp = [] ∧ n ≤ rrStepBound c.n xs.length := by
  obtain ⟨h1, h2, h3⟩ := rr_terminal_closed c hn hge hms f xs s (Lemmas.exec_reach he Reach.init) ht
  exact ⟨h1, h2, h3, (rr_steps_bound c f xs he).2⟩

/-- every finite execution can be continued to a maximal one (and only finitely far) -/
theorem rr_extends_to_maximal {α β : Type} (c : RRCfg) (f : α → β) (xs : List α) {n k : Nat} {s : RR α β}
    (he : Exec (rrAct c f) (rrInit c xs) n k s) :
    ∃ n' k' u, Exec (rrAct c f) (rrInit c xs) (n + n') (k + k') u ∧ Terminal (rrAct c f) u :=
  Lemmas.exec_extends (Lemmas.ranked_of_strict (Lemmas.rr_bound_step c f) (Lemmas.rr_strict c f)) he
    (Lemmas.rr_bound_init c xs)

/-- there is no infinite execution: every maximal execution is finite (no fairness needed) -/
theorem rr_no_infinite_run {α β : Type} (c : RRCfg) (f : α → β) (xs : List α) (run : Nat → RR α β)
    (h0 : run 0 = rrInit c xs) (hrun : IsRun (rrAct c f) run) : False :=
  Lemmas.strict_no_run (Lemmas.rr_bound_step c f) (Lemmas.rr_strict c f) hrun
    (by rw [h0]; exact Lemmas.rr_bound_init c xs)

/-- MarshalStream with the constants found in the source today, `w > 0` workers: every maximal
    execution is finite, has at most `(2w+5)·|xs| + 3w + 2` steps and ends closed with the
    marshalled items in input order. -/
theorem marshal_stream_live {α β : Type} (w : Nat) (hw : 0 < w) (f : α → β) (xs : List α) :
    (∀ n k s, Exec (rrAct (marshalCfg w) f) (rrInit (marshalCfg w) xs) n k s →
        n ≤ rrStepBound w xs.length ∧
        (Terminal (rrAct (marshalCfg w) f) s → s.outClosed = true ∧ s.out = xs.map f ∧ s.inp = [])) ∧
    (∀ run : Nat → RR α β, run 0 = rrInit (marshalCfg w) xs → ¬ IsRun (rrAct (marshalCfg w) f) run) := by
  refine ⟨fun n k s he => ⟨(rr_steps_bound (marshalCfg w) f xs he).2, fun ht => ?_⟩,
    fun run h0 hrun => rr_no_infinite_run (marshalCfg w) f xs run h0 hrun⟩
  have := rr_maximal_closed (marshalCfg w) hw generated_config_ok.1 generated_config_ok.2.2.1 f xs he ht
  exact ⟨this.1, this.2.1, this.2.2.1⟩

theorem unmarshal_stream_live {α β : Type} (w : Nat) (hw : 0 < w) (f : α → β) (xs : List α) :
    (∀ n k s, Exec (rrAct (unmarshalCfg w) f) (rrInit (unmarshalCfg w) xs) n k s →
        n ≤ rrStepBound w xs.length ∧
        (Terminal (rrAct (unmarshalCfg w) f) s → s.outClosed = true ∧ s.out = xs.map f ∧ s.inp = [])) ∧
    (∀ run : Nat → RR α β, run 0 = rrInit (unmarshalCfg w) xs → ¬ IsRun (rrAct (unmarshalCfg w) f) run) := by
  refine ⟨fun n k s he => ⟨(rr_steps_bound (unmarshalCfg w) f xs he).2, fun ht => ?_⟩,
    fun run h0 hrun => rr_no_infinite_run (unmarshalCfg w) f xs run h0 hrun⟩
  have := rr_maximal_closed (unmarshalCfg w) hw generated_config_ok.2.1 generated_config_ok.2.2.2.1 f xs he ht
  exact ⟨this.1, this.2.1, this.2.2.1⟩

/-- test (hypotheses satisfiable, non-trivially): the driver's scheduled run of MarshalStream with
    2 workers on [7, 8, 9] is a maximal execution; it ends closed with [7, 8, 9] within the bound
    (2·2+5)·3 + 3·2 + 2 = 35. -/
example : ∃ n k, Exec (rrAct (marshalCfg 2) id) (rrInit (marshalCfg 2) [7, 8, 9]) n k (rrRun (marshalCfg 2) 5 [7, 8, 9]) ∧
    Terminal (rrAct (marshalCfg 2) id) (rrRun (marshalCfg 2) 5 [7, 8, 9]) ∧
    (rrRun (marshalCfg 2) 5 [7, 8, 9]).out = [7, 8, 9] ∧ n ≤ 35 := by
  obtain ⟨n, k, he⟩ := Lemmas.runSched_exec (rrAct (marshalCfg 2) id) (rrCands (marshalCfg 2))
    (20 * (([7, 8, 9] : List Nat).length + (marshalCfg 2).n) + 50) 5 (rrInit (marshalCfg 2) [7, 8, 9])
  have ht : Terminal (rrAct (marshalCfg 2) id) (rrRun (marshalCfg 2) 5 [7, 8, 9]) :=
    Lemmas.terminal_of_dead (rr_closed_dead (marshalCfg 2) (by decide) (by decide) (by decide) id [7, 8, 9] _
      (Lemmas.exec_reach he Reach.init) (by decide))
  have hm := rr_maximal_closed (marshalCfg 2) (by decide) (by decide) (by decide) id [7, 8, 9] he ht
  exact ⟨n, k, he, ht, hm.2.1.trans (List.map_id _), hm.2.2.2⟩

example : rrStepBound 2 3 = 35 := by decide

/-- test: some maximal execution exists from every input (3 workers, 5 items) -/
example : ∃ n k s, Exec (rrAct (unmarshalCfg 3) id) (rrInit (unmarshalCfg 3) [1, 2, 3, 4, 5]) n k s ∧
    Terminal (rrAct (unmarshalCfg 3) id) s := by
  simpa using rr_extends_to_maximal (unmarshalCfg 3) id [1, 2, 3, 4, 5] (Exec.nil _)

/-! ## channel multiplexer -/

/-- Every step (of the caller, of a pipeline, of runMux) decreases `muxMu K` by exactly one, where
    `K` bounds the pipeline numbers in use. -/
theorem mux_measure {α β : Type} (c : MuxCfg) (g : Nat → α → β) (K : Nat) (a : MuxAct) (s s' : Mux α β)
    (hb : Lemmas.MuxBound K s) (hact : muxAct c g a s = some s') :
    Lemmas.MuxBound K s' ∧ Lemmas.muxMu K s = Lemmas.muxMu K s' + 1 :=
  ⟨Lemmas.mux_bound_step c g K a s s' hb hact, Lemmas.mux_dec c g K a s s' hb hact⟩

/-- (a) every execution has at most `4·|puts| + 2` steps, none idle -/
theorem mux_steps_bound {α β : Type} (c : MuxCfg) (g : Nat → α → β) (puts : List (Nat × α)) {n k : Nat}
    {s : Mux α β} (he : Exec (muxAct c g) (muxInit puts) n k s) : n = k ∧ n ≤ 4 * puts.length + 2 := by
  have h := Lemmas.exec_exact (Lemmas.mux_bound_step c g (Lemmas.muxBound puts))
    (Lemmas.mux_dec c g (Lemmas.muxBound puts)) he (Lemmas.mux_bound_init puts)
  rw [Lemmas.mux_mu_init] at h
  omega

/-- (b) -/
theorem mux_terminal_closed {α β : Type} (c : MuxCfg) (hc : c.idxIsOrder = true) (g : Nat → α → β)
    (puts : List (Nat × α)) (s : Mux α β) (hr : Reach (muxAct c g) (muxInit puts) s)
    (ht : Terminal (muxAct c g) s) :
    s.outClosed = true ∧ s.out = puts.map (fun p => g p.1 p.2) ∧ s.puts = [] ∧ s.half = none := by
  have hd := Lemmas.dead_of_terminal_strict (Lemmas.mux_strict c g (Lemmas.muxBound puts))
    (Lemmas.mux_bound_reach c g puts s hr) ht
  have hcl : s.outClosed = true := by
    cases h : s.outClosed with
    | true => rfl
    | false =>
      obtain ⟨a, ha⟩ := mux_no_deadlock_partial c hc g puts s hr h
      rw [hd a] at ha
      cases ha
  obtain ⟨h1, h2⟩ := (mux_order c hc g puts s hr).2 hcl
  simp only [Bool.and_eq_true, List.isEmpty_iff, Option.isNone_iff_eq_none] at h2
  exact ⟨hcl, h1, h2.1, h2.2⟩

theorem mux_closed_dead {α β : Type} (c : MuxCfg) (hc : c.idxIsOrder = true) (g : Nat → α → β)
    (puts : List (Nat × α)) (s : Mux α β) (hr : Reach (muxAct c g) (muxInit puts) s)
    (hcl : s.outClosed = true) : Dead (muxAct c g) s :=
  Lemmas.mux_closed_dead c hc g puts s hr hcl

theorem mux_terminal_iff_closed {α β : Type} (c : MuxCfg) (hc : c.idxIsOrder = true) (g : Nat → α → β)
    (puts : List (Nat × α)) (s : Mux α β) (hr : Reach (muxAct c g) (muxInit puts) s) :
    Terminal (muxAct c g) s ↔ s.outClosed = true :=
  ⟨fun ht => (mux_terminal_closed c hc g puts s hr ht).1,
   fun h => Lemmas.terminal_of_dead (mux_closed_dead c hc g puts s hr h)⟩

/-- every maximal execution ends closed with the answers in `Put` order, after EXACTLY
    `4·|puts| + 2` steps. -/
theorem mux_maximal_closed {α β : Type} (c : MuxCfg) (hc : c.idxIsOrder = true) (g : Nat → α → β)
    (puts : List (Nat × α)) {n k : Nat} {s : Mux α β} (he : Exec (muxAct c g) (muxInit puts) n k s)
    (ht : Terminal (muxAct c g) s) :
    s.outClosed = true ∧ s.out = puts.map (fun p => g p.1 p.2) ∧ n = 4 * puts.length + 2 := by
  have hr := Lemmas.exec_reach he Reach.init
  obtain ⟨h1, h2, _⟩ := mux_terminal_closed c hc g puts s hr ht
  have h := Lemmas.exec_exact (Lemmas.mux_bound_step c g (Lemmas.muxBound puts))
    (Lemmas.mux_dec c g (Lemmas.muxBound puts)) he (Lemmas.mux_bound_init puts)
  rw [Lemmas.mux_mu_init, Lemmas.mux_closed_mu c hc g _ puts s hr h1] at h
  exact ⟨h1, h2, by omega⟩

theorem mux_extends_to_maximal {α β : Type} (c : MuxCfg) (g : Nat → α → β) (puts : List (Nat × α))
    {n k : Nat} {s : Mux α β} (he : Exec (muxAct c g) (muxInit puts) n k s) :
    ∃ n' k' u, Exec (muxAct c g) (muxInit puts) (n + n') (k + k') u ∧ Terminal (muxAct c g) u :=
  Lemmas.exec_extends (Lemmas.ranked_of_strict (Lemmas.mux_bound_step c g (Lemmas.muxBound puts))
    (Lemmas.mux_strict c g _)) he (Lemmas.mux_bound_init puts)

theorem mux_no_infinite_run {α β : Type} (c : MuxCfg) (g : Nat → α → β) (puts : List (Nat × α))
    (run : Nat → Mux α β) (h0 : run 0 = muxInit puts) (hrun : IsRun (muxAct c g) run) : False :=
  Lemmas.strict_no_run (Lemmas.mux_bound_step c g (Lemmas.muxBound puts)) (Lemmas.mux_strict c g _) hrun
    (by rw [h0]; exact Lemmas.mux_bound_init puts)

/-- test: the driver's scheduled run over 3 pipelines, 4 puts, is a maximal execution of exactly
    4·4 + 2 = 18 steps, closed, answers in `Put` order. -/
example : ∃ k, Exec (muxAct ⟨true⟩ (fun j v => (j, v))) (muxInit [(2, 10), (0, 11), (2, 12), (1, 13)]) 18 k
      (muxRun ⟨true⟩ 2 7 [(2, 10), (0, 11), (2, 12), (1, 13)]) ∧
    (muxRun ⟨true⟩ 2 7 [(2, 10), (0, 11), (2, 12), (1, 13)]).out = [(2, 10), (0, 11), (2, 12), (1, 13)] := by
  obtain ⟨n, k, he⟩ := Lemmas.runSched_exec (muxAct ⟨true⟩ (fun j v => (j, v))) (muxCands 2)
    (12 * ([(2, 10), (0, 11), (2, 12), (1, 13)] : List (Nat × Nat)).length + 50) 7
    (muxInit [(2, 10), (0, 11), (2, 12), (1, 13)])
  have ht := Lemmas.terminal_of_dead (mux_closed_dead ⟨true⟩ rfl _ _ _ (Lemmas.exec_reach he Reach.init)
    (by decide : (muxRun ⟨true⟩ 2 7 [(2, 10), (0, 11), (2, 12), (1, 13)]).outClosed = true))
  have hm := mux_maximal_closed ⟨true⟩ rfl _ _ he ht
  obtain ⟨_, h2, h3⟩ := hm
  have h3' : n = 18 := by simpa using h3
  subst h3'
  exact ⟨k, he, h2.trans (by decide)⟩

/-! ## lookup batcher — the one system with idle steps -/

/-- the idle steps: a poll (`select` took `default:`) while the loop runs, whose flush test fails
    (nothing batched, or batch not full and no timeout) -/
theorem batcher_idle_iff {α : Type} (c : BatCfg) (a : BatAct) (s : Bat α) :
    batAct c a s = some s ↔
      ∃ t, a = .idle t ∧ s.opn = true ∧ ¬ (0 < s.o.length ∧ (c.bs ≤ s.o.length ∨ t = true)) :=
  Lemmas.bat_idle_iff c a s

/-- every step is idle or strictly decreases `batMu = 2·|inp| + [o ≠ []] + [loop running] + [out open]` -/
theorem batcher_measure {α : Type} (c : BatCfg) (a : BatAct) (s s' : Bat α) (hact : batAct c a s = some s') :
    s' = s ∨ Lemmas.batMu s' < Lemmas.batMu s :=
  Lemmas.bat_dec c a s s' hact

/-- (a) every execution has at most `2·|xs| + 2` non-idle steps (`n - k` idle polls, any number) -/
theorem batcher_steps_bound {α : Type} (c : BatCfg) (xs : List α) {n k : Nat} {s : Bat α}
    (he : Exec (batAct c) (batInit xs) n k s) : k ≤ 2 * xs.length + 2 := by
  have h := Lemmas.exec_bound (Lemmas.bat_ranked c) he trivial
  rw [Lemmas.bat_mu_init] at h
  omega

/-- (b) a reachable state in which no non-idle step is enabled: the output is closed, the batches
    are a valid batching of the whole input, the input is exhausted. -/
theorem batcher_terminal_closed {α : Type} (c : BatCfg) (hbs : 0 < c.bs) (hf : c.finalFlush = true)
    (xs : List α) (s : Bat α) (hr : Reach (batAct c) (batInit xs) s) (ht : Terminal (batAct c) s) :
    s.outClosed = true ∧ BatchesOK c.bs xs s.out ∧ s.inp = [] := by
  have hc := (Lemmas.bat_terminal c s ht).2
  exact ⟨hc, (batcher_concat c hbs hf xs s hr).2.2 hc⟩

/-- after the close nothing is enabled, not even a poll: the goroutine has returned -/
theorem batcher_closed_dead {α : Type} (c : BatCfg) (hbs : 0 < c.bs) (hf : c.finalFlush = true)
    (xs : List α) (s : Bat α) (hr : Reach (batAct c) (batInit xs) s) (hcl : s.outClosed = true) :
    Dead (batAct c) s :=
  Lemmas.bat_closed_dead c hbs hf xs s hr hcl

theorem batcher_terminal_iff_closed {α : Type} (c : BatCfg) (hbs : 0 < c.bs) (hf : c.finalFlush = true)
    (xs : List α) (s : Bat α) (hr : Reach (batAct c) (batInit xs) s) :
    Terminal (batAct c) s ↔ s.outClosed = true :=
  ⟨fun ht => (Lemmas.bat_terminal c s ht).2,
   fun h => Lemmas.terminal_of_dead (batcher_closed_dead c hbs hf xs s hr h)⟩

/-- every maximal finite execution (any number of idle polls in between) ends closed with a valid
    batching of the whole input -/
theorem batcher_maximal_closed {α : Type} (c : BatCfg) (hbs : 0 < c.bs) (hf : c.finalFlush = true)
    (xs : List α) {n k : Nat} {s : Bat α} (he : Exec (batAct c) (batInit xs) n k s)
    (ht : Terminal (batAct c) s) :
    s.outClosed = true ∧ BatchesOK c.bs xs s.out ∧ s.inp = [] ∧ k ≤ 2 * xs.length + 2 := by
  obtain ⟨h1, h2, h3⟩ := batcher_terminal_closed c hbs hf xs s (Lemmas.exec_reach he Reach.init) ht
  exact ⟨h1, h2, h3, batcher_steps_bound c xs he⟩

theorem batcher_extends_to_maximal {α : Type} (c : BatCfg) (xs : List α) {n k : Nat} {s : Bat α}
    (he : Exec (batAct c) (batInit xs) n k s) :
    ∃ n' k' u, Exec (batAct c) (batInit xs) (n + n') (k + k') u ∧ Terminal (batAct c) u :=
  Lemmas.exec_extends (Lemmas.bat_ranked c) he trivial

/-- an infinite execution has at most `2·|xs| + 2` non-idle steps … -/
theorem batcher_run_bound {α : Type} (c : BatCfg) (xs : List α) (run : Nat → Bat α)
    (h0 : run 0 = batInit xs) (hrun : IsRun (batAct c) run) : ∀ n, nonIdle run n ≤ 2 * xs.length + 2 := by
  intro n
  have h := Lemmas.run_bound (Lemmas.bat_ranked c) hrun trivial n
  rw [h0, Lemmas.bat_mu_init] at h
  omega

/-- … so from some point on it only polls, in a state in which the loop is still running (the
    close of the request channel has not been received) -/
theorem batcher_run_eventually_idle {α : Type} (c : BatCfg) (run : Nat → Bat α)
    (hrun : IsRun (batAct c) run) :
    ∃ N, ∀ n, N ≤ n → run (n + 1) = run n ∧ (run n).opn = true := by
  obtain ⟨N, hN⟩ := Lemmas.run_eventually_idle (Lemmas.bat_ranked c) hrun trivial
  refine ⟨N, fun n hn => ?_⟩
  have he := hN n hn
  obtain ⟨a, ha⟩ := hrun n
  rw [he] at ha
  obtain ⟨t, _, ho, _⟩ := (Lemmas.bat_idle_iff c a (run n)).1 ha
  exact ⟨he, ho⟩

/-- The assumption cannot be dropped: polling forever without ever receiving IS an execution of
    the model (the statement "every infinite execution closes" is false without `Progress`).  In
    Go: LookupBatcher's goroutine sleeps and polls for as long as the producer neither sends nor
    closes `req`; closing the output depends on the producer closing the input. -/
theorem batcher_idle_forever {α : Type} (c : BatCfg) (xs : List α) :
    IsRun (batAct c) (fun _ => batInit xs) ∧ (batInit xs).outClosed = false :=
  ⟨fun _ => ⟨.idle false, by simp [batAct, batInit, batFlush]⟩, rfl⟩

/-- Under `Progress` (idle polls do not go on forever while a non-idle step — here: the receive —
    is enabled) there is no infinite execution: every maximal execution is finite, and by
    `batcher_maximal_closed` ends closed with a valid batching of the whole input. -/
theorem batcher_no_infinite_run_of_progress {α : Type} (c : BatCfg) (run : Nat → Bat α)
    (hrun : IsRun (batAct c) run) (hp : Progress (batAct c) run) : False := by
  obtain ⟨N, ht, _⟩ := Lemmas.run_reaches_terminal (Lemmas.bat_ranked c) hrun trivial hp
  obtain ⟨a, ha⟩ := hrun N
  have ho := (Lemmas.bat_terminal c _ ht).1
  cases a <;> simp [batAct, ho] at ha
  have hc := (Lemmas.bat_terminal c _ ht).2
  simp [hc] at ha

/-- test: a recorded run with batch size 2 (timeouts after 1 and after 3 items) is a maximal
    execution; 5 items, at most 12 non-idle steps -/
example : Terminal (batAct { bs := 2, finalFlush := true })
      (batRun { bs := 2, finalFlush := true } (batEventsOfSizes [1, 2, 2] 5) [1, 2, 3, 4, 5]) ∧
    BatchesOK 2 [1, 2, 3, 4, 5] (batRun { bs := 2, finalFlush := true } (batEventsOfSizes [1, 2, 2] 5) [1, 2, 3, 4, 5]).out :=
  ⟨Lemmas.terminal_of_dead (batcher_closed_dead _ (by decide) rfl [1, 2, 3, 4, 5] _ (Lemmas.batRun_reach _ _ _) (by decide)),
   ((batcher_concat { bs := 2, finalFlush := true } (by decide) rfl [1, 2, 3, 4, 5] _ (Lemmas.batRun_reach _ _ _)).2.2
     (by decide)).1⟩

/-- test: an execution with idle polls in it: poll, receive 1, poll, receive 2 (batch full → flush):
    4 steps, 2 of them non-idle -/
example : Exec (batAct { bs := 2, finalFlush := true }) (batInit [1, 2, 3]) 4 2
    { inp := [3], o := [], opn := true, out := [[1, 2]], outClosed := false } :=
  Exec.idle (.idle false) rfl
    (Exec.step (.recv false) (t := { inp := [2, 3], o := [1], opn := true, out := [], outClosed := false })
      rfl (by intro h; have := congrArg Bat.inp h; simp [batInit] at this)
      (Exec.idle (.idle false) rfl
        (Exec.step (.recv false) rfl (by intro h; have := congrArg Bat.inp h; simp at this) (Exec.nil _))))

/-! ## two-stage lookup processor -/

/-- the exact number of steps of a maximal execution: a signal costs 2 (received, forwarded), any
    other request `2·|loader r| + 2`, plus the two closes -/
def dualStepCount {ρ δ : Type} (isSig : ρ → Bool) (loader : ρ → List δ) (xs : List ρ) : Nat :=
  (xs.map (fun r => if isSig r then 2 else 2 * (loader r).length + 2)).sum + 2

theorem dualStepCount_le {ρ δ : Type} (isSig : ρ → Bool) (loader : ρ → List δ) (des : ρ → δ → ρ) (xs : List ρ) :
    dualStepCount isSig loader xs ≤ 2 * (xs.flatMap (dualOutOf isSig loader des)).length + 2 * xs.length + 2 := by
  have := Lemmas.dual_weight_le isSig loader des xs
  unfold dualStepCount
  unfold Lemmas.dualInpW at this
  omega

/-- every step of either stage decreases `dualMu` by exactly one -/
theorem dual_measure {ρ δ : Type} (isSig : ρ → Bool) (loader : ρ → List δ) (des : ρ → δ → ρ)
    (a : DualAct) (s s' : Dual ρ δ) (hact : dualAct isSig loader des a s = some s') :
    Lemmas.dualMu isSig loader s = Lemmas.dualMu isSig loader s' + 1 :=
  Lemmas.dual_dec isSig loader des a s s' hact

/-- (a) -/
theorem dual_steps_bound {ρ δ : Type} (isSig : ρ → Bool) (loader : ρ → List δ) (des : ρ → δ → ρ)
    (xs : List ρ) {n k : Nat} {s : Dual ρ δ} (he : Exec (dualAct isSig loader des) (dualInit xs) n k s) :
    n = k ∧ n ≤ dualStepCount isSig loader xs := by
  have h := Lemmas.exec_exact (I := fun _ => True) (fun _ _ _ _ _ => trivial)
    (fun a s s' _ ha => Lemmas.dual_dec isSig loader des a s s' ha) he trivial
  rw [Lemmas.dual_mu_init] at h
  unfold dualStepCount
  unfold Lemmas.dualInpW at h
  omega

/-- (b) -/
theorem dual_terminal_closed {ρ δ : Type} (isSig : ρ → Bool) (loader : ρ → List δ) (des : ρ → δ → ρ)
    (xs : List ρ) (s : Dual ρ δ) (hr : Reach (dualAct isSig loader des) (dualInit xs) s)
    (ht : Terminal (dualAct isSig loader des) s) :
    s.outClosed = true ∧ s.out = xs.flatMap (dualOutOf isSig loader des) ∧ s.inp = [] := by
  have hd := Lemmas.dead_of_terminal_strict (Lemmas.dual_strict isSig loader des) trivial ht
  have hcl : s.outClosed = true := by
    cases h : s.outClosed with
    | true => rfl
    | false =>
      obtain ⟨a, ha⟩ := dual_no_deadlock_partial isSig loader des s h
      rw [hd a] at ha
      cases ha
  obtain ⟨h1, h2⟩ := (dual_fifo isSig loader des xs s hr).2 hcl
  exact ⟨hcl, h1, by simpa using h2⟩

theorem dual_closed_dead {ρ δ : Type} (isSig : ρ → Bool) (loader : ρ → List δ) (des : ρ → δ → ρ)
    (xs : List ρ) (s : Dual ρ δ) (hr : Reach (dualAct isSig loader des) (dualInit xs) s)
    (hcl : s.outClosed = true) : Dead (dualAct isSig loader des) s :=
  Lemmas.dual_closed_dead isSig loader des xs s hr hcl

theorem dual_terminal_iff_closed {ρ δ : Type} (isSig : ρ → Bool) (loader : ρ → List δ) (des : ρ → δ → ρ)
    (xs : List ρ) (s : Dual ρ δ) (hr : Reach (dualAct isSig loader des) (dualInit xs) s) :
    Terminal (dualAct isSig loader des) s ↔ s.outClosed = true :=
  ⟨fun ht => (dual_terminal_closed isSig loader des xs s hr ht).1,
   fun h => Lemmas.terminal_of_dead (dual_closed_dead isSig loader des xs s hr h)⟩

/-- every maximal execution ends closed with each request's answers in request order, after
    EXACTLY `dualStepCount` steps -/
theorem dual_maximal_closed {ρ δ : Type} (isSig : ρ → Bool) (loader : ρ → List δ) (des : ρ → δ → ρ)
    (xs : List ρ) {n k : Nat} {s : Dual ρ δ} (he : Exec (dualAct isSig loader des) (dualInit xs) n k s)
    (ht : Terminal (dualAct isSig loader des) s) :
    s.outClosed = true ∧ s.out = xs.flatMap (dualOutOf isSig loader des) ∧ n = dualStepCount isSig loader xs := by
  have hr := Lemmas.exec_reach he Reach.init
  obtain ⟨h1, h2, _⟩ := dual_terminal_closed isSig loader des xs s hr ht
  have h := Lemmas.exec_exact (I := fun _ => True) (fun _ _ _ _ _ => trivial)
    (fun a s s' _ ha => Lemmas.dual_dec isSig loader des a s s' ha) he trivial
  rw [Lemmas.dual_mu_init, Lemmas.dual_closed_mu isSig loader des xs s hr h1] at h
  refine ⟨h1, h2, ?_⟩
  unfold dualStepCount
  unfold Lemmas.dualInpW at h
  omega

theorem dual_extends_to_maximal {ρ δ : Type} (isSig : ρ → Bool) (loader : ρ → List δ) (des : ρ → δ → ρ)
    (xs : List ρ) {n k : Nat} {s : Dual ρ δ} (he : Exec (dualAct isSig loader des) (dualInit xs) n k s) :
    ∃ n' k' u, Exec (dualAct isSig loader des) (dualInit xs) (n + n') (k + k') u ∧
      Terminal (dualAct isSig loader des) u :=
  Lemmas.exec_extends (I := fun _ => True)
    (Lemmas.ranked_of_strict (fun _ _ _ _ _ => trivial) (Lemmas.dual_strict isSig loader des)) he trivial

theorem dual_no_infinite_run {ρ δ : Type} (isSig : ρ → Bool) (loader : ρ → List δ) (des : ρ → δ → ρ)
    (run : Nat → Dual ρ δ) (hrun : IsRun (dualAct isSig loader des) run) : False :=
  Lemmas.strict_no_run (I := fun _ => True) (fun _ _ _ _ _ => trivial)
    (Lemmas.dual_strict isSig loader des) hrun trivial

/-- test: requests 0 (a signal), 3 (loader yields 3 items), 1, 0: the scheduled run is a maximal
    execution of exactly 2 + 8 + 4 + 2 + 2 = 18 steps -/
example : ∃ k, Exec (dualAct (· == 0) (fun r => List.range r) (fun r d => 10 * r + d)) (dualInit [0, 3, 1, 0]) 18 k
      (runSched (dualAct (· == 0) (fun r => List.range r) (fun r d => 10 * r + d)) dualCands 100 3 (dualInit [0, 3, 1, 0])) ∧
    (runSched (dualAct (· == 0) (fun r => List.range r) (fun r d => 10 * r + d)) dualCands 100 3 (dualInit [0, 3, 1, 0])).out
      = [0, 30, 31, 32, 10, 0] := by
  obtain ⟨n, k, he⟩ := Lemmas.runSched_exec (dualAct (· == 0) (fun r => List.range r) (fun r d => 10 * r + d))
    dualCands 100 3 (dualInit [0, 3, 1, 0])
  have ht := Lemmas.terminal_of_dead (dual_closed_dead _ _ _ _ _ (Lemmas.exec_reach he Reach.init) (by decide))
  obtain ⟨_, h2, h3⟩ := dual_maximal_closed _ _ _ _ he ht
  have h3' : n = 18 := by rw [h3]; decide
  subst h3'
  exact ⟨k, he, by rw [h2]; decide⟩

/-! ## jump queue -/

/-- every step of the producer, of goroutine A and of goroutine B decreases `qMu` by exactly one -/
theorem queue_measure {α : Type} (c : QCfg) (a : QAct) (s s' : Q α) (hact : qAct c a s = some s') :
    Lemmas.qMu s = Lemmas.qMu s' + 1 :=
  Lemmas.q_dec c a s s' hact

/-- (a) every execution has at most `4·|xs| + 4` steps, none idle -/
theorem queue_steps_bound {α : Type} (c : QCfg) (xs : List α) {n k : Nat} {s : Q α}
    (he : Exec (qAct c) (qInit xs) n k s) : n = k ∧ n ≤ 4 * xs.length + 4 := by
  have h := Lemmas.exec_exact (I := fun _ => True) (fun _ _ _ _ _ => trivial)
    (fun a s s' _ ha => Lemmas.q_dec c a s s' ha) he trivial
  rw [Lemmas.q_mu_init] at h
  omega

/-- (b) -/
theorem queue_terminal_closed {α : Type} (c : QCfg) (hc : c.popsHead = true) (xs : List α) (s : Q α)
    (hr : Reach (qAct c) (qInit xs) s) (ht : Terminal (qAct c) s) :
    s.outClosed = true ∧ s.out = xs ∧ s.inp = [] ∧ s.inClosed = true := by
  have hd := Lemmas.dead_of_terminal_strict (Lemmas.q_strict c) trivial ht
  have hcl : s.outClosed = true := by
    cases h : s.outClosed with
    | true => rfl
    | false =>
      obtain ⟨a, ha⟩ := queue_no_deadlock_partial c hc xs s hr h
      rw [hd a] at ha
      cases ha
  obtain ⟨h1, h2⟩ := (queue_fifo c hc xs s hr).2 hcl
  simp only [Bool.and_eq_true, List.isEmpty_iff] at h2
  exact ⟨hcl, h1, h2.1, h2.2⟩

theorem queue_closed_dead {α : Type} (c : QCfg) (hc : c.popsHead = true) (xs : List α) (s : Q α)
    (hr : Reach (qAct c) (qInit xs) s) (hcl : s.outClosed = true) : Dead (qAct c) s :=
  Lemmas.q_closed_dead c hc xs s hr hcl

theorem queue_terminal_iff_closed {α : Type} (c : QCfg) (hc : c.popsHead = true) (xs : List α) (s : Q α)
    (hr : Reach (qAct c) (qInit xs) s) : Terminal (qAct c) s ↔ s.outClosed = true :=
  ⟨fun ht => (queue_terminal_closed c hc xs s hr ht).1,
   fun h => Lemmas.terminal_of_dead (queue_closed_dead c hc xs s hr h)⟩

/-- every maximal execution ends closed with output = input, after EXACTLY `4·|xs| + 4` steps -/
theorem queue_maximal_closed {α : Type} (c : QCfg) (hc : c.popsHead = true) (xs : List α) {n k : Nat}
    {s : Q α} (he : Exec (qAct c) (qInit xs) n k s) (ht : Terminal (qAct c) s) :
    s.outClosed = true ∧ s.out = xs ∧ n = 4 * xs.length + 4 := by
  have hr := Lemmas.exec_reach he Reach.init
  obtain ⟨h1, h2, _⟩ := queue_terminal_closed c hc xs s hr ht
  have h := Lemmas.exec_exact (I := fun _ => True) (fun _ _ _ _ _ => trivial)
    (fun a s s' _ ha => Lemmas.q_dec c a s s' ha) he trivial
  rw [Lemmas.q_mu_init, Lemmas.q_closed_mu c hc xs s hr h1] at h
  exact ⟨h1, h2, by omega⟩

theorem queue_extends_to_maximal {α : Type} (c : QCfg) (xs : List α) {n k : Nat} {s : Q α}
    (he : Exec (qAct c) (qInit xs) n k s) :
    ∃ n' k' u, Exec (qAct c) (qInit xs) (n + n') (k + k') u ∧ Terminal (qAct c) u :=
  Lemmas.exec_extends (I := fun _ => True)
    (Lemmas.ranked_of_strict (fun _ _ _ _ _ => trivial) (Lemmas.q_strict c)) he trivial

theorem queue_no_infinite_run {α : Type} (c : QCfg) (run : Nat → Q α) (hrun : IsRun (qAct c) run) : False :=
  Lemmas.strict_no_run (I := fun _ => True) (fun _ _ _ _ _ => trivial) (Lemmas.q_strict c) hrun trivial

/-- the queue as configured in the source today -/
theorem queue_live_generated {α : Type} (xs : List α) {n k : Nat} {s : Q α}
    (he : Exec (qAct { popsHead := GripGen.C13Buffers.queuePopsHead }) (qInit xs) n k s)
    (ht : Terminal (qAct { popsHead := GripGen.C13Buffers.queuePopsHead }) s) :
    s.outClosed = true ∧ s.out = xs ∧ n = 4 * xs.length + 4 :=
  queue_maximal_closed _ (by decide) xs he ht

/-- test: the scheduled run on [5, 6, 7] is a maximal execution of exactly 4·3 + 4 = 16 steps -/
example : ∃ k, Exec (qAct ⟨true⟩) (qInit [5, 6, 7]) 16 k (runSched (qAct ⟨true⟩) qCands 100 11 (qInit [5, 6, 7])) ∧
    (runSched (qAct ⟨true⟩) qCands 100 11 (qInit [5, 6, 7])).out = [5, 6, 7] := by
  obtain ⟨n, k, he⟩ := Lemmas.runSched_exec (qAct ⟨true⟩) qCands 100 11 (qInit [5, 6, 7])
  have ht := Lemmas.terminal_of_dead (queue_closed_dead ⟨true⟩ rfl _ _ (Lemmas.exec_reach he Reach.init) (by decide))
  obtain ⟨_, h2, h3⟩ := queue_maximal_closed ⟨true⟩ rfl _ he ht
  have h3' : n = 16 := by simpa using h3
  subst h3'
  exact ⟨k, he, h2⟩

/-! ### the queue with goroutine B's busy-wait as an explicit idle step

  The real goroutine B does not block on an empty queue, it re-takes the mutex and looks again.
  `Spec.qSpinAct` = `qAct` + that iteration as an idle action `spin`.  Same results, with the same
  assumption as for the batcher: the number of NON-IDLE steps is bounded, and under `Progress`
  (B's spinning does not go on forever while the producer / goroutine A can act — the Go
  scheduler and `sync.Mutex` do not starve A) every maximal execution is finite and ends closed. -/

theorem queue_spin_steps_bound {α : Type} (c : QCfg) (xs : List α) {n k : Nat} {s : Q α}
    (he : Exec (qSpinAct c) (qInit xs) n k s) : k ≤ 4 * xs.length + 4 := by
  have h := Lemmas.exec_exact_nonidle (Lemmas.q_spin_dec c) he
  rw [Lemmas.q_mu_init] at h
  omega

theorem queue_spin_maximal_closed {α : Type} (c : QCfg) (hc : c.popsHead = true) (xs : List α) {n k : Nat}
    {s : Q α} (he : Exec (qSpinAct c) (qInit xs) n k s) (ht : Terminal (qSpinAct c) s) :
    s.outClosed = true ∧ s.out = xs ∧ k = 4 * xs.length + 4 := by
  have hr := Lemmas.q_spin_reach c xs s (Lemmas.exec_reach he Reach.init)
  obtain ⟨h1, h2, _⟩ := queue_terminal_closed c hc xs s hr (Lemmas.q_spin_terminal c s ht)
  have h := Lemmas.exec_exact_nonidle (Lemmas.q_spin_dec c) he
  rw [Lemmas.q_mu_init, Lemmas.q_closed_mu c hc xs s hr h1] at h
  exact ⟨h1, h2, by omega⟩

/-- spinning forever is an execution (B spins, the producer and A never run): the assumption
    cannot be dropped -/
theorem queue_spin_forever {α : Type} (c : QCfg) (xs : List α) :
    IsRun (qSpinAct c) (fun _ => qInit xs) ∧ (qInit xs).outClosed = false :=
  ⟨fun _ => ⟨.spin, by simp [qSpinAct, qInit]⟩, rfl⟩

theorem queue_spin_no_infinite_run_of_progress {α : Type} (c : QCfg) (hc : c.popsHead = true)
    (xs : List α) (run : Nat → Q α) (h0 : run 0 = qInit xs) (hrun : IsRun (qSpinAct c) run)
    (hp : Progress (qSpinAct c) run) : False := by
  obtain ⟨N, ht, _⟩ := Lemmas.run_reaches_terminal (Lemmas.q_spin_ranked c) hrun trivial hp
  have hr : Reach (qSpinAct c) (qInit xs) (run N) := by rw [← h0]; exact Lemmas.run_reach hrun N
  have hcl := (queue_terminal_closed c hc xs _ (Lemmas.q_spin_reach c xs _ hr) (Lemmas.q_spin_terminal c _ ht)).1
  obtain ⟨a, ha⟩ := hrun N
  rw [Lemmas.q_spin_closed_dead c hc xs _ hr hcl a] at ha
  cases ha

/-- test: spin twice, send, spin: an execution with 4 steps of which 1 is non-idle -/
example : Exec (qSpinAct ⟨true⟩) (qInit [5, 6]) 4 1
    { inp := [6], inClosed := false, chIn := [5], queue := [], closed := false, hold := none,
      running := true, out := [], outClosed := false } :=
  Exec.idle .spin rfl (Exec.idle .spin rfl
    (Exec.step (.act .send) rfl (by intro h; have := congrArg Q.inp h; simp [qInit] at this)
      (Exec.idle .spin rfl (Exec.nil _))))

end Grip.Props.C13
