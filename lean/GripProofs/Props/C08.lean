/-
  Props.C08 — has() conditions mean what the documentation says, for every value.

  All theorems quantify over every JSON value (any nesting), every argument, every has-expression
  (any depth) and an arbitrary numeric-text parser `numOf` (strconv.ParseFloat in the code).
-/
import Grip.Model.C08
import Grip.Spec.C08
import GripProofs.Lemmas.C08

namespace Grip.Props.C08
open Grip Grip.C08 Grip.C08.Spec

/-- MODEL = documented comparison, for every operator, value and argument. -/
theorem matches_spec (numOf : String → Option Int) (v : JV) (c : Cond) (arg : JV) :
    matchesCond numOf v c arg = true ↔ DocHolds numOf v c arg :=
  Lemmas.matches_spec numOf v c arg

/-- An operand that is not a number (or numeric text) never matches an ordering test
    (and the model has no `panic` outcome: `matchesCond` is a total Boolean function). -/
theorem nonnumeric_never_orders (numOf : String → Option Int) (v : JV) (c : Cond) (arg : JV)
    (hc : isOrdering c = true) (hv : isNum numOf v = none) :
    matchesCond numOf v c arg = false :=
  Lemmas.nonnumeric_value numOf v c arg hc hv

/-- Same for the argument of the two-operand ordering tests. -/
theorem nonnumeric_arg_never_orders (numOf : String → Option Int) (v : JV) (c : Cond) (arg : JV)
    (hc : c = .gt ∨ c = .gte ∨ c = .lt ∨ c = .lte) (ha : isNum numOf arg = none) :
    matchesCond numOf v c arg = false :=
  Lemmas.nonnumeric_arg numOf v c arg hc ha

/-- Range tests need exactly two numeric bounds. -/
theorem range_needs_two_numbers (numOf : String → Option Int) (v : JV) (c : Cond) (arg : JV)
    (hc : c = .inside ∨ c = .outside ∨ c = .between)
    (ha : ¬ ∃ l u lo hi, arg = .arr [l, u] ∧ isNum numOf l = some lo ∧ isNum numOf u = some hi) :
    matchesCond numOf v c arg = false :=
  Lemmas.range_needs_two numOf v c arg hc ha

/-- Boundary inclusivity, stated outright on numbers. -/
theorem inside_strict (numOf : String → Option Int) (x lo hi : Int) :
    matchesCond numOf (.num x) .inside (.arr [.num lo, .num hi]) = true ↔ (lo < x ∧ x < hi) := by
  simp [matchesCond, range3, toSlice, toNum]
theorem between_closed_open (numOf : String → Option Int) (x lo hi : Int) :
    matchesCond numOf (.num x) .between (.arr [.num lo, .num hi]) = true ↔ (lo ≤ x ∧ x < hi) := by
  simp [matchesCond, range3, toSlice, toNum]
theorem outside_strict (numOf : String → Option Int) (x lo hi : Int) :
    matchesCond numOf (.num x) .outside (.arr [.num lo, .num hi]) = true ↔ (x < lo ∨ hi < x) := by
  simp [matchesCond, range3, toSlice, toNum]

/-- MatchesHasExpression = Boolean algebra over the documented leaves, any nesting depth. -/
theorem eval_spec (numOf : String → Option Int) (e : Elem) (x : HasE) :
    eval numOf e x = true ↔ Holds numOf e x :=
  Lemmas.eval_spec numOf e x

theorem deMorgan_and (numOf : String → Option Int) (e : Elem) (es : List HasE) :
    eval numOf e (.not (.and es)) = eval numOf e (.or (es.map .not)) :=
  Lemmas.deMorgan_and numOf e es

theorem deMorgan_or (numOf : String → Option Int) (e : Elem) (es : List HasE) :
    eval numOf e (.not (.or es)) = eval numOf e (.and (es.map .not)) :=
  Lemmas.deMorgan_or numOf e es

theorem double_neg (numOf : String → Option Int) (e : Elem) (x : HasE) :
    eval numOf e (.not (.not x)) = eval numOf e x := by
  simp [eval]

theorem and_perm (numOf : String → Option Int) (e : Elem) (es es' : List HasE) (h : es.Perm es') :
    eval numOf e (.and es) = eval numOf e (.and es') :=
  Lemmas.and_perm numOf e es es' h

theorem or_perm (numOf : String → Option Int) (e : Elem) (es es' : List HasE) (h : es.Perm es') :
    eval numOf e (.or es) = eval numOf e (.or es') :=
  Lemmas.or_perm numOf e es es' h

/-- `has` keeps exactly the rows for which the documented meaning holds, in input order. -/
theorem has_filter (numOf : String → Option Int) (x : HasE) (rows : List Elem) :
    (hasFilter numOf x rows).Sublist rows ∧
    ∀ r, r ∈ hasFilter numOf x rows ↔ (r ∈ rows ∧ Holds numOf r x) := by
  refine ⟨List.filter_sublist, fun r => ?_⟩
  simp [hasFilter, List.mem_filter, eval_spec]

/-- …and multiplicities are preserved (multiset statement). -/
theorem has_filter_count (numOf : String → Option Int) (x : HasE) (rows : List Elem) (r : Elem)
    (h : Holds numOf r x) : (hasFilter numOf x rows).count r = rows.count r := by
  unfold hasFilter
  rw [List.count_filter]
  exact (eval_spec numOf r x).2 h

/-! Non-vacuity: concrete values on both sides of each boundary. -/
section examples
def dec : String → Option Int := fun s => if s = "30" then some (30 * 1024) else none
example : matchesCond dec (.num 30) .between (.arr [.num 30, .num 45]) = true := by decide
example : matchesCond dec (.num 45) .between (.arr [.num 30, .num 45]) = false := by decide
example : matchesCond dec (.num 30) .inside (.arr [.num 30, .num 45]) = false := by decide
example : matchesCond dec (.str "30") .gte (.num (30 * 1024)) = true := by decide
example : matchesCond dec (.bool true) .gt (.num 512) = false := by decide
example : matchesCond dec .null .lt (.num 512) = false := by decide
example : matchesCond dec (.arr [.num 1, .str "a"]) .contains (.str "a") = true := by decide
example : isOrdering .between = true ∧ isNum dec (.bool true) = none := by decide
end examples

end Grip.Props.C08
