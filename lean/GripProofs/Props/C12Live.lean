/-
  Property C12, liveness — mark/jump loops TERMINATE under every fair schedule, with travelers
  still circulating (counter-bounded loops), and what they have emitted then is exactly the
  iterative definition.

  MODEL: Grip.Model.C12 (transition system), Grip.Model.C12Run (runs = schedules, weak fairness).
  Lemmas: GripProofs.Lemmas.C12Live.

    liveRank_decreases        every step that is not an idle poll strictly lowers the rank
                              `(n+3)·ticks + shutRank`;  an idle poll leaves the state unchanged
    progress                  until the mark has closed, a non-idle step is enabled
    busy_steps_bounded        every run has at most `liveBound` non-idle steps (explicit bound)
    eventually_idle           … so from some position on the state never changes again
    fair_run_closes           under weak fairness of the goroutines the mark closes, and stays closed
    markjump_exact_and_terminates   C12 itself: every fair run of a counter-bounded loop reaches
                              `closed` and has then emitted exactly `iterate L N inp0`
    exists_fair_run           fair runs exist (the hypothesis is satisfiable for every instance)

  Several jumps feeding one mark (namespace `Multi`; MODEL Grip.Model.C12Multi, C12MultiRun):
    multi_invariant, multi_closed_is_empty, multi_close_only_when_empty   safety
    multi_conservation, multi_final_output                                exactness
    multi_model_fifo                                                      the representation is FIFO
    multi_rank_decreases, multi_busy_steps_bounded, multi_fair_run_closes,
    multi_exact_and_terminates                                            termination

  What breaks, with evaluated counterexamples (end of file):
    NestedFinding.nested_closes_early / nested_loses_rows   a loop inside a loop: the outer mark
                              closes while travelers circulate in the inner loop; rows are lost
    CloseListFinding          two jumps AHEAD of their mark closing in one poll iteration: the
                              `closeList` removal loop drops the wrong input or panics
-/
import Grip.Model.C12Run
import GripProofs.Props.C12
import GripProofs.Lemmas.C12Live
import GripProofs.Lemmas.C12LiveMulti
import GripProofs.Lemmas.C12LiveMultiCons
import GripProofs.Lemmas.C12LiveMultiSim
import GripProofs.Lemmas.C12LiveNested
import GripProofs.Lemmas.C12LiveMultiRank
import GripProofs.Lemmas.C12LiveMultiLive
import GripProofs.Lemmas.C12LiveMultiFifo

set_option linter.unusedSimpArgs false
namespace Grip.Props.C12
open Grip.C12 Lemmas

variable {T : Type}

/-- The rank of a state of a `μ`-bounded cycle: `(n+3)·ticks + shutRank`, where `ticks` counts the
    goroutine steps the travelers still in the system (unread input, cycle channels) will cause —
    the sum over the travelers in flight of their remaining iteration budgets `TR`/`tcost` — and
    `shutRank` (≤ 2n+5) the steps of the signal protocol. -/
def rank (sys : List (Stage T)) (μ : T → Nat) (s : State T) : Nat := liveRank (TR sys μ) sys s

/-- Explicit bound on the number of non-idle steps of any run on input `inp0`. -/
def liveBound (sys : List (Stage T)) (μ : T → Nat) (inp0 : List T) : Nat :=
  (sys.length + 3) * (1 + (inp0.map (TR sys μ)).sum) + (sys.length + 2)

theorem rank_init (sys : List (Stage T)) (μ : T → Nat) (inp0 : List T) :
    rank sys μ (init inp0) = liveBound sys μ inp0 := by
  simp [rank, liveRank, liveBound, ticks, shutRank, init, wtW, sigDist]

/-- **Ranking (termination measure).**  For a depth-bounded cycle, in every reachable state,
    whichever goroutine moves: the step is an idle poll — label `.poll` with a signal out — and
    then the state is unchanged; or it strictly lowers `rank`.  (`rank` is a natural number, so
    this is a well-founded measure; the lexicographic order of the notes is not needed.) -/
theorem liveRank_decreases {sys : List (Stage T)} {μ : T → Nat} (hb : SysBounded sys μ)
    {inp0 : List T} {s s' : State T} {l : Label} (h : Reachable sys inp0 s) (hs : Step sys l s s') :
    (Idle l s ∧ s' = s) ∨ (¬ Idle l s ∧ rank sys μ s' < rank sys μ s) := by
  have inv := protoInv_reachable h
  by_cases hi : Idle l s
  · exact Or.inl ⟨hi, idle_step_eq inv hs hi⟩
  · exact Or.inr ⟨hi, liveRank_step (TR_eq hb) inv hs hi⟩

/-- A step changes the state exactly when it is not an idle poll. -/
theorem step_eq_iff_idle {sys : List (Stage T)} {μ : T → Nat} (hb : SysBounded sys μ)
    {inp0 : List T} {s s' : State T} {l : Label} (h : Reachable sys inp0 s) (hs : Step sys l s s') :
    s' = s ↔ Idle l s := by
  rcases liveRank_decreases hb h hs with ⟨hi, he⟩ | ⟨hi, hlt⟩
  · exact ⟨fun _ => hi, fun _ => he⟩
  · constructor
    · intro he; rw [he] at hlt; omega
    · intro h'; exact absurd h' hi

/-- **Progress.**  In every reachable state in which the mark has not closed, some goroutine can
    take a step that is not an idle poll (any stage list, bounded or not).  Strengthens
    `no_stuck_state`. -/
theorem progress {sys : List (Stage T)} {inp0 : List T} {s : State T}
    (h : Reachable sys inp0 s) (hne : s.phase ≠ .closed) :
    ∃ l s', Step sys l s s' ∧ ¬ Idle l s := by
  rcases progress_proc (protoInv_reachable h) (tagInv_reachable h) hne with ⟨i, l, s', hl, hs⟩ | ⟨⟨l, s', hl, hs⟩, hni⟩
  · exact ⟨l, s', hs, fun hi => by rw [hl] at hi; cases hi.1⟩
  · exact ⟨l, s', hs, hni l s' hl hs⟩

/-- **Finitely many non-idle steps, with a bound.**  Along any run (any schedule, fair or not) of a
    depth-bounded cycle the number of non-idle steps taken so far plus the rank of the current
    state never exceeds `liveBound`; in particular a run has at most `liveBound sys μ inp0`
    non-idle steps. -/
theorem busy_steps_bounded {sys : List (Stage T)} {μ : T → Nat} (hb : SysBounded sys μ)
    {inp0 : List T} (r : Run sys inp0) (K : Nat) :
    r.busyCount K + rank sys μ (r.σ K) ≤ liveBound sys μ inp0 := by
  rw [← rank_init]
  exact run_busyCount_le (TR_eq hb) r K

/-- … hence from some position on every position of the run is an idle poll or a stutter, and the
    state never changes again. -/
theorem eventually_idle {sys : List (Stage T)} {μ : T → Nat} (hb : SysBounded sys μ)
    {inp0 : List T} (r : Run sys inp0) :
    ∃ K, ∀ k, K ≤ k → r.busy k = false ∧ r.σ k = r.σ K :=
  run_eventually_idle (TR_eq hb) r

/-- **Termination under weak fairness.**  Every weakly fair run (`Run.Fair`: each stage goroutine
    and the mark goroutine, if enabled from some point on, is eventually scheduled) of a
    depth-bounded cycle reaches `closed`, and from then on nothing happens any more. -/
theorem fair_run_closes {sys : List (Stage T)} {μ : T → Nat} (hb : SysBounded sys μ)
    {inp0 : List T} (r : Run sys inp0) (hf : r.Fair) :
    ∃ K, ∀ k, K ≤ k → (r.σ k).phase = .closed ∧ r.σ k = r.σ K ∧ r.lab k = none := by
  obtain ⟨K, hK⟩ := eventually_idle hb r
  have hreach := run_reachable r
  have hclosed : (r.σ K).phase = .closed := by
    apply Classical.byContradiction
    intro hne
    have hen : ∀ (P : Label → Prop), Enabled sys P (r.σ K) → ∀ k, K ≤ k → Enabled sys P (r.σ k) := by
      intro P hP k hk
      rw [(hK k hk).2]; exact hP
    -- a scheduled goroutine step at position `k ≥ K` is idle
    have hidle : ∀ k l, K ≤ k → r.lab k = some l → Idle l (r.σ K) ∧ Step sys l (r.σ K) (r.σ (k + 1)) := by
      intro k l hk hl
      have hbk := (hK k hk).1
      have hn := r.next k
      unfold Run.busy at hbk
      rw [hl] at hbk hn
      rw [(hK k hk).2] at hbk hn
      exact ⟨by simpa using hbk, hn⟩
    rcases progress_proc (protoInv_reachable (hreach K)) (tagInv_reachable (hreach K)) hne with
      ⟨i, hi⟩ | ⟨hm, hni⟩
    · obtain ⟨k, hk, l, hl, hP⟩ := hf.stage i K (hen _ hi)
      have := (hidle k l hk hl).1
      rw [hP] at this
      cases this.1
    · obtain ⟨k, hk, l, hl, hP⟩ := hf.mark K (hen _ hm)
      obtain ⟨h1, h2⟩ := hidle k l hk hl
      exact hni l _ hP h2 h1
  refine ⟨K, fun k hk => ?_⟩
  have he := (hK k hk).2
  refine ⟨by rw [he]; exact hclosed, he, ?_⟩
  cases hl : r.lab k with
  | none => rfl
  | some l =>
    have hn := r.next k
    rw [hl, he] at hn
    exact absurd hn (closed_no_step (protoInv_reachable (hreach K)) hclosed)

/-- **C12.**  A loop `mark . body . jump(cond, emit)` whose depth is bounded by `μ`, on any input,
    under any weakly fair schedule: the mark closes, nothing moves afterwards, and the rows sent
    downstream are then exactly (as a multiset) the rows of the iterative definition. -/
theorem markjump_exact_and_terminates {L : Loop T} {μ : T → Nat} (hb : Bounded L μ)
    {inp0 : List T} (r : Run (loopSys L) inp0) (hf : r.Fair) (N : Nat) (hN : ∀ t ∈ inp0, μ t < N) :
    ∃ K, ∀ k, K ≤ k →
      (r.σ k).phase = .closed ∧ (r.σ k).emitted.Perm (iterate L N inp0) ∧ r.σ k = r.σ K := by
  obtain ⟨K, hK⟩ := fair_run_closes (sysBounded_loopSys hb) r hf
  refine ⟨K, fun k hk => ⟨(hK k hk).1, ?_, (hK k hk).2.1⟩⟩
  exact final_output_eq_iterate hb (run_reachable r k) (hK k hk).1 N hN

/-- … and it does so within `liveBound` non-idle steps, whatever the schedule. -/
theorem markjump_step_bound {L : Loop T} {μ : T → Nat} (hb : Bounded L μ)
    {inp0 : List T} (r : Run (loopSys L) inp0) (K : Nat) :
    r.busyCount K ≤ liveBound (loopSys L) μ inp0 := by
  have := busy_steps_bounded (sysBounded_loopSys hb) r K
  omega

/-! ### Fair runs exist -/

section greedy
open Classical

/-- The greedy scheduler: take some non-idle step while there is one. -/
noncomputable def greedyNext (sys : List (Stage T)) (s : State T) : Option Label × State T :=
  if h : ∃ l s', Step sys l s s' ∧ ¬ Idle l s then
    (some (Classical.choose h), Classical.choose (Classical.choose_spec h))
  else (none, s)

noncomputable def greedyσ (sys : List (Stage T)) (inp0 : List T) : Nat → State T
  | 0 => init inp0
  | k + 1 => (greedyNext sys (greedyσ sys inp0 k)).2

noncomputable def greedyRun (sys : List (Stage T)) (inp0 : List T) : Run sys inp0 where
  σ := greedyσ sys inp0
  lab := fun k => (greedyNext sys (greedyσ sys inp0 k)).1
  start := rfl
  next := by
    intro k
    show match (greedyNext sys (greedyσ sys inp0 k)).1 with
      | some l => Step sys l (greedyσ sys inp0 k) (greedyNext sys (greedyσ sys inp0 k)).2
      | none => (greedyNext sys (greedyσ sys inp0 k)).2 = greedyσ sys inp0 k
    by_cases h : ∃ l s', Step sys l (greedyσ sys inp0 k) s' ∧ ¬ Idle l (greedyσ sys inp0 k)
    · simp only [greedyNext, dif_pos h]
      exact (Classical.choose_spec (Classical.choose_spec h)).1
    · simp only [greedyNext, dif_neg h]

theorem greedy_busy {sys : List (Stage T)} {inp0 : List T} (k : Nat)
    (hne : ((greedyRun sys inp0).σ k).phase ≠ .closed) : (greedyRun sys inp0).busy k = true := by
  have hp := progress (run_reachable (greedyRun sys inp0) k) hne
  show (match (greedyNext sys (greedyσ sys inp0 k)).1 with
      | some l => !decide (Idle l (greedyσ sys inp0 k))
      | none => false) = true
  have hp' : ∃ l s', Step sys l (greedyσ sys inp0 k) s' ∧ ¬ Idle l (greedyσ sys inp0 k) := hp
  simp only [greedyNext, dif_pos hp']
  have := (Classical.choose_spec (Classical.choose_spec hp')).2
  simpa using this

end greedy

/-- **The fairness hypothesis is satisfiable**: every depth-bounded cycle has a fair run on every
    input (the greedy schedule). -/
theorem exists_fair_run {sys : List (Stage T)} {μ : T → Nat} (hb : SysBounded sys μ)
    (inp0 : List T) : ∃ r : Run sys inp0, r.Fair := by
  let r := greedyRun sys inp0
  obtain ⟨K, hK⟩ := eventually_idle hb r
  have hclosed : (r.σ K).phase = .closed := by
    apply Classical.byContradiction
    intro hne
    have := greedy_busy (sys := sys) (inp0 := inp0) K hne
    rw [(hK K (Nat.le_refl _)).1] at this
    cases this
  have hno : ∀ (P : Label → Prop) k, K ≤ k → ¬ Enabled sys P (r.σ k) := by
    intro P k hk ⟨l, s', _, hs⟩
    rw [(hK k hk).2] at hs
    exact closed_no_step (protoInv_reachable (run_reachable r K)) hclosed hs
  have hwf : ∀ P : Label → Prop, r.WeakFair P := by
    intro P K0 hen
    exact absurd (hen (max K0 K) (Nat.le_max_left _ _)) (hno P _ (Nat.le_max_right _ _))
  exact ⟨r, ⟨fun i => hwf _, hwf _⟩⟩

/-! ### Non-vacuity (tests) -/

theorem exLoop_bounded : Bounded exLoop (fun t => 3 - t) := by
  intro t t' h hc
  simp [exLoop] at h hc
  subst h
  show 3 - (t + 1) < 3 - t
  omega

/-- test: the hypotheses of `markjump_exact_and_terminates` are satisfiable on the counter loop
    (`body t = [t+1]`, jump while `< 3`, emit) with two travelers at the mark, and its conclusion
    gives the three + two rows of the iterative definition. -/
example : ∃ r : Run (loopSys exLoop) [0, 1], r.Fair ∧
    ∃ K, ∀ k, K ≤ k → (r.σ k).phase = .closed ∧ (r.σ k).emitted.Perm [1, 2, 3, 2, 3] := by
  obtain ⟨r, hf⟩ := exists_fair_run (sysBounded_loopSys exLoop_bounded) [0, 1]
  refine ⟨r, hf, ?_⟩
  obtain ⟨K, hK⟩ := markjump_exact_and_terminates exLoop_bounded r hf 5 (by decide)
  refine ⟨K, fun k hk => ⟨(hK k hk).1, ?_⟩⟩
  have e : iterate exLoop 5 [0, 1] = [1, 2, 2, 3, 3] := by decide
  have := (hK k hk).2.1
  rw [e] at this
  exact this.trans (by decide)

/-- test: the step bound of `busy_steps_bounded` on that instance: 4 stages, budgets 13 and 8: 7·(1+13+8)+6. -/
example : liveBound (loopSys exLoop) (fun t => 3 - t) [0, 1] = 160 := by decide

/-- test: `liveRank_decreases` on a concrete step of the counter loop (the mark reads its first
    traveler): the step is not idle and the rank drops from 104 to 97. -/
example : rank (loopSys exLoop) (fun t => 3 - t) { init ([] : List Nat) with W := [(0, Msg.trav 0)] }
    < rank (loopSys exLoop) (fun t => 3 - t) (init [0]) := by
  have hs : Step (loopSys exLoop) .mark (init [0])
      { init ([] : List Nat) with W := [(0, Msg.trav 0)] } :=
    Step.openIn (s := init [0]) rfl (by simp [init]) rfl
  rcases liveRank_decreases (sysBounded_loopSys exLoop_bounded) Reachable.init hs with h | h
  · exact absurd h.1.1 (by decide)
  · exact h.2

example : rank (loopSys exLoop) (fun t => 3 - t) (init [0]) = 104 ∧
    rank (loopSys exLoop) (fun t => 3 - t) { init ([] : List Nat) with W := [(0, Msg.trav 0)] } = 97 := by
  decide

/-- test: `progress` on the initial state. -/
example : ∃ l s', Step (loopSys exLoop) l (init [0]) s' ∧ ¬ Idle l (init [0]) :=
  progress (inp0 := [0]) Reachable.init (by decide)

/-! ## Several jumps feeding one mark (`returnCount == len(s.inputs)`, `len(s.inputs) > 1`)

  MODEL: Grip.Model.C12Multi — main line of body steps and jumps to the one mark, one queue per
  jump, signals copied into every queue and forwarded; the mark's loop iteration is not atomic
  (`scan`, `jf`).  Result: the safety theorems of the single-jump case extend — nothing breaks for
  jumps that lie behind their mark (loops).  What is outside the model is listed at the end. -/
namespace Multi
open Grip.C12.Multi Grip.Props.C12.Multi.Lemmas Grip.Props.C12.Multi.Sim

/-- **Protocol invariant, several jumps.**  In every reachable state of a cycle whose last stage
    is a jump: the signal copies still to be delivered plus those already counted are exactly
    `len(s.inputs)` while a signal is out (so `returnCount ≤ len(s.inputs)`, and a second signal is
    never sent while copies of the first are in flight); with no signal out there is no copy
    anywhere; and while the signal is not outdated no traveler is behind a copy and every traveler
    is ahead of one. -/
theorem multi_invariant {sys : List (MStage T)} (hl : LastJump sys) {inp0 : List T}
    {s : Multi.State T} (h : Multi.Reachable sys inp0 s) :
    (s.signalActive = true → s.returnCount + sigMass sys s.W = nIn sys) ∧
    (s.signalActive = false → s.returnCount = 0 ∧ ∀ x ∈ s.W, isSig x = false) ∧
    (s.signalActive = true → s.signalOutdated = false → cleanM s.W = true ∧ Covered s.W) :=
  let inv := minv_reachable hl h
  ⟨inv.count, inv.inactive, inv.clean⟩

/-- A closed mark leaves nothing in any channel of the cycle (no traveler, no signal copy) and
    nothing unread, however many jumps feed it. -/
theorem multi_closed_is_empty {sys : List (MStage T)} (hl : LastJump sys) {inp0 : List T}
    {s : Multi.State T} (h : Multi.Reachable sys inp0 s) (hc : s.phase = .closed) :
    s.W = [] ∧ s.inp = [] :=
  let inv := minv_reachable hl h
  ⟨inv.closedW hc, inv.inpE (by simp [hc])⟩

/-- **Close only when empty, several jumps.**  The step on which the mark's goroutine returns
    (`returnCount == len(s.inputs)` with a signal that is not outdated) is taken only when every
    channel of the cycle — main line and all queues — is empty and the main input is exhausted. -/
theorem multi_close_only_when_empty {sys : List (MStage T)} (hl : LastJump sys) {inp0 : List T}
    {s s' : Multi.State T} {l : Multi.Label} (h : Multi.Reachable sys inp0 s)
    (hs : Multi.Step sys l s s') (hne : s.phase ≠ .closed) (hc : s'.phase = .closed) :
    s.W = [] ∧ s.inp = [] ∧ s.returnCount = nIn sys := by
  have inv := minv_reachable hl h
  have inv' := minv_step hl inv hs
  cases hs with
  | bodyTrav => exact absurd hc hne
  | jumpTrav => exact absurd hc hne
  | bodySig => exact absurd hc hne
  | jumpSig => exact absurd hc hne
  | queue => exact absurd hc hne
  | openRecv => exact absurd hc hne
  | openSkip => exact absurd hc hne
  | openIn => exact absurd hc hne
  | openClose => simp at hc
  | openNext => exact absurd hc hne
  | closeTrav => exact absurd hc hne
  | closeSig => exact absurd hc hne
  | closeSkip => exact absurd hc hne
  | closeNext => exact absurd hc hne
  | closeDecide hp hsc hjf =>
    have hW' := inv'.closedW hc
    unfold Multi.markDecide at hW' hc
    split at hW'
    · simp at hW'
    · split at hW'
      · next hd =>
        simp only [Bool.and_eq_true, beq_iff_eq] at hd
        exact ⟨hW', inv.inpE (by simp [hp]), hd.2⟩
      · next hd =>
        rw [if_neg (by assumption), if_neg hd] at hc
        exact absurd hc hne

/-- **Conservation, several jumps.**  For a cycle in which every traveler that comes back to the
    mark — through whichever jump — has a smaller measure, with `R t` the per-traveler unrolling:
    in every reachable state  emitted ⊎ R(unread input) ⊎ future rows of the cycle = R(input). -/
theorem multi_conservation {sys : List (MStage T)} {μ : T → Nat} (hb : BoundedM sys μ)
    {inp0 : List T} {s : Multi.State T} (h : Multi.Reachable sys inp0 s) :
    (s.emitted ++ s.inp.flatMap (RofM sys μ) ++ potM (RofM sys μ) sys s.W).Perm
      (inp0.flatMap (RofM sys μ)) :=
  totalM_reachable (RofM_eq hb) h

/-- **Exactness, several jumps.**  Once the mark has closed, the rows sent downstream are exactly
    (as a multiset) the per-traveler unrolling of the program, to any sufficient depth `N`. -/
theorem multi_final_output {sys : List (MStage T)} {μ : T → Nat} (hl : LastJump sys)
    (hb : BoundedM sys μ) {inp0 : List T} {s : Multi.State T} (h : Multi.Reachable sys inp0 s)
    (hc : s.phase = .closed) (N : Nat) (hN : ∀ t ∈ inp0, μ t < N) :
    s.emitted.Perm (inp0.flatMap (unrollM sys N)) := by
  have hcons := multi_conservation hb h
  obtain ⟨hW, hI⟩ := multi_closed_is_empty hl h hc
  simp only [hW, hI, potM, List.flatMap_nil, List.append_nil] at hcons
  have e : inp0.flatMap (RofM sys μ) = inp0.flatMap (unrollM sys N) :=
    Grip.Props.C12.Lemmas.flatMap_congr' (fun t ht => RofM_eq_unrollM hb N t (hN t ht))
  rw [e] at hcons
  exact hcons

/-- **The single-list representation is per-channel FIFO.**  In every reachable state, replacing
    the first message of channel `c` in place by outputs `ys` for channels downstream of `c` (what
    every stage transition of the model does) changes each channel `d` exactly like a receive from
    `c` followed by sends to the tails of the output channels. -/
theorem multi_model_fifo {sys : List (MStage T)} {inp0 : List T} {s : Multi.State T}
    (h : Multi.Reachable sys inp0 s) {A B ys : List (Chan × Msg T)} {c : Chan} {m : Msg T}
    (hW : s.W = A ++ (c, m) :: B) (hA : ∀ x ∈ A, x.1 ≠ c)
    (hy : ∀ y ∈ ys, Chan.lt c y.1 = true) (d : Chan) :
    chan (A ++ ys ++ B) d
      = (if d = c then (chan s.W d).tail else chan s.W d) ++ chan ys d := by
  have hp := prec_reachable h
  rw [hW] at hp ⊢
  exact inplace_is_append hp hA hy d

/-! ### Non-vacuity (tests) -/

/-- two jumps to one mark: `mark . +1 . jump(<3, emit) . +2 . jump(<6, emit)`. -/
def sys2 : List (MStage Nat) :=
  [.body (fun t => [t + 1]), .jump (fun t => decide (t < 3)) true,
   .body (fun t => [t + 2]), .jump (fun t => decide (t < 6)) true]

theorem sys2_lastJump : LastJump sys2 :=
  ⟨[.body (fun t => [t + 1]), .jump (fun t => decide (t < 3)) true, .body (fun t => [t + 2])],
   _, _, rfl⟩

theorem sys2_bounded : BoundedM sys2 (fun t => 6 - t) := by
  intro t t' h
  simp only [sys2, thruM, List.flatMap_cons, List.flatMap_nil, List.append_nil, if_true,
    List.mem_append] at h
  rcases h with h | h
  · split at h
    · simp only [List.mem_singleton] at h; subst h
      next hc => simp at hc; show 6 - (t + 1) < 6 - t; omega
    · simp at h
  · split at h
    · simp only [List.mem_singleton] at h; subst h
      next hc => simp at hc; show 6 - (t + 1 + 2) < 6 - t; omega
    · simp at h

/-- test: a concrete schedule of the two-jump system on input `[0]` (77 steps, the owner of the
    oldest message first) reaches `closed`; `len(s.inputs) = 2` copies were counted. -/
def run2 : Multi.State Nat := runN sys2 [] 77 (Multi.init [0])

theorem run2_reachable : Multi.Reachable sys2 [0] run2 :=
  runN_reachable [] 77 _ Multi.Reachable.init

example : run2.phase = .closed ∧ run2.returnCount = 2 ∧ run2.W = [] ∧
    run2.emitted = [3, 4, 6, 5, 7, 8] := by decide

/-- test: `multi_final_output` applies to it and gives the unrolling `[8,5,7,4,6,3]`. -/
example : run2.emitted.Perm [8, 5, 7, 4, 6, 3] :=
  multi_final_output sys2_lastJump sys2_bounded run2_reachable (by decide) 7 (by decide)

/-- test: a state in the middle of that run, with both copies of the signal in flight
    (`multi_invariant`: 0 counted + 2 to be delivered = 2 inputs). -/
example : let s := runN sys2 [] 68 (Multi.init [0])
    s.signalActive = true ∧ s.returnCount = 0 ∧ sigMass sys2 s.W = 2 ∧ s.W.length = 2 := by decide

/-- test: … and after the first copy has come back (1 counted + 1 to be delivered). -/
example : let s := runN sys2 [] 72 (Multi.init [0])
    s.signalActive = true ∧ s.returnCount = 1 ∧ sigMass sys2 s.W = 1 := by decide

/-- test: `multi_close_only_when_empty` on the closing step of that run (position 76 → 77). -/
example : (runN sys2 [] 76 (Multi.init [0])).W = [] ∧
    (runN sys2 [] 76 (Multi.init [0])).returnCount = 2 := by
  have h1 : (sched sys2 false (runN sys2 [] 76 (Multi.init [0]))).map (fun p => p.2.phase)
      = some Phase.closed := by decide
  cases hs : sched sys2 false (runN sys2 [] 76 (Multi.init [0])) with
  | none => rw [hs] at h1; cases h1
  | some p =>
    obtain ⟨l, s'⟩ := p
    rw [hs] at h1
    have hc : s'.phase = .closed := by simpa using h1
    have := multi_close_only_when_empty sys2_lastJump
      (runN_reachable (inp0 := [0]) [] 76 _ Multi.Reachable.init) (sched_sound hs) (by decide) hc
    exact ⟨this.1, this.2.2⟩

/-- test: `multi_model_fifo` applies to a state of that run with two messages in flight. -/
example : (runN sys2 [] 7 (Multi.init [0])).W =
    [(Chan.side 1 0, Msg.trav 1), (Chan.main 2, Msg.trav 1)] := by decide

/-- test: a schedule that alternates between the mark and the stages: two signals are outdated by
    travelers still circulating, the third one closes the mark (158 steps); same rows. -/
def run2b : Multi.State Nat :=
  runN sys2 ((List.range 158).map (fun k => k % 2 != 0)) 158 (Multi.init [0])

example : run2b.phase = .closed ∧ run2b.curID = 3 ∧ run2b.emitted = [3, 4, 6, 5, 7, 8] := by decide

/-! ### Termination, several jumps -/

/-- The rank of a state of a `μ`-bounded several-jumps cycle: `(D+2)·ticks + shutRank`, `D` the
    number of hops of one signal and its copies. -/
def rankMulti (sys : List (MStage T)) (μ : T → Nat) (s : Multi.State T) : Nat :=
  rankM (TRM sys μ) sys s

/-- Bound on the number of non-quiet steps of any run on input `inp0`. -/
def liveBoundM (sys : List (MStage T)) (μ : T → Nat) (inp0 : List T) : Nat :=
  rankMulti sys μ (Multi.init inp0)

/-- **Ranking, several jumps.**  In every reachable state every step strictly lowers `rankMulti`,
    or it is *quiet*: the mark polls a position that is not a jump or a jump input that is empty,
    or ends a loop iteration with nothing to decide — only `scan`/`jumperFound` change. -/
theorem multi_rank_decreases {sys : List (MStage T)} {μ : T → Nat} (hl : LastJump sys)
    (hb : BoundedM sys μ) {inp0 : List T} {s s' : Multi.State T} {l : Multi.Label}
    (h : Multi.Reachable sys inp0 s) (hs : Multi.Step sys l s s') :
    rankMulti sys μ s' < rankMulti sys μ s ∨
      (Quiet sys l s s' ∧ rankMulti sys μ s' = rankMulti sys μ s) := by
  rcases rankM_step (TRM_eq hb) (minv_reachable hl h) hs with h1 | h1
  · exact Or.inl h1
  · exact Or.inr ⟨h1, quiet_rank_eq h1⟩

/-- **Finitely many non-quiet steps, with a bound**, for any schedule. -/
theorem multi_busy_steps_bounded {sys : List (MStage T)} {μ : T → Nat} (hl : LastJump sys)
    (hb : BoundedM sys μ) {inp0 : List T} (r : Multi.Run sys inp0) (K : Nat) :
    busyCountM r K + rankMulti sys μ (r.σ K) ≤ liveBoundM sys μ inp0 :=
  run_busyCountM_le hl (TRM_eq hb) r K

/-- **Termination under weak fairness, several jumps.**  Every run in which each goroutine (main
    stages, queue goroutines, the mark) is weakly fair reaches `closed`; nothing moves afterwards. -/
theorem multi_fair_run_closes {sys : List (MStage T)} {μ : T → Nat} (hl : LastJump sys)
    (hb : BoundedM sys μ) {inp0 : List T} (r : Multi.Run sys inp0) (hf : r.Fair) :
    ∃ K, ∀ k, K ≤ k → (r.σ k).phase = .closed ∧ r.σ k = r.σ K ∧ r.lab k = none :=
  fair_closes_multi hl (TRM_eq hb) r hf

/-- **C12 for several jumps feeding one mark**: every weakly fair run closes, and has then emitted
    exactly (as a multiset) the per-traveler unrolling of the program. -/
theorem multi_exact_and_terminates {sys : List (MStage T)} {μ : T → Nat} (hl : LastJump sys)
    (hb : BoundedM sys μ) {inp0 : List T} (r : Multi.Run sys inp0) (hf : r.Fair)
    (N : Nat) (hN : ∀ t ∈ inp0, μ t < N) :
    ∃ K, ∀ k, K ≤ k → (r.σ k).phase = .closed ∧
      (r.σ k).emitted.Perm (inp0.flatMap (unrollM sys N)) ∧ r.σ k = r.σ K := by
  obtain ⟨K, hK⟩ := multi_fair_run_closes hl hb r hf
  refine ⟨K, fun k hk => ⟨(hK k hk).1, ?_, (hK k hk).2.1⟩⟩
  exact multi_final_output hl hb (Grip.Props.C12.Multi.Lemmas.run_reachable r k) (hK k hk).1 N hN

/-- test: the hypotheses of `multi_exact_and_terminates` are satisfiable on the two-jump system:
    the executable schedule "owner of the oldest message first" is a fair run (it has closed at
    position 77), and the theorem gives its rows. -/
theorem sched2_closed : ((schedRun sys2 (fun _ => false) [0]).σ 77).phase = .closed := by
  set_option maxRecDepth 4000 in decide

example : ∃ r : Multi.Run sys2 [0], r.Fair ∧
    ∃ K, ∀ k, K ≤ k → (r.σ k).phase = .closed ∧ (r.σ k).emitted.Perm [8, 5, 7, 4, 6, 3] := by
  let r := schedRun sys2 (fun _ => false) [0]
  have hc : (r.σ 77).phase = .closed := sched2_closed
  have hf : r.Fair := fair_of_closed sys2_lastJump r 77 hc
  obtain ⟨K, hK⟩ := multi_exact_and_terminates sys2_lastJump sys2_bounded r hf 7 (by decide)
  exact ⟨r, hf, K, fun k hk => ⟨(hK k hk).1, (hK k hk).2.1⟩⟩

/-- test: the step bound on that instance. -/
example : liveBoundM sys2 (fun t => 6 - t) [0] = 504 := by decide

end Multi

/-! ## What breaks (outside the two models above)

  The safety theorems cover every number of jumps that lie BEHIND their mark and are not nested in
  another loop.  Two constructions the goto-style API allows are not covered, and for both the
  protocol of `JumpMark.Process` fails; the counterexamples are evaluated below. -/

/-! ### (a) nested loops: the outer mark closes while travelers circulate in the inner loop

  `mark(a) … mark(b) … jump(b, cb, eb) … jump(a, ca, ea)`.  The outer mark's signal is an ordinary
  message for the inner mark (first loop: `out <- msg`) and is only forwarded by the inner jump
  (`Dest ≠ b`): it does not wait for, and is not copied into, the inner jump's queue.  A traveler
  that is in that queue when the signal passes is overtaken; the signal comes back to the outer
  mark with `returnCount == len(s.inputs)` and nothing outdated, and `JumpMark.Process` of `a`
  returns.  The overtaken traveler later leaves the inner loop, satisfies `ca`, is put on the
  outer jump's queue — and is never read.  MODEL: Grip.Model.C12Nested. -/
namespace NestedFinding
open Grip.C12.Nested Grip.Props.C12.Nested.Sim
open Grip.C12.Multi (Chan)

/-- travelers are `(outer count, inner count)`;
    `mark(a) . outer++, inner := 0 . mark(b) . inner++ . jump(b, inner < 2, emit)
             . jump(a, inner ≥ 2 ∧ outer < 2, emit)`.
    Rows of the iterative (goto) definition on input `(0,0)`: `(1,1) (1,2) (2,1) (2,2)`. -/
def nsys : List (NStage (Nat × Nat)) :=
  [.body (fun t => [(t.1 + 1, 0)]), .markB 3, .body (fun t => [(t.1, t.2 + 1)]),
   .jumpB (fun t => decide (t.2 < 2)) true, .jumpA (fun t => decide (2 ≤ t.2 ∧ t.1 < 2)) true]

/-- The schedule: the outer mark reads its one input, sees the input close, polls (nothing), sends
    the signal; traveler and signal then move in lock step — the traveler first — down to the
    outer jump; the signal returns through the outer queue. -/
def sched : List Nested.Label :=
  [.mark, .mark, .mark, .stage 0, .stage 0, .stage 1, .stage 1, .stage 2, .stage 2,
   .stage 3, .stage 3, .stage 4, .stage 4, .queue 4 0, .queue 4 1, .mark]

/-- … and the rest of the inner loop's work after the outer mark has returned. -/
def sched' : List Nested.Label :=
  sched ++ [.queue 3 0, .queue 3 1, .stage 1, .stage 2, .stage 3, .stage 4, .queue 4 0, .queue 4 1]

/-- **Counterexample (nested loops): `close_only_when_empty` and `closed_is_empty` fail.**  After
    16 steps the outer mark has CLOSED (one signal, not outdated, `returnCount = 1`) while traveler
    `(1,1)` sits in the inner jump's queue; only row `(1,1)` has been emitted. -/
theorem nested_closes_early :
    ∃ s, Nested.Reachable nsys 4 [(0, 0)] s ∧ s.phase = .closed ∧ s.curID = 1 ∧
      s.W = [(Chan.side 3 0, Msg.trav (1, 1))] ∧ s.emitted = [(1, 1)] := by
  have h : ∃ s, execLabels nsys 4 sched (Nested.init [(0, 0)]) = some s ∧ s.phase = .closed ∧
      s.curID = 1 ∧ s.W = [(Chan.side 3 0, Msg.trav (1, 1))] ∧ s.emitted = [(1, 1)] := by decide
  obtain ⟨s, he, hr⟩ := h
  exact ⟨s, execLabels_reachable _ _ _ Nested.Reachable.init he, hr⟩

/-- … and the overtaken traveler ends, as `(1,2)`, on the closed mark's jump input, where nobody
    reads it: the second outer pass (rows `(2,1)`, `(2,2)`) never happens. -/
theorem nested_loses_rows :
    ∃ s, Nested.Reachable nsys 4 [(0, 0)] s ∧ s.phase = .closed ∧
      s.W = [(Chan.side 4 2, Msg.trav (1, 2))] ∧ s.emitted = [(1, 1), (1, 2)] := by
  have h : ∃ s, execLabels nsys 4 sched' (Nested.init [(0, 0)]) = some s ∧ s.phase = .closed ∧
      s.W = [(Chan.side 4 2, Msg.trav (1, 2))] ∧ s.emitted = [(1, 1), (1, 2)] := by decide
  obtain ⟨s, he, hr⟩ := h
  exact ⟨s, execLabels_reachable _ _ _ Nested.Reachable.init he, hr⟩

end NestedFinding

/-! ### (b) two jumps AHEAD of their mark: the `closeList` loop of `JumpMark.Process`

  A jump placed before its mark (conformance/tests/ot_repeat.py, `test_forward`) closes its queue
  when the upstream closes, i.e. while the mark still runs; the mark collects the indices of the
  closed inputs of one iteration in `closeList` (ascending) and then removes them one by one with
  `s.inputs = append(s.inputs[:i], s.inputs[i+1:]...)` — without adjusting the later indices for
  the removals already done.  With one closed input per iteration this is correct (and jumps
  behind the mark never close first, so the models above are not affected); with two it is not. -/
namespace CloseListFinding

/-- `append(s[:i], s[i+1:]...)`; `none` = "slice bounds out of range" panic (`i+1 > len(s)`). -/
def goRemoveAt {α : Type} (l : List α) (i : Nat) : Option (List α) :=
  if i + 1 ≤ l.length then some (l.take i ++ l.drop (i + 1)) else none

/-- `for _, i := range closeList { s.inputs = append(s.inputs[:i], s.inputs[i+1:]...) }`. -/
def goCloseLoop {α : Type} (inputs : List α) (closeList : List Nat) : Option (List α) :=
  closeList.foldlM goRemoveAt inputs

/-- what was meant: drop the inputs whose index is in `closeList`. -/
def intended {α : Type} (inputs : List α) (closeList : List Nat) : List α :=
  (inputs.zipIdx.filter (fun p => !closeList.contains p.2)).map (·.1)

/-- one closed input: as intended. -/
example : goCloseLoop ["j0", "j1", "j2"] [1] = some (intended ["j0", "j1", "j2"] [1]) := by decide

/-- **Counterexample 1**: three jumps ahead of one mark, inputs 0 and 1 found closed in the same
    iteration: the loop keeps the CLOSED input 1 and drops the OPEN input 2 — every traveler the
    third jump sends afterwards is never received (its queue is unbounded, so nothing blocks and
    nothing is reported). -/
example : goCloseLoop ["j0", "j1", "j2"] [0, 1] = some ["j1"] ∧
    intended ["j0", "j1", "j2"] [0, 1] = ["j2"] := by decide

/-- **Counterexample 2**: two jumps ahead of one mark, both found closed in the same iteration
    (e.g. an empty or short upstream): the second removal is `s.inputs[2:]` on a slice of length 1:
    the goroutine panics. -/
example : goCloseLoop ["j0", "j1"] [0, 1] = none ∧ intended ["j0", "j1"] [0, 1] = [] := by decide

end CloseListFinding

end Grip.Props.C12
