/-
  Property C07, the CYCLE of a mark/jump loop — buffer capacities.

  Grip.Props.C07 / C07Comp prove that LINEAR wirings of bounded channels terminate for every data
  volume.  A loop `mark(a) … body … jump(a, cond, emit)` is a CYCLE of goroutines and bounded
  channels (Grip.Model.C07Loop): mark → body stages, each with a bounded input channel, a stage
  may fan out → jump → engine/queue → mark.  A cycle of bounded channels can fill up and block
  itself; what prevents it in the Go code is that engine/queue is an unbounded slice between two
  goroutines: its input side always accepts.

    (1) with the unbounded queue, for ALL capacities ≥ 1, all fan-out factors, all inputs:
        `loop_unbounded_queue_never_stuck`   no reachable state with work left is blocked;
        `loop_steps_exact`                   (every queue capacity) every step lowers the measure
                                             `mu` by exactly 1: a run of k steps from the start
                                             has `mu = loopBound − k`; no infinite execution;
        `loop_unbounded_queue_terminates`    every execution that cannot be continued is complete
                                             and has EXACTLY `loopBound stages input` steps; a
                                             final state stays reachable;
        `loop_conservation`                  the travelers delivered are, up to order, the ones the
                                             iterative definition gives (nothing lost, nothing
                                             duplicated); `loop_conservation_inflight`: at every
                                             moment, for every additive observable.
    (2) with a bounded queue:
        `loop_bounded_queue_deadlocks`          all capacities 1, K = 1, fan-out 4, ONE traveler
                                                with one jump to make: a reachable state in which
                                                every goroutine is blocked on a full channel;
        `loop_bounded_queue_deadlocks_general`  for every K and all capacities: every fan-out above
                                                `cycleRoom` (K + the capacities + one per stage)
                                                deadlocks the cycle with one hub traveler.
    (3) `loop_terminates_with_source_capacities`: (1) with the capacities that tools/extract read
        from the Go source (GripGen.BuffersC07) for every lookup processor as the loop body;
        `loop_terminates_with_table_capacities`: for any body built from capacities of the table.

  HYPOTHESES.  (1) needs every capacity ≥ 1: the model's channel of capacity 0 never has room
  (the rendezvous of an unbuffered Go channel is not described) — `loop_cap_zero_stuck` is the
  counterexample; every capacity in the table is ≥ 1 (`source_capacities_positive`).  Nothing
  else is assumed: any number of stages (none included), any fan-out factor (0 included), any
  input, both values of `emit`, every interleaving.  (2, general) has no hypothesis.

  NOT covered here: the closing protocol (how the mark learns that the cycle has drained — signals,
  property C12), cancellation, several jumps into one mark.
-/
import GripProofs.Lemmas.C07LoopDead

namespace Grip.Props.C07
open Grip.C07 (Reach sumMap)
open Grip.C07.Loop Grip.Props.C07.Lemmas Grip.Props.C07.Lemmas.Loop

/-! ## (1) the unbounded queue -/

/-- `loop_unbounded_queue_never_stuck`: with the return queue as in the code (unbounded), whatever
    the capacities (≥ 1), the number of stages, their fan-out factors, the input and the `emit`
    flag: a reachable state with work left has an enabled step.  No deadlock. -/
theorem loop_unbounded_queue_never_stuck (emit : Bool) (stages : List (Nat × Nat)) (jcap : Nat)
    (input : List Trav) (hc : ∀ st ∈ stages, 0 < st.1) (hj : 0 < jcap) :
    ∀ s, Reach (Step ⟨none, emit⟩) (init stages jcap input) s → ¬ Final s →
      ∃ s', Step ⟨none, emit⟩ s s' := by
  intro s hr hnf
  have hw := wf_reach hr (wf_init hc hj)
  exact step_progress hw.1 hw.2 hnf

/-- test: the hypotheses hold on a non-trivial instance (two stages, fan-outs 3 and 2, capacities
    1 and 2, three travelers), and the conclusion applies to a state 7 steps into a run -/
example : ∃ s', Step ⟨none, true⟩ (runLast ⟨none, true⟩ 7 (init [(1, 3), (2, 2)] 1 [⟨0, 2⟩, ⟨1, 0⟩, ⟨2, 1⟩])) s' :=
  loop_unbounded_queue_never_stuck true [(1, 3), (2, 2)] 1 [⟨0, 2⟩, ⟨1, 0⟩, ⟨2, 1⟩] (by decide) (by decide)
    _ (runLast_reach _ 7 _) (by decide)

/-- The capacity hypothesis is needed: a channel of capacity 0 never has room in the model, so
    nothing enters the cycle.  (An artefact of the model: an unbuffered Go channel hands over by
    rendezvous.  No channel of the cycle is unbuffered: `source_capacities_positive`.) -/
theorem loop_cap_zero_stuck :
    ¬ Final (init [(0, 1)] 1 [⟨0, 0⟩]) ∧ Stuck ⟨none, false⟩ (init [(0, 1)] 1 [⟨0, 0⟩]) :=
  ⟨by decide, first_cap_zero_stuck _ 1 [] 1 _⟩

/-- `loop_steps_exact`: for EVERY queue capacity (bounded or not), all capacities, all fan-outs:
    every step lowers `mu` by exactly one; hence the step relation is well founded, a run of `k`
    steps from the start satisfies `mu + k = loopBound stages input`, and there is no infinite
    execution.  (`loopBound` is computed from the fan-out factors and the passes of the input
    alone: no capacity occurs in it.) -/
theorem loop_steps_exact (P : Params) (stages : List (Nat × Nat)) (jcap : Nat) (input : List Trav) :
    (∀ s s', Step P s s' → mu s = mu s' + 1) ∧
    WellFounded (fun s' s => Step P s s') ∧
    (∀ (run : Nat → State) (k : Nat), run 0 = init stages jcap input →
      (∀ i, i < k → Step P (run i) (run (i + 1))) → mu (run k) + k = loopBound stages input) ∧
    (¬ ∃ run : Nat → State, run 0 = init stages jcap input ∧ ∀ i, Step P (run i) (run (i + 1))) := by
  refine ⟨fun _ _ h => step_mu h, ?_, ?_, ?_⟩
  · exact Subrelation.wf (r := InvImage (· < ·) mu) (fun {a b} (h : Step P b a) => by
      have := step_mu h
      show mu a < mu b
      omega) (InvImage.wf mu Nat.lt_wfRel.wf)
  · intro run k h0 hrun
    rw [run_exact run k hrun, h0, mu_init]
  · rintro ⟨run, h0, hrun⟩
    have := run_exact run (loopBound stages input + 1) (fun i _ => hrun i)
    rw [h0, mu_init] at this
    omega

/-- the bound for a body of one stage with fan-out `k` (then the jump), pass by pass: a traveler
    that the jump sends back with `p + 1` jumps to make causes 2 moves (the mark passes it on, the
    stage takes it) and, for each of its `k` copies, 3 moves (delivery into the jump's channel,
    the jump takes it, the jump sends it) plus what the copy causes with `p` jumps to make -/
theorem passCost_one_stage (k p : Nat) :
    passCost [k, 1] (p + 1) = 2 + k * (3 + passCost [k, 1] p) := by
  have h : 1 + (1 + 1 * (1 + passCost [k, 1] p)) = 3 + passCost [k, 1] p := by omega
  simp only [passCost, potv, h]
  omega

/-- test: the exact number of steps on a concrete loop, computed and observed -/
example : loopBound [(1, 3)] [⟨0, 2⟩, ⟨1, 1⟩] = 187 ∧
    Final (runFirst ⟨none, false⟩ 187 (init [(1, 3)] 1 [⟨0, 2⟩, ⟨1, 1⟩])) ∧
    ¬ Final (runFirst ⟨none, false⟩ 186 (init [(1, 3)] 1 [⟨0, 2⟩, ⟨1, 1⟩])) := by decide

/-- `loop_unbounded_queue_terminates`: with the unbounded queue and capacities ≥ 1 every execution
    is finite and ends with all the work done:
    (a) a run of `k` steps from the start has `k ≤ loopBound` (exactly: `mu + k = loopBound`);
    (b) there is no infinite execution;
    (c) a run that cannot be continued is final and has EXACTLY `loopBound stages input` steps,
        whatever the schedule;
    (d) from every reachable state a final state is reachable. -/
theorem loop_unbounded_queue_terminates (emit : Bool) (stages : List (Nat × Nat)) (jcap : Nat)
    (input : List Trav) (hc : ∀ st ∈ stages, 0 < st.1) (hj : 0 < jcap) :
    (∀ (run : Nat → State) (k : Nat), run 0 = init stages jcap input →
      (∀ i, i < k → Step ⟨none, emit⟩ (run i) (run (i + 1))) →
      mu (run k) + k = loopBound stages input ∧ k ≤ loopBound stages input) ∧
    (¬ ∃ run : Nat → State, run 0 = init stages jcap input ∧
      ∀ i, Step ⟨none, emit⟩ (run i) (run (i + 1))) ∧
    (∀ (run : Nat → State) (k : Nat), run 0 = init stages jcap input →
      (∀ i, i < k → Step ⟨none, emit⟩ (run i) (run (i + 1))) → Stuck ⟨none, emit⟩ (run k) →
      Final (run k) ∧ k = loopBound stages input) ∧
    (∀ s, Reach (Step ⟨none, emit⟩) (init stages jcap input) s →
      ∃ t, Reach (Step ⟨none, emit⟩) s t ∧ Final t) := by
  obtain ⟨_, _, hexact, hinf⟩ := loop_steps_exact ⟨none, emit⟩ stages jcap input
  have hns := loop_unbounded_queue_never_stuck emit stages jcap input hc hj
  refine ⟨?_, hinf, ?_, ?_⟩
  · intro run k h0 hrun
    have := hexact run k h0 hrun
    exact ⟨this, by omega⟩
  · intro run k h0 hrun hstuck
    have hfin : Final (run k) := by
      apply Classical.byContradiction
      intro hnf
      obtain ⟨s', hs'⟩ := hns (run k) (by rw [← h0]; exact run_reach run k hrun) hnf
      exact hstuck s' hs'
    have := hexact run k h0 hrun
    rw [mu_final hfin] at this
    exact ⟨hfin, by omega⟩
  · intro s hr
    obtain ⟨t, ht, hterm⟩ := exists_terminal (Step ⟨none, emit⟩) mu
      (fun a b h => by have := step_mu h; omega) (mu s) s (Nat.le_refl _)
    refine ⟨t, ht, ?_⟩
    apply Classical.byContradiction
    intro hnf
    obtain ⟨s', hs'⟩ := hns t (reach_trans hr ht) hnf
    exact hterm s' hs'

/-- test: hypotheses satisfiable, and clause (d) applied to a state in the middle of a run -/
example : ∃ t, Reach (Step ⟨none, true⟩) (runFirst ⟨none, true⟩ 20 (init [(2, 2), (1, 0), (3, 5)] 2 [⟨7, 3⟩, ⟨8, 1⟩])) t
    ∧ Final t :=
  (loop_unbounded_queue_terminates true [(2, 2), (1, 0), (3, 5)] 2 [⟨7, 3⟩, ⟨8, 1⟩] (by decide) (by decide)).2.2.2
    _ (runFirst_reach _ 20 _)

/-- `loop_conservation_inflight`: at every moment of every execution (every queue capacity), for
    every way `g` of weighing a delivered traveler: what has been delivered plus what the travelers
    in the cycle will still deliver weighs what the iterative definition gives for the input. -/
theorem loop_conservation_inflight (P : Params) (stages : List (Nat × Nat)) (jcap : Nat)
    (input : List Trav) (g : Trav → Nat) :
    ∀ s, Reach (Step P) (init stages jcap input) s →
      psi P.emit 0 g s = sumMap g (expected P.emit stages input) := by
  intro s hr
  rw [reach_psi g hr, psi_init, sumMap_expected]

/-- `loop_conservation`: when all the work is done, the travelers delivered are — as a multiset —
    exactly those of the iterative definition `expected` (each input traveler: `F` arrivals at the
    jump for its first pass, each of them recorded if it leaves or if `emit`, and `F` times the
    next pass for each that jumps; `F` = product of the fan-out factors): nothing lost, nothing
    duplicated, whatever the capacities (those of the queue included) and the schedule.  In
    particular their number is `expectedCount`. -/
theorem loop_conservation (P : Params) (stages : List (Nat × Nat)) (jcap : Nat) (input : List Trav) :
    ∀ s, Reach (Step P) (init stages jcap input) s → Final s →
      List.Perm s.out (expected P.emit stages input) ∧
      s.out.length = expectedCount P.emit stages input := by
  intro s hr hf
  have key : ∀ g : Trav → Nat, sumMap g s.out = sumMap g (expected P.emit stages input) := by
    intro g
    rw [← psi_final P.emit 0 g hf]
    exact loop_conservation_inflight P stages jcap input g s hr
  constructor
  · rw [List.perm_iff_count]
    intro a
    rw [← sumMap_count, ← sumMap_count]
    exact key _
  · rw [← expected_length, ← sumMap_one, ← sumMap_one]
    exact key _

/-- without `emit`, a traveler with `p` jumps to make that the jump lets go of leaves `F ^ p` times -/
theorem expectCount_no_emit (F p : Nat) : expectCount false F p = F ^ p := by
  induction p with
  | zero => simp [expectCount]
  | succ p ih => simp [expectCount, ih, Nat.pow_succ, Nat.mul_comm]

/-- test: conservation on a concrete run to the end (fan-outs 3 and 2, both emit flags) -/
example : (runLast ⟨none, true⟩ 1000 (init [(1, 3), (2, 2)] 1 [⟨0, 1⟩, ⟨1, 0⟩])).out.length
      = expectedCount true [(1, 3), (2, 2)] [⟨0, 1⟩, ⟨1, 0⟩] ∧
    expectedCount true [(1, 3), (2, 2)] [⟨0, 1⟩, ⟨1, 0⟩] = 48 ∧
    expectedCount false [(1, 3), (2, 2)] [⟨0, 1⟩, ⟨1, 0⟩] = 42 := by decide

example : List.Perm (runLast ⟨none, true⟩ 1000 (init [(1, 3), (2, 2)] 1 [⟨0, 1⟩, ⟨1, 0⟩])).out
    (expected true [(1, 3), (2, 2)] [⟨0, 1⟩, ⟨1, 0⟩]) :=
  (loop_conservation ⟨none, true⟩ [(1, 3), (2, 2)] 1 [⟨0, 1⟩, ⟨1, 0⟩] _ (runLast_reach _ 1000 _) (by decide)).1

/-! ## (2) a bounded queue -/

/-- the blocked state of the witness: the first stage holds three results and cannot deliver (the
    jump's channel is full); the jump holds a traveler that must jump and cannot (the queue is
    full); the queue cannot deliver to the mark (the first channel is full); the first stage does
    not read its channel (it is still delivering). -/
def deadWitness : State :=
  { input := [],
    cells := [{ cap := 1, fan := 4, buf := [⟨0, 0⟩], hand := [⟨0, 0⟩, ⟨0, 0⟩, ⟨0, 0⟩] },
              { cap := 1, fan := 1, buf := [⟨0, 0⟩], hand := [⟨0, 1⟩] }],
    queue := [⟨0, 0⟩],
    out := [] }

/-- `loop_bounded_queue_deadlocks`: if the return queue were a bounded channel (capacity 1; every
    other capacity 1; one body stage with fan-out 4), ONE traveler with one jump to make blocks
    the cycle: `deadWitness` is reachable (17 steps), has work left, and no goroutine can move. -/
theorem loop_bounded_queue_deadlocks :
    Deadlock ⟨some 1, false⟩ (init [(1, 4)] 1 [⟨0, 1⟩]) deadWitness := by
  refine ⟨?_, by decide, ?_⟩
  · exact runPicks_reach ⟨some 1, false⟩ (List.replicate 17 0) _ _ (by decide)
  · rw [stuck_iff]; decide

/-- what "no goroutine can move" means in `deadWitness`, goroutine by goroutine: the body stage is
    delivering (`hand ≠ []`) into the jump's full channel; the jump holds a traveler that has to
    jump back and the queue is full; the queue has a traveler for the mark and the mark's output
    channel is full; the body stage does not read that channel while it is delivering. -/
example : ∃ c d t, deadWitness.cells = [c, d] ∧ c.hand ≠ [] ∧ d.buf.length = d.cap ∧
    d.hand = [t] ∧ 0 < t.passes ∧ ¬ qRoom (some 1) deadWitness.queue ∧
    deadWitness.queue ≠ [] ∧ c.buf.length = c.cap :=
  ⟨_, _, ⟨0, 1⟩, rfl, by decide, by decide, rfl, by decide, by decide, by decide, by decide⟩

/-- the same cycle with the queue of the code does not block there: the jump can always send -/
example : ∃ s', Step ⟨none, false⟩ deadWitness s' :=
  step_progress (by decide) (by decide) (by decide)

/-- the same input on the same capacities with the unbounded queue runs to the end
    (4 travelers come back, each yields 4 that leave: 16) -/
example : Final (runFirst ⟨none, false⟩ (loopBound [(1, 4)] [⟨0, 1⟩]) (init [(1, 4)] 1 [⟨0, 1⟩])) ∧
    (runFirst ⟨none, false⟩ (loopBound [(1, 4)] [⟨0, 1⟩]) (init [(1, 4)] 1 [⟨0, 1⟩])).out.length = 16 := by
  decide

/-- `loop_bounded_queue_deadlocks_general`: for EVERY bound `K` on the queue, every capacity `c0`
    of the first channel, every list `caps` of capacities of further (one-to-one) body stages and
    every capacity `jcap` of the jump's channel, every fan-out factor above
    `cycleRoom K jcap c0 caps = c0 + Σ (cap + 1) + (jcap + 1) + K` of the first stage makes ONE hub
    traveler (with one jump to make) block the cycle: some reachable state has work left and no
    enabled step.  No bound on the queue is large enough for all data. -/
theorem loop_bounded_queue_deadlocks_general (K jcap c0 : Nat) (caps : List Nat) (emit : Bool) :
    ∀ f, cycleRoom K jcap c0 caps < f →
      ∃ s, Deadlock ⟨some K, emit⟩ (init ((c0, f) :: caps.map (fun c => (c, 1))) jcap [⟨0, 1⟩]) s := by
  intro f hf
  cases c0 with
  | zero =>
    refine ⟨_, Reach.refl _, ?_, first_cap_zero_stuck _ f _ jcap _⟩
    intro h
    exact absurd h.1 (by simp [init])
  | succ c0 => exact hub_deadlocks K jcap (c0 + 1) f caps emit (Nat.succ_pos _) hf

/-- test: an instance with three stages and a queue of 50 -/
example : ∃ s, Deadlock ⟨some 50, true⟩ (init ((5, 80) :: [3, 4].map (fun c => (c, 1))) 6 [⟨0, 1⟩]) s :=
  loop_bounded_queue_deadlocks_general 50 6 5 [3, 4] true 80 (by decide)

/-- … while the unbounded queue absorbs the same hub for every fan-out -/
example (f : Nat) : ∀ s, Reach (Step ⟨none, true⟩) (init ((5, f) :: [3, 4].map (fun c => (c, 1))) 6 [⟨0, 1⟩]) s →
    ¬ Final s → ∃ s', Step ⟨none, true⟩ s s' :=
  loop_unbounded_queue_never_stuck true _ 6 _ (by simp) (by decide)

/-! ## (3) the capacities of the Go source -/

/-- every channel a traveler crosses between the mark and the jump, for every lookup processor of
    the regenerated table, has capacity ≥ 1 -/
theorem source_capacities_positive :
    (∀ l ∈ GripGen.BuffersC07.lookups, ∀ c ∈ sourceBodyCaps l.1, 0 < c) ∧ 0 < sourceJumpCap := by decide

/-- the cycle of `mark(a).out().jump(a, …)` as deployed: pipeline channel 5000, queryChan 100,
    the two channels of kvgraph.GetOutChannel, pipeline channel 5000 in front of the jump -/
example : sourceBodyCaps "LookupVertexAdjOut" = [5000, 100, 100, 100] ∧ sourceJumpCap = 5000 := by decide

theorem sourceStages_caps (proc : String) (fans : List Nat) :
    ∀ st ∈ sourceStages proc fans, st.1 ∈ sourceBodyCaps proc := by
  intro st hst
  simp only [sourceStages, List.mem_map] at hst
  obtain ⟨ci, hci, rfl⟩ := hst
  exact List.fst_mem_of_mem_zipIdx (x := ci) hci

/-- `loop_terminates_with_source_capacities`: the loop whose body is any lookup processor of the
    table (`out`, `in`, `outE`, `inE`, …: two goroutines around a backend streaming function),
    with the channel capacities tools/extract read from the Go source, the unbounded queue of
    engine/queue, any fan-out factors and any input: never blocked, every execution has exactly
    `loopBound` steps and ends with all the work done, the result stream is the expected one. -/
theorem loop_terminates_with_source_capacities (emit : Bool) (l : String × Nat × String)
    (hl : l ∈ GripGen.BuffersC07.lookups) (fans : List Nat) (input : List Trav) :
    let stages := sourceStages l.1 fans
    let s0 := init stages sourceJumpCap input
    (∀ s, Reach (Step ⟨none, emit⟩) s0 s → ¬ Final s → ∃ s', Step ⟨none, emit⟩ s s') ∧
    (¬ ∃ run : Nat → State, run 0 = s0 ∧ ∀ i, Step ⟨none, emit⟩ (run i) (run (i + 1))) ∧
    (∀ (run : Nat → State) (k : Nat), run 0 = s0 →
      (∀ i, i < k → Step ⟨none, emit⟩ (run i) (run (i + 1))) → Stuck ⟨none, emit⟩ (run k) →
      Final (run k) ∧ k = loopBound stages input) ∧
    (∀ s, Reach (Step ⟨none, emit⟩) s0 s → ∃ t, Reach (Step ⟨none, emit⟩) s t ∧ Final t) ∧
    (∀ s, Reach (Step ⟨none, emit⟩) s0 s → Final s → List.Perm s.out (expected emit stages input)) := by
  intro stages s0
  have hc : ∀ st ∈ stages, 0 < st.1 := fun st hst =>
    source_capacities_positive.1 l hl st.1 (sourceStages_caps l.1 fans st hst)
  have hj := source_capacities_positive.2
  obtain ⟨_, h2, h3, h4⟩ := loop_unbounded_queue_terminates emit stages sourceJumpCap input hc hj
  exact ⟨loop_unbounded_queue_never_stuck emit stages sourceJumpCap input hc hj, h2, h3, h4,
    fun s hr hf => (loop_conservation ⟨none, emit⟩ stages sourceJumpCap input s hr hf).1⟩

/-- test: `mark.out.jump` with a fan-out of 100000 in the backend's first goroutine — more than all
    the channels of the cycle hold together (5000 + 100 + 100 + 100 + 5000) -/
example : ∀ s, Reach (Step ⟨none, true⟩)
      (init (sourceStages "LookupVertexAdjOut" [1, 100000]) sourceJumpCap [⟨0, 3⟩]) s →
    ¬ Final s → ∃ s', Step ⟨none, true⟩ s s' :=
  (loop_terminates_with_source_capacities true ("LookupVertexAdjOut", 100, "GetOutChannel") (by decide)
    [1, 100000] [⟨0, 3⟩]).1

/-- … and the same cycle with a return queue bounded by the capacities found in queue.go
    (50 + 50) would be blocked by that hub -/
example : ∃ s, Deadlock ⟨some 100, true⟩
    (init ((5000, 100000) :: [100, 100, 100].map (fun c => (c, 1))) 5000 [⟨0, 1⟩]) s :=
  loop_bounded_queue_deadlocks_general 100 5000 5000 [100, 100, 100] true 100000 (by decide)

/-- `loop_terminates_with_table_capacities`: any body whose channel capacities are taken from the
    regenerated table (`Gen.allCaps`: every capacity tools/extract found in the engine) -/
theorem loop_terminates_with_table_capacities (emit : Bool) (stages : List (Nat × Nat)) (jcap : Nat)
    (input : List Trav) (hs : ∀ st ∈ stages, st.1 ∈ Grip.C07.Gen.allCaps) (hj : jcap ∈ Grip.C07.Gen.allCaps) :
    (∀ s, Reach (Step ⟨none, emit⟩) (init stages jcap input) s → ¬ Final s → ∃ s', Step ⟨none, emit⟩ s s') ∧
    (∀ s, Reach (Step ⟨none, emit⟩) (init stages jcap input) s → ∃ t, Reach (Step ⟨none, emit⟩) s t ∧ Final t) := by
  have hpos : ∀ c ∈ Grip.C07.Gen.allCaps, 0 < c := by decide
  have hc : ∀ st ∈ stages, 0 < st.1 := fun st hst => hpos _ (hs st hst)
  exact ⟨loop_unbounded_queue_never_stuck emit stages jcap input hc (hpos _ hj),
    (loop_unbounded_queue_terminates emit stages jcap input hc (hpos _ hj)).2.2.2⟩

end Grip.Props.C07
