/-
  GripProofs.Props.C08Table — the MODEL's `matchesCond` (Grip/Model/C08.lean) against the
  translation of engine/logic/match.go:MatchesCondition that tools/extract/c08_match.go regenerates
  on every run (GripGen.CoreMatch): the numeric comparisons as Lean functions over Int, the
  statements in front of them and the non-numeric arms as shape strings.
-/
import Grip.Model.C08
import GripGen.CoreMatch

namespace Grip.Props.C08
open Grip Grip.C08

/-- The seven numeric arms: for ALL operands the model evaluates exactly the comparison the Go
    source returns (operands cast by `toNumber`, any failed cast or a range argument that is not a
    two-element slice giving `false`: `cmp2`, `range3`). -/
theorem match_numeric_arms_match_source (numOf : String → Option Int) (v arg : JV) :
    matchesCond numOf v .gt arg = cmp2 numOf v arg GripGen.CoreMatch.GT ∧
    matchesCond numOf v .gte arg = cmp2 numOf v arg GripGen.CoreMatch.GTE ∧
    matchesCond numOf v .lt arg = cmp2 numOf v arg GripGen.CoreMatch.LT ∧
    matchesCond numOf v .lte arg = cmp2 numOf v arg GripGen.CoreMatch.LTE ∧
    matchesCond numOf v .inside arg = range3 numOf v arg (fun x lo hi => GripGen.CoreMatch.INSIDE lo hi x) ∧
    matchesCond numOf v .outside arg = range3 numOf v arg (fun x lo hi => GripGen.CoreMatch.OUTSIDE lo hi x) ∧
    matchesCond numOf v .between arg = range3 numOf v arg (fun x lo hi => GripGen.CoreMatch.BETWEEN lo hi x) :=
  ⟨rfl, rfl, rfl, rfl, rfl, rfl, rfl⟩

/-- What `cmp2` / `range3` / the equality and list arms of the model stand for, in the notation of
    the regenerated shapes. -/
def expectedShapes : List (String × String) := [
  ("EQ", "return reflect.DeepEqual(val, condVal)"),
  ("NEQ", "return !reflect.DeepEqual(val, condVal)"),
  ("GT", "valN=toNumber(val); condN=toNumber(condVal)"),
  ("GTE", "valN=toNumber(val); condN=toNumber(condVal)"),
  ("LT", "valN=toNumber(val); condN=toNumber(condVal)"),
  ("LTE", "valN=toNumber(val); condN=toNumber(condVal)"),
  ("INSIDE", "vals=cast.ToSliceE(condVal); require !(len(vals) != 2); lower=toNumber(vals[0]); upper=toNumber(vals[1]); valF=toNumber(val)"),
  ("OUTSIDE", "vals=cast.ToSliceE(condVal); require !(len(vals) != 2); lower=toNumber(vals[0]); upper=toNumber(vals[1]); valF=toNumber(val)"),
  ("BETWEEN", "vals=cast.ToSliceE(condVal); require !(len(vals) != 2); lower=toNumber(vals[0]); upper=toNumber(vals[1]); valF=toNumber(val)"),
  ("WITHIN", "found:=false; switch condVal { []interface{}: for v in condVal { if reflect.DeepEqual(val, v) { found = true } } | nil: found = false | default: log }; return found"),
  ("WITHOUT", "found:=false; switch condVal { []interface{}: for v in condVal { if reflect.DeepEqual(val, v) { found = true } } | nil: found = false | default: log }; return !found"),
  ("CONTAINS", "found:=false; switch val { []interface{}: for v in val { if reflect.DeepEqual(v, condVal) { found = true } } | nil: found = false | default: log }; return found")
]

/-- The arms of the source have the shapes the model was written from (operand casts and their
    order, the length-2 requirement, DeepEqual equality, the membership loops and their polarity). -/
theorem match_shapes_match_source : GripGen.CoreMatch.shapes = expectedShapes := rfl

/-- Sanity of the translation on concrete numbers (a test, not the claim): the generated functions
    are the strict / half-open comparisons the documentation describes. -/
example : GripGen.CoreMatch.INSIDE 1 3 2 = true ∧ GripGen.CoreMatch.INSIDE 1 3 1 = false ∧
    GripGen.CoreMatch.BETWEEN 1 3 1 = true ∧ GripGen.CoreMatch.BETWEEN 1 3 3 = false ∧
    GripGen.CoreMatch.OUTSIDE 1 3 3 = false ∧ GripGen.CoreMatch.OUTSIDE 1 3 4 = true := by decide

end Grip.Props.C08
