/-
  Props.C05 — every exposed RPC is mediated by authentication and per-graph authorization.

  `tables` is GripGen.AuthTables.tables, regenerated from the grip tree on every check run
  (service descriptors, accounts.MethodMap, both interceptors as statement lists per path,
  getUnaryRequestGraph, BulkWriteFilter.RecvMsg, the gateway shims, the wiring in server.Serve).
  `intercept tables tr m p` is the MODEL (Grip.Model.C05): what the interceptor chain does with
  call `p` to descriptor method `m` arriving over transport `tr`.

  Quantifiers: the methods are closed by `decide` over the regenerated table (theorems
  `table_complete`, `gateway_shims`, `serve_*`); credentials (`p.validate`, `p.md`), policies
  (`p.enforce`), requests (`p.req`, `p.elems`) are arbitrary (lemmas in GripProofs/Lemmas/C05).
-/
import Grip.Model.C05
import Grip.Model.C05Check
import Grip.Spec.C05
import GripGen.AuthTables
import GripProofs.Lemmas.C05

namespace Grip.Props.C05
open Grip Grip.C05 Grip.C05.Spec GripGen.AuthTables

/-! ## The tie: what the regenerated tables must satisfy (finite, by `decide`) -/

/-- The translator recognised every statement of the anchored functions. -/
theorem extraction_clean : tables.unrecognised = [] := by decide

/-- Every method of every service descriptor is completely tabled: the SPEC classifies it,
    accounts.MethodMap has that class under the name grpc uses, its request type is known, and
    the interceptor path for it (unary: plus the getUnaryRequestGraph case of the right request
    type; streams: an explicit arm) has a mediating shape. -/
theorem table_complete : ∀ m ∈ tables.methods, methodOk tables m = true := by decide

/-- No bidirectional stream is exposed (the stream interceptor has no path for one). -/
theorem no_bidi : ∀ m ∈ tables.methods, m.kind ≠ .bidi := by decide

/-- The SPEC classifies exactly the exposed methods (no stale SPEC entry, none missing). -/
theorem spec_covers_exactly :
    (∀ m ∈ tables.methods, (opOf m.full).isSome = true) ∧
    (∀ e ∈ opTable, tables.methods.any (fun m => m.full == e.1) = true) := by decide

/-- Every descriptor method has a gateway shim that enters the same interceptor with the same
    FullMethod, stream flags and handler as grpc.Server does. -/
theorem gateway_shims : ∀ m ∈ tables.methods, shimOk tables m = true := by decide

/-- server.Serve: the single grpc.Server gets the account interceptors first in both chains. -/
theorem serve_grpc_chain : grpcChainOk tables.serve = true := by decide

/-- server.Serve registers every service on that server, each with a direct client behind the
    HTTP gateway. -/
theorem serve_services : servicesOk tables = true := by decide

/-- server.Serve builds EVERY direct client with both account interceptors (the full statement,
    since fix c9024ba; it used to fail for the Configure client around `&nullPluginServer{}`, see
    `serve_gateway_chain_gap`). -/
theorem serve_gateway_chain : gatewayChainOk tables.serve = true := by decide

/-- What the wiring gives over HTTP: for every service of the table, with plugins enabled or not,
    a unary and a streaming request without valid credentials are both refused (this is the MODEL's
    answer to the `serve` line of the correspondence run, which asks the real `server.Serve`). -/
theorem serve_gateway_refuses :
    ∀ svc ∈ ["Query", "Job", "Edit", "Configure"], ∀ plugins streaming,
      gatewayRefuses tables.serve plugins svc streaming = true := by decide

/-- In general: a wiring in which every direct client is chained refuses every unauthenticated
    gateway request for a service that has a client. -/
theorem chained_wiring_refuses (s : ServeWiring) (h : gatewayChainOk s = true) (plugins : Bool)
    (svc : String) (streaming : Bool) (hne : (gatewayClients s plugins svc).isEmpty = false) :
    gatewayRefuses s plugins svc streaming = true := by
  unfold gatewayRefuses
  simp only [hne, Bool.not_false, Bool.true_and, List.all_eq_true]
  intro c hc
  have hmem : c ∈ s.directClients := (List.mem_filter.1 hc).1
  have hch := (List.all_eq_true.1 h) c hmem
  unfold clientChained at hch
  simp only [Bool.and_eq_true, decide_eq_true_eq] at hch
  split <;> simp [hch.1, hch.2]

/-- The statement failed for the wiring read from the tree before fix c9024ba (frozen copy of that
    entry; finding C05-nullplugin-unchained, reproduced over HTTP: `/v1/plugin` and `/v1/driver`
    answered 200 without credentials). -/
theorem serve_gateway_chain_gap :
    gatewayChainOk { tables.serve with directClients :=
      [{ ctor := "NewConfigureDirectClient", impl := "&nullPluginServer{}", unaryOpt := none, streamOpt := none }] } = false := by
  decide

/-! ## MODEL meets SPEC, all credentials / policies / requests -/

/-- For every exposed method, the gRPC interceptor chain decides exactly as the SPEC prescribes. -/
theorem model_meets_spec :
    ∀ m ∈ tables.methods, ∀ op, opOf m.full = some op → ∀ p : Caller, p.wf tables m →
      ofResult (interceptGrpc tables m p) = decision p op m.kind :=
  fun m hm op hop p hwf => Lemmas.grpc_meets_spec tables m op hop (table_complete m hm) p hwf

/-- The handler runs with the same messages on both transports. -/
theorem gateway_same_effect :
    ∀ m ∈ tables.methods, ∀ p : Caller,
      (interceptGateway tables m p).handled = (interceptGrpc tables m p).handled :=
  fun m hm p => Lemmas.gateway_handled_eq_grpc tables m (gateway_shims m hm) p

/-- gateway_same_chain, PARTIAL: a gateway call is decided exactly like the gRPC call, for every
    method whose shim hands the interceptor's error back.  Missing: Edit/BulkAdd, whose shim
    discards it (`go shim.streamServerInt(…)`): open finding C05-gateway-bulk-hang,
    `gateway_bulk_refusal_hangs`. -/
theorem gateway_same_chain_partial :
    ∀ m ∈ tables.methods, shimReportsErrors tables m = true → ∀ p : Caller,
      interceptGateway tables m p = interceptGrpc tables m p :=
  fun m hm hr p => Lemmas.gateway_eq_grpc tables m (gateway_shims m hm) hr p

/-- The carve-out is exactly BulkAdd. -/
theorem gateway_errors_reported :
    ∀ m ∈ tables.methods, m.full ≠ "/gripql.Edit/BulkAdd" → shimReportsErrors tables m = true := by decide

private def bulkAdd : MethodDesc :=
  { service := "gripql.Edit", name := "BulkAdd", full := "/gripql.Edit/BulkAdd", kind := .clientStream,
    reqType := "GraphElement", client := "EditDirectClient", handler := "_Edit_BulkAdd_Handler" }

private def anonymous : Caller :=
  { validate := fun _ => none, enforce := fun _ _ _ => true, md := [],
    req := ⟨"GraphElement", some "g1", "r"⟩, elems := [⟨"GraphElement", some "g1", "v0"⟩] }

/-- The BulkAdd shim as generated at the time of writing (frozen copy: repairing the generated
    code must not break this file; whether today's tree still has it is what the correspondence
    run and the KNOWN-FINDING replay establish). -/
private def frozenBulkShim : Tables :=
  { (default : Tables) with
    methods := [bulkAdd],
    streamPrefix := [.validate "Unauthenticated"],
    clientArms := [("/gripql.Edit/BulkAdd", [.handler .bulkFilter])],
    bulk := idealBulk "GraphElement",
    gateway := [{ client := "EditDirectClient", name := "BulkAdd", full := "/gripql.Edit/BulkAdd", viaUnary := false,
                  viaStream := true, isServerStream := false, isClientStream := true,
                  handler := "_Edit_BulkAdd_Handler", dropsError := true }] }

/-- Negation of the full `gateway_same_chain` on a concrete witness: an unauthenticated BulkAdd
    through such a gateway shim is refused (no element reaches the handler) but the caller gets
    no authentication error, where the gRPC call gets Unauthenticated. -/
theorem gateway_bulk_refusal_hangs :
    shimOk frozenBulkShim bulkAdd = true ∧
    interceptGateway frozenBulkShim bulkAdd anonymous = ⟨.hang, none, []⟩ ∧
    interceptGrpc frozenBulkShim bulkAdd anonymous = ⟨.unauthenticated, none, []⟩ := by decide

/-- On either transport: whether the handler runs, and with which messages, is what the SPEC says. -/
theorem effect_meets_spec :
    ∀ m ∈ tables.methods, ∀ op, opOf m.full = some op → ∀ (tr : Transport) (p : Caller), p.wf tables m →
      (intercept tables tr m p).handled = (decision p op m.kind).handled := by
  intro m hm op hop tr p hwf
  have h := model_meets_spec m hm op hop p hwf
  have hh : (interceptGrpc tables m p).handled = (decision p op m.kind).handled := by
    rw [← h]; rfl
  cases tr with
  | grpc => exact hh
  | gateway => exact (gateway_same_effect m hm p).trans hh

/-! ## The property's clauses -/

/-- unary_mediated: a unary method's handler runs only with the caller's own request, and only if
    the credentials validate to a user whom the policy grants the method's operation class on
    the graph named in the request.  Both transports. -/
theorem unary_mediated :
    ∀ m ∈ tables.methods, m.kind = .unary → ∀ op, opOf m.full = some op →
    ∀ (tr : Transport) (p : Caller), p.wf tables m → ∀ rs,
      (intercept tables tr m p).handled = some rs →
        rs = [p.req] ∧ ∃ u, p.validate p.md = some u ∧ p.enforce u (graphOf p.req) op = true := by
  intro m hm hk op hop tr p hwf rs h
  rw [effect_meets_spec m hm op hop tr p hwf] at h
  exact Lemmas.decision_handled p op m.kind (by rw [hk]; decide) rs h

/-- stream_mediated (server streams: Traversal, ListTables, ListJobs, SearchJobs, ViewJob,
    ResumeJob): same statement. -/
theorem stream_mediated :
    ∀ m ∈ tables.methods, m.kind = .serverStream → ∀ op, opOf m.full = some op →
    ∀ (tr : Transport) (p : Caller), p.wf tables m → ∀ rs,
      (intercept tables tr m p).handled = some rs →
        rs = [p.req] ∧ ∃ u, p.validate p.md = some u ∧ p.enforce u (graphOf p.req) op = true := by
  intro m hm hk op hop tr p hwf rs h
  rw [effect_meets_spec m hm op hop tr p hwf] at h
  exact Lemmas.decision_handled p op m.kind (by rw [hk]; decide) rs h

/-- stream_mediated (client streams: BulkAdd): the handler receives exactly the elements whose own
    graph the policy lets the validated user write — element by element, order kept. -/
theorem bulk_filtered :
    ∀ m ∈ tables.methods, m.kind = .clientStream → ∀ op, opOf m.full = some op →
    ∀ (tr : Transport) (p : Caller), p.wf tables m → ∀ rs,
      (intercept tables tr m p).handled = some rs →
        op = .write ∧ ∃ u, p.validate p.md = some u ∧
          rs = p.elems.filter (fun e => p.enforce u (graphOf e) .write) := by
  intro m hm hk op hop tr p hwf rs h
  rw [effect_meets_spec m hm op hop tr p hwf, hk] at h
  have hw : op = .write := by
    have := table_complete m hm
    unfold methodOk at this
    rw [hop] at this
    cases hg : hasGraph tables m.reqType with
    | none => simp [hg] at this
    | some b =>
      simp only [hg, kindOk, hk, Bool.and_eq_true, decide_eq_true_eq] at this
      exact this.2.2
  subst hw
  exact ⟨rfl, Lemmas.decision_handled_client p .write rs h⟩

/-- … so no element of a graph the user may not write reaches the handler, and none that he may
    write is dropped. -/
theorem bulk_elementwise :
    ∀ m ∈ tables.methods, m.kind = .clientStream → ∀ op, opOf m.full = some op →
    ∀ (tr : Transport) (p : Caller), p.wf tables m → ∀ rs,
      (intercept tables tr m p).handled = some rs →
        ∃ u, p.validate p.md = some u ∧
          ∀ e, e ∈ rs ↔ (e ∈ p.elems ∧ p.enforce u (graphOf e) .write = true) := by
  intro m hm hk op hop tr p hwf rs h
  obtain ⟨_, u, hu, hrs⟩ := bulk_filtered m hm hk op hop tr p hwf rs h
  exact ⟨u, hu, fun e => by rw [hrs]; simp [List.mem_filter]⟩

/-- denied_no_effect: without validated credentials that the policy grants the operation class
    on the request's graph, the handler is not invoked (either transport) and the gRPC call fails
    with Unauthenticated or PermissionDenied. -/
theorem denied_no_effect :
    ∀ m ∈ tables.methods, m.kind ≠ .clientStream → ∀ op, opOf m.full = some op →
    ∀ (p : Caller), p.wf tables m → ¬ Granted p (graphOf p.req) op →
      (∀ tr, (intercept tables tr m p).handled = none) ∧
      ((interceptGrpc tables m p).err = .unauthenticated ∨ (interceptGrpc tables m p).err = .denied) ∧
      (interceptGateway tables m p).err = (interceptGrpc tables m p).err := by
  intro m hm hk op hop p hwf hng
  have hd := Lemmas.decision_refused p op m.kind hk hng
  have hmm := model_meets_spec m hm op hop p hwf
  refine ⟨fun tr => by rw [effect_meets_spec m hm op hop tr p hwf]; exact hd.1, ?_, ?_⟩
  · have : (interceptGrpc tables m p).err = (decision p op m.kind).err := by rw [← hmm]; rfl
    rw [this]; exact hd.2
  · have hne : m.full ≠ "/gripql.Edit/BulkAdd" := by
      intro hf
      have : ∀ m' ∈ tables.methods, m'.full = "/gripql.Edit/BulkAdd" → m'.kind = .clientStream := by decide
      exact hk (this m hm hf)
    rw [gateway_same_chain_partial m hm (gateway_errors_reported m hm hne) p]

/-- … and a bulk stream without valid credentials never reaches the handler at all. -/
theorem bulk_unauthenticated_no_effect :
    ∀ m ∈ tables.methods, m.kind = .clientStream → ∀ op, opOf m.full = some op →
    ∀ (p : Caller), p.wf tables m → p.validate p.md = none →
      (∀ tr, (intercept tables tr m p).handled = none) ∧ (interceptGrpc tables m p).err = .unauthenticated := by
  intro m hm _ op hop p hwf hv
  have hd := Lemmas.decision_unauthenticated p op m.kind hv
  have hmm := model_meets_spec m hm op hop p hwf
  refine ⟨fun tr => by rw [effect_meets_spec m hm op hop tr p hwf, hd], ?_⟩
  have : (interceptGrpc tables m p).err = (decision p op m.kind).err := by rw [← hmm]; rfl
  rw [this, hd]

/-- open_when_unconfigured: with no accounts configured (NullAuth, NullAccess) every exposed
    method's handler runs with the caller's messages, on both transports, and the call succeeds. -/
theorem open_when_unconfigured :
    ∀ m ∈ tables.methods, ∀ (tr : Transport) (p : Caller), p.wf tables m →
      p.validate = nullValidate → p.enforce = nullEnforce →
        (intercept tables tr m p).handled = some (if m.kind = .clientStream then p.elems else [p.req]) ∧
        (intercept tables tr m p).err = .ok := by
  intro m hm tr p hwf hv he
  have hsome := (spec_covers_exactly.1 m hm)
  cases hop : opOf m.full with
  | none => simp [hop] at hsome
  | some op =>
    have hd := Lemmas.decision_null p op m.kind hv he
    have hmm := model_meets_spec m hm op hop p hwf
    have hh : (interceptGrpc tables m p).handled = some (if m.kind = .clientStream then p.elems else [p.req]) := by
      have : (interceptGrpc tables m p).handled = (decision p op m.kind).handled := by rw [← hmm]; rfl
      rw [this, hd]
    have herr : (interceptGrpc tables m p).err = .ok := by
      have : (interceptGrpc tables m p).err = (decision p op m.kind).err := by rw [← hmm]; rfl
      rw [this, hd]
    cases tr with
    | grpc => exact ⟨hh, herr⟩
    | gateway =>
      have := Lemmas.gateway_eq_grpc_of_handled tables m (gateway_shims m hm) p (by rw [hh]; rfl)
      show (interceptGateway tables m p).handled = _ ∧ (interceptGateway tables m p).err = _
      rw [this]; exact ⟨hh, herr⟩

/-! ## Non-vacuity and sensitivity of the statements (examples over concrete callers) -/

private def getVertex : MethodDesc :=
  { service := "gripql.Query", name := "GetVertex", full := "/gripql.Query/GetVertex", kind := .unary,
    reqType := "ElementID", client := "QueryDirectClient", handler := "_Query_GetVertex_Handler" }

private def alice (grants : List (String × String × Op)) (elems : List Req) : Caller :=
  { validate := fun md => if md.lookup "authorization" == some ["t-alice"] then some "alice" else none,
    enforce := fun u g o => grants.contains (u, g, o),
    md := [("authorization", ["t-alice"])],
    req := ⟨"ElementID", some "g1", "v1"⟩,
    elems := elems }

private def twoElems : List Req := [⟨"GraphElement", some "g1", "a"⟩, ⟨"GraphElement", some "g2", "b"⟩]

-- the hypotheses are satisfiable: a well-formed, granted call exists and its handler runs
example : getVertex ∈ tables.methods ∧ (alice [("alice", "g1", .read)] []).wf tables getVertex :=
  ⟨by decide, ⟨rfl, by decide⟩, fun e he => by simp [alice] at he⟩
example : (intercept tables .grpc getVertex (alice [("alice", "g1", .read)] [])).handled
    = some [⟨"ElementID", some "g1", "v1"⟩] := by decide
-- a grant of another class, on another graph, or to another user does not do
example : (intercept tables .grpc getVertex (alice [("alice", "g1", .write), ("alice", "g2", .read), ("bob", "g1", .read)] []))
    = ⟨.denied, none, [("alice", "g1", .read)]⟩ := by decide
-- bulk: only the g1 element passes when only g1 is writable
example : (intercept tables .gateway bulkAdd (alice [("alice", "g1", .write)] twoElems)).handled
    = some [⟨"GraphElement", some "g1", "a"⟩] := by decide

end Grip.Props.C05
