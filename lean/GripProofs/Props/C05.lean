import Grip.Model.C05
import Grip.Spec.C05
import GripGen.AuthTables

namespace Grip.Props.C05
end Grip.Props.C05
