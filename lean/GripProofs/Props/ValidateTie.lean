/-
  GripProofs.Props.ValidateTie — the hand-written copies of gripql.validate's denylist in the models
  (`Grip.C03.badChars` for graph names and field names of the storage model, `Grip.forbiddenChars`
  for the typing model's `validFieldName`) against the denylist the translator reads from
  gripql/util.go on every run (`GripGen.SqlSites.validateBlacklist`, `validatePrefixes`).
  NUL, which the source lists first, is handled by the models' separate NUL-freeness predicates.
-/
import Grip.Model.C03
import Grip.Model.Typing
import GripGen.SqlSites

namespace Grip.Props.C16

theorem validate_denylist_matches_source :
    Grip.C03.badChars = GripGen.SqlSites.validateBlacklist.toList.filter (· != '\x00') ∧
    Grip.forbiddenChars = GripGen.SqlSites.validateBlacklist.toList.filter (· != '\x00') ∧
    GripGen.SqlSites.validateBlacklist.toList.contains '\x00' = true ∧
    GripGen.SqlSites.validatePrefixes = ["_", "-"] := by decide

end Grip.Props.C16
