/-
  C03 / C04 — translator tie for the write paths of kvgraph (tools/extract/c03_writes.go → GripGen.KVWrites,
  regenerated from /repo's kvgraph/graph.go, kvgraph/graphdb.go and kvindex/kvindex.go on every run).

  The MODEL (`Grip.C03.step`, Grip/Model/C03.lean; `Grip.C04.writes`, the same code as its top-level writes)
  assumes, per Go function, WHICH store calls are issued, in WHICH order, through WHICH key constructor and
  inside WHICH transaction.  The correspondence run can only see the effect of those assumptions on complete,
  uninterrupted calls; crash points (C04) and interleavings (C17) are where a write moved out of its
  transaction, reordered or addressed through another constructor shows.  The expectation below is written
  next to the model text it stands for; `writes_match_source` proves today's source has exactly that shape.
-/
import GripGen.KVWrites

namespace Grip.Props.C03

/-- what the model assumes (row = function, scope, receiver, method, key constructor) -/
def expectedWrites : List (String × String × String × String × String) := [
  -- AddVertex / AddEdge / BulkAdd: ONE BulkWrite around the element loop (`addElems`: `insertAll` then one
  -- conditional `touch`); the stamp is touched inside it, after the loop
  ("AddVertex", "top", "kv", "BulkWrite", ""),
  ("AddVertex", "BulkWrite", "", "call insertVertex", ""),
  ("AddVertex", "BulkWrite", "ts", "Touch", ""),
  -- insertVertex: refusal before any write (`validVertex`, CheckDoc), then Set(vertex key), then AddDocTx
  -- (`insertVertex`: `addDoc fields (m.set (.vertex g v.gid) …)`)
  ("insertVertex", "top", "idx", "CheckDoc", ""),
  ("insertVertex", "top", "tx", "Set", "VertexKey"),
  ("insertVertex", "top", "idx", "AddDocTx", ""),
  -- insertEdge: refusal before any write, then Set(edge), Set(src), Set(dst), AddDocTx (`insertEdge`)
  ("insertEdge", "top", "idx", "CheckDoc", ""),
  ("insertEdge", "top", "tx", "Set", "EdgeKey"),
  ("insertEdge", "top", "tx", "Set", "SrcEdgeKey"),
  ("insertEdge", "top", "tx", "Set", "DstEdgeKey"),
  ("insertEdge", "top", "idx", "AddDocTx", ""),
  ("AddEdge", "top", "kv", "BulkWrite", ""),
  ("AddEdge", "BulkWrite", "", "call insertEdge", ""),
  ("AddEdge", "BulkWrite", "ts", "Touch", ""),
  ("BulkAdd", "top", "kv", "BulkWrite", ""),
  ("BulkAdd", "BulkWrite", "", "call insertVertex", ""),
  ("BulkAdd", "BulkWrite", "", "call insertEdge", ""),
  ("BulkAdd", "BulkWrite", "ts", "Touch", ""),
  -- DelEdge: ONE Update deleting the scanned record key and the two adjacency keys (C04 `crash_atomic`,
  -- C17 `atomic_calls_keep_closed`), stamp touched inside
  ("DelEdge", "top", "kv", "Update", ""),
  ("DelEdge", "Update", "tx", "Delete", "it.Key"),
  ("DelEdge", "Update", "tx", "Delete", "SrcEdgeKey"),
  ("DelEdge", "Update", "tx", "Delete", "DstEdgeKey"),
  ("DelEdge", "Update", "ts", "Touch", ""),
  -- DelVertex: ONE Update deleting the vertex key and every collected incident key
  ("DelVertex", "top", "kv", "Update", ""),
  ("DelVertex", "Update", "tx", "Delete", "VertexKey"),
  ("DelVertex", "Update", "tx", "Delete", "range delKeys"),
  ("DelVertex", "Update", "ts", "Touch", ""),
  -- AddGraph: unlisted name ⇒ sweep first (`sweepGraph`), touch, register the label fields, and the graph
  -- key LAST (C04: a crash before it leaves the name unlisted)
  ("AddGraph", "top", "kv", "HasKey", "GraphKey"),
  ("AddGraph", "top", "kgraph", "call deleteGraphData", ""),
  ("AddGraph", "top", "ts", "Touch", ""),
  ("AddGraph", "top", "kgraph", "call setupGraphIndex", ""),
  ("AddGraph", "top", "kv", "Set", "GraphKey"),
  -- DeleteGraph: the graph key FIRST (C04 fix 7dcab5d), then the sweep
  ("DeleteGraph", "top", "ts", "Touch", ""),
  ("DeleteGraph", "top", "kv", "Delete", "GraphKey"),
  ("DeleteGraph", "top", "kgraph", "call deleteGraphData", ""),
  -- the sweep: edges, vertices, by-source, by-destination, index fields (`sweepGraph`, in this order)
  ("deleteGraphData", "top", "kv", "DeletePrefix", "EdgeListPrefix"),
  ("deleteGraphData", "top", "kv", "DeletePrefix", "VertexListPrefix"),
  ("deleteGraphData", "top", "kv", "DeletePrefix", "SrcEdgeListPrefix"),
  ("deleteGraphData", "top", "kv", "DeletePrefix", "DstEdgeListPrefix"),
  ("deleteGraphData", "top", "kgraph", "call deleteGraphIndex", ""),
  -- kvindex (C09's model `Grip.C09`): a field is registered by one Set of its field key, dropped by the
  -- two prefix deletes and the delete of the field key
  ("AddField", "top", "KV", "Set", "FieldKey"),
  ("RemoveField", "top", "KV", "DeletePrefix", "TermPrefix"),
  ("RemoveField", "top", "KV", "DeletePrefix", "EntryPrefix"),
  ("RemoveField", "top", "KV", "Delete", "FieldKey"),
  -- AddDoc: ONE Update that first removes the previous version of the document, then writes the new one
  -- (fix 434cd4c); RemoveDoc: ONE Update around removeDocTx
  ("AddDoc", "top", "KV", "Update", ""),
  ("AddDoc", "Update", "idx", "call removeDocTx", ""),
  ("AddDoc", "Update", "idx", "AddDocTx", ""),
  -- AddDocTx: per indexed value Set(entry key), Set(term key); then Set(doc key) with the entry list
  ("AddDocTx", "top", "tx", "Set", "EntryKey"),
  ("AddDocTx", "top", "tx", "Set", "TermKey"),
  ("AddDocTx", "top", "tx", "Set", "DocKey"),
  ("RemoveDoc", "top", "KV", "Update", ""),
  ("RemoveDoc", "Update", "idx", "call removeDocTx", ""),
  -- removeDocTx: every stored entry deleted, its term deleted (count 0) or re-Set (count - 1), the doc key last
  ("removeDocTx", "top", "tx", "Delete", "range doc.Entries"),
  ("removeDocTx", "top", "tx", "Delete", "TermKey"),
  ("removeDocTx", "top", "tx", "Set", "TermKey"),
  ("removeDocTx", "top", "tx", "Delete", "DocKey")
]

/-- **The write paths of today's kvgraph have the shape the model assumes** (regenerated table). -/
theorem writes_match_source : GripGen.KVWrites.table = expectedWrites := by decide

/-- projections used in the notes: every element write sits inside a BulkWrite, every delete of an
    element inside an Update (no row of a delete or an element insert at top level). -/
theorem element_writes_transactional :
    ∀ r ∈ GripGen.KVWrites.table,
      (r.1 = "DelEdge" ∨ r.1 = "DelVertex") → r.2.2.2.1 = "Delete" → r.2.1 = "Update" := by
  rw [writes_match_source]; decide

end Grip.Props.C03
