/-
  Property C17 — concurrent clients cannot corrupt or crash the server.

  (i)  `lockset_discipline`: over the table regenerated from today's source, every pair of
       conflicting accesses to a shared location holds a common mutex (exclusively for writers) or
       is atomic, or is one of the listed pairs with a stated happens-before / out-of-scope
       argument.  This is a syntactic over-approximation of data-race freedom, not a statement in
       the Go memory model (PARTIAL, see docs/notes/C17.md).
  (ii) at the granularity of atomic top-level writes, an execution of concurrent clients is an
       interleaving of their edit sequences, hence a serial order consistent with each client's own
       order (`atomic_ops_serializable`); the driver's membership test is exactly "some
       interleaving yields the observed graph" (`admissible_iff`); edits with disjoint footprints
       commute, so disjoint sessions have ONE admissible result (`independent_sessions_confluent`);
       DelVertex as coded (View then Update) is NOT atomic and has a non-serialisable interleaving
       (`delVertex_split_not_serializable`, model-level witness).
-/
import Grip.Model.C17
import Grip.Spec.C17
import GripProofs.Lemmas.C17
import GripProofs.Lemmas.C17Serial

namespace Grip.Props.C17
open Grip.C17 Grip.C17.Spec GripGen.SharedAccess Grip.C03 Grip.C03.Spec
open Grip.Props.C17.Lemmas

/-! ## (i) lockset discipline -/

set_option maxRecDepth 1000000 in
/-- the executable whole-table check succeeds on the regenerated table (no open findings needed) -/
theorem table_check : checkTableStrict accesses = true := by decide

/-- every conflicting pair of accesses is guarded or is a listed, justified pair -/
theorem lockset_discipline :
    ∀ a ∈ accesses, ∀ b ∈ accesses, conflicting a b = true →
      guarded a b = true ∨ isJustified a b = true :=
  Lemmas.checkTableStrict_sound accesses table_check

set_option maxRecDepth 1000000 in
/-- no listed exception is stale: each still names a conflicting, unguarded pair of the table -/
theorem exceptions_live : staleEntries = [] := by decide

set_option maxRecDepth 1000000 in
/-- non-vacuity: the table does contain conflicting pairs (they are guarded) -/
example : (accesses.any fun a => accesses.any fun b => conflicting a b && guarded a b) = true := by decide

/-! ## (ii) serialisability at the granularity of atomic writes -/

/-- an execution whose steps are the clients' atomic edits, interleaved in any way, is a serial
    order: it keeps every client's own order and contains exactly the clients' edits -/
theorem atomic_ops_serializable {α : Type} (cs : List (List α)) (zs : List α) (h : MergeN cs zs) :
    (∀ c ∈ cs, c.Sublist zs) ∧ zs.Perm cs.flatten := by
  induction h with
  | nil => exact ⟨by simp, by simp⟩
  | @cons c cs rest zs _ hm ih =>
    refine ⟨?_, ?_⟩
    · intro c' hc'
      rcases List.mem_cons.mp hc' with rfl | hc'
      · exact merge_sublist_left hm
      · exact (ih.1 c' hc').trans (merge_sublist_right hm)
    · have := merge_perm hm
      simpa [List.flatten_cons] using this.trans (List.Perm.append_left c ih.2)

/-- the driver's test is the declarative statement: the observed graph is the result of SOME
    interleaving of the acknowledged edits applied to the abstract graph -/
theorem admissible_iff (init : AG) (cs : List (List Op)) (g : String) (obs : Final) :
    admissible init cs g obs = true ↔
      ∃ zs, MergeN cs zs ∧ (finalOf (specRun init zs) g).same obs = true := by
  simp only [admissible, serialFinals, List.any_map, List.any_eq_true, Function.comp]
  constructor
  · rintro ⟨zs, hz, hs⟩; exact ⟨zs, mergesN_sound _ _ hz, hs⟩
  · rintro ⟨zs, hz, hs⟩; exact ⟨zs, mergesN_complete hz, hs⟩

/-- edits with disjoint footprints commute, so every interleaving of two independent sessions
    yields the state of running one session after the other -/
theorem independent_sessions_confluent {ι : Type} [DecidableEq ι] {xs ys zs : List (FOp ι)}
    (hm : Merge xs ys zs) (hi : ∀ x ∈ xs, ∀ y ∈ ys, indep x y = true) (s : FS ι) :
    FS.run s zs = FS.run s (xs ++ ys) :=
  merge_confluent hm hi s

/-- non-vacuity of the independence hypothesis -/
example : indep (FOp.putV 1 0 : FOp Nat) (FOp.putE 10 2 3 0) = true ∧
    indep (FOp.delV 1 : FOp Nat) (FOp.putE 10 2 3 0) = true := by decide

/-- exception: DelVertex as coded (read transaction, then write transaction) interleaved with
    another client's two edge writes reaches a state that NO serial order reaches -/
theorem delVertex_split_not_serializable :
    ∀ zs, Merge [FOp.delV 1] wClient2 zs → FS.run w0 zs ≠ wSplit := by
  intro zs hm
  have hmem := merges2_complete hm
  simp only [wClient2, merges2, List.map_cons, List.map_nil, List.cons_append, List.nil_append,
    List.mem_cons, List.not_mem_nil, or_false] at hmem
  rcases hmem with rfl | rfl | rfl
  · intro h
    have := congrArg (fun s => s.E 10) h
    revert this; decide
  · intro h
    have := congrArg (fun s => s.E 10) h
    revert this; decide
  · intro h
    have := congrArg (fun s => s.E 11) h
    revert this; decide

/-- … while the atomic DelVertex is one of the serial orders by definition (sanity of the witness:
    the split execution keeps edge 11 and loses edge 10) -/
example : wSplit.E 10 = none ∧ wSplit.E 11 = some (0, 1, 0) ∧ wSplit.V 1 = none := by decide

end Grip.Props.C17
