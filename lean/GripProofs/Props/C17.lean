import Grip.Model.C17
import GripProofs.Lemmas.C17

namespace Grip.Props.C17
open Grip.C17 GripGen.SharedAccess

set_option maxRecDepth 1000000 in
theorem table_check : checkTableStrict accesses = true := by decide

/-- (i) lockset discipline over today's source. -/
theorem lockset_discipline :
    ∀ a ∈ accesses, ∀ b ∈ accesses, conflicting a b = true →
      guarded a b = true ∨ isJustified a b = true :=
  Lemmas.checkTableStrict_sound accesses table_check

end Grip.Props.C17
